(* map/PamThm.v - theorems about the permutation-aware forward pass (map/Pam.v): bookkeeping.
   Proved for every sequence of enabled steps:
     - pi stays a permutation (also through _apply_perm of the chosen pre / post);
     - the front-set bookkeeping is the SABRE one, so at termination every block
       and barrier has been executed exactly once;
     - backtracking removes exactly the leading swaps;
     - every block in the output is an ADMISSIBLE triple for the coupling graph
       induced on the physical qudits it was looked up with, accepted by _can_exe;
       every swap is on an edge.
   The semantic clause (same unitary, under the contract  circ = Po^T . U . Pi  of the
   pre-synthesised triples, which itself is the numerical-synthesis oracle of C03/C10) is
   proved in map/PamSem.v; the definitions it speaks about (fmove, blk, prodP, ptail) are
   at the end of this file. *)
From Coq Require Import List Arith Bool PeanoNat Lia Permutation.
Import ListNotations.
From BQ Require Import lib.Perm lib.PermThm map.Graph map.Sabre map.SabreDag map.SabreThm map.Placement
  map.PlacementThm map.Pam.

Definition psw (e : nat * nat) : pop := PS (fst e) (snd e).
Definition pexecuted (tr : list pstep) : list nat :=
  flat_map (fun t => match t with PExec n _ _ => [n] | PBar n => [n] | _ => [] end) tr.
Definition pids (o : list pop) : list nat :=
  flat_map (fun x => match x with PG n _ _ _ _ => [n] | PB n _ => [n] | PS _ _ => [] end) o.

Lemma pexecuted_app t1 t2 : pexecuted (t1 ++ t2) = pexecuted t1 ++ pexecuted t2.
Proof. apply flat_map_app. Qed.
Lemma pids_app o1 o2 : pids (o1 ++ o2) = pids o1 ++ pids o2.
Proof. apply flat_map_app. Qed.
Lemma pids_swaps es : pids (map psw es) = [].
Proof. induction es; simpl; auto. Qed.

(* ---- pi stays a permutation ------------------------------------------------------------ *)
Lemma pundo_wf n modify : forall sw p o p' o',
  wfperm n p -> pundo modify sw p o = Some (p', o') -> wfperm n p'.
Proof. induction sw as [|e t IH]; simpl; intros p o p' o' Hw H.
  - inversion H; subst; auto.
  - destruct (apply_swap e p) as [p1|] eqn:E; [|discriminate].
    destruct (apply_swap_inv n e p p1 Hw E) as (_ & _ & _ & Hw1).
    destruct modify.
    + destruct (ppop_last_on (fst e) o) as [o1|]; [|discriminate]. eapply IH; eauto.
    + eapply IH; eauto. Qed.

Lemma compose_sub_ok nq qudits r :
  NoDup qudits -> (forall q, In q qudits -> q < nq) -> wfperm (length qudits) r ->
  NoDup (compose qudits r) /\ forall x, In x (compose qudits r) -> x < nq.
Proof. intros Hnd Hr Hw. destruct (compose_injinto nq qudits r) as [H1 H2]; auto.
  - split; auto.
  - apply wfperm_injinto; auto. Qed.

Lemma perm_exec_wf nq cg p qudits pre post es L p2 :
  wfperm nq p -> NoDup qudits -> (forall q, In q qudits -> q < nq) ->
  perm_exec cg p qudits pre post = Some (es, L, p2) -> wfperm nq p2.
Proof. intros Hw Hnd Hr. unfold perm_exec.
  destruct (wfpermb (length qudits) pre && wfpermb (length qudits) post) eqn:Eb; simpl; [|discriminate].
  apply andb_true_iff in Eb as [E1 E2]. apply wfpermb_wfperm in E1, E2.
  destruct (phys p (compose qudits (inverse pre))); [|discriminate].
  destruct (Graph.get_subgraph cg l None); [|discriminate].
  destruct (compose_sub_ok nq qudits (inverse pre) Hnd Hr (wfperm_inverse _ _ E1)) as [N1 R1].
  destruct (apply_perm_sub nq _ p Hw N1 R1) as (p1 & Ep1 & Hw1). rewrite Ep1.
  destruct (phys p1 qudits); [|discriminate].
  destruct (compose_sub_ok nq qudits post Hnd Hr E2) as [N2 R2].
  destruct (apply_perm_sub nq _ p1 Hw1 N2 R2) as (p2' & Ep2 & Hw2). rewrite Ep2.
  intros H; inversion H; subst. exact Hw2. Qed.

Section PamRun.
Variable cg : adj.
Variable c : circ.
Variable bars : list bool.
Variable tbl : ptable.
Variable nq : nat.
Hypothesis Hwfc : wf_circ c nq.

Theorem pstep_wfperm modify s t s' :
  wfperm nq (ppi s) -> do_pstep cg c bars tbl modify s t = Some s' -> wfperm nq (ppi s').
Proof. intros Hw H. destruct t as [n pre post|n|e| |e]; simpl in H.
  - destruct (negb (memb n (pF s)) || nth n bars false) eqn:G; [discriminate|].
    apply orb_false_iff in G as [G _]. apply negb_false_iff in G. apply memb_In in G.
    destruct (can_exe cg (ppi s) (opat c n)) as [[|]|]; try discriminate.
    destruct (cget n (pcnt s)); [|discriminate].
    destruct (perm_exec cg (ppi s) (gloc (opat c n)) pre post) as [[[es L] p2]|] eqn:E; [|discriminate].
    destruct (admissible tbl n es pre post); [|discriminate].
    inversion H; subst; simpl.
    destruct (Nat.lt_ge_cases n (length c)) as [Hn|Hn].
    + destruct (wf_circ_opat c nq n Hwfc Hn) as (_ & Hnd & Hr). eapply perm_exec_wf; eauto.
    + (* out of range: the default operation has an empty location *)
      unfold opat in E. rewrite nth_overflow in E by lia. simpl in E.
      eapply (perm_exec_wf nq cg (ppi s) [] pre post); eauto; [constructor|intros q []].
  - destruct (negb (memb n (pF s)) || negb (nth n bars false)); [discriminate|].
    destruct (cget n (pcnt s)); [|discriminate]. inversion H; subst; auto.
  - destruct (negb (is_edge cg e)); [discriminate|].
    destruct (apply_swap e (ppi s)) as [p|] eqn:E; [|discriminate].
    inversion H; subst; simpl. eapply apply_swap_inv; eauto.
  - destruct (pundo modify (rev (plead s)) (ppi s) (pout s)) as [[p o]|] eqn:E; [|discriminate].
    inversion H; subst; simpl. eapply pundo_wf; eauto.
  - destruct (negb (is_edge cg e)); [discriminate|].
    destruct (plead s); [|discriminate].
    destruct (apply_swap e (ppi s)) as [p|] eqn:E; [|discriminate].
    inversion H; subst; simpl. eapply apply_swap_inv; eauto. Qed.

Theorem preplay_wfperm modify : forall tr s s',
  wfperm nq (ppi s) -> preplay cg c bars tbl modify s tr = Some s' -> wfperm nq (ppi s').
Proof. induction tr as [|t r IH]; simpl; intros s s' Hw H.
  - inversion H; subst; auto.
  - destruct (do_pstep cg c bars tbl modify s t) as [s1|] eqn:E; [|discriminate].
    eapply IH; [|eauto]. eapply pstep_wfperm; eauto. Qed.

(* ---- backtracking ------------------------------------------------------------------------- *)
Lemma ppop_last_snoc base e : ppop_last_on (fst e) (base ++ [psw e]) = Some base.
Proof. unfold ppop_last_on. rewrite rev_app_distr. simpl. rewrite Nat.eqb_refl. simpl.
  rewrite rev_involutive. reflexivity. Qed.

Theorem pundo_spec : forall ld base pib p,
  wfperm nq pib -> apply_swaps ld pib = Some p ->
  pundo true (rev ld) p (base ++ map psw ld) = Some (pib, base).
Proof. induction ld as [|e l IH] using rev_ind; intros base pib p Hw H.
  - simpl in *. inversion H; subst. rewrite app_nil_r. reflexivity.
  - rewrite apply_swaps_snoc in H. destruct (apply_swaps l pib) as [pm|] eqn:El; [|discriminate].
    destruct (apply_swaps_wf nq l pib pm Hw El) as (Hwm & _ & _).
    destruct (apply_swap_inv nq e pm p Hwm H) as (Ha & Hb & Hp & Hwp).
    rewrite rev_app_distr. simpl.
    assert (Eback : apply_swap e p = Some pm).
    { destruct e as [a b]; simpl in *. destruct (apply_swap_wfperm nq a b p Hwp Ha Hb) as [E _].
      rewrite E, Hp, map_tr_invol. reflexivity. }
    rewrite Eback. rewrite map_app. simpl. rewrite app_assoc, ppop_last_snoc.
    apply IH; auto. Qed.

(* ---- the run invariant (forward pass writing the circuit) ---------------------------------- *)
Variable pi0 : list nat.
Hypothesis Hpi0 : wfperm nq pi0.

(* what is known about an element of the mapped circuit *)
Definition padm (x : pop) : Prop :=
  match x with
  | PG n L pre post es =>
      n < length c /\ nth n bars false = false /\ admissible tbl n es pre post = true /\
      exists p p2, wfperm nq p /\ can_exe cg p (opat c n) = Some true /\
                   perm_exec cg p (gloc (opat c n)) pre post = Some (es, L, p2)
  | PB n L => n < length c /\ nth n bars false = true /\ L = gloc (opat c n)
  | PS a b => is_edge cg (a, b) = true /\ a < nq /\ b < nq
  end.

Record PInv (ex : list nat) (s : pstate) : Prop := {
  pi_F : FInv c ex (pF s) (pcnt s);
  pi_pi : wfperm nq (ppi s);
  pi_base : exists base pib, pout s = base ++ map psw (plead s) /\ wfperm nq pib
                             /\ apply_swaps (plead s) pib = Some (ppi s);
  pi_ids : pids (pout s) = ex;
  pi_adm : forall x, In x (pout s) -> padm x }.

Lemma PInv_init : PInv [] (pinit c nq pi0).
Proof. unfold pinit. constructor; simpl.
  - apply FInv_init with (nq := nq). exact Hwfc.
  - exact Hpi0.
  - exists [], pi0. split; [reflexivity|split; [exact Hpi0|reflexivity]].
  - reflexivity.
  - intros x []. Qed.

Theorem PInv_step ex s t s' :
  PInv ex s -> do_pstep cg c bars tbl true s t = Some s' -> PInv (ex ++ pexecuted [t]) s'.
Proof. intros [HF Hpi (base & pib & Hout & Hwpib & Hlead) Hids Hadm] H.
  pose proof (pstep_wfperm true s t s' Hpi H) as Hpi'.
  destruct t as [n pre post|n|e| |e]; simpl in H; simpl pexecuted.
  - destruct (negb (memb n (pF s)) || nth n bars false) eqn:G; [discriminate|].
    apply orb_false_iff in G as [G Gb]. apply negb_false_iff in G. apply memb_In in G.
    destruct (can_exe cg (ppi s) (opat c n)) as [[|]|] eqn:Hce; try discriminate.
    destruct (cget n (pcnt s)); [|discriminate].
    destruct (perm_exec cg (ppi s) (gloc (opat c n)) pre post) as [[[es L] p2]|] eqn:E; [|discriminate].
    destruct (admissible tbl n es pre post) eqn:Ea; [|discriminate].
    inversion H; subst s'; clear H. simpl in Hpi'.
    pose proof (FInv_exec c ex (pF s) (pcnt s) n HF G) as HF'. cbv zeta in HF'.
    destruct (proj1 (fi_F c _ _ _ HF n) G) as (HnN & _ & _).
    constructor; simpl.
    + exact HF'.
    + exact Hpi'.
    + exists (pout s ++ [PG n L pre post es]), p2.
      split; [rewrite app_nil_r; reflexivity|split; [exact Hpi'|reflexivity]].
    + rewrite pids_app, Hids. simpl. rewrite ?app_nil_r. reflexivity.
    + intros x Hx. apply in_app_iff in Hx as [Hx|[<-|[]]]; auto. simpl.
      split; [exact HnN|]. split; [exact Gb|]. split; [exact Ea|]. exists (ppi s), p2. auto.
  - destruct (negb (memb n (pF s)) || negb (nth n bars false)) eqn:G; [discriminate|].
    apply orb_false_iff in G as [G Gb]. apply negb_false_iff in G. apply memb_In in G.
    apply negb_false_iff in Gb.
    destruct (cget n (pcnt s)); [|discriminate].
    inversion H; subst s'; clear H. simpl in Hpi'.
    pose proof (FInv_exec c ex (pF s) (pcnt s) n HF G) as HF'. cbv zeta in HF'.
    destruct (proj1 (fi_F c _ _ _ HF n) G) as (HnN & _ & _).
    constructor; simpl.
    + exact HF'.
    + exact Hpi.
    + exists (pout s ++ [PB n (gloc (opat c n))]), (ppi s).
      split; [rewrite app_nil_r; reflexivity|split; [exact Hpi|reflexivity]].
    + rewrite pids_app, Hids. simpl. rewrite ?app_nil_r. reflexivity.
    + intros x Hx. apply in_app_iff in Hx as [Hx|[<-|[]]]; auto. simpl. auto.
  - destruct (is_edge cg e) eqn:He; simpl in H; [|discriminate].
    destruct (apply_swap e (ppi s)) as [p|] eqn:E; [|discriminate].
    inversion H; subst s'; clear H. rewrite app_nil_r.
    destruct (apply_swap_inv nq e (ppi s) p Hpi E) as (Ha & Hb & Hp & Hwp).
    constructor; simpl; auto.
    + exists base, pib. split; [|split; [exact Hwpib|]].
      * rewrite Hout, map_app, app_assoc. reflexivity.
      * rewrite apply_swaps_snoc, Hlead. exact E.
    + rewrite pids_app, Hids. simpl. rewrite ?app_nil_r. reflexivity.
    + intros x Hx. apply in_app_iff in Hx as [Hx|[<-|[]]]; auto.
      simpl. destruct e; simpl in *. auto.
  - rewrite Hout in H. rewrite (pundo_spec (plead s) base pib (ppi s) Hwpib Hlead) in H.
    inversion H; subst s'; clear H. rewrite app_nil_r.
    constructor; simpl; auto.
    + exists base, pib. split; [rewrite app_nil_r; reflexivity|split; [exact Hwpib|reflexivity]].
    + rewrite <- Hids, Hout, pids_app, pids_swaps, app_nil_r. reflexivity.
    + intros x Hx. apply Hadm. rewrite Hout. apply in_app_iff. auto.
  - destruct (is_edge cg e) eqn:He; simpl in H; [|discriminate].
    destruct (plead s) eqn:Hl; [|discriminate].
    destruct (apply_swap e (ppi s)) as [p|] eqn:E; [|discriminate].
    inversion H; subst s'; clear H. rewrite app_nil_r.
    destruct (apply_swap_inv nq e (ppi s) p Hpi E) as (Ha & Hb & Hp & Hwp).
    constructor; simpl; auto.
    + exists (pout s ++ [PS (fst e) (snd e)]), p.
      split; [rewrite app_nil_r; reflexivity|split; [exact Hwp|reflexivity]].
    + rewrite pids_app, Hids. simpl. rewrite ?app_nil_r. reflexivity.
    + intros x Hx. apply in_app_iff in Hx as [Hx|[<-|[]]]; auto.
      simpl. destruct e; simpl in *. auto. Qed.

Theorem PInv_replay : forall tr ex s s',
  PInv ex s -> preplay cg c bars tbl true s tr = Some s' -> PInv (ex ++ pexecuted tr) s'.
Proof. induction tr as [|t r IH]; intros ex s s' HI H.
  - simpl in H. inversion H; subst. simpl. rewrite app_nil_r. exact HI.
  - cbn [preplay] in H. destruct (do_pstep cg c bars tbl true s t) as [s1|] eqn:E; [|discriminate].
    pose proof (PInv_step ex s t s1 HI E) as HI1. specialize (IH _ _ _ HI1 H).
    change (t :: r) with ([t] ++ r). rewrite pexecuted_app, app_assoc. exact IH. Qed.

(* the PAM routing run: blocks of the output = executed operations in order, each an admissible
   triple; at termination every operation of the input occurs exactly once *)
Theorem pam_run tr s :
  preplay cg c bars tbl true (pinit c nq pi0) tr = Some s ->
  wfperm nq (ppi s) /\ pids (pout s) = pexecuted tr /\ NoDup (pexecuted tr) /\
  (forall x, In x (pout s) -> padm x) /\
  (pF s = [] -> Permutation (pids (pout s)) (seq 0 (length c))).
Proof. intros H. pose proof (PInv_replay tr [] _ _ PInv_init H) as [HF Hpi _ Hids Hadm]. simpl in *.
  split; [exact Hpi|]. split; [exact Hids|]. split; [apply (fi_nodup c _ _ _ HF)|]. split; [exact Hadm|].
  intros HF0. rewrite HF0 in HF. rewrite Hids.
  apply NoDup_Permutation; [apply (fi_nodup c _ _ _ HF)|apply seq_NoDup|].
  intros x. split.
  - intros Hx. apply in_seq. pose proof (fi_lt c _ _ _ HF x Hx). lia.
  - intros Hx. apply in_seq in Hx. apply (FInv_done c _ _ HF). lia. Qed.

End PamRun.

(* ---- PAM pass wrappers ---------------------------------------------------------------------- *)
Theorem pam_routing_pass_spec cg c bars tbl nq tr fm o p fm' :
  wf_circ c nq ->
  pam_routing_pass cg c bars tbl nq tr fm = Some (o, p, fm') ->
  Graph.is_fully_connected cg = Some true /\ wfperm nq p /\ fm' = compose p fm /\
  exists s, preplay cg c bars tbl true (pinit c nq (idperm nq)) tr = Some s /\ pF s = [] /\
            o = pout s /\ p = ppi s.
Proof. intros Hwfc. unfold pam_routing_pass. destruct (Graph.is_fully_connected cg) as [[|]|]; try discriminate.
  destruct (preplay _ _ _ _ _ _ _) as [s|] eqn:E; [|discriminate].
  destruct (pF s) eqn:EF; [|discriminate].
  destruct (compose_opt (ppi s) fm) as [x|] eqn:Ec; [|discriminate].
  intros H; inversion H; subst. split; auto. split.
  - eapply (preplay_wfperm cg c bars tbl nq Hwfc true); [|exact E]. simpl. apply wfperm_idperm.
  - split; [apply compose_opt_Some in Ec; tauto|]. exists s. auto. Qed.

Lemma pam_layout_loop_wf cg c bars tbl nq : wf_circ c nq -> forall trs p p',
  wfperm nq p -> pam_layout_loop cg c bars tbl nq trs p = Some p' -> wfperm nq p'.
Proof. intros Hwfc. induction trs as [|[tf tb] r IH]; simpl; intros p p' Hw H.
  - inversion H; subst; auto.
  - destruct (preplay cg c bars tbl false (pinit c nq p) tf) as [s1|] eqn:E1; [|discriminate].
    destruct (pF s1); [|discriminate].
    destruct (replay cg c false false (init c nq false (ppi s1)) tb) as [s2|] eqn:E2; [|discriminate].
    destruct (F s2); [|discriminate].
    apply (IH (pi s2)); auto.
    eapply replay_wfperm; [|exact E2]. simpl.
    eapply (preplay_wfperm cg c bars tbl nq Hwfc false); [|exact E1]. simpl. exact Hw. Qed.

Theorem pam_layout_pass_spec cg c bars tbl nq trs pl p pl' :
  wf_circ c nq -> length pl = nq -> pam_layout_pass cg c bars tbl nq trs pl = Some (p, pl') ->
  wfperm nq p /\ pl' = compose pl p.
Proof. intros Hwfc Hl. unfold pam_layout_pass.
  destruct (Graph.is_fully_connected cg) as [[|]|]; try discriminate.
  destruct (pam_layout_loop cg c bars tbl nq trs (idperm nq)) as [p1|] eqn:E; [|discriminate].
  destruct (apply_perm p1 pl) as [pl1|] eqn:Ep; [|discriminate].
  intros H; inversion H; subst p1 pl1.
  assert (Hw : wfperm nq p) by (eapply pam_layout_loop_wf; [exact Hwfc|apply wfperm_idperm|eauto]).
  split; auto. rewrite (apply_perm_full nq p pl Hw Hl) in Ep. inversion Ep; auto. Qed.

(* ---- semantic reading of a PAM output (definitions; theorems in map/PamSem.v) ---------------- *)
(* the wire map of "move wire L[j] to wire L[r[j]]" (identity outside L) *)
Definition fmove (L r : list nat) (x : nat) : nat :=
  match Perm.index_of x L with Some j => nth (nth j r 0) L 0 | None => x end.

Section PamSemDefs.
Variable M : Type.
Variable mul : M -> M -> M.
Variable one : M.
Variable den : nat -> list nat -> M.            (* input operation n on physical location L *)
Variable sw : nat -> nat -> M.                  (* SwapGate *)
Variable pmove : list nat -> list nat -> M.     (* pmove L r: the wire permutation moving wire L[j] to wire L[r[j]] *)

(* the contract of a stored triple (EmbedAllPermutationsPass: circ = Po^T . U . Pi), in circuit
   order on the location L the block is appended on: bring wire L[pre[j]] to L[j], apply the
   block, send L[j] to L[post[j]] *)
Definition blk (n : nat) (L pre post : list nat) : M :=
  mul (pmove L (inverse pre)) (mul (den n L) (pmove L post)).

Definition den_pop (x : pop) : M :=
  match x with PG n L pre post _ => blk n L pre post | PB _ _ => one | PS a b => sw a b end.
Fixpoint prodP (o : list pop) : M := match o with [] => one | x :: t => mul (den_pop x) (prodP t) end.
(* the wire permutations left over when every block has been moved to the front *)
Definition den_tail (x : pop) : M :=
  match x with PG _ L pre post _ => mul (pmove L (inverse pre)) (pmove L post) | PB _ _ => one | PS a b => sw a b end.
Fixpoint ptail (o : list pop) : M := match o with [] => one | x :: t => mul (den_tail x) (ptail t) end.
End PamSemDefs.
