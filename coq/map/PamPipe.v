(* map/PamPipe.v - the permutation-aware pipeline
     [SetModelPass; placement; PAMLayoutPass?; PAMRoutingPass; ApplyPlacement]
   on PassData (model of the workflow around passes/mapping/{layout,routing}/pam.py and
   apply.py).  NO PROOFS here; theorems in map/PamPipeThm.v.

   ApplyPlacement on a PAM output: physical_circuit.append_circuit(circuit, placement)
   maps every location through the placement - blocks, swaps and also the barriers
   (which pam.py appended on their LOGICAL location; after ApplyPlacement they sit on
   placement[logical], semantically void).  The triple (pre, post) and the local graph of
   a block are data of the block and are not touched. *)
From Coq Require Import List Arith Bool PeanoNat.
Import ListNotations.
From BQ Require Import map.Graph lib.Perm map.Sabre map.Placement map.Pam.

Definition prelabel (pl : list nat) (o : pop) : pop :=
  match o with
  | PG n L pre post es => PG n (compose pl L) pre post es
  | PB n L => PB n (compose pl L)
  | PS a b => PS (nth a pl 0) (nth b pl 0)
  end.

(* apply.py on a PAM output: same PassData update as Placement.apply_placement *)
Definition pam_apply_placement (o : list pop) (d : pdata) : option (list pop * pdata) :=
  let pl := placement d in
  if forallb (fun x => forallb (fun q => Nat.ltb q (length pl)) (ploc x)) o then
    match compose_opt pl (imap d), compose_opt pl (fmap d) with
    | Some im, Some fm => Some (map (prelabel pl) o, mkpd (idperm (length (mach d))) im fm (mach d))
    | _, _ => None
    end
  else None.

Definition pam_pipeline (g : adj) (c : circ) (bars : list bool) (tbl : ptable) (nq : nat) (p : placer)
  (ltr : option (list (list pstep * list step))) (rtr : list pstep) : option (list pop * pdata) :=
  match set_model g nq (pd_init nq) with
  | Some d0 =>
    match run_placer p nq d0 with
    | Some d1 =>
      match (match ltr with Some trs => pam_layout_on c bars tbl nq trs d1 | None => Some d1 end) with
      | Some d2 =>
        match pam_routing_on c bars tbl nq rtr d2 with
        | Some (o, d3) => pam_apply_placement o d3
        | None => None
        end
      | None => None
      end
    | None => None
    end
  | None => None
  end.
