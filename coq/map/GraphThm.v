(* Theorems about the CouplingGraph model (C20). *)
From Coq Require Import List Arith Bool PeanoNat Lia.
Import ListNotations.
From BQ Require Import map.Graph.

(* ---- finite sets as lists ------------------------------------------------- *)
Lemma mem_In x l : mem x l = true <-> In x l.
Proof. induction l as [|y t IH]; simpl; [split; [discriminate|tauto]|].
  rewrite orb_true_iff, Nat.eqb_eq, IH. split; intros [H|H]; auto. Qed.

Lemma mem_false x l : mem x l = false <-> ~ In x l.
Proof. rewrite <- mem_In. destruct (mem x l); split; congruence. Qed.

Lemma In_add x y s : In x (add y s) <-> x = y \/ In x s.
Proof. unfold add. destruct (mem y s) eqn:E; simpl.
  - apply mem_In in E. split; [auto|intros [->|H]; auto].
  - split; intros [H|H]; auto. Qed.

Lemma NoDup_add y s : NoDup s -> NoDup (add y s).
Proof. unfold add. destruct (mem y s) eqn:E; auto. intros H. constructor; auto.
  apply mem_false; exact E. Qed.

Lemma In_union x xs s : In x (union xs s) <-> In x xs \/ In x s.
Proof. unfold union. induction xs as [|y t IH]; simpl; [tauto|].
  rewrite In_add, IH. split; intros H; intuition auto. Qed.

Lemma NoDup_union xs s : NoDup s -> NoDup (union xs s).
Proof. unfold union. induction xs as [|y t IH]; simpl; auto. intros H. apply NoDup_add; auto. Qed.

Lemma In_diff x xs s : In x (diff xs s) <-> In x xs /\ ~ In x s.
Proof. unfold diff. rewrite filter_In, negb_true_iff, mem_false. tauto. Qed.

Lemma In_expand g f x :
  In x (expand g f) <-> In x f \/ exists q, In q f /\ In x (nbrs g q).
Proof. unfold expand. induction f as [|q t IH]; simpl.
  - split; [tauto|intros [[]|(q & [] & _)]].
  - rewrite In_add, In_union, IH. split.
    + intros [->|[H|[H|(q' & H1 & H2)]]]; auto.
      * right. exists q; auto.
      * right. exists q'; auto.
    + intros [[->|H]|(q' & [->|H1] & H2)]; auto.
      right; right; right. exists q'; auto. Qed.

(* ---- reachability ---------------------------------------------------------- *)
Inductive reach (g : adj) (a : nat) : nat -> Prop :=
| reach_refl : reach g a a
| reach_step b c : reach g a b -> In c (nbrs g b) -> reach g a c.

Definition wf (g : adj) : Prop := forall q x, In x (nbrs g q) -> x < length g.
(* undirected: the adjacency lists are symmetric (CouplingGraph.__init__ adds both directions) *)
Definition sym (g : adj) : Prop := forall a b, In a (nbrs g b) -> In b (nbrs g a).
(* no self-loops (is_valid_coupling_graph rejects pairs (a, a)) *)
Definition loopfree (g : adj) : Prop := forall a, ~ In a (nbrs g a).
(* adjacency "sets" have no repeated element *)
Definition nodup_adj (g : adj) : Prop := forall a, NoDup (nbrs g a).
Definition allreach (g : adj) : Prop := forall v, v < length g -> reach g 0 v.

Record Inv (g : adj) (frontier seen : list nat) : Prop := {
  inv_nodup : NoDup seen;
  inv_seen : forall x, In x seen -> reach g 0 x /\ x < length g;
  inv_front : forall x, In x frontier -> reach g 0 x /\ x < length g;
  inv_closed : forall x, In x seen -> ~ In x frontier -> forall y, In y (nbrs g x) -> In y seen;
  inv_root : In 0 seen \/ In 0 frontier;
  inv_notfull : length seen <> length g }.

Lemma full_of_length (g : adj) (l : list nat) :
  NoDup l -> (forall x, In x l -> x < length g) -> length l = length g ->
  forall v, v < length g -> In v l.
Proof. intros Hnd Hb Hl v Hv.
  assert (incl (seq 0 (length g)) l).
  { apply NoDup_length_incl; auto.
    - rewrite seq_length; lia.
    - intros x Hx. apply in_seq. specialize (Hb x Hx). lia. }
  apply H. apply in_seq. lia. Qed.

Lemma length_le_n (g : adj) (l : list nat) :
  NoDup l -> (forall x, In x l -> x < length g) -> length l <= length g.
Proof. intros Hnd Hb. rewrite <- (seq_length (length g) 0).
  apply NoDup_incl_length; auto. intros x Hx. apply in_seq. specialize (Hb x Hx). lia. Qed.

Lemma closed_reach g s :
  In 0 s -> (forall x, In x s -> forall y, In y (nbrs g x) -> In y s) ->
  forall v, reach g 0 v -> In v s.
Proof. intros H0 Hc v Hr. induction Hr as [|b c _ IH Hin]; auto. eapply Hc; eauto. Qed.

Lemma step_inv g frontier seen :
  wf g -> Inv g frontier seen ->
  let expanded := expand g frontier in
  length (union expanded seen) <> length g ->
  Inv g (diff expanded seen) (union expanded seen).
Proof. intros Hwf [Hnd Hs Hf Hc Hr Hnf] expanded Hlen.
  assert (Hexp : forall x, In x expanded -> reach g 0 x /\ x < length g).
  { intros x Hx. apply In_expand in Hx as [Hx|(q & Hq & Hx)]; auto.
    split; [eapply reach_step; [apply Hf; exact Hq|exact Hx]|eapply Hwf; exact Hx]. }
  constructor.
  - apply NoDup_union; auto.
  - intros x Hx. apply In_union in Hx as [Hx|Hx]; auto.
  - intros x Hx. apply In_diff in Hx as [Hx _]; auto.
  - intros x Hx Hnx y Hy. apply In_union.
    apply In_union in Hx as [Hx|Hx].
    + destruct (in_dec Nat.eq_dec x seen) as [Hxs|Hxs].
      * destruct (in_dec Nat.eq_dec x frontier) as [Hxf|Hxf].
        -- left. apply In_expand. right. exists x; auto.
        -- right. eapply Hc; eauto.
      * exfalso. apply Hnx. apply In_diff; auto.
    + destruct (in_dec Nat.eq_dec x frontier) as [Hxf|Hxf].
      * left. apply In_expand. right. exists x; auto.
      * right. eapply Hc; eauto.
  - left. apply In_union. destruct Hr as [Hr|Hr]; auto. left. apply In_expand; auto.
  - exact Hlen. Qed.

Lemma fc_loop_spec fuel g : wf g -> forall frontier seen,
  Inv g frontier seen -> (frontier = [] /\ fuel >= 1) \/ fuel + length seen >= length g + 2 ->
  exists b, fc_loop fuel g (length g) frontier seen = Some b /\ (b = true <-> allreach g).
Proof. intros Hwf. induction fuel as [|f IH]; intros frontier seen HI Hfuel.
  - exfalso. destruct HI as [Hnd Hs _ _ _ _]. pose proof (length_le_n g seen Hnd (fun x H => proj2 (Hs x H))). simpl in Hfuel. lia.
  - simpl. destruct frontier as [|q0 fr] eqn:Ef.
    + exists false. split; auto. split; [discriminate|]. intros Hall. exfalso.
      destruct HI as [Hnd Hs _ Hc Hr Hnf]. apply Hnf.
      destruct Hr as [Hr|[]].
      assert (Hin : forall v, v < length g -> In v seen).
      { intros v Hv. apply (closed_reach g seen Hr); [|apply Hall; exact Hv].
        intros x Hx y Hy. apply (Hc x Hx (fun F => F) y Hy). }
      apply Nat.le_antisymm.
      * apply length_le_n; auto. intros x Hx. apply Hs; auto.
      * rewrite <- (seq_length (length g) 0). apply NoDup_incl_length; [apply seq_NoDup|].
        intros x Hx. apply Hin. apply in_seq in Hx. lia.
    + assert (Hfuel' : S f + length seen >= length g + 2) by (destruct Hfuel as [[F _]|F]; [discriminate|exact F]).
      clear Hfuel. rewrite <- Ef in *. clear Ef q0 fr.
      destruct (Nat.eqb (length (union (expand g frontier) seen)) (length g)) eqn:E.
      * apply Nat.eqb_eq in E. exists true. split; auto. split; auto. intros _ v Hv.
        destruct HI as [Hnd Hs Hf Hc Hr Hnf].
        assert (Hall : forall x, In x (union (expand g frontier) seen) -> reach g 0 x /\ x < length g).
        { intros x Hx. apply In_union in Hx as [Hx|Hx]; auto.
          apply In_expand in Hx as [Hx|(q & Hq & Hx)]; auto.
          split; [eapply reach_step; [apply Hf; exact Hq|exact Hx]|eapply Hwf; exact Hx]. }
        apply Hall. eapply full_of_length; eauto.
        -- apply NoDup_union; auto.
        -- intros x Hx. apply Hall; auto.
      * apply Nat.eqb_neq in E. pose proof (step_inv g frontier seen Hwf HI E) as HI'.
        apply IH; auto.
        destruct (diff (expand g frontier) seen) as [|x r] eqn:Ed.
        -- (* no new vertex: the next iteration answers immediately, fuel >= 1 is enough *)
           destruct HI' as [Hnd' Hs' _ _ _ _].
           pose proof (length_le_n g _ Hnd' (fun x H => proj2 (Hs' x H))).
           destruct HI as [Hnd Hs _ _ _ _].
           assert (length seen <= length (union (expand g frontier) seen)).
           { apply NoDup_incl_length; auto. intros y Hy. apply In_union; auto. }
           left. split; auto. lia.
        -- assert (Hx : In x (diff (expand g frontier) seen)) by (rewrite Ed; left; auto).
           apply In_diff in Hx as [Hx1 Hx2].
           destruct HI as [Hnd Hs _ _ _ _].
           assert (S (length seen) <= length (union (expand g frontier) seen)).
           { change (S (length seen)) with (length (x :: seen)).
             apply NoDup_incl_length; [constructor; auto|].
             intros y [<-|Hy]; apply In_union; auto. }
           right. lia. Qed.

Lemma init_inv g : length g <> 0 -> Inv g [0] [].
Proof. intros Hn. constructor; simpl; try tauto.
  - constructor.
  - intros x [<-|[]]. split; [constructor|lia].
  - lia. Qed.

(* The connectivity test returns an answer for every non-empty well-formed graph,
   and the answer is `true` exactly when every vertex is reachable from vertex 0. *)
Theorem is_fully_connected_spec g :
  wf g -> length g <> 0 ->
  exists b, is_fully_connected g = Some b /\ (b = true <-> allreach g).
Proof. intros Hwf Hn. unfold is_fully_connected. destruct (length g) eqn:E; [congruence|].
  rewrite <- E. apply fc_loop_spec; auto; [apply init_inv; lia|right; simpl; lia]. Qed.

(* the only error case of the code: an explicitly empty graph *)
Theorem is_fully_connected_empty : is_fully_connected [] = None.
Proof. reflexivity. Qed.

