(* map/Sabre.v - executable model of bqskit/passes/mapping/sabre.py
   (GeneralizedSabreAlgorithm.forward_pass / backward_pass) as a transition
   system, plus the routing / layout pass wrappers.  NO PROOFS here.

   What is modelled statement by statement:
     circuit DAG (Circuit.front / rear / next / prev)   -> front, rear, nexts, prevs
     _can_exe                                            -> can_exe
     _apply_swap (pi part), _apply_perm                  -> lib/Perm.v
     the execute branch of the main loop, one op at a time -> Exec n
     "Pick and apply a swap"                             -> Swap e
     "Backtrack by removing leading swaps"               -> Backtrack
     the swaps yielded by _uphill_swaps                  -> Uphill e
   What is NOT in the model: every float (D, decay, _score_swap, _get_distance,
   _calc_extended_set, the choice inside _get_best_swap / _uphill_swaps and the
   iteration order of the Python set F).  These only choose which enabled step
   is taken next; `do_step` checks that a recorded step was enabled and the
   theorems (SabreThm.v) hold for every sequence of enabled steps.

   An operation of the input circuit is identified by its index n in a
   linearisation of the circuit (the harness uses Circuit.operations_with_cycles
   order); its CircuitPoint is (cycle, location[0]).  *)
From Coq Require Import List Arith Bool PeanoNat.
Import ListNotations.
From BQ Require Import map.Graph lib.Perm.

(* ---- circuits ------------------------------------------------------------- *)
(* gfree = BarrierPlaceholder, or CircuitGate whose gate set has only
   single-qudit gates: _can_exe answers True before looking at pi *)
Record gop := mkop { gfree : bool; gloc : list nat }.
Definition circ := list gop.
Definition dflt : gop := mkop true [].
Definition opat (c : circ) (n : nat) : gop := nth n c dflt.
Definition touches (q : nat) (g : gop) : bool := memb q (gloc g).

(* set.add on a duplicate-free list (iteration order of Python sets is not modelled;
   every comparison with the implementation sorts) *)
Definition addn (x : nat) (s : list nat) : list nat := if memb x s then s else s ++ [x].
Definition opt_add (o : option nat) (s : list nat) : list nat :=
  match o with Some m => addn m s | None => s end.
Definition remove_nat (x : nat) (s : list nat) : list nat := filter (fun y => negb (Nat.eqb y x)) s.

(* _dag[point][1][q] / _dag[point][0][q]: the next / previous operation on qudit q *)
Definition next_on (c : circ) (n q : nat) : option nat :=
  hd_error (filter (fun m => touches q (opat c m)) (seq (S n) (length c - S n))).
Definition prev_on (c : circ) (n q : nat) : option nat :=
  hd_error (filter (fun m => touches q (opat c m)) (rev (seq 0 n))).

(* Circuit.next(point) / Circuit.prev(point): sets of distinct operations *)
Definition nexts (c : circ) (n : nat) : list nat :=
  fold_left (fun s q => opt_add (next_on c n q) s) (gloc (opat c n)) [].
Definition prevs (c : circ) (n : nat) : list nat :=
  fold_left (fun s q => opt_add (prev_on c n q) s) (gloc (opat c n)) [].

(* _front[q] / _rear[q] *)
Definition first_on (c : circ) (q : nat) : option nat :=
  hd_error (filter (fun m => touches q (opat c m)) (seq 0 (length c))).
Definition last_on (c : circ) (q : nat) : option nat :=
  hd_error (filter (fun m => touches q (opat c m)) (rev (seq 0 (length c)))).

(* Circuit.front: for point in _front.values(): if point is not None and len(prev(point)) == 0 *)
Definition front (c : circ) (nq : nat) : list nat :=
  fold_left (fun s q => match first_on c q with
                        | Some m => match prevs c m with [] => addn m s | _ => s end
                        | None => s end) (seq 0 nq) [].
Definition rear (c : circ) (nq : nat) : list nat :=
  fold_left (fun s q => match last_on c q with
                        | Some m => match nexts c m with [] => addn m s | _ => s end
                        | None => s end) (seq 0 nq) [].

(* forward pass walks next/prev, backward pass walks prev/next *)
Definition succs (fwd : bool) (c : circ) (n : nat) := if fwd then nexts c n else prevs c n.
Definition preds (fwd : bool) (c : circ) (n : nat) := if fwd then prevs c n else nexts c n.

(* ---- _can_exe ------------------------------------------------------------- *)
(* [pi[q] for q in location]; None = IndexError *)
Definition phys (pi : list nat) (l : list nat) : option (list nat) :=
  if forallb (fun q => Nat.ltb q (length pi)) l then Some (compose pi l) else None.

(* cg.get_subgraph(physical_qudits).is_fully_connected(); None = the code raises *)
Definition connected_on (cg : adj) (L : list nat) : option bool :=
  match Graph.get_subgraph cg L None with
  | Some es => Graph.is_fully_connected (Graph.mk_adj (length L) es)
  | None => None
  end.

Definition can_exe (cg : adj) (pi : list nat) (g : gop) : option bool :=
  if gfree g then Some true
  else if Nat.eqb (length (gloc g)) 1 then Some true
  else match phys pi (gloc g) with
       | Some L => connected_on cg L
       | None => None
       end.

Definition is_edge (cg : adj) (e : nat * nat) : bool := Graph.mem (snd e) (Graph.nbrs cg (fst e)).

(* ---- the mapped circuit --------------------------------------------------- *)
(* OG n L : operation n of the input appended on physical location L
   OS a b : SwapGate appended on (a, b) *)
Inductive oop := OG (n : nat) (L : list nat) | OS (a b : nat).
Definition oloc (o : oop) : list nat := match o with OG _ L => L | OS a b => [a; b] end.

(* mapped_circuit.pop(mapped_circuit._rear[q]): remove the last operation on wire q;
   None = there is none (the code would pop something else / raise) *)
Fixpoint remove_first_on (q : nat) (o : list oop) : option (list oop) :=
  match o with
  | [] => None
  | x :: t => if memb q (oloc x) then Some t
              else match remove_first_on q t with Some t' => Some (x :: t') | None => None end
  end.
Definition pop_last_on (q : nat) (o : list oop) : option (list oop) :=
  match remove_first_on q (rev o) with Some r => Some (rev r) | None => None end.

(* ---- prev_executed_counts ------------------------------------------------- *)
Fixpoint cget (k : nat) (m : list (nat * nat)) : option nat :=
  match m with [] => None | (a, b) :: t => if Nat.eqb k a then Some b else cget k t end.
Definition cdel (k : nat) (m : list (nat * nat)) : list (nat * nat) :=
  filter (fun p => negb (Nat.eqb (fst p) k)) m.
Definition cset (k v : nat) (m : list (nat * nat)) : list (nat * nat) := (k, v) :: cdel k m.

(* ---- state and steps ------------------------------------------------------ *)
Record state := mkst {
  pi : list nat;                 (* logical -> physical *)
  F : list nat;                  (* front set (operation indices) *)
  cnt : list (nat * nat);        (* prev_executed_counts / next_executed_counts *)
  lead : list (nat * nat);       (* leading_swaps *)
  out : list oop                 (* mapped_circuit, in append order *)
}.

Inductive step := Exec (n : nat) | Swap (e : nat * nat) | Backtrack | Uphill (e : nat * nat).

Definition init (c : circ) (nq : nat) (fwd : bool) (pi0 : list nat) : state :=
  let F0 := if fwd then front c nq else rear c nq in
  mkst pi0 F0 (map (fun n => (n, 0)) F0) [] [].

(* for successor in circuit.next(n): count it; add to F when all its
   predecessors have been executed *)
Definition exec_succ (fwd : bool) (c : circ) (st : list nat * list (nat * nat)) (s : nat)
  : list nat * list (nat * nat) :=
  let '(F, cnt) := st in
  let k := match cget s cnt with None => 1 | Some k => S k end in
  let cnt' := cset s k cnt in
  if Nat.eqb k (length (preds fwd c s)) then (addn s F, cnt') else (F, cnt').

(* for swap in reversed(leading_swaps): _apply_swap(swap); pop(_rear[swap[0]]) *)
Fixpoint undo (modify : bool) (sw : list (nat * nat)) (p : list nat) (o : list oop)
  : option (list nat * list oop) :=
  match sw with
  | [] => Some (p, o)
  | e :: t =>
    match apply_swap e p with
    | None => None
    | Some p' =>
      if modify then
        match pop_last_on (fst e) o with
        | Some o' => undo modify t p' o'
        | None => None
        end
      else undo modify t p' o
    end
  end.

(* One step.  None = the step is not enabled in this state, or the code would
   raise at this point (KeyError of counts.pop, ValueError of pi.index, IndexError). *)
Definition do_step (cg : adj) (c : circ) (fwd modify : bool) (s : state) (t : step) : option state :=
  match t with
  | Exec n =>
    if negb (memb n (F s)) then None else
    let g := opat c n in
    match can_exe cg (pi s) g, cget n (cnt s) with
    | Some true, Some _ =>
      let st := fold_left (exec_succ fwd c) (succs fwd c n) (remove_nat n (F s), cdel n (cnt s)) in
      if modify then
        match phys (pi s) (gloc g) with
        | Some L => Some (mkst (pi s) (fst st) (snd st) [] (out s ++ [OG n L]))
        | None => None
        end
      else Some (mkst (pi s) (fst st) (snd st) [] (out s))
    | _, _ => None
    end
  | Swap e =>
    if negb (is_edge cg e) then None else
    match apply_swap e (pi s) with
    | Some p => Some (mkst p (F s) (cnt s) (lead s ++ [e])
                           (if modify then out s ++ [OS (fst e) (snd e)] else out s))
    | None => None
    end
  | Backtrack =>
    match undo modify (rev (lead s)) (pi s) (out s) with
    | Some (p, o) => Some (mkst p (F s) (cnt s) [] o)
    | None => None
    end
  | Uphill e =>
    if negb (is_edge cg e) then None else
    match lead s with
    | [] =>
      match apply_swap e (pi s) with
      | Some p => Some (mkst p (F s) (cnt s) []
                             (if modify then out s ++ [OS (fst e) (snd e)] else out s))
      | None => None
      end
    | _ => None
    end
  end.

Fixpoint replay (cg : adj) (c : circ) (fwd modify : bool) (s : state) (tr : list step) : option state :=
  match tr with
  | [] => Some s
  | t :: r => match do_step cg c fwd modify s t with
              | Some s' => replay cg c fwd modify s' r
              | None => None
              end
  end.

(* The control-flow guards of the main loop that are irrelevant to correctness
   (they only say *when* the code swaps or backtracks); checked by the
   correspondence run in addition to enabledness, never used by a theorem. *)
Definition any_exe (cg : adj) (c : circ) (s : state) : bool :=
  existsb (fun n => match can_exe cg (pi s) (opat c n) with Some true => true | _ => false end) (F s).
Definition strict_ok (cg : adj) (c : circ) (s : state) (t : step) : bool :=
  match t with
  | Exec _ => true
  | Swap _ => negb (any_exe cg c s) && Nat.leb (length (lead s)) (5 * length cg)
  | Backtrack => negb (any_exe cg c s) && Nat.ltb (5 * length cg) (length (lead s))
  | Uphill _ => true
  end.

(* ---- pass wrappers -------------------------------------------------------- *)
(* GeneralizedSabreRoutingPass.run: result = (mapped circuit, pi, new final_mapping).
   The trace must run the main loop to completion (F empty). *)
Definition routing_pass (cg : adj) (c : circ) (nq : nat) (tr : list step) (fm : list nat)
  : option (list oop * list nat * list nat) :=
  match Graph.is_fully_connected cg with
  | Some true =>
    match replay cg c true true (init c nq true (idperm nq)) tr with
    | Some s =>
      match F s with
      | [] => match compose_opt (pi s) fm with
              | Some fm' => Some (out s, pi s, fm')
              | None => None
              end
      | _ => None
      end
    | None => None
    end
  | _ => None                       (* RuntimeError / IndexError *)
  end.

(* for _ in range(total_passes): forward_pass; backward_pass  (no circuit output) *)
Fixpoint layout_loop (cg : adj) (c : circ) (nq : nat) (trs : list (list step * list step)) (p : list nat)
  : option (list nat) :=
  match trs with
  | [] => Some p
  | (tf, tb) :: r =>
    match replay cg c true false (init c nq true p) tf with
    | Some s1 =>
      match F s1 with
      | [] =>
        match replay cg c false false (init c nq false (pi s1)) tb with
        | Some s2 => match F s2 with [] => layout_loop cg c nq r (pi s2) | _ => None end
        | None => None
        end
      | _ => None
      end
    | None => None
    end
  end.

(* GeneralizedSabreLayoutPass.run: result = (pi, new placement) *)
Definition layout_pass (cg : adj) (c : circ) (nq : nat) (trs : list (list step * list step)) (placement : list nat)
  : option (list nat * list nat) :=
  match Graph.is_fully_connected cg with
  | Some true =>
    match layout_loop cg c nq trs (idperm nq) with
    | Some p => match apply_perm p placement with
                | Some pl => Some (p, pl)
                | None => None
                end
    | None => None
    end
  | _ => None
  end.
