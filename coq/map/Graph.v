(* Executable model of bqskit/qis/graph.py (CouplingGraph) and of the swap loop
   of bqskit/qis/permutation.py.  No proofs here: this file must keep compiling
   and extracting when a proof breaks.  Python sets of small integers are
   duplicate-free lists; every observation the harness compares is
   order-insensitive (it sorts) except where the code's order is determined. *)
From Coq Require Import List Arith Bool PeanoNat.
Import ListNotations.

Definition adj := list (list nat).          (* _adj : vertex -> neighbours *)

Fixpoint mem (x : nat) (l : list nat) : bool :=
  match l with [] => false | y :: t => Nat.eqb x y || mem x t end.

Definition add (x : nat) (s : list nat) : list nat := if mem x s then s else x :: s.
Definition union (xs s : list nat) : list nat := fold_right add s xs.
Definition diff (xs s : list nat) : list nat := filter (fun x => negb (mem x s)) xs.
Definition nbrs (g : adj) (q : nat) : list nat := nth q g [].

(* CouplingGraph.__init__ : edges -> adjacency (normalised, symmetric) *)
Fixpoint set_nth {A} (n : nat) (f : A -> A) (l : list A) : list A :=
  match l, n with
  | [], _ => []
  | x :: t, 0 => f x :: t
  | x :: t, S k => x :: set_nth k f t
  end.

Definition add_edge (g : adj) (e : nat * nat) : adj :=
  let '(a, b) := e in set_nth b (add a) (set_nth a (add b) g).

Definition mk_adj (n : nat) (es : list (nat * nat)) : adj :=
  fold_left add_edge es (repeat [] n).

(* ---- is_fully_connected ------------------------------------------------- *)
(* expanded = U_{q in frontier} {q} U adj[q] *)
Definition expand (g : adj) (frontier : list nat) : list nat :=
  fold_right (fun q acc => add q (union (nbrs g q) acc)) [] frontier.

Fixpoint fc_loop (fuel : nat) (g : adj) (n : nat) (frontier seen : list nat) : option bool :=
  match fuel with
  | 0 => None
  | S f =>
    match frontier with
    | [] => Some false
    | _ =>
      let expanded := expand g frontier in
      let frontier' := diff expanded seen in
      let seen' := union expanded seen in
      if Nat.eqb (length seen') n then Some true else fc_loop f g n frontier' seen'
    end
  end.

(* None = the code raises (num_qudits = 0: self._adj[0] is an IndexError) or
   the fuel ran out (proved impossible in GraphThm.v). *)
Definition is_fully_connected (g : adj) : option bool :=
  let n := length g in
  match n with 0 => None | _ => fc_loop (S (S n)) g n [0] [] end.

(* ---- is_fully_connected_without ----------------------------------------- *)
Definition expand_wo (g : adj) (w : nat) (frontier : list nat) : list nat :=
  fold_right (fun q acc => if Nat.eqb q w then acc
                           else union (filter (fun x => negb (Nat.eqb x w)) (nbrs g q)) acc) [] frontier.

Fixpoint fcw_loop (fuel : nat) (g : adj) (n w : nat) (frontier seen : list nat) : option bool :=
  match fuel with
  | 0 => None
  | S f =>
    match frontier with
    | [] => Some false
    | _ =>
      let expanded := expand_wo g w frontier in
      let frontier' := diff expanded seen in
      let seen' := union expanded seen in
      if Nat.eqb (length seen') (n - 1) then Some true else fcw_loop f g n w frontier' seen'
    end
  end.

Definition is_fully_connected_without (g : adj) (w : nat) : option bool :=
  let n := length g in
  let s := if Nat.eqb w 0 then 1 else 0 in
  if Nat.leb n s then None    (* get_neighbors_of(s) raises IndexError *)
  else fcw_loop (S (S n)) g n w [s] [s].

(* ---- degrees, neighbours, linear ---------------------------------------- *)
Definition degrees (g : adj) : list nat := map (@length nat) g.

(* degree profile of a path (no degree 0, none above 2, exactly two of degree 1), then
   `return self.is_fully_connected()` (never raises here: at least two qudits) *)
Definition is_linear (g : adj) : bool :=
  if Nat.ltb (length g) 2 then false
  else
    let ds := degrees g in
    forallb (fun d => negb (Nat.eqb d 0) && Nat.leb d 2) ds
    && Nat.eqb (length (filter (Nat.eqb 1) ds)) 2
    && match is_fully_connected g with Some b => b | None => false end.

(* ---- all_pairs_shortest_path (Floyd-Warshall) ---------------------------- *)
(* weights: None = inf, Some w with integer w (the harness uses integer weights
   so that float addition is exact) *)
Definition w := option nat.
Definition wadd (a b : w) : w :=
  match a, b with Some x, Some y => Some (x + y) | _, _ => None end.
Definition wmin (a b : w) : w :=
  match a, b with
  | Some x, Some y => Some (Nat.min x y)
  | Some x, None => Some x
  | None, y => y
  end.
Definition mat := list (list w).
Definition mget (D : mat) (i j : nat) : w := nth j (nth i D []) None.
Definition mset (D : mat) (i j : nat) (v : w) : mat :=
  set_nth i (set_nth j (fun _ => v)) D.

(* D[i][j] = min(D[i][j], D[i][k] + D[k][j]) for k, i, j in range(n), in place *)
Definition fw_j (k i : nat) (D : mat) (j : nat) : mat :=
  mset D i j (wmin (mget D i j) (wadd (mget D i k) (mget D k j))).
Definition fw_i (n k : nat) (D : mat) (i : nat) : mat := fold_left (fw_j k i) (seq 0 n) D.
Definition fw_k (n : nat) (D : mat) (k : nat) : mat := fold_left (fw_i n k) (seq 0 n) D.
Definition floyd (n : nat) (D : mat) : mat := fold_left (fw_k n) (seq 0 n) D.

(* _mat from adjacency with unit weights *)
Definition unit_mat (g : adj) : mat :=
  map (fun ns => map (fun j => if mem j ns then Some 1 else None) (seq 0 (length g))) g.

(* ---- get_shortest_path_tree (the O(n^2) Dijkstra with unit steps) -------- *)
Fixpoint argmin_unvisited (unv : list nat) (dist : list w) (best : option (nat * nat)) (i : nat) : option (nat * nat) :=
  (* first index (ascending) among unvisited with the least finite distance:
     sort(key=distance) is stable over dict insertion order 0..n-1 *)
  match dist with
  | [] => best
  | d :: t =>
    let best' :=
      if mem i unv then
        match d, best with
        | Some x, None => Some (i, x)
        | Some x, Some (_, y) => if Nat.ltb x y then Some (i, x) else best
        | None, _ => best
        end
      else best in
    argmin_unvisited unv t best' (S i)
  end.

Definition relax (cur dcur : nat) (path_cur : list nat) (st : list w * list (list nat)) (o : nat)
  : list w * list (list nat) :=
  let '(dist, paths) := st in
  let better := match nth o dist None with None => true | Some x => Nat.ltb (dcur + 1) x end in
  if better then (set_nth o (fun _ => Some (dcur + 1)) dist, set_nth o (fun _ => path_cur ++ [o]) paths)
  else st.

Fixpoint spt_loop (fuel : nat) (g : adj) (unv : list nat) (dist : list w) (paths : list (list nat))
  : option (list (list nat)) :=
  match fuel with
  | 0 => match unv with [] => Some paths | _ => None end
  | S f =>
    match unv with
    | [] => Some paths
    | _ =>
      match argmin_unvisited unv dist None 0 with
      | None => None                         (* RuntimeError: no path found *)
      | Some (cur, dcur) =>
        let ns := filter (fun x => mem x unv) (nbrs g cur) in
        let '(dist', paths') := fold_left (relax cur dcur (nth cur paths [])) ns (dist, paths) in
        spt_loop f g (filter (fun x => negb (Nat.eqb x cur)) unv) dist' paths'
      end
    end
  end.

Definition shortest_path_tree (g : adj) (src : nat) : option (list (list nat)) :=
  let n := length g in
  if Nat.leb n src then None else
  spt_loop n g (seq 0 n)
    (set_nth src (fun _ => Some 0) (repeat None n))
    (set_nth src (fun _ => [src]) (repeat [] n)).

(* ---- get_subgraphs_of_size / _location_search ---------------------------- *)
Fixpoint insert_sorted (x : nat) (l : list nat) : list nat :=
  match l with
  | [] => [x]
  | y :: t => if Nat.leb x y then x :: l else y :: insert_sorted x t
  end.
Definition sort (l : list nat) : list nat := fold_right insert_sorted [] l.

Fixpoint list_eqb (a b : list nat) : bool :=
  match a, b with
  | [], [] => true
  | x :: s, y :: t => Nat.eqb x y && list_eqb s t
  | _, _ => false
  end.
Fixpoint lmem (x : list nat) (l : list (list nat)) : bool :=
  match l with [] => false | y :: t => list_eqb x y || lmem x t end.
Definition ladd (x : list nat) (l : list (list nat)) := if lmem x l then l else x :: l.

Definition frontier_of (g : adj) (path : list nat) : list nat :=
  fold_right (fun node acc => union (diff (nbrs g node) path) acc) [] path.

(* The result set is the set of sorted tuples; the recursion depth is bounded by
   `limit`, which serves as the structural argument. *)
Fixpoint loc_search (fuel : nat) (g : adj) (limit : nat) (acc : list (list nat)) (path : list nat) (v : nat)
  : list (list nat) :=
  match fuel with
  | 0 => acc
  | S f =>
    if mem v path then acc else
    let cur := v :: path in
    if Nat.eqb (length cur) limit then ladd (sort cur) acc
    else fold_left (fun a nb => loc_search f g limit a cur nb) (frontier_of g cur) acc
  end.

Definition subgraphs_of_size (g : adj) (size : nat) : option (list (list nat)) :=
  let n := length g in
  if Nat.ltb n size || Nat.eqb size 0 then None     (* ValueError *)
  else Some (fold_left (fun a q => loc_search size g size a [] q) (seq 0 n) []).

(* ---- get_subgraph --------------------------------------------------------- *)
Fixpoint assoc (k : nat) (m : list (nat * nat)) : option nat :=
  match m with [] => None | (a, b) :: t => if Nat.eqb k a then Some b else assoc k t end.

Fixpoint nodupb (l : list nat) : bool :=
  match l with [] => true | x :: t => negb (mem x t) && nodupb t end.

Definition norm_edge (e : nat * nat) : nat * nat :=
  let '(a, b) := e in if Nat.leb a b then (a, b) else (b, a).

(* result: edge list (normalised, may contain duplicates; the harness compares
   as sets) or None for the ValueError / TypeError / KeyError paths *)
Definition get_subgraph (g : adj) (loc : list nat) (ren : option (list (nat * nat)))
  : option (list (nat * nat)) :=
  let n := length g in
  if negb (nodupb loc && forallb (fun q => Nat.ltb q n) loc) then None else
  let ren := match ren with Some r => r | None => combine loc (seq 0 (length loc)) end in
  let keys := map fst ren in
  let vals := map snd ren in
  if negb (Nat.eqb (length ren) (length loc)) then None else
  if negb (nodupb keys && forallb (fun k => mem k loc) keys) then None else
  match loc with
  | [] => None    (* CouplingGraph([], 0) raises: the inferred size is 1 *)
  | _ =>
    (* sorted(renumbering.values()) != list(range(len(location))) -> ValueError *)
    if negb (list_eqb (sort vals) (seq 0 (length loc))) then None else
    let es := flat_map (fun qi => flat_map (fun nb =>
                match assoc qi ren, assoc nb ren with
                | Some a, Some b => [norm_edge (a, b)]
                | _, _ => []
                end) (filter (fun x => mem x loc) (nbrs g qi))) loc in
    (* CouplingGraph(subgraph, len(location)) raises when a renumbered vertex is
       out of range or an edge is a self-loop *)
    if forallb (fun e => Nat.ltb (snd e) (length loc) && negb (Nat.eqb (fst e) (snd e))) es
    then Some es else None
  end.

(* ---- PermutationMatrix.from_qudit_location: the swap loop ----------------- *)
Fixpoint index_of (x : nat) (l : list nat) : nat :=
  match l with [] => 0 | y :: t => if Nat.eqb x y then 0 else S (index_of x t) end.

Definition complete_perm (n : nat) (loc : list nat) : list nat :=
  fold_left (fun cur i => if mem i cur then cur else cur ++ [i]) (seq 0 n) loc.

Definition swap_list (l : list nat) (i j : nat) : list nat :=
  let a := nth i l 0 in let b := nth j l 0 in
  set_nth j (fun _ => a) (set_nth i (fun _ => b) l).

(* one iteration of `for index, qudit in enumerate(current_perm)`; Python's
   enumerate reads the list live, so `qudit` is current_perm[index] at that time *)
Definition perm_step (st : list nat * list (nat * nat)) (index : nat) : list nat * list (nat * nat) :=
  let '(cur, swaps) := st in
  let qudit := nth index cur 0 in
  if Nat.eqb index qudit then st
  else let pos := index_of index cur in (swap_list cur index pos, swaps ++ [(index, pos)]).

Definition perm_loop (n : nat) (loc : list nat) : list nat * list (nat * nat) :=
  fold_left perm_step (seq 0 n) (complete_perm n loc, []).

(* UnitaryBuilder.apply_left puts the gate *before* the builder's current
   content in circuit order (U_new = U_old * S), so the swap recorded last acts
   first.  Acting on wire labels, the product sends the content of input wire p
   to the wire obtained by pushing p through the swaps in reverse recording
   order. *)
Definition push_wire (swaps : list (nat * nat)) (p : nat) : nat :=
  fold_left (fun x s => if Nat.eqb x (fst s) then snd s else if Nat.eqb x (snd s) then fst s else x) (rev swaps) p.
