(* map/SabreDag.v - lemmas about the circuit DAG of map/Sabre.v (next/prev/front)
   and about the successor-counting frontier update of the Exec step. *)
From Coq Require Import List Arith Bool PeanoNat Lia Sorted.
Import ListNotations.
From BQ Require Import lib.Perm lib.PermThm map.Sabre.

(* ---- small list facts ------------------------------------------------------ *)
Lemma In_addn x y s : In x (addn y s) <-> x = y \/ In x s.
Proof. unfold addn. destruct (memb y s) eqn:E.
  - apply memb_In in E. split; [auto|intros [->|H]; auto].
  - rewrite in_app_iff. simpl. split; intros H; intuition auto. Qed.

Lemma NoDup_addn y s : NoDup s -> NoDup (addn y s).
Proof. unfold addn. destruct (memb y s) eqn:E; auto. intros H.
  apply memb_false in E. apply NoDup_rev in H. rewrite <- (rev_involutive (s ++ [y])).
  apply NoDup_rev. rewrite rev_app_distr. simpl. constructor; auto. rewrite <- in_rev. auto. Qed.

Lemma In_remove_nat x y s : In x (remove_nat y s) <-> In x s /\ x <> y.
Proof. unfold remove_nat. rewrite filter_In, negb_true_iff, Nat.eqb_neq. tauto. Qed.

Lemma In_fold_opt_add (f : nat -> option nat) l : forall s0 m,
  In m (fold_left (fun s q => opt_add (f q) s) l s0) <-> In m s0 \/ exists q, In q l /\ f q = Some m.
Proof. induction l as [|q t IH]; simpl; intros s0 m.
  - split; [auto|intros [H|(q & [] & _)]; auto].
  - rewrite IH. unfold opt_add at 1. destruct (f q) as [x|] eqn:E.
    + rewrite In_addn. split.
      * intros [[->|H]|(q' & H1 & H2)]; eauto.
      * intros [H|(q' & [->|H1] & H2)]; eauto. left. left. congruence.
    + split.
      * intros [H|(q' & H1 & H2)]; eauto.
      * intros [H|(q' & [->|H1] & H2)]; eauto. congruence. Qed.

Lemma NoDup_fold_opt_add (f : nat -> option nat) l : forall s0,
  NoDup s0 -> NoDup (fold_left (fun s q => opt_add (f q) s) l s0).
Proof. induction l as [|q t IH]; simpl; intros s0 H; auto. apply IH.
  unfold opt_add. destruct (f q); auto. apply NoDup_addn; auto. Qed.

(* first element of a filtered ascending / descending range *)
Lemma hd_filter_seq (p : nat -> bool) : forall len a m,
  hd_error (filter p (seq a len)) = Some m <->
  a <= m < a + len /\ p m = true /\ forall k, a <= k < m -> p k = false.
Proof. induction len as [|len IH]; intros a m; simpl.
  - split; [discriminate|lia].
  - destruct (p a) eqn:E; simpl.
    + split.
      * intros H; inversion H; subst. repeat split; auto; lia.
      * intros (H1 & H2 & H3). f_equal. destruct (Nat.eq_dec a m); auto.
        rewrite H3 in E; [discriminate|lia].
    + rewrite IH. split.
      * intros (H1 & H2 & H3). repeat split; auto; try lia.
        intros k Hk. destruct (Nat.eq_dec k a); [subst; auto|apply H3; lia].
      * intros (H1 & H2 & H3). assert (a <> m) by (intros ->; congruence).
        repeat split; auto; try lia. intros k Hk. apply H3. lia. Qed.

Lemma hd_filter_rev_seq (p : nat -> bool) : forall n m,
  hd_error (filter p (rev (seq 0 n))) = Some m <->
  m < n /\ p m = true /\ forall k, m < k < n -> p k = false.
Proof. induction n as [|n IH]; intros m.
  - simpl. split; [discriminate|lia].
  - rewrite seq_S, rev_app_distr. simpl. destruct (p n) eqn:E; simpl.
    + split.
      * intros H; inversion H; subst. repeat split; auto; lia.
      * intros (H1 & H2 & H3). f_equal. destruct (Nat.eq_dec n m); auto.
        rewrite H3 in E; [discriminate|lia].
    + rewrite IH. split.
      * intros (H1 & H2 & H3). repeat split; auto.
        intros k Hk. destruct (Nat.eq_dec k n); [subst; auto|apply H3; lia].
      * intros (H1 & H2 & H3). assert (n <> m) by (intros ->; congruence).
        repeat split; auto; try lia. intros k Hk. apply H3. lia. Qed.

Lemma hd_filter_None {A} (p : A -> bool) l : hd_error (filter p l) = None <-> forall x, In x l -> p x = false.
Proof. induction l as [|y t IH]; simpl; [split; [intros _ x []|auto]|].
  destruct (p y) eqn:E; simpl.
  - split; [discriminate|]. intros H. rewrite (H y) in E; auto. discriminate.
  - rewrite IH. split; [intros H x [<-|Hx]; auto|auto]. Qed.

(* ---- the DAG ---------------------------------------------------------------- *)
Section Dag.
Variable c : circ.
Definition tq (q n : nat) : bool := touches q (opat c n).

Lemma tq_lt q n : tq q n = true -> n < length c.
Proof. unfold tq, touches, opat. intros H. destruct (Nat.lt_ge_cases n (length c)); auto.
  rewrite nth_overflow in H; auto. simpl in H. discriminate. Qed.

Lemma next_on_spec n q m :
  next_on c n q = Some m <-> n < m /\ tq q m = true /\ forall k, n < k < m -> tq q k = false.
Proof. unfold next_on. fold (tq q). rewrite hd_filter_seq. split.
  - intros (H1 & H2 & H3). repeat split; auto; try lia; try (intros k Hk; apply H3; lia).
  - intros (H1 & H2 & H3). pose proof (tq_lt _ _ H2). repeat split; auto; try lia;
    try (intros k Hk; apply H3; lia). Qed.

Lemma prev_on_spec n q m :
  prev_on c n q = Some m <-> m < n /\ tq q m = true /\ forall k, m < k < n -> tq q k = false.
Proof. unfold prev_on. fold (tq q). apply hd_filter_rev_seq. Qed.

Lemma In_nexts n m : In m (nexts c n) <-> exists q, In q (gloc (opat c n)) /\ next_on c n q = Some m.
Proof. unfold nexts. rewrite In_fold_opt_add. simpl. split; [intros [[]|H]; auto|auto]. Qed.

Lemma In_prevs n m : In m (prevs c n) <-> exists q, In q (gloc (opat c n)) /\ prev_on c n q = Some m.
Proof. unfold prevs. rewrite In_fold_opt_add. simpl. split; [intros [[]|H]; auto|auto]. Qed.

Lemma NoDup_nexts n : NoDup (nexts c n).
Proof. apply NoDup_fold_opt_add. constructor. Qed.
Lemma NoDup_prevs n : NoDup (prevs c n).
Proof. apply NoDup_fold_opt_add. constructor. Qed.

Lemma tq_In q n : tq q n = true <-> In q (gloc (opat c n)).
Proof. unfold tq, touches. apply memb_In. Qed.

(* next and prev are converse relations *)
Theorem nexts_prevs n m : In m (nexts c n) <-> In n (prevs c m).
Proof. rewrite In_nexts, In_prevs. split.
  - intros (q & Hq & H). apply next_on_spec in H as (H1 & H2 & H3).
    exists q. split; [apply tq_In; auto|]. apply prev_on_spec. repeat split; auto. apply tq_In; auto.
  - intros (q & Hq & H). apply prev_on_spec in H as (H1 & H2 & H3).
    exists q. split; [apply tq_In; auto|]. apply next_on_spec. repeat split; auto. apply tq_In; auto. Qed.

Lemma prevs_lt n m : In m (prevs c n) -> m < n.
Proof. rewrite In_prevs. intros (q & _ & H). apply prev_on_spec in H. tauto. Qed.

Lemma nexts_gt n m : In m (nexts c n) -> n < m < length c.
Proof. rewrite In_nexts. intros (q & _ & H). apply next_on_spec in H as (H1 & H2 & _).
  split; auto. eapply tq_lt; eauto. Qed.

(* the last earlier operation on a shared qudit lies between *)
Lemma prev_on_exists n m q : n < m -> tq q n = true -> exists p, prev_on c m q = Some p /\ n <= p.
Proof. intros Hlt Hn. destruct (prev_on c m q) as [p|] eqn:E.
  - exists p. split; auto. apply prev_on_spec in E as (H1 & H2 & H3).
    destruct (Nat.le_gt_cases n p); auto. rewrite H3 in Hn; [discriminate|lia].
  - exfalso. unfold prev_on in E. rewrite hd_filter_None in E.
    assert (In n (rev (seq 0 m))) by (rewrite <- in_rev; apply in_seq; lia).
    specialize (E n H). fold (tq q n) in E. congruence. Qed.

(* a prevs-closed set containing m contains every earlier operation sharing a qudit with m *)
Definition down_closed (ex : list nat) : Prop := forall n p, In n ex -> In p (prevs c n) -> In p ex.

Lemma down_closed_chain ex : down_closed ex -> forall m n q,
  In m ex -> n < m -> tq q n = true -> tq q m = true -> In n ex.
Proof. intros Hdc m. induction m as [m IH] using lt_wf_ind. intros n q Hm Hlt Hn Hq.
  destruct (prev_on_exists n m q Hlt Hn) as (p & Hp & Hle).
  assert (Hpin : In p ex).
  { apply (Hdc m p Hm). apply In_prevs. exists q. split; auto. apply tq_In; auto. }
  apply prev_on_spec in Hp as (H1 & H2 & _).
  destruct (Nat.eq_dec n p); [subst; auto|]. apply (IH p H1 n q); auto. lia. Qed.

(* ---- front ------------------------------------------------------------------ *)
Definition wf_circ (nq : nat) : Prop :=
  forall g, In g c -> gloc g <> [] /\ NoDup (gloc g) /\ forall q, In q (gloc g) -> q < nq.

Lemma wf_circ_opat nq n : wf_circ nq -> n < length c ->
  gloc (opat c n) <> [] /\ NoDup (gloc (opat c n)) /\ forall q, In q (gloc (opat c n)) -> q < nq.
Proof. intros H Hn. apply H. unfold opat. apply nth_In; auto. Qed.

Lemma first_on_spec q m : first_on c q = Some m <-> tq q m = true /\ forall k, k < m -> tq q k = false.
Proof. unfold first_on. fold (tq q). rewrite hd_filter_seq. split.
  - intros (H1 & H2 & H3). split; auto. intros k Hk. apply H3. lia.
  - intros (H2 & H3). pose proof (tq_lt _ _ H2). repeat split; auto; try lia. intros k Hk. apply H3. lia. Qed.

Lemma In_front_fold : forall l s0 m,
  In m (fold_left (fun s q => match first_on c q with
                        | Some m => match prevs c m with [] => addn m s | _ => s end
                        | None => s end) l s0) <->
  In m s0 \/ exists q, In q l /\ first_on c q = Some m /\ prevs c m = [].
Proof. induction l as [|q t IH]; simpl; intros s0 m.
  - split; [auto|intros [H|(q & [] & _)]; auto].
  - rewrite IH. destruct (first_on c q) as [x|] eqn:E.
    + destruct (prevs c x) eqn:P.
      * rewrite In_addn. split.
        -- intros [[->|H]|(q' & H1 & H2)]; eauto 6.
        -- intros [H|(q' & [->|H1] & H2 & H3)]; eauto 6. left; left. congruence.
      * split.
        -- intros [H|(q' & H1 & H2)]; eauto 6.
        -- intros [H|(q' & [->|H1] & H2 & H3)]; eauto 6. rewrite E in H2. inversion H2; subst. congruence.
    + split.
      * intros [H|(q' & H1 & H2)]; eauto 6.
      * intros [H|(q' & [->|H1] & H2 & H3)]; eauto 6. congruence. Qed.

Theorem In_front nq m : wf_circ nq -> (In m (front c nq) <-> m < length c /\ prevs c m = []).
Proof. intros Hwf. unfold front. rewrite In_front_fold. simpl. split.
  - intros [[]|(q & Hq & Hf & Hp)]. apply first_on_spec in Hf as [Hf _]. split; auto. eapply tq_lt; eauto.
  - intros [Hm Hp]. right. destruct (wf_circ_opat nq m Hwf Hm) as (Hne & _ & Hr).
    destruct (gloc (opat c m)) as [|q l] eqn:E; [congruence|].
    exists q. split; [apply in_seq; split; [lia|]; simpl; apply Hr; left; auto|]. split; auto.
    apply first_on_spec. assert (Hq : tq q m = true) by (apply tq_In; rewrite E; left; auto).
    split; auto. intros k Hk. destruct (tq q k) eqn:Ek; auto. exfalso.
    destruct (prev_on_exists k m q Hk Ek) as (p & Hp' & _).
    assert (In p (prevs c m)) by (apply In_prevs; exists q; split; auto; rewrite E; left; auto).
    rewrite Hp in H. destruct H. Qed.

Lemma NoDup_front nq : NoDup (front c nq).
Proof. unfold front. generalize (seq 0 nq). intros l.
  assert (forall s0, NoDup s0 -> NoDup (fold_left (fun s q => match first_on c q with
                        | Some m => match prevs c m with [] => addn m s | _ => s end
                        | None => s end) l s0)) as H.
  { induction l as [|q t IH]; simpl; intros s0 H0; auto. apply IH.
    destruct (first_on c q); auto. destruct (prevs c n); auto. apply NoDup_addn; auto. }
  apply H. constructor. Qed.

(* ---- counts ----------------------------------------------------------------- *)
Definition cdef (k : nat) (m : list (nat * nat)) : nat := match cget k m with Some v => v | None => 0 end.

Lemma cget_cdel k j m : cget k (cdel j m) = if Nat.eqb k j then None else cget k m.
Proof. unfold cdel. induction m as [|[a b] t IH]; simpl.
  - destruct (Nat.eqb k j); reflexivity.
  - destruct (Nat.eqb_spec a j) as [->|Hne]; simpl.
    + rewrite IH. destruct (Nat.eqb_spec k j); auto.
    + rewrite IH. destruct (Nat.eqb_spec k a) as [->|Hka]; auto.
      destruct (Nat.eqb_spec a j); [congruence|reflexivity]. Qed.

Lemma cget_cset k j v m : cget k (cset j v m) = if Nat.eqb k j then Some v else cget k m.
Proof. unfold cset. simpl. destruct (Nat.eqb_spec k j); auto. rewrite cget_cdel.
  destruct (Nat.eqb_spec k j); [congruence|reflexivity]. Qed.

Lemma cget_init k F0 : cget k (map (fun n => (n, 0)) F0) = if memb k F0 then Some 0 else None.
Proof. induction F0 as [|x t IH]; simpl; auto. destruct (Nat.eqb k x); auto. Qed.

(* number of executed predecessors *)
Definition ecount (ex : list nat) (n : nat) : nat := length (filter (fun p => memb p ex) (prevs c n)).

Lemma filter_len_le {A} (p : A -> bool) l : length (filter p l) <= length l.
Proof. induction l as [|y t IH]; simpl; auto. destruct (p y); simpl; lia. Qed.

Lemma filter_length_all {A} (p : A -> bool) l : length (filter p l) = length l <-> forall x, In x l -> p x = true.
Proof. induction l as [|y t IH]; simpl; [split; [intros _ x []|auto]|].
  destruct (p y) eqn:E; simpl.
  - split.
    + intros H x [<-|Hx]; auto. apply IH; auto.
    + intros H. f_equal. apply IH. auto.
  - split.
    + intros H. pose proof (filter_len_le p t). lia.
    + intros H. rewrite (H y) in E; auto. discriminate. Qed.

Lemma ecount_full ex n : ecount ex n = length (prevs c n) <-> forall p, In p (prevs c n) -> In p ex.
Proof. unfold ecount. rewrite filter_length_all. split; intros H p Hp; [apply memb_In|apply memb_In]; auto. Qed.

Lemma memb_snoc_ne (ex : list nat) y n : y <> n -> memb y (ex ++ [n]) = memb y ex.
Proof. intros Hne. destruct (memb y ex) eqn:Ez.
  - apply memb_In. apply in_app_iff. left. apply memb_In; auto.
  - apply memb_false. rewrite in_app_iff. apply memb_false in Ez.
    intros [Hz|[Hz|[]]]; [auto|congruence]. Qed.

Lemma count_snoc_notin (ex l : list nat) n : ~ In n l ->
  length (filter (fun p => memb p (ex ++ [n])) l) = length (filter (fun p => memb p ex) l).
Proof. induction l as [|y t IH]; simpl; intros Hn; auto.
  assert (Hy : y <> n) by (intros ->; apply Hn; left; auto).
  rewrite (memb_snoc_ne ex y n Hy). destruct (memb y ex); simpl; rewrite IH; auto. Qed.

Lemma count_snoc_in (ex l : list nat) n : NoDup l -> In n l -> ~ In n ex ->
  length (filter (fun p => memb p (ex ++ [n])) l) = S (length (filter (fun p => memb p ex) l)).
Proof. induction l as [|y t IH]; simpl; intros Hnd Hin Hnex; [tauto|].
  inversion Hnd as [|? ? Hy Ht]; subst. destruct Hin as [->|Hin].
  - assert (E1 : memb n (ex ++ [n]) = true) by (apply memb_In, in_app_iff; right; left; auto).
    assert (E2 : memb n ex = false) by (apply memb_false; auto).
    rewrite E1, E2. simpl. f_equal. apply count_snoc_notin; auto.
  - assert (Hyn : y <> n) by (intros ->; auto).
    rewrite (memb_snoc_ne ex y n Hyn). destruct (memb y ex); simpl; rewrite IH; auto. Qed.

(* the successor loop of the Exec step *)
Lemma exec_fold : forall S0 F0 cnt0, NoDup S0 ->
  let st := fold_left (exec_succ true c) S0 (F0, cnt0) in
  (forall x, cdef x (snd st) = if memb x S0 then S (cdef x cnt0) else cdef x cnt0) /\
  (forall x, In x S0 -> cget x (snd st) <> None) /\
  (forall x, ~ In x S0 -> cget x (snd st) = cget x cnt0) /\
  (forall x, In x (fst st) <-> In x F0 \/ (In x S0 /\ S (cdef x cnt0) = length (prevs c x))).
Proof. induction S0 as [|s t IH]; intros F0 cnt0 Hnd; cbn [fold_left].
  - simpl. split; [auto|split; [intros x []|split; [auto|]]]. intros x. split; [auto|intros [H|[[] _]]; auto].
  - inversion Hnd as [|? ? Hs Ht]; subst.
    set (k := match cget s cnt0 with Some k => S k | None => 1 end).
    assert (Hk : k = S (cdef s cnt0)) by (unfold k, cdef; destruct (cget s cnt0); auto).
    set (F1 := if Nat.eqb k (length (prevs c s)) then addn s F0 else F0).
    assert (Est : exec_succ true c (F0, cnt0) s = (F1, cset s k cnt0)).
    { unfold exec_succ, F1, k. simpl. destruct (cget s cnt0); destruct (Nat.eqb _ _); reflexivity. }
    rewrite Est. destruct (IH F1 (cset s k cnt0) Ht) as (A & B & C & D).
    assert (Hd : forall x, cdef x (cset s k cnt0) = if Nat.eqb x s then k else cdef x cnt0).
    { intros x. unfold cdef. rewrite cget_cset. destruct (Nat.eqb x s); auto. }
    split; [|split; [|split; [|intros x; split]]].
    + intros x. rewrite A, Hd. cbn [memb]. destruct (Nat.eqb_spec x s) as [->|Hne]; simpl.
      * assert (memb s t = false) by (apply memb_false; auto). rewrite H. auto.
      * reflexivity.
    + intros x [<-|Hx]; auto. rewrite C; auto. rewrite cget_cset, Nat.eqb_refl. discriminate.
    + intros x Hx. rewrite C by (intros Hc; apply Hx; right; auto). rewrite cget_cset.
      destruct (Nat.eqb_spec x s); [subst; exfalso; apply Hx; left; auto|reflexivity].
    + intros Hx. apply D in Hx as [Hx|[Hx He]].
      * unfold F1 in Hx. destruct (Nat.eqb_spec k (length (prevs c s))) as [Ek|Ek]; auto.
        apply In_addn in Hx as [->|Hx]; auto. right. split; [left; auto|]. rewrite <- Hk. exact Ek.
      * rewrite Hd in He. destruct (Nat.eqb_spec x s); [subst; tauto|]. right. split; [right; auto|auto].
    + intros [Hx|[[<-|Hx] He]]; apply D.
      * left. unfold F1. destruct (Nat.eqb _ _); auto. apply In_addn; auto.
      * left. unfold F1. rewrite Hk, He, Nat.eqb_refl. apply In_addn; auto.
      * right. split; auto. rewrite Hd. destruct (Nat.eqb_spec x s); [subst; tauto|auto]. Qed.

(* ---- the frontier invariant --------------------------------------------------- *)
Record FInv (ex : list nat) (Fs : list nat) (cn : list (nat * nat)) : Prop := {
  fi_nodup : NoDup ex;
  fi_lt : forall n, In n ex -> n < length c;
  fi_dc : down_closed ex;
  fi_F : forall n, In n Fs <-> n < length c /\ ~ In n ex /\ forall p, In p (prevs c n) -> In p ex;
  fi_cnt : forall n, ~ In n ex -> cdef n cn = ecount ex n;
  fi_has : forall n, In n Fs -> cget n cn <> None }.

Lemma FInv_init nq : wf_circ nq ->
  let F0 := front c nq in FInv [] F0 (map (fun n => (n, 0)) F0).
Proof. intros Hwf F0. constructor.
  - constructor.
  - intros n [].
  - intros n p [].
  - intros n. unfold F0. rewrite (In_front nq n Hwf). split.
    + intros [H1 H2]. repeat split; auto. rewrite H2. intros p [].
    + intros (H1 & _ & H3). split; auto. destruct (prevs c n) as [|p l]; auto.
      destruct (H3 p); left; auto.
  - intros n _. unfold cdef. rewrite cget_init. unfold ecount.
    assert (filter (fun p => memb p []) (prevs c n) = []) as ->.
    { induction (prevs c n); simpl; auto. }
    destruct (memb n F0); reflexivity.
  - intros n Hn. rewrite cget_init. apply memb_In in Hn. rewrite Hn. discriminate. Qed.

Theorem FInv_exec ex Fs cn n :
  FInv ex Fs cn -> In n Fs ->
  let st := fold_left (exec_succ true c) (nexts c n) (remove_nat n Fs, cdel n cn) in
  FInv (ex ++ [n]) (fst st) (snd st).
Proof. intros [Hnd Hlt Hdc HF Hcnt Hhas] Hn st.
  destruct (proj1 (HF n) Hn) as (HnN & Hnex & Hnp).
  destruct (exec_fold (nexts c n) (remove_nat n Fs) (cdel n cn) (NoDup_nexts n)) as (A & B & C & D).
  fold st in A, B, C, D.
  assert (Hsucc_notex : forall x, In x (nexts c n) -> ~ In x ex).
  { intros x Hx Hin. apply Hnex. apply (Hdc x n Hin). apply nexts_prevs; auto. }
  assert (Hcd : forall x, x <> n -> cdef x (cdel n cn) = cdef x cn).
  { intros x Hx. unfold cdef. rewrite cget_cdel. destruct (Nat.eqb_spec x n); [congruence|reflexivity]. }
  assert (Hec : forall x, ~ In x ex -> x <> n ->
            cdef x (snd st) = ecount (ex ++ [n]) x).
  { intros x Hx Hxn. rewrite A, Hcd by auto. rewrite Hcnt by auto. unfold ecount.
    destruct (memb x (nexts c n)) eqn:M.
    - apply memb_In in M. symmetry. apply count_snoc_in; auto; [apply NoDup_prevs|apply nexts_prevs; auto].
    - apply memb_false in M. symmetry. apply count_snoc_notin. intros Hc. apply M. apply nexts_prevs; auto. }
  constructor.
  - rewrite <- (rev_involutive (ex ++ [n])). apply NoDup_rev. rewrite rev_app_distr. simpl.
    constructor; [rewrite <- in_rev; auto|apply NoDup_rev; auto].
  - intros m Hm. apply in_app_iff in Hm as [Hm|[<-|[]]]; auto.
  - intros m p Hm Hp. apply in_app_iff. apply in_app_iff in Hm as [Hm|[<-|[]]].
    + left. eapply Hdc; eauto.
    + left. auto.
  - intros x. rewrite D, In_remove_nat. split.
    + intros [[Hx Hxn]|[Hx He]].
      * destruct (proj1 (HF x) Hx) as (H1 & H2 & H3). repeat split; auto.
        -- rewrite in_app_iff. intros [H|[H|[]]]; auto.
        -- intros p Hp. apply in_app_iff. left. auto.
      * pose proof (nexts_gt _ _ Hx) as [Hgt HxN]. assert (Hxn : x <> n) by lia.
        pose proof (Hsucc_notex x Hx) as Hxex. repeat split; auto.
        -- rewrite in_app_iff. intros [H|[H|[]]]; auto.
        -- apply ecount_full. rewrite <- He. rewrite Hcd, Hcnt by auto. unfold ecount.
           apply count_snoc_in; auto; [apply NoDup_prevs|apply nexts_prevs; auto].
    + intros (H1 & H2 & H3). rewrite in_app_iff in H2.
      assert (Hxex : ~ In x ex) by tauto. assert (Hxn : x <> n) by (intros ->; apply H2; right; left; auto).
      destruct (in_dec Nat.eq_dec n (prevs c x)) as [Hin|Hnin].
      * right. assert (Hx : In x (nexts c n)) by (apply nexts_prevs; auto). split; auto.
        rewrite Hcd, Hcnt by auto. unfold ecount.
        rewrite <- (count_snoc_in ex (prevs c x) n); auto; [|apply NoDup_prevs].
        apply ecount_full. auto.
      * left. split; auto. apply HF. repeat split; auto. intros p Hp.
        specialize (H3 p Hp). apply in_app_iff in H3 as [H|[<-|[]]]; auto. tauto.
  - intros x Hx. rewrite in_app_iff in Hx. apply Hec; [tauto|]. intros ->. apply Hx. right; left; auto.
  - intros x Hx. apply D in Hx as [Hx|[Hx _]]; [|apply B; auto].
    apply In_remove_nat in Hx as [Hx Hxn].
    destruct (in_dec Nat.eq_dec x (nexts c n)) as [Hin|Hnin]; [apply B; auto|].
    rewrite C by auto. rewrite cget_cdel. destruct (Nat.eqb_spec x n); [congruence|]. apply Hhas; auto. Qed.

(* when the front set is empty every operation has been executed *)
Theorem FInv_done ex cn : FInv ex [] cn -> forall n, n < length c -> In n ex.
Proof. intros [Hnd Hlt Hdc HF Hcnt Hhas] n. induction n as [n IH] using lt_wf_ind. intros Hn.
  destruct (in_dec Nat.eq_dec n ex) as [H|H]; auto. exfalso.
  assert (In n []); [|auto]. apply HF. repeat split; auto.
  intros p Hp. pose proof (prevs_lt _ _ Hp). apply IH; auto. lia. Qed.

(* ---- per-qudit timelines ---------------------------------------------------- *)
Lemma StronglySorted_filter (p : nat -> bool) l : StronglySorted lt l -> StronglySorted lt (filter p l).
Proof. induction 1 as [|x l Hs IH Hall]; simpl; [constructor|].
  destruct (p x); auto. constructor; auto. rewrite Forall_forall in *. intros y Hy.
  apply filter_In in Hy as [Hy _]. auto. Qed.

Lemma StronglySorted_seq a n : StronglySorted lt (seq a n).
Proof. revert a. induction n as [|n IH]; intros a; simpl; constructor; auto.
  apply Forall_forall. intros x Hx. apply in_seq in Hx. lia. Qed.

Lemma sorted_same_eq : forall l1 l2, StronglySorted lt l1 -> StronglySorted lt l2 ->
  (forall x, In x l1 <-> In x l2) -> l1 = l2.
Proof. induction l1 as [|a t IH]; intros l2 H1 H2 Heq.
  - destruct l2 as [|b u]; auto. destruct (proj2 (Heq b)); left; auto.
  - destruct l2 as [|b u]; [destruct (proj1 (Heq a)); left; auto|].
    inversion H1 as [|? ? Ht Ha]; subst. inversion H2 as [|? ? Hu Hb]; subst.
    rewrite Forall_forall in Ha, Hb.
    assert (a = b).
    { destruct (proj1 (Heq a) (or_introl eq_refl)) as [->|Hin]; auto.
      destruct (proj2 (Heq b) (or_introl eq_refl)) as [->|Hin']; auto.
      specialize (Ha _ Hin'). specialize (Hb _ Hin). lia. }
    subst b. f_equal. apply IH; auto. intros x. split; intros Hx.
    + destruct (proj1 (Heq x) (or_intror Hx)) as [->|H]; auto. specialize (Ha _ Hx). lia.
    + destruct (proj2 (Heq x) (or_intror Hx)) as [->|H]; auto. specialize (Hb _ Hx). lia. Qed.

(* executed operations appear, on every qudit, in the order of the input *)
Definition tl_sorted (ex : list nat) : Prop := forall q, StronglySorted lt (filter (tq q) ex).

Lemma tl_sorted_snoc ex n : down_closed ex -> ~ In n ex -> tl_sorted ex -> tl_sorted (ex ++ [n]).
Proof. intros Hdc Hn Hs q. rewrite filter_app. simpl. destruct (tq q n) eqn:E; [|rewrite app_nil_r; auto].
  specialize (Hs q).
  assert (Hall : Forall (fun m => m < n) (filter (tq q) ex)).
  { apply Forall_forall. intros m Hm. apply filter_In in Hm as [Hm Hq].
    destruct (Nat.lt_trichotomy m n) as [H|[->|H]]; auto; [tauto|].
    exfalso. apply Hn. eapply down_closed_chain; eauto. }
  clear -Hs Hall. induction Hs as [|x l Hs IH Hx]; simpl.
  - repeat constructor.
  - inversion Hall; subst. constructor; auto. apply Forall_forall. intros y Hy.
    apply in_app_iff in Hy as [Hy|[<-|[]]]; auto. rewrite Forall_forall in Hx. auto. Qed.

Theorem timeline_restrict ex : NoDup ex -> (forall n, In n ex -> n < length c) -> tl_sorted ex ->
  forall q, filter (tq q) ex = filter (fun n => tq q n && memb n ex) (seq 0 (length c)).
Proof. intros Hnd Hlt Hs q. apply sorted_same_eq; auto.
  - apply StronglySorted_filter, StronglySorted_seq.
  - intros x. rewrite !filter_In, andb_true_iff, memb_In, in_seq. split.
    + intros [H1 H2]. pose proof (Hlt x H1). repeat split; auto; try lia.
    + intros (_ & H1 & H2). auto. Qed.

End Dag.

(* boolean form of wf_circ, for concrete circuits *)
Definition wf_circb (c : circ) (nq : nat) : bool :=
  forallb (fun g => negb (Nat.eqb (length (gloc g)) 0) && nodupb (gloc g)
                    && forallb (fun q => Nat.ltb q nq) (gloc g)) c.

Lemma wf_circb_ok c nq : wf_circb c nq = true -> wf_circ c nq.
Proof. unfold wf_circb, wf_circ. rewrite forallb_forall. intros H g Hg. specialize (H g Hg).
  apply andb_true_iff in H as [H H3]. apply andb_true_iff in H as [H1 H2].
  split; [|split].
  - intros E. rewrite E in H1. discriminate.
  - apply nodupb_NoDup; auto.
  - intros q Hq. rewrite forallb_forall in H3. apply Nat.ltb_lt. auto. Qed.
