(* map/SabreSem.v - "therefore the same unitary up to the recorded permutation".

   Semantics is an arbitrary monoid M (unitaries under product, in circuit
   order) with an interpretation den n L of input operation n placed on the
   physical location L and sw a b of a SwapGate on (a, b), subject to
     den_comm : operations on disjoint locations commute
     sw_nat   : SWAP(a,b) . op@L = op@(a b)L . SWAP(a,b)      (swap naturality)
   Both hold for the matrix semantics (lib/Tensor.v: embed_comm_disjoint,
   embed_relabel) - that instance is not proved here, the theorems quantify
   over every M satisfying the two laws. *)
From Coq Require Import List Arith Bool PeanoNat Lia Permutation.
Import ListNotations.
From BQ Require Import lib.Perm lib.PermThm lib.Trace map.Graph map.Sabre map.SabreDag map.SabreThm.

Section Sem.
Variable nq : nat.
Variable M : Type.
Variable mul : M -> M -> M.
Variable one : M.
Variable den : nat -> list nat -> M.
Variable sw : nat -> nat -> M.
Hypothesis mul_assoc : forall x y z, mul x (mul y z) = mul (mul x y) z.
Hypothesis mul_one_l : forall x, mul one x = x.
Hypothesis mul_one_r : forall x, mul x one = x.
Hypothesis den_comm : forall n1 L1 n2 L2,
  (forall q, In q L1 -> q < nq) -> (forall q, In q L2 -> q < nq) -> (forall q, In q L1 -> ~ In q L2) ->
  mul (den n1 L1) (den n2 L2) = mul (den n2 L2) (den n1 L1).
Hypothesis sw_nat : forall a b n L, a < nq -> b < nq -> (forall q, In q L -> q < nq) ->
  mul (sw a b) (den n L) = mul (den n (map (tr a b) L)) (sw a b).

(* product of the mapped circuit, in append order *)
Definition den_oop (x : oop) : M := match x with OG n L => den n L | OS a b => sw a b end.
Fixpoint prodO (o : list oop) : M := match o with [] => one | x :: t => mul (den_oop x) (prodO t) end.
(* product of a logical program placed through sigma *)
Fixpoint prodV (sigma : list nat) (v : list (nat * list nat)) : M :=
  match v with [] => one | x :: t => mul (den (fst x) (compose sigma (snd x))) (prodV sigma t) end.
Fixpoint prodS (es : list (nat * nat)) : M :=
  match es with [] => one | e :: t => mul (sw (fst e) (snd e)) (prodS t) end.

Definition okop (x : oop) : Prop :=
  match x with OG _ L => forall q, In q L -> q < nq | OS a b => a < nq /\ b < nq end.
Definition okv (v : list (nat * list nat)) : Prop := forall x, In x v -> forall q, In q (snd x) -> q < nq.

Lemma compose_lt sigma l q : wfperm nq sigma -> (forall x, In x l -> x < nq) -> In q (compose sigma l) -> q < nq.
Proof. intros (Hnd & Hl & Hr) Hx Hq. unfold compose in Hq. apply in_map_iff in Hq as (y & <- & Hy).
  apply Hr. apply nth_In. rewrite Hl. auto. Qed.

(* a swap moves through a placed program by changing the placement *)
Lemma prodV_push a b sigma v : wfperm nq sigma -> a < nq -> b < nq -> okv v ->
  mul (sw a b) (prodV (map (tr a b) sigma) v) = mul (prodV sigma v) (sw a b).
Proof. intros Hw Ha Hb. induction v as [|x t IH]; intros Hok; simpl.
  - rewrite mul_one_l, mul_one_r. reflexivity.
  - assert (Hx : forall q, In q (snd x) -> q < nq) by (apply Hok; left; auto).
    assert (Hl : length sigma = nq) by apply Hw.
    rewrite compose_map by (intros y Hy; rewrite Hl; auto).
    rewrite mul_assoc, sw_nat; auto.
    2:{ intros q Hq. apply in_map_iff in Hq as (y & <- & Hy). apply tr_lt; auto.
        eapply compose_lt; eauto. }
    rewrite map_tr_invol, <- mul_assoc.
    rewrite IH by (intros y Hy; apply Hok; right; auto). apply mul_assoc. Qed.

Lemma okv_lview : forall o sigma, wfperm nq sigma -> (forall x, In x o -> okop x) -> okv (lview sigma o).
Proof. induction o as [|[n L|a b] t IH]; simpl; intros sigma Hw Hok.
  - intros x [].
  - intros x [<-|Hx].
    + simpl. intros q Hq. eapply preimage_lt; eauto. apply (Hok (OG n L)). left; auto.
    + apply (IH sigma Hw); auto.
  - destruct (Hok (OS a b)) as [Ha Hb]; [left; auto|].
    apply IH; auto. apply wfperm_map_tr; auto. Qed.

(* the mapped circuit = the logical view placed through the initial assignment,
   followed by all emitted swaps *)
Theorem out_factor : forall o sigma, wfperm nq sigma -> (forall x, In x o -> okop x) ->
  prodO o = mul (prodV sigma (lview sigma o)) (prodS (swaps_of o)).
Proof. induction o as [|[n L|a b] t IH]; simpl; intros sigma Hw Hok.
  - rewrite mul_one_l. reflexivity.
  - rewrite (IH sigma Hw) by auto. rewrite mul_assoc. f_equal. f_equal. f_equal.
    symmetry. apply compose_preimage. intros x Hx. apply (wfperm_In nq); auto.
    apply (Hok (OG n L)); [left; auto|auto].
  - destruct (Hok (OS a b)) as [Ha Hb]; [left; auto|].
    assert (Hw' : wfperm nq (map (tr a b) sigma)) by (apply wfperm_map_tr; auto).
    rewrite (IH _ Hw') by auto. rewrite mul_assoc.
    rewrite (prodV_push a b sigma _ Hw Ha Hb) by (apply okv_lview; auto).
    symmetry. apply mul_assoc. Qed.

(* ---- equivalent logical programs have the same placed product ------------------ *)
Variable pi0 : list nat.
Hypothesis Hpi0 : wfperm nq pi0.

Definition in_range (x : nat * list nat) : bool := forallb (fun q => Nat.ltb q nq) (snd x).
Definition den' (x : nat * list nat) : M :=
  if in_range x then den (fst x) (compose pi0 (snd x)) else one.

Lemma den'_comm : forall a b, indep _ (@snd nat (list nat)) a b -> mul (den' a) (den' b) = mul (den' b) (den' a).
Proof. intros a b Hind. unfold den'. destruct (in_range a) eqn:Ea; destruct (in_range b) eqn:Eb;
    rewrite ?mul_one_l, ?mul_one_r; auto.
  unfold in_range in Ea, Eb. rewrite forallb_forall in Ea, Eb.
  apply den_comm.
  { intros q Hq. eapply compose_lt; eauto. intros y Hy. apply Nat.ltb_lt. auto. }
  { intros q Hq. eapply compose_lt; eauto. intros y Hy. apply Nat.ltb_lt. auto. }
  intros q Ha Hb. unfold compose in Ha, Hb.
  apply in_map_iff in Ha as (x & <- & Hx). apply in_map_iff in Hb as (y & E & Hy).
  specialize (Ea x Hx). specialize (Eb y Hy). apply Nat.ltb_lt in Ea, Eb.
  destruct Hpi0 as (Hnd & Hl & _).
  assert (y = x) by (apply (nth_inj_NoDup pi0); auto; lia). subst y. exact (Hind x Hx Hy). Qed.

Lemma prodV_prod v : okv v -> prodV pi0 v = prod _ M mul one den' v.
Proof. induction v as [|x t IH]; simpl; intros Hok; auto.
  rewrite IH by (intros y Hy; apply Hok; right; auto). f_equal. unfold den'.
  assert (in_range x = true) as ->; auto.
  apply forallb_forall. intros q Hq. apply Nat.ltb_lt. apply (Hok x); auto. left; auto. Qed.

Theorem prodV_equiv v w : okv v -> okv w -> equiv _ (@snd nat (list nat)) v w -> prodV pi0 v = prodV pi0 w.
Proof. intros Hv Hw He. rewrite !prodV_prod; auto.
  apply (equiv_prod _ (@snd nat (list nat)) M mul one den'); auto. apply den'_comm. Qed.

End Sem.

(* ---- the routing theorem in semantic form --------------------------------------- *)
Section RouteSem.
Variable cg : adj.
Variable c : circ.
Variable nq : nat.
Variable pi0 : list nat.
Hypothesis Hwfc : wf_circ c nq.
Hypothesis Hpi0 : wfperm nq pi0.

Lemma coupled_okop x : coupled_op cg c nq x -> okop nq x.
Proof. destruct x as [n L|a b]; simpl.
  - intros (p & Hw & Hn & -> & _) q Hq. eapply compose_lt; eauto.
    intros y Hy. apply (wf_circ_opat c nq n Hwfc Hn). auto.
  - tauto. Qed.

Lemma okv_prog : okv nq (prog c).
Proof. intros x Hx q Hq. unfold prog in Hx. apply in_map_iff in Hx as (n & <- & Hn). apply in_seq in Hn.
  simpl in Hq. apply (wf_circ_opat c nq n Hwfc); auto. lia. Qed.

Theorem route_sem tc s :
  replay cg c true true (init c nq true pi0) tc = Some s -> F s = [] ->
  forall (M : Type) (mul : M -> M -> M) (one : M) (den : nat -> list nat -> M) (sw : nat -> nat -> M),
  (forall x y z, mul x (mul y z) = mul (mul x y) z) -> (forall x, mul one x = x) -> (forall x, mul x one = x) ->
  (forall n1 L1 n2 L2, (forall q, In q L1 -> q < nq) -> (forall q, In q L2 -> q < nq) ->
     (forall q, In q L1 -> ~ In q L2) -> mul (den n1 L1) (den n2 L2) = mul (den n2 L2) (den n1 L1)) ->
  (forall a b n L, a < nq -> b < nq -> (forall q, In q L -> q < nq) ->
     mul (sw a b) (den n L) = mul (den n (map (tr a b) L)) (sw a b)) ->
  prodO M mul one den sw (out s) =
  mul (prodV M mul one den pi0 (prog c)) (prodS M mul one sw (swaps_of (out s))).
Proof. intros H HF0 M mul one den sw A1 A2 A3 Hc Hn.
  pose proof (run_inv cg c nq pi0 Hwfc Hpi0 tc s H) as HI.
  assert (Hok : forall x, In x (out s) -> okop nq x).
  { intros x Hx. apply coupled_okop. apply (ri_coupled _ _ _ _ _ _ HI); auto. }
  rewrite (out_factor nq M mul one den sw A1 A2 A3 Hn (out s) pi0 Hpi0 Hok). f_equal.
  apply (prodV_equiv nq M mul one den A1 A2 A3 Hc pi0 Hpi0).
  - apply okv_lview; auto.
  - apply okv_prog.
  - apply equiv_sym. apply (route_equiv cg c nq pi0 Hwfc Hpi0 tc s H HF0). Qed.

(* final pi = the emitted swaps (those still in the circuit: backtracked ones were
   removed from both) applied to the initial pi by _apply_swap, in order *)
Lemma apply_swaps_tr_all n : forall es sigma, wfperm n sigma -> (forall e, In e es -> fst e < n /\ snd e < n) ->
  apply_swaps es sigma = Some (map (tr_all es) sigma).
Proof. induction es as [|[a b] t IH]; simpl; intros sigma Hw Hr.
  - unfold tr_all. simpl. rewrite map_id. reflexivity.
  - destruct (Hr (a, b)) as [Ha Hb]; [left; auto|]. simpl in *.
    destruct (apply_swap_wfperm n a b sigma Hw Ha Hb) as [E W]. rewrite E.
    rewrite IH; auto. rewrite map_map. reflexivity. Qed.

Theorem pi_is_swaps tr s :
  replay cg c true true (init c nq true pi0) tr = Some s ->
  wfperm nq (pi s) /\ apply_swaps (swaps_of (out s)) pi0 = Some (pi s)
  /\ pi s = map (tr_all (swaps_of (out s))) pi0.
Proof. intros H. pose proof (run_inv cg c nq pi0 Hwfc Hpi0 tr s H) as HI.
  pose proof (ri_walk _ _ _ _ _ _ HI) as Hw. rewrite walk_pi_tr_all in Hw.
  split; [apply (ri_pi _ _ _ _ _ _ HI)|]. split; auto.
  rewrite <- Hw. apply (apply_swaps_tr_all nq); auto.
  intros e He. unfold swaps_of in He. apply in_flat_map in He as ([n L|a b] & Hx & Hin); simpl in Hin; [tauto|].
  destruct Hin as [<-|[]]. simpl. apply (ri_coupled _ _ _ _ _ _ HI) in Hx. simpl in Hx. tauto. Qed.

(* out minus swaps is the input relabelled *)
Lemma gates_of_fst : forall o sigma, map fst (gates_of o) = map fst (lview sigma o).
Proof. induction o as [|[n L|a b] t IH]; simpl; intros sigma; auto. f_equal. auto. Qed.

Theorem only_swaps_added tr s :
  replay cg c true true (init c nq true pi0) tr = Some s ->
  map fst (gates_of (out s)) = executed tr /\
  (forall n L, In (n, L) (gates_of (out s)) ->
     exists p, wfperm nq p /\ n < length c /\ L = compose p (gloc (opat c n))) /\
  (F s = [] -> Permutation (map fst (gates_of (out s))) (seq 0 (length c))).
Proof. intros H. pose proof (run_inv cg c nq pi0 Hwfc Hpi0 tr s H) as HI.
  assert (E : map fst (gates_of (out s)) = executed tr).
  { rewrite (gates_of_fst (out s) pi0), (ri_view _ _ _ _ _ _ HI). unfold prog_of. rewrite map_map. simpl. apply map_id. }
  split; [exact E|]. split.
  - intros n L Hin. unfold gates_of in Hin. apply in_flat_map in Hin as ([n' L'|a b] & Hx & Hin); simpl in Hin; [|tauto].
    destruct Hin as [Heq|[]]. inversion Heq; subst. apply (ri_coupled _ _ _ _ _ _ HI) in Hx.
    destruct Hx as (p & Hw & Hn & HL & _). exists p. auto.
  - intros HF0. rewrite E. apply (route_complete cg c nq pi0 Hwfc Hpi0 tr s H HF0). Qed.

(* coupling: every operation of the mapped circuit was accepted by _can_exe under the
   assignment in force when it was appended; every swap is on an edge *)
Theorem coupled tr s :
  replay cg c true true (init c nq true pi0) tr = Some s ->
  forall x, In x (out s) -> coupled_op cg c nq x.
Proof. intros H. pose proof (run_inv cg c nq pi0 Hwfc Hpi0 tr s H) as HI. apply (ri_coupled _ _ _ _ _ _ HI). Qed.

End RouteSem.
