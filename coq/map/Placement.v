(* map/Placement.v - executable model of the PassData bookkeeping done by
     setmodel.py (SetModelPass), placement/{trivial,greedy,static}.py,
     layout/sabre.py, routing/sabre.py (through map/Sabre.v), apply.py (ApplyPlacement)
   NO PROOFS here.

   The machine's coupling graph is an `adj` whose neighbour lists are in the
   order in which CouplingGraph.get_neighbors_of iterates (the harness passes
   list(cg._adj[q])), because GreedyPlacementPass breaks ties by that order. *)
From Coq Require Import List Arith Bool PeanoNat.
Import ListNotations.
From BQ Require Import map.Graph lib.Perm map.Sabre.

Record pdata := mkpd {
  placement : list nat;
  imap : list nat;          (* initial_mapping *)
  fmap : list nat;          (* final_mapping *)
  mach : adj                (* model.coupling_graph; model.num_qudits = length mach *)
}.

(* PassData.__init__ for a circuit of n qudits (MachineModel(n) is all-to-all; the
   pipeline always starts with SetModelPass, so `mach` is a placeholder here) *)
Definition pd_init (n : nat) : pdata := mkpd (idperm n) (idperm n) (idperm n) [].

(* PassData.connectivity: model.coupling_graph.get_subgraph(placement) *)
Definition connectivity (d : pdata) : option adj :=
  match Graph.get_subgraph (mach d) (placement d) None with
  | Some es => Some (Graph.mk_adj (length (placement d)) es)
  | None => None
  end.

(* sg = graph.get_subgraph(placement); sg.is_fully_connected() *)
Definition placement_connected (g : adj) (pl : list nat) : option bool :=
  match Graph.get_subgraph g pl None with
  | Some es => Graph.is_fully_connected (Graph.mk_adj (length pl) es)
  | None => None
  end.

(* ---- SetModelPass --------------------------------------------------------- *)
Definition set_model (g : adj) (n : nat) (d : pdata) : option pdata :=
  if Nat.ltb (length g) n then None                      (* RuntimeError: model too small *)
  else Some (mkpd (idperm n) (imap d) (fmap d) g).

(* ---- TrivialPlacementPass -------------------------------------------------- *)
Definition trivial_placement (n : nat) (d : pdata) : option pdata :=
  let pl := idperm n in
  match placement_connected (mach d) pl with
  | Some true => Some (mkpd pl (imap d) (fmap d) (mach d))
  | _ => None                                             (* RuntimeError (or the ValueError of get_subgraph) *)
  end.

(* ---- GreedyPlacementPass --------------------------------------------------- *)
Definition degree (g : adj) (q : nat) : nat := length (Graph.nbrs g q).

(* int(np.argmax(degrees)): first index of the maximum *)
Fixpoint argmax_from (l : list nat) (i besti best : nat) : nat :=
  match l with
  | [] => besti
  | x :: t => if Nat.ltb best x then argmax_from t (S i) i x else argmax_from t (S i) besti best
  end.
Definition argmax (l : list nat) : nat :=
  match l with [] => 0 | x :: t => argmax_from t 1 0 x end.

(* score = (len(inter), degrees[q], lookahead), compared as Python tuples *)
Definition score (g : adj) (pl : list nat) (q : nat) : nat * nat * nat :=
  (length (filter (fun n => memb n pl) (Graph.nbrs g q)),
   degree g q,
   fold_left (fun acc n => acc + degree g n) (Graph.nbrs g q) 0).
Definition score_gt (a b : nat * nat * nat) : bool :=
  let '(a1, a2, a3) := a in let '(b1, b2, b3) := b in
  Nat.ltb b1 a1 || (Nat.eqb a1 b1 && (Nat.ltb b2 a2 || (Nat.eqb a2 b2 && Nat.ltb b3 a3))).

Definition best_neighbor (g : adj) (pl nbs : list nat) : option nat :=
  fold_left (fun best q =>
    match best with
    | None => Some q
    | Some b => if score_gt (score g pl q) (score g pl b) then Some q else best
    end) nbs None.

(* neighbors.remove(x): first occurrence *)
Fixpoint remove_first (x : nat) (l : list nat) : list nat :=
  match l with [] => [] | y :: t => if Nat.eqb x y then t else y :: remove_first x t end.

Fixpoint greedy_loop (fuel : nat) (g : adj) (n : nat) (pl nbs : list nat) : option (list nat) :=
  if Nat.leb n (length pl) then Some pl else
  match fuel with
  | 0 => None
  | S f =>
    match best_neighbor g pl nbs with
    | None => None                                       (* AssertionError: no neighbour left *)
    | Some b =>
      let nbs1 := remove_first b nbs in
      let pl1 := pl ++ [b] in
      let nbs2 := fold_left (fun acc x => if memb x pl1 || memb x acc then acc else acc ++ [x])
                            (Graph.nbrs g b) nbs1 in
      greedy_loop f g n pl1 nbs2
    end
  end.

Definition greedy_placement (n : nat) (d : pdata) : option pdata :=
  let g := mach d in
  match g with
  | [] => None                                            (* np.argmax of an empty array raises *)
  | _ =>
    let h := argmax (map (@length nat) g) in
    match greedy_loop n g n [h] (Graph.nbrs g h) with
    | Some pl =>
      let pl' := Perm.sort pl in
      match placement_connected g pl' with
      | Some true => Some (mkpd pl' (imap d) (fmap d) g)
      | _ => None
      end
    | None => None
    end
  end.

(* ---- StaticPlacementPass --------------------------------------------------- *)
(* The recursive monomorphism search (wall-clock time limit, iteration order of a
   set) is an oracle: `found` is what find_monomorphic_subgraph returned.  The
   model is the acceptance test of run():
     len(placement) == n and all(placement[e[1]] in neighbors(placement[e[0]]) for e in logical_graph)
   `ledges` are the edges of circuit.coupling_graph.  A rejected result leaves
   the placement unchanged.  None = IndexError inside the test. *)
Definition static_accepts (g : adj) (n : nat) (ledges : list (nat * nat)) (found : list nat) : option bool :=
  if negb (Nat.eqb (length found) n) then Some false else
  if forallb (fun e => Nat.ltb (fst e) n && Nat.ltb (snd e) n && Nat.ltb (nth (fst e) found 0) (length g)) ledges
  then Some (forallb (fun e => Graph.mem (nth (snd e) found 0) (Graph.nbrs g (nth (fst e) found 0))) ledges)
  else None.

Definition static_placement (n : nat) (ledges : list (nat * nat)) (found : list nat) (d : pdata) : option pdata :=
  match static_accepts (mach d) n ledges found with
  | Some true => Some (mkpd found (imap d) (fmap d) (mach d))
  | Some false => Some d
  | None => None
  end.

(* what the search itself guarantees about a non-empty answer (checked on every
   recorded answer by the correspondence run, hypothesis of the theorem) *)
Definition static_search_ok (g : adj) (found : list nat) : bool := injintob (length g) found.

(* ---- layout / routing on PassData ------------------------------------------ *)
Definition layout_on (c : circ) (nq : nat) (trs : list (list step * list step)) (d : pdata) : option pdata :=
  match connectivity d with
  | Some cg =>
    match layout_pass cg c nq trs (placement d) with
    | Some (_, pl) => Some (mkpd pl (imap d) (fmap d) (mach d))
    | None => None
    end
  | None => None
  end.

Definition routing_on (c : circ) (nq : nat) (tr : list step) (d : pdata) : option (list oop * pdata) :=
  match connectivity d with
  | Some cg =>
    match routing_pass cg c nq tr (fmap d) with
    | Some (o, _, fm) => Some (o, mkpd (placement d) (imap d) fm (mach d))
    | None => None
    end
  | None => None
  end.

(* ---- ApplyPlacement -------------------------------------------------------- *)
(* physical_circuit.append_circuit(circuit, placement): every location is mapped
   through placement *)
Definition relabel (pl : list nat) (o : oop) : oop :=
  match o with
  | OG n L => OG n (compose pl L)
  | OS a b => OS (nth a pl 0) (nth b pl 0)
  end.

Definition apply_placement (o : list oop) (d : pdata) : option (list oop * pdata) :=
  let pl := placement d in
  if forallb (fun x => forallb (fun q => Nat.ltb q (length pl)) (oloc x)) o then
    match compose_opt pl (imap d), compose_opt pl (fmap d) with
    | Some im, Some fm => Some (map (relabel pl) o, mkpd (idperm (length (mach d))) im fm (mach d))
    | _, _ => None
    end
  else None.

(* ---- the pipeline [SetModel; placement; layout; routing; ApplyPlacement] ---- *)
Inductive placer := PTrivial | PGreedy | PStatic (ledges : list (nat * nat)) (found : list nat) | PNone.

Definition run_placer (p : placer) (n : nat) (d : pdata) : option pdata :=
  match p with
  | PTrivial => trivial_placement n d
  | PGreedy => greedy_placement n d
  | PStatic le f => static_placement n le f d
  | PNone => Some d
  end.

Definition pipeline (g : adj) (c : circ) (nq : nat) (p : placer)
  (ltr : option (list (list step * list step))) (rtr : list step) : option (list oop * pdata) :=
  match set_model g nq (pd_init nq) with
  | Some d0 =>
    match run_placer p nq d0 with
    | Some d1 =>
      match (match ltr with Some trs => layout_on c nq trs d1 | None => Some d1 end) with
      | Some d2 =>
        match routing_on c nq rtr d2 with
        | Some (o, d3) => apply_placement o d3
        | None => None
        end
      | None => None
      end
    | None => None
    end
  | None => None
  end.
