(* The operator applied by apply_right / apply_left at a GENERAL location (any duplicate-free
   in-range list of qudits, in any order) is the Kronecker product U (x) I conjugated by the
   mixed-radix wire permutation that brings the location to the front:
     embed radixes loc U = P^T * (U (x) I) * P,   P = perm_matrix_mixed radixes (loc ++ rest). *)
From Coq Require Import List ZArith Arith Bool PeanoNat Lia.
From Coq Require Import Permutation.
Import ListNotations.
From BQ Require Import map.Graph map.GraphThm map.Kron map.KronThm.

Local Notation gather l d := (map (fun q => nth q d 0) l).

(* ---- digit lists bounded by their radixes ---------------------------------------------- *)

Lemma digits_bounded rs : forall c, c < dim rs -> Forall2 lt (digits rs c) rs.
Proof.
  induction rs as [|r rs IH]; intros c Hc.
  - constructor.
  - rewrite digits_cons. rewrite dim_cons in Hc.
    assert (Hd : 0 < dim rs) by (destruct (dim rs); lia).
    constructor.
    + apply Nat.div_lt_upper_bound; lia.
    + apply IH. apply Nat.mod_upper_bound. lia.
Qed.

Lemma Forall2_lt_length ds rs : Forall2 lt ds rs -> length ds = length rs.
Proof.
  induction 1 as [|d r ds rs Hd HF IH]; simpl; [reflexivity | rewrite IH; reflexivity].
Qed.

Lemma Forall2_nth_lt ds rs : Forall2 lt ds rs ->
  forall q, q < length rs -> nth q ds 0 < nth q rs 0.
Proof.
  induction 1 as [|d r ds rs Hd HF IH]; intros q Hq; simpl in Hq.
  - lia.
  - destruct q as [|q]; simpl.
    + exact Hd.
    + apply IH. lia.
Qed.

Lemma gather_bounded l ds rs : Forall2 lt ds rs -> (forall q, In q l -> q < length rs) ->
  Forall2 lt (gather l ds) (gather l rs).
Proof.
  intros HF. induction l as [|x l IH]; intros Hl; simpl.
  - constructor.
  - constructor.
    + apply Forall2_nth_lt; [exact HF | apply Hl; left; reflexivity].
    + apply IH. intros q Hq. apply Hl. right. exact Hq.
Qed.

Lemma undigits_lt ds rs : Forall2 lt ds rs -> undigits rs ds < dim rs.
Proof.
  induction 1 as [|d r ds rs Hd HF IH].
  - simpl. lia.
  - rewrite undigits_cons, dim_cons.
    assert (Hle : (d + 1) * dim rs <= r * dim rs) by (apply Nat.mul_le_mono_r; lia).
    lia.
Qed.

Lemma digits_undigits ds rs : Forall2 lt ds rs -> digits rs (undigits rs ds) = ds.
Proof.
  induction 1 as [|d r ds rs Hd HF IH].
  - reflexivity.
  - rewrite undigits_cons, digits_cons.
    pose proof (undigits_lt ds rs HF) as Hu.
    assert (E1 : (d * dim rs + undigits rs ds) / dim rs = d).
    { symmetry. apply Nat.div_unique with (r := undigits rs ds); lia. }
    assert (E2 : (d * dim rs + undigits rs ds) mod dim rs = undigits rs ds).
    { symmetry. apply Nat.mod_unique with (q := d); lia. }
    rewrite E1, E2, IH. reflexivity.
Qed.

Lemma undigits_inj d1 d2 rs : Forall2 lt d1 rs -> Forall2 lt d2 rs ->
  undigits rs d1 = undigits rs d2 -> d1 = d2.
Proof.
  intros H1 H2 E.
  rewrite <- (digits_undigits d1 rs H1), <- (digits_undigits d2 rs H2), E. reflexivity.
Qed.

Lemma undigits_app r1 r2 : forall d1 d2, length d1 = length r1 ->
  undigits (r1 ++ r2) (d1 ++ d2) = undigits r1 d1 * dim r2 + undigits r2 d2.
Proof.
  induction r1 as [|r r1 IH]; intros d1 d2 Hlen.
  - destruct d1; simpl in Hlen; [|discriminate]. reflexivity.
  - destruct d1 as [|d d1]; simpl in Hlen; [discriminate|]. injection Hlen as Hlen.
    simpl app. rewrite !undigits_cons, dim_app, (IH d1 d2 Hlen). lia.
Qed.

(* ---- the dimension is invariant under permutation of the radixes ----------------------- *)

Lemma dim_perm l l' : Permutation l l' -> dim l = dim l'.
Proof.
  induction 1 as [|x l l' HP IH|x y l|l l' l'' H1 IH1 H2 IH2].
  - reflexivity.
  - rewrite !dim_cons, IH. reflexivity.
  - rewrite !dim_cons. lia.
  - rewrite IH1. exact IH2.
Qed.

Lemma NoDup_app' {X} (a b : list X) :
  NoDup a -> NoDup b -> (forall x, In x a -> ~ In x b) -> NoDup (a ++ b).
Proof.
  intros Ha Hb Hd. induction Ha as [|x a Hx Ha IH]; simpl.
  - exact Hb.
  - constructor.
    + intros Hin. apply in_app_or in Hin. destruct Hin as [Hin|Hin].
      * contradiction.
      * apply (Hd x (or_introl eq_refl)). exact Hin.
    + apply IH. intros y Hy. apply Hd. right. exact Hy.
Qed.

Lemma order_perm n loc : NoDup loc -> (forall q, In q loc -> q < n) ->
  Permutation (loc ++ filter (fun q => negb (mem q loc)) (seq 0 n)) (seq 0 n).
Proof.
  intros Hnd Hr. apply NoDup_Permutation.
  - apply NoDup_app'.
    + exact Hnd.
    + apply NoDup_filter. apply seq_NoDup.
    + intros x Hx Hf. apply filter_In in Hf. destruct Hf as [_ Hf].
      apply (KronThm.mem_In x loc) in Hx. rewrite Hx in Hf. discriminate.
  - apply seq_NoDup.
  - intros x. rewrite in_app_iff, filter_In, in_seq. split.
    + intros [Hx|[Hx _]]; [apply Hr in Hx; lia | lia].
    + intros Hx. destruct (mem x loc) eqn:Em.
      * left. apply KronThm.mem_In. exact Em.
      * right. split; [lia | reflexivity].
Qed.

Lemma gather_seq_id (rs : list nat) : gather (seq 0 (length rs)) rs = rs.
Proof.
  pose proof (map_nth_seq_prefix rs [] 0 (length rs) eq_refl) as H.
  rewrite app_nil_r in H. exact H.
Qed.

Lemma dim_order rs loc : NoDup loc -> (forall q, In q loc -> q < length rs) ->
  dim (gather (loc ++ filter (fun q => negb (mem q loc)) (seq 0 (length rs))) rs) = dim rs.
Proof.
  intros Hnd Hr.
  rewrite (dim_perm _ (gather (seq 0 (length rs)) rs)).
  - rewrite gather_seq_id. reflexivity.
  - apply Permutation_map. apply order_perm; assumption.
Qed.

(* ---- transpose, permutation matrices, sums against a delta ----------------------------- *)

Lemma transpose_shape r c A : zshape r c A -> 0 < r -> zshape c r (transpose A).
Proof.
  intros HA Hr. split.
  - apply (transpose_length r c A HA Hr).
  - destruct HA as [HA1 HA2]. rewrite Forall_forall. intros row Hrow.
    unfold transpose in Hrow. apply in_map_iff in Hrow. destruct Hrow as [j [Heq _]].
    subst row. rewrite map_length. exact HA1.
Qed.

Lemma transpose_entry r c A i j : zshape r c A -> 0 < r -> i < c -> j < r ->
  zget (transpose A) i j = zget A j i.
Proof.
  intros HA Hr Hi Hj.
  pose proof (transpose_length r c A HA Hr) as Hlen.
  destruct HA as [HA1 HA2]. unfold zget.
  rewrite transpose_nth by lia.
  rewrite (nth_map_d _ A [] 0%Z) by lia. reflexivity.
Qed.

Lemma sum_delta_zero (f : nat -> Z) x : forall n s, x < s \/ s + n <= x ->
  fold_right Z.add 0%Z (map (fun k => (f k * (if Nat.eqb k x then 1 else 0))%Z) (seq s n)) = 0%Z.
Proof.
  induction n as [|n IH]; intros s Hx.
  - reflexivity.
  - simpl seq. simpl map. simpl fold_right. rewrite (IH (S s)) by lia.
    destruct (Nat.eqb s x) eqn:E0.
    + apply Nat.eqb_eq in E0. lia.
    + lia.
Qed.

Lemma sum_delta_r (f : nat -> Z) x : forall n s, s <= x < s + n ->
  fold_right Z.add 0%Z (map (fun k => (f k * (if Nat.eqb k x then 1 else 0))%Z) (seq s n)) = f x.
Proof.
  induction n as [|n IH]; intros s Hx.
  - lia.
  - simpl seq. simpl map. simpl fold_right.
    destruct (Nat.eqb s x) eqn:E0.
    + apply Nat.eqb_eq in E0. subst x. rewrite sum_delta_zero by lia. lia.
    + apply Nat.eqb_neq in E0. rewrite (IH (S s)) by lia. lia.
Qed.

Lemma sum_delta_right (f : nat -> Z) x n : x < n ->
  fold_right Z.add 0%Z (map (fun k => (f k * (if Nat.eqb k x then 1 else 0))%Z) (seq 0 n)) = f x.
Proof. intros Hx. apply sum_delta_r. lia. Qed.

Lemma sum_delta_left (f : nat -> Z) x n : x < n ->
  fold_right Z.add 0%Z (map (fun k => ((if Nat.eqb k x then 1 else 0) * f k)%Z) (seq 0 n)) = f x.
Proof.
  intros Hx. rewrite <- (sum_delta_right f x n Hx). f_equal.
  apply map_ext. intros k. apply Z.mul_comm.
Qed.

(* the index map realised by perm_matrix_mixed: column c has its 1 in row sigma c *)
Definition sigma (rs order : list nat) (c : nat) : nat :=
  undigits (gather order rs) (gather order (digits rs c)).

Lemma pmm_shape rs order : zshape (dim rs) (dim rs) (perm_matrix_mixed rs order).
Proof.
  unfold perm_matrix_mixed. split.
  - rewrite map_length, seq_length. reflexivity.
  - rewrite Forall_forall. intros row Hrow. apply in_map_iff in Hrow.
    destruct Hrow as [i [Heq _]]. subst row. rewrite map_length, seq_length. reflexivity.
Qed.

Lemma pmm_entry rs order row col : row < dim rs -> col < dim rs ->
  zget (perm_matrix_mixed rs order) row col
  = (if Nat.eqb row (sigma rs order col) then 1 else 0)%Z.
Proof.
  intros Hr Hc. unfold zget, perm_matrix_mixed. cbv zeta.
  rewrite (nth_map_d _ (seq 0 (dim rs)) 0 []) by (rewrite seq_length; exact Hr).
  rewrite (nth_map_d _ (seq 0 (dim rs)) 0 0%Z) by (rewrite seq_length; exact Hc).
  rewrite !seq_nth by assumption. reflexivity.
Qed.

(* multiplying by a permutation matrix on the right permutes columns, by its transpose on
   the left permutes rows *)
Lemma mmul_pmm_right rs order M m r c :
  0 < dim rs -> zshape m (dim rs) M -> r < m -> c < dim rs -> sigma rs order c < dim rs ->
  zget (mmul M (perm_matrix_mixed rs order)) r c = zget M r (sigma rs order c).
Proof.
  intros HD HM Hr Hc Hs.
  rewrite (mmul_entry m (dim rs) (dim rs) M _ HM (pmm_shape rs order) r c Hr Hc).
  rewrite <- (sum_delta_right (fun k => zget M r k) (sigma rs order c) (dim rs) Hs).
  f_equal. apply map_ext_in. intros k Hk. apply in_seq in Hk.
  rewrite pmm_entry by lia. reflexivity.
Qed.

Lemma mmul_pmm_left rs order M p r c :
  0 < dim rs -> zshape (dim rs) p M -> r < dim rs -> c < p -> sigma rs order r < dim rs ->
  zget (mmul (transpose (perm_matrix_mixed rs order)) M) r c = zget M (sigma rs order r) c.
Proof.
  intros HD HM Hr Hc Hs.
  rewrite (mmul_entry (dim rs) (dim rs) p _ M
             (transpose_shape _ _ _ (pmm_shape rs order) HD) HM r c Hr Hc).
  rewrite <- (sum_delta_left (fun k => zget M k c) (sigma rs order r) (dim rs) Hs).
  f_equal. apply map_ext_in. intros k Hk. apply in_seq in Hk.
  rewrite (transpose_entry (dim rs) (dim rs) _ r k (pmm_shape rs order) HD Hr) by lia.
  rewrite pmm_entry by lia. reflexivity.
Qed.

(* ---- the index map sigma for order = loc ++ rest ---------------------------------------- *)

Lemma sigma_lt rs order c : (forall q, In q order -> q < length rs) -> c < dim rs ->
  sigma rs order c < dim (gather order rs).
Proof.
  intros Hr Hc. unfold sigma. apply undigits_lt. apply gather_bounded.
  - apply digits_bounded. exact Hc.
  - exact Hr.
Qed.

Lemma sigma_split rs l1 l2 c :
  sigma rs (l1 ++ l2) c
  = undigits (gather l1 rs) (gather l1 (digits rs c)) * dim (gather l2 rs)
    + undigits (gather l2 rs) (gather l2 (digits rs c)).
Proof.
  unfold sigma. rewrite !map_app. apply undigits_app. rewrite !map_length. reflexivity.
Qed.

Lemma rest_range n loc q :
  In q (filter (fun q => negb (mem q loc)) (seq 0 n)) -> q < n.
Proof. intros H. apply filter_In in H. destruct H as [H _]. apply in_seq in H. lia. Qed.

Lemma forallb_rest n loc (dr dc : list nat) :
  forallb (fun q => mem q loc || Nat.eqb (nth q dr 0) (nth q dc 0)) (seq 0 n) = true
  <-> gather (filter (fun q => negb (mem q loc)) (seq 0 n)) dr
      = gather (filter (fun q => negb (mem q loc)) (seq 0 n)) dc.
Proof.
  split.
  - intros HF. rewrite forallb_forall in HF. apply map_ext_in. intros q Hq.
    apply filter_In in Hq. destruct Hq as [Hq Hm].
    specialize (HF q Hq). destruct (mem q loc) eqn:Em; simpl in Hm, HF.
    + discriminate.
    + apply Nat.eqb_eq. exact HF.
  - intros HE. apply forallb_forall. intros q Hq.
    destruct (mem q loc) eqn:Em; simpl.
    + reflexivity.
    + apply Nat.eqb_eq.
      apply (ext_in_map HE). apply filter_In. split; [exact Hq | rewrite Em; reflexivity].
Qed.

Lemma kron_sigma_entry rs loc U r c :
  Forall (fun r => 0 < r) rs -> (forall q, In q loc -> q < length rs) ->
  zshape (dim (gather loc rs)) (dim (gather loc rs)) U ->
  r < dim rs -> c < dim rs ->
  let rest := filter (fun q => negb (mem q loc)) (seq 0 (length rs)) in
  zget (kron U (ident (dim (gather rest rs))))
       (sigma rs (loc ++ rest) r) (sigma rs (loc ++ rest) c)
  = embed_entry rs loc U r c.
Proof.
  intros Hpos Hrange HU Hr Hc rest.
  assert (Hrest : forall q, In q rest -> q < length rs) by (intros q Hq; apply (rest_range _ loc q Hq)).
  pose proof (digits_bounded rs r Hr) as Br.
  pose proof (digits_bounded rs c Hc) as Bc.
  pose proof (gather_bounded loc _ _ Br Hrange) as Blr.
  pose proof (gather_bounded loc _ _ Bc Hrange) as Blc.
  pose proof (gather_bounded rest _ _ Br Hrest) as Brr.
  pose proof (gather_bounded rest _ _ Bc Hrest) as Brc.
  rewrite !sigma_split.
  rewrite (kron_entry _ _ _ _ U (ident (dim (gather rest rs))) HU (ident_shape _))
    by (apply undigits_lt; assumption).
  rewrite ident_entry by (apply undigits_lt; assumption).
  unfold embed_entry. cbv zeta.
  fold rest.
  destruct (forallb _ (seq 0 (length rs))) eqn:EF.
  - apply forallb_rest in EF. fold rest in EF. rewrite EF, Nat.eqb_refl. lia.
  - destruct (Nat.eqb _ _) eqn:EE.
    + apply Nat.eqb_eq in EE. apply (undigits_inj _ _ _ Brr Brc) in EE.
      apply (proj2 (forallb_rest (length rs) loc _ _)) in EE. rewrite EE in EF. discriminate.
    + lia.
Qed.

(* ---- main theorem ------------------------------------------------------------------------ *)

Theorem embed_general radixes loc U :
  Forall (fun r => 0 < r) radixes -> NoDup loc -> (forall q, In q loc -> q < length radixes) ->
  zshape (dim (map (fun q => nth q radixes 0) loc)) (dim (map (fun q => nth q radixes 0) loc)) U ->
  let rest := filter (fun q => negb (mem q loc)) (seq 0 (length radixes)) in
  let order := loc ++ rest in
  let P := perm_matrix_mixed radixes order in
  embed radixes loc U = mmul (transpose P) (mmul (kron U (ident (dim (map (fun q => nth q radixes 0) rest)))) P).
Proof.
  intros Hpos Hnd Hrange HU rest order P. subst P.
  pose proof (dim_pos radixes Hpos) as HD.
  assert (Hdim : dim (gather order radixes) = dim radixes) by (apply dim_order; assumption).
  assert (Horder : forall q, In q order -> q < length radixes).
  { intros q Hq. apply in_app_or in Hq. destruct Hq as [Hq|Hq].
    - apply Hrange. exact Hq.
    - apply (rest_range _ loc q Hq). }
  assert (Hsig : forall c, c < dim radixes -> sigma radixes order c < dim radixes).
  { intros c Hc. rewrite <- Hdim. apply sigma_lt; assumption. }
  assert (HK : zshape (dim radixes) (dim radixes) (kron U (ident (dim (gather rest radixes))))).
  { rewrite <- Hdim. unfold order. rewrite map_app, dim_app.
    apply kron_shape; [exact HU | apply ident_shape]. }
  assert (HKP : zshape (dim radixes) (dim radixes)
                  (mmul (kron U (ident (dim (gather rest radixes)))) (perm_matrix_mixed radixes order))).
  { apply (mmul_shape _ (dim radixes)); [exact HD | exact HK | apply pmm_shape]. }
  apply (zmat_ext (dim radixes) (dim radixes)).
  - apply embed_shape.
  - apply (mmul_shape _ (dim radixes)); [exact HD | | exact HKP].
    apply transpose_shape; [apply pmm_shape | exact HD].
  - intros r c Hr Hc.
    rewrite embed_zget by assumption.
    rewrite (mmul_pmm_left radixes order _ (dim radixes) r c HD HKP Hr Hc (Hsig r Hr)).
    rewrite (mmul_pmm_right radixes order _ (dim radixes) _ c HD HK (Hsig r Hr) Hc (Hsig c Hc)).
    symmetry. apply (kron_sigma_entry radixes loc U r c Hpos Hrange HU Hr Hc).
Qed.
