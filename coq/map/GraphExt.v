(* Executable model, part 2 (no proofs): the CouplingGraph constructor on edge lists,
   the topology constructors, is_embedded_in, get_induced_subgraph, relabel_subgraph,
   maximal_matching.  Graph.v is left untouched (other developments import it). *)
From Coq Require Import List Arith Bool PeanoNat.
Import ListNotations.
From BQ Require Import map.Graph.

Definition edge := (nat * nat)%type.

(* outcome of a call that may raise *)
Inductive res (A : Type) : Type :=
| Ok (a : A) | TypeError | ValueError | KeyError.
Arguments Ok {A} a. Arguments TypeError {A}. Arguments ValueError {A}. Arguments KeyError {A}.

(* ---- CouplingGraph.__init__ on an edge list ---------------------------------------- *)
(* calc_num_qudits = 1 + max over all endpoints (1 for the empty list) *)
Definition infer_n (es : list edge) : nat :=
  S (fold_left (fun m e => Nat.max m (Nat.max (fst e) (snd e))) es 0).

(* is_valid_coupling_graph rejects a pair (a, a) -> TypeError; num_qudits smaller than
   the inferred one -> ValueError; otherwise the adjacency sets *)
Definition mk_graph (es : list edge) (on : option nat) : res adj :=
  if existsb (fun e => Nat.eqb (fst e) (snd e)) es then TypeError else
  let c := infer_n es in
  match on with
  | Some n => if Nat.ltb n c then ValueError else Ok (mk_adj n es)
  | None => Ok (mk_adj c es)
  end.

(* normalised edge set of an adjacency structure, a < b, in ascending order *)
Definition edges_of (g : adj) : list edge :=
  flat_map (fun a => map (fun b => (a, b)) (filter (Nat.ltb a) (sort (nbrs g a)))) (seq 0 (length g)).

(* ---- topology constructors (edge lists as written in the code) --------------------- *)
(* set(it.combinations(range(n), 2)) *)
Definition all_to_all_edges (n : nat) : list edge :=
  flat_map (fun a => map (fun b => (a, b)) (seq (S a) (n - S a))) (seq 0 n).
(* [(x, x + 1) for x in range(n - 1)] *)
Definition linear_edges (n : nat) : list edge := map (fun x => (x, S x)) (seq 0 (n - 1)).
(* linear + [(0, n - 1)]   (n >= 1; for n = 0 Python builds the label -1, outside nat) *)
Definition ring_edges (n : nat) : list edge := linear_edges n ++ [(0, n - 1)].
(* [(0, x) for x in range(1, n)] *)
Definition star_edges (n : nat) : list edge := map (fun x => (0, x)) (seq 1 (n - 1)).
(* for i in range(r*c): if i % c != c-1: (i, i+1); if i < (r-1)*c: (i, i+c) *)
Definition grid_edges (r c : nat) : list edge :=
  flat_map (fun i =>
    (if negb (Nat.eqb (i mod c) (c - 1)) then [(i, i + 1)] else []) ++
    (if Nat.ltb i ((r - 1) * c) then [(i, i + c)] else [])) (seq 0 (r * c)).

Definition all_to_all (n : nat) : res adj := mk_graph (all_to_all_edges n) None.
Definition linear (n : nat) : res adj := mk_graph (linear_edges n) None.
Definition ring (n : nat) : res adj := mk_graph (ring_edges n) None.
Definition star (n : nat) : res adj := mk_graph (star_edges n) None.
Definition grid (r c : nat) : res adj := mk_graph (grid_edges r c) None.

(* ---- is_embedded_in ------------------------------------------------------------------ *)
Definition remove_nat (x : nat) (l : list nat) : list nat := filter (fun y => negb (Nat.eqb y x)) l.
(* it.permutations(pool, k): all duplicate-free k-sequences over pool, lexicographic *)
Fixpoint inj_lists (k : nat) (pool : list nat) : list (list nat) :=
  match k with
  | 0 => [[]]
  | S k' => flat_map (fun x => map (cons x) (inj_lists k' (remove_nat x pool))) pool
  end.

(* (min(a,b), max(a,b)) in graph._edges *)
Definition has_edge (h : adj) (a b : nat) : bool := mem (Nat.max a b) (nbrs h (Nat.min a b)).

Definition embeds_by (g h : adj) (ren : list nat) : bool :=
  forallb (fun e => has_edge h (nth (fst e) ren 0) (nth (snd e) ren 0)) (edges_of g).

Definition is_embedded_in (g h : adj) : bool :=
  if Nat.ltb (length h) (length g) then false else
  (* every vertex of g needs a candidate of at least its degree in h *)
  if existsb (fun d => negb (existsb (fun d' => Nat.leb d d') (degrees h))) (degrees g) then false else
  existsb (embeds_by g h) (inj_lists (length g) (seq 0 (length h))).

(* ---- get_induced_subgraph (deprecated in the code) ------------------------------------ *)
(* it.combinations(location, 2) *)
Fixpoint pairs_of (l : list nat) : list edge :=
  match l with [] => [] | x :: t => map (pair x) t ++ pairs_of t end.

Definition induced_subgraph (g : adj) (loc : list nat) : res (list edge) :=
  if negb (nodupb loc) then ValueError            (* CircuitLocation rejects duplicates *)
  else if Nat.ltb (length loc) 2 then ValueError
  else Ok (map norm_edge (filter (fun e => mem (snd e) (nbrs g (fst e)) || mem (fst e) (nbrs g (snd e))) (pairs_of loc))).

(* ---- relabel_subgraph (deprecated in the code) ------------------------------------------ *)
Definition vertices_of (es : list edge) : list nat :=
  sort (fold_right (fun e acc => add (fst e) (add (snd e) acc)) [] es).

(* relabeling = None: "renumbered in least to greatest order" (docstring).  The code
   enumerates a Python set, which is ascending only while labels do not collide in the
   hash table (see known finding C20-F4). *)
Definition default_relabeling (es : list edge) : list (nat * nat) :=
  let vs := vertices_of es in combine vs (seq 0 (length vs)).

Fixpoint relabel_edges (ren : list (nat * nat)) (es : list edge) : res (list edge) :=
  match es with
  | [] => Ok []
  | (a, b) :: t =>
    match assoc a ren, assoc b ren with
    | Some a', Some b' =>
      match relabel_edges ren t with Ok r => Ok (norm_edge (a', b') :: r) | e => e end
    | _, _ => KeyError
    end
  end.

Definition relabel_subgraph (es : list edge) (ren : option (list (nat * nat))) : res adj :=
  let r := match ren with Some r => r | None => default_relabeling es end in
  match relabel_edges r es with
  | Ok es' => mk_graph es' None
  | TypeError => TypeError | ValueError => ValueError | KeyError => KeyError
  end.

(* ---- maximal_matching ----------------------------------------------------------------- *)
(* the edge order (set iteration, optionally shuffled) is an argument: the theorems hold
   for every order; the harness replays the order the implementation used *)
Fixpoint emem (e : edge) (l : list edge) : bool :=
  match l with [] => false | f :: t => (Nat.eqb (fst e) (fst f) && Nat.eqb (snd e) (snd f)) || emem e t end.

Definition matching_step (st : list edge * list nat) (e : edge) : list edge * list nat :=
  let '(m, vs) := st in
  if negb (mem (fst e) vs) && negb (mem (snd e) vs) && negb (Nat.eqb (fst e) (snd e))
  then (e :: m, fst e :: snd e :: vs) else st.

Definition maximal_matching (edge_order ignore : list edge) : list edge :=
  let el := filter (fun e => negb (emem e ignore) && negb (emem (snd e, fst e) ignore)) edge_order in
  fst (fold_left matching_step el ([], [])).
