(* map/Pam.v - executable model of bqskit/passes/mapping/pam.py
   (PermutationAwareMappingAlgorithm.forward_pass) and of the PAM layout /
   routing wrappers.  NO PROOFS here.

   Differences to the SABRE forward pass (map/Sabre.v):
     * an executed block is replaced by a pre-synthesised triple (pre, circ, post)
       chosen by _get_best_perm; pi is changed by _apply_perm(pre) before and
       _apply_perm(post) after the block is appended at [pi[q] for q in location];
     * a barrier is appended on its LOGICAL location (pam.py appends op.location,
       not physical_location) and pi is not touched;
     * the backward pass is the inherited SABRE backward pass (no permutations).
   The choice of the triple (float scores, gate counts) is NOT in the model: a
   step `PExec n pre post` is enabled iff the triple is ADMISSIBLE, i.e.
   perm_data[n] has an entry for the coupling graph induced on the permuted
   physical location with this (pre, post).  The table of available triples is an
   input (the synthesised circuits themselves are the oracle of C03/C10). *)
From Coq Require Import List Arith Bool PeanoNat.
Import ListNotations.
From BQ Require Import map.Graph lib.Perm map.Sabre map.Placement.

(* one entry of perm_data[n]: (local coupling graph, (pre, post)) *)
Record ptriple := mkpt { pt_graph : list (nat * nat); pt_pre : list nat; pt_post : list nat }.
Definition ptable := list (list ptriple).        (* indexed by operation *)

(* the mapped circuit *)
Inductive pop :=
| PG (n : nat) (L pre post : list nat) (es : list (nat * nat))   (* block n as triple (pre, post) for local graph es *)
| PB (n : nat) (L : list nat)                                     (* barrier *)
| PS (a b : nat).                                                 (* SwapGate *)
Definition ploc (o : pop) : list nat :=
  match o with PG _ L _ _ _ => L | PB _ L => L | PS a b => [a; b] end.

Fixpoint premove_first_on (q : nat) (o : list pop) : option (list pop) :=
  match o with
  | [] => None
  | x :: t => if memb q (ploc x) then Some t
              else match premove_first_on q t with Some t' => Some (x :: t') | None => None end
  end.
Definition ppop_last_on (q : nat) (o : list pop) : option (list pop) :=
  match premove_first_on q (rev o) with Some r => Some (rev r) | None => None end.

Record pstate := mkpst {
  ppi : list nat; pF : list nat; pcnt : list (nat * nat); plead : list (nat * nat); pout : list pop }.

Inductive pstep :=
| PExec (n : nat) (pre post : list nat) | PBar (n : nat)
| PSwap (e : nat * nat) | PBacktrack | PUphill (e : nat * nat).

Definition pinit (c : circ) (nq : nat) (pi0 : list nat) : pstate :=
  let F0 := front c nq in mkpst pi0 F0 (map (fun n => (n, 0)) F0) [] [].

Fixpoint list_eqb (a b : list nat) : bool :=
  match a, b with
  | [], [] => true
  | x :: s, y :: t => Nat.eqb x y && list_eqb s t
  | _, _ => false
  end.
Definition pair_mem (e : nat * nat) (l : list (nat * nat)) : bool :=
  existsb (fun f => Nat.eqb (fst e) (fst f) && Nat.eqb (snd e) (snd f)) l.
Definition same_edges (a b : list (nat * nat)) : bool :=
  forallb (fun e => pair_mem e b) a && forallb (fun e => pair_mem e a) b.

(* `local_graph in perm_data and lperm == perms[0]` for some stored (perms, circ) with perms[1] = post *)
Definition admissible (tbl : ptable) (n : nat) (es : list (nat * nat)) (pre post : list nat) : bool :=
  existsb (fun t => same_edges (pt_graph t) es && list_eqb pre (pt_pre t) && list_eqb post (pt_post t))
          (nth n tbl []).

Fixpoint pundo (modify : bool) (sw : list (nat * nat)) (p : list nat) (o : list pop)
  : option (list nat * list pop) :=
  match sw with
  | [] => Some (p, o)
  | e :: t =>
    match apply_swap e p with
    | None => None
    | Some p' =>
      if modify then
        match ppop_last_on (fst e) o with
        | Some o' => pundo modify t p' o'
        | None => None
        end
      else pundo modify t p' o
    end
  end.

(* the part of _get_best_perm + forward_pass that concerns one chosen triple:
   returns (physical location the graph lookup used, its edges, pi after pre,
   location the block is appended on, pi after post) *)
Definition perm_exec (cg : adj) (p : list nat) (qudits pre post : list nat)
  : option (list (nat * nat) * list nat * list nat) :=
  let k := length qudits in
  if negb (wfpermb k pre && wfpermb k post) then None else
  let ipre := inverse pre in
  let gperm1 := compose qudits ipre in            (* inv_global_perm *)
  let gperm2 := compose qudits post in            (* global perm of the post permutation *)
  match phys p gperm1 with                        (* [pi[qudits[p]] for p in ilperm] *)
  | None => None
  | Some physl =>
    match Graph.get_subgraph cg physl None with
    | None => None
    | Some es =>
      match apply_perm gperm1 p with
      | None => None
      | Some p1 =>
        match phys p1 qudits, apply_perm gperm2 p1 with
        | Some L, Some p2 => Some (es, L, p2)
        | _, _ => None
        end
      end
    end
  end.

Definition do_pstep (cg : adj) (c : circ) (bars : list bool) (tbl : ptable) (modify : bool)
  (s : pstate) (t : pstep) : option pstate :=
  match t with
  | PExec n pre post =>
    if negb (memb n (pF s)) || nth n bars false then None else
    let g := opat c n in
    match can_exe cg (ppi s) g, cget n (pcnt s) with
    | Some true, Some _ =>
      let st := fold_left (exec_succ true c) (succs true c n) (remove_nat n (pF s), cdel n (pcnt s)) in
      match perm_exec cg (ppi s) (gloc g) pre post with
      | Some (es, L, p2) =>
        if admissible tbl n es pre post then
          Some (mkpst p2 (fst st) (snd st) []
                      (if modify then pout s ++ [PG n L pre post es] else pout s))
        else None
      | None => None
      end
    | _, _ => None
    end
  | PBar n =>
    if negb (memb n (pF s)) || negb (nth n bars false) then None else
    match cget n (pcnt s) with
    | Some _ =>
      let st := fold_left (exec_succ true c) (succs true c n) (remove_nat n (pF s), cdel n (pcnt s)) in
      Some (mkpst (ppi s) (fst st) (snd st) []
                  (if modify then pout s ++ [PB n (gloc (opat c n))] else pout s))
    | None => None
    end
  | PSwap e =>
    if negb (is_edge cg e) then None else
    match apply_swap e (ppi s) with
    | Some p => Some (mkpst p (pF s) (pcnt s) (plead s ++ [e])
                            (if modify then pout s ++ [PS (fst e) (snd e)] else pout s))
    | None => None
    end
  | PBacktrack =>
    match pundo modify (rev (plead s)) (ppi s) (pout s) with
    | Some (p, o) => Some (mkpst p (pF s) (pcnt s) [] o)
    | None => None
    end
  | PUphill e =>
    if negb (is_edge cg e) then None else
    match plead s with
    | [] =>
      match apply_swap e (ppi s) with
      | Some p => Some (mkpst p (pF s) (pcnt s) []
                              (if modify then pout s ++ [PS (fst e) (snd e)] else pout s))
      | None => None
      end
    | _ => None
    end
  end.

Fixpoint preplay (cg : adj) (c : circ) (bars : list bool) (tbl : ptable) (modify : bool)
  (s : pstate) (tr : list pstep) : option pstate :=
  match tr with
  | [] => Some s
  | t :: r => match do_pstep cg c bars tbl modify s t with
              | Some s' => preplay cg c bars tbl modify s' r
              | None => None
              end
  end.

(* control-flow guards (not used by any theorem, see Sabre.strict_ok) *)
Definition pany_exe (cg : adj) (c : circ) (s : pstate) : bool :=
  existsb (fun n => match can_exe cg (ppi s) (opat c n) with Some true => true | _ => false end) (pF s).
Definition pstrict_ok (cg : adj) (c : circ) (s : pstate) (t : pstep) : bool :=
  match t with
  | PSwap _ => negb (pany_exe cg c s) && Nat.leb (length (plead s)) (5 * length cg)
  | PBacktrack => negb (pany_exe cg c s) && Nat.ltb (5 * length cg) (length (plead s))
  | _ => true
  end.

(* ---- PAMRoutingPass / PAMLayoutPass ------------------------------------------- *)
Definition pam_routing_pass (cg : adj) (c : circ) (bars : list bool) (tbl : ptable) (nq : nat)
  (tr : list pstep) (fm : list nat) : option (list pop * list nat * list nat) :=
  match Graph.is_fully_connected cg with
  | Some true =>
    match preplay cg c bars tbl true (pinit c nq (idperm nq)) tr with
    | Some s =>
      match pF s with
      | [] => match compose_opt (ppi s) fm with
              | Some fm' => Some (pout s, ppi s, fm')
              | None => None
              end
      | _ => None
      end
    | None => None
    end
  | _ => None
  end.

(* forward_pass (PAM, no circuit output) then the inherited SABRE backward_pass *)
Fixpoint pam_layout_loop (cg : adj) (c : circ) (bars : list bool) (tbl : ptable) (nq : nat)
  (trs : list (list pstep * list step)) (p : list nat) : option (list nat) :=
  match trs with
  | [] => Some p
  | (tf, tb) :: r =>
    match preplay cg c bars tbl false (pinit c nq p) tf with
    | Some s1 =>
      match pF s1 with
      | [] =>
        match replay cg c false false (init c nq false (ppi s1)) tb with
        | Some s2 => match F s2 with [] => pam_layout_loop cg c bars tbl nq r (pi s2) | _ => None end
        | None => None
        end
      | _ => None
      end
    | None => None
    end
  end.

Definition pam_layout_pass (cg : adj) (c : circ) (bars : list bool) (tbl : ptable) (nq : nat)
  (trs : list (list pstep * list step)) (placement : list nat) : option (list nat * list nat) :=
  match Graph.is_fully_connected cg with
  | Some true =>
    match pam_layout_loop cg c bars tbl nq trs (idperm nq) with
    | Some p => match apply_perm p placement with
                | Some pl => Some (p, pl)
                | None => None
                end
    | None => None
    end
  | _ => None
  end.

Definition pam_layout_on (c : circ) (bars : list bool) (tbl : ptable) (nq : nat)
  (trs : list (list pstep * list step)) (d : pdata) : option pdata :=
  match connectivity d with
  | Some cg =>
    match pam_layout_pass cg c bars tbl nq trs (placement d) with
    | Some (_, pl) => Some (mkpd pl (imap d) (fmap d) (mach d))
    | None => None
    end
  | None => None
  end.

Definition pam_routing_on (c : circ) (bars : list bool) (tbl : ptable) (nq : nat)
  (tr : list pstep) (d : pdata) : option (list pop * pdata) :=
  match connectivity d with
  | Some cg =>
    match pam_routing_pass cg c bars tbl nq tr (fmap d) with
    | Some (o, _, fm) => Some (o, mkpd (placement d) (imap d) fm (mach d))
    | None => None
    end
  | None => None
  end.
