(* map/SabreThm.v - theorems about the SABRE transition system of map/Sabre.v.
   Everything is proved for arbitrary step sequences (traces), circuits and
   coupling graphs: the float heuristic is absent from the model, so each
   theorem holds for every choice it could make.  Partial correctness only:
   nothing here says that a trace reaching F = [] exists. *)
From Coq Require Import List Arith Bool PeanoNat Lia Sorted Permutation.
Import ListNotations.
From BQ Require Import lib.Perm lib.PermThm lib.Trace map.Graph map.Sabre map.SabreDag.

(* ---- views of the mapped circuit -------------------------------------------- *)
Definition osw (e : nat * nat) : oop := OS (fst e) (snd e).

(* the wire permutation after walking o, starting from sigma (logical -> physical) *)
Fixpoint walk_pi (sigma : list nat) (o : list oop) : list nat :=
  match o with
  | [] => sigma
  | OG _ _ :: t => walk_pi sigma t
  | OS a b :: t => walk_pi (map (tr a b) sigma) t
  end.

(* the logical view: every non-swap operation mapped back to the logical qudits
   that sit on its physical location at that moment *)
Fixpoint lview (sigma : list nat) (o : list oop) : list (nat * list nat) :=
  match o with
  | [] => []
  | OG n L :: t => (n, preimage sigma L) :: lview sigma t
  | OS a b :: t => lview (map (tr a b) sigma) t
  end.

Definition swaps_of (o : list oop) : list (nat * nat) :=
  flat_map (fun x => match x with OS a b => [(a, b)] | OG _ _ => [] end) o.
Definition gates_of (o : list oop) : list (nat * list nat) :=
  flat_map (fun x => match x with OG n L => [(n, L)] | OS _ _ => [] end) o.

Definition executed (tr : list step) : list nat :=
  flat_map (fun t => match t with Exec n => [n] | _ => [] end) tr.

(* the input program as a list of (operation index, logical location) *)
Definition prog (c : circ) : list (nat * list nat) :=
  map (fun n => (n, gloc (opat c n))) (seq 0 (length c)).
Definition prog_of (c : circ) (ex : list nat) : list (nat * list nat) :=
  map (fun n => (n, gloc (opat c n))) ex.

Lemma filter_filter {A} (f g : A -> bool) l : filter f (filter g l) = filter (fun x => f x && g x) l.
Proof. induction l as [|x t IH]; simpl; auto. destruct (g x); simpl.
  - rewrite andb_true_r. destruct (f x); simpl; rewrite IH; auto.
  - rewrite andb_false_r. exact IH. Qed.

Lemma filter_all_true {A} (f : A -> bool) l : (forall x, In x l -> f x = true) -> filter f l = l.
Proof. induction l as [|x t IH]; simpl; intros H; auto. rewrite (H x) by auto. f_equal. apply IH. auto. Qed.

Lemma walk_pi_app s o1 o2 : walk_pi s (o1 ++ o2) = walk_pi (walk_pi s o1) o2.
Proof. revert s. induction o1 as [|[n L|a b] t IH]; simpl; intros s; auto. Qed.

Lemma lview_app s o1 o2 : lview s (o1 ++ o2) = lview s o1 ++ lview (walk_pi s o1) o2.
Proof. revert s. induction o1 as [|[n L|a b] t IH]; simpl; intros s; auto. rewrite IH. reflexivity. Qed.

Lemma tr_all_cons e t x : tr_all (e :: t) x = tr_all t (tr (fst e) (snd e) x).
Proof. reflexivity. Qed.

Lemma walk_pi_swaps es : forall s, walk_pi s (map osw es) = map (tr_all es) s.
Proof. induction es as [|e t IH]; simpl; intros s.
  - unfold tr_all. simpl. symmetry. apply map_id.
  - rewrite IH, map_map. apply map_ext. intros x. reflexivity. Qed.

Lemma lview_swaps es : forall s, lview s (map osw es) = [].
Proof. induction es as [|e t IH]; simpl; auto. Qed.

Lemma swaps_of_app o1 o2 : swaps_of (o1 ++ o2) = swaps_of o1 ++ swaps_of o2.
Proof. apply flat_map_app. Qed.
Lemma gates_of_app o1 o2 : gates_of (o1 ++ o2) = gates_of o1 ++ gates_of o2.
Proof. apply flat_map_app. Qed.
Lemma executed_app t1 t2 : executed (t1 ++ t2) = executed t1 ++ executed t2.
Proof. apply flat_map_app. Qed.

Lemma walk_pi_tr_all o : forall s, walk_pi s o = map (tr_all (swaps_of o)) s.
Proof. induction o as [|[n L|a b] t IH]; simpl; intros s.
  - unfold tr_all. simpl. symmetry. apply map_id.
  - apply IH.
  - rewrite IH, map_map. apply map_ext. intros x. reflexivity. Qed.

(* ---- pi stays a permutation, for every direction and mode --------------------- *)
Lemma undo_wf n modify : forall sw p o p' o',
  wfperm n p -> undo modify sw p o = Some (p', o') -> wfperm n p'.
Proof. induction sw as [|e t IH]; simpl; intros p o p' o' Hw H.
  - inversion H; subst; auto.
  - destruct (apply_swap e p) as [p1|] eqn:E; [|discriminate].
    destruct (apply_swap_inv n e p p1 Hw E) as (_ & _ & _ & Hw1).
    destruct modify.
    + destruct (pop_last_on (fst e) o) as [o1|]; [|discriminate]. eapply IH; eauto.
    + eapply IH; eauto. Qed.

Theorem step_wfperm n cg c fwd modify s t s' :
  wfperm n (pi s) -> do_step cg c fwd modify s t = Some s' -> wfperm n (pi s').
Proof. intros Hw H. destruct t as [m|e| |e]; simpl in H.
  - destruct (negb (memb m (F s))); [discriminate|].
    destruct (can_exe cg (pi s) (opat c m)) as [[|]|]; try discriminate.
    destruct (cget m (cnt s)); [|discriminate].
    destruct modify.
    + destruct (phys (pi s) (gloc (opat c m))); [|discriminate]. inversion H; subst; auto.
    + inversion H; subst; auto.
  - destruct (negb (is_edge cg e)); [discriminate|].
    destruct (apply_swap e (pi s)) as [p|] eqn:E; [|discriminate].
    inversion H; subst; simpl. eapply apply_swap_inv; eauto.
  - destruct (undo modify (rev (lead s)) (pi s) (out s)) as [[p o]|] eqn:E; [|discriminate].
    inversion H; subst; simpl. eapply undo_wf; eauto.
  - destruct (negb (is_edge cg e)); [discriminate|].
    destruct (lead s); [|discriminate].
    destruct (apply_swap e (pi s)) as [p|] eqn:E; [|discriminate].
    inversion H; subst; simpl. eapply apply_swap_inv; eauto. Qed.

Theorem replay_wfperm n cg c fwd modify : forall tr s s',
  wfperm n (pi s) -> replay cg c fwd modify s tr = Some s' -> wfperm n (pi s').
Proof. induction tr as [|t r IH]; simpl; intros s s' Hw H.
  - inversion H; subst; auto.
  - destruct (do_step cg c fwd modify s t) as [s1|] eqn:E; [|discriminate].
    eapply IH; [|eauto]. eapply step_wfperm; eauto. Qed.

(* ---- backtracking removes exactly the leading swaps ---------------------------- *)
Lemma apply_swaps_snoc l e p : apply_swaps (l ++ [e]) p =
  match apply_swaps l p with Some pm => apply_swap e pm | None => None end.
Proof. rewrite apply_swaps_app. destruct (apply_swaps l p); auto. simpl.
  destruct (apply_swap e l0); auto. Qed.

Lemma pop_last_snoc base e : pop_last_on (fst e) (base ++ [osw e]) = Some base.
Proof. unfold pop_last_on. rewrite rev_app_distr. simpl. rewrite Nat.eqb_refl. simpl.
  rewrite rev_involutive. reflexivity. Qed.

Theorem undo_spec n : forall ld base pib p,
  wfperm n pib -> apply_swaps ld pib = Some p ->
  undo true (rev ld) p (base ++ map osw ld) = Some (pib, base).
Proof. induction ld as [|e l IH] using rev_ind; intros base pib p Hw H.
  - simpl in *. inversion H; subst. rewrite app_nil_r. reflexivity.
  - rewrite apply_swaps_snoc in H. destruct (apply_swaps l pib) as [pm|] eqn:El; [|discriminate].
    destruct (apply_swaps_wf n l pib pm Hw El) as (Hwm & _ & _).
    destruct (apply_swap_inv n e pm p Hwm H) as (Ha & Hb & Hp & Hwp).
    rewrite rev_app_distr. simpl.
    assert (Eback : apply_swap e p = Some pm).
    { destruct e as [a b]; simpl in *. destruct (apply_swap_wfperm n a b p Hwp Ha Hb) as [E _].
      rewrite E, Hp, map_tr_invol. reflexivity. }
    rewrite Eback. rewrite map_app. simpl. rewrite app_assoc, pop_last_snoc.
    apply IH; auto. Qed.

(* ---- the run invariant (forward pass, modify_circuit = True) --------------------- *)
Section Run.
Variable cg : adj.
Variable c : circ.
Variable nq : nat.
Variable pi0 : list nat.
Hypothesis Hwfc : wf_circ c nq.
Hypothesis Hpi0 : wfperm nq pi0.

Definition coupled_op (x : oop) : Prop :=
  match x with
  | OG n L => exists p, wfperm nq p /\ n < length c /\ L = compose p (gloc (opat c n))
                        /\ can_exe cg p (opat c n) = Some true
  | OS a b => is_edge cg (a, b) = true /\ a < nq /\ b < nq
  end.

Record RInv (ex : list nat) (s : state) : Prop := {
  ri_F : FInv c ex (F s) (cnt s);
  ri_tl : tl_sorted c ex;
  ri_pi : wfperm nq (pi s);
  ri_base : exists base pib, out s = base ++ map osw (lead s) /\ walk_pi pi0 base = pib
                             /\ wfperm nq pib /\ apply_swaps (lead s) pib = Some (pi s);
  ri_walk : walk_pi pi0 (out s) = pi s;
  ri_view : lview pi0 (out s) = prog_of c ex;
  ri_coupled : forall x, In x (out s) -> coupled_op x }.

Lemma RInv_init : RInv [] (init c nq true pi0).
Proof. unfold init. constructor; simpl.
  - apply FInv_init with (nq := nq). exact Hwfc.
  - intros q. simpl. constructor.
  - exact Hpi0.
  - exists [], pi0. split; [reflexivity|split; [reflexivity|split; [exact Hpi0|reflexivity]]].
  - reflexivity.
  - reflexivity.
  - intros x []. Qed.

Lemma phys_Some p l L : phys p l = Some L -> L = compose p l /\ forall q, In q l -> q < length p.
Proof. unfold phys. destruct (forallb _ l) eqn:E; [|discriminate]. intros H; inversion H; subst.
  split; auto. intros q Hq. rewrite forallb_forall in E. apply Nat.ltb_lt. auto. Qed.

Theorem RInv_step ex s t s' :
  RInv ex s -> do_step cg c true true s t = Some s' -> RInv (ex ++ executed [t]) s'.
Proof. intros [HF Htl Hpi (base & pib & Hout & Hwalkb & Hwpib & Hlead) Hwalk Hview Hcoup] H.
  destruct t as [m|e| |e]; simpl in H; simpl executed.
  - (* Exec *)
    destruct (memb m (F s)) eqn:Hm; simpl in H; [|discriminate]. apply memb_In in Hm.
    destruct (can_exe cg (pi s) (opat c m)) as [[|]|] eqn:Hce; try discriminate.
    destruct (cget m (cnt s)); [|discriminate].
    destruct (phys (pi s) (gloc (opat c m))) as [L|] eqn:HL; [|discriminate].
    inversion H; subst s'; clear H. apply phys_Some in HL as [HL Hrange].
    pose proof (FInv_exec c ex (F s) (cnt s) m HF Hm) as HF'. cbv zeta in HF'.
    destruct (proj1 (fi_F c _ _ _ HF m) Hm) as (HmN & Hmex & _).
    constructor; simpl.
    + exact HF'.
    + apply tl_sorted_snoc; auto. apply (fi_dc c _ _ _ HF).
    + exact Hpi.
    + exists (out s ++ [OG m L]), (pi s). split; [|split; [|split; [exact Hpi|reflexivity]]].
      * rewrite app_nil_r. reflexivity.
      * rewrite walk_pi_app. simpl. exact Hwalk.
    + rewrite walk_pi_app. simpl. exact Hwalk.
    + rewrite lview_app, Hview, Hwalk. unfold prog_of. rewrite map_app. simpl. f_equal.
      f_equal. f_equal. subst L. apply preimage_compose; [apply Hpi|exact Hrange].
    + intros x Hx. apply in_app_iff in Hx as [Hx|[<-|[]]]; auto.
      simpl. exists (pi s). split; [exact Hpi|split; [exact HmN|split; [exact HL|exact Hce]]].
  - (* Swap *)
    destruct (is_edge cg e) eqn:He; simpl in H; [|discriminate].
    destruct (apply_swap e (pi s)) as [p|] eqn:E; [|discriminate].
    inversion H; subst s'; clear H. rewrite app_nil_r.
    destruct (apply_swap_inv nq e (pi s) p Hpi E) as (Ha & Hb & Hp & Hwp).
    constructor; simpl; auto.
    + exists base, pib. split; [|split; [exact Hwalkb|split; [exact Hwpib|]]].
      * rewrite Hout, map_app, app_assoc. reflexivity.
      * rewrite apply_swaps_snoc, Hlead. exact E.
    + rewrite walk_pi_app. simpl. rewrite Hwalk. symmetry. exact Hp.
    + rewrite lview_app. simpl. rewrite app_nil_r. exact Hview.
    + intros x Hx. apply in_app_iff in Hx as [Hx|[<-|[]]]; auto.
      simpl. destruct e; simpl in *. auto.
  - (* Backtrack *)
    rewrite Hout in H. rewrite (undo_spec nq (lead s) base pib (pi s) Hwpib Hlead) in H.
    inversion H; subst s'; clear H. rewrite app_nil_r.
    constructor; simpl; auto.
    + exists base, pib. split; [rewrite app_nil_r; reflexivity|split; [exact Hwalkb|split; [exact Hwpib|reflexivity]]].
    + rewrite <- Hview, Hout, lview_app, lview_swaps, app_nil_r. reflexivity.
    + intros x Hx. apply Hcoup. rewrite Hout. apply in_app_iff. auto.
  - (* Uphill *)
    destruct (is_edge cg e) eqn:He; simpl in H; [|discriminate].
    destruct (lead s) eqn:Hl; [|discriminate].
    destruct (apply_swap e (pi s)) as [p|] eqn:E; [|discriminate].
    inversion H; subst s'; clear H. rewrite app_nil_r.
    destruct (apply_swap_inv nq e (pi s) p Hpi E) as (Ha & Hb & Hp & Hwp).
    assert (Hw' : walk_pi pi0 (out s ++ [OS (fst e) (snd e)]) = p).
    { rewrite walk_pi_app. simpl. rewrite Hwalk. symmetry. exact Hp. }
    constructor; simpl; auto.
    + exists (out s ++ [OS (fst e) (snd e)]), p.
      split; [rewrite app_nil_r; reflexivity|split; [exact Hw'|split; [exact Hwp|reflexivity]]].
    + rewrite lview_app. simpl. rewrite app_nil_r. exact Hview.
    + intros x Hx. apply in_app_iff in Hx as [Hx|[<-|[]]]; auto.
      simpl. destruct e; simpl in *. auto. Qed.

Theorem RInv_replay : forall tr ex s s',
  RInv ex s -> replay cg c true true s tr = Some s' -> RInv (ex ++ executed tr) s'.
Proof. induction tr as [|t r IH]; intros ex s s' HI H.
  - simpl in H. inversion H; subst. simpl. rewrite app_nil_r. exact HI.
  - cbn [replay] in H. destruct (do_step cg c true true s t) as [s1|] eqn:E; [|discriminate].
    pose proof (RInv_step ex s t s1 HI E) as HI1. specialize (IH _ _ _ HI1 H).
    change (t :: r) with ([t] ++ r). rewrite executed_app, app_assoc. exact IH. Qed.

Corollary run_inv tr s : replay cg c true true (init c nq true pi0) tr = Some s -> RInv (executed tr) s.
Proof. intros H. apply (RInv_replay tr [] _ _ RInv_init H). Qed.

(* ---- per-qudit timelines and trace equivalence -------------------------------- *)
Local Notation P := (@proj (nat * list nat) (@snd nat (list nat))).
Local Notation EQV := (@equiv (nat * list nat) (@snd nat (list nat))).

Lemma trace_touches q (x : nat * list nat) : Trace.touches _ (@snd nat (list nat)) q x = memb q (snd x).
Proof. unfold Trace.touches. induction (snd x) as [|y t IH]; simpl; auto. rewrite IH. reflexivity. Qed.

Lemma proj_prog_of q l : P q (prog_of c l) = prog_of c (filter (tq c q) l).
Proof. unfold proj, prog_of. induction l as [|n t IH]; simpl; auto.
  rewrite trace_touches. simpl. unfold tq, touches. destruct (memb q (gloc (opat c n))); simpl; rewrite IH; auto. Qed.

(* C09_route_sim, invariant form: at every moment the logical view of the mapped
   circuit has, on every qudit, exactly the timeline of the executed part of the
   input, and the executed part is closed under predecessors *)
Theorem route_sim_inv tr s :
  replay cg c true true (init c nq true pi0) tr = Some s ->
  let ex := executed tr in
  lview pi0 (out s) = prog_of c ex /\ NoDup ex /\ down_closed c ex /\
  forall q, P q (lview pi0 (out s)) =
            P q (prog_of c (filter (fun n => memb n ex) (seq 0 (length c)))).
Proof. intros H ex. destruct (run_inv tr s H) as [HF Htl _ _ _ Hview _]. fold ex in HF, Htl, Hview.
  split; [exact Hview|]. split; [apply (fi_nodup c _ _ _ HF)|]. split; [apply (fi_dc c _ _ _ HF)|].
  intros q. rewrite Hview, !proj_prog_of. f_equal.
  rewrite (timeline_restrict c ex (fi_nodup c _ _ _ HF) (fi_lt c _ _ _ HF) Htl q).
  rewrite filter_filter. reflexivity. Qed.

(* termination form: when the front set is empty everything has been executed once *)
Theorem route_complete tr s :
  replay cg c true true (init c nq true pi0) tr = Some s -> F s = [] ->
  Permutation (executed tr) (seq 0 (length c)).
Proof. intros H HF0. destruct (run_inv tr s H) as [HF _ _ _ _ _ _]. rewrite HF0 in HF.
  apply NoDup_Permutation; [apply (fi_nodup c _ _ _ HF)|apply seq_NoDup|].
  intros x. split.
  - intros Hx. apply in_seq. pose proof (fi_lt c _ _ _ HF x Hx). lia.
  - intros Hx. apply in_seq in Hx. apply (FInv_done c _ _ HF). lia. Qed.

Lemma prog_nonempty : forall a, In a (prog c) -> snd a <> [].
Proof. intros a Ha. unfold prog in Ha. apply in_map_iff in Ha as (n & <- & Hn). apply in_seq in Hn. simpl.
  apply (wf_circ_opat c nq n Hwfc). lia. Qed.

Theorem route_equiv tr s :
  replay cg c true true (init c nq true pi0) tr = Some s -> F s = [] ->
  EQV (prog c) (lview pi0 (out s)).
Proof. intros H HF0. pose proof (route_complete tr s H HF0) as Hperm.
  destruct (route_sim_inv tr s H) as (Hview & Hnd & Hdc & Hq).
  apply proj_eq_equiv.
  - apply prog_nonempty.
  - intros q. rewrite Hq. f_equal. unfold prog, prog_of. f_equal.
    symmetry. apply filter_all_true.
    intros n Hn. apply memb_In. eapply Permutation_in; [apply Permutation_sym, Hperm|auto].
  - rewrite Hview. unfold prog, prog_of. rewrite !map_length. symmetry. apply Permutation_length, Hperm. Qed.

End Run.
