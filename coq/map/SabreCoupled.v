(* map/SabreCoupled.v - what `_can_exe` guarantees, in textbook terms.

   _can_exe answers cg.get_subgraph(physical_qudits).is_fully_connected().
   Using the C20 theorems about the graph model (get_subgraph_iso, mk_adj_spec,
   is_fully_connected_spec) this file shows: if the answer is True then the
   physical qudits are distinct vertices of cg and induce a CONNECTED subgraph
   (GraphSubThm.connected_set); for a two-qudit operation the two physical
   qudits are adjacent in cg. *)
From Coq Require Import List Arith Bool PeanoNat Lia.
Import ListNotations.
From BQ Require Import lib.Perm lib.PermThm map.Graph map.GraphThm map.GraphExt map.GraphSubThm map.GraphIsoThm
  map.GraphCtorThm map.Sabre map.PlacementThm.

(* ---- the default renumbering {q: i for i, q in enumerate(location)} --------------- *)
Lemma assoc_combine_seq : forall (L : list nat) s u i,
  assoc u (combine L (seq s (length L))) = Some i -> s <= i < s + length L /\ nth (i - s) L 0 = u.
Proof. induction L as [|x t IH]; simpl; intros s u i H; [discriminate|].
  destruct (Nat.eqb_spec u x) as [->|Hne].
  - inversion H; subst. split; [lia|]. rewrite Nat.sub_diag. reflexivity.
  - apply IH in H as [H1 H2]. split; [lia|].
    destruct (i - s) as [|d] eqn:E; [lia|]. replace (i - S s) with d in H2 by lia. exact H2. Qed.

Lemma bij_ren_default L : NoDup L -> bij_ren L (ren_of L None).
Proof. intros Hnd. unfold bij_ren, ren_of.
  assert (Hl : length L = length (seq 0 (length L))) by (rewrite seq_length; auto).
  rewrite combine_length, seq_length, Nat.min_id, map_fst_combine, map_snd_combine by auto.
  repeat split; auto.
  - apply seq_NoDup.
  - intros v Hv. apply in_seq in Hv. lia. Qed.

(* ---- reach_in is symmetric on symmetric graphs ----------------------------------------- *)
Lemma reach_in_head g S a b c : In a S -> In b (nbrs g a) -> reach_in g S b c -> reach_in g S a c.
Proof. intros Ha Hab H. induction H as [Hb|x y H IH Hxy Hy].
  - apply (ri_step g S a a b); auto. constructor; auto.
  - apply (ri_step g S a x y); auto. Qed.

Lemma reach_in_left g S a b : reach_in g S a b -> In a S.
Proof. induction 1; auto. Qed.

Lemma reach_in_right g S a b : reach_in g S a b -> In b S.
Proof. induction 1; auto. Qed.

Lemma reach_in_sym g S a b : sym g -> reach_in g S a b -> reach_in g S b a.
Proof. intros Hs H. induction H as [Ha|x y H IH Hxy Hy].
  - constructor; auto.
  - apply (reach_in_head g S y x a); auto. Qed.

(* ---- connected_on ---------------------------------------------------------------------------- *)
Theorem connected_on_meaning cg L :
  wf cg -> sym cg -> loopfree cg -> connected_on cg L = Some true ->
  NoDup L /\ L <> [] /\ (forall q, In q L -> q < length cg) /\ connected_set cg L.
Proof. intros Hwf Hsym Hlf. unfold connected_on.
  destruct (Graph.get_subgraph cg L None) as [es|] eqn:Egs; [|discriminate]. intros Hfc.
  destruct (get_subgraph_Some_inj _ _ _ _ Egs) as [Hnd Hrange].
  assert (Hne : L <> []).
  { intros ->. rewrite get_subgraph_eq in Egs. simpl in Egs. discriminate. }
  split; [exact Hnd|]. split; [exact Hne|]. split; [exact Hrange|].
  destruct (get_subgraph_iso cg L None Hwf Hsym Hlf Hnd Hne Hrange (bij_ren_default L Hnd))
    as (es' & Egs' & _ & Hedges).
  rewrite Egs in Egs'. inversion Egs'; subst es'. clear Egs'.
  set (k := length L) in *.
  assert (Hk : k <> 0) by (unfold k; destruct L; [congruence|simpl; lia]).
  assert (Hok : edges_ok k es).
  { intros e He. destruct (Hedges e He) as (H1 & H2 & _). unfold k. lia. }
  destruct (mk_adj_props k es Hok) as (Hwfm & _ & _ & _).
  destruct (is_fully_connected_spec (mk_adj k es) Hwfm) as (b & Eb & Hb).
  { rewrite mk_adj_length. exact Hk. }
  rewrite Eb in Hfc. inversion Hfc; subst b. pose proof (proj1 Hb eq_refl) as Hall.
  (* a step of the renumbered graph is a step of cg inside L *)
  assert (Hstep : forall x y, In x (nbrs (mk_adj k es) y) ->
            x < k /\ y < k /\ In (nth x L 0) (nbrs cg (nth y L 0))).
  { intros x y Hxy. apply (mk_adj_spec k es Hok) in Hxy.
    assert (Hgen : forall e, In e es -> (fst e < k /\ snd e < k) /\
               In (nth (snd e) L 0) (nbrs cg (nth (fst e) L 0))).
    { intros e He. destruct (Hedges e He) as (H1 & H2 & u & v & Hu & Hv & Hadj & Au & Av).
      unfold ren_of in Au, Av. apply assoc_combine_seq in Au as [_ Au]. apply assoc_combine_seq in Av as [_ Av].
      rewrite Nat.sub_0_r in Au, Av. rewrite Au, Av. split; [unfold k; lia|exact Hadj]. }
    destruct Hxy as [He|He]; destruct (Hgen _ He) as [[Ha Hb'] Hadj]; simpl in *.
    - split; [exact Ha|]. split; [exact Hb'|]. apply Hsym. exact Hadj.
    - split; [exact Hb'|]. split; [exact Ha|]. exact Hadj. }
  assert (Hroot : forall v, reach (mk_adj k es) 0 v -> v < k -> reach_in cg L (nth 0 L 0) (nth v L 0)).
  { intros v Hr. induction Hr as [|b0 c0 Hr IH Hc]; intros Hv.
    - constructor. apply nth_In. fold k. lia.
    - destruct (Hstep c0 b0 Hc) as (Hc0 & Hb0 & Hadj).
      apply (ri_step cg L _ (nth b0 L 0)); auto. apply nth_In. fold k. exact Hc0. }
  intros a b0 Ha Hb0.
  destruct (In_nth L a 0 Ha) as (i & Hi & <-). destruct (In_nth L b0 0 Hb0) as (j & Hj & <-).
  apply (reach_in_trans cg L _ (nth 0 L 0)).
  - apply reach_in_sym; auto. apply Hroot; auto. apply Hall. rewrite mk_adj_length. exact Hi.
  - apply Hroot; auto. apply Hall. rewrite mk_adj_length. exact Hj. Qed.

(* two-qudit operations: the two physical qudits are neighbours *)
Lemma connected_pair g x y : connected_set g [x; y] -> x <> y -> In y (nbrs g x).
Proof. intros Hc Hne.
  assert (Hgen : forall z, reach_in g [x; y] x z -> z = x \/ In y (nbrs g x)).
  { intros z H. induction H as [_|b c H IH Hbc Hc'].
    - left; auto.
    - destruct IH as [->|IH]; [|right; auto].
      destruct Hc' as [<-|[<-|[]]]; [left; auto|right; auto]. }
  destruct (Hgen y (Hc x y (or_introl eq_refl) (or_intror (or_introl eq_refl)))) as [E|H]; [congruence|exact H]. Qed.

(* what _can_exe = True means for an operation that is not "free" *)
Theorem can_exe_meaning cg p g :
  wf cg -> sym cg -> loopfree cg ->
  can_exe cg p g = Some true -> gfree g = false -> length (gloc g) <> 1 ->
  let L := compose p (gloc g) in
  NoDup L /\ (forall q, In q L -> q < length cg) /\ connected_set cg L /\
  (forall x y, L = [x; y] -> In y (nbrs cg x) /\ In x (nbrs cg y)).
Proof. intros Hwf Hsym Hlf Hce Hfree Hlen L. unfold can_exe in Hce. rewrite Hfree in Hce.
  destruct (Nat.eqb_spec (length (gloc g)) 1) as [E|_]; [congruence|].
  unfold phys in Hce. destruct (forallb _ (gloc g)); [|discriminate].
  fold L in Hce. destruct (connected_on_meaning cg L Hwf Hsym Hlf Hce) as (Hnd & _ & Hr & Hc).
  split; [exact Hnd|]. split; [exact Hr|]. split; [exact Hc|].
  intros x y E. rewrite E in Hnd, Hc.
  assert (x <> y) by (inversion Hnd as [|? ? Hx _]; subst; intros ->; apply Hx; left; auto).
  split; [apply connected_pair; auto|]. apply Hsym. apply connected_pair; auto. Qed.

(* the check of the placement passes / of data.connectivity is the same function *)
Theorem placement_connected_meaning g pl :
  wf g -> sym g -> loopfree g -> Placement.placement_connected g pl = Some true ->
  NoDup pl /\ pl <> [] /\ (forall q, In q pl -> q < length g) /\ connected_set g pl.
Proof. intros Hwf Hsym Hlf H. apply connected_on_meaning; auto. Qed.
