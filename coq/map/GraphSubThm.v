(* get_subgraphs_of_size / _location_search (C20): the frontier-growth
   enumeration returns exactly the connected k-subsets of the vertices, each as
   a strictly increasing list, without repetition. *)
From Coq Require Import List Arith Bool PeanoNat Lia Sorted.
Import ListNotations.
From BQ Require Import map.Graph map.GraphThm.

(* ---- specification --------------------------------------------------------- *)
(* b is reachable from a by steps that stay inside the vertex set S *)
Inductive reach_in (g : adj) (S : list nat) (a : nat) : nat -> Prop :=
| ri_refl : In a S -> reach_in g S a a
| ri_step b c : reach_in g S a b -> In c (nbrs g b) -> In c S -> reach_in g S a c.
(* the sub-graph induced by S is connected (textbook definition) *)
Definition connected_set (g : adj) (S : list nat) : Prop :=
  forall a b, In a S -> In b S -> reach_in g S a b.
(* the specification: a connected k-subset of the vertices, written as a
   strictly increasing list *)
Definition conn_k_subset (g : adj) (k : nat) (l : list nat) : Prop :=
  StronglySorted lt l /\ length l = k /\ (forall x, In x l -> x < length g) /\ connected_set g l.

(* ---- generic fold facts ---------------------------------------------------- *)
Lemma fold_pres {A B : Type} (Q : B -> Prop) (f : B -> A -> B) (xs : list A) :
  (forall a x, In x xs -> Q a -> Q (f a x)) -> forall a, Q a -> Q (fold_left f xs a).
Proof. induction xs as [|x t IH]; simpl; intros H a Ha; [exact Ha|].
  apply IH; [intros a' x' Hx' Ha'; apply H; auto|apply H; auto]. Qed.

Lemma fold_hit {A B : Type} (Q : B -> Prop) (f : B -> A -> B) (xs : list A) (x : A) :
  In x xs -> (forall a, Q (f a x)) -> (forall a y, Q a -> Q (f a y)) ->
  forall a, Q (fold_left f xs a).
Proof. intros Hin Hx Hmono a. apply in_split in Hin as (l1 & l2 & ->).
  rewrite fold_left_app. simpl. apply fold_pres; [intros a' y _ Ha'; apply Hmono; exact Ha'|apply Hx]. Qed.

(* ---- the set of tuples ------------------------------------------------------ *)
Lemma list_eqb_eq a : forall b, list_eqb a b = true <-> a = b.
Proof. induction a as [|x s IH]; intros [|y t]; simpl.
  - split; auto.
  - split; discriminate.
  - split; discriminate.
  - rewrite andb_true_iff, Nat.eqb_eq, IH. split.
    + intros [H1 H2]; subst; reflexivity.
    + intros H; inversion H; auto. Qed.

Lemma lmem_In x l : lmem x l = true <-> In x l.
Proof. induction l as [|y t IH]; simpl; [split; [discriminate|tauto]|].
  rewrite orb_true_iff, list_eqb_eq, IH. split; intros [H|H]; auto. Qed.

Lemma lmem_false x l : lmem x l = false <-> ~ In x l.
Proof. rewrite <- lmem_In. destruct (lmem x l); split; congruence. Qed.

Lemma In_ladd x y l : In x (ladd y l) <-> x = y \/ In x l.
Proof. unfold ladd. destruct (lmem y l) eqn:E; simpl.
  - apply lmem_In in E. split; [auto|intros [->|H]; auto].
  - split; intros [H|H]; auto. Qed.

Lemma NoDup_ladd y l : NoDup l -> NoDup (ladd y l).
Proof. unfold ladd. destruct (lmem y l) eqn:E; auto. intros H. constructor; auto.
  apply lmem_false; exact E. Qed.

(* ---- sorting ---------------------------------------------------------------- *)
Lemma In_insert_sorted x y l : In x (insert_sorted y l) <-> x = y \/ In x l.
Proof. induction l as [|z t IH]; simpl.
  - split; intros [H|H]; auto.
  - destruct (Nat.leb y z) eqn:E; simpl.
    + split; intros [H|H]; auto.
    + rewrite IH. split; intros H; intuition auto. Qed.

Lemma length_insert_sorted y l : length (insert_sorted y l) = S (length l).
Proof. induction l as [|z t IH]; simpl; auto.
  destruct (Nat.leb y z) eqn:E; simpl; auto. Qed.

Lemma In_sort x l : In x (sort l) <-> In x l.
Proof. unfold sort. induction l as [|y t IH]; simpl; [tauto|].
  rewrite In_insert_sorted, IH. split; intros [H|H]; auto. Qed.

Lemma length_sort l : length (sort l) = length l.
Proof. unfold sort. induction l as [|y t IH]; simpl; auto.
  rewrite length_insert_sorted, IH. reflexivity. Qed.

Lemma insert_sorted_lt x l :
  StronglySorted lt l -> ~ In x l -> StronglySorted lt (insert_sorted x l).
Proof. induction l as [|z t IH]; simpl; intros Hs Hn.
  - constructor; constructor.
  - apply StronglySorted_inv in Hs as [Hs Hf].
    destruct (Nat.leb x z) eqn:E.
    + apply Nat.leb_le in E. assert (Hxz : x < z) by (assert (z <> x) by tauto; lia).
      constructor; [constructor; auto|].
      constructor; auto. eapply Forall_impl; [|exact Hf]. intros a Ha. simpl in Ha. lia.
    + apply Nat.leb_gt in E. constructor.
      * apply IH; auto.
      * apply Forall_forall. intros a Ha. apply In_insert_sorted in Ha as [->|Ha]; auto.
        rewrite Forall_forall in Hf. apply Hf; exact Ha. Qed.

Lemma sort_lt l : NoDup l -> StronglySorted lt (sort l).
Proof. unfold sort. induction l as [|y t IH]; simpl; intros Hnd.
  - constructor.
  - inversion Hnd as [|? ? Hn Hnd']; subst. apply insert_sorted_lt; auto.
    intros Hin. apply Hn. apply (In_sort y t). exact Hin. Qed.

Lemma sorted_lt_NoDup l : StronglySorted lt l -> NoDup l.
Proof. induction l as [|x t IH]; intros Hs; constructor.
  - apply StronglySorted_inv in Hs as [_ Hf]. rewrite Forall_forall in Hf.
    intros Hin. apply Hf in Hin. lia.
  - apply StronglySorted_inv in Hs as [Hs _]. auto. Qed.

(* two strictly increasing lists with the same elements are equal *)
Lemma sorted_lt_unique l1 : forall l2,
  StronglySorted lt l1 -> StronglySorted lt l2 -> (forall x, In x l1 <-> In x l2) -> l1 = l2.
Proof. induction l1 as [|x s IH]; intros [|y t] H1 H2 Heq.
  - reflexivity.
  - destruct (proj2 (Heq y) (or_introl eq_refl)).
  - destruct (proj1 (Heq x) (or_introl eq_refl)).
  - apply StronglySorted_inv in H1 as [Hs Hfs]. apply StronglySorted_inv in H2 as [Ht Hft].
    rewrite Forall_forall in Hfs, Hft.
    assert (Exy : x = y).
    { destruct (proj1 (Heq x) (or_introl eq_refl)) as [E|E]; [auto|].
      destruct (proj2 (Heq y) (or_introl eq_refl)) as [E'|E']; [auto|].
      apply Hft in E. apply Hfs in E'. lia. }
    subst y. f_equal. apply IH; auto. intros z; split; intros Hz.
    + destruct (proj1 (Heq z) (or_intror Hz)) as [E|E]; auto.
      subst z. apply Hfs in Hz. lia.
    + destruct (proj2 (Heq z) (or_intror Hz)) as [E|E]; auto.
      subst z. apply Hft in Hz. lia. Qed.

(* ---- the frontier ----------------------------------------------------------- *)
Lemma In_frontier_gen g p l x :
  In x (fold_right (fun node acc => union (diff (nbrs g node) p) acc) [] l) <->
  ~ In x p /\ exists y, In y l /\ In x (nbrs g y).
Proof. induction l as [|n t IH]; simpl.
  - split; [tauto|intros (_ & y & [] & _)].
  - rewrite In_union, In_diff, IH. split.
    + intros [[H1 H2]|[H1 (y & H2 & H3)]].
      * split; auto. exists n; auto.
      * split; auto. exists y; auto.
    + intros (H1 & y & [->|H2] & H3).
      * left; auto.
      * right; split; auto. exists y; auto. Qed.

Lemma In_frontier g path x :
  In x (frontier_of g path) <-> ~ In x path /\ exists y, In y path /\ In x (nbrs g y).
Proof. apply In_frontier_gen. Qed.

(* ---- reachability inside a set ---------------------------------------------- *)
Lemma reach_in_mono g s s' a b :
  (forall x, In x s -> In x s') -> reach_in g s a b -> reach_in g s' a b.
Proof. intros Hi Hr. induction Hr as [Ha|b c Hr IH Hn Hc].
  - apply ri_refl; auto.
  - eapply ri_step; eauto. Qed.

Lemma reach_in_trans g s a b c : reach_in g s a b -> reach_in g s b c -> reach_in g s a c.
Proof. intros H1 H2. induction H2 as [Hb|c d H2 IH Hn Hd]; [exact H1|].
  eapply ri_step; eauto. Qed.

Lemma connected_single g v : connected_set g [v].
Proof. intros a b [<-|[]] [<-|[]]. apply ri_refl. left; reflexivity. Qed.

Lemma connected_same g s s' :
  (forall x, In x s <-> In x s') -> connected_set g s -> connected_set g s'.
Proof. intros Heq Hc a b Ha Hb. apply (reach_in_mono g s s'); [intros x; apply Heq|].
  apply Hc; apply Heq; auto. Qed.

Lemma connected_cons g path v y :
  sym g -> connected_set g path -> In y path -> In v (nbrs g y) -> connected_set g (v :: path).
Proof. intros Hsym Hc Hy Hvy.
  assert (Hinc : forall x, In x path -> In x (v :: path)) by (intros x Hx; right; exact Hx).
  assert (Hto : forall a, In a path -> reach_in g (v :: path) a v).
  { intros a Ha. eapply ri_step; [|exact Hvy|left; reflexivity].
    apply (reach_in_mono g path); auto. }
  assert (Hfrom : forall b, In b path -> reach_in g (v :: path) v b).
  { intros b Hb. apply (reach_in_trans g _ v y b).
    - eapply ri_step; [apply ri_refl; left; reflexivity| |right; exact Hy].
      apply Hsym; exact Hvy.
    - apply (reach_in_mono g path); auto. }
  intros a b [<-|Ha] [<-|Hb]; auto.
  - apply ri_refl; left; reflexivity.
  - apply (reach_in_mono g path); auto. Qed.

(* ---- the search ------------------------------------------------------------- *)
Lemma loc_search_S f g limit acc path v :
  loc_search (S f) g limit acc path v =
  if mem v path then acc else
  if Nat.eqb (length (v :: path)) limit then ladd (sort (v :: path)) acc
  else fold_left (fun a nb => loc_search f g limit a (v :: path) nb) (frontier_of g (v :: path)) acc.
Proof. reflexivity. Qed.

Lemma loc_search_mono g limit l : forall fuel acc path v,
  In l acc -> In l (loc_search fuel g limit acc path v).
Proof. induction fuel as [|f IH]; intros acc path v Hl; [exact Hl|].
  rewrite loc_search_S. destruct (mem v path) eqn:Em; [exact Hl|].
  destruct (Nat.eqb (length (v :: path)) limit) eqn:El.
  - apply In_ladd; auto.
  - apply (fold_pres (fun a => In l a)); auto. Qed.

Lemma loc_search_nodup g limit : forall fuel acc path v,
  NoDup acc -> NoDup (loc_search fuel g limit acc path v).
Proof. induction fuel as [|f IH]; intros acc path v Hnd; [exact Hnd|].
  rewrite loc_search_S. destruct (mem v path) eqn:Em; [exact Hnd|].
  destruct (Nat.eqb (length (v :: path)) limit) eqn:El.
  - apply NoDup_ladd; auto.
  - apply (fold_pres (fun a => NoDup a)); auto. Qed.

Lemma loc_search_sound g limit : wf g -> sym g -> forall fuel acc path v,
  (forall l, In l acc -> conn_k_subset g limit l) ->
  NoDup path -> (forall x, In x path -> x < length g) ->
  (path = [] \/ (connected_set g path /\ exists y, In y path /\ In v (nbrs g y))) ->
  v < length g ->
  forall l, In l (loc_search fuel g limit acc path v) -> conn_k_subset g limit l.
Proof. intros Hwf Hsym.
  induction fuel as [|f IH]; intros acc path v Hacc Hnd Hb Hc Hv; [exact Hacc|].
  rewrite loc_search_S. destruct (mem v path) eqn:Em; [exact Hacc|].
  apply mem_false in Em.
  assert (Hnd' : NoDup (v :: path)) by (constructor; auto).
  assert (Hb' : forall x, In x (v :: path) -> x < length g).
  { intros x [<-|Hx]; auto. }
  assert (Hc' : connected_set g (v :: path)).
  { destruct Hc as [->|(Hc & y & Hy & Hvy)]; [apply connected_single|].
    eapply connected_cons; eauto. }
  destruct (Nat.eqb (length (v :: path)) limit) eqn:El.
  - apply Nat.eqb_eq in El. intros l Hl. apply In_ladd in Hl as [->|Hl]; auto.
    split; [apply sort_lt; auto|]. split; [rewrite length_sort; auto|]. split.
    + intros x Hx. apply Hb'. apply (proj1 (In_sort x (v :: path))). exact Hx.
    + eapply connected_same; [|exact Hc']. intros x. symmetry. apply In_sort.
  - apply (fold_pres (fun a => forall l, In l a -> conn_k_subset g limit l)); auto.
    intros a nb Hnb Ha. apply In_frontier in Hnb as (Hn1 & y & Hy & Hn2).
    apply IH; auto.
    + right. split; auto. exists y; auto.
    + eapply Hwf; eauto. Qed.

(* a proper non-empty subset of a connected set has an edge leaving it *)
Lemma crossing_walk g l cur a b :
  reach_in g l a b -> In a cur -> ~ In b cur ->
  exists x y, In x l /\ ~ In x cur /\ In y cur /\ In x (nbrs g y).
Proof. intros Hr Ha. induction Hr as [Hal|b c Hr IH Hn Hc]; intros Hb; [tauto|].
  destruct (in_dec Nat.eq_dec b cur) as [Hbc|Hbc].
  - exists c, b; auto.
  - apply IH; exact Hbc. Qed.

Lemma crossing_edge g l cur a :
  connected_set g l -> NoDup l -> incl cur l -> In a cur -> length cur < length l ->
  exists x y, In x l /\ ~ In x cur /\ In y cur /\ In x (nbrs g y).
Proof. intros Hc Hnd Hinc Ha Hlen.
  destruct (Forall_Exists_dec (fun x => In x cur) (fun x => in_dec Nat.eq_dec x cur) l) as [Hall|Hex].
  - exfalso. rewrite Forall_forall in Hall.
    assert (length l <= length cur) by (apply NoDup_incl_length; auto).
    lia.
  - apply Exists_exists in Hex as (b & Hbl & Hbc).
    apply (crossing_walk g l cur a b); auto. Qed.

Lemma loc_search_complete g k l : conn_k_subset g k l -> forall fuel acc path v,
  incl (v :: path) l -> ~ In v path -> NoDup path ->
  fuel + length path >= k -> length path < k ->
  In l (loc_search fuel g k acc path v).
Proof. intros (Hs & Hlen & Hb & Hc).
  pose proof (sorted_lt_NoDup l Hs) as Hndl.
  induction fuel as [|f IH]; intros acc path v Hinc Hnv Hnd Hfuel Hlt; [simpl in Hfuel; lia|].
  rewrite loc_search_S. apply mem_false in Hnv. rewrite Hnv. apply mem_false in Hnv.
  assert (Hnd' : NoDup (v :: path)) by (constructor; auto).
  assert (Hle : length (v :: path) <= length l) by (apply NoDup_incl_length; auto).
  destruct (Nat.eqb (length (v :: path)) k) eqn:El.
  - apply Nat.eqb_eq in El. apply In_ladd. left. symmetry.
    assert (Hinc' : incl l (v :: path)) by (apply NoDup_length_incl; auto; lia).
    apply sorted_lt_unique; [apply sort_lt; auto|exact Hs|].
    intros x. rewrite In_sort. split; [apply Hinc|apply Hinc'].
  - apply Nat.eqb_neq in El.
    destruct (crossing_edge g l (v :: path) v Hc Hndl Hinc (or_introl eq_refl)) as (x & y & Hxl & Hxc & Hyc & Hxy);
      [lia|].
    apply (fold_hit (fun a => In l a) _ _ x).
    + apply In_frontier. split; auto. exists y; auto.
    + intros a. apply IH; auto.
      * intros z [<-|Hz]; auto.
      * simpl in Hfuel, El |- *. lia.
      * simpl in El, Hle |- *. lia.
    + intros a z Ha. apply loc_search_mono; exact Ha. Qed.

(* ---- the theorems ----------------------------------------------------------- *)
(* the ValueError cases *)
Theorem subgraphs_error g k : subgraphs_of_size g k = None <-> (k = 0 \/ length g < k).
Proof. unfold subgraphs_of_size.
  destruct (Nat.ltb (length g) k || Nat.eqb k 0) eqn:E.
  - split; auto. intros _. apply orb_true_iff in E as [E|E].
    + apply Nat.ltb_lt in E. auto.
    + apply Nat.eqb_eq in E. auto.
  - apply orb_false_iff in E as [E1 E2]. apply Nat.ltb_ge in E1. apply Nat.eqb_neq in E2.
    split; [discriminate|]. intros [H|H]; lia. Qed.

Theorem subgraphs_sound g k res : wf g -> sym g -> subgraphs_of_size g k = Some res ->
  forall l, In l res -> conn_k_subset g k l.
Proof. intros Hwf Hsym. unfold subgraphs_of_size.
  destruct (Nat.ltb (length g) k || Nat.eqb k 0) eqn:E; [discriminate|].
  intros H; injection H as <-.
  apply (fold_pres (fun a => forall l, In l a -> conn_k_subset g k l)).
  - intros a q Hq Ha. apply in_seq in Hq.
    apply loc_search_sound; auto; [constructor|intros x []|lia].
  - intros l []. Qed.

Theorem subgraphs_complete g k res : wf g -> sym g -> subgraphs_of_size g k = Some res ->
  forall l, conn_k_subset g k l -> In l res.
Proof. intros Hwf Hsym. unfold subgraphs_of_size.
  destruct (Nat.ltb (length g) k || Nat.eqb k 0) eqn:E; [discriminate|].
  apply orb_false_iff in E as [E1 E2]. apply Nat.ltb_ge in E1. apply Nat.eqb_neq in E2.
  intros H; injection H as <-. intros l Hl.
  pose proof Hl as (Hs & Hlen & Hb & Hc).
  destruct l as [|q l']; [simpl in Hlen; lia|].
  apply (fold_hit (fun a => In (q :: l') a) _ _ q).
  - apply in_seq. specialize (Hb q (or_introl eq_refl)). lia.
  - intros a. apply loc_search_complete; auto.
    + intros z [<-|[]]. left; reflexivity.
    + constructor.
    + simpl; lia.
    + simpl; lia.
  - intros a z Ha. apply loc_search_mono; exact Ha. Qed.

Theorem subgraphs_nodup g k res : subgraphs_of_size g k = Some res -> NoDup res.
Proof. unfold subgraphs_of_size.
  destruct (Nat.ltb (length g) k || Nat.eqb k 0) eqn:E; [discriminate|].
  intros H; injection H as <-.
  apply (fold_pres (fun a => NoDup a)); [|constructor].
  intros a q _ Ha. apply loc_search_nodup; exact Ha. Qed.

Corollary subgraphs_spec g k res : wf g -> sym g -> subgraphs_of_size g k = Some res ->
  forall l, In l res <-> conn_k_subset g k l.
Proof. intros Hwf Hsym H l. split.
  - apply (subgraphs_sound g k res); auto.
  - apply (subgraphs_complete g k res); auto. Qed.
