(* C20: degrees and is_linear. *)
From Coq Require Import List Arith Bool PeanoNat Lia.
Import ListNotations.
From BQ Require Import map.Graph map.GraphThm.

Theorem degrees_spec g i : length (degrees g) = length g /\ nth i (degrees g) 0 = length (nbrs g i).
Proof. unfold degrees, nbrs. split; [apply map_length|].
  change 0 with (length (@nil nat)). apply map_nth. Qed.

(* is_linear g = true exactly when g is a path on all its vertices: at least two vertices,
   every degree 1 or 2, exactly two vertices of degree 1, and connected (every vertex
   reachable from vertex 0) *)
Theorem is_linear_spec g : wf g ->
  (is_linear g = true <->
   (2 <= length g /\ (forall d, In d (degrees g) -> 1 <= d <= 2)
    /\ length (filter (Nat.eqb 1) (degrees g)) = 2 /\ allreach g)).
Proof. intros Hwf. unfold is_linear. destruct (Nat.ltb (length g) 2) eqn:E;
    [apply Nat.ltb_lt in E|apply Nat.ltb_ge in E].
  - split; [discriminate|intros (H & _); lia].
  - destruct (is_fully_connected_spec g Hwf) as (b & Hb & Hiff); [lia|]. rewrite Hb.
    rewrite !andb_true_iff, forallb_forall, Nat.eqb_eq. split.
    + intros [[H1 H2] H3]. split; auto. split; [|split; auto; apply Hiff; auto].
      intros d Hd. specialize (H1 d Hd).
      apply andb_true_iff in H1 as [Ha Hc]. apply negb_true_iff, Nat.eqb_neq in Ha. apply Nat.leb_le in Hc. lia.
    + intros (_ & H1 & H2 & H3). split; [split; auto|apply Hiff; auto]. intros d Hd. specialize (H1 d Hd).
      apply andb_true_iff. split; [apply negb_true_iff, Nat.eqb_neq; lia|apply Nat.leb_le; lia]. Qed.

(* regression witness of the fixed defect C20-F6: a path next to a triangle has the degree
   profile of a path but is not linearly connected - now rejected *)
Example is_linear_path_plus_triangle : is_linear [[1]; [0]; [3; 4]; [2; 4]; [2; 3]] = false.
Proof. reflexivity. Qed.

Example is_linear_path : is_linear [[1]; [0; 2]; [1; 3]; [2]] = true.
Proof. reflexivity. Qed.
