(* C20: degrees and is_linear. *)
From Coq Require Import List Arith Bool PeanoNat Lia.
Import ListNotations.
From BQ Require Import map.Graph map.GraphThm.

Theorem degrees_spec g i : length (degrees g) = length g /\ nth i (degrees g) 0 = length (nbrs g i).
Proof. unfold degrees, nbrs. split; [apply map_length|].
  change 0 with (length (@nil nat)). apply map_nth. Qed.

(* what the code tests: at least two vertices, every degree 1 or 2, exactly two of degree 1 *)
Theorem is_linear_spec g :
  is_linear g = true <->
  (2 <= length g /\ (forall d, In d (degrees g) -> 1 <= d <= 2)
   /\ length (filter (Nat.eqb 1) (degrees g)) = 2).
Proof. unfold is_linear. destruct (Nat.ltb (length g) 2) eqn:E;
    [apply Nat.ltb_lt in E|apply Nat.ltb_ge in E].
  - split; [discriminate|intros (H & _); lia].
  - rewrite andb_true_iff, forallb_forall, Nat.eqb_eq. split.
    + intros [H1 H2]. split; auto. split; auto. intros d Hd. specialize (H1 d Hd).
      apply andb_true_iff in H1 as [Ha Hb]. apply negb_true_iff, Nat.eqb_neq in Ha. apply Nat.leb_le in Hb. lia.
    + intros (_ & H1 & H2). split; auto. intros d Hd. specialize (H1 d Hd).
      apply andb_true_iff. split; [apply negb_true_iff, Nat.eqb_neq; lia|apply Nat.leb_le; lia]. Qed.

(* ... which is NOT "linearly connected": a path next to a triangle passes the test *)
Theorem is_linear_refuted :
  exists g, wf g /\ sym g /\ loopfree g /\ is_linear g = true /\ is_fully_connected g = Some false.
Proof. exists [[1]; [0]; [3; 4]; [2; 4]; [2; 3]].
  assert (Hn : forall q x, In x (nbrs [[1]; [0]; [3; 4]; [2; 4]; [2; 3]] q) ->
            (q = 0 /\ x = 1) \/ (q = 1 /\ x = 0) \/ (q = 2 /\ (x = 3 \/ x = 4)) \/ (q = 3 /\ (x = 2 \/ x = 4)) \/ (q = 4 /\ (x = 2 \/ x = 3))).
  { intros q x H. destruct q as [|[|[|[|[|q]]]]]; simpl in H; try (destruct q; contradiction); intuition lia. }
  split; [|split; [|split; [|split; reflexivity]]].
  - intros q x H. apply Hn in H. simpl. lia.
  - intros a b H. apply Hn in H.
    destruct H as [[-> ->]|[[-> ->]|[[-> [->| ->]]|[[-> [->| ->]]|[-> [->| ->]]]]]]; simpl; auto.
  - intros a H. apply Hn in H. lia. Qed.
