(* Theorems about the executable tensor model of map/Kron.v: index arithmetic of the
   Kronecker product, otimes, identity / product / power, mixed-radix digits, and the
   operator applied by apply_right / apply_left as an explicit Kronecker product. *)
From Coq Require Import List ZArith Arith Bool PeanoNat Lia.
Import ListNotations.
From BQ Require Import map.Graph map.Kron.

Definition zshape (r c : nat) (A : zmat) : Prop :=
  length A = r /\ Forall (fun row => length row = c) A.

(* ---- generic list facts ------------------------------------------------------------ *)

Lemma nth_map_d {X Y} (f : X -> Y) (l : list X) (d : X) (d' : Y) i :
  i < length l -> nth i (map f l) d' = f (nth i l d).
Proof.
  intros Hi. rewrite nth_indep with (d' := f d).
  - apply map_nth.
  - rewrite map_length. exact Hi.
Qed.

Lemma flat_map_length_const {X Y} (f : X -> list Y) (l : list X) q :
  (forall x, In x l -> length (f x) = q) -> length (flat_map f l) = length l * q.
Proof.
  induction l as [|x l IH]; intros Hq; simpl.
  - reflexivity.
  - rewrite app_length, IH.
    + rewrite (Hq x (or_introl eq_refl)). reflexivity.
    + intros y Hy. apply Hq. right. exact Hy.
Qed.

Lemma flat_map_nth_block {X Y} (f : X -> list Y) (l : list X) q (dX : X) (dY : Y) :
  (forall x, In x l -> length (f x) = q) ->
  forall j k, k < q -> j < length l ->
  nth (j * q + k) (flat_map f l) dY = nth k (f (nth j l dX)) dY.
Proof.
  induction l as [|x l IH]; intros Hq j k Hk Hj; simpl in Hj.
  - lia.
  - assert (Hx : length (f x) = q) by (apply Hq; left; reflexivity).
    destruct j as [|j]; simpl flat_map.
    + simpl. rewrite app_nth1 by lia. reflexivity.
    + rewrite app_nth2 by (rewrite Hx; simpl; lia).
      replace (S j * q + k - length (f x)) with (j * q + k) by (rewrite Hx; simpl; lia).
      rewrite IH.
      * reflexivity.
      * intros y Hy. apply Hq. right. exact Hy.
      * exact Hk.
      * lia.
Qed.

Lemma Forall_nth_len {X} (l : list (list X)) c i :
  Forall (fun row => length row = c) l -> i < length l -> length (nth i l []) = c.
Proof.
  intros HF Hi. rewrite Forall_forall in HF. apply HF. apply nth_In. exact Hi.
Qed.

(* ---- Kronecker product: shape and entries ----------------------------------------- *)

Lemma kron_row_length ra rb : length (kron_row ra rb) = length ra * length rb.
Proof.
  unfold kron_row. apply flat_map_length_const. intros x _. apply map_length.
Qed.

Lemma kron_row_nth ra rb q j l :
  length rb = q -> j < length ra -> l < q ->
  nth (j * q + l) (kron_row ra rb) 0%Z = (nth j ra 0 * nth l rb 0)%Z.
Proof.
  intros Hq Hj Hl. unfold kron_row.
  rewrite (flat_map_nth_block (fun a => map (Z.mul a) rb) ra q 0%Z 0%Z).
  - rewrite (nth_map_d (Z.mul (nth j ra 0%Z)) rb 0%Z 0%Z) by lia. reflexivity.
  - intros x _. rewrite map_length. exact Hq.
  - exact Hl.
  - exact Hj.
Qed.

Theorem kron_shape m n p q A B :
  zshape m n A -> zshape p q B -> zshape (m * p) (n * q) (kron A B).
Proof.
  intros [HA1 HA2] [HB1 HB2]. split.
  - unfold kron. rewrite (flat_map_length_const _ A p).
    + rewrite HA1. reflexivity.
    + intros x _. rewrite map_length. exact HB1.
  - rewrite Forall_forall in *. intros row Hrow. unfold kron in Hrow.
    apply in_flat_map in Hrow. destruct Hrow as [ra [Hra Hrow]].
    apply in_map_iff in Hrow. destruct Hrow as [rb [Heq Hrb]].
    subst row. rewrite kron_row_length, (HA2 ra Hra), (HB2 rb Hrb). reflexivity.
Qed.

Lemma kron_nth_row A B p i k :
  length B = p -> i < length A -> k < p ->
  nth (i * p + k) (kron A B) [] = kron_row (nth i A []) (nth k B []).
Proof.
  intros Hp Hi Hk. unfold kron.
  rewrite (flat_map_nth_block (fun ra => map (kron_row ra) B) A p [] []).
  - rewrite (nth_map_d (kron_row (nth i A [])) B [] []) by lia. reflexivity.
  - intros x _. rewrite map_length. exact Hp.
  - exact Hk.
  - exact Hi.
Qed.

Theorem kron_entry m n p q A B : zshape m n A -> zshape p q B ->
  forall i j k l, i < m -> j < n -> k < p -> l < q ->
  zget (kron A B) (i * p + k) (j * q + l) = (zget A i j * zget B k l)%Z.
Proof.
  intros [HA1 HA2] [HB1 HB2] i j k l Hi Hj Hk Hl. unfold zget.
  rewrite (kron_nth_row A B p i k HB1) by lia.
  apply kron_row_nth.
  - apply Forall_nth_len; [exact HB2 | lia].
  - rewrite (Forall_nth_len A n i HA2) by lia. exact Hj.
  - exact Hl.
Qed.

Theorem kron_entry_divmod m n p q A B : zshape m n A -> zshape p q B -> 0 < p -> 0 < q ->
  forall r c, r < m * p -> c < n * q ->
  zget (kron A B) r c = (zget A (r / p) (c / q) * zget B (r mod p) (c mod q))%Z.
Proof.
  intros HA HB Hp Hq r c Hr Hc.
  assert (Er : r = r / p * p + r mod p).
  { rewrite (Nat.mul_comm (r / p) p). apply Nat.div_mod_eq. }
  assert (Ec : c = c / q * q + c mod q).
  { rewrite (Nat.mul_comm (c / q) q). apply Nat.div_mod_eq. }
  rewrite Er at 1. rewrite Ec at 1.
  apply (kron_entry m n p q A B HA HB).
  - apply Nat.div_lt_upper_bound; lia.
  - apply Nat.div_lt_upper_bound; lia.
  - apply Nat.mod_upper_bound. lia.
  - apply Nat.mod_upper_bound. lia.
Qed.

(* two matrices of the same shape with the same entries are equal *)
Lemma zmat_ext r c A B : zshape r c A -> zshape r c B ->
  (forall i j, i < r -> j < c -> zget A i j = zget B i j) -> A = B.
Proof.
  intros [HA1 HA2] [HB1 HB2] Hext.
  apply (nth_ext A B [] []).
  - lia.
  - intros i Hi.
    assert (La : length (nth i A []) = c) by (apply Forall_nth_len; [exact HA2 | lia]).
    assert (Lb : length (nth i B []) = c) by (apply Forall_nth_len; [exact HB2 | lia]).
    apply (nth_ext _ _ 0%Z 0%Z).
    + lia.
    + intros j Hj. apply Hext; lia.
Qed.

(* ---- associativity (structural; the shape hypotheses are not needed) ---------------- *)

Lemma flat_map_scale a b c :
  flat_map (fun x => map (Z.mul x) c) (map (Z.mul a) b)
  = map (Z.mul a) (flat_map (fun x => map (Z.mul x) c) b).
Proof.
  induction b as [|y b IH]; simpl.
  - reflexivity.
  - rewrite map_app, IH, map_map. f_equal.
    apply map_ext. intros z. symmetry. apply Z.mul_assoc.
Qed.

Lemma kron_row_assoc a b c : kron_row (kron_row a b) c = kron_row a (kron_row b c).
Proof.
  unfold kron_row. induction a as [|x a IH]; simpl.
  - reflexivity.
  - rewrite flat_map_app, IH, flat_map_scale. reflexivity.
Qed.

Lemma kron_block_assoc ra B C :
  flat_map (fun r => map (kron_row r) C) (map (kron_row ra) B)
  = map (kron_row ra) (flat_map (fun rb => map (kron_row rb) C) B).
Proof.
  induction B as [|rb B IH]; simpl.
  - reflexivity.
  - rewrite map_app, IH, map_map. f_equal.
    apply map_ext. intros rc. apply kron_row_assoc.
Qed.

Lemma kron_assoc_gen A B C : kron (kron A B) C = kron A (kron B C).
Proof.
  unfold kron. induction A as [|ra A IH]; simpl.
  - reflexivity.
  - rewrite flat_map_app, IH, kron_block_assoc. reflexivity.
Qed.

Theorem kron_assoc m n p q r s A B C : zshape m n A -> zshape p q B -> zshape r s C ->
  kron (kron A B) C = kron A (kron B C).
Proof. intros _ _ _. apply kron_assoc_gen. Qed.

(* ---- otimes ------------------------------------------------------------------------- *)

Theorem otimes_nil A : otimes A [] = A.
Proof. reflexivity. Qed.

Theorem otimes_cons A B Bs : otimes A (B :: Bs) = otimes (kron A B) Bs.
Proof. reflexivity. Qed.

(* ---- identity ------------------------------------------------------------------------ *)

Theorem ident_shape n : zshape n n (ident n).
Proof.
  unfold ident. split.
  - rewrite map_length, seq_length. reflexivity.
  - rewrite Forall_forall. intros row Hrow. apply in_map_iff in Hrow.
    destruct Hrow as [i [Heq _]]. subst row. rewrite map_length, seq_length. reflexivity.
Qed.

Theorem ident_entry n i j : i < n -> j < n ->
  zget (ident n) i j = (if Nat.eqb i j then 1 else 0)%Z.
Proof.
  intros Hi Hj. unfold zget, ident.
  rewrite (nth_map_d _ (seq 0 n) 0 []) by (rewrite seq_length; exact Hi).
  rewrite (nth_map_d _ (seq 0 n) 0 0%Z) by (rewrite seq_length; exact Hj).
  rewrite !seq_nth by assumption. reflexivity.
Qed.

Lemma divmod_eq_iff p r c : 0 < p -> (r / p = c / p /\ r mod p = c mod p) <-> r = c.
Proof.
  intros Hp. split.
  - intros [Hd Hm]. rewrite (Nat.div_mod_eq r p), (Nat.div_mod_eq c p), Hd, Hm. reflexivity.
  - intros E. subst c. split; reflexivity.
Qed.

Theorem kron_ident a b : kron (ident a) (ident b) = ident (a * b).
Proof.
  apply (zmat_ext (a * b) (a * b)).
  - apply kron_shape; apply ident_shape.
  - apply ident_shape.
  - intros i j Hi Hj.
    assert (Hb : 0 < b) by (destruct b; lia).
    rewrite (kron_entry_divmod a a b b _ _ (ident_shape a) (ident_shape b) Hb Hb i j Hi Hj).
    rewrite ident_entry by (apply Nat.div_lt_upper_bound; lia).
    rewrite ident_entry by (apply Nat.mod_upper_bound; lia).
    rewrite ident_entry by assumption.
    destruct (Nat.eqb (i / b) (j / b)) eqn:Ed;
    destruct (Nat.eqb (i mod b) (j mod b)) eqn:Em;
    destruct (Nat.eqb i j) eqn:Eij; try reflexivity; exfalso.
    + apply Nat.eqb_eq in Ed. apply Nat.eqb_eq in Em. apply Nat.eqb_neq in Eij.
      apply Eij. apply (divmod_eq_iff b i j Hb). split; assumption.
    + apply Nat.eqb_eq in Eij. apply Nat.eqb_neq in Em. subst j. apply Em. reflexivity.
    + apply Nat.eqb_eq in Eij. apply Nat.eqb_neq in Ed. subst j. apply Ed. reflexivity.
    + apply Nat.eqb_eq in Eij. apply Nat.eqb_neq in Ed. subst j. apply Ed. reflexivity.
Qed.

(* ---- power --------------------------------------------------------------------------- *)

Theorem mpow_0 A : mpow A 0 = ident (length A).
Proof. reflexivity. Qed.

Theorem mpow_S A k : mpow A (S k) = mmul A (mpow A k).
Proof. reflexivity. Qed.

Theorem ipower_nonneg A p : (0 <= p)%Z -> ipower A p = mpow A (Z.to_nat p).
Proof.
  intros Hp. unfold ipower. destruct (Z.ltb p 0) eqn:E.
  - apply Z.ltb_lt in E. lia.
  - reflexivity.
Qed.

Theorem ipower_neg A p : (p < 0)%Z -> ipower A p = mpow (transpose A) (Z.to_nat (- p)).
Proof.
  intros Hp. unfold ipower. destruct (Z.ltb p 0) eqn:E.
  - reflexivity.
  - apply Z.ltb_ge in E. lia.
Qed.

Example kron_example :
  kron [[1; 2]; [3; 4]]%Z [[0; 1]; [1; 0]]%Z
  = [[0; 1; 0; 2]; [1; 0; 2; 0]; [0; 3; 0; 4]; [3; 0; 4; 0]]%Z.
Proof. reflexivity. Qed.

(* ---- matrix product ------------------------------------------------------------------ *)

Lemma dot_sum r : forall c, length c = length r ->
  dot r c = fold_right Z.add 0%Z (map (fun k => (nth k r 0 * nth k c 0)%Z) (seq 0 (length r))).
Proof.
  induction r as [|x r IH]; intros c Hc.
  - reflexivity.
  - destruct c as [|y c]; simpl in Hc; [discriminate|].
    injection Hc as Hc. simpl length.
    change (seq 0 (S (length r))) with (0 :: seq 1 (length r)).
    rewrite <- seq_shift, map_cons, map_map.
    unfold dot in *. simpl. rewrite (IH c Hc). reflexivity.
Qed.

Lemma transpose_length n p B : zshape n p B -> 0 < n -> length (transpose B) = p.
Proof.
  intros [HB1 HB2] Hn. unfold transpose. rewrite map_length, seq_length.
  destruct B as [|b B]; simpl in HB1; [lia|].
  unfold ncols. simpl. inversion HB2 as [|x y Hb HB]. exact Hb.
Qed.

Lemma transpose_nth B j : j < length (transpose B) ->
  nth j (transpose B) [] = map (fun r => nth j r 0%Z) B.
Proof.
  unfold transpose. rewrite map_length, seq_length. intros Hj.
  rewrite (nth_map_d _ (seq 0 (ncols B)) 0 []) by (rewrite seq_length; exact Hj).
  rewrite seq_nth by exact Hj. reflexivity.
Qed.

(* 0 < n is needed: for n = 0, B = [] has no recoverable column count (ncols [] = 0),
   so mmul A [] has rows of length 0 whatever p is *)
Theorem mmul_shape m n p A B : 0 < n -> zshape m n A -> zshape n p B -> zshape m p (mmul A B).
Proof.
  intros Hn [HA1 HA2] HB. unfold mmul. split.
  - rewrite map_length. exact HA1.
  - rewrite Forall_forall. intros row Hrow. apply in_map_iff in Hrow.
    destruct Hrow as [ra [Heq _]]. subst row. rewrite map_length.
    apply (transpose_length n p B HB Hn).
Qed.

(* the closest unconditional statement: p is replaced by the model's own column count *)
Theorem mmul_shape_ncols m n A B : zshape m n A -> zshape m (ncols B) (mmul A B).
Proof.
  intros [HA1 HA2]. unfold mmul. split.
  - rewrite map_length. exact HA1.
  - rewrite Forall_forall. intros row Hrow. apply in_map_iff in Hrow.
    destruct Hrow as [ra [Heq _]]. subst row. rewrite map_length.
    unfold transpose. rewrite map_length, seq_length. reflexivity.
Qed.

Theorem mmul_entry m n p A B : zshape m n A -> zshape n p B -> forall i j, i < m -> j < p ->
  zget (mmul A B) i j
  = fold_right Z.add 0%Z (map (fun k => (zget A i k * zget B k j)%Z) (seq 0 n)).
Proof.
  intros [HA1 HA2] HB i j Hi Hj.
  destruct n as [|n'].
  - destruct HB as [HB1 _]. destruct B as [|b B]; simpl in HB1; [|discriminate].
    unfold zget, mmul. rewrite (nth_map_d _ A [] []) by lia.
    simpl. destruct j; reflexivity.
  - assert (Hn : 0 < S n') by lia.
    assert (Ht : length (transpose B) = p) by (apply (transpose_length (S n') p B HB Hn)).
    destruct HB as [HB1 HB2].
    unfold zget at 1. unfold mmul.
    rewrite (nth_map_d _ A [] []) by lia.
    rewrite (nth_map_d _ (transpose B) [] 0%Z) by lia.
    rewrite transpose_nth by lia.
    assert (La : length (nth i A []) = S n') by (apply Forall_nth_len; [exact HA2 | lia]).
    rewrite dot_sum by (rewrite map_length; lia).
    rewrite La. f_equal. apply map_ext_in. intros k Hk. apply in_seq in Hk.
    rewrite (nth_map_d _ B [] 0%Z) by lia. reflexivity.
Qed.

(* ---- mixed-radix digits ---------------------------------------------------------------- *)

Lemma dim_cons r rs : dim (r :: rs) = r * dim rs.
Proof. reflexivity. Qed.

Lemma digits_cons r rs i : digits (r :: rs) i = (i / dim rs) :: digits rs (i mod dim rs).
Proof. reflexivity. Qed.

Lemma undigits_cons r rs d t : undigits (r :: rs) (d :: t) = d * dim rs + undigits rs t.
Proof. reflexivity. Qed.

Lemma dim_pos rs : Forall (fun r => 0 < r) rs -> 0 < dim rs.
Proof.
  induction 1 as [|r rs Hr _ IH].
  - simpl. lia.
  - rewrite dim_cons. apply Nat.mul_pos_pos; assumption.
Qed.

Theorem dim_app r1 r2 : dim (r1 ++ r2) = dim r1 * dim r2.
Proof.
  induction r1 as [|r r1 IH].
  - simpl. lia.
  - simpl app. rewrite !dim_cons, IH. apply Nat.mul_assoc.
Qed.

Lemma digits_length rs : forall i, length (digits rs i) = length rs.
Proof.
  induction rs as [|r rs IH]; intros i.
  - reflexivity.
  - rewrite digits_cons. simpl. rewrite IH. reflexivity.
Qed.

Theorem undigits_digits rs i :
  Forall (fun r => 0 < r) rs -> i < dim rs -> undigits rs (digits rs i) = i.
Proof.
  intros HF. revert i. induction HF as [|r rs Hr HF IH]; intros i Hi.
  - simpl in *. lia.
  - rewrite digits_cons, undigits_cons.
    assert (Hd : 0 < dim rs) by (apply dim_pos; exact HF).
    rewrite IH by (apply Nat.mod_upper_bound; lia).
    rewrite (Nat.div_mod_eq i (dim rs)) at 3. rewrite (Nat.mul_comm (dim rs)). reflexivity.
Qed.

Lemma div_mul_add b c i k : 0 < b -> 0 < c -> k < c -> (i * c + k) / (b * c) = i / b.
Proof.
  intros Hb Hc Hk. symmetry.
  apply Nat.div_unique with (r := (i mod b) * c + k).
  - assert (Hm : i mod b < b) by (apply Nat.mod_upper_bound; lia).
    assert (Hle : (i mod b + 1) * c <= b * c) by (apply Nat.mul_le_mono_r; lia).
    lia.
  - rewrite (Nat.div_mod_eq i b) at 1.
    generalize (i / b) (i mod b). intros x y. lia.
Qed.

Lemma mod_mul_add b c i k : 0 < b -> 0 < c -> k < c ->
  (i * c + k) mod (b * c) = (i mod b) * c + k.
Proof.
  intros Hb Hc Hk. symmetry.
  apply Nat.mod_unique with (q := i / b).
  - assert (Hm : i mod b < b) by (apply Nat.mod_upper_bound; lia).
    assert (Hle : (i mod b + 1) * c <= b * c) by (apply Nat.mul_le_mono_r; lia).
    lia.
  - rewrite (Nat.div_mod_eq i b) at 1.
    generalize (i / b) (i mod b). intros x y. lia.
Qed.

(* The requested statement (without i < dim r1) is FALSE for the model: with r1 = [] the
   leading digit of digits r2 is not reduced modulo its radix. *)
Example digits_app_counterexample :
  digits ([] ++ [2]) (1 * dim [2] + 0) <> digits [] 1 ++ digits [2] 0.
Proof. simpl. discriminate. Qed.

(* closest true statement: the index i is in range for r1 *)
Theorem digits_app_lt r1 r2 i k : Forall (fun r => 0 < r) r2 -> i < dim r1 -> k < dim r2 ->
  digits (r1 ++ r2) (i * dim r2 + k) = digits r1 i ++ digits r2 k.
Proof.
  intros _ Hi Hk. revert i Hi. induction r1 as [|r r1 IH]; intros i Hi.
  - simpl in Hi. assert (i = 0) by lia. subst i. reflexivity.
  - rewrite dim_cons in Hi.
    assert (Hb : 0 < dim r1) by (destruct (dim r1); lia).
    assert (Hc : 0 < dim r2) by lia.
    simpl app. rewrite !digits_cons, dim_app.
    rewrite (div_mul_add (dim r1) (dim r2) i k Hb Hc Hk).
    rewrite (mod_mul_add (dim r1) (dim r2) i k Hb Hc Hk).
    rewrite IH by (apply Nat.mod_upper_bound; lia).
    reflexivity.
Qed.

(* ---- embed: prefix / suffix locations are Kronecker products ---------------------------- *)

Lemma mem_In x l : mem x l = true <-> In x l.
Proof.
  induction l as [|y l IH]; simpl.
  - split; [discriminate | tauto].
  - rewrite orb_true_iff, Nat.eqb_eq, IH. split; intros [H|H]; auto.
Qed.

Lemma mem_seq_true q s n : s <= q < s + n -> mem q (seq s n) = true.
Proof. intros H. apply mem_In. apply in_seq. exact H. Qed.

Lemma mem_seq_false q s n : ~ (s <= q < s + n) -> mem q (seq s n) = false.
Proof.
  intros H. destruct (mem q (seq s n)) eqn:E; [|reflexivity].
  apply mem_In in E. apply in_seq in E. contradiction.
Qed.

Lemma forallb_ext_in' {X} (f g : X -> bool) l :
  (forall x, In x l -> f x = g x) -> forallb f l = forallb g l.
Proof.
  induction l as [|x l IH]; intros H; simpl.
  - reflexivity.
  - rewrite (H x (or_introl eq_refl)), IH.
    + reflexivity.
    + intros y Hy. apply H. right. exact Hy.
Qed.

Lemma forallb_map' {X Y} (f : Y -> bool) (g : X -> Y) l :
  forallb f (map g l) = forallb (fun x => f (g x)) l.
Proof.
  induction l as [|x l IH]; simpl; [reflexivity | rewrite IH; reflexivity].
Qed.

Lemma seq_map_add s n : seq s n = map (Nat.add s) (seq 0 n).
Proof.
  induction s as [|s IH].
  - simpl. rewrite map_id. reflexivity.
  - rewrite <- seq_shift, IH, map_map. reflexivity.
Qed.

Lemma forallb_nth_eqb a b n : length a = n -> length b = n ->
  forallb (fun q => Nat.eqb (nth q a 0) (nth q b 0)) (seq 0 n) = true <-> a = b.
Proof.
  intros Ha Hb. split.
  - intros H. rewrite forallb_forall in H. apply (nth_ext a b 0 0).
    + lia.
    + intros q Hq. apply Nat.eqb_eq. apply H. apply in_seq. lia.
  - intros E. subst b. apply forallb_forall. intros q _. apply Nat.eqb_refl.
Qed.

Lemma digits_inj rs k l : Forall (fun r => 0 < r) rs -> k < dim rs -> l < dim rs ->
  digits rs k = digits rs l -> k = l.
Proof.
  intros HF Hk Hl E.
  rewrite <- (undigits_digits rs k HF Hk), <- (undigits_digits rs l HF Hl), E. reflexivity.
Qed.

Lemma forallb_digits_eqb rs k l : Forall (fun r => 0 < r) rs -> k < dim rs -> l < dim rs ->
  forallb (fun q => Nat.eqb (nth q (digits rs k) 0) (nth q (digits rs l) 0)) (seq 0 (length rs))
  = Nat.eqb k l.
Proof.
  intros HF Hk Hl. destruct (Nat.eqb k l) eqn:E.
  - apply Nat.eqb_eq in E. subst l.
    apply (forallb_nth_eqb _ _ (length rs)); try apply digits_length. reflexivity.
  - apply Nat.eqb_neq in E.
    destruct (forallb _ _) eqn:F; [|reflexivity].
    apply (forallb_nth_eqb _ _ (length rs)) in F; try apply digits_length.
    apply digits_inj in F; try assumption. contradiction.
Qed.

Lemma map_nth_seq_prefix {X} (a b : list X) d n : length a = n ->
  map (fun q => nth q (a ++ b) d) (seq 0 n) = a.
Proof.
  intros Hn. subst n. induction a as [|x a IH].
  - reflexivity.
  - simpl length. change (seq 0 (S (length a))) with (0 :: seq 1 (length a)).
    rewrite <- seq_shift, map_cons, map_map. simpl. rewrite IH. reflexivity.
Qed.

Lemma map_nth_seq_suffix {X} (a b : list X) d n1 n2 : length a = n1 -> length b = n2 ->
  map (fun q => nth q (a ++ b) d) (seq n1 n2) = b.
Proof.
  intros H1 H2. subst n1 n2. induction a as [|x a IH].
  - simpl. pose proof (map_nth_seq_prefix b [] d (length b) eq_refl) as H.
    rewrite app_nil_r in H. exact H.
  - simpl length. rewrite <- seq_shift, map_map. simpl. exact IH.
Qed.

Lemma nth_app_plus {X} (a b : list X) d n x : length a = n -> nth (n + x) (a ++ b) d = nth x b d.
Proof. intros Hn. subst n. apply app_nth2_plus. Qed.

Lemma forallb_prefix_loc (a a' b b' : list nat) n1 n2 :
  length a = n1 -> length a' = n1 -> length b = n2 -> length b' = n2 ->
  forallb (fun q => mem q (seq 0 n1) || Nat.eqb (nth q (a ++ b) 0) (nth q (a' ++ b') 0))
          (seq 0 (n1 + n2))
  = forallb (fun q => Nat.eqb (nth q b 0) (nth q b' 0)) (seq 0 n2).
Proof.
  intros Ha Ha' Hb Hb'. rewrite seq_app, forallb_app. simpl (0 + n1).
  replace (forallb _ (seq 0 n1)) with true.
  - simpl. rewrite (seq_map_add n1 n2), forallb_map'.
    apply forallb_ext_in'. intros x Hx.
    rewrite mem_seq_false by lia. simpl.
    rewrite (nth_app_plus a b 0 n1 x Ha), (nth_app_plus a' b' 0 n1 x Ha'). reflexivity.
  - symmetry. apply forallb_forall. intros q Hq. apply in_seq in Hq.
    rewrite mem_seq_true by lia. reflexivity.
Qed.

Lemma forallb_suffix_loc (a a' b b' : list nat) n1 n2 :
  length a = n1 -> length a' = n1 -> length b = n2 -> length b' = n2 ->
  forallb (fun q => mem q (seq n1 n2) || Nat.eqb (nth q (a ++ b) 0) (nth q (a' ++ b') 0))
          (seq 0 (n1 + n2))
  = forallb (fun q => Nat.eqb (nth q a 0) (nth q a' 0)) (seq 0 n1).
Proof.
  intros Ha Ha' Hb Hb'. rewrite seq_app, forallb_app. simpl (0 + n1).
  replace (forallb _ (seq n1 n2)) with true.
  - rewrite andb_true_r. apply forallb_ext_in'. intros q Hq. apply in_seq in Hq.
    rewrite mem_seq_false by lia. simpl.
    rewrite !app_nth1 by lia. reflexivity.
  - symmetry. apply forallb_forall. intros q Hq. apply in_seq in Hq.
    rewrite mem_seq_true by lia. reflexivity.
Qed.

Lemma embed_shape rs loc U : zshape (dim rs) (dim rs) (embed rs loc U).
Proof.
  unfold embed. split.
  - rewrite map_length, seq_length. reflexivity.
  - rewrite Forall_forall. intros row Hrow. apply in_map_iff in Hrow.
    destruct Hrow as [i [Heq _]]. subst row. rewrite map_length, seq_length. reflexivity.
Qed.

Lemma embed_zget rs loc U row col : row < dim rs -> col < dim rs ->
  zget (embed rs loc U) row col = embed_entry rs loc U row col.
Proof.
  intros Hr Hc. unfold zget, embed.
  rewrite (nth_map_d _ (seq 0 (dim rs)) 0 []) by (rewrite seq_length; exact Hr).
  rewrite (nth_map_d _ (seq 0 (dim rs)) 0 0%Z) by (rewrite seq_length; exact Hc).
  rewrite !seq_nth by assumption. reflexivity.
Qed.

Lemma embed_entry_prefix r1 r2 U i j k l :
  Forall (fun r => 0 < r) r1 -> Forall (fun r => 0 < r) r2 ->
  i < dim r1 -> j < dim r1 -> k < dim r2 -> l < dim r2 ->
  embed_entry (r1 ++ r2) (seq 0 (length r1)) U (i * dim r2 + k) (j * dim r2 + l)
  = (zget U i j * (if Nat.eqb k l then 1 else 0))%Z.
Proof.
  intros H1 H2 Hi Hj Hk Hl. unfold embed_entry. cbv zeta.
  rewrite (digits_app_lt r1 r2 i k H2 Hi Hk), (digits_app_lt r1 r2 j l H2 Hj Hl).
  rewrite app_length.
  rewrite (forallb_prefix_loc (digits r1 i) (digits r1 j) (digits r2 k) (digits r2 l)
             (length r1) (length r2)) by apply digits_length.
  rewrite (forallb_digits_eqb r2 k l H2 Hk Hl).
  rewrite (map_nth_seq_prefix r1 r2 0 (length r1) eq_refl).
  rewrite (map_nth_seq_prefix (digits r1 i) (digits r2 k) 0 (length r1) (digits_length r1 i)).
  rewrite (map_nth_seq_prefix (digits r1 j) (digits r2 l) 0 (length r1) (digits_length r1 j)).
  rewrite (undigits_digits r1 i H1 Hi), (undigits_digits r1 j H1 Hj).
  destruct (Nat.eqb k l) eqn:E; lia.
Qed.

Lemma embed_entry_suffix r1 r2 U i j k l :
  Forall (fun r => 0 < r) r1 -> Forall (fun r => 0 < r) r2 ->
  i < dim r1 -> j < dim r1 -> k < dim r2 -> l < dim r2 ->
  embed_entry (r1 ++ r2) (seq (length r1) (length r2)) U (i * dim r2 + k) (j * dim r2 + l)
  = ((if Nat.eqb i j then 1 else 0) * zget U k l)%Z.
Proof.
  intros H1 H2 Hi Hj Hk Hl. unfold embed_entry. cbv zeta.
  rewrite (digits_app_lt r1 r2 i k H2 Hi Hk), (digits_app_lt r1 r2 j l H2 Hj Hl).
  rewrite app_length.
  rewrite (forallb_suffix_loc (digits r1 i) (digits r1 j) (digits r2 k) (digits r2 l)
             (length r1) (length r2)) by apply digits_length.
  rewrite (forallb_digits_eqb r1 i j H1 Hi Hj).
  rewrite (map_nth_seq_suffix r1 r2 0 (length r1) (length r2) eq_refl eq_refl).
  rewrite (map_nth_seq_suffix (digits r1 i) (digits r2 k) 0 (length r1) (length r2)
             (digits_length r1 i) (digits_length r2 k)).
  rewrite (map_nth_seq_suffix (digits r1 j) (digits r2 l) 0 (length r1) (length r2)
             (digits_length r1 j) (digits_length r2 l)).
  rewrite (undigits_digits r2 k H2 Hk), (undigits_digits r2 l H2 Hl).
  destruct (Nat.eqb i j) eqn:E; lia.
Qed.

Theorem embed_prefix r1 r2 U : Forall (fun r => 0 < r) r1 -> Forall (fun r => 0 < r) r2 ->
  zshape (dim r1) (dim r1) U ->
  embed (r1 ++ r2) (seq 0 (length r1)) U = kron U (ident (dim r2)).
Proof.
  intros H1 H2 HU.
  assert (HD2 : 0 < dim r2) by (apply dim_pos; exact H2).
  assert (Hgen : forall i j k l, i < dim r1 -> j < dim r1 -> k < dim r2 -> l < dim r2 ->
    zget (embed (r1 ++ r2) (seq 0 (length r1)) U) (i * dim r2 + k) (j * dim r2 + l)
    = zget (kron U (ident (dim r2))) (i * dim r2 + k) (j * dim r2 + l)).
  { intros i j k l Hi Hj Hk Hl.
    assert (B1 : i * dim r2 + k < dim r1 * dim r2).
    { assert ((i + 1) * dim r2 <= dim r1 * dim r2) by (apply Nat.mul_le_mono_r; lia). lia. }
    assert (B2 : j * dim r2 + l < dim r1 * dim r2).
    { assert ((j + 1) * dim r2 <= dim r1 * dim r2) by (apply Nat.mul_le_mono_r; lia). lia. }
    rewrite embed_zget by (rewrite dim_app; assumption).
    rewrite (embed_entry_prefix r1 r2 U i j k l H1 H2 Hi Hj Hk Hl).
    rewrite (kron_entry (dim r1) (dim r1) (dim r2) (dim r2) U (ident (dim r2)) HU
               (ident_shape (dim r2)) i j k l Hi Hj Hk Hl).
    rewrite (ident_entry (dim r2) k l Hk Hl). reflexivity. }
  apply (zmat_ext (dim r1 * dim r2) (dim r1 * dim r2)).
  - rewrite <- dim_app. apply embed_shape.
  - apply kron_shape; [exact HU | apply ident_shape].
  - intros row col Hr Hc.
    assert (Er : row = row / dim r2 * dim r2 + row mod dim r2).
    { rewrite (Nat.mul_comm (row / dim r2)). apply Nat.div_mod_eq. }
    assert (Ec : col = col / dim r2 * dim r2 + col mod dim r2).
    { rewrite (Nat.mul_comm (col / dim r2)). apply Nat.div_mod_eq. }
    rewrite Er, Ec. apply Hgen.
    + apply Nat.div_lt_upper_bound; lia.
    + apply Nat.div_lt_upper_bound; lia.
    + apply Nat.mod_upper_bound; lia.
    + apply Nat.mod_upper_bound; lia.
Qed.

Theorem embed_suffix r1 r2 U : Forall (fun r => 0 < r) r1 -> Forall (fun r => 0 < r) r2 ->
  zshape (dim r2) (dim r2) U ->
  embed (r1 ++ r2) (seq (length r1) (length r2)) U = kron (ident (dim r1)) U.
Proof.
  intros H1 H2 HU.
  assert (HD2 : 0 < dim r2) by (apply dim_pos; exact H2).
  assert (Hgen : forall i j k l, i < dim r1 -> j < dim r1 -> k < dim r2 -> l < dim r2 ->
    zget (embed (r1 ++ r2) (seq (length r1) (length r2)) U) (i * dim r2 + k) (j * dim r2 + l)
    = zget (kron (ident (dim r1)) U) (i * dim r2 + k) (j * dim r2 + l)).
  { intros i j k l Hi Hj Hk Hl.
    assert (B1 : i * dim r2 + k < dim r1 * dim r2).
    { assert ((i + 1) * dim r2 <= dim r1 * dim r2) by (apply Nat.mul_le_mono_r; lia). lia. }
    assert (B2 : j * dim r2 + l < dim r1 * dim r2).
    { assert ((j + 1) * dim r2 <= dim r1 * dim r2) by (apply Nat.mul_le_mono_r; lia). lia. }
    rewrite embed_zget by (rewrite dim_app; assumption).
    rewrite (embed_entry_suffix r1 r2 U i j k l H1 H2 Hi Hj Hk Hl).
    rewrite (kron_entry (dim r1) (dim r1) (dim r2) (dim r2) (ident (dim r1)) U
               (ident_shape (dim r1)) HU i j k l Hi Hj Hk Hl).
    rewrite (ident_entry (dim r1) i j Hi Hj). reflexivity. }
  apply (zmat_ext (dim r1 * dim r2) (dim r1 * dim r2)).
  - rewrite <- dim_app. apply embed_shape.
  - apply kron_shape; [apply ident_shape | exact HU].
  - intros row col Hr Hc.
    assert (Er : row = row / dim r2 * dim r2 + row mod dim r2).
    { rewrite (Nat.mul_comm (row / dim r2)). apply Nat.div_mod_eq. }
    assert (Ec : col = col / dim r2 * dim r2 + col mod dim r2).
    { rewrite (Nat.mul_comm (col / dim r2)). apply Nat.div_mod_eq. }
    rewrite Er, Ec. apply Hgen.
    + apply Nat.div_lt_upper_bound; lia.
    + apply Nat.div_lt_upper_bound; lia.
    + apply Nat.mod_upper_bound; lia.
    + apply Nat.mod_upper_bound; lia.
Qed.
