(* map/SabreBound.v - what can and what cannot be said about termination of the SABRE main loop
   in the model of map/Sabre.v.

   (1) progress is bounded: in every run every operation is executed at most once, so there are at
       most |c| Exec steps; a run obeying the control-flow guards of the code (strict_ok) never has
       more than 5.|cg|+1 leading swaps, i.e. at most 5.|cg|+1 consecutive Swap steps.
   (2) the guards do NOT bound the number of Swap*-Backtrack rounds: there are arbitrarily long runs in
       which every step is enabled AND obeys the guards and nothing is ever executed.  Whether the real
       loop leaves such a round depends on which swaps the float heuristic picks and on what
       _uphill_swaps yields after the backtrack - both oracles of the model. *)
From Coq Require Import List Arith Bool PeanoNat Lia Permutation.
Import ListNotations.
From BQ Require Import lib.Perm lib.PermThm map.Graph map.Sabre map.SabreStrict map.SabreDag map.SabreThm map.SabreSem.

(* ---- (1a) at most |c| productive steps ------------------------------------------------------------ *)
Theorem exec_bound cg c nq pi0 tr s :
  wf_circ c nq -> wfperm nq pi0 ->
  replay cg c true true (init c nq true pi0) tr = Some s ->
  NoDup (executed tr) /\ (forall n, In n (executed tr) -> n < length c) /\ length (executed tr) <= length c.
Proof. intros Hwfc Hpi0 H.
  destruct (route_sim_inv cg c nq pi0 Hwfc Hpi0 tr s H) as (_ & Hnd & _).
  destruct (only_swaps_added cg c nq pi0 Hwfc Hpi0 tr s H) as (E & Hlt & _).
  assert (Hb : forall n, In n (executed tr) -> n < length c).
  { intros n Hn. rewrite <- E in Hn. apply in_map_iff in Hn as ([n' L] & <- & Hin). simpl.
    destruct (Hlt _ _ Hin) as (_ & _ & Hl & _). exact Hl. }
  split; [exact Hnd|]. split; [exact Hb|].
  rewrite <- (seq_length (length c) 0). apply NoDup_incl_length; auto.
  intros n Hn. apply in_seq. specialize (Hb n Hn). lia. Qed.

(* ---- (1b) the guards bound the leading swaps -------------------------------------------------------- *)
Lemma replay_strict_replay cg c fwd modify : forall tr s s',
  replay_strict cg c fwd modify s tr = Some s' -> replay cg c fwd modify s tr = Some s'.
Proof. induction tr as [|t r IH]; simpl; intros s s' H; auto.
  destruct (strict_ok cg c s t); [|discriminate].
  destruct (do_step cg c fwd modify s t) as [s1|]; [|discriminate]. auto. Qed.

Lemma replay_strict_app cg c fwd modify : forall t1 t2 s,
  replay_strict cg c fwd modify s (t1 ++ t2) =
  match replay_strict cg c fwd modify s t1 with
  | Some s1 => replay_strict cg c fwd modify s1 t2
  | None => None
  end.
Proof. induction t1 as [|t r IH]; simpl; intros t2 s; auto.
  destruct (strict_ok cg c s t); auto.
  destruct (do_step cg c fwd modify s t) as [s1|]; auto. Qed.

Theorem strict_lead_bound cg c fwd modify : forall tr s s',
  length (lead s) <= 5 * length cg + 1 ->
  replay_strict cg c fwd modify s tr = Some s' -> length (lead s') <= 5 * length cg + 1.
Proof. induction tr as [|t r IH]; simpl; intros s s' Hb H.
  - inversion H; subst; auto.
  - destruct (strict_ok cg c s t) eqn:Es; [|discriminate].
    destruct (do_step cg c fwd modify s t) as [s1|] eqn:E; [|discriminate].
    apply (IH s1); auto. clear IH H.
    destruct t as [n|e| |e]; simpl in E, Es.
    + destruct (negb (memb n (F s))); [discriminate|].
      destruct (can_exe cg (pi s) (opat c n)) as [[|]|]; try discriminate.
      destruct (cget n (cnt s)); [|discriminate].
      destruct modify.
      * destruct (phys (pi s) (gloc (opat c n))); [|discriminate]. inversion E; subst; simpl. lia.
      * inversion E; subst; simpl. lia.
    + apply andb_true_iff in Es as [_ Es]. apply Nat.leb_le in Es.
      destruct (negb (is_edge cg e)); [discriminate|].
      destruct (apply_swap e (pi s)); [|discriminate]. inversion E; subst; simpl.
      rewrite app_length. simpl. lia.
    + destruct (undo modify (rev (lead s)) (pi s) (out s)) as [[p o]|]; [|discriminate].
      inversion E; subst; simpl. lia.
    + destruct (negb (is_edge cg e)); [discriminate|].
      destruct (lead s); [|discriminate].
      destruct (apply_swap e (pi s)); [|discriminate]. inversion E; subst; simpl. lia. Qed.

(* ---- (2) the guards do not bound the number of rounds ------------------------------------------------ *)
Lemma nt_round_returns : replay_strict nt_cg nt_c true true nt_init nt_round = Some nt_init.
Proof. vm_compute. reflexivity. Qed.

Theorem strict_runs_unbounded : forall k,
  let tr := concat (repeat nt_round k) in
  replay_strict nt_cg nt_c true true nt_init tr = Some nt_init /\
  length tr = 22 * k /\ executed tr = [] /\ F nt_init <> [].
Proof. induction k as [|k IH]; cbv zeta.
  - simpl. repeat split; auto. discriminate.
  - destruct IH as (H1 & H2 & H3 & H4). cbn [repeat concat].
    split; [rewrite replay_strict_app, nt_round_returns; exact H1|].
    split; [rewrite app_length, H2; simpl; lia|].
    split; [|exact H4].
    unfold executed in *. rewrite flat_map_app, H3. reflexivity. Qed.
