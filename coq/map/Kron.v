(* Executable model (no proofs) of the tensor / power / apply operations of
   bqskit/qis/unitary/unitarymatrix.py (otimes, ipower) and unitarybuilder.py
   (apply_right, apply_left, get_unitary) on EXACT integer matrices (lists of rows over
   Z); and of PermutationMatrix.gen_swap_unitary / from_qudit_location as matrices.
   numpy's kron / matmul / reshape / transpose are the kernels being modelled. *)
From Coq Require Import List ZArith Bool Arith PeanoNat.
Import ListNotations.
From BQ Require Import map.Graph.
Open Scope Z_scope.

Definition zmat := list (list Z).

(* np.kron: block (i, j) of the result is A[i][j] * B *)
Definition kron_row (ra rb : list Z) : list Z := flat_map (fun a => map (Z.mul a) rb) ra.
Definition kron (A B : zmat) : zmat := flat_map (fun ra => map (kron_row ra) B) A.
Definition zget (A : zmat) (i j : nat) : Z := nth j (nth i A []) 0.

(* UnitaryMatrix.otimes(utrys...): left fold of np.kron *)
Definition otimes (A : zmat) (Bs : list zmat) : zmat := fold_left kron Bs A.

Definition dot (r c : list Z) : Z := fold_right Z.add 0 (map (fun p => fst p * snd p) (combine r c)).
Definition ncols (A : zmat) : nat := length (hd [] A).
Definition transpose (A : zmat) : zmat := map (fun j => map (fun r => nth j r 0) A) (seq 0 (ncols A)).
Definition mmul (A B : zmat) : zmat := let Bt := transpose B in map (fun r => map (dot r) Bt) A.
Definition ident (n : nat) : zmat :=
  map (fun i => map (fun j => if Nat.eqb i j then 1 else 0) (seq 0 n)) (seq 0 n).
Fixpoint mpow (A : zmat) (p : nat) : zmat :=
  match p with O => ident (length A) | S q => mmul A (mpow A q) end.

(* UnitaryMatrix.ipower: matrix_power(self.dagger, -p) for p < 0; on real integer
   matrices dagger = transpose *)
Definition ipower (A : zmat) (p : Z) : zmat :=
  if p <? 0 then mpow (transpose A) (Z.to_nat (- p)) else mpow A (Z.to_nat p).

(* ---- mixed-radix indices, qudit 0 most significant (numpy row-major reshape) -------- *)
Close Scope Z_scope.
Definition dim (radixes : list nat) : nat := fold_right Nat.mul 1 radixes.
Fixpoint digits (radixes : list nat) (idx : nat) : list nat :=
  match radixes with
  | [] => []
  | _ :: rs => (idx / dim rs) :: digits rs (idx mod dim rs)
  end.
Fixpoint undigits (radixes ds : list nat) : nat :=
  match radixes, ds with
  | _ :: rs, d :: t => d * dim rs + undigits rs t
  | _, _ => 0
  end.

(* the (row, col) entry of the operator acting as U on the qudits `loc` (in that order)
   and as the identity elsewhere: U[sub row][sub col] when all other digits agree *)
Definition embed_entry (radixes loc : list nat) (U : zmat) (row col : nat) : Z :=
  let dr := digits radixes row in
  let dc := digits radixes col in
  if forallb (fun q => mem q loc || Nat.eqb (nth q dr 0) (nth q dc 0)) (seq 0 (length radixes))
  then
    let lr := map (fun q => nth q radixes 0) loc in
    zget U (undigits lr (map (fun q => nth q dr 0) loc)) (undigits lr (map (fun q => nth q dc 0) loc))
  else 0%Z.

Definition embed (radixes loc : list nat) (U : zmat) : zmat :=
  let d := dim radixes in
  map (fun row => map (embed_entry radixes loc U row) (seq 0 d)) (seq 0 d).

(* UnitaryBuilder.apply_right: the gate comes AFTER the current content in circuit
   order, new = E * old;  apply_left: BEFORE, new = old * E *)
Definition apply_right (radixes : list nat) (T U : zmat) (loc : list nat) : zmat := mmul (embed radixes loc U) T.
Definition apply_left (radixes : list nat) (T U : zmat) (loc : list nat) : zmat := mmul T (embed radixes loc U).

(* PermutationMatrix.gen_swap_unitary(radix): col = a*radix + b -> row = b*radix + a *)
Definition swap_mat (radix : nat) : zmat :=
  let d := radix * radix in
  map (fun row => map (fun col =>
        if Nat.eqb row ((col mod radix) * radix + col / radix) then 1%Z else 0%Z) (seq 0 d)) (seq 0 d).

(* PermutationMatrix.from_qudit_location: identity builder, apply_left(swap, (index, pos))
   for every swap recorded by the loop, in recording order *)
Definition from_qudit_location (n radix : nat) (loc : list nat) : zmat :=
  let radixes := repeat radix n in
  fold_left (fun T s => apply_left radixes T (swap_mat radix) [fst s; snd s])
            (snd (perm_loop n loc)) (ident (dim radixes)).

(* the documented result: the permutation matrix that moves qudit full[i] to position i,
   full = completed arrangement.  Column `col` (digits d) has its 1 in the row whose
   digit i is d[full[i]]. *)
Definition perm_matrix (n radix : nat) (full : list nat) : zmat :=
  let radixes := repeat radix n in
  let d := dim radixes in
  map (fun row => map (fun col =>
        let dc := digits radixes col in
        if Nat.eqb row (undigits radixes (map (fun q => nth q dc 0) full)) then 1%Z else 0%Z) (seq 0 d)) (seq 0 d).

(* mixed-radix wire permutation: the basis state with digits d (w.r.t. radixes) goes to
   the basis state, w.r.t. the permuted radixes, whose i-th digit is d[order[i]] *)
Definition perm_matrix_mixed (radixes order : list nat) : zmat :=
  let d := dim radixes in
  let pr := map (fun q => nth q radixes 0) order in
  map (fun row => map (fun col =>
        let dc := digits radixes col in
        if Nat.eqb row (undigits pr (map (fun q => nth q dc 0) order)) then 1%Z else 0%Z) (seq 0 d)) (seq 0 d).
