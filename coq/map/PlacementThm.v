(* map/PlacementThm.v - the PassData bookkeeping of
   [SetModelPass; placement; layout; routing; ApplyPlacement]  (map/Placement.v). *)
From Coq Require Import List Arith Bool PeanoNat Lia Permutation.
Import ListNotations.
From BQ Require Import lib.Perm lib.PermThm map.Graph map.GraphThm map.Sabre map.SabreDag map.SabreThm map.SabreSem map.Placement.

(* ---- what a successful get_subgraph says about its location ------------------- *)
Lemma gnodupb_NoDup l : Graph.nodupb l = true -> NoDup l.
Proof. induction l as [|x t IH]; simpl; intros H; [constructor|].
  apply andb_true_iff in H as [H1 H2]. apply negb_true_iff in H1. apply mem_false in H1.
  constructor; auto. Qed.

Lemma get_subgraph_Some_inj g loc ren es :
  Graph.get_subgraph g loc ren = Some es -> injinto (length g) loc.
Proof. unfold Graph.get_subgraph.
  destruct (Graph.nodupb loc && forallb (fun q => q <? length g) loc) eqn:E; simpl; [|discriminate].
  intros _. apply andb_true_iff in E as [E1 E2]. split; [apply gnodupb_NoDup; auto|].
  intros x Hx. rewrite forallb_forall in E2. apply Nat.ltb_lt. auto. Qed.

Lemma connectivity_inj d cg : connectivity d = Some cg -> injinto (length (mach d)) (placement d).
Proof. unfold connectivity. destruct (Graph.get_subgraph _ _ _) eqn:E; [|discriminate].
  intros _. eapply get_subgraph_Some_inj; eauto. Qed.

Lemma placement_connected_inj g pl b : placement_connected g pl = Some b -> injinto (length g) pl.
Proof. unfold placement_connected. destruct (Graph.get_subgraph _ _ _) eqn:E; [|discriminate].
  intros _. eapply get_subgraph_Some_inj; eauto. Qed.

(* ---- placers: the placement has one entry per circuit qudit --------------------- *)
Lemma greedy_loop_length : forall fuel g n pl nbs r,
  greedy_loop fuel g n pl nbs = Some r -> length pl <= n -> length r = n.
Proof. induction fuel as [|f IH]; intros g n pl nbs r; simpl.
  - destruct (Nat.leb_spec n (length pl)) as [Hle|Hgt]; [|discriminate]. intros Hs Hb; inversion Hs; subst. lia.
  - destruct (Nat.leb_spec n (length pl)) as [Hle|Hgt].
    + intros Hs Hb; inversion Hs; subst. lia.
    + destruct (best_neighbor g pl nbs) as [b|]; [|discriminate]. intros Hr _.
      apply IH in Hr; auto. rewrite app_length. simpl. lia. Qed.

Lemma sort_length l : length (Perm.sort l) = length l.
Proof. apply Permutation_length, sort_perm. Qed.

Definition pd_std (nq : nat) (d : pdata) : Prop :=
  length (placement d) = nq /\ imap d = idperm nq /\ fmap d = idperm nq.

Lemma run_placer_std p nq d d' : 1 <= nq -> pd_std nq d -> run_placer p nq d = Some d' ->
  pd_std nq d' /\ mach d' = mach d.
Proof. intros Hn (Hl & Hi & Hf). destruct p as [| |le f|]; simpl.
  - unfold trivial_placement. destruct (placement_connected _ _) as [[|]|]; try discriminate.
    intros H; inversion H; subst; simpl. split; auto. split; auto. apply seq_length.
  - unfold greedy_placement. destruct (mach d) as [|g0 g] eqn:Eg; [discriminate|].
    destruct (greedy_loop _ _ _ _ _) as [pl|] eqn:E; [|discriminate].
    destruct (placement_connected _ _) as [[|]|]; try discriminate.
    intros H; inversion H; subst. unfold pd_std; cbn [placement imap fmap mach]. split; auto. split; auto.
    rewrite sort_length. eapply greedy_loop_length; eauto.
  - unfold static_placement, static_accepts.
    destruct (Nat.eqb_spec (length f) nq) as [El|El]; simpl.
    + destruct (forallb _ le); [|discriminate].
      destruct (forallb _ le); intros H; inversion H; subst; simpl; split; auto; split; auto.
    + intros H; inversion H; subst. split; auto. split; auto.
  - intros H; inversion H; subst. split; auto. split; auto. Qed.

(* ---- layout: pi is a permutation; the placement is re-indexed by it ------------- *)
Lemma layout_loop_wf cg c nq : forall trs p p', wfperm nq p -> layout_loop cg c nq trs p = Some p' -> wfperm nq p'.
Proof. induction trs as [|[tf tb] r IH]; simpl; intros p p' Hw H.
  - inversion H; subst; auto.
  - destruct (replay cg c true false (init c nq true p) tf) as [s1|] eqn:E1; [|discriminate].
    destruct (F s1); [|discriminate].
    destruct (replay cg c false false (init c nq false (pi s1)) tb) as [s2|] eqn:E2; [|discriminate].
    destruct (F s2); [|discriminate].
    apply (IH (pi s2)); auto.
    eapply replay_wfperm; [|exact E2]. simpl.
    eapply replay_wfperm; [|exact E1]. simpl. exact Hw. Qed.

Theorem layout_pass_spec cg c nq trs pl p pl' :
  length pl = nq -> layout_pass cg c nq trs pl = Some (p, pl') ->
  wfperm nq p /\ pl' = compose pl p.
Proof. intros Hl. unfold layout_pass. destruct (Graph.is_fully_connected cg) as [[|]|]; try discriminate.
  destruct (layout_loop cg c nq trs (idperm nq)) as [p1|] eqn:E; [|discriminate].
  destruct (apply_perm p1 pl) as [pl1|] eqn:Ep; [|discriminate].
  intros H; inversion H; subst p1 pl1.
  assert (Hw : wfperm nq p) by (eapply layout_loop_wf; [apply wfperm_idperm|eauto]).
  split; auto. rewrite (apply_perm_full nq p pl Hw Hl) in Ep. inversion Ep; auto. Qed.

Lemma layout_on_spec c nq trs d d' : pd_std nq d -> layout_on c nq trs d = Some d' ->
  exists piL, wfperm nq piL /\ placement d' = compose (placement d) piL /\ injinto (length (mach d)) (placement d)
              /\ pd_std nq d' /\ mach d' = mach d.
Proof. intros (Hl & Hi & Hf). unfold layout_on. destruct (connectivity d) as [cg|] eqn:Ec; [|discriminate].
  destruct (layout_pass cg c nq trs (placement d)) as [[p pl]|] eqn:E; [|discriminate].
  destruct (layout_pass_spec _ _ _ _ _ _ _ Hl E) as [Hw Hpl].
  intros H; inversion H; subst d'; simpl.
  exists p. split; [exact Hw|]. split; [exact Hpl|]. split; [eapply connectivity_inj; eauto|].
  split; [|reflexivity]. split; [|split; auto]. simpl. rewrite Hpl, compose_length. apply Hw. Qed.

(* ---- routing ---------------------------------------------------------------------- *)
Theorem routing_pass_spec cg c nq tr fm o p fm' :
  routing_pass cg c nq tr fm = Some (o, p, fm') ->
  Graph.is_fully_connected cg = Some true /\
  exists s, replay cg c true true (init c nq true (idperm nq)) tr = Some s /\ F s = [] /\
            o = out s /\ p = pi s /\ fm' = compose p fm.
Proof. unfold routing_pass. destruct (Graph.is_fully_connected cg) as [[|]|]; try discriminate.
  destruct (replay _ _ _ _ _ _) as [s|] eqn:E; [|discriminate].
  destruct (F s) eqn:EF; [|discriminate].
  destruct (compose_opt (pi s) fm) as [x|] eqn:Ec; [|discriminate].
  intros H; inversion H; subst. split; auto. exists s. repeat split; auto.
  apply compose_opt_Some in Ec. tauto. Qed.

(* ---- ApplyPlacement ----------------------------------------------------------------- *)
Lemma apply_placement_spec o d o' d' : apply_placement o d = Some (o', d') ->
  o' = map (relabel (placement d)) o /\ imap d' = compose (placement d) (imap d) /\
  fmap d' = compose (placement d) (fmap d) /\ placement d' = idperm (length (mach d)) /\ mach d' = mach d.
Proof. unfold apply_placement. destruct (forallb _ o); [|discriminate].
  destruct (compose_opt (placement d) (imap d)) as [im|] eqn:E1; [|discriminate].
  destruct (compose_opt (placement d) (fmap d)) as [fm|] eqn:E2; [|discriminate].
  intros H; inversion H; subst; simpl.
  apply compose_opt_Some in E1 as [-> _]. apply compose_opt_Some in E2 as [-> _]. auto. Qed.

(* relabelling a swap network by an injective placement *)
Lemma tr_nth P a b x n : NoDup P -> length P = n -> a < n -> b < n -> x < n ->
  tr (nth a P 0) (nth b P 0) (nth x P 0) = nth (tr a b x) P 0.
Proof. intros Hnd Hl Ha Hb Hx. unfold tr.
  destruct (Nat.eqb_spec x a) as [->|Hxa].
  - rewrite Nat.eqb_refl. reflexivity.
  - destruct (Nat.eqb_spec (nth x P 0) (nth a P 0)) as [E|E].
    + exfalso. apply Hxa. apply (nth_inj_NoDup P); auto; lia.
    + destruct (Nat.eqb_spec x b) as [->|Hxb].
      * rewrite Nat.eqb_refl. reflexivity.
      * destruct (Nat.eqb_spec (nth x P 0) (nth b P 0)) as [E'|E']; auto.
        exfalso. apply Hxb. apply (nth_inj_NoDup P); auto; lia. Qed.

Definition relabel_swap (P : list nat) (e : nat * nat) : nat * nat := (nth (fst e) P 0, nth (snd e) P 0).

Lemma swaps_of_relabel P o : swaps_of (map (relabel P) o) = map (relabel_swap P) (swaps_of o).
Proof. induction o as [|[n L|a b] t IH]; simpl; auto. f_equal. exact IH. Qed.

Lemma tr_all_relabel P n : NoDup P -> length P = n -> forall es x,
  (forall e, In e es -> fst e < n /\ snd e < n) -> x < n ->
  tr_all (map (relabel_swap P) es) (nth x P 0) = nth (tr_all es x) P 0.
Proof. intros Hnd Hl. induction es as [|[a b] t IH]; intros x Hr Hx; auto.
  simpl map. rewrite !tr_all_cons. simpl fst. simpl snd.
  destruct (Hr (a, b)) as [Ha Hb]; [left; auto|]. simpl in Ha, Hb.
  rewrite (tr_nth P a b x n); auto. apply IH.
  - intros e He. apply Hr. right; auto.
  - apply tr_lt; auto. Qed.

(* ---- the pipeline --------------------------------------------------------------------- *)
Section Pipeline.
Variable g : adj.
Variable c : circ.
Variable nq : nat.
Hypothesis Hwfc : wf_circ c nq.
Hypothesis Hnq : 1 <= nq.

(* C09_mappings, bookkeeping part.  P0 = placement chosen by the placement pass,
   piL = pi found by the layout pass (identity if there is none), piR = pi at the end
   of routing.  initial_mapping = P0 o piL, final_mapping = P0 o piL o piR. *)
Theorem pipeline_mappings p ltr rtr o d :
  pipeline g c nq p ltr rtr = Some (o, d) ->
  exists P0 piL piR cgR s,
    length P0 = nq /\ wfperm nq piL /\ wfperm nq piR /\
    let P1 := compose P0 piL in
    injinto (length g) P1 /\ length P1 = nq /\
    placement_connected g P1 = Some true /\
    connectivity (mkpd P1 (idperm nq) (idperm nq) g) = Some cgR /\
    replay cgR c true true (init c nq true (idperm nq)) rtr = Some s /\ F s = [] /\ pi s = piR /\
    o = map (relabel P1) (out s) /\
    imap d = P1 /\ fmap d = compose P1 piR /\ placement d = idperm (length g) /\
    injinto (length g) (imap d) /\ injinto (length g) (fmap d).
Proof. unfold pipeline. unfold set_model. destruct (Nat.ltb_spec (length g) nq) as [Hsm|Hsm]; [discriminate|].
  set (d0 := mkpd (idperm nq) (imap (pd_init nq)) (fmap (pd_init nq)) g).
  assert (Hstd0 : pd_std nq d0) by (unfold pd_std, d0; simpl; repeat split; auto; apply seq_length).
  destruct (run_placer p nq d0) as [d1|] eqn:E1; [|discriminate].
  destruct (run_placer_std p nq d0 d1 Hnq Hstd0 E1) as [Hstd1 Hm1]. simpl in Hm1.
  (* layout (optional) *)
  assert (Hlay : forall d2, match ltr with Some trs => layout_on c nq trs d1 | None => Some d1 end = Some d2 ->
            exists piL, wfperm nq piL /\ placement d2 = compose (placement d1) piL /\ pd_std nq d2 /\ mach d2 = g).
  { intros d2. destruct ltr as [trs|].
    - intros H. destruct (layout_on_spec c nq trs d1 d2 Hstd1 H) as (piL & Hw & Hp & _ & Hs & Hm).
      exists piL. split; [exact Hw|]. split; [exact Hp|]. split; [exact Hs|]. rewrite Hm. exact Hm1.
    - intros H; inversion H; subst. exists (idperm nq). split; [apply wfperm_idperm|]. split; auto.
      destruct Hstd1 as (Hl & _). rewrite <- Hl. symmetry. apply compose_id_r. }
  destruct (match ltr with Some trs => layout_on c nq trs d1 | None => Some d1 end) as [d2|] eqn:E2; [|discriminate].
  destruct (Hlay d2 eq_refl) as (piL & HwL & HP1 & (Hl2 & Hi2 & Hf2) & Hm2).
  unfold routing_on. destruct (connectivity d2) as [cgR|] eqn:Ec; [|discriminate].
  destruct (routing_pass cgR c nq rtr (fmap d2)) as [[[o3 p3] fm3]|] eqn:E3; [|discriminate].
  destruct (routing_pass_spec _ _ _ _ _ _ _ _ E3) as (Hfc & s & Hrep & HF0 & -> & -> & ->).
  intros Hap. apply apply_placement_spec in Hap as (Ho & Him & Hfm & Hpl & Hmm). simpl in *.
  assert (HwR : wfperm nq (pi s)).
  { eapply replay_wfperm; [|exact Hrep]. simpl. apply wfperm_idperm. }
  assert (Hinj : injinto (length g) (placement d2)).
  { rewrite <- Hm2. eapply connectivity_inj; eauto. }
  exists (placement d1), piL, (pi s), cgR, s.
  destruct Hstd1 as (Hl1 & _ & _).
  split; [exact Hl1|]. split; [exact HwL|]. split; [exact HwR|]. cbv zeta. rewrite <- HP1.
  split; [exact Hinj|]. split; [exact Hl2|].
  split.
  { unfold placement_connected. unfold connectivity in Ec. rewrite Hm2 in Ec.
    destruct (Graph.get_subgraph g (placement d2) None) as [es|]; [|discriminate].
    inversion Ec; subst. exact Hfc. }
  split.
  { unfold connectivity in *. simpl. rewrite Hm2 in Ec. exact Ec. }
  split; [exact Hrep|]. split; [exact HF0|]. split; [reflexivity|]. split; [exact Ho|].
  assert (Eim : imap d = placement d2).
  { rewrite Him, Hi2, <- Hl2. apply compose_id_r. }
  assert (Efm : fmap d = compose (placement d2) (pi s)).
  { rewrite Hfm, Hf2. f_equal. destruct HwR as (_ & HlR & _). rewrite <- HlR. apply compose_id_r. }
  split; [exact Eim|]. split; [exact Efm|]. split; [rewrite Hpl, Hm2; reflexivity|].
  split; [rewrite Eim; exact Hinj|].
  rewrite Efm. apply compose_injinto; auto. rewrite Hl2. apply wfperm_injinto; auto. Qed.

End Pipeline.

(* ---- the final circuit in semantic form ------------------------------------------------ *)
Section PipelineSem.
Variable g : adj.
Variable c : circ.
Variable nq : nat.
Hypothesis Hwfc : wf_circ c nq.
Hypothesis Hnq : 1 <= nq.
Let m := length g.

Variable M : Type.
Variable mul : M -> M -> M.
Variable one : M.
Variable den : nat -> list nat -> M.      (* input operation n on physical location L of the machine *)
Variable sw : nat -> nat -> M.            (* SwapGate on machine qudits (a, b) *)
Hypothesis mul_assoc : forall x y z, mul x (mul y z) = mul (mul x y) z.
Hypothesis mul_one_l : forall x, mul one x = x.
Hypothesis mul_one_r : forall x, mul x one = x.
Hypothesis den_comm : forall n1 L1 n2 L2,
  (forall q, In q L1 -> q < m) -> (forall q, In q L2 -> q < m) -> (forall q, In q L1 -> ~ In q L2) ->
  mul (den n1 L1) (den n2 L2) = mul (den n2 L2) (den n1 L1).
Hypothesis sw_nat : forall a b n L, a < m -> b < m -> (forall q, In q L -> q < m) ->
  mul (sw a b) (den n L) = mul (den n (map (tr a b) L)) (sw a b).

Lemma prodO_relabel P o :
  prodO M mul one den sw (map (relabel P) o) =
  prodO M mul one (fun n L => den n (compose P L)) (fun a b => sw (nth a P 0) (nth b P 0)) o.
Proof. induction o as [|[n L|a b] t IH]; simpl; auto; rewrite IH; reflexivity. Qed.

Lemma prodS_relabel P es :
  prodS M mul one sw (map (relabel_swap P) es) =
  prodS M mul one (fun a b => sw (nth a P 0) (nth b P 0)) es.
Proof. induction es as [|e t IH]; simpl; auto. rewrite IH. reflexivity. Qed.

Lemma prodV_relabel P v : okv nq v ->
  prodV M mul one (fun n L => den n (compose P L)) (idperm nq) v = prodV M mul one den P v.
Proof. induction v as [|x t IH]; simpl; intros Hok; auto.
  rewrite IH by (intros y Hy; apply Hok; right; auto). f_equal. f_equal. f_equal.
  apply compose_id_l. apply (Hok x). left; auto. Qed.

Theorem pipeline_sem p ltr rtr o d :
  pipeline g c nq p ltr rtr = Some (o, d) ->
  prodO M mul one den sw o =
    mul (prodV M mul one den (imap d) (prog c)) (prodS M mul one sw (swaps_of o))
  /\ fmap d = map (tr_all (swaps_of o)) (imap d).
Proof. intros H.
  destruct (pipeline_mappings g c nq Hwfc Hnq p ltr rtr o d H)
    as (P0 & piL & piR & cgR & s & HlP0 & HwL & HwR & Hinj & HlP1 & _ & _ & Hrep & HF0 & HpiR & Ho & Him & Hfm & _ & _ & _).
  cbv zeta in *. set (P1 := compose P0 piL) in *. destruct Hinj as [HndP Hrange]. fold m in Hrange.
  assert (HP1lt : forall x, x < nq -> nth x P1 0 < m).
  { intros x Hx. apply Hrange. apply nth_In. lia. }
  assert (Hclt : forall L, (forall q, In q L -> q < nq) -> forall q, In q (compose P1 L) -> q < m).
  { intros L HL q Hq. unfold compose in Hq. apply in_map_iff in Hq as (y & <- & Hy). auto. }
  pose proof (pi_is_swaps cgR c nq (idperm nq) Hwfc (wfperm_idperm nq) rtr s Hrep) as (_ & _ & Hpis).
  assert (Hsw_range : forall e, In e (swaps_of (out s)) -> fst e < nq /\ snd e < nq).
  { intros e He. unfold swaps_of in He. apply in_flat_map in He as ([n L|a b] & Hx & Hin); simpl in Hin; [tauto|].
    destruct Hin as [<-|[]]. simpl.
    pose proof (coupled cgR c nq (idperm nq) Hwfc (wfperm_idperm nq) rtr s Hrep _ Hx) as Hc. simpl in Hc. tauto. }
  split.
  - rewrite Ho, prodO_relabel, swaps_of_relabel, prodS_relabel, Him.
    rewrite <- (prodV_relabel P1 (prog c)) by (apply okv_prog; auto).
    apply (route_sem cgR c nq (idperm nq) Hwfc (wfperm_idperm nq) rtr s Hrep HF0 M mul one
             (fun n L => den n (compose P1 L)) (fun a b => sw (nth a P1 0) (nth b P1 0))); auto.
    + intros n1 L1 n2 L2 H1 H2 Hd. apply den_comm; [apply Hclt; auto|apply Hclt; auto|].
      intros q Ha Hb. unfold compose in Ha, Hb.
      apply in_map_iff in Ha as (x & <- & Hx). apply in_map_iff in Hb as (y & E & Hy).
      assert (y = x) by (apply (nth_inj_NoDup P1); auto; rewrite HlP1; auto). subst y. exact (Hd x Hx Hy).
    + intros a b n L Ha Hb HL. rewrite sw_nat; [|apply HP1lt; auto|apply HP1lt; auto|apply Hclt; auto].
      f_equal. f_equal.
      unfold compose. rewrite !map_map. apply map_ext_in. intros x Hx.
      apply (tr_nth P1 a b x nq); auto.
  - rewrite Hfm, Him, <- HpiR, Hpis, Ho, swaps_of_relabel.
    unfold compose, idperm. rewrite map_map.
    rewrite <- (compose_id_r P1) at 2. unfold compose, idperm. rewrite HlP1, map_map.
    apply map_ext_in. intros x Hx. apply in_seq in Hx. symmetry.
    apply (tr_all_relabel P1 nq); auto. lia. Qed.

End PipelineSem.
