(* map/PamSem.v - the semantic clause for the
   permutation-aware forward pass: with the contract of the pre-synthesised triples taken as
   the meaning of a block (PamThm.blk) and naturality of SWAP and of wire permutations, the
   PAM output is the input placed through the initial pi, followed by the left-over wire
   permutations. *)
From Coq Require Import List Arith Bool PeanoNat Lia Permutation Sorted.
Import ListNotations.
From BQ Require Import lib.Perm lib.PermThm lib.Trace map.Graph map.Sabre map.SabreDag map.SabreThm map.SabreSem
  map.Placement map.PlacementThm map.Pam map.PamThm.

(* ---- the wire map fmove L r : L[j] |-> L[r[j]] --------------------------------------------- *)
Lemma fmove_nth L r j : NoDup L -> j < length L -> fmove L r (nth j L 0) = nth (nth j r 0) L 0.
Proof. intros Hnd Hj. unfold fmove. rewrite index_of_nth; auto. Qed.

Lemma fmove_out L r x : ~ In x L -> fmove L r x = x.
Proof. intros H. unfold fmove. apply index_of_None in H. rewrite H. reflexivity. Qed.

Lemma fmove_In L r x : NoDup L -> wfperm (length L) r -> In x L -> In (fmove L r x) L.
Proof. intros Hnd (_ & Hl & Hr) Hx. destruct (In_nth L x 0 Hx) as (j & Hj & <-).
  rewrite fmove_nth; auto. apply nth_In. apply Hr. apply nth_In. lia. Qed.

Lemma inverse_nth n r j : wfperm n r -> j < n -> nth (nth j r 0) (inverse r) 0 = j.
Proof. intros Hw Hj. pose proof (compose_inverse_l n r Hw) as E.
  assert (H : nth j (compose (inverse r) r) 0 = nth j (idperm n) 0) by (rewrite E; reflexivity).
  destruct Hw as (_ & Hl & _). rewrite compose_nth in H by lia. unfold idperm in H. rewrite seq_nth in H; auto. Qed.

Lemma nth_inverse n r j : wfperm n r -> j < n -> nth (nth j (inverse r) 0) r 0 = j.
Proof. intros Hw Hj. pose proof (compose_inverse_r n r Hw) as E.
  assert (H : nth j (compose r (inverse r)) 0 = nth j (idperm n) 0) by (rewrite E; reflexivity).
  rewrite compose_nth in H.
  - unfold idperm in H. rewrite seq_nth in H; auto.
  - rewrite inverse_length. destruct Hw as (_ & Hl & _). lia. Qed.

Lemma fmove_inv L r x : NoDup L -> wfperm (length L) r -> fmove L (inverse r) (fmove L r x) = x.
Proof. intros Hnd Hw. destruct (in_dec Nat.eq_dec x L) as [Hx|Hx].
  - destruct (In_nth L x 0 Hx) as (j & Hj & <-). rewrite fmove_nth; auto.
    assert (Hrj : nth j r 0 < length L) by (destruct Hw as (_ & Hl & Hr); apply Hr, nth_In; lia).
    rewrite fmove_nth; auto. rewrite (inverse_nth (length L)) by (auto; lia). reflexivity.
  - rewrite (fmove_out L r x Hx). apply fmove_out; auto. Qed.

Lemma fmove_lt nq L r x : NoDup L -> wfperm (length L) r -> (forall q, In q L -> q < nq) -> x < nq -> fmove L r x < nq.
Proof. intros Hnd Hw HL Hx. destruct (in_dec Nat.eq_dec x L) as [Hin|Hin].
  - apply HL. apply fmove_In; auto.
  - rewrite fmove_out; auto. Qed.

Lemma fmove_inj L r x y : NoDup L -> wfperm (length L) r -> fmove L r x = fmove L r y -> x = y.
Proof. intros Hnd Hw E. rewrite <- (fmove_inv L r x Hnd Hw), <- (fmove_inv L r y Hnd Hw). rewrite E. reflexivity. Qed.

Lemma wfperm_map_fmove nq L r sigma : NoDup L -> wfperm (length L) r -> (forall q, In q L -> q < nq) ->
  wfperm nq sigma -> wfperm nq (map (fmove L r) sigma).
Proof. intros Hnd Hw HL (Snd & Sl & Sr). split; [|split].
  - apply NoDup_map_inj; auto. intros x y. apply fmove_inj; auto.
  - rewrite map_length; auto.
  - intros x Hx. apply in_map_iff in Hx as (y & <- & Hy). apply (fmove_lt nq); auto. Qed.

Lemma NoDup_map_inj_in {A B} (f : A -> B) l :
  (forall x y, In x l -> In y l -> f x = f y -> x = y) -> NoDup l -> NoDup (map f l).
Proof. intros Hf Hnd. induction Hnd as [|x l Hx Hl IH]; simpl; constructor.
  - rewrite in_map_iff. intros (y & E & Hy). apply Hx. rewrite (Hf x y); auto; [left; auto|right; auto].
  - apply IH. intros a b Ha Hb. apply Hf; right; auto. Qed.

Lemma NoDup_compose_idx W r : NoDup W -> NoDup r -> (forall x, In x r -> x < length W) -> NoDup (compose W r).
Proof. intros HW Hr Hlt. unfold compose. apply NoDup_map_inj_in; auto.
  intros x y Hx Hy E. apply (nth_inj_NoDup W); auto. Qed.

Lemma In_compose_idx W r x : wfperm (length W) r -> (In x (compose W r) <-> In x W).
Proof. intros Hw. pose proof Hw as (Rnd & Rl & Rr). unfold compose. rewrite in_map_iff. split.
  - intros (j & <- & Hj). apply nth_In. auto.
  - intros Hx. destruct (In_nth W x 0 Hx) as (i & Hi & <-).
    exists i. split; [reflexivity|]. apply (wfperm_In (length W)); auto. Qed.

(* the same wire map described from the moved location: if L = W o r then fmove L r = fmove W r *)
Lemma fmove_shift W r x : NoDup W -> wfperm (length W) r -> fmove (compose W r) r x = fmove W r x.
Proof. intros Hnd Hw. pose proof Hw as (Rnd & Rl & Rr).
  assert (HL : NoDup (compose W r)) by (apply NoDup_compose_idx; auto).
  assert (HlL : length (compose W r) = length W) by (rewrite compose_length; auto).
  destruct (in_dec Nat.eq_dec x W) as [Hx|Hx].
  - destruct (In_nth W x 0 Hx) as (i & Hi & <-).
    set (j := nth i (inverse r) 0).
    assert (Hj : j < length W).
    { apply (wfperm_inverse _ _ Hw). apply nth_In. rewrite inverse_length. lia. }
    assert (Erj : nth j r 0 = i) by (apply (nth_inverse (length W)); auto).
    assert (E : nth i W 0 = nth j (compose W r) 0) by (rewrite compose_nth by lia; rewrite Erj; reflexivity).
    rewrite E at 1. rewrite fmove_nth by (auto; lia). rewrite Erj.
    rewrite compose_nth by lia. rewrite fmove_nth; auto.
  - rewrite (fmove_out W r x Hx). apply fmove_out. rewrite In_compose_idx; auto. Qed.

(* ---- _apply_perm on a sorted support --------------------------------------------------------- *)
Lemma sorted_le_nodup_lt (l : list nat) : Sorted le l -> NoDup l -> StronglySorted lt l.
Proof. induction l as [|x t IH]; intros Hle Hnd; [constructor|].
  inversion Hnd as [|? ? Hx Ht]; subst.
  assert (Hall : Forall (le x) t).
  { apply Sorted_StronglySorted in Hle; [|intros a b c; lia]. inversion Hle; auto. }
  inversion Hle as [|? ? Hs' _]; subst. constructor; auto.
  rewrite Forall_forall in *. intros y Hy. specialize (Hall y Hy).
  destruct (Nat.eq_dec x y); [subst; tauto|lia]. Qed.

Lemma sorted_lt_nodup (l : list nat) : StronglySorted lt l -> NoDup l.
Proof. induction 1 as [|a t _ IH Hf]; constructor; auto.
  rewrite Forall_forall in Hf. intros Hin. specialize (Hf a Hin). lia. Qed.

Lemma sort_of_perm_sorted l l' : StronglySorted lt l' -> Permutation l l' -> Perm.sort l = l'.
Proof. intros Hs Hp. apply sorted_same_eq; auto.
  - apply sorted_le_nodup_lt; [apply sort_sorted|].
    eapply Permutation_NoDup; [apply Permutation_sym; eapply perm_trans; [apply sort_perm|apply Hp]|].
    apply sorted_lt_nodup; auto.
  - intros x. split; intros Hx.
    + eapply Permutation_in; [apply Hp|]. eapply Permutation_in; [apply sort_perm|auto].
    + eapply Permutation_in; [apply Permutation_sym, sort_perm|].
      eapply Permutation_in; [apply Permutation_sym, Hp|auto]. Qed.

Lemma compose_perm_of W r : wfperm (length W) r -> Permutation (compose W r) W.
Proof. intros Hw. pose proof Hw as (Rnd & Rl & Rr).
  assert (Hp : Permutation r (seq 0 (length W))).
  { apply NoDup_Permutation; auto; [apply seq_NoDup|]. intros x. rewrite in_seq.
    split; [intros Hx; specialize (Rr x Hx); lia|intros Hx; apply (wfperm_In (length W)); auto; lia]. }
  unfold compose. eapply perm_trans; [apply Permutation_map, Hp|].
  assert (E : map (fun x => nth x W 0) (seq 0 (length W)) = W).
  { apply nth_ext with (d := 0) (d' := 0); [rewrite map_length, seq_length; auto|].
    intros i Hi. rewrite map_length, seq_length in Hi.
    rewrite (nth_map_lt (fun x => nth x W 0) _ _ _ 0) by (rewrite seq_length; auto). rewrite seq_nth; auto. }
  rewrite E. apply Permutation_refl. Qed.

(* pi'[qudits[i]] = pi[qudits[r[i]]], everything else unchanged; as a map on VALUES this is
   fmove W r with W = [pi[q] for q in qudits] *)
Theorem apply_perm_sorted nq qudits r p :
  wfperm nq p -> StronglySorted lt qudits -> (forall q, In q qudits -> q < nq) -> wfperm (length qudits) r ->
  apply_perm (compose qudits r) p = Some (map (fmove (compose p qudits) r) p).
Proof. intros Hw Hs Hq Hr. pose proof Hw as (Pnd & Pl & Pr). pose proof Hr as (Rnd & Rl & Rr).
  assert (Qnd : NoDup qudits) by (apply sorted_lt_nodup; auto).
  set (perm := compose qudits r). set (W := compose p qudits).
  assert (Hpnd : NoDup perm) by (apply NoDup_compose_idx; auto).
  assert (Hpin : forall x, In x perm <-> In x qudits) by (intros x; apply In_compose_idx; auto).
  assert (Hplt : forall x, In x perm -> x < nq) by (intros x Hx; apply Hq, Hpin; auto).
  unfold apply_perm.
  assert (Hall : forallb (fun x => x <? length p) perm = true).
  { apply forallb_forall. intros x Hx. apply Nat.ltb_lt. rewrite Pl. auto. }
  rewrite Hall. f_equal.
  assert (Hsort : Perm.sort perm = qudits) by (apply sort_of_perm_sorted; auto; apply compose_perm_of; auto).
  rewrite Hsort.
  set (vals := map (fun x => nth x p 0) perm).
  assert (Hvl : length qudits = length vals).
  { unfold vals, perm. rewrite map_length, compose_length. auto. }
  set (f := fun q => match assoc_last q (combine qudits vals) None with Some v => v | None => 0 end).
  assert (Hf : forall j, j < length qudits ->
            assoc_last (nth j qudits 0) (combine qudits vals) None = Some (nth (nth (nth j r 0) qudits 0) p 0)).
  { intros j Hj. rewrite assoc_last_combine_NoDup; auto. f_equal. unfold vals.
    rewrite (nth_map_lt (fun x => nth x p 0) perm j 0 0) by (unfold perm; rewrite compose_length; lia).
    unfold perm. rewrite compose_nth by lia. reflexivity. }
  rewrite fold_left_ext_In with (g := fun acc q => Perm.set_nth q (f q) acc).
  2:{ intros acc q Hx. apply Hpin in Hx. destruct (In_nth qudits q 0 Hx) as (j & Hj & <-).
      unfold f. rewrite Hf; auto. }
  apply nth_ext with (d := 0) (d' := 0).
  - rewrite fold_set_nth_length, map_length. reflexivity.
  - intros i Hi. rewrite fold_set_nth_length in Hi.
    rewrite fold_set_nth_nth by (intros q Hx; rewrite Pl; auto).
    rewrite (nth_map_lt (fmove W r) p i 0 0) by auto.
    assert (HWnd : NoDup W).
    { unfold W. apply NoDup_compose_idx; auto. intros x Hx. rewrite Pl. auto. }
    assert (HWl : length W = length qudits) by (unfold W; apply compose_length).
    destruct (memb i perm) eqn:M.
    + apply memb_In in M. apply Hpin in M. destruct (In_nth qudits i 0 M) as (j & Hj & <-).
      unfold f. rewrite Hf by auto.
      assert (E : nth (nth j qudits 0) p 0 = nth j W 0) by (unfold W; rewrite compose_nth; auto).
      rewrite E, fmove_nth by (auto; lia).
      unfold W. rewrite compose_nth; auto. apply Rr. apply nth_In. lia.
    + apply memb_false in M. rewrite fmove_out; auto.
      intros Hin. apply M. apply Hpin. unfold W, compose in Hin. apply in_map_iff in Hin as (q & E & Hq').
      assert (Eq : q = i); [|rewrite <- Eq; exact Hq'].
      apply (nth_inj_NoDup p); auto; rewrite Pl; auto. Qed.

(* ---- what one chosen triple does to pi ----------------------------------------------------------- *)
Theorem perm_exec_sorted nq cg p qudits pre post es L p2 :
  wfperm nq p -> StronglySorted lt qudits -> (forall q, In q qudits -> q < nq) ->
  perm_exec cg p qudits pre post = Some (es, L, p2) ->
  let p1 := map (fmove L (inverse pre)) p in
  wfperm (length L) pre /\ wfperm (length L) post /\ NoDup L /\ (forall q, In q L -> q < nq) /\
  wfperm nq p1 /\ L = compose p1 qudits /\ p2 = map (fmove L post) p1.
Proof. intros Hw Hs Hq. unfold perm_exec.
  destruct (wfpermb (length qudits) pre && wfpermb (length qudits) post) eqn:Eb; simpl; [|discriminate].
  apply andb_true_iff in Eb as [E1 E2]. apply wfpermb_wfperm in E1, E2.
  destruct (phys p (compose qudits (inverse pre))); [|discriminate].
  destruct (Graph.get_subgraph cg l None); [|discriminate].
  pose proof (wfperm_inverse _ _ E1) as Ei.
  rewrite (apply_perm_sorted nq qudits (inverse pre) p Hw Hs Hq Ei).
  set (W := compose p qudits). set (p1' := map (fmove W (inverse pre)) p).
  pose proof Hw as (Pnd & Pl & Pr).
  assert (Qnd : NoDup qudits) by (apply sorted_lt_nodup; auto).
  assert (HWnd : NoDup W).
  { unfold W. apply NoDup_compose_idx; auto. intros x Hx. rewrite Pl. auto. }
  assert (HWl : length W = length qudits) by (unfold W; apply compose_length).
  assert (HWlt : forall q, In q W -> q < nq).
  { intros q Hx. unfold W, compose in Hx. apply in_map_iff in Hx as (y & <- & Hy). apply Pr, nth_In. rewrite Pl. auto. }
  assert (Ei' : wfperm (length W) (inverse pre)) by (rewrite HWl; auto).
  assert (Hw1 : wfperm nq p1') by (apply wfperm_map_fmove; auto).
  unfold phys. destruct (forallb (fun q => q <? length p1') qudits) eqn:Ef.
  2:{ exfalso. apply Bool.not_true_iff_false in Ef. apply Ef. apply forallb_forall. intros q Hx.
      apply Nat.ltb_lt. destruct Hw1 as (_ & Hl1 & _). rewrite Hl1. auto. }
  rewrite (apply_perm_sorted nq qudits post p1' Hw1 Hs Hq E2).
  intros H; inversion H; subst es L p2; clear H. cbv zeta.
  (* the location the block is appended on is W o inverse(pre) *)
  assert (EL : compose p1' qudits = compose W (inverse pre)).
  { unfold p1'. rewrite compose_map by (intros x Hx; rewrite Pl; auto). fold W.
    apply nth_ext with (d := 0) (d' := 0); [rewrite map_length, compose_length, inverse_length; destruct E1 as (_ & El & _); lia|].
    intros i Hi. rewrite map_length in Hi.
    rewrite (nth_map_lt (fmove W (inverse pre)) W i 0 0) by auto. rewrite fmove_nth by auto.
    rewrite compose_nth; auto. rewrite inverse_length. destruct E1 as (_ & El & _). lia. }
  assert (Emap : map (fmove (compose p1' qudits) (inverse pre)) p = p1').
  { unfold p1' at 2. apply map_ext. intros x. rewrite EL. apply fmove_shift; auto. }
  assert (HlL : length (compose p1' qudits) = length qudits) by apply compose_length.
  rewrite HlL. split; [exact E1|]. split; [exact E2|].
  split; [rewrite EL; apply NoDup_compose_idx; auto; apply Ei'|].
  split.
  { intros q Hx. rewrite EL in Hx. apply HWlt. apply (In_compose_idx W (inverse pre)); auto. }
  rewrite Emap. split; [exact Hw1|]. split; reflexivity. Qed.

(* ---- logical view of a PAM output ------------------------------------------------------------------ *)
Fixpoint pwalk (sigma : list nat) (o : list pop) : list nat :=
  match o with
  | [] => sigma
  | PG _ L pre post _ :: t => pwalk (map (fmove L post) (map (fmove L (inverse pre)) sigma)) t
  | PB _ _ :: t => pwalk sigma t
  | PS a b :: t => pwalk (map (tr a b) sigma) t
  end.

Fixpoint plview (sigma : list nat) (o : list pop) : list (nat * list nat) :=
  match o with
  | [] => []
  | PG n L pre post _ :: t =>
    let s1 := map (fmove L (inverse pre)) sigma in
    (n, preimage s1 L) :: plview (map (fmove L post) s1) t
  | PB n L :: t => (n, L) :: plview sigma t
  | PS a b :: t => plview (map (tr a b) sigma) t
  end.

Lemma pwalk_app s o1 o2 : pwalk s (o1 ++ o2) = pwalk (pwalk s o1) o2.
Proof. revert s. induction o1 as [|[n L pre post es|n L|a b] t IH]; simpl; intros s; auto. Qed.

Lemma plview_app s o1 o2 : plview s (o1 ++ o2) = plview s o1 ++ plview (pwalk s o1) o2.
Proof. revert s. induction o1 as [|[n L pre post es|n L|a b] t IH]; simpl; intros s; auto; rewrite IH; reflexivity. Qed.

Lemma pwalk_swaps es : forall s, pwalk s (map psw es) = map (tr_all es) s.
Proof. induction es as [|e t IH]; simpl; intros s.
  - unfold tr_all. simpl. symmetry. apply map_id.
  - rewrite IH, map_map. apply map_ext. intros x. reflexivity. Qed.

Lemma plview_swaps es : forall s, plview s (map psw es) = [].
Proof. induction es as [|e t IH]; simpl; auto. Qed.

(* ---- the semantic run invariant ------------------------------------------------------------------------ *)
Section PamSemRun.
Variable cg : adj.
Variable c : circ.
Variable bars : list bool.
Variable tbl : ptable.
Variable nq : nat.
Variable pi0 : list nat.
Hypothesis Hwfc : wf_circ c nq.
Hypothesis Hpi0 : wfperm nq pi0.
(* block locations are ascending (CircuitRegion / partitioner blocks; pam.py's _apply_perm
   pairs sorted(perm) with perm, so this is what makes the two descriptions agree) *)
Hypothesis Hsorted : forall n, n < length c -> nth n bars false = false -> StronglySorted lt (gloc (opat c n)).

Definition okp (x : pop) : Prop :=
  match x with
  | PG _ L pre post _ => NoDup L /\ (forall q, In q L -> q < nq) /\ wfperm (length L) pre /\ wfperm (length L) post
  | PB n L => nth n bars false = true /\ (forall q, In q L -> q < nq)
  | PS a b => a < nq /\ b < nq
  end.

Record PSInv (ex : list nat) (s : pstate) : Prop := {
  ps_inv : PInv cg c bars tbl nq ex s;
  ps_tl : tl_sorted c ex;
  ps_walk : pwalk pi0 (pout s) = ppi s;
  ps_view : plview pi0 (pout s) = prog_of c ex;
  ps_ok : forall x, In x (pout s) -> okp x }.

Lemma PSInv_init : PSInv [] (pinit c nq pi0).
Proof. constructor.
  - apply PInv_init; auto.
  - intros q. simpl. constructor.
  - reflexivity.
  - reflexivity.
  - intros x []. Qed.

Theorem PSInv_step ex s t s' :
  PSInv ex s -> do_pstep cg c bars tbl true s t = Some s' -> PSInv (ex ++ pexecuted [t]) s'.
Proof. intros [HI Htl Hwalk Hview Hok] H.
  pose proof (PInv_step cg c bars tbl nq Hwfc ex s t s' HI H) as HI'.
  destruct HI as [HF Hpi (base & pib & Hout & Hwpib & Hlead) Hids Hadm].
  destruct t as [n pre post|n|e| |e]; simpl in H; simpl pexecuted in *.
  - destruct (negb (memb n (pF s)) || nth n bars false) eqn:G; [discriminate|].
    apply orb_false_iff in G as [G Gb]. apply negb_false_iff in G. apply memb_In in G.
    destruct (can_exe cg (ppi s) (opat c n)) as [[|]|] eqn:Hce; try discriminate.
    destruct (cget n (pcnt s)); [|discriminate].
    destruct (perm_exec cg (ppi s) (gloc (opat c n)) pre post) as [[[es L] p2]|] eqn:E; [|discriminate].
    destruct (admissible tbl n es pre post) eqn:Ea; [|discriminate].
    inversion H; subst s'; clear H.
    destruct (proj1 (fi_F c _ _ _ HF n) G) as (HnN & Hnex & _).
    destruct (wf_circ_opat c nq n Hwfc HnN) as (_ & Qnd & Qlt).
    destruct (perm_exec_sorted nq cg (ppi s) (gloc (opat c n)) pre post es L p2 Hpi (Hsorted n HnN Gb) Qlt E)
      as (W1 & W2 & HLnd & HLlt & Hw1 & HL & Hp2). cbv zeta in *.
    constructor; simpl.
    + exact HI'.
    + apply tl_sorted_snoc; auto. apply (fi_dc c _ _ _ HF).
    + rewrite pwalk_app, Hwalk. simpl. symmetry. exact Hp2.
    + rewrite plview_app, Hview, Hwalk. simpl. unfold prog_of. rewrite map_app. simpl. f_equal. f_equal. f_equal.
      rewrite HL at 2. apply preimage_compose; [apply Hw1|].
      intros x Hx. destruct Hw1 as (_ & Hl1 & _). rewrite Hl1. auto.
    + intros x Hx. apply in_app_iff in Hx as [Hx|[<-|[]]]; auto. simpl. auto.
  - destruct (negb (memb n (pF s)) || negb (nth n bars false)) eqn:G; [discriminate|].
    apply orb_false_iff in G as [G Gb]. apply negb_false_iff in G. apply memb_In in G.
    apply negb_false_iff in Gb.
    destruct (cget n (pcnt s)); [|discriminate].
    inversion H; subst s'; clear H.
    destruct (proj1 (fi_F c _ _ _ HF n) G) as (HnN & Hnex & _).
    destruct (wf_circ_opat c nq n Hwfc HnN) as (_ & Qnd & Qlt).
    constructor; simpl.
    + exact HI'.
    + apply tl_sorted_snoc; auto. apply (fi_dc c _ _ _ HF).
    + rewrite pwalk_app, Hwalk. reflexivity.
    + rewrite plview_app, Hview. simpl. unfold prog_of. rewrite map_app. reflexivity.
    + intros x Hx. apply in_app_iff in Hx as [Hx|[<-|[]]]; auto. simpl. auto.
  - destruct (is_edge cg e) eqn:He; simpl in H; [|discriminate].
    destruct (apply_swap e (ppi s)) as [p|] eqn:E; [|discriminate].
    inversion H; subst s'; clear H. rewrite app_nil_r in *.
    destruct (apply_swap_inv nq e (ppi s) p Hpi E) as (Ha & Hb & Hp & Hwp).
    constructor; simpl; auto.
    + rewrite pwalk_app. simpl. rewrite Hwalk. symmetry. exact Hp.
    + rewrite plview_app. simpl. rewrite app_nil_r. exact Hview.
    + intros x Hx. apply in_app_iff in Hx as [Hx|[<-|[]]]; auto. simpl. auto.
  - rewrite Hout in H. rewrite (pundo_spec nq (plead s) base pib (ppi s) Hwpib Hlead) in H.
    inversion H; subst s'; clear H. rewrite app_nil_r in *.
    assert (Ewb : pwalk pi0 base = pib).
    { pose proof Hwalk as Hw2. rewrite Hout, pwalk_app, pwalk_swaps in Hw2.
      destruct (apply_swaps_wf nq (plead s) pib (ppi s) Hwpib Hlead) as (_ & Eq & _).
      rewrite Eq in Hw2.
      (* map (tr_all lead) is injective on lists *)
      assert (Hinj : forall l1 l2 : list nat, map (tr_all (plead s)) l1 = map (tr_all (plead s)) l2 -> l1 = l2).
      { assert (Hi : forall x y, tr_all (plead s) x = tr_all (plead s) y -> x = y).
        { generalize (plead s). induction l as [|e0 l IH]; intros x y Hxy; auto.
          rewrite !tr_all_cons in Hxy. apply IH in Hxy. eapply tr_inj; eauto. }
        induction l1 as [|a l1 IH]; intros [|b l2] Hm; simpl in Hm; try discriminate; auto.
        inversion Hm. f_equal; auto. }
      apply Hinj. exact Hw2. }
    constructor; simpl; auto.
    + rewrite <- Hview, Hout, plview_app, plview_swaps, app_nil_r. reflexivity.
    + intros x Hx. apply Hok. rewrite Hout. apply in_app_iff. auto.
  - destruct (is_edge cg e) eqn:He; simpl in H; [|discriminate].
    destruct (plead s) eqn:Hl; [|discriminate].
    destruct (apply_swap e (ppi s)) as [p|] eqn:E; [|discriminate].
    inversion H; subst s'; clear H. rewrite app_nil_r in *.
    destruct (apply_swap_inv nq e (ppi s) p Hpi E) as (Ha & Hb & Hp & Hwp).
    constructor; simpl; auto.
    + rewrite pwalk_app. simpl. rewrite Hwalk. symmetry. exact Hp.
    + rewrite plview_app. simpl. rewrite app_nil_r. exact Hview.
    + intros x Hx. apply in_app_iff in Hx as [Hx|[<-|[]]]; auto. simpl. auto. Qed.

Theorem PSInv_replay : forall tr ex s s',
  PSInv ex s -> preplay cg c bars tbl true s tr = Some s' -> PSInv (ex ++ pexecuted tr) s'.
Proof. induction tr as [|t r IH]; intros ex s s' HI H.
  - simpl in H. inversion H; subst. simpl. rewrite app_nil_r. exact HI.
  - cbn [preplay] in H. destruct (do_pstep cg c bars tbl true s t) as [s1|] eqn:E; [|discriminate].
    pose proof (PSInv_step ex s t s1 HI E) as HI1. specialize (IH _ _ _ HI1 H).
    change (t :: r) with ([t] ++ r). rewrite pexecuted_app, app_assoc. exact IH. Qed.

(* at termination the logical view of the PAM output is the input up to commuting
   independent operations *)
Theorem pam_equiv tr s :
  preplay cg c bars tbl true (pinit c nq pi0) tr = Some s -> pF s = [] ->
  equiv _ (@snd nat (list nat)) (prog c) (plview pi0 (pout s)) /\ pwalk pi0 (pout s) = ppi s /\
  (forall x, In x (pout s) -> okp x).
Proof. intros H HF0. pose proof (PSInv_replay tr [] _ _ PSInv_init H) as [HI Htl Hwalk Hview Hok]. simpl in *.
  destruct HI as [HF _ _ _ _]. rewrite HF0 in HF.
  assert (Hperm : Permutation (pexecuted tr) (seq 0 (length c))).
  { apply NoDup_Permutation; [apply (fi_nodup c _ _ _ HF)|apply seq_NoDup|].
    intros x. split.
    - intros Hx. apply in_seq. pose proof (fi_lt c _ _ _ HF x Hx). lia.
    - intros Hx. apply in_seq in Hx. apply (FInv_done c _ _ HF). lia. }
  split; [|split; auto].
  apply proj_eq_equiv.
  - apply (prog_nonempty c nq Hwfc).
  - intros q. rewrite Hview, !(proj_prog_of c). unfold prog.
    change (map (fun n => (n, gloc (opat c n))) (seq 0 (length c))) with (prog_of c (seq 0 (length c))).
    rewrite (proj_prog_of c). f_equal.
    rewrite (timeline_restrict c (pexecuted tr) (fi_nodup c _ _ _ HF) (fi_lt c _ _ _ HF) Htl q).
    apply filter_ext_in. intros n Hn. assert (memb n (pexecuted tr) = true) as ->; [|symmetry; apply andb_true_r].
    apply memb_In. eapply Permutation_in; [apply Permutation_sym, Hperm|auto].
  - rewrite Hview. unfold prog, prog_of. rewrite !map_length. symmetry. apply Permutation_length, Hperm. Qed.

End PamSemRun.

(* ---- factorisation of the PAM output -------------------------------------------------------------------- *)
Section PamFactor.
Variable nq : nat.
Variable bars : list bool.
Variable M : Type.
Variable mul : M -> M -> M.
Variable one : M.
Variable den : nat -> list nat -> M.
Variable sw : nat -> nat -> M.
Variable pmove : list nat -> list nat -> M.
Hypothesis mul_assoc : forall x y z, mul x (mul y z) = mul (mul x y) z.
Hypothesis mul_one_l : forall x, mul one x = x.
Hypothesis mul_one_r : forall x, mul x one = x.
Hypothesis sw_nat : forall a b n L, a < nq -> b < nq -> (forall q, In q L -> q < nq) ->
  mul (sw a b) (den n L) = mul (den n (map (tr a b) L)) (sw a b).
Hypothesis pm_nat : forall L r n L', NoDup L -> (forall q, In q L -> q < nq) -> wfperm (length L) r ->
  (forall q, In q L' -> q < nq) ->
  mul (pmove L r) (den n L') = mul (den n (map (fmove L (inverse r)) L')) (pmove L r).
Hypothesis bar_one : forall n, nth n bars false = true -> forall L, den n L = one.

Local Notation PV := (prodV M mul one den).
Local Notation PP := (prodP M mul one den sw pmove).
Local Notation PT := (ptail M mul one sw pmove).

Lemma push_r a b b' z : mul a b = mul b' a -> mul a (mul b z) = mul b' (mul a z).
Proof. intros H. rewrite mul_assoc, H, <- mul_assoc. reflexivity. Qed.

Lemma prodV_push_pm L r sigma v : NoDup L -> (forall q, In q L -> q < nq) -> wfperm (length L) r ->
  wfperm nq sigma -> okv nq v ->
  mul (pmove L r) (PV (map (fmove L r) sigma) v) = mul (PV sigma v) (pmove L r).
Proof. intros Hnd HL Hr Hw. induction v as [|x t IH]; intros Hok; simpl.
  - rewrite mul_one_l, mul_one_r. reflexivity.
  - assert (Hx : forall q, In q (snd x) -> q < nq) by (apply Hok; left; auto).
    assert (Hl : length sigma = nq) by apply Hw.
    rewrite compose_map by (intros y Hy; rewrite Hl; auto).
    assert (Einv : map (fmove L (inverse r)) (map (fmove L r) (compose sigma (snd x))) = compose sigma (snd x)).
    { rewrite map_map. rewrite <- (map_id (compose sigma (snd x))) at 2.
      apply map_ext. intros y. apply fmove_inv; auto. }
    rewrite mul_assoc.
    rewrite (pm_nat L r (fst x) (map (fmove L r) (compose sigma (snd x))) Hnd HL Hr).
    2:{ intros q Hq0. apply in_map_iff in Hq0 as (y & <- & Hy). apply (fmove_lt nq); auto.
        eapply compose_lt; eauto. }
    rewrite Einv, <- mul_assoc.
    rewrite IH by (intros y Hy; apply Hok; right; auto). apply mul_assoc. Qed.

Lemma okv_plview : forall o sigma, wfperm nq sigma -> (forall x, In x o -> okp bars nq x) -> okv nq (plview sigma o).
Proof. induction o as [|[n L pre post es|n L|a b] t IH]; simpl; intros sigma Hw Hok.
  - intros x [].
  - destruct (Hok (PG n L pre post es)) as (HLnd & HLlt & Wpre & Wpost); [left; auto|].
    assert (Hw1 : wfperm nq (map (fmove L (inverse pre)) sigma)).
    { apply wfperm_map_fmove; auto. apply wfperm_inverse; auto. }
    intros x [<-|Hx].
    + simpl. intros q Hq. exact (preimage_lt nq _ L q Hw1 HLlt Hq).
    + revert x Hx. apply IH; auto. apply wfperm_map_fmove; auto.
  - destruct (Hok (PB n L)) as (_ & HLlt); [left; auto|].
    intros x [<-|Hx]; [simpl; auto|]. revert x Hx. apply IH; auto.
  - destruct (Hok (PS a b)) as [Ha Hb]; [left; auto|].
    apply IH; auto. apply wfperm_map_tr; auto. Qed.

Theorem pam_out_factor : forall o sigma, wfperm nq sigma -> (forall x, In x o -> okp bars nq x) ->
  PP o = mul (PV sigma (plview sigma o)) (PT o).
Proof. induction o as [|[n L pre post es|n L|a b] t IH]; simpl; intros sigma Hw Hok.
  - rewrite mul_one_l. reflexivity.
  - destruct (Hok (PG n L pre post es)) as (HLnd & HLlt & Wpre & Wpost); [left; auto|].
    pose proof (wfperm_inverse _ _ Wpre) as Wipre.
    set (s1 := map (fmove L (inverse pre)) sigma). set (s2 := map (fmove L post) s1).
    assert (Hw1 : wfperm nq s1) by (apply wfperm_map_fmove; auto).
    assert (Hw2 : wfperm nq s2) by (apply wfperm_map_fmove; auto).
    assert (Hokt : forall x, In x t -> okp bars nq x) by (intros x Hx; apply Hok; right; auto).
    rewrite (IH s2 Hw2 Hokt). unfold blk.
    set (V := plview s2 t). set (X := preimage s1 L).
    assert (HV : okv nq V) by (apply okv_plview; auto).
    assert (HX : forall q, In q X -> q < nq) by (intros q Hq; exact (preimage_lt nq s1 L q Hw1 HLlt Hq)).
    assert (EL : L = compose s1 X).
    { unfold X. symmetry. apply compose_preimage. intros x Hx. apply (wfperm_In nq); auto. }
    (* right-associate, then move the two wire permutations to the back *)
    rewrite <- !mul_assoc.
    rewrite (push_r (pmove L post) (PV s2 V) (PV s1 V) (PT t)).
    2:{ apply prodV_push_pm; auto. }
    rewrite (mul_assoc (den n L) (PV s1 V)).
    assert (Ecc : mul (den n L) (PV s1 V) = PV s1 ((n, X) :: V)) by (simpl; rewrite <- EL; reflexivity).
    rewrite Ecc.
    rewrite (push_r (pmove L (inverse pre)) (PV s1 ((n, X) :: V)) (PV sigma ((n, X) :: V))).
    2:{ apply prodV_push_pm; auto. intros x [<-|Hx]; [simpl; auto|apply HV; auto]. }
    simpl. rewrite <- !mul_assoc. reflexivity.
  - destruct (Hok (PB n L)) as (Hbar & HLlt); [left; auto|].
    rewrite (IH sigma Hw) by (intros x Hx; apply Hok; right; auto).
    rewrite (bar_one n Hbar). rewrite !mul_one_l. reflexivity.
  - destruct (Hok (PS a b)) as [Ha Hb]; [left; auto|].
    assert (Hw' : wfperm nq (map (tr a b) sigma)) by (apply wfperm_map_tr; auto).
    rewrite (IH _ Hw') by (intros x Hx; apply Hok; right; auto). rewrite mul_assoc.
    rewrite (prodV_push nq M mul one den sw mul_assoc mul_one_l mul_one_r sw_nat a b sigma _ Hw Ha Hb)
      by (apply okv_plview; auto; intros x Hx; apply Hok; right; auto).
    symmetry. apply mul_assoc. Qed.

End PamFactor.

(* ---- the PAM routing theorem in semantic form ------------------------------------------------------------- *)
Theorem pam_sem cg c bars tbl nq pi0 tc s :
  wf_circ c nq -> wfperm nq pi0 ->
  (forall n, n < length c -> nth n bars false = false -> StronglySorted lt (gloc (opat c n))) ->
  preplay cg c bars tbl true (pinit c nq pi0) tc = Some s -> pF s = [] ->
  forall (M : Type) (mul : M -> M -> M) (one : M) (den : nat -> list nat -> M) (sw : nat -> nat -> M)
         (pmove : list nat -> list nat -> M),
  (forall x y z, mul x (mul y z) = mul (mul x y) z) -> (forall x, mul one x = x) -> (forall x, mul x one = x) ->
  (forall n1 L1 n2 L2, (forall q, In q L1 -> q < nq) -> (forall q, In q L2 -> q < nq) ->
     (forall q, In q L1 -> ~ In q L2) -> mul (den n1 L1) (den n2 L2) = mul (den n2 L2) (den n1 L1)) ->
  (forall a b n L, a < nq -> b < nq -> (forall q, In q L -> q < nq) ->
     mul (sw a b) (den n L) = mul (den n (map (tr a b) L)) (sw a b)) ->
  (forall L r n L', NoDup L -> (forall q, In q L -> q < nq) -> wfperm (length L) r -> (forall q, In q L' -> q < nq) ->
     mul (pmove L r) (den n L') = mul (den n (map (fmove L (inverse r)) L')) (pmove L r)) ->
  (forall n, nth n bars false = true -> forall L, den n L = one) ->
  prodP M mul one den sw pmove (pout s) =
  mul (prodV M mul one den pi0 (prog c)) (ptail M mul one sw pmove (pout s)).
Proof. intros Hwfc Hpi0 Hsorted H HF0 M mul one den sw pmove A1 A2 A3 Hc Hn Hp Hb.
  destruct (pam_equiv cg c bars tbl nq pi0 Hwfc Hpi0 Hsorted tc s H HF0) as (Heq & _ & Hok).
  rewrite (pam_out_factor nq bars M mul one den sw pmove A1 A2 A3 Hn Hp Hb (pout s) pi0 Hpi0 Hok). f_equal.
  apply (prodV_equiv nq M mul one den A1 A2 A3 Hc pi0 Hpi0).
  - apply (okv_plview nq bars); auto.
  - apply okv_prog; auto.
  - apply equiv_sym. exact Heq. Qed.
