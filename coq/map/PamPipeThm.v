(* map/PamPipeThm.v - the permutation-aware pipeline (map/PamPipe.v): bookkeeping of
   placement / initial_mapping / final_mapping and the semantic clause on the machine. *)
From Coq Require Import List Arith Bool PeanoNat Lia Permutation Sorted.
Import ListNotations.
From BQ Require Import lib.Perm lib.PermThm lib.Trace map.Graph map.GraphThm map.Sabre map.SabreDag map.SabreThm
  map.SabreSem map.Placement map.PlacementThm map.Pam map.PamThm map.PamSem map.PamPipe.

(* ---- pi at any moment of a PAM run = pi0 pushed through the mapped circuit --------------- *)
Theorem pam_pi_walk cg c bars tbl nq pi0 tr s :
  wf_circ c nq -> wfperm nq pi0 ->
  (forall n, n < length c -> nth n bars false = false -> StronglySorted lt (gloc (opat c n))) ->
  preplay cg c bars tbl true (pinit c nq pi0) tr = Some s ->
  ppi s = pwalk pi0 (pout s) /\ (forall x, In x (pout s) -> okp bars nq x).
Proof. intros Hwfc Hpi0 Hs H.
  destruct (PSInv_replay cg c bars tbl nq pi0 Hwfc Hs tr [] _ _ (PSInv_init cg c bars tbl nq pi0 Hwfc Hpi0) H)
    as [_ _ Hwalk _ Hok].
  split; auto. Qed.

(* ---- wrappers on PassData -------------------------------------------------------------------- *)
Lemma pam_layout_on_spec c bars tbl nq trs d d' : wf_circ c nq -> pd_std nq d ->
  pam_layout_on c bars tbl nq trs d = Some d' ->
  exists piL, wfperm nq piL /\ placement d' = compose (placement d) piL /\ injinto (length (mach d)) (placement d)
              /\ pd_std nq d' /\ mach d' = mach d.
Proof. intros Hwfc (Hl & Hi & Hf). unfold pam_layout_on. destruct (connectivity d) as [cg|] eqn:Ec; [|discriminate].
  destruct (pam_layout_pass cg c bars tbl nq trs (placement d)) as [[p pl]|] eqn:E; [|discriminate].
  destruct (pam_layout_pass_spec _ _ _ _ _ _ _ _ _ Hwfc Hl E) as [Hw Hpl].
  intros H; inversion H; subst d'; simpl.
  exists p. split; [exact Hw|]. split; [exact Hpl|]. split; [eapply connectivity_inj; eauto|].
  split; [|reflexivity]. split; [|split; auto]. simpl. rewrite Hpl, compose_length. apply Hw. Qed.

Lemma pam_apply_placement_spec o d o' d' : pam_apply_placement o d = Some (o', d') ->
  o' = map (prelabel (placement d)) o /\ imap d' = compose (placement d) (imap d) /\
  fmap d' = compose (placement d) (fmap d) /\ placement d' = idperm (length (mach d)) /\ mach d' = mach d /\
  (forall x q, In x o -> In q (ploc x) -> q < length (placement d)).
Proof. unfold pam_apply_placement. destruct (forallb _ o) eqn:Eo; [|discriminate].
  destruct (compose_opt (placement d) (imap d)) as [im|] eqn:E1; [|discriminate].
  destruct (compose_opt (placement d) (fmap d)) as [fm|] eqn:E2; [|discriminate].
  intros H; inversion H; subst; simpl.
  apply compose_opt_Some in E1 as [-> _]. apply compose_opt_Some in E2 as [-> _].
  repeat split; auto.
  intros x q Hx Hq. rewrite forallb_forall in Eo. specialize (Eo x Hx). rewrite forallb_forall in Eo.
  apply Nat.ltb_lt. auto. Qed.

(* ---- the pipeline: bookkeeping ------------------------------------------------------------------ *)
Section PamPipeline.
Variable g : adj.
Variable c : circ.
Variable bars : list bool.
Variable tbl : ptable.
Variable nq : nat.
Hypothesis Hwfc : wf_circ c nq.
Hypothesis Hnq : 1 <= nq.

Theorem pam_pipeline_mappings p ltr rtr o d :
  pam_pipeline g c bars tbl nq p ltr rtr = Some (o, d) ->
  exists P0 piL piR cgR s,
    length P0 = nq /\ wfperm nq piL /\ wfperm nq piR /\
    let P1 := compose P0 piL in
    injinto (length g) P1 /\ length P1 = nq /\
    placement_connected g P1 = Some true /\
    connectivity (mkpd P1 (idperm nq) (idperm nq) g) = Some cgR /\
    preplay cgR c bars tbl true (pinit c nq (idperm nq)) rtr = Some s /\ pF s = [] /\ ppi s = piR /\
    o = map (prelabel P1) (pout s) /\
    imap d = P1 /\ fmap d = compose P1 piR /\ placement d = idperm (length g) /\
    injinto (length g) (imap d) /\ injinto (length g) (fmap d).
Proof. unfold pam_pipeline. unfold set_model. destruct (Nat.ltb_spec (length g) nq) as [Hsm|Hsm]; [discriminate|].
  set (d0 := mkpd (idperm nq) (imap (pd_init nq)) (fmap (pd_init nq)) g).
  assert (Hstd0 : pd_std nq d0) by (unfold pd_std, d0; simpl; repeat split; auto; apply seq_length).
  destruct (run_placer p nq d0) as [d1|] eqn:E1; [|discriminate].
  destruct (run_placer_std p nq d0 d1 Hnq Hstd0 E1) as [Hstd1 Hm1]. simpl in Hm1.
  assert (Hlay : forall d2, match ltr with Some trs => pam_layout_on c bars tbl nq trs d1 | None => Some d1 end = Some d2 ->
            exists piL, wfperm nq piL /\ placement d2 = compose (placement d1) piL /\ pd_std nq d2 /\ mach d2 = g).
  { intros d2. destruct ltr as [trs|].
    - intros H. destruct (pam_layout_on_spec c bars tbl nq trs d1 d2 Hwfc Hstd1 H) as (piL & Hw & Hp & _ & Hs & Hm).
      exists piL. split; [exact Hw|]. split; [exact Hp|]. split; [exact Hs|]. rewrite Hm. exact Hm1.
    - intros H; inversion H; subst. exists (idperm nq). split; [apply wfperm_idperm|]. split; auto.
      destruct Hstd1 as (Hl & _). rewrite <- Hl. symmetry. apply compose_id_r. }
  destruct (match ltr with Some trs => pam_layout_on c bars tbl nq trs d1 | None => Some d1 end) as [d2|] eqn:E2; [|discriminate].
  destruct (Hlay d2 eq_refl) as (piL & HwL & HP1 & (Hl2 & Hi2 & Hf2) & Hm2).
  unfold pam_routing_on. destruct (connectivity d2) as [cgR|] eqn:Ec; [|discriminate].
  destruct (pam_routing_pass cgR c bars tbl nq rtr (fmap d2)) as [[[o3 p3] fm3]|] eqn:E3; [|discriminate].
  destruct (pam_routing_pass_spec _ _ _ _ _ _ _ _ _ _ Hwfc E3) as (Hfc & HwR & -> & s & Hrep & HF0 & -> & ->).
  intros Hap. apply pam_apply_placement_spec in Hap as (Ho & Him & Hfm & Hpl & Hmm & _). simpl in *.
  assert (Hinj : injinto (length g) (placement d2)).
  { rewrite <- Hm2. eapply connectivity_inj; eauto. }
  exists (placement d1), piL, (ppi s), cgR, s.
  destruct Hstd1 as (Hl1 & _ & _).
  split; [exact Hl1|]. split; [exact HwL|]. split; [exact HwR|]. cbv zeta. rewrite <- HP1.
  split; [exact Hinj|]. split; [exact Hl2|].
  split.
  { unfold placement_connected. unfold connectivity in Ec. rewrite Hm2 in Ec.
    destruct (Graph.get_subgraph g (placement d2) None) as [es|]; [|discriminate].
    inversion Ec; subst. exact Hfc. }
  split.
  { unfold connectivity in *. simpl. rewrite Hm2 in Ec. exact Ec. }
  split; [exact Hrep|]. split; [exact HF0|]. split; [reflexivity|]. split; [exact Ho|].
  assert (Eim : imap d = placement d2).
  { rewrite Him, Hi2, <- Hl2. apply compose_id_r. }
  assert (Efm : fmap d = compose (placement d2) (ppi s)).
  { rewrite Hfm, Hf2. f_equal. destruct HwR as (_ & HlR & _). rewrite <- HlR. apply compose_id_r. }
  split; [exact Eim|]. split; [exact Efm|]. split; [rewrite Hpl, Hm2; reflexivity|].
  split; [rewrite Eim; exact Hinj|].
  rewrite Efm. apply compose_injinto; auto. rewrite Hl2. apply wfperm_injinto; auto. Qed.

End PamPipeline.

(* ---- relabelling a PAM output by an injective placement ---------------------------------------- *)
Section Relabel.
Variable P : list nat.
Variable nq : nat.
Hypothesis HndP : NoDup P.
Hypothesis HlP : length P = nq.

Lemma index_of_relabel x : x < nq -> forall L, (forall q, In q L -> q < nq) ->
  Perm.index_of (nth x P 0) (compose P L) = Perm.index_of x L.
Proof. intros Hx. induction L as [|y t IH]; intros HL; auto.
  assert (Hy : y < nq) by (apply HL; left; auto).
  change (compose P (y :: t)) with (nth y P 0 :: compose P t). cbn [Perm.index_of].
  rewrite IH by (intros q Hq; apply HL; right; auto).
  destruct (Nat.eqb_spec x y) as [->|Hne].
  - rewrite Nat.eqb_refl. reflexivity.
  - destruct (Nat.eqb_spec (nth x P 0) (nth y P 0)) as [E|E]; auto.
    exfalso. apply Hne. apply (nth_inj_NoDup P); auto; lia. Qed.

Lemma fmove_relabel L r x : (forall q, In q L -> q < nq) -> wfperm (length L) r -> x < nq ->
  fmove (compose P L) r (nth x P 0) = nth (fmove L r x) P 0.
Proof. intros HL Hr Hx. unfold fmove. rewrite index_of_relabel; auto.
  destruct (Perm.index_of x L) as [j|] eqn:E; auto.
  apply index_of_Some in E as [Hj _].
  assert (Hrj : nth j r 0 < length L).
  { destruct Hr as (_ & Hlr & Hrr). apply Hrr. apply nth_In. lia. }
  rewrite compose_nth; auto. Qed.

Lemma fmove_lt_nq L r x : (forall q, In q L -> q < nq) -> wfperm (length L) r -> x < nq -> fmove L r x < nq.
Proof. intros HL Hr Hx. unfold fmove. destruct (Perm.index_of x L) as [j|] eqn:E; auto.
  apply index_of_Some in E as [Hj _]. apply HL. apply nth_In.
  destruct Hr as (_ & Hlr & Hrr). apply Hrr. apply nth_In. lia. Qed.

Lemma map_fmove_relabel L r X : (forall q, In q L -> q < nq) -> wfperm (length L) r -> (forall q, In q X -> q < nq) ->
  map (fmove (compose P L) r) (compose P X) = compose P (map (fmove L r) X).
Proof. intros HL Hr HX. unfold compose. rewrite !map_map. apply map_ext_in. intros x Hx.
  apply fmove_relabel; auto. Qed.

Lemma map_tr_relabel a b X : a < nq -> b < nq -> (forall q, In q X -> q < nq) ->
  map (tr (nth a P 0) (nth b P 0)) (compose P X) = compose P (map (tr a b) X).
Proof. intros Ha Hb HX. unfold compose. rewrite !map_map. apply map_ext_in. intros x Hx.
  apply (tr_nth P a b x nq); auto. Qed.

Variable bars : list bool.

Lemma pwalk_relabel : forall o sigma, wfperm nq sigma -> (forall x, In x o -> okp bars nq x) ->
  pwalk (compose P sigma) (map (prelabel P) o) = compose P (pwalk sigma o).
Proof. induction o as [|[n L pre post es|n L|a b] t IH]; simpl; intros sigma Hw Hok; auto.
  - destruct (Hok (PG n L pre post es)) as (HLnd & HLlt & Wpre & Wpost); [left; auto|].
    pose proof (wfperm_inverse _ _ Wpre) as Wipre.
    assert (Hw1 : wfperm nq (map (fmove L (inverse pre)) sigma)) by (apply wfperm_map_fmove; auto).
    assert (Hw2 : wfperm nq (map (fmove L post) (map (fmove L (inverse pre)) sigma))) by (apply wfperm_map_fmove; auto).
    assert (Hs0 : forall q, In q sigma -> q < nq) by (intros q Hq; apply (wfperm_In nq sigma); auto).
    assert (Hs1 : forall q, In q (map (fmove L (inverse pre)) sigma) -> q < nq)
      by (intros q Hq; apply (wfperm_In nq _ q Hw1); auto).
    rewrite map_fmove_relabel by auto. rewrite map_fmove_relabel by auto.
    apply IH; auto; intros x Hx; apply Hok; right; auto.
  - destruct (Hok (PS a b)) as [Ha Hb]; [left; auto|].
    assert (Hs0 : forall q, In q sigma -> q < nq) by (intros q Hq; apply (wfperm_In nq sigma); auto).
    rewrite map_tr_relabel by auto.
    apply IH; [apply wfperm_map_tr; auto|]; intros x Hx; apply Hok; right; auto. Qed.

Variable M : Type.
Variable mul : M -> M -> M.
Variable one : M.
Variable den : nat -> list nat -> M.
Variable sw : nat -> nat -> M.
Variable pmove : list nat -> list nat -> M.

Lemma prodP_relabel o :
  prodP M mul one den sw pmove (map (prelabel P) o) =
  prodP M mul one (fun n L => den n (compose P L)) (fun a b => sw (nth a P 0) (nth b P 0))
        (fun L r => pmove (compose P L) r) o.
Proof. induction o as [|[n L pre post es|n L|a b] t IH]; simpl; auto; rewrite IH; reflexivity. Qed.

Lemma ptail_relabel o :
  ptail M mul one sw pmove (map (prelabel P) o) =
  ptail M mul one (fun a b => sw (nth a P 0) (nth b P 0)) (fun L r => pmove (compose P L) r) o.
Proof. induction o as [|[n L pre post es|n L|a b] t IH]; simpl; auto; rewrite IH; reflexivity. Qed.

End Relabel.

(* ---- the final circuit in semantic form, on the machine ------------------------------------------ *)
Section PamPipelineSem.
Variable g : adj.
Variable c : circ.
Variable bars : list bool.
Variable tbl : ptable.
Variable nq : nat.
Hypothesis Hwfc : wf_circ c nq.
Hypothesis Hnq : 1 <= nq.
Hypothesis Hsorted : forall n, n < length c -> nth n bars false = false -> StronglySorted lt (gloc (opat c n)).
Let m := length g.

Variable M : Type.
Variable mul : M -> M -> M.
Variable one : M.
Variable den : nat -> list nat -> M.
Variable sw : nat -> nat -> M.
Variable pmove : list nat -> list nat -> M.
Hypothesis mul_assoc : forall x y z, mul x (mul y z) = mul (mul x y) z.
Hypothesis mul_one_l : forall x, mul one x = x.
Hypothesis mul_one_r : forall x, mul x one = x.
Hypothesis den_comm : forall n1 L1 n2 L2,
  (forall q, In q L1 -> q < m) -> (forall q, In q L2 -> q < m) -> (forall q, In q L1 -> ~ In q L2) ->
  mul (den n1 L1) (den n2 L2) = mul (den n2 L2) (den n1 L1).
Hypothesis sw_nat : forall a b n L, a < m -> b < m -> (forall q, In q L -> q < m) ->
  mul (sw a b) (den n L) = mul (den n (map (tr a b) L)) (sw a b).
Hypothesis pm_nat : forall L r n L', NoDup L -> (forall q, In q L -> q < m) -> wfperm (length L) r ->
  (forall q, In q L' -> q < m) ->
  mul (pmove L r) (den n L') = mul (den n (map (fmove L (inverse r)) L')) (pmove L r).
Hypothesis bar_one : forall n, nth n bars false = true -> forall L, den n L = one.

Theorem pam_pipeline_sem p ltr rtr o d :
  pam_pipeline g c bars tbl nq p ltr rtr = Some (o, d) ->
  prodP M mul one den sw pmove o =
    mul (prodV M mul one den (imap d) (prog c)) (ptail M mul one sw pmove o)
  /\ fmap d = pwalk (imap d) o.
Proof. intros H.
  destruct (pam_pipeline_mappings g c bars tbl nq Hwfc Hnq p ltr rtr o d H)
    as (P0 & piL & piR & cgR & s & HlP0 & HwL & HwR & Hinj & HlP1 & _ & _ & Hrep & HF0 & HpiR & Ho & Him & Hfm & _ & _ & _).
  cbv zeta in *. set (P1 := compose P0 piL) in *. destruct Hinj as [HndP Hrange]. fold m in Hrange.
  assert (HP1lt : forall x, x < nq -> nth x P1 0 < m).
  { intros x Hx. apply Hrange. apply nth_In. lia. }
  assert (Hclt : forall L, (forall q, In q L -> q < nq) -> forall q, In q (compose P1 L) -> q < m).
  { intros L HL q Hq. unfold compose in Hq. apply in_map_iff in Hq as (y & <- & Hy). auto. }
  destruct (pam_pi_walk cgR c bars tbl nq (idperm nq) rtr s Hwfc (wfperm_idperm nq) Hsorted Hrep) as [Hwalk Hok].
  split.
  - rewrite Ho, (prodP_relabel P1), (ptail_relabel P1), Him.
    rewrite <- (prodV_relabel nq M mul one den P1 (prog c)) by (apply okv_prog; auto).
    apply (pam_sem cgR c bars tbl nq (idperm nq) rtr s Hwfc (wfperm_idperm nq) Hsorted Hrep HF0 M mul one
             (fun n L => den n (compose P1 L)) (fun a b => sw (nth a P1 0) (nth b P1 0))
             (fun L r => pmove (compose P1 L) r)); auto.
    + intros n1 L1 n2 L2 H1 H2 Hd. apply den_comm; [apply Hclt; auto|apply Hclt; auto|].
      intros q Ha Hb. unfold compose in Ha, Hb.
      apply in_map_iff in Ha as (x & <- & Hx). apply in_map_iff in Hb as (y & E & Hy).
      assert (y = x) by (apply (nth_inj_NoDup P1); auto; rewrite HlP1; auto). subst y. exact (Hd x Hx Hy).
    + intros a b n L Ha Hb HL. rewrite sw_nat; [|apply HP1lt; auto|apply HP1lt; auto|apply Hclt; auto].
      f_equal. f_equal. apply (map_tr_relabel P1 nq); auto.
    + intros L r n L' HLnd HL Hr HL'.
      rewrite pm_nat; [| |apply Hclt; auto|rewrite compose_length; auto|apply Hclt; auto].
      2:{ apply NoDup_compose_idx; auto. intros x Hx. rewrite HlP1. auto. }
      f_equal. f_equal. apply (map_fmove_relabel P1 nq); auto.
      apply wfperm_inverse. exact Hr.
  - rewrite Hfm, Him, <- HpiR, Hwalk, Ho.
    rewrite <- (compose_id_r P1) at 2. rewrite HlP1.
    symmetry. apply (pwalk_relabel P1 nq HndP HlP1 bars); auto. apply wfperm_idperm. Qed.

End PamPipelineSem.
