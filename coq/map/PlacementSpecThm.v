(* map/PlacementSpecThm.v - what each placement pass and ApplyPlacement guarantee on their own
   (map/Placement.v: trivial_placement, greedy_placement, static_placement, apply_placement). *)
From Coq Require Import List Arith Bool PeanoNat Lia Permutation Sorted.
Import ListNotations.
From BQ Require Import lib.Perm lib.PermThm map.Graph map.GraphThm map.GraphSubThm map.Sabre map.SabreCoupled
  map.Placement map.PlacementThm map.PamSem.

(* ---- TrivialPlacementPass ------------------------------------------------------------------- *)
Theorem trivial_placement_spec n d d' :
  trivial_placement n d = Some d' ->
  placement d' = idperm n /\ placement_connected (mach d) (idperm n) = Some true /\
  imap d' = imap d /\ fmap d' = fmap d /\ mach d' = mach d.
Proof. unfold trivial_placement. destruct (placement_connected (mach d) (idperm n)) as [[|]|] eqn:E; try discriminate.
  intros H; inversion H; subst; simpl. auto. Qed.

(* ---- GreedyPlacementPass --------------------------------------------------------------------- *)
Lemma best_neighbor_In g pl : forall nbs b, best_neighbor g pl nbs = Some b -> In b nbs.
Proof. unfold best_neighbor. intros nbs.
  assert (G : forall acc b, fold_left (fun best q =>
             match best with None => Some q
             | Some b0 => if score_gt (score g pl q) (score g pl b0) then Some q else best end) nbs acc = Some b ->
             In b nbs \/ acc = Some b).
  { induction nbs as [|x t IH]; cbn [fold_left]; intros acc b H; [right; auto|].
    apply IH in H as [H|H]; [left; right; auto|].
    destruct acc as [b0|].
    - destruct (score_gt (score g pl x) (score g pl b0)); [inversion H; left; left; auto|right; auto].
    - inversion H; left; left; auto. }
  intros b H. apply G in H as [H|H]; [auto|discriminate]. Qed.

Lemma In_remove_first x y l : In x (remove_first y l) -> In x l.
Proof. induction l as [|z t IH]; simpl; auto. destruct (Nat.eqb y z); auto. intros [H|H]; auto. Qed.

(* the new frontier: what was there (minus the chosen one) plus neighbours of the chosen one *)
Lemma In_new_frontier (pl1 : list nat) : forall nb acc x,
  In x (fold_left (fun acc x => if memb x pl1 || memb x acc then acc else acc ++ [x]) nb acc) ->
  In x acc \/ In x nb.
Proof. induction nb as [|y t IH]; simpl; intros acc x H; auto.
  apply IH in H as [H|H]; auto.
  destruct (memb y pl1 || memb y acc); auto.
  apply in_app_or in H as [H|[H|[]]]; auto. Qed.

(* the greedy loop only ever adds a machine qudit adjacent to one already chosen: on an undirected
   graph the chosen set is connected BY CONSTRUCTION (the final is_fully_connected test of the pass
   re-checks it) and contains the start vertex *)
Theorem greedy_loop_connected g : sym g -> forall fuel n pl nbs r,
  pl <> [] -> connected_set g pl -> (forall x, In x nbs -> exists y, In y pl /\ In x (nbrs g y)) ->
  greedy_loop fuel g n pl nbs = Some r ->
  connected_set g r /\ (forall x, In x pl -> In x r).
Proof. intros Hsym. induction fuel as [|f IH]; intros n pl nbs r Hne Hc Hadj; simpl.
  - destruct (Nat.leb n (length pl)); [|discriminate]. intros H; inversion H; subst; auto.
  - destruct (Nat.leb n (length pl)); [intros H; inversion H; subst; auto|].
    destruct (best_neighbor g pl nbs) as [b|] eqn:Eb; [|discriminate].
    intros H. apply best_neighbor_In in Eb. destruct (Hadj b Eb) as (y & Hy & Hby).
    assert (Hsub : forall x, In x pl -> In x (pl ++ [b])) by (intros x Hx; apply in_or_app; auto).
    assert (Hbin : In b (pl ++ [b])) by (apply in_or_app; right; left; auto).
    assert (Hyb : reach_in g (pl ++ [b]) y b).
    { apply (ri_step g _ y y b); auto. constructor; auto. }
    assert (Hc' : connected_set g (pl ++ [b])).
    { intros a c Ha Hcc.
      assert (Hay : reach_in g (pl ++ [b]) a y).
      { apply in_app_or in Ha as [Ha|[<-|[]]].
        - apply (reach_in_mono g pl); auto.
        - apply reach_in_sym; auto. }
      apply (reach_in_trans g _ a y c); auto.
      apply in_app_or in Hcc as [Hcc|[<-|[]]]; auto.
      apply (reach_in_mono g pl); auto. }
    apply IH in H; auto.
    + destruct H as [H1 H2]. split; auto.
    + intros E. apply app_eq_nil in E as [_ E]. discriminate.
    + intros x Hx. apply In_new_frontier in Hx as [Hx|Hx]; auto.
      * apply In_remove_first in Hx. destruct (Hadj x Hx) as (z & Hz & Hxz). exists z. auto.
      * exists b. auto. Qed.

Lemma connected_set_perm g s s' : (forall x, In x s <-> In x s') -> connected_set g s -> connected_set g s'.
Proof. intros Hi Hc a b Ha Hb. apply (reach_in_mono g s); [intros x Hx; apply Hi; auto|].
  apply Hc; apply Hi; auto. Qed.

Theorem greedy_placement_spec n d d' :
  greedy_placement n d = Some d' -> 1 <= n ->
  length (placement d') = n /\ StronglySorted lt (placement d') /\
  placement_connected (mach d) (placement d') = Some true /\
  In (argmax (map (@length nat) (mach d))) (placement d') /\
  (sym (mach d) -> connected_set (mach d) (placement d')) /\
  imap d' = imap d /\ fmap d' = fmap d /\ mach d' = mach d.
Proof. unfold greedy_placement. destruct (mach d) as [|g0 g] eqn:Eg; [discriminate|].
  set (G := g0 :: g) in *. set (h := argmax (map (@length nat) G)).
  destruct (greedy_loop n G n [h] (nbrs G h)) as [pl|] eqn:E; [|discriminate].
  destruct (placement_connected G (Perm.sort pl)) as [[|]|] eqn:Ec; try discriminate.
  intros H Hn; inversion H; subst d'; cbn [placement imap fmap mach].
  pose proof (placement_connected_inj _ _ _ Ec) as [Hnd _].
  assert (Hin : forall x, In x (Perm.sort pl) <-> In x pl).
  { intros x. split; intros Hx.
    - eapply Permutation_in; [apply sort_perm|auto].
    - eapply Permutation_in; [apply Permutation_sym, sort_perm|auto]. }
  assert (Hgl : forall (Hs : sym G), connected_set G pl /\ (forall x, In x [h] -> In x pl)).
  { intros Hs. apply (greedy_loop_connected G Hs n n [h] (nbrs G h) pl); auto.
    - discriminate.
    - intros a b [<-|[]] [<-|[]]. constructor. left; auto.
    - intros x Hx. exists h. split; [left; auto|auto]. }
  split.
  { rewrite sort_length. eapply greedy_loop_length; eauto. }
  split; [apply sorted_le_nodup_lt; auto; apply sort_sorted|].
  split; [exact Ec|].
  split.
  { (* the start vertex is never removed: pl only grows *)
    apply Hin. clear - E.
    assert (G0 : forall fuel n0 pl0 nbs r, greedy_loop fuel G n0 pl0 nbs = Some r -> forall x, In x pl0 -> In x r).
    { induction fuel as [|f IH]; intros n0 pl0 nbs r; simpl.
      - destruct (Nat.leb n0 (length pl0)); [|discriminate]. intros H; inversion H; subst; auto.
      - destruct (Nat.leb n0 (length pl0)); [intros H; inversion H; subst; auto|].
        destruct (best_neighbor G pl0 nbs); [|discriminate]. intros H x Hx.
        eapply IH; [exact H|]. apply in_or_app; auto. }
    eapply G0; [exact E|left; auto]. }
  split.
  { intros Hs. destruct (Hgl Hs) as [Hc _]. apply (connected_set_perm G pl); auto.
    intros x. symmetry. apply Hin. }
  auto. Qed.

(* ---- StaticPlacementPass ---------------------------------------------------------------------- *)
(* an accepted search result has one entry per circuit qudit and maps every edge of the circuit's
   coupling graph onto an edge of the machine; a rejected one leaves PassData untouched.  (The pass
   checks neither injectivity nor connectivity: the first is the search's own guarantee -
   static_search_ok, re-checked on every recorded answer - the second is re-checked by the layout /
   routing pass through data.connectivity.) *)
Theorem static_placement_spec n ledges found d d' :
  static_placement n ledges found d = Some d' ->
  (d' = d \/
   (placement d' = found /\ length found = n /\
    (forall e, In e ledges -> fst e < n /\ snd e < n /\ nth (fst e) found 0 < length (mach d) /\
                              In (nth (snd e) found 0) (nbrs (mach d) (nth (fst e) found 0))))) /\
  imap d' = imap d /\ fmap d' = fmap d /\ mach d' = mach d.
Proof. unfold static_placement, static_accepts.
  destruct (Nat.eqb_spec (length found) n) as [El|El]; simpl.
  - destruct (forallb (fun e => (fst e <? n) && (snd e <? n) && (nth (fst e) found 0 <? length (mach d))) ledges) eqn:E1;
      [|discriminate].
    destruct (forallb (fun e => mem (nth (snd e) found 0) (nbrs (mach d) (nth (fst e) found 0))) ledges) eqn:E2;
      intros H; inversion H; subst d'; simpl; (split; [|auto]); [right|left; auto].
    split; auto. split; auto. intros e He.
    rewrite forallb_forall in E1, E2. specialize (E1 e He). specialize (E2 e He).
    apply andb_true_iff in E1 as [E1 E1c]. apply andb_true_iff in E1 as [E1a E1b].
    apply Nat.ltb_lt in E1a, E1b, E1c. apply mem_In in E2. auto.
  - intros H; inversion H; subst; auto. Qed.

(* ---- every placement pass that checks its result: a connected injective set ----------------------- *)
Theorem checked_placement_connected p n d d' :
  (p = PTrivial \/ p = PGreedy) -> 1 <= n ->
  wf (mach d) -> sym (mach d) -> loopfree (mach d) ->
  run_placer p n d = Some d' ->
  length (placement d') = n /\ NoDup (placement d') /\ (forall q, In q (placement d') -> q < length (mach d)) /\
  connected_set (mach d) (placement d') /\ mach d' = mach d /\ imap d' = imap d /\ fmap d' = fmap d.
Proof. intros Hp Hn Hwf Hsym Hlf H.
  assert (G : length (placement d') = n /\ placement_connected (mach d) (placement d') = Some true /\
              mach d' = mach d /\ imap d' = imap d /\ fmap d' = fmap d).
  { destruct Hp as [-> | ->]; simpl in H.
    - apply trivial_placement_spec in H as (Hpl & Hc & Hi & Hf & Hm). rewrite Hpl.
      split; [apply seq_length|]. auto.
    - apply greedy_placement_spec in H as (Hl & _ & Hc & _ & _ & Hi & Hf & Hm); auto. }
  destruct G as (Hl & Hc & Hm & Hi & Hf).
  destruct (placement_connected_meaning _ _ Hwf Hsym Hlf Hc) as (Hnd & _ & Hlt & Hcs).
  auto 10. Qed.

(* ---- ApplyPlacement ----------------------------------------------------------------------------- *)
(* initial_mapping := placement o initial_mapping, final_mapping := placement o final_mapping, the
   circuit's locations are mapped through the placement, placement := identity of the machine; the
   mappings stay injective (now into the machine) *)
Theorem apply_placement_full m o d o' d' :
  apply_placement o d = Some (o', d') ->
  injinto m (placement d) -> injinto (length (placement d)) (imap d) -> injinto (length (placement d)) (fmap d) ->
  o' = map (relabel (placement d)) o /\
  imap d' = compose (placement d) (imap d) /\ fmap d' = compose (placement d) (fmap d) /\
  placement d' = idperm (length (mach d)) /\ mach d' = mach d /\
  injinto m (imap d') /\ injinto m (fmap d') /\
  (forall l, l < length (imap d) -> nth l (imap d') 0 = nth (nth l (imap d) 0) (placement d) 0) /\
  (forall l, l < length (fmap d) -> nth l (fmap d') 0 = nth (nth l (fmap d) 0) (placement d) 0).
Proof. intros H Hp Hi Hf. apply apply_placement_spec in H as (Ho & Him & Hfm & Hpl & Hm).
  split; auto. split; auto. split; auto. split; auto. split; auto.
  split; [rewrite Him; apply compose_injinto; auto|].
  split; [rewrite Hfm; apply compose_injinto; auto|].
  split; intros l Hl; [rewrite Him|rewrite Hfm]; apply compose_nth; auto. Qed.
