(* C17 - executable model of user-defined gates in bqskit/ir/lang/qasm2/visitor.py:
   gatedecl / gatep / ugatep / rbracket (declaration time: each parameter expression
   of a body statement is either evaluated at once or, when it mentions a formal,
   stored as a tree with PARAM_IDX tokens) and CustomGateDef.build_op /
   evaluate_param_exps / replace_param_indices (call time: the floats passed to the
   gate are substituted textually, the text is evaluated, the sub-gate is built
   recursively).  Only the parameter flow is modelled; locations are carried along.
   No proofs in this file. *)
From Coq Require Import List Bool Arith.
Import ListNotations.
From BQ Require Import qasm.QExp.

Definition mapM {A B} (f : A -> option B) : list A -> option (list B) :=
  fix go l := match l with
              | [] => Some []
              | x :: t => match f x, go t with Some y, Some r => Some (y :: r) | _, _ => None end
              end.

(* what the program text says: gate name(formals) qubits { body }  - a body statement
   applies an earlier definition (resolved when the statement is visited) to qubit
   positions with argument expressions *)
Inductive sdef (V : Type) :=
  | SBuiltin (g : nat)
  | SCustom (formals : list nat) (nv : nat) (body : list (sdef V * list nat * list (exp V))).
Arguments SBuiltin {V}. Arguments SCustom {V}.

(* CustomGateDef: param_exp_list entries are floats or trees *)
Inductive pexpr (V : Type) := PConst (v : V) | PTree (e : exp V).
Arguments PConst {V}. Arguments PTree {V}.
Inductive gdef (V : Type) :=
  | GBuiltin (g : nat)
  | GCustom (np nv : nat) (body : list (gdef V * list nat * list (pexpr V))).
Arguments GBuiltin {V}. Arguments GCustom {V}.

(* the Operation that build_op returns: a library gate with parameters, or a
   CircuitGate over the operations of the body *)
Inductive iop (V : Type) :=
  | IPrim (g : nat) (loc : list nat) (ps : list V)
  | ICirc (nv : nat) (body : list (iop V)) (loc : list nat).
Arguments IPrim {V}. Arguments ICirc {V}.

Section Gate.
Context {V : Type}.
Variable O : ops V.
Variable fx : bool.                 (* which flattening (QExp.flatE) *)
Variable bound : fn -> bool.        (* eval_locals *)
Variable vsplit : V -> actual V.    (* str(float): sign and magnitude *)

(* gatep / ugatep, one parameter expression *)
Definition compile_pe (fs : list nat) (e : exp V) : option (pexpr V) :=
  if hasE fs e then Some (PTree (bindE fs e))
  else option_map PConst (eval_exp O fx bound e).

Fixpoint compile (d : sdef V) : option (gdef V) :=
  match d with
  | SBuiltin g => Some (GBuiltin g)
  | SCustom fs nv body =>
      option_map (GCustom (length fs) nv)
        (mapM (fun st : sdef V * list nat * list (exp V) =>
                 match compile (fst (fst st)), mapM (compile_pe fs) (snd st) with
                 | Some d', Some pes => Some (d', snd (fst st), pes)
                 | _, _ => None
                 end) body)
  end.

(* evaluate_param_exps, one entry *)
Definition eval_pe (ps : list V) (pe : pexpr V) : option V :=
  match pe with
  | PConst v => Some v
  | PTree e => eval_exp O fx bound (substE (map vsplit ps) e)
  end.

Fixpoint build (d : gdef V) (loc : list nat) (ps : list V) : option (iop V) :=
  match d with
  | GBuiltin g => Some (IPrim g loc ps)
  | GCustom np nv body =>
      option_map (fun b => ICirc nv b loc)
        (mapM (fun st : gdef V * list nat * list (pexpr V) =>
                 match mapM (eval_pe ps) (snd st) with
                 | Some sub => build (fst (fst st)) (snd (fst st)) sub
                 | None => None
                 end) body)
  end.

(* specification: a call binds the formals to the argument VALUES; body expressions
   have their standard value in that environment *)
Definition env_vals (fs : list nat) (ps : list V) (x : nat) : option V :=
  match index_of x fs with Some i => nth_error ps i | None => None end.

Fixpoint spec (d : sdef V) (loc : list nat) (ps : list V) : option (iop V) :=
  match d with
  | SBuiltin g => Some (IPrim g loc ps)
  | SCustom fs nv body =>
      option_map (fun b => ICirc nv b loc)
        (mapM (fun st : sdef V * list nat * list (exp V) =>
                 match mapM (denote_env O (env_vals fs ps)) (snd st) with
                 | Some sub => spec (fst (fst st)) (snd (fst st)) sub
                 | None => None
                 end) body)
  end.

(* every body expression is a source tree of a shape the parser produces and uses
   bound functions only *)
Definition wf_exp (e : exp V) : bool :=
  lark_ok e && srcE e && forallb bound (fnsE e).
Fixpoint wf (d : sdef V) : bool :=
  match d with
  | SBuiltin _ => true
  | SCustom fs nv body =>
      forallb (fun st : sdef V * list nat * list (exp V) =>
                 wf (fst (fst st)) && forallb wf_exp (snd st)) body
  end.
End Gate.
