(* C17 - entry points of the extracted model for the program-level encoder / decoder
   (qasm/QProg.v) over the symbolic arithmetic (QSym.sym) and the generated tables.
   A float x is the term YNum k (k numbers the printed magnitude) or YNeg (YNum k).
   No proofs. *)
From Coq Require Import List Bool Arith.
Import ListNotations.
From BQ Require Import qasm.QExp qasm.QRegs qasm.QTable qasm.QGate qasm.QEnc qasm.QSym qasm.QProg gen.QasmTable.

(* str(float): optional '-' and the magnitude *)
Definition sym_split (v : sym) : actual sym :=
  match v with YNeg a => (true, a) | _ => (false, v) end.

Definition p_toks (nm : nat -> list (uop unit) -> nat) (n : nat) (gs c : list (cop sym)) : list (ptok sym) :=
  toks_prog n (encode_with nm sym_split gs c).
(* the tokens of one definition block / of the operation lines only *)
(* cfx = true: the encoder after fixes/C17-creg.patch *)
Definition p_enc (cfx : bool) (nm : nat -> list (uop unit) -> nat) (gs c : list (cop sym)) : list (stmt sym) :=
  if cfx then encode_with_fixed nm sym_split gs c else encode_with nm sym_split gs c.
Definition p_toks_v (cfx : bool) (nm : nat -> list (uop unit) -> nat) (n : nat) (gs c : list (cop sym)) : list (ptok sym) :=
  toks_prog n (p_enc cfx nm gs c).
Definition p_rt_v (cfx : bool) (nm : nat -> list (uop unit) -> nat) (fx : bool) (bound : list fn) (n : nat) (gs c : list (cop sym))
  : res (list (nat * nat) * list (dop sym)) :=
  decode_prog symops fx (bound_of bound) sym_split dec_table lib_gates 0 n (p_enc cfx nm gs c).
Definition p_def_toks (nm : nat -> list (uop unit) -> nat) (nv : nat) (body : list (uop sym)) : list (ptok sym) :=
  toks_stmt (gate_def nm nv body).
Definition p_rt (nm : nat -> list (uop unit) -> nat) (fx : bool) (bound : list fn) (n : nat) (gs c : list (cop sym))
  : res (list (nat * nat) * list (dop sym)) :=
  decode_prog symops fx (bound_of bound) sym_split dec_table lib_gates 0 n (encode_with nm sym_split gs c).
Definition p_ok (nm : nat -> list (uop unit) -> nat) (n : nat) (gs c : list (cop sym)) : bool :=
  circ_okb nm lib_gates n gs c.
Definition p_expect (c : list (cop sym)) : list (dop sym) := concat (map expect c).
Definition p_shape (o : uop sym) : uop unit := shape_of o.
