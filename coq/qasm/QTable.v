(* C17 - the decoder's gate-name table and the library's QASM spellings.
   The tables themselves are generated from the live objects by
   harness/gen/gen_qasm_table.py into gen/QasmTable.v:
     dec_table    OPENQASMVisitor().gate_defs : name -> GateDef(qasm_name, num_params,
                  num_vars, gate); gate objects are interned by python equality
     gate_info    per interned gate: repr, gate.num_params, gate.num_qudits
     lib_gates    every default-constructible exported qubit gate of bqskit.ir.gates
                  plus every gate object of dec_table: its qasm_name (None if it has
                  none), num_params, num_qudits
     unaryop_table  per function: text of the grammar terminal, is it a key of eval_locals
   This file has the record types, the lookups and the boolean checkers; no proofs. *)
From Coq Require Import String List Bool Arith.
Import ListNotations.
From BQ Require Import qasm.QExp.
Open Scope string_scope.

Record dec_entry := mkDec { d_name : string; d_gate : nat; d_np : nat; d_nv : nat }.
Record ginfo := mkG { g_id : nat; g_repr : string; g_np : nat; g_nq : nat }.
Record lib_gate := mkLib { l_class : string; l_gate : nat; l_spelling : option string; l_np : nat; l_nq : nat }.

(* python dict lookup (keys are unique: checked by names_nodup) *)
Fixpoint lookup (tbl : list dec_entry) (s : string) : option dec_entry :=
  match tbl with
  | [] => None
  | e :: t => if String.eqb (d_name e) s then Some e else lookup t s
  end.

Definition decode_name (tbl : list dec_entry) (s : string) : option (nat * nat * nat) :=
  match lookup tbl s with Some e => Some (d_gate e, d_np e, d_nv e) | None => None end.

Fixpoint mem_str (s : string) (l : list string) : bool :=
  match l with [] => false | x :: t => String.eqb x s || mem_str s t end.

Fixpoint nodup_str (l : list string) : bool :=
  match l with [] => true | x :: t => negb (mem_str x t) && nodup_str t end.

(* ---- named exceptions (hand-written; the theorems name them) ---- *)
(* D13: the library prints a spelling the decoder does not accept back *)
Definition d13_spellings : list string := ["diag"; "st"; "pxz"].
(* benign: the spelling decodes to a DIFFERENT gate object with the same unitary
   (checked by the harness oracle on every run):
     rxx(pi/2) ryy(pi/2) rzz(pi/2)  XXGate/YYGate/ZZGate print an instance of RXX/RYY/RZZ
     identity1                      declared in the program by get_qasm_gate_def()
     sxdg                           the table has DaggerGate(SXGate()), the library SXdgGate *)
Definition alias_spellings : list string := ["rxx(pi/2)"; "ryy(pi/2)"; "rzz(pi/2)"; "identity1"; "sxdg"].
(* statement keywords handled by grammar rules, not by the table *)
Definition keyword_spellings : list string := ["reset"].
Definition rt_exceptions : list string := d13_spellings ++ alias_spellings ++ keyword_spellings.

(* decode_name (qasm_name g) = (g, num_params g, num_qudits g) *)
Definition rt_ok (tbl : list dec_entry) (g : lib_gate) : bool :=
  match l_spelling g with
  | None => true
  | Some s =>
      mem_str s rt_exceptions ||
      match decode_name tbl s with
      | Some (gid, np, nv) => Nat.eqb gid (l_gate g) && Nat.eqb np (l_np g) && Nat.eqb nv (l_nq g)
      | None => false
      end
  end.

(* the arities registered in the decoder table are those of the gate object *)
Fixpoint ginfo_of (gi : list ginfo) (id : nat) : option ginfo :=
  match gi with [] => None | g :: t => if Nat.eqb (g_id g) id then Some g else ginfo_of t id end.
Definition dec_consistent (gi : list ginfo) (e : dec_entry) : bool :=
  mem_str (d_name e) ["pxz"] ||
  match ginfo_of gi (d_gate e) with
  | Some g => Nat.eqb (d_np e) (g_np g) && Nat.eqb (d_nv e) (g_nq g)
  | None => false
  end.

(* ---- functions in expressions ---- *)
Definition std_name (f : fn) : string :=
  match f with FSin => "sin" | FCos => "cos" | FTan => "tan" | FExp => "exp" | FLn => "ln" | FSqrt => "sqrt" end.
Definition all_fn_list : list fn := [FSin; FCos; FTan; FExp; FLn; FSqrt].
Definition fn_exceptions : list fn := [FExp; FSqrt].       (* D5 *)

Fixpoint unary_entry (tbl : list (fn * string * bool)) (f : fn) : option (string * bool) :=
  match tbl with
  | [] => None
  | (g, s, b) :: t => if fn_eqb g f then Some (s, b) else unary_entry t f
  end.
(* the grammar accepts the standard spelling and eval_locals binds it *)
Definition fn_ok (tbl : list (fn * string * bool)) (f : fn) : bool :=
  match unary_entry tbl f with
  | Some (s, b) => String.eqb s (std_name f) && b
  | None => false
  end.
(* eval_locals as seen by eval_exp: is the terminal's text bound? *)
Definition fn_bound (tbl : list (fn * string * bool)) (f : fn) : bool :=
  match unary_entry tbl f with Some (_, b) => b | None => false end.
