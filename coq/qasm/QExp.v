(* C17 - executable model of the OpenQASM 2 parameter-expression pipeline of
   bqskit/ir/lang/qasm2 (parser.py grammar rules exp/mulexp/usub/pow/parenexp/
   unaryexp/primaryexp; visitor.py eval_exp_recurse / eval_exp / eval_locals /
   replace_param_ids / replace_param_indices).  No proofs in this file.

   Pipeline of the implementation:   text --Lark LALR--> tree --eval_exp_recurse-->
   python source text --eval()--> float.   Modelled here:
     * [exp/mulexp/prim]  the Lark tree (children lists of exp/mulexp are encoded
       left-nested: EOne m0, ESnoc (ESnoc (EOne m0) o1 m1) o2 m2 ...);
     * [flatE fx]         eval_exp_recurse as a token list (white space dropped);
                          fx=false: the code as it is, fx=true: the repaired code
                          (fixes/D5.patch: parentheses kept);
     * [nsum/nterm/nfac/natom] + [pyparse] + [pyeval]  Python's expression grammar
       (sum/term/factor/power/atom) restricted to the tokens flatE can emit, and
       evaluation in the namespace eval_locals;
     * [normE] + [denote]  the standard OpenQASM reading of a Lark tree.

   IMPORTANT shape fact (checked on every real tree by the harness, [lark_ok]): the
   grammar rule  usub: "-" exp  is ambiguous and Lark's LALR(1) resolves it by
   shifting, so the operand of a unary minus swallows the rest of the parenthesis
   group:  -1+2  is  usub(exp(1 + 2)),  2*-3+4  is  mulexp(2 * usub(exp(3 + 4))).
   The standard value of such a tree (the value Qiskit assigns to the text) is
   therefore NOT the naive "negate the operand": the trailing operators escape the
   minus.  [normE] re-associates (it returns the escaped multiplicative and additive
   tails) into the conventional precedence tree, and [denote] evaluates that.

   V = python float.  The arithmetic [ops V] is a parameter: every theorem holds for
   all operations (no algebraic law is used).  V is an explicit (implicit-argument)
   parameter of every mutual Fixpoint rather than a Section variable, because [simpl]
   cannot refold mutual fixpoints that were generalised by closing a Section. *)
From Coq Require Import List Bool Arith.
Import ListNotations.

Inductive fn := FSin | FCos | FTan | FExp | FLn | FSqrt.
Definition fn_eqb (a b : fn) : bool :=
  match a, b with
  | FSin, FSin | FCos, FCos | FTan, FTan | FExp, FExp | FLn, FLn | FSqrt, FSqrt => true
  | _, _ => false
  end.
Inductive addop := OAdd | OSub.
Inductive mulop := OMul | ODiv.

(* names the emitted python text can contain *)
Inductive name :=
  | NPi                 (* pi *)
  | NFn (f : fn)        (* text of the grammar terminal SIN COS TAN EXP LN SQRT *)
  | NId (x : nat)       (* any other identifier (interned by the harness) *)
  | NIdx (i : nat).     (* a PARAM_IDX token that was never substituted *)

Record ops (V : Type) := {
  vadd : V -> V -> V; vsub : V -> V -> V; vmul : V -> V -> V; vdiv : V -> V -> V;
  vpow : V -> V -> V; vneg : V -> V; vpi : V;
  vfn : fn -> V -> V                             (* np.sin ... np.sqrt *)
}.
Arguments vadd {V}. Arguments vsub {V}. Arguments vmul {V}. Arguments vdiv {V}.
Arguments vpow {V}. Arguments vneg {V}. Arguments vpi {V}. Arguments vfn {V}.

(* ---------------------------------------------------------------- Lark tree *)
Inductive exp (V : Type) :=
  | EOne (m : mulexp V)
  | ESnoc (e : exp V) (o : addop) (m : mulexp V)     (* exp: mulexp ((+|-) mulexp)*   *)
with mulexp (V : Type) :=
  | MOne (p : prim V)
  | MSnoc (m : mulexp V) (o : mulop) (p : prim V)    (* mulexp: primaryexp (( * | / ) primaryexp)* *)
with prim (V : Type) :=                              (* primaryexp *)
  | PParen (e : exp V)                               (* parenexp: "(" exp ")" *)
  | PNum (v : V)                                     (* REAL | NNINTEGER *)
  | PPi                                              (* PI *)
  | PId (x : nat)                                    (* ID *)
  | PIdx (i : nat)                                   (* Token('PARAM_IDX', i)   (replace_param_ids) *)
  | PVal (neg : bool) (v : V)                        (* Token('REAL', <float>)  (replace_param_indices):
                                                        str(float) = optional '-' followed by a literal *)
  | PPow (b x : prim V)                              (* pow: primaryexp "^" primaryexp *)
  | PUsub (e : exp V)                                (* usub: "-" exp *)
  | PFn (f : fn) (e : exp V).                        (* unaryexp: unaryop "(" exp ")" *)
Arguments EOne {V}. Arguments ESnoc {V}. Arguments MOne {V}. Arguments MSnoc {V}.
Arguments PParen {V}. Arguments PNum {V}. Arguments PPi {V}. Arguments PId {V}. Arguments PIdx {V}.
Arguments PVal {V}. Arguments PPow {V}. Arguments PUsub {V}. Arguments PFn {V}.

(* ------------------------------------------------------------- python tokens *)
Inductive tok (V : Type) :=
  | TNum (v : V) | TName (n : name)
  | TAdd | TSub | TMul | TDiv | TPow             (* + - * / **  *)
  | TLp | TRp.
Arguments TNum {V}. Arguments TName {V}. Arguments TAdd {V}. Arguments TSub {V}. Arguments TMul {V}.
Arguments TDiv {V}. Arguments TPow {V}. Arguments TLp {V}. Arguments TRp {V}.

Definition tok_add {V} (o : addop) : tok V := match o with OAdd => TAdd | OSub => TSub end.
Definition tok_mul {V} (o : mulop) : tok V := match o with OMul => TMul | ODiv => TDiv end.

(* eval_exp_recurse.  fx = false: parenexp falls into the default branch
   (' '.join(map(rec, children)) - the parentheses are anonymous tokens filtered out
   of the tree, so nothing re-emits them) and a substituted float is printed bare.
   fx = true: fixes/D5.patch. *)
Definition wrap {V} (fx : bool) (l : list (tok V)) : list (tok V) := if fx then TLp :: l ++ [TRp] else l.

Fixpoint flatE {V} (fx : bool) (e : exp V) : list (tok V) :=
  match e with
  | EOne m => flatM fx m
  | ESnoc e o m => flatE fx e ++ tok_add o :: flatM fx m
  end
with flatM {V} (fx : bool) (m : mulexp V) : list (tok V) :=
  match m with
  | MOne p => flatP fx p
  | MSnoc m o p => flatM fx m ++ tok_mul o :: flatP fx p
  end
with flatP {V} (fx : bool) (p : prim V) : list (tok V) :=
  match p with
  | PParen e => wrap fx (flatE fx e)
  | PNum v => [TNum v]
  | PPi => [TName NPi]
  | PId x => [TName (NId x)]
  | PIdx i => [TName (NIdx i)]
  | PVal s v => wrap fx (if s then [TSub; TNum v] else [TNum v])
  | PPow b x => flatP fx b ++ TPow :: flatP fx x
  | PUsub e => TSub :: flatE fx e
  | PFn f e => TName (NFn f) :: TLp :: flatE fx e ++ [TRp]
  end.

Definition flatten {V} : exp V -> list (tok V) := flatE false.        (* the code as it is  *)
Definition flatten_fixed {V} : exp V -> list (tok V) := flatE true.   (* after fixes/D5.patch *)

(* ------------------------------------------- python grammar (parse tree) ---- *)
(* sum: sum ('+'|'-') term | term      term: term ('*'|'/') factor | factor
   factor: '-' factor | power          power: primary ['**' factor]
   primary: atom | NAME '(' sum ')'    atom: NUMBER | NAME | '(' sum ')'         *)
Inductive nsum (V : Type) :=
  | SOne (t : nterm V) | SSnoc (s : nsum V) (o : addop) (t : nterm V)
with nterm (V : Type) :=
  | TOne (f : nfac V) | TSnoc (t : nterm V) (o : mulop) (f : nfac V)
with nfac (V : Type) :=
  | FNeg (f : nfac V) | FPow (a : natom V) (f : nfac V) | FAtom (a : natom V)
with natom (V : Type) :=
  | ANum (v : V) | AName (n : name) | ACall (n : name) (s : nsum V) | AParen (s : nsum V).
Arguments SOne {V}. Arguments SSnoc {V}. Arguments TOne {V}. Arguments TSnoc {V}.
Arguments FNeg {V}. Arguments FPow {V}. Arguments FAtom {V}.
Arguments ANum {V}. Arguments AName {V}. Arguments ACall {V}. Arguments AParen {V}.

Fixpoint parse_sum {V} (n : nat) (ts : list (tok V)) {struct n} : option (nsum V * list (tok V)) :=
  match n with 0 => None | S n =>
    match parse_term n ts with
    | Some (t, r) => sum_loop n (SOne t) r
    | None => None
    end
  end
with sum_loop {V} (n : nat) (acc : nsum V) (ts : list (tok V)) {struct n} : option (nsum V * list (tok V)) :=
  match n with 0 => None | S n =>
    match ts with
    | TAdd :: r => match parse_term n r with Some (t, r') => sum_loop n (SSnoc acc OAdd t) r' | None => None end
    | TSub :: r => match parse_term n r with Some (t, r') => sum_loop n (SSnoc acc OSub t) r' | None => None end
    | _ => Some (acc, ts)
    end
  end
with parse_term {V} (n : nat) (ts : list (tok V)) {struct n} : option (nterm V * list (tok V)) :=
  match n with 0 => None | S n =>
    match parse_factor n ts with
    | Some (f, r) => term_loop n (TOne f) r
    | None => None
    end
  end
with term_loop {V} (n : nat) (acc : nterm V) (ts : list (tok V)) {struct n} : option (nterm V * list (tok V)) :=
  match n with 0 => None | S n =>
    match ts with
    | TMul :: r => match parse_factor n r with Some (f, r') => term_loop n (TSnoc acc OMul f) r' | None => None end
    | TDiv :: r => match parse_factor n r with Some (f, r') => term_loop n (TSnoc acc ODiv f) r' | None => None end
    | _ => Some (acc, ts)
    end
  end
with parse_factor {V} (n : nat) (ts : list (tok V)) {struct n} : option (nfac V * list (tok V)) :=
  match n with 0 => None | S n =>
    match ts with
    | TSub :: r => match parse_factor n r with Some (f, r') => Some (FNeg f, r') | None => None end
    | _ => parse_power n ts
    end
  end
with parse_power {V} (n : nat) (ts : list (tok V)) {struct n} : option (nfac V * list (tok V)) :=
  match n with 0 => None | S n =>
    match parse_primary n ts with
    | Some (a, TPow :: r) => match parse_factor n r with Some (f, r') => Some (FPow a f, r') | None => None end
    | Some (a, r) => Some (FAtom a, r)
    | None => None
    end
  end
with parse_primary {V} (n : nat) (ts : list (tok V)) {struct n} : option (natom V * list (tok V)) :=
  match n with 0 => None | S n =>
    match ts with
    | TNum v :: r => Some (ANum v, r)
    | TName x :: TLp :: r =>
        match parse_sum n r with Some (s, TRp :: r') => Some (ACall x s, r') | _ => None end
    | TName x :: r => Some (AName x, r)
    | TLp :: r =>
        match parse_sum n r with Some (s, TRp :: r') => Some (AParen s, r') | _ => None end
    | _ => None
    end
  end.

(* None = SyntaxError.  The fuel is proved sufficient (QExpThm.parse_print). *)
Definition pyparse {V} (ts : list (tok V)) : option (nsum V) :=
  match parse_sum (6 * length ts + 6) ts with
  | Some (s, []) => Some s
  | _ => None
  end.

(* eval(code, {}, eval_locals): [bound f] = the text of terminal f is a key of
   eval_locals.  None = NameError / TypeError (calling a non-function).
   Arithmetic exceptions are not modelled (V's operations are total). *)
Definition lift1 {V} (f : V -> V) (a : option V) : option V :=
  match a with Some x => Some (f x) | None => None end.
Definition lift2 {V} (f : V -> V -> V) (a b : option V) : option V :=
  match a, b with Some x, Some y => Some (f x y) | _, _ => None end.
Definition add_fun {V} (O : ops V) (o : addop) := match o with OAdd => vadd O | OSub => vsub O end.
Definition mul_fun {V} (O : ops V) (o : mulop) := match o with OMul => vmul O | ODiv => vdiv O end.

(* [env]: value of a free identifier (None = NameError).  eval_locals binds none. *)
Fixpoint evS {V} (O : ops V) (bound : fn -> bool) (env : nat -> option V) (s : nsum V) : option V :=
  match s with
  | SOne t => evT O bound env t
  | SSnoc s o t => lift2 (add_fun O o) (evS O bound env s) (evT O bound env t)
  end
with evT {V} (O : ops V) (bound : fn -> bool) (env : nat -> option V) (t : nterm V) : option V :=
  match t with
  | TOne f => evF O bound env f
  | TSnoc t o f => lift2 (mul_fun O o) (evT O bound env t) (evF O bound env f)
  end
with evF {V} (O : ops V) (bound : fn -> bool) (env : nat -> option V) (f : nfac V) : option V :=
  match f with
  | FNeg f => lift1 (vneg O) (evF O bound env f)
  | FPow a f => lift2 (vpow O) (evA O bound env a) (evF O bound env f)
  | FAtom a => evA O bound env a
  end
with evA {V} (O : ops V) (bound : fn -> bool) (env : nat -> option V) (a : natom V) : option V :=
  match a with
  | ANum v => Some v
  | AName NPi => Some (vpi O)
  | AName (NId x) => env x
  | AName _ => None
  | ACall (NFn f) s => if bound f then lift1 (vfn O f) (evS O bound env s) else None
  | ACall _ _ => None
  | AParen s => evS O bound env s
  end.

Definition no_env {V} : nat -> option V := fun _ => None.
Definition all_fns : fn -> bool := fun _ => true.

Definition pyeval {V} (O : ops V) (bound : fn -> bool) (o : option (nsum V)) : option V :=
  match o with Some s => evS O bound no_env s | None => None end.

(* eval_exp for the two versions of the flattening *)
Definition eval_exp {V} (O : ops V) (fx : bool) (bound : fn -> bool) (e : exp V) : option V :=
  pyeval O bound (pyparse (flatE fx e)).

(* ------------------------------------------- standard reading of a Lark tree *)
Definition atail V := list (addop * nterm V).
Definition mtail V := list (mulop * nfac V).
Definition sapp {V} (s : nsum V) (tl : atail V) : nsum V := fold_left (fun s ot => SSnoc s (fst ot) (snd ot)) tl s.
Definition tapp {V} (t : nterm V) (tl : mtail V) : nterm V := fold_left (fun t of => TSnoc t (fst of) (snd of)) tl t.

Fixpoint unS {V} (s : nsum V) : nterm V * atail V :=
  match s with
  | SOne t => (t, [])
  | SSnoc s o t => let '(h, tl) := unS s in (h, tl ++ [(o, t)])
  end.
Fixpoint unT {V} (t : nterm V) : nfac V * mtail V :=
  match t with
  | TOne f => (f, [])
  | TSnoc t o f => let '(h, tl) := unT t in (h, tl ++ [(o, f)])
  end.

Definition val_atom {V} (s : bool) (v : V) : natom V :=
  AParen (SOne (TOne (if s then FNeg (FAtom (ANum v)) else FAtom (ANum v)))).

(* normP returns the factor that the primary contributes where it stands, plus the
   multiplicative and additive operators that escape from a trailing unary minus. *)
Fixpoint normE {V} (e : exp V) : nsum V :=
  match e with
  | EOne m => let '(t, at_) := normM m in sapp (SOne t) at_
  | ESnoc e o m => let '(t, at_) := normM m in sapp (SSnoc (normE e) o t) at_
  end
with normM {V} (m : mulexp V) : nterm V * atail V :=
  match m with
  | MOne p => let '(f, mt, at_) := normP p in (tapp (TOne f) mt, at_)
  | MSnoc m o p =>
      let '(f, mt, at_) := normP p in (tapp (TSnoc (fst (normM m)) o f) mt, at_)
  end
with normP {V} (p : prim V) : nfac V * mtail V * atail V :=
  match p with
  | PParen e => (FAtom (AParen (normE e)), [], [])
  | PNum v => (FAtom (ANum v), [], [])
  | PPi => (FAtom (AName NPi), [], [])
  | PId x => (FAtom (AName (NId x)), [], [])
  | PIdx i => (FAtom (AName (NIdx i)), [], [])
  | PVal s v => (FAtom (val_atom s v), [], [])
  | PFn f e => (FAtom (ACall (NFn f) (normE e)), [], [])
  | PUsub e =>
      let '(t, at_) := unS (normE e) in
      let '(f, mt) := unT t in (FNeg f, mt, at_)
  | PPow b x =>
      let '(f, mt, at_) := normP x in
      (FPow (match b with
             | PParen e => AParen (normE e)
             | PNum v => ANum v
             | PPi => AName NPi
             | PId x => AName (NId x)
             | PIdx i => AName (NIdx i)
             | PVal s v => val_atom s v
             | PFn f e => ACall (NFn f) (normE e)
             | PPow _ _ | PUsub _ =>          (* never produced by the parser, see lark_ok *)
                 AParen (SOne (TOne (fst (fst (normP b)))))
             end) f, mt, at_)
  end.

(* the standard value: every OpenQASM function is available; a free identifier has
   no value (None) *)
Definition denote {V} (O : ops V) (e : exp V) : option V := evS O all_fns no_env (normE e).

(* the specification side of parameter binding: standard value of a gate-body
   expression in an environment mapping formal-parameter names to values *)
Definition denote_env {V} (O : ops V) (env : nat -> option V) (e : exp V) : option V :=
  evS O all_fns env (normE e).

(* the naive compositional reading (a unary minus negates its whole operand); it
   coincides with [denote] when every unary minus has a single primary as operand
   (QExpThm.denote_naive) *)
Fixpoint naiveE {V} (O : ops V) (e : exp V) : option V :=
  match e with
  | EOne m => naiveM O m
  | ESnoc e o m => lift2 (add_fun O o) (naiveE O e) (naiveM O m)
  end
with naiveM {V} (O : ops V) (m : mulexp V) : option V :=
  match m with
  | MOne p => naiveP O p
  | MSnoc m o p => lift2 (mul_fun O o) (naiveM O m) (naiveP O p)
  end
with naiveP {V} (O : ops V) (p : prim V) : option V :=
  match p with
  | PParen e => naiveE O e
  | PNum v => Some v
  | PPi => Some (vpi O)
  | PId _ | PIdx _ => None
  | PVal s v => Some (if s then vneg O v else v)
  | PPow b x => lift2 (vpow O) (naiveP O b) (naiveP O x)
  | PUsub e => lift1 (vneg O) (naiveE O e)
  | PFn f e => lift1 (vfn O f) (naiveE O e)
  end.

(* ------------------------------------------------ shapes the parser produces *)
(* open = the right-most leaf path ends in a unary minus (whose operand would have
   swallowed anything that followed) *)
Fixpoint openP {V} (p : prim V) : bool :=
  match p with PUsub _ => true | PPow _ x => openP x | _ => false end.
Definition openM {V} (m : mulexp V) : bool := match m with MOne p | MSnoc _ _ p => openP p end.
Definition openE {V} (e : exp V) : bool := match e with EOne m | ESnoc _ _ m => openM m end.
Definition atomic {V} (p : prim V) : bool := match p with PPow _ _ | PUsub _ => false | _ => true end.

Fixpoint okE {V} (e : exp V) : bool :=
  match e with
  | EOne m => okM m
  | ESnoc e o m => negb (openE e) && okE e && okM m
  end
with okM {V} (m : mulexp V) : bool :=
  match m with
  | MOne p => okP p
  | MSnoc m o p => negb (openM m) && okM m && okP p
  end
with okP {V} (p : prim V) : bool :=
  match p with
  | PParen e | PUsub e | PFn _ e => okE e
  | PPow b x => atomic b && okP b && okP x
  | _ => true
  end.
Definition lark_ok {V} : exp V -> bool := okE.

(* every unary minus has a single primary as operand *)
Fixpoint simpleE {V} (e : exp V) : bool :=
  match e with EOne m => simpleM m | ESnoc e _ m => simpleE e && simpleM m end
with simpleM {V} (m : mulexp V) : bool :=
  match m with MOne p => simpleP p | MSnoc m _ p => simpleM m && simpleP p end
with simpleP {V} (p : prim V) : bool :=
  match p with
  | PParen e | PFn _ e => simpleE e
  | PUsub (EOne (MOne q)) => simpleP q
  | PUsub _ => false
  | PPow b x => simpleP b && simpleP x
  | _ => true
  end.

(* functions used *)
Fixpoint fnsE {V} (e : exp V) : list fn :=
  match e with EOne m => fnsM m | ESnoc e _ m => fnsE e ++ fnsM m end
with fnsM {V} (m : mulexp V) : list fn :=
  match m with MOne p => fnsP p | MSnoc m _ p => fnsM m ++ fnsP p end
with fnsP {V} (p : prim V) : list fn :=
  match p with
  | PParen e | PUsub e => fnsE e
  | PFn f e => f :: fnsE e
  | PPow b x => fnsP b ++ fnsP x
  | _ => []
  end.

(* source trees: what the Lark parser builds (no PARAM_IDX / substituted tokens) *)
Fixpoint srcE {V} (e : exp V) : bool :=
  match e with EOne m => srcM m | ESnoc e _ m => srcE e && srcM m end
with srcM {V} (m : mulexp V) : bool :=
  match m with MOne p => srcP p | MSnoc m _ p => srcM m && srcP p end
with srcP {V} (p : prim V) : bool :=
  match p with
  | PParen e | PUsub e | PFn _ e => srcE e
  | PPow b x => srcP b && srcP x
  | PIdx _ | PVal _ _ => false
  | _ => true
  end.

(* ------------------------------------------- formal parameters of user gates *)
Fixpoint index_of (x : nat) (l : list nat) : option nat :=
  match l with
  | [] => None
  | y :: t => if Nat.eqb x y then Some 0 else option_map S (index_of x t)
  end.

(* replace_param_ids: ID tokens naming a formal become PARAM_IDX(params.index(id)) *)
Fixpoint bindE {V} (fs : list nat) (e : exp V) : exp V :=
  match e with EOne m => EOne (bindM fs m) | ESnoc e o m => ESnoc (bindE fs e) o (bindM fs m) end
with bindM {V} (fs : list nat) (m : mulexp V) : mulexp V :=
  match m with MOne p => MOne (bindP fs p) | MSnoc m o p => MSnoc (bindM fs m) o (bindP fs p) end
with bindP {V} (fs : list nat) (p : prim V) : prim V :=
  match p with
  | PParen e => PParen (bindE fs e)
  | PId x => match index_of x fs with Some i => PIdx i | None => PId x end
  | PPow b x => PPow (bindP fs b) (bindP fs x)
  | PUsub e => PUsub (bindE fs e)
  | PFn f e => PFn f (bindE fs e)
  | q => q
  end.

(* has_param_variable *)
Fixpoint hasE {V} (fs : list nat) (e : exp V) : bool :=
  match e with EOne m => hasM fs m | ESnoc e _ m => hasE fs e || hasM fs m end
with hasM {V} (fs : list nat) (m : mulexp V) : bool :=
  match m with MOne p => hasP fs p | MSnoc m _ p => hasM fs m || hasP fs p end
with hasP {V} (fs : list nat) (p : prim V) : bool :=
  match p with
  | PParen e | PUsub e | PFn _ e => hasE fs e
  | PId x => match index_of x fs with Some _ => true | None => false end
  | PPow b x => hasP fs b || hasP fs x
  | _ => false
  end.

(* replace_param_indices: PARAM_IDX(i) becomes Token('REAL', params[i]).  A python
   float is printed as sign + magnitude; [actual] = (is_negative, magnitude). *)
Definition actual V := (bool * V)%type.
Definition aval {V} (O : ops V) (a : actual V) : V := if fst a then vneg O (snd a) else snd a.

Fixpoint substE {V} (acts : list (actual V)) (e : exp V) : exp V :=
  match e with EOne m => EOne (substM acts m) | ESnoc e o m => ESnoc (substE acts e) o (substM acts m) end
with substM {V} (acts : list (actual V)) (m : mulexp V) : mulexp V :=
  match m with MOne p => MOne (substP acts p) | MSnoc m o p => MSnoc (substM acts m) o (substP acts p) end
with substP {V} (acts : list (actual V)) (p : prim V) : prim V :=
  match p with
  | PParen e => PParen (substE acts e)
  | PIdx i => match nth_error acts i with Some a => PVal (fst a) (snd a) | None => PIdx i end
  | PPow b x => PPow (substP acts b) (substP acts x)
  | PUsub e => PUsub (substE acts e)
  | PFn f e => PFn f (substE acts e)
  | q => q
  end.

(* environment built by a call g(a0, a1, ...) of  gate g(x0, x1, ...): the FIRST
   formal with that name wins (list.index) *)
Definition env_of {V} (O : ops V) (fs : list nat) (acts : list (actual V)) (x : nat) : option V :=
  match index_of x fs with
  | Some i => match nth_error acts i with Some a => Some (aval O a) | None => None end
  | None => None
  end.
