(* C17 - executable model of the qubit-argument conversion of
   bqskit/ir/lang/qasm2/visitor.py: convert_qubit_id_to_first_index,
   convert_qubit_id_to_indices, convert_qubit_ids_to_indices (over the Lark shapes
   anylist / idlist / mixedlist / argument), plus the register walks of cxgate,
   ugate, measure and reset.  Register names are interned to nat by the harness.
   No proofs in this file. *)
From Coq Require Import List Bool Arith.
Import ListNotations.

Definition reg := (nat * nat)%type.        (* QubitReg(name, size) *)

(* outcome of a visitor call *)
Inductive res (A : Type) :=
  | Ok (a : A)
  | ErrLang            (* LangException *)
  | ErrCrash.          (* any other exception escaping the visitor (AttributeError ...) *)
Arguments Ok {A}. Arguments ErrLang {A}. Arguments ErrCrash {A}.

Definition bind {A B} (r : res A) (f : A -> res B) : res B :=
  match r with Ok a => f a | ErrLang => ErrLang | ErrCrash => ErrCrash end.

(* for reg in self.qubit_regs: if reg.name == qubit_id: return outer_idx; outer_idx += reg.size *)
Fixpoint first_index_from (regs : list reg) (x : nat) (outer : nat) : res nat :=
  match regs with
  | [] => ErrLang
  | (n, sz) :: t => if Nat.eqb n x then Ok outer else first_index_from t x (outer + sz)
  end.
Definition first_index (regs : list reg) (x : nat) : res nat := first_index_from regs x 0.

(* ... return [i + outer_idx for i in range(reg.size)] *)
Fixpoint indices_from (regs : list reg) (x : nat) (outer : nat) : res (list nat) :=
  match regs with
  | [] => ErrLang
  | (n, sz) :: t => if Nat.eqb n x then Ok (map (fun i => i + outer) (seq 0 sz))
                    else indices_from t x (outer + sz)
  end.
Definition indices (regs : list reg) (x : nat) : res (list nat) := indices_from regs x 0.

(* Lark shapes.   idlist: ID | idlist "," ID
   mixedlist: ID "[" N "]" | mixedlist "," ID | mixedlist "," ID "[" N "]" | idlist "," ID "[" N "]"
   argument: ID | ID "[" N "]"        anylist: idlist | mixedlist *)
Inductive idlist := IdOne (x : nat) | IdSnoc (l : idlist) (x : nat).
Inductive mixedlist :=
  | MxFirst (x i : nat)
  | MxSnocId (l : mixedlist) (x : nat)
  | MxSnocIdx (l : mixedlist) (x i : nat)
  | MxIdl (l : idlist) (x i : nat).
Inductive qlist :=
  | QIdl (l : idlist)            (* anylist -> idlist *)
  | QMixed (l : mixedlist)       (* anylist -> mixedlist *)
  | QArg (x : nat) (i : option nat).

(* the idlist branch reads children[0] as the ID and children[1] as the rest, but the
   grammar puts the rest first: with two or more ids, str(Tree) is appended and then
   Token.children raises AttributeError.  One id works. *)
Definition conv_idlist (regs : list reg) (l : idlist) : res (list nat) :=
  match l with
  | IdOne x => indices regs x
  | IdSnoc _ _ => ErrCrash
  end.

Fixpoint conv_mixed (regs : list reg) (l : mixedlist) : res (list nat) :=
  match l with
  | MxFirst x i => bind (first_index regs x) (fun f => Ok [f + i])
  | MxSnocId l x => bind (conv_mixed regs l) (fun a => bind (indices regs x) (fun b => Ok (a ++ b)))
  | MxSnocIdx l x i => bind (conv_mixed regs l) (fun a => bind (first_index regs x) (fun f => Ok (a ++ [f + i])))
  | MxIdl l x i => bind (conv_idlist regs l) (fun a => bind (first_index regs x) (fun f => Ok (a ++ [f + i])))
  end.

Definition convert_qubit_ids_to_indices (regs : list reg) (q : qlist) : res (list nat) :=
  match q with
  | QIdl l => conv_idlist regs l
  | QMixed l => conv_mixed regs l
  | QArg x (Some i) => bind (first_index regs x) (fun f => Ok [f + i])
  | QArg x None => indices regs x
  end.

(* the intended reading of an argument list (specification): items in order, a bare
   register name stands for all its qubits *)
Inductive qarg := AWhole (x : nat) | AIdx (x i : nat).
Fixpoint ids_of (l : idlist) : list qarg :=
  match l with IdOne x => [AWhole x] | IdSnoc l x => ids_of l ++ [AWhole x] end.
Fixpoint args_of_mixed (l : mixedlist) : list qarg :=
  match l with
  | MxFirst x i => [AIdx x i]
  | MxSnocId l x => args_of_mixed l ++ [AWhole x]
  | MxSnocIdx l x i => args_of_mixed l ++ [AIdx x i]
  | MxIdl l x i => ids_of l ++ [AIdx x i]
  end.
Definition args_of (q : qlist) : list qarg :=
  match q with
  | QIdl l => ids_of l
  | QMixed l => args_of_mixed l
  | QArg x (Some i) => [AIdx x i]
  | QArg x None => [AWhole x]
  end.

(* sum of the sizes of the registers declared before x / size of x *)
Fixpoint offset_of (regs : list reg) (x : nat) : option nat :=
  match regs with
  | [] => None
  | (n, sz) :: t => if Nat.eqb n x then Some 0 else option_map (fun o => sz + o) (offset_of t x)
  end.
Fixpoint size_of (regs : list reg) (x : nat) : option nat :=
  match regs with
  | [] => None
  | (n, sz) :: t => if Nat.eqb n x then Some sz else size_of t x
  end.
Definition total (regs : list reg) : nat := fold_right (fun r a => snd r + a) 0 regs.

Definition spec_arg (regs : list reg) (a : qarg) : option (list nat) :=
  match a with
  | AIdx x i => option_map (fun o => [o + i]) (offset_of regs x)
  | AWhole x => match offset_of regs x, size_of regs x with
                | Some o, Some sz => Some (map (fun i => o + i) (seq 0 sz))
                | _, _ => None
                end
  end.
Fixpoint spec_args (regs : list reg) (l : list qarg) : option (list nat) :=
  match l with
  | [] => Some []
  | a :: t => match spec_arg regs a, spec_args regs t with
              | Some x, Some y => Some (x ++ y)
              | _, _ => None
              end
  end.

(* ---- statement-level register walks (each has its own loop in the code) ---- *)
(* cxgate: no break - the LAST register with the name wins (names are unique) *)
Fixpoint cx_walk (regs : list reg) (c t ci ti outer : nat) (cl tl : option nat) : option nat * option nat :=
  match regs with
  | [] => (cl, tl)
  | (n, sz) :: r =>
      cx_walk r c t ci ti (outer + sz)
        (if Nat.eqb n c then Some (outer + ci) else cl)
        (if Nat.eqb n t then Some (outer + ti) else tl)
  end.
Definition cxgate (regs : list reg) (c ci t ti : nat) : res (list nat) :=
  match cx_walk regs c t ci ti 0 None None with
  | (Some a, Some b) => if Nat.eqb a b then ErrLang else Ok [a; b]
  | _ => ErrLang
  end.
(* ugate: same walk as first_index *)
Definition ugate (regs : list reg) (x i : nat) : res (list nat) :=
  bind (first_index regs x) (fun f => Ok [f + i]).

(* reset: `reset q[i];` converts the argument; `reset q;` ignores the name and resets
   range(self.qubit_regs[0][1]) - the FIRST register, whatever was written. *)
Definition reset_locs (regs : list reg) (x : nat) (i : option nat) : res (list nat) :=
  match i with
  | Some k => bind (first_index regs x) (fun f => Ok [f + k])
  | None => match regs with [] => ErrCrash | (_, sz) :: _ => Ok (seq 0 sz) end
  end.

(* measure q[i] -> c[j]: the operation's location is converted properly, but the key
   stored in MeasurementPlaceholder.measurements is the register-LOCAL index i.
   measure q -> c: keys are flat (outer_idx + i).   Returns (location, keys). *)
Definition measure_keys (regs : list reg) (x : nat) (i : option nat) : res (list nat * list nat) :=
  match i with
  | Some k => bind (first_index regs x) (fun f => Ok ([f + k], [k]))
  | None => bind (indices regs x) (fun l => Ok (l, l))
  end.
