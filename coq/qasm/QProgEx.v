(* C17 - concrete witnesses for the program-level round trip (qasm/QProg.v) over the
   generated tables, with integer arithmetic. *)
From Coq Require Import String List Bool Arith ZArith.
Import ListNotations.
From BQ Require Import qasm.QExp qasm.QRegs qasm.QTable qasm.QGate qasm.QEnc qasm.QProg qasm.QRefute gen.QasmTable.
Local Open Scope list_scope.

Definition gid (s : string) : nat :=
  match find (fun g => opt_str_eqb (l_spelling g) s) lib_gates with Some g => l_gate g | None => 0 end.

(* a naming of CircuitGates that separates the shapes used below *)
Definition ex_nm (nv : nat) (sb : list (uop unit)) : nat := 10 * nv + length sb.

Definition ex_inner : list (uop Z) :=
  [ULib (gid "u3") [0] [1; -2; 3]%Z; ULib (gid "cx") [0; 1] []; ULib (gid "rz") [1] [5%Z]].
Definition ex_mid : uop Z :=
  UCirc 3 [ULib (gid "rx") [1] [7%Z]; UCirc 2 ex_inner [2; 0]; ULib (gid "cx") [0; 1] []; ULib (gid "rz") [0] [(-4)%Z]] [2; 0; 1].
Definition ex_meas : cop Z := CMeasure [(0, 3)] [(0, (0, 0)); (2, (0, 1))] [0; 2].
Definition ex_gs : list (cop Z) := [ex_meas; CU ex_mid].
Definition ex_circ : list (cop Z) :=
  [CU (ULib (gid "h") [1] []); CU ex_mid; CBarrier [0; 2]; CReset [1]; ex_meas; CU ex_mid].

Example prog_example :
  circ_okb ex_nm lib_gates 3 ex_gs ex_circ = true /\
  decode_prog Zops true cur_bound zsplit dec_table lib_gates 0 3 (encode_with ex_nm zsplit ex_gs ex_circ)
    = Ok ([(0, 3)], concat (map expect ex_circ)) /\
  length (encode_with ex_nm zsplit ex_gs ex_circ) = 10 /\
  uparams ex_mid = [7; 1; -2; 3; 5; -4]%Z /\
  nth_error (encode_with ex_nm zsplit ex_gs ex_circ) 2 =
    Some (SGateDef 34 6 3 [mkBL (KSpell (gid "rx")) [0] [1]; mkBL (KCirc 23) [1; 2; 3; 4] [2; 0];
                           mkBL (KSpell (gid "cx")) [] [0; 1]; mkBL (KSpell (gid "rz")) [5] [0]]).
Proof. repeat split; vm_compute; reflexivity. Qed.

(* the printed tokens of a call and of a measurement *)
Example toks_example :
  toks_stmt (SCall (KCirc 34) [(false, 7%Z); (true, 2%Z)] [2; 0]) =
    [TkCirc 34; TkSy SyL; TkLit (false, 7%Z); TkSy SyComma; TkLit (true, 2%Z); TkSy SyR;
     TkQ; TkSy SyLB; TkInt 2; TkSy SyRB; TkSy SyComma; TkQ; TkSy SyLB; TkInt 0; TkSy SyRB; TkSy SySemi] /\
  toks_stmt (V := Z) (SGateDef 5 0 2 [mkBL (KSpell 9) [] [1; 0]]) =
    [TkKw KwGate; TkCirc 5; TkQn 0; TkSy SyComma; TkQn 1; TkSy SyLC; TkSpell 9; TkQn 1; TkSy SyComma; TkQn 0; TkSy SySemi; TkSy SyRC].
Proof. split; reflexivity. Qed.

(* finding C17-creg: two measurement gates (as the decoder itself produces for
   `measure q[0] -> c[0]; measure q[1] -> c[1];`) *)
Example creg_example :
  decode_prog Zops true cur_bound zsplit dec_table lib_gates 0 2
    (encode_with ex_nm zsplit [CMeasure [(0, 2)] [(0, (0, 0))] [0]; CMeasure [(0, 2)] [(1, (0, 1))] [1]]
                              [CMeasure [(0, 2)] [(0, (0, 0))] [0]; CMeasure [(0, 2)] [(1, (0, 1))] [1]])
  = ErrLang.
Proof. vm_compute. reflexivity. Qed.
