(* C17 - proofs about qasm/QGate.v: instantiating a user-defined gate (textual
   substitution of the actual parameters into the stored trees, flatten, python
   evaluation, recursively for nested definitions) computes exactly the operations of
   the environment semantics, at any nesting depth - for the repaired flattening. *)
From Coq Require Import List Bool Arith Lia.
Import ListNotations.
From BQ Require Import qasm.QExp qasm.QExpThm qasm.QGate.

Section GateThm.
Context {V : Type}.
Variable O : ops V.
Variable bound : fn -> bool.
Variable vsplit : V -> actual V.
Hypothesis split_ok : forall v, aval O (vsplit v) = v.   (* str(float) reads back as the same float *)

(* induction principle for the nested type sdef *)
Fixpoint sdef_rect' (P : sdef V -> Prop)
  (Hb : forall g, P (SBuiltin g))
  (Hc : forall fs nv body, Forall (fun st => P (fst (fst st))) body -> P (SCustom fs nv body))
  (d : sdef V) : P d :=
  match d with
  | SBuiltin g => Hb g
  | SCustom fs nv body =>
      Hc fs nv body
        ((fix go (l : list (sdef V * list nat * list (exp V))) : Forall (fun st => P (fst (fst st))) l :=
            match l with
            | [] => Forall_nil _
            | st :: t => Forall_cons st (sdef_rect' P Hb Hc (fst (fst st))) (go t)
            end) body)
  end.

Lemma ev_env_ext : forall b (e1 e2 : nat -> option V), (forall x, e1 x = e2 x) ->
  (forall s, evS O b e1 s = evS O b e2 s) /\ (forall t, evT O b e1 t = evT O b e2 t)
  /\ (forall f, evF O b e1 f = evF O b e2 f) /\ (forall a, evA O b e1 a = evA O b e2 a).
Proof.
  intros b e1 e2 Hx. apply (ntree_ind V); simpl; intros; auto; try (rewrite ?H, ?H0; reflexivity).
  - destruct n; auto.
Qed.

Lemma env_of_vals : forall fs ps x, env_of O fs (map vsplit ps) x = env_vals fs ps x.
Proof.
  intros. unfold env_of, env_vals. destruct (index_of x fs) as [i|]; auto.
  rewrite nth_error_map. destruct (nth_error ps i); simpl; auto. now rewrite split_ok.
Qed.

Lemma forallb_In : forall (l : list fn), forallb bound l = true -> forall f, In f l -> bound f = true.
Proof. intros l H f Hf. rewrite forallb_forall in H. auto. Qed.

(* one stored parameter expression *)
Lemma pe_faithful : forall fs ps e pe,
  wf_exp bound e = true -> compile_pe O true bound fs e = Some pe ->
  eval_pe O true bound vsplit ps pe = denote_env O (env_vals fs ps) e.
Proof.
  intros fs ps e pe Hwf Hc. unfold wf_exp in Hwf.
  apply andb_prop in Hwf; destruct Hwf as [Hwf Hfn]. apply andb_prop in Hwf; destruct Hwf as [Hok Hsrc].
  pose proof (bind_faithful O fs (map vsplit ps) bound e Hok Hsrc (forallb_In _ Hfn)) as HB.
  assert (HE : denote_env O (env_of O fs (map vsplit ps)) e = denote_env O (env_vals fs ps) e).
  { unfold denote_env. apply (ev_env_ext all_fns _ _ (env_of_vals fs ps)). }
  unfold compile_pe in Hc. destruct (hasE fs e) eqn:Hh.
  - injection Hc as <-. simpl. now rewrite HB.
  - destruct (eval_exp O true bound e) as [v|] eqn:Ev; [|discriminate]. injection Hc as <-. simpl.
    rewrite <- HE, <- HB.
    pose proof (proj1 (sb_nohas fs (map vsplit ps)) e Hsrc Hh) as Hsb. unfold sbE in Hsb.
    rewrite Hsb. now rewrite Ev.
Qed.

Lemma pes_faithful : forall fs ps es pes,
  forallb (wf_exp bound) es = true -> mapM (compile_pe O true bound fs) es = Some pes ->
  mapM (eval_pe O true bound vsplit ps) pes = mapM (denote_env O (env_vals fs ps)) es.
Proof.
  induction es as [|e es IH]; intros pes Hwf Hc; simpl in *.
  - injection Hc as <-. reflexivity.
  - apply andb_prop in Hwf; destruct Hwf as [He Hes].
    destruct (compile_pe O true bound fs e) as [pe|] eqn:E1; [|discriminate].
    destruct (mapM (compile_pe O true bound fs) es) as [pes'|] eqn:E2; [|discriminate].
    injection Hc as <-. simpl. rewrite (pe_faithful fs ps e pe He E1), (IH pes' Hes eq_refl). reflexivity.
Qed.

Theorem build_spec : forall d g,
  wf bound d = true -> compile O true bound d = Some g ->
  forall loc ps, build O true bound vsplit g loc ps = spec O d loc ps.
Proof.
  induction d as [g0|fs nv body IH] using sdef_rect'; intros g Hwf Hc loc ps.
  - simpl in Hc. injection Hc as <-. reflexivity.
  - simpl in Hc, Hwf.
    match type of Hc with option_map _ ?m = _ => destruct m as [cb|] eqn:Em; [|discriminate] end.
    injection Hc as <-. simpl. f_equal.
    revert cb Em. induction body as [|[[d' l'] es] body IHb]; intros cb Em; simpl in *.
    + injection Em as <-. reflexivity.
    + inversion IH as [|? ? IHd IHrest]; subst. simpl in IHd.
      apply andb_prop in Hwf; destruct Hwf as [Hst Hrest]. apply andb_prop in Hst; destruct Hst as [Hd Hes].
      destruct (compile O true bound d') as [gd|] eqn:E1; [|discriminate].
      destruct (mapM (compile_pe O true bound fs) es) as [pes|] eqn:E2; [|discriminate].
      match type of Em with match ?m with _ => _ end = _ => destruct m as [cb'|] eqn:E3; [|discriminate] end.
      injection Em as <-. simpl.
      rewrite (pes_faithful fs ps es pes Hes E2).
      rewrite (IHb IHrest Hrest cb' eq_refl).
      destruct (mapM (denote_env O (env_vals fs ps)) es) as [sub|]; auto.
      now rewrite (IHd gd Hd eq_refl).
Qed.

End GateThm.
