(* C17 - table theorems (over the generated gen/QasmTable.v, by vm_compute of the
   boolean checkers) and the statement-level encode/decode round trip. *)
From Coq Require Import String List Bool Arith Lia.
Import ListNotations.
From BQ Require Import qasm.QExp qasm.QExpThm qasm.QRegs qasm.QRegsThm qasm.QTable qasm.QGate qasm.QEnc.
From BQ Require Import gen.QasmTable.
Open Scope string_scope.

(* ------------------------------------------------------------ generic lemmas *)
Lemma mem_str_In : forall s l, mem_str s l = true <-> In s l.
Proof.
  induction l as [|x t IH]; simpl; [split; [discriminate | tauto]|].
  rewrite orb_true_iff, IH, String.eqb_eq. tauto.
Qed.

Lemma rt_ok_sound : forall tbl lib, forallb (rt_ok tbl) lib = true ->
  forall g s, In g lib -> l_spelling g = Some s -> ~ In s rt_exceptions ->
  decode_name tbl s = Some (l_gate g, l_np g, l_nq g).
Proof.
  intros tbl lib H g s Hg Hs Hex. rewrite forallb_forall in H. specialize (H g Hg).
  unfold rt_ok in H. rewrite Hs in H. apply orb_prop in H. destruct H as [H|H].
  - exfalso. apply Hex. now apply mem_str_In.
  - destruct (decode_name tbl s) as [[[gid np] nv]|]; [|discriminate].
    apply andb_prop in H; destruct H as [H H3]. apply andb_prop in H; destruct H as [H1 H2].
    apply Nat.eqb_eq in H1, H2, H3. now subst.
Qed.

(* ------------------------------------------------- the generated tables (D13) *)
Theorem table_names_unique : nodup_str (map d_name dec_table) = true.
Proof. vm_compute. reflexivity. Qed.

Theorem table_bijective : forall g s, In g lib_gates -> l_spelling g = Some s ->
  ~ In s rt_exceptions ->
  decode_name dec_table s = Some (l_gate g, l_np g, l_nq g).
Proof. apply rt_ok_sound. vm_compute. reflexivity. Qed.

(* the three D13 spellings really fail (so the exception list is not padding) *)
Theorem table_d13_fail :
  decode_name dec_table "diag" = None /\ decode_name dec_table "st" = None /\
  (exists g gid, In g lib_gates /\ l_spelling g = Some "pxz" /\
     decode_name dec_table "pxz" = Some (gid, 1, 3) /\ l_np g = 3 /\ l_nq g = 1).
Proof.
  split; [vm_compute; reflexivity|]. split; [vm_compute; reflexivity|].
  destruct (find (fun g => match l_spelling g with Some s => String.eqb s "pxz" | None => false end) lib_gates)
    as [g|] eqn:E; [|vm_compute in E; discriminate].
  exists g. destruct (find_some _ _ E) as [Hin Hs].
  vm_compute in E. injection E as <-. eexists. split; [exact Hin|].
  repeat split; vm_compute; reflexivity.
Qed.

Theorem table_arity_consistent : forall e, In e dec_table -> d_name e <> "pxz" ->
  exists g, ginfo_of gate_info (d_gate e) = Some g /\ d_np e = g_np g /\ d_nv e = g_nq g.
Proof.
  assert (H : forallb (dec_consistent gate_info) dec_table = true) by (vm_compute; reflexivity).
  intros e He Hn. rewrite forallb_forall in H. specialize (H e He). unfold dec_consistent in H.
  apply orb_prop in H. destruct H as [H|H].
  - apply mem_str_In in H. destruct H as [H|[]]. congruence.
  - destruct (ginfo_of gate_info (d_gate e)) as [g|]; [|discriminate]. exists g.
    apply andb_prop in H; destruct H as [H1 H2]. apply Nat.eqb_eq in H1, H2. auto.
Qed.

(* functions usable in expressions: the grammar spells them as OpenQASM does and
   eval_locals binds them - except, possibly, exp and sqrt (D5) *)
Theorem fn_names : forall f, fn_ok unaryop_table f = true \/ In f fn_exceptions.
Proof. intros []; vm_compute; auto 10. Qed.

Theorem fn_ok_bound : forall f, fn_ok unaryop_table f = true -> fn_bound unaryop_table f = true.
Proof.
  intros f. unfold fn_ok, fn_bound. destruct (unary_entry unaryop_table f) as [[s b]|]; [|discriminate].
  intros H. now apply andb_prop in H.
Qed.

(* ------------------------------------------------------- statement round trip *)
Section RT.
Local Open Scope list_scope.
Context {V : Type}.
Variable O : ops V.
Variable bound : fn -> bool.
Variable vsplit : V -> actual V.
Hypothesis split_ok : forall v, aval O (vsplit v) = v.

Lemma lit_eval : forall fx a, eval_exp O fx bound (lit_tree a) = Some (aval O a).
Proof. intros [|] [[|] v]; reflexivity. Qed.

Lemma params_rt : forall fx ps,
  mapM (fun a => eval_exp O fx bound (lit_tree a)) (map vsplit ps) = Some ps.
Proof.
  induction ps as [|p ps IH]; simpl; auto. rewrite lit_eval, IH, split_ok. reflexivity.
Qed.

Lemma conv_mixed_of : forall n q rest a0,
  conv_mixed [(q, n)] (mixed_of q a0 rest) = Ok (a0 :: rest).
Proof.
  intros n q rest a0. unfold mixed_of.
  assert (G : forall rest acc l, conv_mixed [(q, n)] acc = Ok l ->
            conv_mixed [(q, n)] (fold_left (fun l a => MxSnocIdx l q a) rest acc) = Ok (l ++ rest)).
  { induction rest0 as [|a r IH]; intros acc l H; simpl.
    - now rewrite app_nil_r.
    - rewrite (IH (MxSnocIdx acc q a) (l ++ [a])).
      + now rewrite <- app_assoc.
      + simpl. rewrite H. unfold first_index. simpl. rewrite Nat.eqb_refl. reflexivity. }
  apply (G rest (MxFirst q a0) [a0]). simpl. unfold first_index. simpl. now rewrite Nat.eqb_refl.
Qed.

Lemma spelling_of_in : forall lib gid s, spelling_of lib gid = Some s ->
  exists g, In g lib /\ l_gate g = gid /\ l_spelling g = Some s.
Proof.
  induction lib as [|g t IH]; intros gid s H; simpl in *; [discriminate|].
  destruct (Nat.eqb (l_gate g) gid) eqn:E.
  - exists g. apply Nat.eqb_eq in E. auto.
  - destruct (IH gid s H) as [g' [H1 H2]]. exists g'. auto.
Qed.

(* an operation the library can print and the table reads back *)
Definition op_ok (lib : list lib_gate) (o : op V) : Prop :=
  o_loc o <> [] /\
  exists s, spelling_of lib (o_gate o) = Some s /\ ~ In s rt_exceptions /\
  forall g, In g lib -> l_gate g = o_gate o -> l_spelling g = Some s ->
            length (o_params o) = l_np g /\ length (o_loc o) = l_nq g.

Lemma op_okb_ok : forall lib o, op_okb lib o = true -> op_ok lib o.
Proof.
  intros lib o H. unfold op_okb in H. apply andb_prop in H; destruct H as [Hl H].
  split; [destruct (o_loc o); [discriminate | congruence]|].
  destruct (spelling_of lib (o_gate o)) as [s|]; [|discriminate]. exists s. split; auto.
  apply andb_prop in H; destruct H as [Hex Hall]. split.
  - intros Hin. apply mem_str_In in Hin. rewrite Hin in Hex. discriminate.
  - intros g Hg Hid Hsp. rewrite forallb_forall in Hall. specialize (Hall g Hg).
    rewrite Hid, Nat.eqb_refl, Hsp in Hall. simpl in Hall. rewrite String.eqb_refl in Hall.
    apply andb_prop in Hall; destruct Hall as [A B]. apply Nat.eqb_eq in A, B. auto.
Qed.

Theorem line_roundtrip : forall fx tbl lib n q o,
  forallb (rt_ok tbl) lib = true -> op_ok lib o ->
  exists l, enc_op vsplit lib o = Some l /\ dec_line O fx bound [(q, n)] tbl q l = Ok o.
Proof.
  intros fx tbl lib n q [gid loc ps] Hrt [Hloc [s [Hs [Hex Har]]]]. simpl in *.
  unfold enc_op. simpl. rewrite Hs. eexists. split; [reflexivity|].
  unfold dec_line. simpl. rewrite params_rt.
  destruct loc as [|a0 rest]; [congruence|]. rewrite conv_mixed_of. simpl.
  destruct (spelling_of_in lib gid s Hs) as [g [Hin [Hg Hsp]]].
  pose proof (rt_ok_sound tbl lib Hrt g s Hin Hsp Hex) as Hd.
  unfold decode_name in Hd. destruct (lookup tbl s) as [e|]; [|discriminate].
  injection Hd as H1 H2 H3. destruct (Har g Hin Hg Hsp) as [Hp Hl].
  rewrite H2, Hp, Nat.eqb_refl, H3, <- Hl. simpl. rewrite Nat.eqb_refl. now rewrite H1, Hg.
Qed.

Theorem roundtrip_ops : forall fx tbl lib n q c,
  forallb (rt_ok tbl) lib = true -> Forall (op_ok lib) c ->
  exists ls, encode vsplit lib c = Some ls /\ decode O fx bound tbl n q ls = map Ok c.
Proof.
  intros fx tbl lib n q c Hrt. induction 1 as [|o c Ho Hc IH]; simpl.
  - exists []. auto.
  - destruct IH as [ls [E D]]. destruct (line_roundtrip fx tbl lib n q o Hrt Ho) as [l [E1 D1]].
    exists (l :: ls). unfold encode in *. simpl. rewrite E1, E. split; auto.
    unfold decode in *. simpl. now rewrite D1, D.
Qed.
(* same per-qubit operation order *)
Corollary roundtrip_proj : forall fx tbl lib n q c,
  forallb (rt_ok tbl) lib = true -> Forall (op_ok lib) c ->
  exists ls d, encode vsplit lib c = Some ls /\ decode O fx bound tbl n q ls = map Ok d /\
    forall x, proj x d = proj x c.
Proof.
  intros fx tbl lib n q c Hrt Hc. destruct (roundtrip_ops fx tbl lib n q c Hrt Hc) as [ls [E D]].
  exists ls, c. auto.
Qed.
End RT.

(* ------------------------------ formal parameters of a CircuitGate definition *)
Section Formals.
Local Open Scope list_scope.
Lemma body_formals_from_concat : forall ops k,
  concat (body_formals_from ops k) = seq k (gate_num_params ops).
Proof.
  induction ops as [|[b n] t IH]; intros k; simpl; auto.
  assert (E : (if b then k + n else k + n) = k + n) by (destruct b; reflexivity).
  rewrite E, IH. now rewrite <- seq_app.
Qed.

(* the body lines use exactly the header's formals p0..p{n-1}, each once, in body order *)
Theorem body_formals_partition : forall ops,
  concat (body_formals ops) = header_formals ops /\ NoDup (concat (body_formals ops)).
Proof.
  intros ops. unfold body_formals, header_formals. rewrite body_formals_from_concat.
  split; [reflexivity | apply seq_NoDup].
Qed.

(* line i gets the contiguous slice that starts at the sum of the earlier num_params *)
Theorem body_formals_nth : forall ops i b n,
  nth_error ops i = Some (b, n) ->
  nth_error (body_formals ops) i = Some (seq (gate_num_params (firstn i ops)) n).
Proof.
  intros ops i b n. unfold body_formals.
  assert (G : forall ops i k, nth_error ops i = Some (b, n) ->
            nth_error (body_formals_from ops k) i = Some (seq (k + gate_num_params (firstn i ops)) n)).
  { induction ops0 as [|[b' n'] t IH]; intros i0 k H; destruct i0; simpl in *; try discriminate.
    - injection H as -> ->. now rewrite Nat.add_0_r.
    - assert (E : (if b' then k + n' else k + n') = k + n') by (destruct b'; reflexivity).
      rewrite E, (IH i0 (k + n') H). f_equal. f_equal. lia. }
  intros H. now rewrite (G ops i 0 H).
Qed.

(* hence instantiating the definition with the gate's parameter vector (the
   concatenation of the body operations' parameters) hands every body operation its own
   parameters back, nested CircuitGates included *)
Theorem body_formals_select : forall (A : Type) (pss : list (bool * list A)),
  map (select (concat (map snd pss)))
      (body_formals (map (fun p => (fst p, length (snd p))) pss))
  = map (fun p => map Some (snd p)) pss.
Proof.
  intros A pss. unfold body_formals.
  assert (G : forall pss (pre : list A),
            map (select (pre ++ concat (map snd pss)))
                (body_formals_from (map (fun p => (fst p, length (snd p))) pss) (length pre))
            = map (fun p => map Some (snd p)) pss).
  { induction pss0 as [|[b ps] t IH]; intros pre; simpl; auto.
    assert (E : (if b then length pre + length ps else length pre + length ps) = length pre + length ps)
      by (destruct b; reflexivity).
    rewrite E. f_equal.
    - unfold select. clear. revert pre. induction ps as [|x ps IHp]; intros pre; simpl; auto.
      f_equal.
      + rewrite nth_error_app2 by lia. now rewrite Nat.sub_diag.
      + specialize (IHp (pre ++ [x])). rewrite app_length in IHp. simpl in IHp.
        rewrite <- app_assoc in IHp. simpl in IHp.
        replace (S (length pre)) with (length pre + 1) by lia. exact IHp.
    - specialize (IH (pre ++ ps)). rewrite app_length, <- app_assoc in IH. exact IH. }
  exact (G pss []).
Qed.
End Formals.

(* instantiated with the generated tables *)
Theorem rt_tables_ok : forallb (rt_ok dec_table) lib_gates = true.
Proof. vm_compute. reflexivity. Qed.
