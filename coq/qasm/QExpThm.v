(* C17 - proofs about qasm/QExp.v.
   Main results:
     flat_norm        the repaired flattening prints exactly the python parse tree
                      that the standard reading (normE) assigns to a Lark tree
     parse_print      python-grammar parser after printer is the identity (fuel ok)
     exp_faithful     eval_exp O true bound e = denote O e
     denote_naive     denote = naive compositional semantics on simple trees
     subst_denote     textual substitution of actuals = evaluation in an environment *)
From Coq Require Import List Bool Arith Lia.
Import ListNotations.
From BQ Require Import qasm.QExp.

Scheme exp_mut := Induction for exp Sort Prop
  with mulexp_mut := Induction for mulexp Sort Prop
  with prim_mut := Induction for prim Sort Prop.
Combined Scheme tree_ind from exp_mut, mulexp_mut, prim_mut.

Scheme nsum_mut := Induction for nsum Sort Prop
  with nterm_mut := Induction for nterm Sort Prop
  with nfac_mut := Induction for nfac Sort Prop
  with natom_mut := Induction for natom Sort Prop.
Combined Scheme ntree_ind from nsum_mut, nterm_mut, nfac_mut, natom_mut.

Section Thm.
Context {V : Type}.
Variable O : ops V.

Notation exp := (exp V). Notation mulexp := (mulexp V). Notation prim := (prim V).
Notation tok := (tok V).
Notation nsum := (nsum V). Notation nterm := (nterm V). Notation nfac := (nfac V). Notation natom := (natom V).
Local Arguments sapp : simpl never.
Local Arguments tapp : simpl never.

(* ------------------------------------------------------------------ printer *)
Fixpoint prS (s : nsum) : list tok :=
  match s with SOne t => prT t | SSnoc s o t => prS s ++ tok_add o :: prT t end
with prT (t : nterm) : list tok :=
  match t with TOne f => prF f | TSnoc t o f => prT t ++ tok_mul o :: prF f end
with prF (f : nfac) : list tok :=
  match f with
  | FNeg f => TSub :: prF f
  | FPow a f => prA a ++ TPow :: prF f
  | FAtom a => prA a
  end
with prA (a : natom) : list tok :=
  match a with
  | ANum v => [TNum v]
  | AName n => [TName n]
  | ACall n s => TName n :: TLp :: prS s ++ [TRp]
  | AParen s => TLp :: prS s ++ [TRp]
  end.

Definition prAT (tl : atail V) : list tok := flat_map (fun ot => tok_add (fst ot) :: prT (snd ot)) tl.
Definition prMT (tl : mtail V) : list tok := flat_map (fun of => tok_mul (fst of) :: prF (snd of)) tl.

Lemma prS_sapp : forall tl s, prS (sapp s tl) = prS s ++ prAT tl.
Proof.
  induction tl as [|[o t] tl IH]; intros s; simpl.
  - now rewrite app_nil_r.
  - unfold sapp in *. simpl. rewrite IH. simpl. now rewrite <- app_assoc.
Qed.

Lemma prT_tapp : forall tl t, prT (tapp t tl) = prT t ++ prMT tl.
Proof.
  induction tl as [|[o f] tl IH]; intros t; simpl.
  - now rewrite app_nil_r.
  - unfold tapp in *. simpl. rewrite IH. simpl. now rewrite <- app_assoc.
Qed.

Lemma prAT_app : forall a b, prAT (a ++ b) = prAT a ++ prAT b.
Proof. intros. unfold prAT. now rewrite flat_map_app. Qed.
Lemma prMT_app : forall a b, prMT (a ++ b) = prMT a ++ prMT b.
Proof. intros. unfold prMT. now rewrite flat_map_app. Qed.

Lemma unS_spec : forall s, s = sapp (SOne (fst (unS s))) (snd (unS s))
                           /\ prS s = prT (fst (unS s)) ++ prAT (snd (unS s)).
Proof.
  induction s as [t|s [IH1 IH2] o t]; simpl.
  - split; [reflexivity | now rewrite app_nil_r].
  - destruct (unS s) as [h tl]; simpl in *. split.
    + unfold sapp in *. rewrite fold_left_app. simpl. now rewrite <- IH1.
    + rewrite IH2, prAT_app. simpl. now rewrite app_nil_r, <- app_assoc.
Qed.

Lemma unT_spec : forall t, t = tapp (TOne (fst (unT t))) (snd (unT t))
                           /\ prT t = prF (fst (unT t)) ++ prMT (snd (unT t)).
Proof.
  induction t as [f|t [IH1 IH2] o f]; simpl.
  - split; [reflexivity | now rewrite app_nil_r].
  - destruct (unT t) as [h tl]; simpl in *. split.
    + unfold tapp in *. rewrite fold_left_app. simpl. now rewrite <- IH1.
    + rewrite IH2, prMT_app. simpl. now rewrite app_nil_r, <- app_assoc.
Qed.

(* -------------------------------------------- A: flatten_fixed = print . norm *)
Definition A_E (e : exp) := okE e = true -> prS (normE e) = flatE true e.
Definition A_M (m : mulexp) := okM m = true ->
  prT (fst (normM m)) ++ prAT (snd (normM m)) = flatM true m
  /\ (openM m = false -> snd (normM m) = []).
Definition A_P (p : prim) := okP p = true ->
  prF (fst (fst (normP p))) ++ prMT (snd (fst (normP p))) ++ prAT (snd (normP p)) = flatP true p
  /\ (openP p = false -> snd (fst (normP p)) = [] /\ snd (normP p) = []).

Lemma flat_norm_all : (forall e, A_E e) /\ (forall m, A_M m) /\ (forall p, A_P p).
Proof.
  apply (tree_ind V); unfold A_E, A_M, A_P; simpl.
  - (* EOne *) intros m IH Hok. destruct (IH Hok) as [H _].
    destruct (normM m) as [t at_]; simpl in *. now rewrite prS_sapp.
  - (* ESnoc *) intros e IHe o m IHm Hok.
    apply andb_prop in Hok; destruct Hok as [Hok Hm]. apply andb_prop in Hok; destruct Hok as [_ He].
    destruct (IHm Hm) as [H _]. specialize (IHe He).
    destruct (normM m) as [t at_]; simpl in *.
    rewrite prS_sapp. simpl. rewrite IHe, <- H. now rewrite <- app_assoc.
  - (* MOne *) intros p IH Hok. destruct (IH Hok) as [H Hc].
    destruct (normP p) as [[f mt] at_]; simpl in *. split.
    + rewrite prT_tapp. simpl. now rewrite <- app_assoc.
    + intros Ho. now destruct (Hc Ho).
  - (* MSnoc *) intros m IHm o p IHp Hok.
    apply andb_prop in Hok; destruct Hok as [Hok Hp]. apply andb_prop in Hok; destruct Hok as [Hop Hm].
    apply negb_true_iff in Hop.
    destruct (IHm Hm) as [Hm1 Hm2]. specialize (Hm2 Hop).
    destruct (IHp Hp) as [Hp1 Hp2].
    destruct (normP p) as [[f mt] at_]; simpl in *.
    destruct (normM m) as [t atm]; simpl in *. subst atm. rewrite app_nil_r in Hm1. split.
    + rewrite prT_tapp. simpl. rewrite Hm1, <- Hp1. rewrite <- !app_assoc. reflexivity.
    + intros Ho. now destruct (Hp2 Ho).
  - (* PParen *) intros e IH Hok. rewrite (IH Hok). simpl. rewrite !app_nil_r. auto.
  - intros v _. auto.
  - intros _. auto.
  - intros x _. auto.
  - intros i _. auto.
  - (* PVal *) intros s v _. destruct s; simpl; auto.
  - (* PPow *) intros b IHb x IHx Hok.
    apply andb_prop in Hok; destruct Hok as [Hok Hx]. apply andb_prop in Hok; destruct Hok as [Hat Hb].
    destruct (IHx Hx) as [Hx1 Hx2]. specialize (IHb Hb).
    destruct (normP x) as [[f mt] at_]; simpl in *. split.
    + rewrite <- Hx1. rewrite <- app_assoc. simpl. f_equal.
      destruct b; simpl in *; try discriminate; try reflexivity;
        destruct IHb as [IHb _]; rewrite ?app_nil_r in IHb; try exact IHb.
    + exact Hx2.
  - (* PUsub *) intros e IH Hok. specialize (IH Hok). split; [|discriminate].
    destruct (unS_spec (normE e)) as [_ H1].
    destruct (unS (normE e)) as [t at_]; simpl in *.
    destruct (unT_spec t) as [_ H2].
    destruct (unT t) as [f mt]; simpl in *.
    rewrite <- IH, H1, H2. now rewrite <- app_assoc.
  - (* PFn *) intros f e IH Hok. rewrite (IH Hok). simpl. rewrite !app_nil_r. auto.
Qed.

Lemma flat_norm : forall e, lark_ok e = true -> flatten_fixed e = prS (normE e).
Proof. intros e H. symmetry. exact (proj1 flat_norm_all e H). Qed.

(* --------------------------------------------------- B: parser after printer *)
Definition folS (r : list tok) : bool := match r with [] => true | TRp :: _ => true | _ => false end.
Definition folT (r : list tok) : bool := match r with TAdd :: _ | TSub :: _ => true | _ => folS r end.
Definition folF (r : list tok) : bool := match r with TMul :: _ | TDiv :: _ => true | _ => folT r end.
Definition folA (r : list tok) : bool := match r with TPow :: _ => true | _ => folF r end.

Definition R_A (a : natom) := forall n r, folA r = true -> 6 * length (prA a ++ r) + 1 <= n ->
  parse_primary n (prA a ++ r) = Some (a, r).
Definition R_F (f : nfac) := forall n r, folF r = true -> 6 * length (prF f ++ r) + 3 <= n ->
  parse_factor n (prF f ++ r) = Some (f, r).
Definition R_T (t : nterm) := forall n r, folT r = true -> 6 * length (prT t ++ r) + 4 <= n ->
  parse_term n (prT t ++ r) = Some (t, r).
Definition R_S (s : nsum) := forall n r, folS r = true -> 6 * length (prS s ++ r) + 5 <= n ->
  parse_sum n (prS s ++ r) = Some (s, r).

Fixpoint AllT (P : nterm -> Prop) (s : nsum) : Prop :=
  match s with SOne t => P t | SSnoc s _ t => AllT P s /\ P t end.
Fixpoint AllF (P : nfac -> Prop) (t : nterm) : Prop :=
  match t with TOne f => P f | TSnoc t _ f => AllF P t /\ P f end.

Lemma AllT_un : forall P s, AllT P s -> P (fst (unS s)) /\ Forall (fun ot => P (snd ot)) (snd (unS s)).
Proof.
  induction s as [t|s IH o t]; simpl; intros H.
  - split; auto.
  - destruct H as [H1 H2]. destruct (IH H1) as [Ha Hb]. destruct (unS s) as [h tl]; simpl in *.
    split; auto. apply Forall_app. split; auto.
Qed.
Lemma AllF_un : forall P t, AllF P t -> P (fst (unT t)) /\ Forall (fun of => P (snd of)) (snd (unT t)).
Proof.
  induction t as [f|t IH o f]; simpl; intros H.
  - split; auto.
  - destruct H as [H1 H2]. destruct (IH H1) as [Ha Hb]. destruct (unT t) as [h tl]; simpl in *.
    split; auto. apply Forall_app. split; auto.
Qed.

Lemma prA_head : forall a, exists t l, prA a = t :: l /\
  match t with TNum _ | TName _ | TLp => True | _ => False end.
Proof. destruct a; simpl; do 2 eexists; (split; [reflexivity | exact I]). Qed.

Lemma prF_nonempty : forall f, 1 <= length (prF f).
Proof. destruct f; simpl; try lia. - rewrite app_length. simpl. lia.
  - destruct (prA_head a) as [t [l [H _]]]. rewrite H. simpl. lia. Qed.

Lemma term_loop_tail : forall tl acc n r,
  Forall (fun of => R_F (snd of)) tl -> folT r = true ->
  6 * length (prMT tl ++ r) + 1 <= n ->
  term_loop n acc (prMT tl ++ r) = Some (tapp acc tl, r).
Proof.
  induction tl as [|[o f] tl IH]; intros acc n r HF Hr Hn.
  - simpl in *. destruct n as [|n]; [lia|]. simpl.
    destruct r as [|[] r]; simpl in *; try discriminate; reflexivity.
  - inversion HF as [|? ? Hf HF']; subst. simpl in Hf.
    assert (Hfol : folF (prMT tl ++ r) = true).
    { destruct tl as [|[o' f'] tl]; simpl.
      - destruct r as [|[] r]; simpl in *; auto.
      - destruct o'; reflexivity. }
    change (prMT ((o, f) :: tl) ++ r) with (tok_mul o :: (prF f ++ prMT tl) ++ r) in *.
    rewrite <- app_assoc in *.
    destruct n as [|n]; [simpl in Hn; lia|].
    simpl in Hn.
    assert (Hpf : parse_factor n (prF f ++ prMT tl ++ r) = Some (f, prMT tl ++ r)).
    { apply Hf; auto. lia. }
    assert (Hrest : term_loop n (TSnoc acc o f) (prMT tl ++ r) = Some (tapp (TSnoc acc o f) tl, r)).
    { apply IH; auto. rewrite app_length in Hn. lia. }
    destruct o; simpl; rewrite Hpf; exact Hrest.
Qed.

Lemma sum_loop_tail : forall tl acc n r,
  Forall (fun ot => R_T (snd ot)) tl -> folS r = true ->
  6 * length (prAT tl ++ r) + 1 <= n ->
  sum_loop n acc (prAT tl ++ r) = Some (sapp acc tl, r).
Proof.
  induction tl as [|[o t] tl IH]; intros acc n r HF Hr Hn.
  - simpl in *. destruct n as [|n]; [lia|]. simpl.
    destruct r as [|[] r]; simpl in *; try discriminate; reflexivity.
  - inversion HF as [|? ? Ht HF']; subst. simpl in Ht.
    assert (Hfol : folT (prAT tl ++ r) = true).
    { destruct tl as [|[o' t'] tl]; simpl.
      - destruct r as [|[] r]; simpl in *; auto.
      - destruct o'; reflexivity. }
    change (prAT ((o, t) :: tl) ++ r) with (tok_add o :: (prT t ++ prAT tl) ++ r) in *.
    rewrite <- app_assoc in *.
    destruct n as [|n]; [simpl in Hn; lia|].
    simpl in Hn.
    assert (Hpt : parse_term n (prT t ++ prAT tl ++ r) = Some (t, prAT tl ++ r)).
    { apply Ht; auto. lia. }
    assert (Hrest : sum_loop n (SSnoc acc o t) (prAT tl ++ r) = Some (sapp (SSnoc acc o t) tl, r)).
    { apply IH; auto. rewrite app_length in Hn. lia. }
    destruct o; simpl; rewrite Hpt; exact Hrest.
Qed.

Lemma R_T_of_All : forall t, AllF R_F t -> R_T t.
Proof.
  intros t HA n r Hr Hn.
  destruct (AllF_un _ _ HA) as [Hh Htl]. destruct (unT_spec t) as [E1 E2].
  destruct (unT t) as [h tl]; simpl in *.
  rewrite E2 in *. rewrite <- app_assoc in *.
  destruct n as [|n]; [lia|]. simpl.
  assert (Hfol : folF (prMT tl ++ r) = true).
  { destruct tl as [|[o' f'] tl]; simpl.
    - destruct r as [|[] r]; simpl in *; auto.
    - destruct o'; reflexivity. }
  rewrite (Hh n (prMT tl ++ r) Hfol) by lia.
  rewrite term_loop_tail; auto.
  - now rewrite <- E1.
  - pose proof (prF_nonempty h). rewrite app_length in Hn. lia.
Qed.

Lemma prT_nonempty : forall t, 1 <= length (prT t).
Proof. destruct t; simpl. - apply prF_nonempty. - rewrite app_length. simpl. lia. Qed.

Lemma R_S_of_All : forall s, AllT R_T s -> R_S s.
Proof.
  intros s HA n r Hr Hn.
  destruct (AllT_un _ _ HA) as [Hh Htl]. destruct (unS_spec s) as [E1 E2].
  destruct (unS s) as [h tl]; simpl in *.
  rewrite E2 in *. rewrite <- app_assoc in *.
  destruct n as [|n]; [lia|]. simpl.
  assert (Hfol : folT (prAT tl ++ r) = true).
  { destruct tl as [|[o' t'] tl]; simpl.
    - destruct r as [|[] r]; simpl in *; auto.
    - destruct o'; reflexivity. }
  rewrite (Hh n (prAT tl ++ r) Hfol) by lia.
  rewrite sum_loop_tail; auto.
  - now rewrite <- E1.
  - pose proof (prT_nonempty h). rewrite app_length in Hn. lia.
Qed.

Lemma parse_print_all :
  (forall s, AllT R_T s) /\ (forall t, AllF R_F t) /\ (forall f, R_F f) /\ (forall a, R_A a).
Proof.
  apply (ntree_ind V); simpl.
  - (* SOne *) intros t IH. apply R_T_of_All, IH.
  - (* SSnoc *) intros s IHs o t IHt. split; [exact IHs | apply R_T_of_All, IHt].
  - (* TOne *) intros f IH. exact IH.
  - (* TSnoc *) intros t IHt o f IHf. split; assumption.
  - (* FNeg *) intros f IH n r Hr Hn. simpl in *.
    destruct n as [|n]; [lia|]. simpl. rewrite IH; auto. lia.
  - (* FPow *) intros a IHa f IHf n r Hr Hn. simpl in *.
    rewrite <- app_assoc in *. simpl in *.
    destruct (prA_head a) as [t0 [l0 [Ea Ht0]]].
    destruct n as [|n]; [lia|].
    assert (Hpp : parse_power n (prA a ++ TPow :: prF f ++ r) = Some (FPow a f, r)).
    { destruct n as [|n]; [lia|]. simpl.
      rewrite (IHa n (TPow :: prF f ++ r)); auto; [|lia].
      rewrite IHf; auto. rewrite app_length in Hn. simpl in Hn. rewrite Ea in Hn. simpl in Hn. lia. }
    simpl. rewrite Ea in *. simpl. destruct t0; try contradiction; exact Hpp.
  - (* FAtom *) intros a IHa n r Hr Hn. simpl in *.
    destruct (prA_head a) as [t0 [l0 [Ea Ht0]]].
    destruct n as [|n]; [lia|].
    assert (Hpp : parse_power n (prA a ++ r) = Some (FAtom a, r)).
    { destruct n as [|n]; [lia|]. simpl.
      rewrite (IHa n r); [| destruct r as [|[] r]; simpl in *; auto | lia].
      destruct r as [|[] r]; simpl in *; try discriminate; reflexivity. }
    simpl. rewrite Ea in *. simpl. destruct t0; try contradiction; exact Hpp.
  - (* ANum *) intros v n r Hr Hn. destruct n as [|n]; [simpl in Hn; lia|]. reflexivity.
  - (* AName *) intros x n r Hr Hn. destruct n as [|n]; [simpl in Hn; lia|]. simpl.
    destruct r as [|[] r]; simpl in *; try discriminate; reflexivity.
  - (* ACall *) intros x s IH n r Hr Hn. simpl in *.
    destruct n as [|n]; [lia|]. simpl.
    rewrite <- app_assoc. simpl.
    rewrite (R_S_of_All s IH n (TRp :: r)); auto.
    rewrite <- app_assoc in Hn. simpl in Hn. lia.
  - (* AParen *) intros s IH n r Hr Hn. simpl in *.
    destruct n as [|n]; [lia|]. simpl.
    rewrite <- app_assoc. simpl.
    rewrite (R_S_of_All s IH n (TRp :: r)); auto.
    rewrite <- app_assoc in Hn. simpl in Hn. lia.
Qed.

Theorem parse_print : forall s, pyparse (prS s) = Some s.
Proof.
  intros s. unfold pyparse.
  pose proof (R_S_of_All s (proj1 parse_print_all s) (6 * length (prS s) + 6) [] eq_refl) as H.
  rewrite app_nil_r in H. rewrite H; [reflexivity | lia].
Qed.

(* ------------------------------------------ functions used: tokens = tree *)
Fixpoint tok_fns (l : list tok) : list fn :=
  match l with
  | TName (NFn f) :: t => f :: tok_fns t
  | _ :: t => tok_fns t
  | [] => []
  end.
Lemma tok_fns_app : forall a b, tok_fns (a ++ b) = tok_fns a ++ tok_fns b.
Proof. induction a as [|[|[]| | | | | | |] a IH]; intros; simpl; rewrite ?IH; auto. Qed.

Fixpoint fnsS (s : nsum) : list fn :=
  match s with SOne t => fnsT t | SSnoc s _ t => fnsS s ++ fnsT t end
with fnsT (t : nterm) : list fn :=
  match t with TOne f => fnsF f | TSnoc t _ f => fnsT t ++ fnsF f end
with fnsF (f : nfac) : list fn :=
  match f with FNeg f => fnsF f | FPow a f => fnsA a ++ fnsF f | FAtom a => fnsA a end
with fnsA (a : natom) : list fn :=
  match a with
  | ACall (NFn f) s => f :: fnsS s
  | ACall _ s | AParen s => fnsS s
  | AName (NFn f) => [f]
  | _ => []
  end.

Lemma fns_pr : (forall s, tok_fns (prS s) = fnsS s) /\ (forall t, tok_fns (prT t) = fnsT t)
  /\ (forall f, tok_fns (prF f) = fnsF f) /\ (forall a, tok_fns (prA a) = fnsA a).
Proof.
  apply (ntree_ind V); simpl; intros; rewrite ?tok_fns_app; simpl; rewrite ?app_nil_r; auto.
  all: try (destruct o; simpl; rewrite ?H, ?H0; reflexivity).
  all: try (destruct n as [|g| |]; simpl; rewrite ?tok_fns_app, ?H; simpl; rewrite ?app_nil_r; reflexivity).
  all: try (rewrite ?H, ?H0; reflexivity).
Qed.
(*FNSPR*)
Lemma fns_flat : forall fx, (forall e, tok_fns (flatE fx e) = fnsE e)
  /\ (forall m, tok_fns (flatM fx m) = fnsM m) /\ (forall p, tok_fns (flatP fx p) = fnsP p).
Proof.
  intros fx. apply (tree_ind V); simpl; intros; rewrite ?tok_fns_app; simpl; auto.
  - rewrite H, <- H0. now destruct o.
  - rewrite H, <- H0. now destruct o.
  - unfold wrap. destruct fx; simpl; rewrite ?tok_fns_app, ?H; simpl; rewrite ?app_nil_r; auto.
  - unfold wrap. destruct fx, neg; reflexivity.
  - now rewrite H, H0.
  - rewrite H. simpl. now rewrite app_nil_r.
Qed.

Lemma ev_bound : forall bound,
  (forall s, (forall f, In f (fnsS s) -> bound f = true) -> evS O bound no_env s = evS O all_fns no_env s) /\
  (forall t, (forall f, In f (fnsT t) -> bound f = true) -> evT O bound no_env t = evT O all_fns no_env t) /\
  (forall f, (forall g, In g (fnsF f) -> bound g = true) -> evF O bound no_env f = evF O all_fns no_env f) /\
  (forall a, (forall f, In f (fnsA a) -> bound f = true) -> evA O bound no_env a = evA O all_fns no_env a).
Proof.
  intros bound. apply (ntree_ind V); simpl; intros; auto.
  - rewrite H, H0; auto; intros; apply H1; apply in_or_app; auto.
  - rewrite H, H0; auto; intros; apply H1; apply in_or_app; auto.
  - rewrite H; auto.
  - rewrite H, H0; auto; intros; apply H1; apply in_or_app; auto.
  - destruct n; auto. simpl in H0. rewrite (H0 f) by (left; auto). rewrite H; auto.
Qed.

(* ------------------------------------------------------------ main theorem *)
Theorem exp_faithful : forall (bound : fn -> bool) (e : exp),
  lark_ok e = true ->
  (forall f, In f (fnsE e) -> bound f = true) ->
  eval_exp O true bound e = denote O e.
Proof.
  intros bound e Hok Hb. unfold QExp.eval_exp, QExp.denote.
  change (flatE true e) with (flatten_fixed e).
  rewrite (flat_norm e Hok), parse_print. simpl.
  apply (proj1 (ev_bound bound)). intros f Hf. apply Hb.
  rewrite <- (proj1 (fns_flat true) e). change (flatE true e) with (flatten_fixed e).
  rewrite (flat_norm e Hok), (proj1 fns_pr). exact Hf.
Qed.

(* a function whose terminal text is not a key of eval_locals makes eval_exp fail *)
Theorem unbound_fails : forall fx (bound : fn -> bool) f (e : exp),
  lark_ok e = true -> bound f = false ->
  eval_exp O fx bound (EOne (MOne (PFn f e))) = None \/ fx = false.
Proof.
  intros [|] bound f e Hok Hb; [left | right; reflexivity].
  unfold QExp.eval_exp.
  assert (Hok' : lark_ok (EOne (MOne (PFn f e))) = true) by exact Hok.
  change (flatE true (EOne (MOne (PFn f e)))) with (flatten_fixed (EOne (MOne (PFn f e)))).
  rewrite (flat_norm _ Hok'), parse_print. simpl. now rewrite Hb.
Qed.


(* --------------------------------- the code as it is: right without parentheses *)
Fixpoint nopE (e : exp) : bool :=
  match e with EOne m => nopM m | ESnoc e _ m => nopE e && nopM m end
with nopM (m : mulexp) : bool :=
  match m with MOne p => nopP p | MSnoc m _ p => nopM m && nopP p end
with nopP (p : prim) : bool :=
  match p with
  | PParen _ | PVal _ _ => false
  | PUsub e | PFn _ e => nopE e
  | PPow b x => nopP b && nopP x
  | _ => true
  end.

Lemma flat_nop : (forall e, nopE e = true -> flatE false e = flatE true e)
  /\ (forall m, nopM m = true -> flatM false m = flatM true m)
  /\ (forall p, nopP p = true -> flatP false p = flatP true p).
Proof.
  apply (tree_ind V); simpl; intros; try discriminate; auto;
    try (apply andb_prop in H1; destruct H1 as [Ha Hb]; rewrite H, H0; auto);
    try (rewrite H; auto).
Qed.

Theorem exp_faithful_current : forall (bound : fn -> bool) (e : exp),
  lark_ok e = true -> nopE e = true ->
  (forall f, In f (fnsE e) -> bound f = true) ->
  eval_exp O false bound e = denote O e.
Proof.
  intros bound e Hok Hn Hb. unfold QExp.eval_exp. rewrite (proj1 flat_nop e Hn).
  apply exp_faithful; auto.
Qed.

(* ----------------------------- denote = naive reading on simple trees *)
Notation ev_S := (evS O all_fns no_env). Notation ev_T := (evT O all_fns no_env).
Notation ev_F := (evF O all_fns no_env). Notation ev_A := (evA O all_fns no_env).

Definition N_P (p : prim) := okP p = true -> simpleP p = true ->
  exists f, normP p = (f, [], []) /\ ev_F f = naiveP O p.
Definition N_M (m : mulexp) := okM m = true -> simpleM m = true ->
  exists t, normM m = (t, []) /\ ev_T t = naiveM O m
    /\ (forall q, m = MOne q -> exists f, t = TOne f /\ ev_F f = naiveP O q).
Definition N_E (e : exp) := okE e = true -> simpleE e = true ->
  ev_S (normE e) = naiveE O e
  /\ (forall q, e = EOne (MOne q) -> exists f, normE e = SOne (TOne f) /\ ev_F f = naiveP O q).

Lemma naive_all : (forall e, N_E e) /\ (forall m, N_M m) /\ (forall p, N_P p).
Proof.
  apply (tree_ind V); unfold N_E, N_M, N_P.
  - (* EOne *) intros m IH Hok Hs. simpl in *. destruct (IH Hok Hs) as [t [E1 [E2 E3]]].
    rewrite E1. unfold sapp. simpl. split; auto.
    intros q Hq. injection Hq as Hq. destruct (E3 q Hq) as [f [Ef Hf]]. subst t. exists f. split; [reflexivity | assumption].
  - (* ESnoc *) intros e IHe o m IHm Hok Hs. simpl in *.
    apply andb_prop in Hok; destruct Hok as [Hok Hm]. apply andb_prop in Hok; destruct Hok as [_ He].
    apply andb_prop in Hs; destruct Hs as [Hse Hsm].
    destruct (IHm Hm Hsm) as [t [E1 [E2 _]]]. destruct (IHe He Hse) as [E3 _].
    rewrite E1. unfold sapp. simpl. rewrite E3, E2. split; auto. discriminate.
  - (* MOne *) intros p IH Hok Hs. simpl in *. destruct (IH Hok Hs) as [f [E1 E2]].
    rewrite E1. unfold tapp. simpl. exists (TOne f). split; auto. split; auto.
    intros q Hq. injection Hq as Hq. subst q. eauto.
  - (* MSnoc *) intros m IHm o p IHp Hok Hs. simpl in *.
    apply andb_prop in Hok; destruct Hok as [Hok Hp]. apply andb_prop in Hok; destruct Hok as [_ Hm].
    apply andb_prop in Hs; destruct Hs as [Hsm Hsp].
    destruct (IHm Hm Hsm) as [t [E1 [E2 _]]]. destruct (IHp Hp Hsp) as [f [E3 E4]].
    rewrite E3, E1. unfold tapp. simpl. eexists. split; [reflexivity|]. simpl. rewrite E2, E4. split; auto. discriminate.
  - (* PParen *) intros e IH Hok Hs. simpl in *. destruct (IH Hok Hs) as [E _].
    eexists. split; [reflexivity|]. simpl. exact E.
  - intros v _ _. simpl. eauto.
  - intros _ _. simpl. eauto.
  - intros x _ _. simpl. eauto.
  - intros i _ _. simpl. eauto.
  - intros s v _ _. simpl. eexists. split; [reflexivity|]. destruct s; reflexivity.
  - (* PPow *) intros b IHb x IHx Hok Hs. simpl in Hok, Hs.
    apply andb_prop in Hok; destruct Hok as [Hok Hx]. apply andb_prop in Hok; destruct Hok as [Hat Hb].
    apply andb_prop in Hs; destruct Hs as [Hsb Hsx].
    destruct (IHx Hx Hsx) as [f [E1 E2]]. destruct (IHb Hb Hsb) as [fb [E3 E4]].
    simpl. rewrite E1. eexists. split; [reflexivity|]. simpl. rewrite E2. f_equal.
    destruct b; simpl in *; try discriminate; injection E3 as E3; subst fb; simpl in E4; auto.
  - (* PUsub *) intros e IH Hok Hs. simpl in Hok.
    destruct e as [[q|]|]; simpl in Hs; try discriminate.
    assert (Hs' : simpleE (EOne (MOne q)) = true) by exact Hs.
    destruct (IH Hok Hs') as [_ E]. destruct (E q eq_refl) as [f [E1 E2]].
    change (normP (PUsub (EOne (MOne q)))) with
      (let '(t, at_) := unS (normE (EOne (MOne q))) in let '(f, mt) := unT t in (FNeg f, mt, at_)).
    rewrite E1. simpl. eexists. split; [reflexivity|]. simpl. now rewrite E2.
  - (* PFn *) intros f e IH Hok Hs. simpl in *. destruct (IH Hok Hs) as [E _].
    eexists. split; [reflexivity|]. simpl. now rewrite E.
Qed.

Theorem denote_naive : forall e, lark_ok e = true -> simpleE e = true -> denote O e = naiveE O e.
Proof. intros e Hok Hs. exact (proj1 (proj1 naive_all e Hok Hs)). Qed.

(* ------------------------------------ substitution of actuals = environment *)
Section Subst.
Variables (fs : list nat) (acts : list (actual V)).

Definition subA (x : nat) : natom :=
  match index_of x fs with
  | Some i => match nth_error acts i with Some a => val_atom (fst a) (snd a) | None => AName (NIdx i) end
  | None => AName (NId x)
  end.

Fixpoint nsS (s : nsum) : nsum :=
  match s with SOne t => SOne (nsT t) | SSnoc s o t => SSnoc (nsS s) o (nsT t) end
with nsT (t : nterm) : nterm :=
  match t with TOne f => TOne (nsF f) | TSnoc t o f => TSnoc (nsT t) o (nsF f) end
with nsF (f : nfac) : nfac :=
  match f with FNeg f => FNeg (nsF f) | FPow a f => FPow (nsA a) (nsF f) | FAtom a => FAtom (nsA a) end
with nsA (a : natom) : natom :=
  match a with
  | AName (NId x) => subA x
  | ACall n s => ACall n (nsS s)
  | AParen s => AParen (nsS s)
  | a => a
  end.
Definition nsAT (tl : atail V) : atail V := map (fun ot => (fst ot, nsT (snd ot))) tl.
Definition nsMT (tl : mtail V) : mtail V := map (fun of => (fst of, nsF (snd of))) tl.

Lemma nsS_sapp : forall tl s, nsS (sapp s tl) = sapp (nsS s) (nsAT tl).
Proof. induction tl as [|[o t] tl IH]; intros s; [reflexivity|]. unfold sapp in *. simpl. now rewrite IH. Qed.
Lemma nsT_tapp : forall tl t, nsT (tapp t tl) = tapp (nsT t) (nsMT tl).
Proof. induction tl as [|[o f] tl IH]; intros t; [reflexivity|]. unfold tapp in *. simpl. now rewrite IH. Qed.
Lemma unS_ns : forall s, unS (nsS s) = (nsT (fst (unS s)), nsAT (snd (unS s))).
Proof.
  induction s as [t|s IH o t]; simpl; auto. rewrite IH. destruct (unS s) as [h tl]. simpl.
  unfold nsAT. now rewrite map_app.
Qed.
Lemma unT_ns : forall t, unT (nsT t) = (nsF (fst (unT t)), nsMT (snd (unT t))).
Proof.
  induction t as [f|t IH o f]; simpl; auto. rewrite IH. destruct (unT t) as [h tl]. simpl.
  unfold nsMT. now rewrite map_app.
Qed.

Definition sbE (e : exp) := substE acts (bindE fs e).
Definition sbM (m : mulexp) := substM acts (bindM fs m).
Definition sbP (p : prim) := substP acts (bindP fs p).

Definition S_E (e : exp) := srcE e = true -> normE (sbE e) = nsS (normE e).
Definition S_M (m : mulexp) := srcM m = true ->
  normM (sbM m) = (nsT (fst (normM m)), nsAT (snd (normM m))).
Definition S_P (p : prim) := srcP p = true ->
  normP (sbP p) = (nsF (fst (fst (normP p))), nsMT (snd (fst (normP p))), nsAT (snd (normP p))).

Lemma subst_norm_all : (forall e, S_E e) /\ (forall m, S_M m) /\ (forall p, S_P p).
Proof.
  apply (tree_ind V); unfold S_E, S_M, S_P, sbE, sbM, sbP.
  - intros m IH Hs. simpl in *. rewrite (IH Hs). destruct (normM m) as [t at_]. simpl.
    now rewrite nsS_sapp.
  - intros e IHe o m IHm Hs. simpl in *. apply andb_prop in Hs; destruct Hs as [He Hm].
    rewrite (IHm Hm), (IHe He). destruct (normM m) as [t at_]. simpl. now rewrite nsS_sapp.
  - intros p IH Hs. simpl in *. rewrite (IH Hs). destruct (normP p) as [[f mt] at_]. simpl.
    now rewrite nsT_tapp.
  - intros m IHm o p IHp Hs. simpl in *. apply andb_prop in Hs; destruct Hs as [Hm Hp].
    rewrite (IHp Hp), (IHm Hm). destruct (normP p) as [[f mt] at_]. simpl. now rewrite nsT_tapp.
  - intros e IH Hs. simpl in *. now rewrite (IH Hs).
  - reflexivity.
  - reflexivity.
  - intros x _. simpl. unfold subA. destruct (index_of x fs) as [i|]; simpl; auto.
    destruct (nth_error acts i) as [a|]; reflexivity.
  - discriminate.
  - discriminate.
  - (* PPow *) intros b IHb x IHx Hs. simpl in Hs. apply andb_prop in Hs; destruct Hs as [Hb Hx].
    simpl. rewrite (IHx Hx). destruct (normP x) as [[f mt] at_]. simpl. f_equal. f_equal. f_equal.
    specialize (IHb Hb).
    destruct b; simpl in *; try discriminate; auto.
    + injection IHb as IHb. now rewrite IHb.
    + unfold subA. destruct (index_of x0 fs) as [i|]; simpl; auto.
      destruct (nth_error acts i) as [a|]; reflexivity.
    + rewrite IHb. reflexivity.
    + rewrite IHb. reflexivity.
    + injection IHb as IHb. now rewrite IHb.
  - (* PUsub *) intros e IH Hs. simpl in *. rewrite (IH Hs). rewrite unS_ns.
    destruct (unS (normE e)) as [t at_]. simpl. rewrite unT_ns. destruct (unT t) as [f mt]. reflexivity.
  - intros f e IH Hs. simpl in *. now rewrite (IH Hs).
Qed.

Lemma ev_ns :
  (forall s, ev_S (nsS s) = evS O all_fns (env_of O fs acts) s) /\
  (forall t, ev_T (nsT t) = evT O all_fns (env_of O fs acts) t) /\
  (forall f, ev_F (nsF f) = evF O all_fns (env_of O fs acts) f) /\
  (forall a, ev_A (nsA a) = evA O all_fns (env_of O fs acts) a).
Proof.
  apply (ntree_ind V); simpl; intros; auto; try (rewrite ?H, ?H0; reflexivity).
  - destruct n; simpl; auto. unfold subA, env_of.
    destruct (index_of x fs) as [i|]; simpl; auto.
    destruct (nth_error acts i) as [[[|] v]|]; reflexivity.
Qed.

Theorem subst_denote : forall e, srcE e = true ->
  denote O (substE acts (bindE fs e)) = denote_env O (env_of O fs acts) e.
Proof.
  intros e Hs. unfold QExp.denote, QExp.denote_env.
  change (substE acts (bindE fs e)) with (sbE e).
  rewrite (proj1 subst_norm_all e Hs). apply ev_ns.
Qed.

(* shapes are preserved by binding + substitution *)
Lemma sb_shape : (forall e : exp, openE (sbE e) = openE e /\ okE (sbE e) = okE e)
  /\ (forall m : mulexp, openM (sbM m) = openM m /\ okM (sbM m) = okM m)
  /\ (forall p : prim, openP (sbP p) = openP p /\ okP (sbP p) = okP p /\ atomic (sbP p) = atomic p).
Proof.
  apply (tree_ind V); unfold sbE, sbM, sbP; simpl; intros.
  all: repeat match goal with H : _ /\ _ |- _ => destruct H end.
  all: repeat match goal with H : _ = _ |- _ => rewrite H; clear H end.
  all: try (destruct (index_of x fs) as [j|]; simpl; [destruct (nth_error acts j); simpl|]).
  all: try (destruct (nth_error acts i); simpl).
  all: auto.
Qed.

Lemma sb_fns : (forall e : exp, fnsE (sbE e) = fnsE e) /\ (forall m : mulexp, fnsM (sbM m) = fnsM m)
  /\ (forall p : prim, fnsP (sbP p) = fnsP p).
Proof.
  apply (tree_ind V); unfold sbE, sbM, sbP; simpl; intros; rewrite ?H, ?H0; auto.
  - destruct (index_of x fs) as [i|]; simpl; auto. destruct (nth_error acts i); simpl; auto.
  - destruct (nth_error acts i); simpl; auto.
Qed.

(* the implementation's pipeline for one stored parameter expression of a gate body *)
Theorem bind_faithful : forall (bound : fn -> bool) e,
  lark_ok e = true -> srcE e = true ->
  (forall f, In f (fnsE e) -> bound f = true) ->
  eval_exp O true bound (substE acts (bindE fs e)) = denote_env O (env_of O fs acts) e.
Proof.
  intros bound e Hok Hs Hb. rewrite <- subst_denote by exact Hs.
  apply exp_faithful.
  - unfold lark_ok. change (substE acts (bindE fs e)) with (sbE e).
    rewrite (proj2 (proj1 sb_shape e)). exact Hok.
  - change (substE acts (bindE fs e)) with (sbE e). rewrite (proj1 sb_fns). exact Hb.
Qed.

(* an expression that mentions no formal is left alone (it is evaluated once, when
   the gate is declared) *)
Lemma sb_nohas : (forall e : exp, srcE e = true -> hasE fs e = false -> sbE e = e)
  /\ (forall m : mulexp, srcM m = true -> hasM fs m = false -> sbM m = m)
  /\ (forall p : prim, srcP p = true -> hasP fs p = false -> sbP p = p).
Proof.
  apply (tree_ind V); unfold sbE, sbM, sbP; simpl; intros; try discriminate; auto;
    try (apply andb_prop in H1; destruct H1; apply orb_false_elim in H2; destruct H2; rewrite H, H0; auto);
    try (rewrite H; auto).
  destruct (index_of x fs); [discriminate | reflexivity].
Qed.
End Subst.

End Thm.
