(* C17 - proofs about qasm/QProg.v: decoding the statements the encoder prints gives
   the circuit back (CircuitGates nested to any depth, barriers, measurements,
   resets), for every order of the gate definitions in which the gate set is printed. *)
From Coq Require Import String List Bool Arith Lia.
Import ListNotations.
From BQ Require Import qasm.QExp qasm.QExpThm qasm.QRegs qasm.QRegsThm qasm.QTable qasm.QGate
  qasm.QEnc qasm.QEncThm qasm.QProg.
Local Open Scope list_scope.

(* induction principle for the nested type uop *)
Fixpoint uop_ind' {V} (P : uop V -> Prop)
  (Hl : forall g l ps, P (ULib g l ps))
  (Hc : forall nv body loc, Forall P body -> P (UCirc nv body loc))
  (o : uop V) : P o :=
  match o with
  | ULib g l ps => Hl g l ps
  | UCirc nv body loc =>
      Hc nv body loc
        ((fix go (l : list (uop V)) : Forall P l :=
            match l with
            | [] => Forall_nil _
            | x :: t => Forall_cons x (uop_ind' P Hl Hc x) (go t)
            end) body)
  end.

Lemma shape_params_len : forall {V} (o : uop V), length (uparams (shape_of o)) = length (uparams o).
Proof.
  intros V. apply (uop_ind' (fun o => length (uparams (shape_of o)) = length (uparams o))).
  - intros; simpl. now rewrite map_length.
  - intros nv body loc H. simpl. induction H as [|x t Hx Ht IH]; simpl; auto.
    rewrite !app_length. now rewrite Hx, IH.
Qed.

Lemma shape_eq_params_len : forall {V W} (a : uop V) (b : uop W),
  shape_of a = shape_of b -> length (uparams a) = length (uparams b).
Proof. intros V W a b H. rewrite <- (shape_params_len a), <- (shape_params_len b). now rewrite H. Qed.

Lemma shapes_eq_params_len : forall {V W} (a : list (uop V)) (b : list (uop W)),
  map shape_of a = map shape_of b -> length (params_of a) = length (params_of b).
Proof.
  unfold params_of. induction a as [|x a IH]; intros [|y b] H; simpl in *; try discriminate; auto.
  injection H as H1 H2. rewrite !app_length, (shape_eq_params_len x y H1), (IH b H2). reflexivity.
Qed.

Lemma NoDup_app_l : forall {A} (l1 l2 : list A), NoDup (l1 ++ l2) -> NoDup l1.
Proof.
  induction l1 as [|x l1 IH]; intros l2 H; [constructor|]. simpl in H. inversion H as [|? ? Hn Hr]; subst.
  constructor; [|eapply IH; eauto]. intros Hin. apply Hn. apply in_or_app. auto.
Qed.

Lemma mapM_cons : forall {A B} (f : A -> option B) x t,
  mapM f (x :: t) = match f x, mapM f t with Some y, Some r => Some (y :: r) | _, _ => None end.
Proof. reflexivity. Qed.

Section ProgThm.
Context {V : Type}.
Variable O : ops V.
Variable fx : bool.
Variable bound : fn -> bool.
Variable vsplit : V -> actual V.
Hypothesis split_ok : forall v, aval O (vsplit v) = v.
Variable nm : nat -> list (uop unit) -> nat.
Hypothesis nm_inj : forall a b c d, nm a b = nm c d -> a = c /\ b = d.
Variable tbl : list dec_entry.
Variable lib : list lib_gate.
Hypothesis Hrt : forallb (rt_ok tbl) lib = true.
Variable q : nat.

Notation build' := (build O fx bound vsplit).
Notation eval_pe' := (eval_pe O fx bound vsplit).

(* ------------------------------------------------------- parameter plumbing *)
Lemma val_eval : forall b v, eval_exp O fx bound (EOne (MOne (PVal b v))) = Some (aval O (b, v)).
Proof. destruct fx; intros [|] v; reflexivity. Qed.

Lemma eval_idx : forall ps i v, nth_error ps i = Some v -> eval_pe' ps (PTree (idx_tree i)) = Some v.
Proof.
  intros ps i v H. unfold eval_pe, idx_tree. simpl substE.
  rewrite nth_error_map, H. simpl. rewrite val_eval.
  destruct (vsplit v) as [b m] eqn:E. simpl. f_equal. rewrite <- (split_ok v), E. reflexivity.
Qed.

Lemma eval_slice : forall mine pre post,
  mapM (eval_pe' (pre ++ mine ++ post)) (map (fun i => PTree (idx_tree i)) (seq (length pre) (length mine)))
  = Some mine.
Proof.
  induction mine as [|x mine IH]; intros pre post; [reflexivity|].
  simpl length. simpl seq. simpl map. rewrite mapM_cons.
  change ((x :: mine) ++ post) with (x :: (mine ++ post)).
  rewrite (eval_idx _ _ x).
  - specialize (IH (pre ++ [x]) post). rewrite app_length in IH. simpl in IH.
    replace (length pre + 1) with (S (length pre)) in IH by lia.
    rewrite <- app_assoc in IH. simpl in IH. rewrite IH. reflexivity.
  - rewrite nth_error_app2 by lia. now rewrite Nat.sub_diag.
Qed.

Lemma build_custom : forall np nv cb loc ps,
  build' (GCustom np nv cb) loc ps =
  option_map (fun b => ICirc nv b loc)
    (mapM (fun st : gdef V * list nat * list (pexpr V) =>
             match mapM (eval_pe' ps) (snd st) with
             | Some sub => build' (fst (fst st)) (snd (fst st)) sub
             | None => None
             end) cb).
Proof. reflexivity. Qed.

(* ------------------------------------------------------------ library gates *)
Lemma lib_resolve : forall g loc (ps : list V), op_okb lib (mkOp g loc ps) = true ->
  exists s e, spelling_of lib g = Some s /\ lookup tbl s = Some e /\
    d_gate e = g /\ d_np e = length ps /\ d_nv e = length loc /\ loc <> [].
Proof.
  intros g loc ps H. apply op_okb_ok in H. destruct H as [Hloc [s [Hs [Hex Har]]]]. simpl in *.
  destruct (spelling_of_in lib g s Hs) as [lg [Hin [Hg Hsp]]].
  pose proof (rt_ok_sound tbl lib Hrt lg s Hin Hsp Hex) as Hd.
  unfold decode_name in Hd. destruct (lookup tbl s) as [e|] eqn:El; [|discriminate].
  injection Hd as H1 H2 H3. destruct (Har lg Hin Hg Hsp) as [Hp Hl].
  exists s, e. repeat split; auto; congruence.
Qed.

(* ------------------------------------------------- definitions in the table *)
(* g instantiates the CircuitGate shape (nv, sb): with the concatenated parameters of
   any body of that shape it rebuilds exactly that body *)
Definition correct (nv : nat) (sb : list (uop unit)) (g : gdef V) : Prop :=
  exists cb, g = GCustom (length (params_of sb)) nv cb /\
  forall os : list (uop V), map shape_of os = sb ->
  forall loc, build' g loc (params_of os) = Some (ICirc nv (map erase os) loc).

Definition Inv (env : list (nat * gdef V)) : Prop :=
  forall k g, alookup env k = Some g -> exists nv sb, k = nm nv sb /\ correct nv sb g.

Definition defined (env : list (nat * gdef V)) (o : uop V) : Prop :=
  match o with UCirc nv b _ => alookup env (nm nv (map shape_of b)) <> None | _ => True end.

Lemma inv_lookup : forall env nv sb, Inv env -> alookup env (nm nv sb) <> None ->
  exists g, alookup env (nm nv sb) = Some g /\ correct nv sb g.
Proof.
  intros env nv sb HI Hd. destruct (alookup env (nm nv sb)) as [g|] eqn:E; [|congruence].
  exists g. split; auto. destruct (HI _ _ E) as [nv' [sb' [Hn Hc]]].
  apply nm_inj in Hn. destruct Hn as [-> ->]. exact Hc.
Qed.

Lemma resolve_circ : forall env nv' sb g', alookup env (nm nv' sb) = Some g' -> correct nv' sb g' ->
  resolve tbl lib env (KCirc (nm nv' sb)) = Ok (g', length (params_of sb), nv').
Proof. intros env nv' sb g' H [cb [-> _]]. unfold resolve. rewrite H. reflexivity. Qed.

Lemma shape_idem : forall {W} (o : uop W), shape_of (shape_of o) = shape_of o.
Proof.
  intros W. apply (uop_ind' (fun o => shape_of (shape_of o) = shape_of o)).
  - intros; simpl. f_equal. rewrite map_map. reflexivity.
  - intros nv body loc H. simpl. f_equal. rewrite map_map.
    induction H as [|x t Hx Ht IH]; simpl; auto. now rewrite Hx, IH.
Qed.

(* the body of a definition: compilation succeeds, and instantiation returns every body
   operation its own parameters *)
Lemma body_lemma : forall env NP nv, Inv env ->
  forall (os0 : list (uop V)) k,
  forallb (uop_okb lib) os0 = true ->
  forallb (fun b => forallb (fun j => Nat.ltb j nv) (uloc b)) os0 = true ->
  Forall (defined env) os0 ->
  k + length (params_of os0) <= NP ->
  exists cb, mapR (compile_line tbl lib env NP nv) (blines nm os0 k) = Ok cb /\
    forall os : list (uop V), map shape_of os = map shape_of os0 ->
    forall pre post, length pre = k ->
      mapM (fun st : gdef V * list nat * list (pexpr V) =>
              match mapM (eval_pe' (pre ++ params_of os ++ post)) (snd st) with
              | Some sub => build' (fst (fst st)) (snd (fst st)) sub
              | None => None
              end) cb = Some (map erase os).
Proof.
  intros env NP nv HI. induction os0 as [|o0 t0 IH]; intros k Hok Hq Hdef Hk.
  - exists []. split; [reflexivity|]. intros [|? ?] H; [reflexivity | discriminate].
  - simpl in Hok, Hq. apply andb_prop in Hok; destruct Hok as [Ho Hot].
    apply andb_prop in Hq; destruct Hq as [Hqo Hqt].
    inversion Hdef as [|? ? Hd0 Hdt]; subst.
    unfold params_of in Hk. simpl in Hk. rewrite app_length in Hk. fold (params_of t0) in Hk.
    destruct (IH (k + length (uparams o0)) Hot Hqt Hdt ltac:(lia)) as [cbt [Hcbt Hbt]].
    (* the line of o0 *)
    assert (Hline : exists g0,
      compile_line tbl lib env NP nv (mkBL (gname nm o0) (seq k (length (uparams o0))) (uloc o0))
        = Ok (g0, uloc o0, map (fun i => PTree (idx_tree i)) (seq k (length (uparams o0)))) /\
      forall o : uop V, shape_of o = shape_of o0 ->
        build' g0 (uloc o0) (uparams o) = Some (erase o)).
    { unfold compile_line. simpl b_formals. simpl b_qs. simpl b_callee.
      assert (F1 : forallb (fun i => Nat.ltb i NP) (seq k (length (uparams o0))) = true).
      { apply forallb_forall. intros i Hi. apply in_seq in Hi. apply Nat.ltb_lt. lia. }
      rewrite F1, Hqo, seq_length.
      destruct o0 as [g loc ps | nv' b' loc'].
      - simpl in Ho. destruct (lib_resolve g loc ps Ho) as [s [e [Hs [Hl [Hg [Hp [Hv Hne]]]]]]].
        simpl. rewrite Hs, Hl. simpl. rewrite Hp, Hv, !Nat.eqb_refl.
        destruct loc; [congruence|]. eexists. split; [reflexivity|].
        intros o Hsh. destruct o as [g' l' ps' | ? ? ?]; simpl in Hsh; [|discriminate].
        injection Hsh as -> -> _. simpl. now rewrite Hg.
      - simpl in Ho. apply andb_prop in Ho; destruct Ho as [Ho Hj]. apply andb_prop in Ho; destruct Ho as [Ho Hb].
        apply andb_prop in Ho; destruct Ho as [Hn Hlen]. apply Nat.eqb_eq in Hlen.
        simpl in Hd0. destruct (inv_lookup env nv' (map shape_of b') HI Hd0) as [g' [Hlk Hcor]].
        simpl gname. rewrite (resolve_circ env nv' (map shape_of b') g' Hlk Hcor).
        cbn [bind fst snd uparams uloc]. fold (params_of b').
        rewrite (shapes_eq_params_len b' (map shape_of b')) by (rewrite map_map; apply map_ext; intros; now rewrite shape_idem).
        rewrite Nat.eqb_refl, Hlen, Nat.eqb_refl.
        destruct loc'; [discriminate|]. eexists. split; [reflexivity|].
        intros o Hsh. destruct o as [? ? ? | nv2 b2 l2]; simpl in Hsh; [discriminate|].
        injection Hsh as -> Hb2 ->. destruct Hcor as [cb' [Hg' Hcor]]. exact (Hcor b2 Hb2 _). }
    destruct Hline as [g0 [Hc0 Hb0]].
    exists ((g0, uloc o0, map (fun i => PTree (idx_tree i)) (seq k (length (uparams o0)))) :: cbt).
    split.
    + simpl. rewrite Hc0. simpl. rewrite Hcbt. reflexivity.
    + intros os Hsh pre post Hpre. destruct os as [|o t]; [discriminate|]. simpl in Hsh.
      injection Hsh as Hsh1 Hsh2.
      assert (Hlen : length (uparams o0) = length (uparams o)) by (symmetry; apply shape_eq_params_len; exact Hsh1).
      unfold params_of. simpl. fold (params_of t). rewrite <- app_assoc.
      rewrite <- Hpre, Hlen, eval_slice. rewrite (Hb0 o Hsh1).
      specialize (Hbt t Hsh2 (pre ++ uparams o) post).
      rewrite <- app_assoc in Hbt. rewrite Hbt; [reflexivity|]. rewrite app_length. lia.
Qed.

(* a printed definition block is accepted, and the stored definition is correct *)
Lemma def_correct : forall env nv (os0 : list (uop V)), Inv env ->
  forallb (uop_okb lib) os0 = true ->
  forallb (fun b => forallb (fun j => Nat.ltb j nv) (uloc b)) os0 = true ->
  Forall (defined env) os0 ->
  exists g, compile_def tbl lib env (length (params_of os0)) nv (blines nm os0 0) = Ok g /\
            correct nv (map shape_of os0) g.
Proof.
  intros env nv os0 HI Hok Hq Hd.
  destruct (body_lemma env (length (params_of os0)) nv HI os0 0 Hok Hq Hd ltac:(lia)) as [cb [Hc Hb]].
  exists (GCustom (length (params_of os0)) nv cb). split.
  - unfold compile_def. rewrite Hc. reflexivity.
  - exists cb. split.
    + f_equal. apply shapes_eq_params_len. rewrite map_map. apply map_ext. intros. now rewrite shape_idem.
    + intros os Hsh loc. rewrite build_custom.
      specialize (Hb os Hsh [] [] eq_refl). simpl in Hb. rewrite app_nil_r in Hb. rewrite Hb. reflexivity.
Qed.

Lemma def_instantiates : forall env nv (os0 : list (uop V)), Inv env ->
  forallb (uop_okb lib) os0 = true ->
  forallb (fun b => forallb (fun j => Nat.ltb j nv) (uloc b)) os0 = true ->
  Forall (defined env) os0 ->
  exists g, compile_def tbl lib env (length (params_of os0)) nv (blines nm os0 0) = Ok g /\
    forall os : list (uop V), map shape_of os = map shape_of os0 ->
    forall loc, build' g loc (params_of os) = Some (ICirc nv (map erase os) loc).
Proof.
  intros env nv os0 HI H1 H2 H3. destruct (def_correct env nv os0 HI H1 H2 H3) as [g [Hc [cb [_ Hb]]]].
  exists g. split; [exact Hc | exact Hb].
Qed.

(* ------------------------------------------------------ running the program *)
Notation dec' := (dec_stmts O fx bound vsplit tbl lib q).
Definition ext (env env' : list (nat * gdef V)) : Prop :=
  forall k, alookup env k <> None -> alookup env' k <> None.

Lemma defined_ext : forall env env' o, ext env env' -> defined env o -> defined env' o.
Proof. intros env env' [? ? ?|nv b l] He Hd; simpl in *; auto. Qed.

Lemma inv_cons : forall env nv sb g, Inv env -> correct nv sb g -> Inv ((nm nv sb, g) :: env).
Proof.
  intros env nv sb g HI Hc k g' H. simpl in H. destruct (Nat.eqb (nm nv sb) k) eqn:E.
  - injection H as <-. apply Nat.eqb_eq in E. exists nv, sb. auto.
  - apply (HI _ _ H).
Qed.
Lemma ext_cons : forall env k g, ext env ((k, g) :: env).
Proof. intros env k g k' H. simpl. destruct (Nat.eqb k k'); [discriminate | exact H]. Qed.

Lemma udefs_run : forall regs (u : uop V), uop_okb lib u = true ->
  forall cregs env rest, Inv env ->
  exists env', Inv env' /\ ext env env' /\ defined env' u /\
    dec' regs cregs env (udefs nm u ++ rest) = dec' regs cregs env' rest.
Proof.
  intros regs. apply (uop_ind' (fun u => uop_okb lib u = true -> forall cregs env rest, Inv env ->
    exists env', Inv env' /\ ext env env' /\ defined env' u /\
      dec' regs cregs env (udefs nm u ++ rest) = dec' regs cregs env' rest)).
  - intros g l ps _ cregs env rest HI. exists env. repeat split; auto. all: try (intros k H; exact H).
  - intros nv body loc HF Hok cregs env rest HI. simpl in Hok.
    apply andb_prop in Hok; destruct Hok as [Hok Hq]. apply andb_prop in Hok; destruct Hok as [Hok Hb].
    assert (Hbody : forall rest', exists env1, Inv env1 /\ ext env env1 /\ Forall (defined env1) body /\
              dec' regs cregs env (concat (map (udefs nm) body) ++ rest') = dec' regs cregs env1 rest').
    { clear Hq Hok. revert env HI. induction HF as [|x t Hx Ht IHt]; intros env HI rest'.
      - exists env. repeat split; auto. all: try (intros k H; exact H).
      - simpl in Hb. apply andb_prop in Hb; destruct Hb as [Hbx Hbt].
        simpl. rewrite <- app_assoc.
        destruct (Hx Hbx cregs env (concat (map (udefs nm) t) ++ rest') HI) as [e1 [I1 [E1 [D1 R1]]]].
        destruct (IHt Hbt e1 I1 rest') as [e2 [I2 [E2 [D2 R2]]]].
        exists e2. repeat split; auto.
        + intros k H. apply E2, E1, H.
        + constructor; auto. eapply defined_ext; eauto.
        + now rewrite R1, R2. }
    simpl udefs. rewrite <- app_assoc. destruct (Hbody ([gate_def nm nv body] ++ rest)) as [e1 [I1 [E1 [D1 R1]]]].
    rewrite R1. simpl. destruct (def_correct e1 nv body I1 Hb Hq D1) as [g [Hc Hg]].
    rewrite Hc. simpl. exists ((nm nv (map shape_of body), g) :: e1). repeat split.
    + apply inv_cons; auto.
    + intros k H. apply ext_cons, E1, H.
    + simpl. rewrite Nat.eqb_refl. discriminate.
Qed.

Lemma nodup_nat_NoDup : forall l, nodup_nat l = true -> NoDup l.
Proof.
  induction l as [|x t IH]; simpl; intros H; constructor.
  - apply andb_prop in H; destruct H as [H _]. intros Hin.
    assert (E : existsb (Nat.eqb x) t = true) by (apply existsb_exists; exists x; split; auto; apply Nat.eqb_refl).
    rewrite E in H. discriminate.
  - apply andb_prop in H. apply IH, H.
Qed.
Lemma has_reg_In : forall rs x, has_reg rs x = true <-> In x (map fst rs).
Proof.
  intros rs x. unfold has_reg. rewrite existsb_exists. split.
  - intros [r [Hr E]]. apply Nat.eqb_eq in E. subst. now apply in_map.
  - intros H. apply in_map_iff in H. destruct H as [r [E Hr]]. exists r. split; auto. now apply Nat.eqb_eq.
Qed.

Lemma cregs_run : forall regs env rest cr cregs, NoDup (map fst (cregs ++ cr)) ->
  dec' regs cregs env (map (fun r => SCreg (fst r) (snd r)) cr ++ rest) = dec' regs (cregs ++ cr) env rest.
Proof.
  intros regs env rest. induction cr as [|[n sz] cr IH]; intros cregs Hnd; simpl.
  - now rewrite app_nil_r.
  - destruct (has_reg cregs n) eqn:E.
    + exfalso. apply has_reg_In in E. rewrite map_app in Hnd. simpl in Hnd.
      apply NoDup_remove_2 in Hnd. apply Hnd. apply in_or_app. auto.
    + rewrite IH by (rewrite <- app_assoc; exact Hnd). now rewrite <- app_assoc.
Qed.

Lemma gs_run : forall regs (gs : list (cop V)) cregs env rest, Inv env ->
  forallb (fun o => match o with CU u => uop_okb lib u | _ => true end) gs = true ->
  NoDup (map fst (cregs ++ all_cregs gs)) ->
  exists env', Inv env' /\ ext env env' /\
    (forall k, In k (def_names nm gs) -> alookup env' k <> None) /\
    dec' regs cregs env (concat (map (cdefs nm) gs) ++ rest) = dec' regs (cregs ++ all_cregs gs) env' rest.
Proof.
  intros regs. induction gs as [|o gs IH]; intros cregs env rest HI Hok Hnd.
  - exists env. simpl. rewrite app_nil_r. repeat split; auto. all: try (intros k H; exact H). all: try (intros k []).
  - simpl in Hok. apply andb_prop in Hok; destruct Hok as [Ho Hgs].
    simpl concat. rewrite <- app_assoc. unfold all_cregs in *. simpl map in *. simpl concat in *. fold (all_cregs gs) in *.
    destruct o as [u | loc | cr ms loc | loc].
    + simpl cdefs. destruct (udefs_run regs u Ho cregs env (concat (map (cdefs nm) gs) ++ rest) HI) as [e1 [I1 [E1 [D1 R1]]]].
      simpl in Hnd. destruct (IH cregs e1 rest I1 Hgs Hnd) as [e2 [I2 [E2 [N2 R2]]]].
      exists e2. repeat split; auto.
      * intros k H. apply E2, E1, H.
      * intros k Hk. unfold def_names in Hk. simpl in Hk. apply in_app_or in Hk. destruct Hk as [Hk|Hk].
        -- destruct u as [? ? ?|nv b l]; simpl in Hk; [contradiction|]. destruct Hk as [<-|[]].
           apply E2. exact D1.
        -- apply N2. exact Hk.
      * now rewrite R1, R2.
    + simpl. simpl in Hnd. destruct (IH cregs env rest HI Hgs Hnd) as [e2 [I2 [E2 [N2 R2]]]]. exists e2. repeat split; auto.
    + simpl cdefs. rewrite cregs_run.
      * rewrite app_assoc in Hnd. destruct (IH (cregs ++ cr) env rest HI Hgs Hnd) as [e2 [I2 [E2 [N2 R2]]]].
        exists e2. repeat split; auto. rewrite R2. now rewrite app_assoc.
      * rewrite app_assoc, map_app in Hnd. apply NoDup_app_l in Hnd. exact Hnd.
    + simpl. simpl in Hnd. destruct (IH cregs env rest HI Hgs Hnd) as [e2 [I2 [E2 [N2 R2]]]]. exists e2. repeat split; auto.
Qed.

(* ---- the operation lines ---- *)
Definition cop_ok (cregs : list (nat * nat)) (env : list (nat * gdef V)) (o : cop V) : Prop :=
  match o with
  | CU u => uop_okb lib u = true /\ defined env u
  | CBarrier loc => loc <> []
  | CMeasure _ ms _ => forall m, In m ms -> has_reg cregs (fst (snd m)) = true
  | CReset loc => length loc = 1
  end.

Lemma conv_args_ok : forall n loc, loc <> [] -> conv_args q [(q, n)] loc = Ok loc.
Proof. intros n [|a0 rest] H; [congruence|]. simpl. apply conv_mixed_of. Qed.

Lemma first_index_q : forall n, first_index [(q, n)] q = Ok 0.
Proof. intros n. unfold first_index. simpl. now rewrite Nat.eqb_refl. Qed.

Lemma line_run : forall n cregs env, Inv env -> forall o, cop_ok cregs env o -> forall rest r,
  dec' [(q, n)] cregs env rest = Ok (cregs, r) ->
  dec' [(q, n)] cregs env (clines nm vsplit o ++ rest) = Ok (cregs, expect o ++ r).
Proof.
  intros n cregs env HI o Hok rest r Hrest. destruct o as [u | loc | cr ms loc | loc].
  - destruct Hok as [Hu Hd]. destruct u as [g loc ps | nv body loc].
    + simpl in Hu. destruct (lib_resolve g loc ps Hu) as [s [e [Hs _]]].
      destruct (line_roundtrip O bound vsplit split_ok fx tbl lib n q (mkOp g loc ps) Hrt (op_okb_ok lib _ Hu)) as [l [El Dl]].
      unfold enc_op in El. simpl in El. rewrite Hs in El. injection El as <-.
      simpl. rewrite Hs, Dl. simpl. rewrite Hrest. reflexivity.
    + simpl in Hu. apply andb_prop in Hu; destruct Hu as [Hu Hj]. apply andb_prop in Hu; destruct Hu as [Hu Hb].
      apply andb_prop in Hu; destruct Hu as [Hn Hlen]. apply Nat.eqb_eq in Hlen.
      simpl in Hd. destruct (inv_lookup env nv (map shape_of body) HI Hd) as [g [Hlk [cb [Hg Hcor]]]].
      assert (Hne : loc <> []) by (destruct loc; [discriminate | congruence]).
      cbn [clines app]. unfold uline. cbn [gname uparams uloc]. fold (params_of body).
      cbn [dec_stmts dec_call]. rewrite (params_rt O bound vsplit split_ok fx (params_of body)).
      rewrite (conv_args_ok n loc Hne). cbn [bind]. rewrite Hlk, Hg.
      rewrite <- (shapes_eq_params_len body (map shape_of body)) by (rewrite map_map; apply map_ext; intros; now rewrite shape_idem).
      rewrite Nat.eqb_refl, Hlen, Nat.eqb_refl.
      rewrite (shapes_eq_params_len body (map shape_of body)) by (rewrite map_map; apply map_ext; intros; now rewrite shape_idem).
      rewrite <- Hg, (Hcor body eq_refl loc). cbn [bind]. rewrite Hrest. reflexivity.
  - simpl in Hok. simpl. rewrite (conv_args_ok n loc Hok). simpl. rewrite Hrest. reflexivity.
  - simpl in Hok. cbn [clines expect]. induction ms as [|[i [cn ci]] ms IH]; [exact Hrest|].
    cbn [map app fst snd dec_stmts]. unfold measure_keys. rewrite first_index_q. cbn [bind fst].
    assert (Hq : has_reg [(q, n)] q = true) by (unfold has_reg; simpl; now rewrite Nat.eqb_refl).
    pose proof (Hok (i, (cn, ci)) (or_introl eq_refl)) as Hcn. simpl in Hcn.
    rewrite Hq, Hcn. cbn [fst snd bind].
    rewrite IH by (intros m Hm; apply Hok; right; exact Hm). reflexivity.
  - simpl in Hok. destruct loc as [|a [|? ?]]; try discriminate. simpl. rewrite first_index_q. simpl.
    rewrite Hrest. reflexivity.
Qed.

Lemma lines_run : forall n cregs env, Inv env -> forall c, Forall (cop_ok cregs env) c ->
  dec' [(q, n)] cregs env (concat (map (clines nm vsplit) c)) = Ok (cregs, concat (map expect c)).
Proof.
  intros n cregs env HI. induction 1 as [|o c Ho Hc IH]; [reflexivity|].
  simpl. now apply line_run.
Qed.

Lemma existsb_eqb_In : forall x l, existsb (Nat.eqb x) l = true -> In x l.
Proof. intros x l H. apply existsb_exists in H. destruct H as [y [Hy E]]. apply Nat.eqb_eq in E. now subst. Qed.

(* decode(encode circuit) = circuit, for every order gs in which the gate set is printed *)
Theorem prog_roundtrip : forall n (gs c : list (cop V)), circ_okb nm lib n gs c = true ->
  decode_prog O fx bound vsplit tbl lib q n (encode_with nm vsplit gs c)
  = Ok (all_cregs gs, concat (map expect c)).
Proof.
  intros n gs c H. unfold circ_okb in H. apply andb_prop in H; destruct H as [Hgs Hc].
  unfold gs_okb in Hgs. apply andb_prop in Hgs; destruct Hgs as [Hgs Hnd]. apply nodup_nat_NoDup in Hnd.
  unfold decode_prog, encode_with.
  destruct (gs_run [(q, n)] gs [] [] (concat (map (clines nm vsplit) c)) (fun k g H => ltac:(discriminate)) Hgs Hnd)
    as [env [HI [_ [Hdef Hrun]]]].
  rewrite Hrun. simpl app. apply lines_run; auto.
  apply Forall_forall. intros o Ho. rewrite forallb_forall in Hc. specialize (Hc o Ho).
  destruct o as [u | loc | cr ms loc | loc]; simpl in *.
  - apply andb_prop in Hc; destruct Hc as [Hu Hin]. split; auto.
    destruct u as [? ? ?|nv b l]; simpl; auto. apply Hdef. apply existsb_eqb_In. exact Hin.
  - destruct loc; [discriminate | congruence].
  - intros m Hm. rewrite forallb_forall in Hc. exact (Hc m Hm).
  - now apply Nat.eqb_eq.
Qed.

(* same operations per qubit *)
Corollary prog_roundtrip_proj : forall n (gs c : list (cop V)), circ_okb nm lib n gs c = true ->
  exists d, decode_prog O fx bound vsplit tbl lib q n (encode_with nm vsplit gs c) = Ok (all_cregs gs, d) /\
    forall x, dproj x d = dproj x (concat (map expect c)).
Proof. intros n gs c H. eexists. split; [apply prog_roundtrip; exact H | reflexivity]. Qed.

(* ---- finding: two different measurement gates in the gate set ---- *)
Lemma cregs_clash : forall regs env rest cr cregs,
  (exists x, In x (map fst cr) /\ In x (map fst cregs)) ->
  dec' regs cregs env (map (fun r => SCreg (fst r) (snd r)) cr ++ rest) = ErrLang.
Proof.
  intros regs env rest. induction cr as [|[n sz] cr IH]; intros cregs [x [Hx Hc]]; [destruct Hx|].
  simpl. destruct (has_reg cregs n) eqn:E; [reflexivity|]. apply IH. exists x. split.
  - simpl in Hx. destruct Hx as [<-|Hx]; auto. apply has_reg_In in Hc. congruence.
  - rewrite map_app. apply in_or_app. auto.
Qed.
Lemma cregs_either : forall regs env rest cr cregs,
  dec' regs cregs env (map (fun r => SCreg (fst r) (snd r)) cr ++ rest) = ErrLang \/
  dec' regs cregs env (map (fun r => SCreg (fst r) (snd r)) cr ++ rest) = dec' regs (cregs ++ cr) env rest.
Proof.
  intros regs env rest. induction cr as [|[n sz] cr IH]; intros cregs; simpl.
  - right. now rewrite app_nil_r.
  - destruct (has_reg cregs n); [left; reflexivity|].
    specialize (IH (cregs ++ [(n, sz)])). rewrite <- app_assoc in IH. exact IH.
Qed.

(* a circuit whose gate set has two MeasurementPlaceholders (they differ in their
   measurements) with a classical register: its own output is rejected
   (Classical register redeclared) *)
Theorem creg_redeclared : forall n r cr ms1 l1 ms2 l2 (c : list (cop V)),
  decode_prog O fx bound vsplit tbl lib q n
    (encode_with nm vsplit [CMeasure (r :: cr) ms1 l1; CMeasure (r :: cr) ms2 l2] c) = ErrLang.
Proof.
  intros n r cr ms1 l1 ms2 l2 c. unfold decode_prog, encode_with.
  set (S := map (fun r0 : nat * nat => @SCreg V (fst r0) (snd r0)) (r :: cr)).
  change (concat (map (cdefs nm) [CMeasure (r :: cr) ms1 l1; CMeasure (r :: cr) ms2 l2])) with (S ++ S ++ []).
  rewrite app_nil_r, <- app_assoc. subst S.
  destruct (cregs_either [(q, n)] [] (map (fun r0 => SCreg (fst r0) (snd r0)) (r :: cr) ++ concat (map (clines nm vsplit) c)) (r :: cr) [])
    as [E|E]; rewrite E; [reflexivity|].
  apply cregs_clash. exists (fst r). simpl. auto.
Qed.

End ProgThm.
