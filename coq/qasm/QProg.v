(* C17 - program-level model of the ENCODER  (qasm2.py OPENQASM2Language.encode,
   Operation.get_qasm, Gate.get_qasm, CircuitGate.get_qasm_gate_def / get_qasm,
   MeasurementPlaceholder.get_qasm_gate_def / get_qasm, barrier / reset placeholders,
   the register declaration) as a printer from circuits to statement records and
   tokens, and of the DECODER's statement visitors on such programs (creg, gatedecl /
   gatep / rbracket, gate, barrier, measure, reset).

   circuit  --encode_with-->  list stmt  --toks-->  tokens  (compared token-wise with
                                                             Circuit.to('qasm'))
            list stmt  --decode_prog-->  decoded operations  (compared with the real
                                                             OPENQASM2Language.decode)
   Lark (characters -> parse tree) is not modelled: the decoder model starts from the
   statement records.

   A CircuitGate operation is represented in instantiated form: the body operations
   carry the slices of the OPERATION's parameter vector (the encoder never prints the
   template parameters of the CircuitGate's own circuit).  `circuitgate_<hash>` names
   are modelled by a naming function nm of the gate's shape (number of qudits, body
   gates and locations); the theorems assume nm injective (= no hash collision), the
   harness checks it for the gates of every generated circuit.
   No proofs in this file. *)
From Coq Require Import String List Bool Arith.
Import ListNotations.
From BQ Require Import qasm.QExp qasm.QRegs qasm.QTable qasm.QGate qasm.QEnc.

(* ------------------------------------------------------------------ circuits *)
(* unitary operations: a library gate, or a CircuitGate over a body *)
Inductive uop (V : Type) :=
  | ULib (g : nat) (loc : list nat) (ps : list V)
  | UCirc (nv : nat) (body : list (uop V)) (loc : list nat).
Arguments ULib {V}. Arguments UCirc {V}.

Fixpoint uparams {V} (o : uop V) : list V :=
  match o with
  | ULib _ _ ps => ps
  | UCirc _ body _ => concat (map uparams body)
  end.
Definition uloc {V} (o : uop V) : list nat :=
  match o with ULib _ l _ => l | UCirc _ _ l => l end.
Definition params_of {V} (body : list (uop V)) : list V := concat (map uparams body).

(* what the name of a CircuitGate may depend on *)
Fixpoint shape_of {V} (o : uop V) : uop unit :=
  match o with
  | ULib g l ps => ULib g l (map (fun _ => tt) ps)
  | UCirc nv b l => UCirc nv (map shape_of b) l
  end.

(* the Operation the decoder builds (QGate.iop) *)
Fixpoint erase {V} (o : uop V) : iop V :=
  match o with
  | ULib g l ps => IPrim g l ps
  | UCirc nv b l => ICirc nv (map erase b) l
  end.

(* operations of a circuit *)
Inductive cop (V : Type) :=
  | CU (o : uop V)
  | CBarrier (loc : list nat)                          (* BarrierPlaceholder(len loc) *)
  | CMeasure (cregs : list (nat * nat))                (* MeasurementPlaceholder.classical_regs *)
             (ms : list (nat * (nat * nat)))           (* .measurements: qudit -> (creg, index), dict order *)
             (loc : list nat)
  | CReset (loc : list nat).
Arguments CU {V}. Arguments CBarrier {V}. Arguments CMeasure {V}. Arguments CReset {V}.

(* decoded operations; a decoded measurement always has ONE entry *)
Inductive dop (V : Type) :=
  | DU (o : iop V)
  | DBarrier (loc : list nat)
  | DMeasure (key cname cidx : nat) (loc : list nat)
  | DReset (loc : list nat).
Arguments DU {V}. Arguments DBarrier {V}. Arguments DMeasure {V}. Arguments DReset {V}.

(* ---------------------------------------------------------------- statements *)
Inductive callee := KSpell (g : nat) | KCirc (name : nat).
Record bline := mkBL { b_callee : callee; b_formals : list nat; b_qs : list nat }.
Inductive stmt (V : Type) :=
  | SCreg (name size : nat)                                   (* creg name[size]; *)
  | SGateDef (name np nq : nat) (body : list bline)           (* gate circuitgate_name (p0..) q0.. { body } *)
  | SCall (k : callee) (ps : list (actual V)) (args : list nat)   (* name(ps) q[a0], q[a1]; *)
  | SBarrier (args : list nat)                                (* barrier q[a0], q[a1]; *)
  | SMeasure (i cname cidx : nat)                             (* measure q[i] -> cname[cidx]; *)
  | SReset (args : list nat).                                 (* reset q[a0]; *)
Arguments SCreg {V}. Arguments SGateDef {V}. Arguments SCall {V}. Arguments SBarrier {V}.
Arguments SMeasure {V}. Arguments SReset {V}.

Fixpoint mapR {A B} (f : A -> res B) (l : list A) : res (list B) :=
  match l with
  | [] => Ok []
  | x :: t => bind (f x) (fun y => bind (mapR f t) (fun r => Ok (y :: r)))
  end.
Fixpoint alookup {A} (env : list (nat * A)) (k : nat) : option A :=
  match env with [] => None | (n, a) :: t => if Nat.eqb n k then Some a else alookup t k end.

(* ------------------------------------------------------------------- encoder *)
Section Encoder.
Context {V : Type}.
Variable nm : nat -> list (uop unit) -> nat.      (* abs(hash(CircuitGate)) *)
Variable vsplit : V -> actual V.                  (* str(float) *)

Definition gname (o : uop V) : callee :=
  match o with
  | ULib g _ _ => KSpell g                         (* op.gate.qasm_name *)
  | UCirc nv b _ => KCirc (nm nv (map shape_of b)) (* f'circuitgate_{id}' *)
  end.

(* CircuitGate.get_qasm_gate_def, the loop over the body with param_index *)
Fixpoint blines (body : list (uop V)) (param_index : nat) : list bline :=
  match body with
  | [] => []
  | o :: t =>
      let np := length (uparams o) in
      mkBL (gname o) (seq param_index np) (uloc o) :: blines t (param_index + np)
  end.
Definition gate_def (nv : nat) (body : list (uop V)) : stmt V :=
  SGateDef (nm nv (map shape_of body)) (length (params_of body)) nv (blines body 0).
(* ... preceded by the definitions of the gates of the body (here: every body
   operation in order; the code iterates the SET of body gates, i.e. drops repetitions
   and uses an unspecified order - covered by the theorems, which hold for every
   sequence of definitions in which a gate is defined before it is used) *)
Fixpoint udefs (o : uop V) : list (stmt V) :=
  match o with
  | ULib _ _ _ => []                               (* Gate.get_qasm_gate_def: '' *)
  | UCirc nv body _ => concat (map udefs body) ++ [gate_def nv body]
  end.
(* Gate.get_qasm / CircuitGate.get_qasm *)
Definition uline (o : uop V) : stmt V := SCall (gname o) (map vsplit (uparams o)) (uloc o).

Definition cdefs (o : cop V) : list (stmt V) :=
  match o with
  | CU u => udefs u
  | CMeasure cregs _ _ => map (fun r => SCreg (fst r) (snd r)) cregs
  | _ => []
  end.
Definition clines (o : cop V) : list (stmt V) :=
  match o with
  | CU u => [uline u]
  | CBarrier loc => [SBarrier loc]
  | CMeasure _ ms _ => map (fun m => SMeasure (fst m) (fst (snd m)) (snd (snd m))) ms   (* the location is NOT used *)
  | CReset loc => [SReset loc]
  end.
(* OPENQASM2Language.encode: definitions of circuit.gate_set (gs: one operation per
   gate, in the set's iteration order), then one line per operation *)
Definition encode_with (gs c : list (cop V)) : list (stmt V) :=
  concat (map cdefs gs) ++ concat (map clines c).

(* the encoder after fixes/C17-creg.patch: a classical register is declared by the first
   measurement gate of the gate set that lists it, and not again *)
Fixpoint new_cregs (declared : list nat) (cr : list (nat * nat)) : list (nat * nat) :=
  match cr with
  | [] => []
  | r :: t => if existsb (Nat.eqb (fst r)) declared then new_cregs declared t
              else r :: new_cregs (declared ++ [fst r]) t
  end.
Fixpoint defs_fixed (declared : list nat) (gs : list (cop V)) : list (stmt V) :=
  match gs with
  | [] => []
  | CMeasure cr _ _ :: t =>
      let nw := new_cregs declared cr in
      map (fun r => SCreg (fst r) (snd r)) nw ++ defs_fixed (declared ++ map fst nw) t
  | o :: t => cdefs o ++ defs_fixed declared t
  end.
Definition encode_with_fixed (gs c : list (cop V)) : list (stmt V) :=
  defs_fixed [] gs ++ concat (map clines c).
End Encoder.

(* -------------------------------------------------------------------- tokens *)
Inductive kw := KwQreg | KwCreg | KwGate | KwBarrier | KwMeasure | KwReset.
Inductive sy := SyL | SyR | SyLB | SyRB | SyLC | SyRC | SyComma | SySemi | SyArrow.
Inductive ptok (V : Type) :=
  | TkKw (k : kw)
  | TkSy (s : sy)
  | TkSpell (g : nat)          (* qasm_name of library gate g *)
  | TkCirc (name : nat)        (* circuitgate_<name> *)
  | TkCreg (name : nat)
  | TkQ                        (* q *)
  | TkQn (j : nat)             (* q<j> *)
  | TkPn (i : nat)             (* p<i> *)
  | TkInt (n : nat)
  | TkLit (a : actual V).      (* str(float): sign, magnitude *)
Arguments TkKw {V}. Arguments TkSy {V}. Arguments TkSpell {V}. Arguments TkCirc {V}. Arguments TkCreg {V}.
Arguments TkQ {V}. Arguments TkQn {V}. Arguments TkPn {V}. Arguments TkInt {V}. Arguments TkLit {V}.

Section Tokens.
Context {V : Type}.
Fixpoint sep (l : list (list (ptok V))) : list (ptok V) :=        (* ', '.join *)
  match l with
  | [] => []
  | [x] => x
  | x :: t => x ++ TkSy SyComma :: sep t
  end.
Definition parens (l : list (list (ptok V))) : list (ptok V) :=  (* '(..)' and .replace('()', '') *)
  match l with [] => [] | _ => TkSy SyL :: sep l ++ [TkSy SyR] end.
Definition tk_callee (k : callee) : ptok V :=
  match k with KSpell g => TkSpell g | KCirc n => TkCirc n end.
(* 'q[' + '], q['.join(...) + ']' *)
Definition tk_args (args : list nat) : list (ptok V) :=
  match args with
  | [] => [TkQ; TkSy SyLB; TkSy SyRB]
  | _ => sep (map (fun a => [TkQ; TkSy SyLB; TkInt a; TkSy SyRB]) args)
  end.
(* 'q' + ', q'.join(...) *)
Definition tk_qs (qs : list nat) : list (ptok V) :=
  match qs with [] => [TkQ] | _ => sep (map (fun j => [TkQn j]) qs) end.
Definition tk_bline (b : bline) : list (ptok V) :=
  tk_callee (b_callee b) :: parens (map (fun i => [TkPn i]) (b_formals b)) ++ tk_qs (b_qs b) ++ [TkSy SySemi].
Definition toks_stmt (s : stmt V) : list (ptok V) :=
  match s with
  | SCreg n sz => [TkKw KwCreg; TkCreg n; TkSy SyLB; TkInt sz; TkSy SyRB; TkSy SySemi]
  | SGateDef n np nq body =>
      TkKw KwGate :: TkCirc n :: parens (map (fun i => [TkPn i]) (seq 0 np)) ++ tk_qs (seq 0 nq) ++
      TkSy SyLC :: concat (map tk_bline body) ++ [TkSy SyRC]
  | SCall k ps args => tk_callee k :: parens (map (fun a => [TkLit a]) ps) ++ tk_args args ++ [TkSy SySemi]
  | SBarrier args => TkKw KwBarrier :: tk_args args ++ [TkSy SySemi]
  | SMeasure i cn ci =>
      [TkKw KwMeasure; TkQ; TkSy SyLB; TkInt i; TkSy SyRB; TkSy SyArrow; TkCreg cn; TkSy SyLB; TkInt ci; TkSy SyRB; TkSy SySemi]
  | SReset args => TkKw KwReset :: tk_args args ++ [TkSy SySemi]
  end.
(* after the fixed header `OPENQASM 2.0; include "qelib1.inc";` *)
Definition toks_prog (n : nat) (ss : list (stmt V)) : list (ptok V) :=
  [TkKw KwQreg; TkQ; TkSy SyLB; TkInt n; TkSy SyRB; TkSy SySemi] ++ concat (map toks_stmt ss).
End Tokens.

(* ------------------------------------------------------------------- decoder *)
Section Decoder.
Context {V : Type}.
Variable O : ops V.
Variable fx : bool.
Variable bound : fn -> bool.
Variable vsplit : V -> actual V.
Variable tbl : list dec_entry.       (* gate_defs *)
Variable lib : list lib_gate.
Variable q : nat.                    (* the register name `q` *)

(* the tree of the body parameter `p<i>` after replace_param_ids *)
Definition idx_tree (i : nat) : exp V := EOne (MOne (PIdx i)).

(* gate_defs first, then custom_gate_defs; returns (definition, num_params, num_vars) *)
Definition resolve (env : list (nat * gdef V)) (k : callee) : res (gdef V * nat * nat) :=
  match k with
  | KSpell g =>
      match spelling_of lib g with
      | None => ErrCrash                        (* no qasm_name: the encoder would have raised *)
      | Some s => match lookup tbl s with
                  | None => ErrLang             (* Unrecognized gate *)
                  | Some e => Ok (GBuiltin (d_gate e), d_np e, d_nv e)
                  end
      end
  | KCirc n =>
      match alookup env n with
      | None => ErrLang
      | Some (GCustom np nv b) => Ok (GCustom np nv b, np, nv)
      | Some (GBuiltin _) => ErrCrash
      end
  end.

(* gatep on one body line of `gate name (p0..p{np-1}) q0..q{nq-1} {`:
   parameters (a name that is not a formal is evaluated at once: NameError), location
   (qubits.index: ValueError), gate lookup, arity checks - in this order *)
Definition compile_line (env : list (nat * gdef V)) (np nq : nat) (b : bline)
  : res (gdef V * list nat * list (pexpr V)) :=
  if forallb (fun i => Nat.ltb i np) (b_formals b) then
    match b_qs b with
    | [] => ErrCrash
    | _ =>
      if forallb (fun j => Nat.ltb j nq) (b_qs b) then
        bind (resolve env (b_callee b)) (fun r =>
          if Nat.eqb (length (b_formals b)) (snd (fst r)) then
            if Nat.eqb (length (b_qs b)) (snd r) then
              Ok (fst (fst r), b_qs b, map (fun i => PTree (idx_tree i)) (b_formals b))
            else ErrLang
          else ErrLang)
      else ErrCrash
    end
  else ErrCrash.
(* gatedecl ... rbracket *)
Definition compile_def (env : list (nat * gdef V)) (np nq : nat) (body : list bline) : res (gdef V) :=
  bind (mapR (compile_line env np nq) body) (fun cb => Ok (GCustom np nq cb)).

Definition conv_args (regs : list reg) (args : list nat) : res (list nat) :=
  match args with
  | [] => ErrCrash                                     (* `q[]` is not a sentence of the grammar *)
  | a0 :: rest => conv_mixed regs (mixed_of q a0 rest)
  end.

(* visitor.gate *)
Definition dec_call (regs : list reg) (env : list (nat * gdef V)) (k : callee)
                    (ps : list (actual V)) (args : list nat) : res (dop V) :=
  match k with
  | KSpell g =>
      match spelling_of lib g with
      | None => ErrCrash
      | Some s => bind (dec_line O fx bound regs tbl q (mkLine s ps args))
                       (fun o => Ok (DU (IPrim (o_gate o) (o_loc o) (o_params o))))
      end
  | KCirc n =>
      match mapM (fun a => eval_exp O fx bound (lit_tree a)) ps with
      | None => ErrCrash
      | Some vs =>
          bind (conv_args regs args) (fun loc =>
            match alookup env n with
            | None => ErrLang
            | Some (GBuiltin _) => ErrCrash
            | Some (GCustom np nv b) =>
                if Nat.eqb (length vs) np then
                  if Nat.eqb (length loc) nv then
                    match build O fx bound vsplit (GCustom np nv b) loc vs with
                    | Some o => Ok (DU o)
                    | None => ErrCrash
                    end
                  else ErrLang
                else ErrLang
            end)
      end
  end.

Definition has_reg (rs : list (nat * nat)) (x : nat) : bool := existsb (fun r => Nat.eqb (fst r) x) rs.

(* visit_topdown over the statements, in document order; the first exception aborts.
   Returns the classical registers and the operations. *)
Fixpoint dec_stmts (regs : list reg) (cregs : list (nat * nat)) (env : list (nat * gdef V))
                   (ss : list (stmt V)) : res (list (nat * nat) * list (dop V)) :=
  let emit (r : res (dop V)) (t : list (stmt V)) :=
      bind r (fun d => bind (dec_stmts regs cregs env t) (fun x => Ok (fst x, d :: snd x))) in
  match ss with
  | [] => Ok (cregs, [])
  | s :: t =>
      match s with
      | SCreg n sz =>
          if has_reg cregs n then ErrLang                (* Classical register redeclared *)
          else dec_stmts regs (cregs ++ [(n, sz)]) env t
      | SGateDef n np nq body =>
          bind (compile_def env np nq body) (fun g => dec_stmts regs cregs ((n, g) :: env) t)
      | SCall k ps args => emit (dec_call regs env k ps args) t
      | SBarrier args => emit (bind (conv_args regs args) (fun loc => Ok (DBarrier loc))) t
      | SMeasure i cn ci =>
          (* location first, then the register checks; the key is the register-local index *)
          emit (bind (measure_keys regs q (Some i)) (fun lk =>
                  if has_reg regs q then
                    if has_reg cregs cn then Ok (DMeasure i cn ci (fst lk)) else ErrLang
                  else ErrLang)) t
      | SReset args =>
          emit (match args with
                | [a] => bind (reset_locs regs q (Some a)) (fun loc => Ok (DReset loc))
                | _ => ErrCrash
                end) t
      end
  end.

(* decode of `qreg q[n];` + statements *)
Definition decode_prog (n : nat) (ss : list (stmt V)) : res (list (nat * nat) * list (dop V)) :=
  dec_stmts [(q, n)] [] [] ss.
End Decoder.

(* -------------------------------------------------- what decoding should give *)
Definition expect {V} (o : cop V) : list (dop V) :=
  match o with
  | CU u => [DU (erase u)]
  | CBarrier l => [DBarrier l]
  | CMeasure _ ms _ => map (fun m => DMeasure (fst m) (fst (snd m)) (snd (snd m)) [fst m]) ms
  | CReset l => [DReset l]
  end.
Definition all_cregs {V} (gs : list (cop V)) : list (nat * nat) :=
  concat (map (fun o => match o with CMeasure cr _ _ => cr | _ => [] end) gs).

(* ---------------------------------------------- well-formedness (boolean) *)
Section Wf.
Context {V : Type}.
Variable nm : nat -> list (uop unit) -> nat.
Variable lib : list lib_gate.

Definition is_nil {A} (l : list A) : bool := match l with [] => true | _ => false end.
(* a unitary operation the encoder can print and the decoder reads back: library gates
   as in QEnc.op_okb; a CircuitGate acts on nv qubits and its body operations use
   body qubits 0..nv-1 *)
Fixpoint uop_okb (o : uop V) : bool :=
  match o with
  | ULib g loc ps => op_okb lib (mkOp g loc ps)
  | UCirc nv body loc =>
      negb (is_nil loc) && Nat.eqb (length loc) nv &&
      forallb uop_okb body && forallb (fun b => forallb (fun j => Nat.ltb j nv) (uloc b)) body
  end.
Definition def_names (gs : list (cop V)) : list nat :=
  concat (map (fun o => match o with CU (UCirc nv b _) => [nm nv (map shape_of b)] | _ => [] end) gs).
Fixpoint nodup_nat (l : list nat) : bool :=
  match l with [] => true | x :: t => negb (existsb (Nat.eqb x) t) && nodup_nat t end.
(* the gate set: printable gates, classical registers declared once *)
Definition gs_okb (gs : list (cop V)) : bool :=
  forallb (fun o => match o with CU u => uop_okb u | _ => true end) gs &&
  nodup_nat (map fst (all_cregs gs)).
(* an operation of the circuit over n qubits, given the gate set *)
Definition cop_okb (n : nat) (gs : list (cop V)) (o : cop V) : bool :=
  match o with
  | CU u => uop_okb u &&
            match u with UCirc nv b _ => existsb (Nat.eqb (nm nv (map shape_of b))) (def_names gs) | _ => true end
  | CBarrier loc => negb (is_nil loc)
  | CMeasure _ ms _ => forallb (fun m => existsb (fun r => Nat.eqb (fst r) (fst (snd m))) (all_cregs gs)) ms
  | CReset loc => Nat.eqb (length loc) 1
  end.
Definition circ_okb (n : nat) (gs c : list (cop V)) : bool := gs_okb gs && forallb (cop_okb n gs) c.
End Wf.

(* per-qubit timelines of decoded operations *)
Definition dloc {V} (d : dop V) : list nat :=
  match d with
  | DU (IPrim _ l _) => l | DU (ICirc _ _ l) => l
  | DBarrier l => l | DMeasure _ _ _ l => l | DReset l => l
  end.
Definition dproj {V} (x : nat) (l : list (dop V)) : list (dop V) :=
  filter (fun d => existsb (Nat.eqb x) (dloc d)) l.
