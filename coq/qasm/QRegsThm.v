(* C17 - proofs about qasm/QRegs.v (register name + index -> flat qubit index). *)
From Coq Require Import List Bool Arith Lia.
Import ListNotations.
From BQ Require Import qasm.QRegs.

Definition res_of {A} (o : option A) : res A := match o with Some a => Ok a | None => ErrLang end.

Lemma first_index_from_spec : forall regs x k,
  first_index_from regs x k = res_of (option_map (fun o => k + o) (offset_of regs x)).
Proof.
  induction regs as [|[n sz] t IH]; intros x k; simpl; auto.
  destruct (Nat.eqb n x); simpl.
  - now rewrite Nat.add_0_r.
  - rewrite IH. destruct (offset_of t x); simpl; auto. f_equal. lia.
Qed.

(* flat index of the first qubit of x = sum of the sizes of the registers before it *)
Theorem first_index_spec : forall regs x, first_index regs x = res_of (offset_of regs x).
Proof.
  intros. unfold first_index. rewrite first_index_from_spec.
  destruct (offset_of regs x); reflexivity.
Qed.

Lemma indices_from_spec : forall regs x k,
  indices_from regs x k =
  match offset_of regs x, size_of regs x with
  | Some o, Some sz => Ok (map (fun i => k + o + i) (seq 0 sz))
  | _, _ => ErrLang
  end.
Proof.
  induction regs as [|[n sz] t IH]; intros x k; simpl; auto.
  destruct (Nat.eqb n x); simpl.
  - f_equal. apply map_ext. intros; lia.
  - rewrite IH. destruct (offset_of t x); simpl; auto. destruct (size_of t x); auto.
    f_equal. apply map_ext. intros; lia.
Qed.

(* a whole register expands to its qubits in order: o, o+1, ..., o+size-1 *)
Theorem indices_spec : forall regs x,
  indices regs x =
  match offset_of regs x, size_of regs x with
  | Some o, Some sz => Ok (map (fun i => o + i) (seq 0 sz))
  | _, _ => ErrLang
  end.
Proof. intros. unfold indices. now rewrite indices_from_spec. Qed.

Lemma offset_size : forall regs x, (offset_of regs x = None <-> size_of regs x = None).
Proof.
  induction regs as [|[n sz] t IH]; intros x; simpl; [tauto|].
  destruct (Nat.eqb n x); [split; discriminate|].
  rewrite <- IH. destruct (offset_of t x); simpl; split; congruence.
Qed.

Lemma spec_arg_conv : forall regs a,
  match a with
  | AIdx x i => bind (first_index regs x) (fun f => Ok [f + i])
  | AWhole x => indices regs x
  end = res_of (spec_arg regs a).
Proof.
  intros regs [x|x i]; simpl.
  - rewrite indices_spec. destruct (offset_of regs x), (size_of regs x); reflexivity.
  - rewrite first_index_spec. destruct (offset_of regs x); reflexivity.
Qed.

Lemma spec_args_app : forall regs a b,
  spec_args regs (a ++ b) =
  match spec_args regs a, spec_args regs b with Some x, Some y => Some (x ++ y) | _, _ => None end.
Proof.
  induction a as [|h a IH]; intros b; simpl.
  - destruct (spec_args regs b); reflexivity.
  - rewrite IH. destruct (spec_arg regs h), (spec_args regs a), (spec_args regs b); simpl;
      try reflexivity. now rewrite app_assoc.
Qed.

Definition single_id (l : idlist) : bool := match l with IdOne _ => true | _ => false end.
Fixpoint mixed_ok (l : mixedlist) : bool :=
  match l with
  | MxFirst _ _ => true
  | MxSnocId l _ | MxSnocIdx l _ _ => mixed_ok l
  | MxIdl l _ _ => single_id l
  end.
(* argument lists the idlist branch can handle: at most one leading bare register *)
Definition no_idlist2 (q : qlist) : bool :=
  match q with QIdl l => single_id l | QMixed l => mixed_ok l | QArg _ _ => true end.

Lemma conv_mixed_spec : forall regs l, mixed_ok l = true ->
  conv_mixed regs l = res_of (spec_args regs (args_of_mixed l)).
Proof.
  induction l as [x i|l IH x|l IH x i|l x i]; simpl; intros Hok.
  - rewrite first_index_spec. destruct (offset_of regs x); reflexivity.
  - rewrite (IH Hok), spec_args_app. simpl. rewrite indices_spec.
    destruct (spec_args regs (args_of_mixed l)); destruct (offset_of regs x); destruct (size_of regs x);
      simpl; rewrite ?app_nil_r; auto.
  - rewrite (IH Hok), spec_args_app. simpl. rewrite first_index_spec.
    destruct (spec_args regs (args_of_mixed l)); destruct (offset_of regs x); simpl; auto.
  - destruct l as [y|]; [|discriminate]. simpl. rewrite indices_spec, first_index_spec.
    destruct (offset_of regs y); destruct (size_of regs y); destruct (offset_of regs x);
      simpl; rewrite ?app_nil_r; auto.
Qed.

(* convert_qubit_ids_to_indices = items in order, a bare name = the whole register *)
Theorem convert_spec : forall regs q, no_idlist2 q = true ->
  convert_qubit_ids_to_indices regs q = res_of (spec_args regs (args_of q)).
Proof.
  intros regs [l|l|x [i|]] Hok; simpl in *.
  - destruct l as [y|]; [|discriminate]. simpl. rewrite indices_spec.
    destruct (offset_of regs y), (size_of regs y); simpl; auto. now rewrite app_nil_r.
  - now apply conv_mixed_spec.
  - rewrite first_index_spec. destruct (offset_of regs x); reflexivity.
  - rewrite indices_spec. destruct (offset_of regs x), (size_of regs x); simpl; auto.
    now rewrite app_nil_r.
Qed.

(* design finding (idlist): two or more bare register names crash the visitor *)
Theorem convert_idlist_crash : forall regs l x, convert_qubit_ids_to_indices regs (QIdl (IdSnoc l x)) = ErrCrash.
Proof. reflexivity. Qed.

(* ---- flat indices are in range and injective ---- *)
Lemma offset_range : forall regs x o sz i,
  offset_of regs x = Some o -> size_of regs x = Some sz -> i < sz -> o + i < total regs.
Proof.
  induction regs as [|[n s] t IH]; intros x o sz i Ho Hs Hi; simpl in *; [discriminate|].
  destruct (Nat.eqb n x).
  - injection Ho as <-. injection Hs as <-. lia.
  - destruct (offset_of t x) as [o'|] eqn:E; [|discriminate]. injection Ho as <-.
    specialize (IH x o' sz i E Hs Hi). lia.
Qed.

Lemma offset_inj : forall regs x y ox oy sx sy i j,
  NoDup (map fst regs) ->
  offset_of regs x = Some ox -> size_of regs x = Some sx -> i < sx ->
  offset_of regs y = Some oy -> size_of regs y = Some sy -> j < sy ->
  ox + i = oy + j -> x = y /\ i = j.
Proof.
  induction regs as [|[n s] t IH]; intros x y ox oy sx sy i j Hnd Hox Hsx Hi Hoy Hsy Hj E;
    simpl in *; [discriminate|].
  inversion Hnd as [|? ? Hnin Hnd']; subst.
  destruct (Nat.eqb n x) eqn:Ex, (Nat.eqb n y) eqn:Ey.
  - apply Nat.eqb_eq in Ex, Ey. injection Hox as <-. injection Hoy as <-. split; [congruence | lia].
  - injection Hox as <-. injection Hsx as <-.
    destruct (offset_of t y) as [o'|]; [|discriminate]. injection Hoy as <-. lia.
  - injection Hoy as <-. injection Hsy as <-.
    destruct (offset_of t x) as [o'|]; [|discriminate]. injection Hox as <-. lia.
  - destruct (offset_of t x) as [o1|] eqn:E1; [|discriminate].
    destruct (offset_of t y) as [o2|] eqn:E2; [|discriminate].
    injection Hox as <-. injection Hoy as <-.
    apply (IH x y o1 o2 sx sy i j); auto. lia.
Qed.

(* ---- cxgate / ugate ---- *)
Lemma offset_in : forall regs x o, offset_of regs x = Some o -> In x (map fst regs).
Proof.
  induction regs as [|[m s] r IH]; intros x o E; simpl in *; [discriminate|].
  destruct (Nat.eqb m x) eqn:Em; [left; now apply Nat.eqb_eq|].
  right. destruct (offset_of r x) eqn:E'; [eauto | discriminate].
Qed.
Lemma cx_walk_spec : forall regs c t ci ti k cl tl,
  NoDup (map fst regs) ->
  cx_walk regs c t ci ti k cl tl =
  (match offset_of regs c with Some o => Some (k + o + ci) | None => cl end,
   match offset_of regs t with Some o => Some (k + o + ti) | None => tl end).
Proof.
  induction regs as [|[n s] r IH]; intros c t ci ti k cl tl Hnd; simpl; auto.
  inversion Hnd as [|? ? Hnin Hnd']; subst. rewrite IH by assumption.
  assert (Hno : forall z, Nat.eqb n z = true -> offset_of r z = None).
  { intros z Hz. apply Nat.eqb_eq in Hz. subst z.
    destruct (offset_of r n) eqn:E; auto. exfalso. apply Hnin. eapply offset_in; eauto. }
  f_equal.
  - destruct (Nat.eqb n c) eqn:Ec.
    + rewrite (Hno c Ec). f_equal. lia.
    + destruct (offset_of r c); simpl; auto. f_equal. lia.
  - destruct (Nat.eqb n t) eqn:Et.
    + rewrite (Hno t Et). f_equal. lia.
    + destruct (offset_of r t); simpl; auto. f_equal. lia.
Qed.

Theorem cxgate_spec : forall regs c ci t ti, NoDup (map fst regs) ->
  cxgate regs c ci t ti =
  match offset_of regs c, offset_of regs t with
  | Some oc, Some ot => if Nat.eqb (oc + ci) (ot + ti) then ErrLang else Ok [oc + ci; ot + ti]
  | _, _ => ErrLang
  end.
Proof.
  intros. unfold cxgate. rewrite cx_walk_spec by assumption. simpl.
  destruct (offset_of regs c), (offset_of regs t); reflexivity.
Qed.

Theorem ugate_spec : forall regs x i,
  ugate regs x i = res_of (option_map (fun o => [o + i]) (offset_of regs x)).
Proof. intros. unfold ugate. rewrite first_index_spec. destruct (offset_of regs x); reflexivity. Qed.

(* ---- findings: reset of a whole register / measure of one qubit ---- *)
Definition reset_spec (regs : list reg) (x : nat) (i : option nat) : res (list nat) :=
  match i with
  | Some k => res_of (option_map (fun o => [o + k]) (offset_of regs x))
  | None => indices regs x
  end.

Theorem reset_indexed_ok : forall regs x k, reset_locs regs x (Some k) = reset_spec regs x (Some k).
Proof. intros. simpl. rewrite first_index_spec. destruct (offset_of regs x); reflexivity. Qed.

Theorem reset_whole_first_only : forall n sz t x,
  reset_locs ((n, sz) :: t) x None = Ok (seq 0 sz).
Proof. reflexivity. Qed.

Theorem reset_whole_refuted : exists regs x, reset_locs regs x None <> reset_spec regs x None.
Proof. exists [(0, 2); (1, 3)], 1. vm_compute. discriminate. Qed.

Theorem measure_single_refuted : exists regs x i loc keys,
  measure_keys regs x (Some i) = Ok (loc, keys) /\ keys <> loc.
Proof. exists [(0, 2); (1, 3)], 1, 1, [3], [1]. split; [reflexivity | discriminate]. Qed.

Theorem measure_first_register_ok : forall n sz t i,
  measure_keys ((n, sz) :: t) n (Some i) = Ok ([i], [i]).
Proof. intros. unfold measure_keys, first_index. simpl. now rewrite Nat.eqb_refl. Qed.
