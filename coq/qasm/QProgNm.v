(* C17 - an injective naming of CircuitGate shapes exists (Cantor pairing), so the naming
   hypothesis of the program round-trip theorems (no two shapes share a circuitgate_<hash>
   identifier) is satisfiable. *)
From Coq Require Import List Arith Cantor.
Import ListNotations.
From BQ Require Import qasm.QProg qasm.QProgThm.
Local Open Scope list_scope.
Local Opaque Cantor.to_nat.

Fixpoint enc_list (l : list nat) : nat :=
  match l with [] => 0 | x :: t => S (Cantor.to_nat (x, enc_list t)) end.
Lemma enc_list_inj : forall a b, enc_list a = enc_list b -> a = b.
Proof.
  induction a as [|x a IH]; destruct b as [|y b]; simpl; try discriminate; auto.
  intros H. injection H as H. apply Cantor.to_nat_inj in H. injection H as -> H. f_equal; auto.
Qed.
Fixpoint enc_uop (o : uop unit) : nat :=
  match o with
  | ULib g l ps => Cantor.to_nat (0, Cantor.to_nat (g, Cantor.to_nat (enc_list l, length ps)))
  | UCirc nv b l => Cantor.to_nat (1, Cantor.to_nat (nv, Cantor.to_nat (enc_list (map enc_uop b), enc_list l)))
  end.
Lemma unit_list_eq : forall a b : list unit, length a = length b -> a = b.
Proof. induction a as [|[] a IH]; destruct b as [|[] b]; simpl; try discriminate; auto. intros H. f_equal. auto. Qed.
Lemma map_inj_Forall : forall (l : list (uop unit)), Forall (fun a => forall b, enc_uop a = enc_uop b -> a = b) l ->
  forall l', map enc_uop l = map enc_uop l' -> l = l'.
Proof.
  induction 1 as [|x t Hx Ht IH]; destruct l' as [|y t']; simpl; try discriminate; auto.
  intros H. injection H as H1 H2. f_equal; auto.
Qed.
Lemma enc_uop_inj : forall a b, enc_uop a = enc_uop b -> a = b.
Proof.
  apply (uop_ind' (fun a => forall b, enc_uop a = enc_uop b -> a = b)).
  - intros g l ps [g' l' ps'|nv' b' l']; simpl; intros H; apply Cantor.to_nat_inj in H; [|discriminate].
    injection H as H. apply Cantor.to_nat_inj in H. injection H as -> H. apply Cantor.to_nat_inj in H.
    injection H as H1 H2. apply enc_list_inj in H1. apply unit_list_eq in H2. now subst.
  - intros nv body loc HF [g' l' ps'|nv' b' l']; simpl; intros H; apply Cantor.to_nat_inj in H; [discriminate|].
    injection H as H. apply Cantor.to_nat_inj in H. injection H as -> H. apply Cantor.to_nat_inj in H.
    injection H as H1 H2. apply enc_list_inj in H1, H2. apply (map_inj_Forall body HF) in H1. now subst.
Qed.
(* an injective naming of CircuitGate shapes exists (the hypothesis of C17_program_roundtrip is satisfiable) *)
Definition cantor_nm (nv : nat) (sb : list (uop unit)) : nat := Cantor.to_nat (nv, enc_list (map enc_uop sb)).
Lemma cantor_nm_inj : forall a b c d, cantor_nm a b = cantor_nm c d -> a = c /\ b = d.
Proof.
  intros a b c d H. unfold cantor_nm in H. apply Cantor.to_nat_inj in H. injection H as -> H.
  apply enc_list_inj in H. split; auto.
  apply (map_inj_Forall b); auto. apply Forall_forall. intros x _. apply enc_uop_inj.
Qed.
