(* C17 - concrete witnesses (V := Z) showing that the flattening AS IT IS in
   visitor.py violates the faithfulness statements (D5), and non-vacuity examples. *)
From Coq Require Import List Bool ZArith.
Import ListNotations.
From BQ Require Import qasm.QExp qasm.QExpThm qasm.QGate.

Definition Zops : ops Z :=
  {| vadd := Z.add; vsub := Z.sub; vmul := Z.mul; vdiv := Z.div; vpow := Z.pow; vneg := Z.opp;
     vpi := 3%Z; vfn := fun _ x => (x + 100)%Z |}.
Definition zsplit (z : Z) : actual Z := (Z.ltb z 0, Z.abs z).

Definition num (z : Z) : prim Z := PNum z.
Definition one (p : prim Z) : exp Z := EOne (MOne p).

(* (1+2)*3 *)
Definition w_paren_mul : exp Z :=
  EOne (MSnoc (MOne (PParen (ESnoc (one (num 1)) OAdd (MOne (num 2))))) OMul (num 3)).
(* -(1+2) *)
Definition w_neg_paren : exp Z := one (PUsub (one (PParen (ESnoc (one (num 1)) OAdd (MOne (num 2)))))).
(* 2*(3+4)^2 *)
Definition w_pow_paren : exp Z :=
  EOne (MSnoc (MOne (num 2)) OMul (PPow (PParen (ESnoc (one (num 3)) OAdd (MOne (num 4)))) (num 2))).
(* sqrt(4), exp(1) *)
Definition w_sqrt : exp Z := one (PFn FSqrt (one (num 4))).
Definition w_exp : exp Z := one (PFn FExp (one (num 1))).
(* -1+2 as Lark parses it: usub(exp(1 + 2)) *)
Definition w_usub_greedy : exp Z := one (PUsub (ESnoc (one (num 1)) OAdd (MOne (num 2)))).
(* 2*-3+4 *)
Definition w_mul_usub : exp Z := EOne (MSnoc (MOne (num 2)) OMul (PUsub (ESnoc (one (num 3)) OAdd (MOne (num 4))))).

(* eval_locals as it is: sin cos tan ln bound, EXP and sqrt not *)
Definition cur_bound (f : fn) : bool := match f with FExp | FSqrt => false | _ => true end.

Lemma refute_paren :
  lark_ok w_paren_mul = true /\ fnsE w_paren_mul = [] /\
  eval_exp Zops false cur_bound w_paren_mul = Some 7%Z /\ denote Zops w_paren_mul = Some 9%Z /\
  eval_exp Zops false cur_bound w_neg_paren = Some 1%Z /\ denote Zops w_neg_paren = Some (-3)%Z.
Proof. vm_compute. repeat split; reflexivity. Qed.

(* the full statement for the code as it is *)
Definition exp_faithful_current_full : Prop :=
  forall (V : Type) (O : ops V) (bound : fn -> bool) (e : exp V),
    lark_ok e = true -> (forall f, In f (fnsE e) -> bound f = true) ->
    eval_exp O false bound e = denote O e.

Theorem exp_faithful_refuted : ~ exp_faithful_current_full.
Proof.
  intros H. specialize (H Z Zops cur_bound w_paren_mul eq_refl).
  assert (E : eval_exp Zops false cur_bound w_paren_mul = denote Zops w_paren_mul).
  { apply H. intros f []. }
  vm_compute in E. discriminate.
Qed.

(* sqrt / exp: the standard value exists, eval_exp raises *)
Lemma refute_fn :
  denote Zops w_sqrt = Some 104%Z /\ eval_exp Zops false cur_bound w_sqrt = None /\
  eval_exp Zops true cur_bound w_sqrt = None /\
  denote Zops w_exp = Some 101%Z /\ eval_exp Zops false cur_bound w_exp = None.
Proof. vm_compute. repeat split; reflexivity. Qed.

(* sanity of the standard reading on the greedy unary minus: -1+2 = 1, 2*-3+4 = -2
   (what Qiskit computes), not -3 / -14 (the naive reading of the tree) *)
Lemma denote_greedy_usub :
  denote Zops w_usub_greedy = Some 1%Z /\ naiveE Zops w_usub_greedy = Some (-3)%Z /\
  denote Zops w_mul_usub = Some (-2)%Z /\ naiveE Zops w_mul_usub = Some (-14)%Z /\
  eval_exp Zops false cur_bound w_usub_greedy = Some 1%Z /\ eval_exp Zops true cur_bound w_mul_usub = Some (-2)%Z.
Proof. vm_compute. repeat split; reflexivity. Qed.

Lemma example_fixed :
  lark_ok w_pow_paren = true /\ eval_exp Zops true cur_bound w_pow_paren = Some 98%Z /\
  denote Zops w_pow_paren = Some 98%Z /\ eval_exp Zops false cur_bound w_pow_paren = Some 22%Z.
Proof. vm_compute. repeat split; reflexivity. Qed.

(* ---- user gates:  gate g(a) x { rx(a^2) x; }   gate k(t) y { g(-t) y; rz(t*2) y; } ---- *)
Definition id_a := 0. Definition id_t := 1.
Definition g_def : sdef Z :=
  SCustom [id_a] 1 [(SBuiltin 7, [0], [one (PPow (PId id_a) (num 2))])].
Definition k_def : sdef Z :=
  SCustom [id_t] 1 [(g_def, [0], [one (PUsub (one (PId id_t)))]);
                    (SBuiltin 0, [0], [EOne (MSnoc (MOne (PId id_t)) OMul (num 2))])].

Lemma example_binding :
  wf (fun _ => true) k_def = true /\
  (exists g, compile Zops true (fun _ => true) k_def = Some g /\
     build Zops true (fun _ => true) zsplit g [0] [3%Z] = spec Zops k_def [0] [3%Z]) /\
  spec Zops k_def [0] [3%Z] =
    Some (ICirc 1 [ICirc 1 [IPrim 7 [0] [9%Z]] [0]; IPrim 0 [0] [6%Z]] [0]).
Proof.
  split; [reflexivity|]. split; [|reflexivity].
  eexists. split; [vm_compute; reflexivity | vm_compute; reflexivity].
Qed.

(* the full statement for the code as it is, and its refutation: g(-2) gives rx(-4)
   (python reads -2**2) where the program says rx((-2)^2) = rx(4) *)
Definition param_binding_current_full : Prop :=
  forall (V : Type) (O : ops V) (bound : fn -> bool) (vsplit : V -> actual V),
    (forall v, aval O (vsplit v) = v) ->
    forall d g, wf bound d = true -> compile O false bound d = Some g ->
    forall loc ps, build O false bound vsplit g loc ps = spec O d loc ps.

Theorem param_binding_refuted : ~ param_binding_current_full.
Proof.
  intros H.
  assert (Hs : forall v : Z, aval Zops (zsplit v) = v).
  { intros v. unfold aval, zsplit. simpl. destruct (Z.ltb_spec v 0).
    - rewrite Z.abs_neq; [apply Z.opp_involutive | apply Z.lt_le_incl; assumption].
    - now apply Z.abs_eq. }
  destruct (compile Zops false (fun _ => true) g_def) as [g|] eqn:E; [|vm_compute in E; discriminate].
  specialize (H Z Zops (fun _ => true) zsplit Hs g_def g eq_refl E [0] [(-2)%Z]).
  vm_compute in E. injection E as <-. vm_compute in H. discriminate.
Qed.
