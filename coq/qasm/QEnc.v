(* C17 - statement-level model of the encoder (qasm2.py encode, Operation.get_qasm,
   Gate.get_qasm) and of the decoder's `gate` visitor for circuits over table gates.
   A program line is the record (name, printed parameters, qubit indices) of the text
       name(p0, p1) q[a0], q[a1];
   lexing/parsing of the characters is Lark's job (exercised by the correspondence
   run, not modelled).  No proofs in this file. *)
From Coq Require Import String List Bool Arith.
Import ListNotations.
From BQ Require Import qasm.QExp qasm.QRegs qasm.QTable qasm.QGate.

Record op (V : Type) := mkOp { o_gate : nat; o_loc : list nat; o_params : list V }.
Arguments mkOp {V}. Arguments o_gate {V}. Arguments o_loc {V}. Arguments o_params {V}.
Record gline (V : Type) := mkLine { s_name : string; s_params : list (actual V); s_args : list nat }.
Arguments mkLine {V}. Arguments s_name {V}. Arguments s_params {V}. Arguments s_args {V}.

(* qasm_name of an interned gate *)
Fixpoint spelling_of (lib : list lib_gate) (gid : nat) : option string :=
  match lib with
  | [] => None
  | g :: t => if Nat.eqb (l_gate g) gid then l_spelling g else spelling_of t gid
  end.

Definition opt_str_eqb (a : option string) (s : string) : bool :=
  match a with Some x => String.eqb x s | None => false end.

(* an operation the library can print and the table reads back (boolean form of
   QEncThm.op_ok): non-empty location, a spelling that is not a named exception, and
   arities that agree with the library gate *)
Definition op_okb {V} (lib : list lib_gate) (o : op V) : bool :=
  match o_loc o with [] => false | _ => true end &&
  match spelling_of lib (o_gate o) with
  | None => false
  | Some s =>
      negb (mem_str s rt_exceptions) &&
      forallb (fun g => if Nat.eqb (l_gate g) (o_gate o) && opt_str_eqb (l_spelling g) s
                        then Nat.eqb (length (o_params o)) (l_np g) && Nat.eqb (length (o_loc o)) (l_nq g)
                        else true) lib
  end.

(* ---- CircuitGate.get_qasm_gate_def: formal parameters of the body lines ----
   gate circuitgate_<id> (p0, ..., p{n-1}) q0, ... {  <one line per body operation>  }
       param_index = 0
       for op in self._circuit:
           params = [f'p{i}' for i in range(param_index, param_index + op.num_params)]
           <print the line: circuitgate_<id'>(params) ...  or  qasm_name(params) ...>
           param_index += op.num_params
   A body operation is (is it a nested CircuitGate?, num_params); both branches advance the
   offset.  The result lists, per body line, the indices i of its formals p_i. *)
Fixpoint body_formals_from (ops : list (bool * nat)) (param_index : nat) : list (list nat) :=
  match ops with
  | [] => []
  | (nested, np) :: t =>
      seq param_index np ::
      body_formals_from t (if nested then param_index + np else param_index + np)
  end.
Definition body_formals (ops : list (bool * nat)) : list (list nat) := body_formals_from ops 0.
(* header: the formals p0 .. p{num_params-1}; CircuitGate.num_params = sum over the body *)
Definition gate_num_params (ops : list (bool * nat)) : nat := fold_right (fun o a => snd o + a) 0 ops.
Definition header_formals (ops : list (bool * nat)) : list nat := seq 0 (gate_num_params ops).

(* decoder side (QGate.build with formals p0..pk): a body line whose formals are the
   indices sl receives the entries sl of the actual parameter vector *)
Definition select {A} (v : list A) (sl : list nat) : list (option A) := map (nth_error v) sl.

Section Enc.
Context {V : Type}.
Variable O : ops V.
Variable fx : bool.
Variable bound : fn -> bool.
Variable vsplit : V -> actual V.        (* str(float) *)

(* '{}({}) q[{}];'.format(qasm_name, ', '.join(str(p)), '], q['.join(str(q))) *)
Definition enc_op (lib : list lib_gate) (o : op V) : option (gline V) :=
  match spelling_of lib (o_gate o) with
  | Some s => Some (mkLine s (map vsplit (o_params o)) (o_loc o))
  | None => None                                   (* AttributeError: no qasm_name *)
  end.

(* the Lark tree of a printed float: 0.5 -> REAL, -0.5 -> usub(REAL) *)
Definition lit_tree (a : actual V) : exp V :=
  if fst a then EOne (MOne (PUsub (EOne (MOne (PNum (snd a))))))
  else EOne (MOne (PNum (snd a))).

(* q[a0], q[a1], ... as Lark builds it *)
Definition mixed_of (q a0 : nat) (rest : list nat) : mixedlist :=
  fold_left (fun l a => MxSnocIdx l q a) rest (MxFirst q a0).

(* visitor.gate for a name of the builtin table *)
Definition dec_line (regs : list reg) (tbl : list dec_entry) (q : nat) (l : gline V) : res (op V) :=
  match mapM (fun a => eval_exp O fx bound (lit_tree a)) (s_params l) with
  | None => ErrCrash
  | Some ps =>
      match s_args l with
      | [] => ErrCrash                              (* not a sentence of the grammar *)
      | a0 :: rest =>
          bind (conv_mixed regs (mixed_of q a0 rest)) (fun loc =>
            match lookup tbl (s_name l) with
            | None => ErrLang                       (* Unrecognized gate *)
            | Some e =>
                if Nat.eqb (length ps) (d_np e) then
                  if Nat.eqb (length loc) (d_nv e) then Ok (mkOp (d_gate e) loc ps) else ErrLang
                else ErrLang
            end)
      end
  end.

(* encode: header `qreg q[n];` + one line per operation;  decode: the same register *)
Definition encode (lib : list lib_gate) (c : list (op V)) : option (list (gline V)) := mapM (enc_op lib) c.
Definition decode (tbl : list dec_entry) (n q : nat) (ls : list (gline V)) : list (res (op V)) :=
  map (dec_line [(q, n)] tbl q) ls.

(* per-qubit timeline *)
Definition touches (x : nat) (o : op V) : bool := existsb (Nat.eqb x) (o_loc o).
Definition proj (x : nat) (c : list (op V)) : list (op V) := filter (touches x) c.
End Enc.
