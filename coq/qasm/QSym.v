(* C17 - symbolic instance of the arithmetic, used by the extracted model so that the
   correspondence run compares STRUCTURES (python's real ast / the generator's
   semantic tree) instead of floats.  Values are terms of the free algebra over the
   literals (numbered by the harness).  No proofs. *)
From Coq Require Import List Bool Arith.
Import ListNotations.
From BQ Require Import qasm.QExp qasm.QRegs qasm.QGate.

Inductive sym :=
  | YNum (k : nat) | YPi
  | YAdd (a b : sym) | YSub (a b : sym) | YMul (a b : sym) | YDiv (a b : sym) | YPow (a b : sym)
  | YNeg (a : sym) | YFn (f : fn) (a : sym).

Definition symops : ops sym :=
  {| vadd := YAdd; vsub := YSub; vmul := YMul; vdiv := YDiv; vpow := YPow; vneg := YNeg;
     vpi := YPi; vfn := YFn |}.

Definition bound_of (l : list fn) : fn -> bool := fun f => existsb (fn_eqb f) l.

(* entry points for the driver *)
Definition m_flat (fx : bool) (e : exp sym) : list (tok sym) := flatE fx e.
Definition m_ok (e : exp sym) : bool := lark_ok e.
Definition m_eval (fx : bool) (bound : list fn) (e : exp sym) : option sym := eval_exp symops fx (bound_of bound) e.
Definition m_denote (e : exp sym) : option sym := denote symops e.
Definition m_naive (e : exp sym) : option sym := naiveE symops e.
Definition m_simple (e : exp sym) : bool := simpleE e.
Definition m_has (fs : list nat) (e : exp sym) : bool := hasE fs e.
Definition m_bind (fs : list nat) (e : exp sym) : exp sym := bindE fs e.
Definition m_subst_flat (fx : bool) (acts : list (bool * sym)) (e : exp sym) : list (tok sym) :=
  flatE fx (substE acts e).
Definition m_denote_env (fs : list nat) (acts : list (bool * sym)) (e : exp sym) : option sym :=
  denote_env symops (env_of symops fs acts) e.
Definition m_bind_eval (fx : bool) (bound : list fn) (fs : list nat) (acts : list (bool * sym)) (e : exp sym) : option sym :=
  eval_exp symops fx (bound_of bound) (substE acts (bindE fs e)).
