(* Line protocol for the C09 model (map/Sabre.v, map/Placement.v, lib/Perm.v).
   Thin: parsing, calling the extracted functions, printing. *)
open Common
open Sabre_model
let rec nat_of_int i = if i <= 0 then O else S (nat_of_int (i-1))
let rec int_of_nat = function O -> 0 | S n -> 1 + int_of_nat n
let nats x = List.map nat_of_int (ints x)
let vnats l = L (List.map (fun n -> I (int_of_nat n)) l)
let vsorted l = L (List.map (fun i -> I i) (List.sort compare (List.map int_of_nat l)))
let adj_of x = List.map nats (list_of x)
let pair_of p = match ints p with [a;b] -> (nat_of_int a, nat_of_int b) | _ -> failwith "pair"
let pairs x = List.map pair_of (list_of x)
let bool_of = function I 0 -> false | I _ -> true | A "T" -> true | A "F" -> false | _ -> failwith "bool"
let vbool b = A (if b then "T" else "F")
let circ_of x = List.map (fun o -> match o with
  | L [f; l] -> { gfree = bool_of f; gloc = nats l }
  | _ -> failwith "op") (list_of x)
let step_of = function
  | L [A "E"; I n] -> Exec (nat_of_int n)
  | L [A "S"; I a; I b] -> Swap (nat_of_int a, nat_of_int b)
  | L [A "B"] -> Backtrack
  | L [A "U"; I a; I b] -> Uphill (nat_of_int a, nat_of_int b)
  | _ -> failwith "step"
let trace_of x = List.map step_of (list_of x)
let voop = function
  | OG (n, l) -> L [A "G"; I (int_of_nat n); vnats l]
  | OS (a, b) -> L [A "S"; I (int_of_nat a); I (int_of_nat b)]
let vout o = L (List.map voop o)
let vopt f = function None -> A "ERR" | Some x -> f x
let vpd d = L [vnats d.placement; vnats d.imap; vnats d.fmap]

(* run a trace step by step, reporting the front set after every step *)
let run_trace cg c fwd modify s0 tr =
  let rec go s tr k fs stricts = match tr with
    | [] -> (A "OK", s, List.rev fs, List.rev stricts)
    | t :: r ->
      let st = strict_ok cg c s t in
      (match do_step cg c fwd modify s t with
       | None -> (L [A "DISABLED"; I k], s, List.rev fs, List.rev (st :: stricts))
       | Some s' -> go s' r (k+1) (vsorted s'.f :: fs) (st :: stricts)) in
  go s0 tr 0 [vsorted s0.f] []

let placer_of = function
  | A "T" -> PTrivial | A "G" -> PGreedy | A "N" -> PNone
  | L [A "S"; le; f] -> PStatic (pairs le, nats f)
  | _ -> failwith "placer"
let ltr_of = function
  | A "N" -> None
  | x -> Some (List.map (fun p -> match p with L [a; b] -> (trace_of a, trace_of b) | _ -> failwith "ltr") (list_of x))

let pd_of mach = function
  | L [pl; im; fm] -> { placement = nats pl; imap = nats im; fmap = nats fm; mach = mach }
  | _ -> failwith "pd"
let oops_of x = List.map (function
  | L [A "G"; I n; l] -> OG (nat_of_int n, nats l)
  | L [A "S"; I a; I b] -> OS (nat_of_int a, nat_of_int b)
  | _ -> failwith "oop") (list_of x)

(* ---- PAM ---- *)
let bools x = List.map bool_of (list_of x)
let triple_of = function
  | L [es; pre; post] -> { pt_graph = pairs es; pt_pre = nats pre; pt_post = nats post }
  | _ -> failwith "triple"
let tbl_of x = List.map (fun l -> List.map triple_of (list_of l)) (list_of x)
let pstep_of = function
  | L [A "P"; I n; pre; post] -> PExec (nat_of_int n, nats pre, nats post)
  | L [A "PB"; I n] -> PBar (nat_of_int n)
  | L [A "S"; I a; I b] -> PSwap (nat_of_int a, nat_of_int b)
  | L [A "B"] -> PBacktrack
  | L [A "U"; I a; I b] -> PUphill (nat_of_int a, nat_of_int b)
  | _ -> failwith "pstep"
let ptrace_of x = List.map pstep_of (list_of x)
let vpairs l = L (List.map (fun (a, b) -> L [I (int_of_nat a); I (int_of_nat b)]) l)
let vpop = function
  | PG (n, l, pre, post, es) ->
    L [A "G"; I (int_of_nat n); vnats l; vnats pre; vnats post;
       L (List.map (fun (a, b) -> L [I a; I b]) (List.sort_uniq compare (List.map (fun (a, b) -> (int_of_nat a, int_of_nat b)) es)))]
  | PB (n, l) -> L [A "B"; I (int_of_nat n); vnats l]
  | PS (a, b) -> L [A "S"; I (int_of_nat a); I (int_of_nat b)]
let vpout o = L (List.map vpop o)
let run_ptrace cg c bars tbl modify s0 tr =
  let rec go s tr k fs stricts = match tr with
    | [] -> (A "OK", s, List.rev fs, List.rev stricts)
    | t :: r ->
      let st = pstrict_ok cg c s t in
      (match do_pstep cg c bars tbl modify s t with
       | None -> (L [A "DISABLED"; I k], s, List.rev fs, List.rev (st :: stricts))
       | Some s' -> go s' r (k+1) (vsorted s'.pF :: fs) (st :: stricts)) in
  go s0 tr 0 [vsorted s0.pF] []
let pltr_of x = List.map (fun p -> match p with L [a; b] -> (ptrace_of a, trace_of b) | _ -> failwith "pltr") (list_of x)

let handle line = match parse line with
  | [A "ppass"; cg; c; bars; tbl; I nq; md; pi0; tr] ->
    let cg = adj_of cg and c = circ_of c and md = bool_of md in
    let s0 = pinit c (nat_of_int nq) (nats pi0) in
    let (status, s, fs, stricts) = run_ptrace cg c (bools bars) (tbl_of tbl) md s0 (ptrace_of tr) in
    L [status; vnats s.ppi; L fs; vpout s.pout; L (List.map vbool stricts)]
  | [A "play"; g; pd; c; bars; tbl; I nq; ltr] ->
    vopt vpd (pam_layout_on (circ_of c) (bools bars) (tbl_of tbl) (nat_of_int nq) (pltr_of ltr) (pd_of (adj_of g) pd))
  | [A "prt"; g; pd; c; bars; tbl; I nq; tr] ->
    vopt (fun (o, d) -> L [vpout o; vpd d])
      (pam_routing_on (circ_of c) (bools bars) (tbl_of tbl) (nat_of_int nq) (ptrace_of tr) (pd_of (adj_of g) pd))
  (* ppipe machine circ bars table nq placer layout-traces routing-trace : PamPipe.pam_pipeline *)
  | [A "ppipe"; g; c; bars; tbl; I nq; pl; ltr; rtr] ->
    let ltr = (match ltr with A "N" -> None | x -> Some (pltr_of x)) in
    vopt (fun (o, d) -> L [vpout o; vpd d])
      (pam_pipeline (adj_of g) (circ_of c) (bools bars) (tbl_of tbl) (nat_of_int nq) (placer_of pl) ltr (ptrace_of rtr))
  (* pass cg circ nq fwd modify pi0 trace *)
  | [A "pass"; cg; c; I nq; fwd; md; pi0; tr] ->
    let cg = adj_of cg and c = circ_of c and fwd = bool_of fwd and md = bool_of md in
    let s0 = init c (nat_of_int nq) fwd (nats pi0) in
    let (status, s, fs, stricts) = run_trace cg c fwd md s0 (trace_of tr) in
    L [status; vnats s.pi; L fs; vout s.out; L (List.map vbool stricts); L (List.map (fun (a,b) -> L [I (int_of_nat a); I (int_of_nat b)]) s.lead)]
  (* strict cg circ nq fwd modify pi0 trace : does SabreStrict.replay_strict accept the whole trace? *)
  | [A "strict"; cg; c; I nq; fwd; md; pi0; tr] ->
    let cg = adj_of cg and c = circ_of c and fwd = bool_of fwd and md = bool_of md in
    let s0 = init c (nat_of_int nq) fwd (nats pi0) in
    vbool (match replay_strict cg c fwd md s0 (trace_of tr) with Some _ -> true | None -> false)
  | [A "dag"; c; I nq] ->
    let c = circ_of c in
    let n = List.length c in
    let idx = List.init n (fun i -> nat_of_int i) in
    L [vsorted (front c (nat_of_int nq)); vsorted (rear c (nat_of_int nq));
       L (List.map (fun i -> vsorted (nexts c i)) idx); L (List.map (fun i -> vsorted (prevs c i)) idx)]
  | [A "swap"; I a; I b; p] -> vopt vnats (apply_swap (nat_of_int a, nat_of_int b) (nats p))
  | [A "perm"; pm; p] -> vopt vnats (apply_perm (nats pm) (nats p))
  | [A "canexe"; cg; p; f; l] -> vopt vbool (can_exe (adj_of cg) (nats p) { gfree = bool_of f; gloc = nats l })
  (* pipe machine circ nq placer layout-traces routing-trace : every stage reported *)
  | [A "pipe"; g; c; I nq; pl; ltr; rtr] ->
    let g = adj_of g and c = circ_of c and nq = nat_of_int nq in
    let pl = placer_of pl and ltr = ltr_of ltr and rtr = trace_of rtr in
    let stages = ref [] in
    let push name v = stages := L [A name; v] :: !stages in
    (match set_model g nq (pd_init nq) with
     | None -> push "setmodel" (A "ERR")
     | Some d0 ->
       push "setmodel" (vpd d0);
       (match pl with PStatic (_, f) -> push "static_search_ok" (vbool (static_search_ok g f)) | _ -> ());
       (match run_placer pl nq d0 with
        | None -> push "placement" (A "ERR")
        | Some d1 ->
          push "placement" (vpd d1);
          let d2 = (match ltr with None -> Some d1 | Some trs -> layout_on c nq trs d1) in
          (match d2 with
           | None -> push "layout" (A "ERR")
           | Some d2 ->
             push "layout" (vpd d2);
             push "connectivity" (vopt (fun a -> L (List.map vsorted a)) (connectivity d2));
             (match routing_on c nq rtr d2 with
              | None -> push "routing" (A "ERR")
              | Some (o, d3) ->
                push "routing" (L [vout o; vpd d3]);
                (match apply_placement o d3 with
                 | None -> push "apply" (A "ERR")
                 | Some (o', d4) -> push "apply" (L [vout o'; vpd d4]))))));
    let whole = (match pipeline g c nq pl ltr rtr with
      | None -> A "ERR" | Some (o, d) -> L [vout o; vpd d]) in
    L [L (List.rev !stages); whole]
  | [A "sm"; g; I nq; pd] -> vopt vpd (set_model (adj_of g) (nat_of_int nq) (pd_of [] pd))
  | [A "plc"; g; pd; I nq; pl] -> vopt vpd (run_placer (placer_of pl) (nat_of_int nq) (pd_of (adj_of g) pd))
  | [A "lay"; g; pd; c; I nq; ltr] ->
    (match ltr_of ltr with
     | Some trs -> vopt vpd (layout_on (circ_of c) (nat_of_int nq) trs (pd_of (adj_of g) pd))
     | None -> A "BADCMD")
  | [A "rt"; g; pd; c; I nq; rtr] ->
    vopt (fun (o, d) -> L [vout o; vpd d]) (routing_on (circ_of c) (nat_of_int nq) (trace_of rtr) (pd_of (adj_of g) pd))
  | [A "ap"; g; pd; o] ->
    vopt (fun (o, d) -> L [vout o; vpd d]) (apply_placement (oops_of o) (pd_of (adj_of g) pd))
  | _ -> A "BADCMD"

let () =
  try while true do
    let line = input_line stdin in
    print_endline (try show (handle line) with e -> "EXN " ^ Printexc.to_string e)
  done with End_of_file -> ()
