From Coq Require Import List Arith.
From BQ Require Import rt.Crash.
From Coq Require Extraction ExtrOcamlBasic.
Extraction "crash_model.ml" init step run quiescent all_down variant wf_topo recv_enabled kindof par.
