(* Line protocol for the C04 extensions (coq/circuit/CExt.v):
     set <circuit dump>      -> U | <dump>
     unfold_all              -> U | <dump>          (fuel = nesting depth + 1; "E Fuel" can not happen: C04_unfold_all_terminates)
     unfold_all_fuel <n>     -> U | <dump>  or  E Fuel | <dump>
     depth                   -> <nesting depth>
     wf                      -> 1 / 0
     full_expand             -> [<op> ...]            (the specification list of C04_unfold_all)
     tail_ok <region>        -> 1 / 0                 (premise of the C04_fold_tail_* theorems)
     tail <region>           -> N <cycle> | <dump>  or  E <Error> | <dump>     (CExt.fold_tail)
   <region> = [[q [lo hi]] ...]. *)
open Common
open C04x_model
let rec nat_of_int i = if i <= 0 then O else S (nat_of_int (i-1))
let rec int_of_nat = function O -> 0 | S n -> 1 + int_of_nat n
let rec pos_of_int i = if i <= 1 then XH else if i land 1 = 0 then XO (pos_of_int (i lsr 1)) else XI (pos_of_int (i lsr 1))
let rec int_of_pos = function XH -> 1 | XO p -> 2 * int_of_pos p | XI p -> 2 * int_of_pos p + 1
let z_of_int i = if i = 0 then Z0 else if i > 0 then Zpos (pos_of_int i) else Zneg (pos_of_int (-i))
let int_of_z = function Z0 -> 0 | Zpos p -> int_of_pos p | Zneg p -> - (int_of_pos p)
let nats x = List.map nat_of_int (ints x)
let zs x = List.map z_of_int (ints x)
let vnats l = L (List.map (fun n -> I (int_of_nat n)) l)
let vzs l = L (List.map (fun n -> I (int_of_z n)) l)

let rec op_of (x : v) : op = match x with
  | L [I b; I g; loc; ps; rad; sub] -> Op ((b <> 0), nat_of_int g, nats loc, zs ps, nats rad, cycles_of sub)
  | _ -> failwith "op"
and cycles_of (x : v) : op list list = List.map (fun cy -> List.map op_of (list_of cy)) (list_of x)

let rec vop (o : op) : v = match o with
  | Op (b, g, loc, ps, rad, sub) -> L [I (if b then 1 else 0); I (int_of_nat g); vnats loc; vzs ps; vnats rad; vcycles sub]
and vcycles cs = L (List.map (fun cy -> L (List.map vop (fwd_cycle cy))) cs)

let circ_of = function
  | L [I n; rads; cs] -> { nq = nat_of_int n; rads = nats rads; cycles = cycles_of cs }
  | _ -> failwith "circuit"
let vcirc c = L [I (int_of_nat c.nq); vnats c.rads; vcycles c.cycles]
let verr = function IndexError -> "IndexError" | ValueError -> "ValueError" | TypeError -> "TypeError" | InternalError -> "InternalError"
let vout = function
  | OkU -> "U" | OkN n -> "N " ^ string_of_int (int_of_z n) | OkO o -> "O " ^ show (vop o)
  | OkC c -> "C " ^ show (vcirc c) | Err e -> "E " ^ verr e
let region_of (x : v) = List.map (fun e -> match e with
  | L [I q; L [I lo; I hi]] -> (nat_of_int q, (nat_of_int lo, nat_of_int hi))
  | _ -> failwith "region") (list_of x)
let rec has_neg (x : v) = match x with I i -> i < 0 | A _ -> false | L l -> List.exists has_neg l

let cur = ref { nq = O; rads = []; cycles = [] }
let fin (c, o) = cur := c; vout o ^ " | " ^ show (vcirc c)

let handle line = match parse line with
  | [A "set"; c] -> cur := circ_of c; "U | " ^ show (vcirc !cur)
  | [A "unfold_all"] -> (match unfold_all !cur with
                         | Some c -> fin (c, OkU) | None -> "E Fuel | " ^ show (vcirc !cur))
  | [A "unfold_all_fuel"; I n] -> (match unfold_all_fuel (nat_of_int n) !cur with
                         | Some c -> fin (c, OkU) | None -> "E Fuel | " ^ show (vcirc !cur))
  | [A "depth"] -> string_of_int (int_of_nat (circ_depth !cur))
  | [A "wf"] -> if wf_circ !cur then "1" else "0"
  | [A "full_expand"] -> show (L (List.map vop (full_expand !cur)))
  | [A "tail_ok"; r] -> if has_neg r then "0" else if tail_ok !cur (region_of r) then "1" else "0"
  | [A "tail"; r] -> if has_neg r then fin (!cur, Err ValueError) else fin (fold_tail !cur (region_of r))
  | _ -> "BADCMD"

let () =
  try while true do
    let line = input_line stdin in
    print_endline (try handle line with e -> "EXN " ^ Printexc.to_string e)
  done with End_of_file -> ()
