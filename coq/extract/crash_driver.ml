(* line protocol for the extracted crash model (rt/Crash.v):
   run <topo> <attached T|F> <budget> <events>  ->  [ <obs after init> <obs after ev1> ... ]  (X = event not enabled, stops)
   topo  = [[S 0] [M 0] [W 1] [C 0] ...]            (kind, parent)
   event = [crash n] | [recv U|D c k] | [call c S|R|T u k] | [finish w t] | [emit U|D c tag] | [fail w]
   obs   = [[alive cend pend [upq] [downq] blocked [outcomes]] ... per node] quiescent all_down variant budget *)
open Common
open Crash_model
let rec nat_of_int i = if i <= 0 then O else S (nat_of_int (i-1))
let rec int_of_nat = function O -> 0 | S n -> 1 + int_of_nat n
let n2s n = string_of_int (int_of_nat n)
let kind_of = function A "S" -> KServer | A "M" -> KManager | A "W" -> KWorker | A "C" -> KClient | _ -> failwith "kind"
let topo_of x = List.map (fun p -> match list_of p with [k; I q] -> (kind_of k, nat_of_int q) | _ -> failwith "topo") (list_of x)
let vb b = A (if b then "T" else "F")
let vmsg = function
  | MShutdown -> A "SHUTDOWN" | MOrd t -> A ("ORD" ^ n2s t) | MResult (t, v) -> A ("RES" ^ n2s t ^ "_" ^ n2s v)
  | MSysErr -> A "SYSERR" | CSubmit u -> A ("CSUB" ^ n2s u) | CRequest u -> A ("CREQ" ^ n2s u) | CStatus u -> A ("CSTAT" ^ n2s u)
  | SResult (u, v) -> A ("SRES" ^ n2s u ^ "_" ^ n2s v) | SStatus (u, d) -> A ("SSTAT" ^ n2s u ^ "_" ^ (if d then "T" else "F"))
  | SError -> A "SERR"
let vreq = function None -> A "-" | Some (RSubmit u) -> A ("S" ^ n2s u) | Some (RResult u) -> A ("R" ^ n2s u) | Some (RStatus u) -> A ("T" ^ n2s u)
let vout = function OSubmitted u -> A ("SUB" ^ n2s u) | OResult (u, v) -> A ("RES" ^ n2s u ^ "_" ^ n2s v)
  | OStatus (u, d) -> A ("STAT" ^ n2s u ^ "_" ^ (if d then "T" else "F")) | ORaised -> A "RAISED"
let up_of = function A "U" -> true | A "D" -> false | _ -> failwith "dir"
let ev_of x = match list_of x with
  | [A "crash"; I n] -> ECrash (nat_of_int n)
  | [A "recv"; d; I c; I k] -> ERecv (up_of d, nat_of_int c, nat_of_int k)
  | [A "call"; I c; A "S"; I u; I k] -> ECall (nat_of_int c, RSubmit (nat_of_int u), nat_of_int k)
  | [A "call"; I c; A "R"; I u; I k] -> ECall (nat_of_int c, RResult (nat_of_int u), nat_of_int k)
  | [A "call"; I c; A "T"; I u; I k] -> ECall (nat_of_int c, RStatus (nat_of_int u), nat_of_int k)
  | [A "finish"; I w; I t] -> EFinish (nat_of_int w, nat_of_int t)
  | [A "emit"; d; I c; I t] -> EEmit (up_of d, nat_of_int c, nat_of_int t)
  | [A "fail"; I w] -> EFail (nat_of_int w)
  | _ -> failwith "event"
let out t = S t
let obs t att s =
  let n = List.length t in
  let node i = let i' = nat_of_int i in
    L [vb (s.alive i'); vb (s.cend i'); vb (s.pend i'); L (List.map vmsg (s.upq i')); L (List.map vmsg (s.downq i'));
       vreq (s.blocked i'); L (List.map vout (s.outcomes i'))] in
  L [L (List.init n node); vb (quiescent t att s); vb (all_down t s); I (int_of_nat (variant t s)); I (int_of_nat s.budget)]

let handle line = match parse line with
  | [A "run"; tp; att; I b; evs] ->
    let t = topo_of tp and a = (att = A "T") in
    if not (wf_topo t) then A "BADTOPO" else begin
      let s = ref (init t (nat_of_int b)) and acc = ref [obs t a (init t (nat_of_int b))] and stop = ref false in
      List.iter (fun e -> if not !stop then
        match step t a out !s (ev_of e) with
        | Some s' -> s := s'; acc := obs t a s' :: !acc
        | None -> acc := A "X" :: !acc; stop := true) (list_of evs);
      L (List.rev !acc) end
  | [A "enabled"; tp; att; I b; evs] ->
    (* after the events: which receive events are enabled, as [[U c] [D c] ...] *)
    let t = topo_of tp and a = (att = A "T") in
    (match run t a out (init t (nat_of_int b)) (List.map ev_of (list_of evs)) with
     | None -> A "X"
     | Some s ->
       let n = List.length t in
       L (List.concat (List.init n (fun i -> let c = nat_of_int i in
         (match step t a out s (ERecv (true, c, S O)) with Some _ -> [L [A "U"; I i]] | None -> []) @
         (match step t a out s (ERecv (false, c, S O)) with Some _ -> [L [A "D"; I i]] | None -> [])))))
  | _ -> A "BADCMD"

let () =
  try while true do
    let line = input_line stdin in
    print_endline (try show (handle line) with e -> "EXN " ^ Printexc.to_string e)
  done with End_of_file -> ()
