From Coq Require Import List Arith.
From BQ Require Import wf.IsCompat.
From Coq Require Extraction ExtrOcamlBasic.
Extraction "wfcompat_model.ml" is_compatible is_compatible_ph is_respecting lt_respecting spec monotone_on.
