From Coq Require Import List NArith ZArith.
From BQ Require Import lib.Tensor.
From BQ Require Import circuit.Sim.
From BQ Require Import circuit.SimExec.
From Coq Require Extraction ExtrOcamlBasic.
Extraction "tensor_model.ml" rows_nd flat_nd nd_to_list affine_op block_op g_get_unitary g_get_statevector
  g_get_unitary_and_grad g_apply_right g_apply_left g_eval_apply_right g_sv_apply g_embed g_matmul g_params
  g_num_params g_get_param_location g_get_param g_set_param g_set_params g_freeze_param g_mk_circuit
  check_apply argsort mzg ub_get_unitary ub_init.
