(* Line protocol for the extracted scheduler model (coq/rt/Sched.v, gen/SchedArith.v).
   One command per line, one answer per line.

   init LB N                          fresh flat system, answers the state
   save | restore | drop              stack of states (depth-first exploration)
   csub [TASK..] [SH..] [RS..]        EClientSubmit      TASK = [tid ret [anc..]]
   ccancel A | srecv W [SH] [RS] | wrecv W WAKE | wfin W T | wsub W TASK | wmap W [TASK..]
   wcancel W A | wdrop W T | widle W
     -> "OK <state> <sends>" | "DISABLED" | "FAULT <exn>"   (state unchanged unless OK)
   idle [[total ntasks nidle]..]      idle_ids
   assign [[total ntasks nidle]..] [tid..] [SH] [RS]   assign_tasks on integer tasks
   gnts [[a c]..] R                   get_num_of_tasks_sent_since (R = N for None)
   hw [[a c]..] EI SI TOT N R         handle_waiting
   mine LB STEP LEN W | resp LB STEP LEN W | range LB UB D I
   suos NI [tid..]                    Manager.send_up_or_schedule_tasks (upstream = -7)
   uup NI LAST R                      Manager.update_upstream_idle_workers
   manager topology (rt/SchedTree.v):
   tinit [NW..]                       server + one manager per entry with NW workers, answers the state
   ttop csub .. | ttop ccancel A | ttop srecv I [SH] [RS]     TTop (flat event at the server)
   twk I wrecv J WAKE | twk I wfin J T | ... | twk I widle J  TWorker I (flat worker event under manager I)
   tma I [SH] [RS] | tmb I J [SH] [RS]                        TMgrAbove / TMgrBelow
     -> "OK <tstate> <server sends> <manager sends>" | "DISABLED" | "FAULT <exn>" *)
open Common
open Sched_model

let rec nat_of_int i = if i <= 0 then O else S (nat_of_int (i - 1))
let rec int_of_nat = function O -> 0 | S n -> 1 + int_of_nat n
let rec pos_of_int n = if n = 1 then XH else if n land 1 = 0 then XO (pos_of_int (n lsr 1)) else XI (pos_of_int (n lsr 1))
let z_of_int n = if n = 0 then Z0 else if n > 0 then Zpos (pos_of_int n) else Zneg (pos_of_int (- n))
let rec int_of_pos = function XH -> 1 | XO p -> 2 * int_of_pos p | XI p -> 2 * int_of_pos p + 1
let int_of_z = function Z0 -> 0 | Zpos p -> int_of_pos p | Zneg p -> - (int_of_pos p)

let zs x = List.map z_of_int (ints x)
let nats x = List.map nat_of_int (ints x)
let vz z = I (int_of_z z)
let vzs l = L (List.map vz l)
let vnat n = I (int_of_nat n)
let vopt = function None -> A "N" | Some z -> vz z
let zopt = function A "N" -> None | I i -> Some (z_of_int i) | _ -> failwith "receipt"
let vbool b = I (if b then 1 else 0)

let task_of = function
  | L [I t; I r; anc] -> { tid = z_of_int t; tret = z_of_int r; tanc = zs anc }
  | _ -> failwith "task"
let tasks_of x = List.map task_of (list_of x)
let vtids ts = L (List.map (fun t -> vz t.tid) ts)
let vcache c = L (List.map (fun (a, n) -> L [vz a; vz n]) c)
let emp_of = function
  | L [I tot; I nt; I ni] -> { e_total = z_of_int tot; e_num_tasks = z_of_int nt; e_num_idle = z_of_int ni; e_cache = [] }
  | _ -> failwith "employee"
let cache_of x = List.map (fun p -> match ints p with [a; c] -> (z_of_int a, z_of_int c) | _ -> failwith "cache") (list_of x)

let vexn = function RuntimeError -> "RuntimeError" | AssertionError -> "AssertionError" | IndexError -> "IndexError"

let vdmsg = function
  | DBatch ts -> L [A "B"; vtids ts]
  | DResult d -> L [A "R"; vz d]
  | DCancel a -> L [A "C"; vz a]
let vumsg = function
  | USubmit t -> L [A "S"; vz t.tid]
  | UBatch ts -> L [A "SB"; vtids ts]
  | UWaiting (n, r) -> L [A "W"; vz n; vopt r]
  | UResult (d, b) -> L [A "RES"; vz d; vz b]
  | UUpdate d -> L [A "U"; vz d]
  | UCancel a -> L [A "C"; vz a]

let vstate (st : sys) =
  let s = st.srv in
  L [ vz s.s_num_idle; vz s.s_total;
      L (List.map (fun e -> L [vz e.e_total; vz e.e_num_tasks; vz e.e_num_idle; vcache e.e_cache]) s.s_emps);
      L (List.map (fun d -> L (List.map vdmsg d)) st.downs);
      L (List.map (fun u -> L (List.map vumsg u)) st.ups);
      L (List.map (fun k -> L [vopt k.w_mrrs; vtids k.w_held; vbool k.w_blocked; vzs k.w_cancelled]) st.wks);
      vbool (quiescent st) ]

let rec drop n l = if n <= 0 then l else match l with [] -> [] | _ :: t -> drop (n - 1) t

let cur = ref (init Z0 O)
let stack : sys list ref = ref []

let ev st e =
  match step st e with
  | Done st' ->
    let sends = drop (List.length st.sent_log) st'.sent_log in
    cur := st';
    "OK " ^ show (vstate st') ^ " " ^ show (L (List.map (fun (i, ts) -> L [vnat i; vtids ts]) sends))
  | Disabled -> "DISABLED"
  | Fault e -> "FAULT " ^ vexn e

let vaction = function
  | APut (d, m, p) ->
    let k = (match m with M_SUBMIT -> "SUBMIT" | M_SUBMIT_BATCH -> "SUBMIT_BATCH" | M_RESULT -> "RESULT"
                        | M_WAITING -> "WAITING" | M_UPDATE -> "UPDATE" | M_CANCEL -> "CANCEL") in
    let pv = (match p with PInt z -> vz z | PTasks l -> vzs l | PWait (n, r) -> L [vz n; vopt r] | PRes -> A "res") in
    L [A "put"; vz d; A k; pv]
  | ASchedule l -> L [A "schedule"; vzs l]
  | AUpdateUpstream -> L [A "update_upstream"]
  | ASendResultDown -> L [A "send_result_down"]

let vres f = function Ok a -> f a | Raise e -> A (vexn e)

let event_of = function
  | [A "csub"; ts; sh; rs] -> Some (EClientSubmit (tasks_of ts, nats sh, zs rs))
  | [A "ccancel"; I a] -> Some (EClientCancel (z_of_int a))
  | [A "srecv"; I w; sh; rs] -> Some (EServerRecv (nat_of_int w, nats sh, zs rs))
  | [A "wrecv"; I w; I wake] -> Some (EWorkerRecv (nat_of_int w, wake <> 0))
  | [A "wfin"; I w; I t] -> Some (EWorkerFinish (nat_of_int w, z_of_int t))
  | [A "wsub"; I w; t] -> Some (EWorkerSubmit (nat_of_int w, task_of t))
  | [A "wmap"; I w; ts] -> Some (EWorkerMap (nat_of_int w, tasks_of ts))
  | [A "wcancel"; I w; I a] -> Some (EWorkerCancel (nat_of_int w, z_of_int a))
  | [A "wdrop"; I w; I t] -> Some (EWorkerDrop (nat_of_int w, z_of_int t))
  | [A "widle"; I w] -> Some (EWorkerIdle (nat_of_int w))
  | _ -> None

let vemp e = L [vz e.e_total; vz e.e_num_tasks; vz e.e_num_idle; vcache e.e_cache]
let vnode s = L [vz s.s_lb; vz s.s_step; vz s.s_num_idle; vz s.s_total; L (List.map vemp s.s_emps)]
let vdowns ds = L (List.map (fun d -> L (List.map vdmsg d)) ds)
let vups us = L (List.map (fun u -> L (List.map vumsg u)) us)
let vwk k = L [vopt k.w_mrrs; vtids k.w_held; vbool k.w_blocked; vzs k.w_cancelled]

let vtstate (st : tsys) =
  L [ vnode st.t_srv; vdowns st.t_sm; vups st.t_ms;
      L (List.map (fun m -> L [vnode m.m_node; vz m.m_last; vopt m.m_mrrs; vdowns m.m_downs; vups m.m_ups;
                               L (List.map vwk m.m_wks)]) st.t_mgrs);
      vbool (tquiescent st) ]

let tcur = ref (tinit [])

let tev e =
  let st = !tcur in
  match tstep st e with
  | Done st' ->
    let ss = drop (List.length st.t_slog) st'.t_slog in
    let ws = drop (List.length st.t_wlog) st'.t_wlog in
    tcur := st';
    "OK " ^ show (vtstate st') ^ " " ^ show (L (List.map (fun (i, ts) -> L [vnat i; vtids ts]) ss))
    ^ " " ^ show (L (List.map (fun (i, (j, ts)) -> L [vnat i; vnat j; vtids ts]) ws))
  | Disabled -> "DISABLED"
  | Fault e -> "FAULT " ^ vexn e

let handle line =
  match parse line with
  | [A "tinit"; nws] -> tcur := tinit (nats nws); "OK " ^ show (vtstate !tcur) ^ " [] []"
  | A "ttop" :: rest -> (match event_of rest with Some e -> tev (TTop e) | None -> "BADCMD")
  | A "twk" :: I i :: rest -> (match event_of rest with Some e -> tev (TWorker (nat_of_int i, e)) | None -> "BADCMD")
  | [A "tma"; I i; sh; rs] -> tev (TMgrAbove (nat_of_int i, nats sh, zs rs))
  | [A "tmb"; I i; I j; sh; rs] -> tev (TMgrBelow (nat_of_int i, nat_of_int j, nats sh, zs rs))
  | [A "init"; I lb; I n] -> cur := init (z_of_int lb) (nat_of_int n); stack := []; "OK " ^ show (vstate !cur) ^ " []"
  | [A "save"] -> stack := !cur :: !stack; "SAVED"
  | [A "restore"] -> (match !stack with s :: _ -> cur := s; "RESTORED" | [] -> "EMPTY")
  | [A "drop"] -> (match !stack with _ :: r -> stack := r; "DROPPED" | [] -> "EMPTY")
  | [A "csub"; ts; sh; rs] -> ev !cur (EClientSubmit (tasks_of ts, nats sh, zs rs))
  | [A "ccancel"; I a] -> ev !cur (EClientCancel (z_of_int a))
  | [A "srecv"; I w; sh; rs] -> ev !cur (EServerRecv (nat_of_int w, nats sh, zs rs))
  | [A "wrecv"; I w; I wake] -> ev !cur (EWorkerRecv (nat_of_int w, wake <> 0))
  | [A "wfin"; I w; I t] -> ev !cur (EWorkerFinish (nat_of_int w, z_of_int t))
  | [A "wsub"; I w; t] -> ev !cur (EWorkerSubmit (nat_of_int w, task_of t))
  | [A "wmap"; I w; ts] -> ev !cur (EWorkerMap (nat_of_int w, tasks_of ts))
  | [A "wcancel"; I w; I a] -> ev !cur (EWorkerCancel (nat_of_int w, z_of_int a))
  | [A "wdrop"; I w; I t] -> ev !cur (EWorkerDrop (nat_of_int w, z_of_int t))
  | [A "widle"; I w] -> ev !cur (EWorkerIdle (nat_of_int w))
  | [A "idle"; es] -> show (L (List.map vnat (idle_ids (List.map emp_of (list_of es)))))
  | [A "assign"; es; ts; sh; rs] ->
    (match assign_tasks (List.map emp_of (list_of es)) (zs ts) (nats sh) (zs rs) with
     | None -> "IndexError"
     | Some a -> show (L (List.map vzs a)))
  | [A "gnts"; c; r] ->
    show (vres (fun (c', n) -> L [vcache c'; vz n]) (get_num_of_tasks_sent_since (cache_of c) (zopt r)))
  | [A "hw"; c; I ei; I si; I tot; I n; r] ->
    show (vres (fun ((c', ei'), si') -> L [vcache c'; vz ei'; vz si'])
            (handle_waiting (cache_of c) (z_of_int ei) (z_of_int si) (z_of_int tot) (z_of_int n) (zopt r)))
  | [A "mine"; I lb; I st; I len; I w] ->
    if st = 0 then "ZeroDivisionError" else show (vbool (is_my_worker (z_of_int lb) (z_of_int st) (z_of_int len) (z_of_int w)))
  | [A "resp"; I lb; I st; I len; I w] ->
    if st = 0 then "ZeroDivisionError" else
    show (vres vnat (get_employee_responsible_for (z_of_int lb) (z_of_int st) (List.init len nat_of_int) (z_of_int w)))
  | [A "range"; I lb; I ub; I d; I i] ->
    if d = 0 then "ZeroDivisionError" else
    let st = ctm_step_size (z_of_int lb) (z_of_int ub) (z_of_int d) in
    show (L [vz st; vz (ctm_lb (z_of_int lb) st (z_of_int i)); vz (ctm_ub (z_of_int lb) (z_of_int ub) st (z_of_int i))])
  | [A "suos"; I ni; ts] ->
    show (vres (fun acts -> L (List.map vaction acts)) (send_up_or_schedule_tasks (z_of_int ni) (z_of_int (-7)) (zs ts) []))
  | [A "uup"; I ni; I last; r] ->
    show (vres (fun (l, acts) -> L [vz l; L (List.map vaction acts)])
            (update_upstream_idle_workers (z_of_int ni) (z_of_int last) (zopt r) (z_of_int (-7)) []))
  | _ -> "BADCMD"

let () =
  try while true do
    let line = input_line stdin in
    print_endline (try handle line with e -> "EXN " ^ Printexc.to_string e)
  done with End_of_file -> ()
