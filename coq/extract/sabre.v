From Coq Require Import List Arith.
From BQ Require Import map.Graph lib.Perm map.Sabre map.Placement map.Pam map.PamPipe map.SabreStrict.
From Coq Require Extraction ExtrOcamlBasic.
Extraction "sabre_model.ml" init do_step strict_ok replay routing_pass layout_pass
  apply_swap apply_perm compose_opt inverse
  pd_init set_model run_placer layout_on routing_on apply_placement pipeline connectivity
  static_search_ok can_exe front rear nexts prevs
  pinit do_pstep pstrict_ok preplay pam_layout_on pam_routing_on pam_apply_placement pam_pipeline replay_strict.
