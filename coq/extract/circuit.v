From Coq Require Import List ZArith.
From BQ Require Import circuit.CModel.
From BQ Require Import circuit.CPickle.
From BQ Require Import circuit.CViews.
From BQ Require Import circuit.CFold.
From Coq Require Extraction ExtrOcamlBasic.
Extraction "circuit_model.ml" append extend append_circuit insert insert_circuit pop batch_pop replace
  batch_replace replace_with_circuit unfold unfold_all_fuel compress append_qudit insert_qudit pop_qudit
  renumber_qudits clear c_add c_iadd c_mul c_imul iter_ops riter_ops fwd_cycle params_of reduce
  points first_on last_on front rear dag_entry nexts prevs num_operations gate_counts graph_info
  active_qudits depth dag_iter
  fold straighten check_region fold_x straighten_x.
