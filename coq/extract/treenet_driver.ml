(* Line protocol for the extracted tree-routing model (coq/rt/TreeNet.v).
   One command per line, one answer per line.  LB = 0, UB = 2^30 always.

   init <tree>                     <tree> ::= [L n] | [N <tree> ...]; state := net0; answers OK
   injres [p] rid dst              TInjRes   dst = N (client) | [path of the destination worker]
   injbatch [p] single [ts]        TInjBatch single = 0/1
   root [ts] [[a0] [a1] ...]       TRoot
   deliver [p] U|D ni [[a0] ...]   TDeliver
   wrecv [p]                       TWorkerRecv
     -> NONE (tstep = None, state unchanged) | OK <dump>
   dump                            -> <dump>
   workerat [p]                    -> N | id
   nodeat [p]                      -> N | lb ub step nemp        (node_at + node_step; extra)
   height                          -> height of the tree
   brief 0|1                       (extra) 1: event answers are OK <brief> instead of OK <dump>

   <dump>  = chan [ [[p] U R rid dest by] [[p] D B single [ts]] ... ] inbox [ [[p] R rid dest by] ... ]
             client [rid ...] err [ [[p] RuntimeError|AssertionError|IndexError|ZeroDiv] ... ] measure <int>
             (chan in list order = oldest first)
   <brief> = chan [ [[p] U [[R rid dest by] [B single [ts]] ...]] ... ]   grouped per channel, channels
             sorted by (path, U before D), FIFO order inside a channel
             inbox [new entries] client [new] err [new] measure <int>     only what this event appended *)
open Common
open Treenet_model

let rec nat_of_int i = if i <= 0 then O else S (nat_of_int (i - 1))
let int_of_nat n = let rec go a = function O -> a | S m -> go (a + 1) m in go 0 n
let rec pos_of_int n = if n = 1 then XH else if n land 1 = 0 then XO (pos_of_int (n lsr 1)) else XI (pos_of_int (n lsr 1))
let z_of_int n = if n = 0 then Z0 else if n > 0 then Zpos (pos_of_int n) else Zneg (pos_of_int (- n))
let rec int_of_pos = function XH -> 1 | XO p -> 2 * int_of_pos p | XI p -> 2 * int_of_pos p + 1
let int_of_z = function Z0 -> 0 | Zpos p -> int_of_pos p | Zneg p -> - (int_of_pos p)

let lb = z_of_int 0
let ub = z_of_int (1 lsl 30)

let nats x = List.map nat_of_int (ints x)
let ipath p = List.map int_of_nat p
let vpath p = vints (ipath p)
let vnats l = L (List.map (fun n -> I (int_of_nat n)) l)

let rec tree_of = function
  | L [A "L"; I n] -> Leaf (nat_of_int n)
  | L (A "N" :: cs) -> Node (List.map tree_of cs)
  | _ -> failwith "tree"

let vexn = function RuntimeError -> "RuntimeError" | AssertionError -> "AssertionError" | IndexError -> "IndexError"
let verr = function TExn e -> vexn e | TZeroDiv -> "ZeroDiv"

(* message without its channel *)
let vmsg = function
  | TRes (rid, dest, by) -> [A "R"; I (int_of_nat rid); I (int_of_z dest); I (int_of_z by)]
  | TBatch (single, ts) -> [A "B"; I (if single then 1 else 0); vnats ts]
let vdir = function Up -> A "U" | Down -> A "D"
let vpmsg ((p, d), m) = L (vpath p :: vdir d :: vmsg m)
let vinbox (p, m) = L (vpath p :: vmsg m)
let verrent (p, e) = L [vpath p; A (verr e)]

let tree = ref (Leaf O)
let cur = ref net0
let brief = ref false

let dump (s : net) =
  "chan " ^ show (L (List.map vpmsg s.n_chan))
  ^ " inbox " ^ show (L (List.map vinbox s.n_inbox))
  ^ " client " ^ show (vnats s.n_client)
  ^ " err " ^ show (L (List.map verrent s.n_err))
  ^ " measure " ^ string_of_int (int_of_nat (measure !tree s))

let rec drop n l = if n <= 0 then l else match l with [] -> [] | _ :: t -> drop (n - 1) t

let grouped (ch : pmsg list) =
  let tbl : ((int list * int), v list ref) Hashtbl.t = Hashtbl.create 16 in
  let keys = ref [] in
  List.iter (fun ((p, d), m) ->
    let k = (ipath p, (match d with Up -> 0 | Down -> 1)) in
    (match Hashtbl.find_opt tbl k with
     | Some r -> r := L (vmsg m) :: !r
     | None -> Hashtbl.add tbl k (ref [L (vmsg m)]); keys := k :: !keys)) ch;
  let ks = List.sort compare !keys in
  L (List.map (fun ((p, d) as k) ->
       L [vints p; A (if d = 0 then "U" else "D"); L (List.rev !(Hashtbl.find tbl k))]) ks)

let brief_dump (old : net) (s : net) =
  "chan " ^ show (grouped s.n_chan)
  ^ " inbox " ^ show (L (List.map vinbox (drop (List.length old.n_inbox) s.n_inbox)))
  ^ " client " ^ show (vnats (drop (List.length old.n_client) s.n_client))
  ^ " err " ^ show (L (List.map verrent (drop (List.length old.n_err) s.n_err)))
  ^ " measure " ^ string_of_int (int_of_nat (measure !tree s))

let ev e =
  let old = !cur in
  match tstep lb ub !tree old e with
  | None -> "NONE"
  | Some s -> cur := s; "OK " ^ (if !brief then brief_dump old s else dump s)

let asg_of x = List.map nats (list_of x)
let dir_of = function A "U" -> Up | A "D" -> Down | _ -> failwith "dir"

let handle line =
  match parse line with
  | [A "init"; t] -> tree := tree_of t; cur := net0; "OK"
  | [A "brief"; I b] -> brief := (b <> 0); "OK"
  | [A "injres"; p; I rid; A "N"] -> ev (TInjRes (nats p, nat_of_int rid, None))
  | [A "injres"; p; I rid; dst] -> ev (TInjRes (nats p, nat_of_int rid, Some (nats dst)))
  | [A "injbatch"; p; I single; ts] -> ev (TInjBatch (nats p, single <> 0, nats ts))
  | [A "root"; ts; asg] -> ev (TRoot (nats ts, asg_of asg))
  | [A "deliver"; p; d; I ni; asg] -> ev (TDeliver (nats p, dir_of d, z_of_int ni, asg_of asg))
  | [A "wrecv"; p] -> ev (TWorkerRecv (nats p))
  | [A "dump"] -> dump !cur
  | [A "workerat"; p] ->
    (match worker_at lb ub !tree (nats p) with None -> "N" | Some z -> string_of_int (int_of_z z))
  | [A "nodeat"; p] ->
    (match node_at lb ub !tree (nats p) with
     | None -> "N"
     | Some ((l, u), t) ->
       let ne = (match t with Leaf n -> int_of_nat n | Node cs -> List.length cs) in
       Printf.sprintf "%d %d %d %d" (int_of_z l) (int_of_z u) (int_of_z (node_step l u t)) ne)
  | [A "height"] -> string_of_int (int_of_nat (height !tree))
  | _ -> "BADCMD"

let () =
  try while true do
    let line = input_line stdin in
    print_endline (try handle line with e -> "EXN " ^ Printexc.to_string e)
  done with End_of_file -> ()
