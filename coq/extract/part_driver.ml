(* C08 line protocol.
   op      = [gate [loc] params kind]            kind in G B M R
   item    = [L gate [loc] params kind] | [K [loc] [op ...]]
   check k [op ...] [item ...]                    -> T | F
   quick k fx nq ncyc [[cycle gate [loc] params kind] ...] [[hint ids] ...]
                                                  -> OK [item ...] | ERR <name>
   scan k nq ncyc [[cycle gate [loc] params kind] ...] [[group qudits] ...]
                                                  -> OK [item ...] | ERR <name> *)
open Common
open Part_model
let rec nat_of_int i = if i <= 0 then O else S (nat_of_int (i-1))
let rec int_of_nat = function O -> 0 | S n -> 1 + int_of_nat n
let rec pos_of_int i = if i <= 1 then XH else if i land 1 = 1 then XI (pos_of_int (i lsr 1)) else XO (pos_of_int (i lsr 1))
let rec int_of_pos = function XH -> 1 | XO p -> 2 * int_of_pos p | XI p -> 2 * int_of_pos p + 1
let n_of_int i = if i <= 0 then N0 else Npos (pos_of_int i)
let int_of_n = function N0 -> 0 | Npos p -> int_of_pos p
let z_of_int i = if i = 0 then Z0 else if i > 0 then Zpos (pos_of_int i) else Zneg (pos_of_int (-i))
let nats x = List.map nat_of_int (ints x)
let vnats l = L (List.map (fun n -> I (int_of_nat n)) l)
let kind_of = function A "G" -> KGate | A "B" -> KBarrier | A "M" -> KMeasure | A "R" -> KReset | _ -> failwith "kind"
let vkind = function KGate -> A "G" | KBarrier -> A "B" | KMeasure -> A "M" | KReset -> A "R"
let op_of = function
  | [I g; loc; I p; k] -> { ogate = n_of_int g; oloc = nats loc; oparams = n_of_int p; okind = kind_of k }
  | _ -> failwith "op"
let vop o = [I (int_of_n o.ogate); vnats o.oloc; I (int_of_n o.oparams); vkind o.okind]
let item_of x = match list_of x with
  | A "L" :: rest -> Leaf (op_of rest)
  | [A "K"; loc; body] -> Block (nats loc, List.map (fun o -> op_of (list_of o)) (list_of body))
  | _ -> failwith "item"
let vitem = function
  | Leaf o -> L (A "L" :: vop o)
  | Block (l, b) -> L [A "K"; vnats l; L (List.map (fun o -> L (vop o)) b)]
let cop_of x = match list_of x with
  | I c :: rest -> (z_of_int c, op_of rest)
  | _ -> failwith "cop"
let verr = function EBadHint -> "EBadHint" | EAssert -> "EAssert" | ENoBin -> "ENoBin" | EFuel -> "EFuel" | EPending -> "EPending"

let vserr = function SBadGroups -> "SBadGroups" | SWide -> "SWide" | SLoop -> "SLoop" | SEmptyBlock -> "SEmptyBlock"
  | SEmptyFold -> "SEmptyFold" | SFuel -> "SFuel"

let handle line = match parse line with
  | [A "check"; I k; i; o] ->
      let i = List.map (fun x -> op_of (list_of x)) (list_of i) in
      let o = List.map item_of (list_of o) in
      A (if check_partition (nat_of_int k) i o then "T" else "F")
  | [A "quick"; I k; I fx; I nq; I ncyc; ops; hints] ->
      let ops = List.map cop_of (list_of ops) in
      let hints = List.map nats (list_of hints) in
      (match quick (nat_of_int k) (fx <> 0) (nat_of_int nq) (z_of_int ncyc) ops hints with
       | Inl out -> L [A "OK"; L (List.map vitem out)]
       | Inr e -> L [A "ERR"; A (verr e)])
  | [A "scan"; I k; I nq; I ncyc; ops; groups] ->
      let ops = List.map cop_of (list_of ops) in
      let groups = List.map nats (list_of groups) in
      (match scan_default (nat_of_int k) (nat_of_int nq) (z_of_int ncyc) ops groups with
       | Inl out -> L [A "OK"; L (List.map vitem out)]
       | Inr e -> L [A "ERR"; A (vserr e)])
  | _ -> A "BADCMD"

let () =
  try while true do
    let line = input_line stdin in
    print_endline (try show (handle line) with e -> "EXN " ^ Printexc.to_string e)
  done with End_of_file -> ()
