From Coq Require Import List Arith.
From BQ Require Import circuit.CPickleTbl.
From Coq Require Extraction ExtrOcamlBasic.
Extraction "ptable_model.ml" n_marshal.
