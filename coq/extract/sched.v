From Coq Require Import ZArith List.
From BQ Require Import rt.SchedPre gen.SchedArith rt.Sched rt.SchedTree.
From Coq Require Extraction ExtrOcamlBasic.
Extraction "sched_model.ml" init step quiescent assign_tasks schedule_tasks idle_ids
  get_num_of_tasks_sent_since handle_waiting is_my_worker get_employee_responsible_for
  ctm_step_size ctm_lb ctm_ub send_up_or_schedule_tasks update_upstream_idle_workers
  tinit tstep tquiescent.
