From Coq Require Import List Arith.
From BQ Require Import rt.ServerM rt.ErrTree.
From Coq Require Extraction ExtrOcamlBasic.
Extraction "errtree_model.ml" net0 nstep nrun raised weight.
