(* C13 line protocol for rt/ErrTree.v.
   net <v:0|1|2> [[k ...] ...] -> per event: [[outs] [[path kind mb m] ... in flight] weight]
   events: 0 raise [path] kind mb m | 1 deliver [path] | 2 srv [k a b]  (server events as in server_driver.ml) *)
open Common
open Errtree_model
let rec nat_of_int i = if i <= 0 then O else S (nat_of_int (i-1))
let rec int_of_nat = function O -> 0 | S n -> 1 + int_of_nat n
let n = nat_of_int and i = int_of_nat
let sev x = match ints x with
  | [0; c] -> Connect (n c) | [1; c] -> Disconnect (n c)
  | [2; c; t] -> Submit (n c, n t) | [3; c; t] -> Request (n c, n t)
  | [4; c; t] -> Status (n c, n t) | [5; c; t] -> Cancel (n c, n t)
  | [6; a; b] -> Result (n a, n b) | [7; a; b] -> Error (n a, n b) | [8; a; b] -> Log (n a, n b)
  | _ -> failwith "event"
let kd k = if k = 0 then KErr else KLog
let ev x = match list_of x with
  | [I 0; p; I k; I mb; I m] -> NRaise (List.map n (ints p), kd k, n mb, n m)
  | [I 1; p] -> NDeliver (List.map n (ints p))
  | [I 2; e] -> NSrv (sev e)
  | _ -> failwith "nev"
let vstat = function UNKNOWN -> 0 | RUNNING -> 1 | DONE -> 2
let vout = function
  | OSched mb -> L [A "sched"; I (i mb)]
  | OBcast mb -> L [A "bcast"; I (i mb)]
  | OResult (c, v) -> L [A "result"; I (i c); I (i v)]
  | OStatus (c, s) -> L [A "status"; I (i c); I (vstat s)]
  | OCancelAck c -> L [A "cancel"; I (i c)]
  | OErrUnknown c -> L [A "errunknown"; I (i c)]
  | OError (c, m) -> L [A "error"; I (i c); I (i m)]
  | OLog (c, l) -> L [A "log"; I (i c); I (i l)]
  | OCrash -> L [A "crash"]
let vchan ch = L (List.map (fun (p, ((k, mb), m)) ->
  L [vints (List.map i p); I (match k with KErr -> 0 | KLog -> 1); I (i mb); I (i m)]) ch)
let handle line = match parse line with
  | [A "net"; I v; es] ->
      let fx = (match v with 0 -> Cur | 1 -> Fix false | _ -> Fix true) in
      let rec go s = function
        | [] -> []
        | e :: r -> let (s', o) = nstep fx s e in
                    L [L (List.map vout o); vchan s'.chan; I (i (weight s'.chan))] :: go s' r in
      L (go net0 (List.map ev (list_of es)))
  | _ -> A "BADCMD"
let () =
  try while true do
    let line = input_line stdin in
    print_endline (try show (handle line) with e -> "EXN " ^ Printexc.to_string e)
  done with End_of_file -> ()
