From Coq Require Import ZArith List Arith.
From BQ Require Import lib.Cyclo pass.Rules gen.RulePasses pass.ScanSkel pass.Util.
From Coq Require Extraction ExtrOcamlBasic.
Extraction "passes_model.ml" rewrite all_rules all_shapes gate_mat gate_kind circ_den op_den rule_ok
  scan treescan exhaustive iter_scan iter_fwd iter_rev all_ops num_ops
  rebase_all subst_loop unfold_all group_single compress.
