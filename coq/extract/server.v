From Coq Require Import List Arith.
From BQ Require Import rt.ServerM rt.ServerSend.
From Coq Require Extraction ExtrOcamlBasic.
Extraction "server_model.ml" init step run spec0 sstep srun wf_ev wf_run answers send_all mkSender.
