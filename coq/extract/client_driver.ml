(* C13 client line protocol.
   run <fixed:0|1> [[kind k1 k2 [pre] [post]] ...] -> [[[outcome] [logs] open [pipe]] ...]   (state after each call)
   kind: 0 submit | 1 status | 2 result | 3 cancel
   msg:  [0 l] log | [1 m] error | [2 v] result | [3 s] status | [4] cancel | [5 x] other | [6] eof *)
open Common
open Client_model
let rec nat_of_int i = if i <= 0 then O else S (nat_of_int (i-1))
let rec int_of_nat = function O -> 0 | S n -> 1 + int_of_nat n
let n = nat_of_int and i = int_of_nat
let msg x = match ints x with
  | [0; l] -> MLog (n l) | [1; m] -> MErr (n m) | [2; v] -> MResult (n v) | [3; s] -> MStatus (n s)
  | [4] -> MCancel | [5; x] -> MOther (n x) | [6] -> MEof | _ -> failwith "msg"
let vmsg = function
  | MLog l -> vints [0; i l] | MErr m -> vints [1; i m] | MResult v -> vints [2; i v] | MStatus s -> vints [3; i s]
  | MCancel -> vints [4] | MOther x -> vints [5; i x] | MEof -> vints [6]
let kind = function 0 -> CSubmit | 1 -> CStatus | 2 -> CResult | 3 -> CCancel | _ -> failwith "kind"
let vout = function
  | Ret VSubmitted -> L [A "ret"; A "submitted"]
  | Ret (VStatus s) -> L [A "ret"; A "status"; I (i s)]
  | Ret (VResult v) -> L [A "ret"; A "result"; I (i v)]
  | Ret VTrue -> L [A "ret"; A "true"]
  | RaiseErr m -> L [A "err"; I (i m)]
  | RaiseClosed CEof -> L [A "closed"; A "eof"]
  | RaiseClosed CAttr -> L [A "closed"; A "attr"]
  | RaiseClosed CUnexp -> L [A "closed"; A "unexp"]
  | RaiseUnexpected -> L [A "unexpected"]
  | RaiseNoConn -> L [A "noconn"]
  | Blocks -> L [A "blocks"]
let handle line = match parse line with
  | [A "run"; I fx; cs] ->
      let fx = fx <> 0 in
      let rec go st = function
        | [] -> []
        | c :: r ->
          (match list_of c with
           | [I kd; I k1; I k2; pre; post] ->
             let ((o, lg), st') = call fx (kind kd) (n k1) (n k2) st (List.map msg (list_of pre)) (List.map msg (list_of post)) in
             let (op, q) = st' in
             L [vout o; vints (List.map i lg); I (if op then 1 else 0); L (List.map vmsg q)] :: go st' r
           | _ -> failwith "call")
      in L (go (true, []) (list_of cs))
  | _ -> A "BADCMD"
let () =
  try while true do
    let line = input_line stdin in
    print_endline (try show (handle line) with e -> "EXN " ^ Printexc.to_string e)
  done with End_of_file -> ()
