(* Line protocol for the extracted worker/system model (coq/rt/WorkerM.v).
     init K ATOMIC          reset: K workers, ATOMIC in {0,1}
     client SCRIPT TARGET   EClient
     recv I | main I | server I ASG     one event; ASG = [[worker [pos ...]] ...]
     explore ATOMIC K SCRIPT LIMIT   breadth-first search over ALL schedules and server assignments of one
                            root body on K workers; prints counters (double wakes, failed assertions, deadlocks)
     ghost                  print per worker [log started finished created errs oos], then [client errors fatal]
   Every event answers `DISABLED` or the canonical dump of the whole state.
   SCRIPT = [[sub SCRIPT] [map [SCRIPT ...]] [aw F] [nx F] [na F] [ret V] ...] *)
open Common
open Worker_model
let rec nat_of_int i = if i <= 0 then O else S (nat_of_int (i-1))
let rec int_of_nat = function O -> 0 | S n -> 1 + int_of_nat n
let vn n = I (int_of_nat n)
let vb b = A (if b then "T" else "F")
let vaddr a = L [ (match a.a_w with DClient -> I (-1) | DWorker w -> vn w); vn a.a_box; vn a.a_slot ]
let vopt f = function None -> A "N" | Some x -> f x

let rec script_of v : cmd list = List.map cmd_of (list_of v)
and cmd_of v = match v with
  | L [A "sub"; s] -> Submit (script_of s)
  | L [A "map"; L ss] -> Map (List.map script_of ss)
  | L [A "aw"; I f] -> Await (nat_of_int f)
  | L [A "nx"; I f] -> Next (nat_of_int f)
  | L [A "na"; I f] -> NextAll (nat_of_int f)
  | L [A "ret"; I x] -> Return (nat_of_int x)
  | _ -> failwith "cmd"

let vtask t = L [ vaddr t.t_addr; vn t.t_comp; vopt vn t.t_desired; vb t.t_won; L (List.map vn t.t_owned) ]
let vmsg = function
  | MSubmit t -> L [A "submit"; vaddr t.t_addr]
  | MSubmitBatch ts -> L (A "batch" :: List.map (fun t -> vaddr t.t_addr) ts)
  | MResult (a, v, c) -> L [A "result"; vaddr a; vn v; vn c]
  | MWaiting r -> L [A "waiting"; vopt vaddr r]
  | MUpdate -> A "update"
  | MError c -> L [A "error"; vn c]
  | MFatal -> A "fatal"
  | MCancel a -> L [A "cancel"; vaddr a]
let vpc = function
  | PLoop -> A "loop" | PPromote -> A "promote" | PGet -> A "get" | PBlocked -> A "blocked"
  | PAw1 (a, m, n) -> L [A "aw1"; vaddr a; vn m; vb n]
  | PAw1c (a, m, n) -> L [A "aw1c"; vaddr a; vn m; vb n]
  | PAw2 (a, m) -> L [A "aw2"; vaddr a; vn m]
  | PDead -> A "dead"
let vcell = vopt vn
let vbox (k, b) = L [ vn k; vb b.b_single; vn b.b_expected; vn b.b_num;
  (if b.b_single then (match b.b_result with [c] -> vcell c | _ -> A "?") else L (List.map vcell b.b_result));
  vopt vaddr b.b_dest;
  vopt (fun l -> L (List.map (fun (s, v) -> L [vn s; vn v]) l)) b.b_fresh ]
let vworker w = L [ A "W"; vn w.w_id; vpc w.w_pc; L (List.map vtask w.w_tasks);
  L (List.map (fun t -> vaddr t.t_addr) w.w_delayed); L (List.map vaddr w.w_ready);
  L (List.map vbox w.w_boxes); vn w.w_counter; vopt vaddr w.w_recent; L (List.map vmsg w.w_out); vb w.w_rdead ]
let vsys s = L [ L (List.map vworker s.s_workers); L (List.map (fun q -> L (List.map vmsg q)) s.s_down) ]
let verr = function
  | EAssertReady -> "AssertReady" | EAssertFresh -> "AssertFresh" | EKeyBox -> "KeyBox" | EOwned -> "Owned"
  | ESlotRange -> "SlotRange" | EAssertWid -> "AssertWid" | EKeyTask -> "KeyTask" | EEmptyBatch -> "EmptyBatch"
  | EPopEmpty -> "PopEmpty" | EBody -> "Body"
let vobs (((a, _), _), o) = match o with
  | OAwait (f, vs) -> L [vaddr a; A "await"; vn f; L (List.map vcell vs)]
  | ONext (f, b) -> L [vaddr a; A "next"; vn f; L (List.map (fun (s, v) -> L [vn s; vn v]) b)]
let vghost s = L (List.map (fun w -> L [ L (List.map vobs w.w_log); L (List.map vaddr w.w_started);
  L (List.map (fun (a, v) -> L [vaddr a; vn v]) w.w_finished); L (List.map vaddr w.w_created);
  L (List.map (fun e -> A (verr e)) w.w_errs); vb w.w_oos ]) s.s_workers
  @ [ L [ L (List.map (fun (a, v) -> L [vn a.a_box; vn v]) s.s_client); L (List.map vn s.s_errors); vb s.s_fatal ] ])

let asg_of v = List.map (fun p -> match p with
  | L [I w; L idx] -> (nat_of_int w, List.map (fun i -> nat_of_int (int_of i)) idx)
  | _ -> failwith "asg") (list_of v)

(* ---- exhaustive exploration of all schedules of a small scenario (validation / counterexample search) ---- *)
let rec nat_list n = if n <= 0 then [] else nat_list (n-1) @ [n-1]
let rec assignments k n : int list list =      (* all maps position -> worker *)
  if n = 0 then [[]] else List.concat_map (fun rest -> List.map (fun w -> w :: rest) (nat_list k)) (assignments k (n-1))
let asg_of_map (mp : int list) k =
  List.filter (fun (_, l) -> l <> [])
    (List.map (fun w -> (nat_of_int w, List.map nat_of_int (List.filter (fun i -> List.nth mp i = w) (nat_list (List.length mp))))) (nat_list k))
let enabled_events atomic s : event list =
  let k = List.length s.s_workers in
  let evs = ref [] in
  List.iteri (fun i w ->
    (match List.nth s.s_down i with _ :: _ when not w.w_rdead -> evs := ERecv (nat_of_int i) :: !evs | _ -> ());
    (match main_step atomic w with Some _ -> evs := EMain (nat_of_int i) :: !evs | None -> ());
    (match w.w_out with
     | MSubmit _ :: _ -> List.iter (fun j -> evs := EServer (nat_of_int i, [(nat_of_int j, [O])]) :: !evs) (nat_list k)
     | MSubmitBatch ts :: _ -> List.iter (fun mp -> evs := EServer (nat_of_int i, asg_of_map mp k) :: !evs) (assignments k (List.length ts))
     | _ :: _ -> evs := EServer (nat_of_int i, []) :: !evs
     | [] -> ())) s.s_workers;
  !evs
let dup l = let rec go = function [] -> false | x :: r -> List.mem x r || go r in go l
let explore atomic k script limit =
  let seen = Hashtbl.create 100000 in
  let q = Queue.create () in
  let s0 = match step atomic (sys0 (nat_of_int k)) (EClient (script, O)) with Some s -> s | None -> failwith "client" in
  Queue.add s0 q; Hashtbl.replace seen (show (vsys s0) ^ show (vghost s0)) ();
  let states = ref 0 and quiescent = ref 0 and dw = ref 0 and asserts = ref 0 and deadlock = ref 0 and oos = ref 0 and trunc = ref false in
  while not (Queue.is_empty q) do
    let s = Queue.pop q in
    incr states;
    if List.exists (fun w -> dup w.w_ready) s.s_workers then incr dw;
    if List.exists (fun e -> e = EAssertReady || e = EAssertFresh) (all_errs s) then incr asserts;
    if not (in_scope s) then incr oos;
    let evs = enabled_events atomic s in
    if evs = [] then begin
      incr quiescent;
      if in_scope s && all_errs s = [] && (List.exists (fun w -> w.w_tasks <> []) s.s_workers || s.s_client = []) then incr deadlock
    end;
    List.iter (fun e -> match step atomic s e with
      | Some s' ->
        let key = show (vsys s') ^ show (vghost s') in
        if not (Hashtbl.mem seen key) then
          if Hashtbl.length seen >= limit then trunc := true
          else (Hashtbl.replace seen key (); Queue.add s' q)
      | None -> ()) evs
  done;
  Printf.sprintf "states=%d quiescent=%d double_wake=%d assert_failed=%d deadlock=%d out_of_scope=%d truncated=%b"
    !states !quiescent !dw !asserts !deadlock !oos !trunc

let st = ref (sys0 O)
let atomic = ref false
let ev e = match step !atomic !st e with
  | Some s -> st := s; show (vsys s)
  | None -> "DISABLED"
let handle line = match parse line with
  | [A "init"; I k; I a] -> st := sys0 (nat_of_int k); atomic := (a <> 0); show (vsys !st)
  | [A "client"; s; I t] -> ev (EClient (script_of s, nat_of_int t))
  | [A "recv"; I i] -> ev (ERecv (nat_of_int i))
  | [A "main"; I i] -> ev (EMain (nat_of_int i))
  | [A "server"; I i; asg] -> ev (EServer (nat_of_int i, asg_of asg))
  | [A "ghost"] -> show (vghost !st)
  | [A "explore"; I a; I k; sc; I limit] -> explore (a <> 0) k (script_of sc) limit
  | _ -> "BADCMD"

let () =
  try while true do
    let line = input_line stdin in
    print_endline (try handle line with e -> "EXN " ^ Printexc.to_string e)
  done with End_of_file -> ()
