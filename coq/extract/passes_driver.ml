open Common
open Passes_model
(* ---- conversions (nat stays Peano, Z/positive are the extracted datatypes) ---- *)
let rec nat_of_int i = if i <= 0 then O else S (nat_of_int (i-1))
let rec int_of_nat = function O -> 0 | S n -> 1 + int_of_nat n
let rec pos_of_int i = if i <= 1 then XH else if i land 1 = 0 then XO (pos_of_int (i lsr 1)) else XI (pos_of_int (i lsr 1))
let rec int_of_pos = function XH -> 1 | XO p -> 2 * int_of_pos p | XI p -> 2 * int_of_pos p + 1
let z_of_int i = if i = 0 then Z0 else if i > 0 then Zpos (pos_of_int i) else Zneg (pos_of_int (-i))
let int_of_z = function Z0 -> 0 | Zpos p -> int_of_pos p | Zneg p -> - (int_of_pos p)
let nats x = List.map nat_of_int (ints x)
let vnats l = L (List.map (fun n -> I (int_of_nat n)) l)

(* ---- gates: [NAME p.. [loc]] ---- *)
let gate_of name ps = match name, ps with
  | "I", [] -> G_I | "X", [] -> G_X | "Y", [] -> G_Y | "Z", [] -> G_Z | "H", [] -> G_H
  | "S", [] -> G_S | "Sdg", [] -> G_Sdg | "T", [] -> G_T | "Tdg", [] -> G_Tdg | "SX", [] -> G_SX
  | "RX", [m] -> G_RX (z_of_int m) | "RY", [m] -> G_RY (z_of_int m) | "RZ", [m] -> G_RZ (z_of_int m)
  | "U1", [m] -> G_U1 (z_of_int m) | "U3", [t; p; l] -> G_U3 (z_of_int t, z_of_int p, z_of_int l)
  | "CX", [] -> G_CX | "CY", [] -> G_CY | "CZ", [] -> G_CZ | "CH", [] -> G_CH | "CS", [] -> G_CS
  | "CT", [] -> G_CT | "SWAP", [] -> G_SWAP | "ISWAP", [] -> G_ISWAP | "SQISW", [] -> G_SQISW
  | _ -> failwith ("gate " ^ name)
let show_gate = function
  | G_I -> [A "I"] | G_X -> [A "X"] | G_Y -> [A "Y"] | G_Z -> [A "Z"] | G_H -> [A "H"] | G_S -> [A "S"]
  | G_Sdg -> [A "Sdg"] | G_T -> [A "T"] | G_Tdg -> [A "Tdg"] | G_SX -> [A "SX"]
  | G_RX m -> [A "RX"; I (int_of_z m)] | G_RY m -> [A "RY"; I (int_of_z m)] | G_RZ m -> [A "RZ"; I (int_of_z m)]
  | G_U1 m -> [A "U1"; I (int_of_z m)]
  | G_U3 (t, p, l) -> [A "U3"; I (int_of_z t); I (int_of_z p); I (int_of_z l)]
  | G_CX -> [A "CX"] | G_CY -> [A "CY"] | G_CZ -> [A "CZ"] | G_CH -> [A "CH"] | G_CS -> [A "CS"]
  | G_CT -> [A "CT"] | G_SWAP -> [A "SWAP"] | G_ISWAP -> [A "ISWAP"] | G_SQISW -> [A "SQISW"]
let op_of v = match v with
  | L (A name :: rest) ->
    let rec split acc = function
      | [L loc] -> (List.rev acc, List.map (fun x -> nat_of_int (int_of x)) loc)
      | I p :: tl -> split (p :: acc) tl
      | _ -> failwith "op" in
    let (ps, loc) = split [] rest in (gate_of name ps, loc)
  | _ -> failwith "op"
let show_op (g, loc) = L (show_gate g @ [vnats loc])
let ops_of v = List.map op_of (list_of v)
let show_k (cs, e) = L (I (int_of_nat e) :: List.map (fun c -> I (int_of_z c)) cs)
let show_mat m = L (List.map (fun r -> L (List.map show_k r)) m)

(* ---- decision skeletons: grids are [[ [id [loc]] ... ] ...]; its = [[cycle id] ...] ---- *)
let sop_of v = match v with L [I id; L loc] -> (nat_of_int id, List.map (fun x -> nat_of_int (int_of x)) loc) | _ -> failwith "sop"
let grid_of v = List.map (fun c -> List.map sop_of (list_of c)) (list_of v)
let show_grid g = L (List.map (fun c -> L (List.map (fun (id, _) -> I (int_of_nat id)) c)) g)
let ids_of_grid g = List.sort compare (List.map (fun (id, _) -> int_of_nat id) (List.concat g))
let its_of g v =
  let ops = List.concat g in
  List.map (fun p -> match ints p with
    | [c; id] -> (z_of_int c, List.find (fun (i, _) -> int_of_nat i = id) ops)
    | _ -> failwith "its") (list_of v)
let log : v list ref = ref []
let scripted script = fun k g ->
  log := vints (ids_of_grid g) :: !log;
  let i = int_of_nat k - 1 in
  z_of_int (if i < List.length script then List.nth script i else 1000000)
let show_res = function
  | Ok s -> L [A "OK"; show_grid s.s_grid; I (int_of_nat s.s_ver); I (int_of_nat s.s_calls); L (List.rev !log)]
  | IndexErr -> L [A "IndexError"; L (List.rev !log)]
let filt_of v = match v with
  | A "all" -> (fun _ -> true)
  | _ -> let keep = ints v in (fun (id, _) -> List.mem (int_of_nat id) keep)
let default_score g =
  z_of_int (- (List.fold_left (fun acc (_, loc) -> acc + (List.length loc - 1) * 100 + 1) 0 (List.concat g)))

(* ---- utility models ---- *)
let rec bop_of v = match v with
  | L [A "L"; I id; L loc] -> Leaf (nat_of_int id, List.map (fun x -> nat_of_int (int_of x)) loc)
  | L [A "B"; L loc; L body] -> Blk (List.map (fun x -> nat_of_int (int_of x)) loc, List.map bop_of body)
  | _ -> failwith "bop"
let show_leaf (id, loc) = L [I (int_of_nat id); vnats loc]

let handle line = match parse line with
  | [A "rw"; I k; c] -> L (List.map show_op (rewrite (List.nth all_rules k) (ops_of c)))
  | [A "nrules"] -> I (List.length all_rules)
  | [A "ruleok"; I k] -> A (if rule_ok (List.nth all_rules k) then "T" else "F")
  | [A "rule"; I k] -> let r = List.nth all_rules k in
      L [L (show_gate r.r_src); I (int_of_nat r.r_width); L (List.map show_op r.r_repl)]
  | [A "shapes"] -> L (List.map vnats all_shapes)
  | [A "kind"; g] -> (match op_of (L (list_of g @ [L []])) with (g, _) -> I (int_of_nat (gate_kind g)))
  | [A "mat"; g] -> (match op_of (L (list_of g @ [L []])) with (g, _) -> show_mat (gate_mat g))
  | [A "den"; I n; c] -> show_mat (circ_den (nat_of_int n) (ops_of c))
  | [A "scan"; I left; I thr; g; its; filt; script] ->
      log := []; let g = grid_of g in
      show_res (scan (scripted (ints script)) (z_of_int thr) (left <> 0) (filt_of filt) g (its_of g its))
  | [A "tree"; I comp; I d; I thr; g; its; script] ->
      log := []; let g = grid_of g in
      show_res (treescan (scripted (ints script)) (z_of_int thr) (comp <> 0) (nat_of_int d) g (its_of g its))
  | [A "exh"; I thr; g; obs; script] ->
      log := []; let g = grid_of g in
      let obs = List.map (fun r -> List.map ints (list_of r)) (list_of obs) in
      let dedup n l =
        let o = (try List.nth obs (int_of_nat n) with _ -> []) in
        let seen = ref [] in
        List.filter (fun c -> let k = ids_of_grid c in
                       if List.mem k o && not (List.mem k !seen) then (seen := k :: !seen; true) else false) l in
      (match exhaustive (scripted (ints script)) (z_of_int thr) dedup default_score g with
       | Some (g', v) -> L [A "OK"; show_grid g'; I (int_of_nat v); L (List.rev !log)]
       | None -> A "FUEL")
  | [A "iter"; I left; I thr; g; filt; script] ->
      log := []; let g = grid_of g in
      (match iter_scan (scripted (ints script)) (z_of_int thr) (nat_of_int (2 + List.length (List.concat g))) (left <> 0) (filt_of filt) g O O with
       | Some (Ok (g', v)) -> L [A "OK"; show_grid g'; I (int_of_nat v); L (List.rev !log)]
       | Some IndexErr -> L [A "IndexError"; L (List.rev !log)]
       | None -> A "FUEL")
  | [A "iterrev"; g] -> L (List.map (fun (c, (id, _)) -> L [I (int_of_z c); I (int_of_nat id)]) (iter_rev (grid_of g)))
  | [A "iterfwd"; g] -> L (List.map (fun (c, (id, _)) -> L [I (int_of_z c); I (int_of_nat id)]) (iter_fwd (grid_of g)))
  (* rebase: counts table per cost call; templates given by their counts; C = source-gate count vector *)
  | [A "rebase"; I thr; I max_depth; I max_retries; I fuel; js; counts0; tcounts; I ocount; table; script] ->
      let table = List.map (fun r -> List.map nat_of_int (ints r)) (list_of table) in
      let script = ints script in
      let cost k _ = z_of_int (let i = int_of_nat k - 1 in if i < List.length script then List.nth script i else 1000000) in
      let count j c = (try List.nth c (int_of_nat j) with _ -> O) in
      let replace k c _ = (try List.nth table (int_of_nat k - 1) with _ -> c) in
      let templates = List.mapi (fun i n -> (i, nat_of_int n)) (ints tcounts) in
      let picks = ref [] in
      let group c = picks := vnats c :: !picks; c in
      let s0 = { r_c = List.map nat_of_int (ints counts0); r_k = O; r_prev = O; r_retries = O; r_changed = false } in
      (match rebase_all cost (z_of_int thr) count group replace (fun c -> c) templates (-1, nat_of_int ocount)
               (nat_of_int max_depth) (z_of_int max_retries) (nat_of_int fuel) (List.map nat_of_int (ints js)) s0 with
       | Some s -> L [A "OK"; vnats s.r_c; I (int_of_nat s.r_k); A (if s.r_changed then "T" else "F"); L (List.rev !picks)]
       | None -> L [A "FUEL"; L (List.rev !picks)])
  | [A "unfold"; c] -> L (List.map show_leaf (unfold_all (List.map bop_of (list_of c))))
  | [A "group"; tl] ->
      let tl = List.map (fun p -> match ints p with [id; b] -> (nat_of_int id, b <> 0) | _ -> failwith "tl") (list_of tl) in
      L (List.map (function Group ids -> L (A "G" :: List.map (fun i -> I (int_of_nat i)) ids) | Multi id -> L [A "M"; I (int_of_nat id)]) (group_single tl))
  | [A "compress"; c] ->
      let c = List.map (fun p -> match p with L [I id; L loc] -> (nat_of_int id, List.map (fun x -> nat_of_int (int_of x)) loc) | _ -> failwith "leaf") (list_of c) in
      L (List.map (fun (k, (id, _)) -> L [I (int_of_nat k); I (int_of_nat id)]) (compress c))
  | _ -> A "BADCMD"

let () =
  try while true do
    let line = input_line stdin in
    print_endline (try show (handle line) with e -> "EXN " ^ Printexc.to_string e)
  done with End_of_file -> ()
