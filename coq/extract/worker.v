From Coq Require Import List Arith.
From BQ Require Import rt.WorkerM.
From Coq Require Extraction ExtrOcamlBasic.
Extraction "worker_model.ml" sys0 step steps main_step recv_step valid_asg b_ready ret_of all_errs in_scope.
