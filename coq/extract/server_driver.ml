(* C13 line protocol.
   run <v:0|1|2> [[k a b] ...]  -> per event: [[outs] [tables]]   (model of DetachedServer: current / fixed / fixed-drop)
   spec <dc:0|1> [[k a b] ...]  -> [wf [[answers] ...]]            (five-state specification; dc: cancelled = forgotten)
   events: 0 connect c | 1 disconnect c | 2 submit c t | 3 request c t | 4 status c t | 5 cancel c t
           | 6 result mb v | 7 error mb m | 8 log mb l *)
open Common
open Server_model
let rec nat_of_int i = if i <= 0 then O else S (nat_of_int (i-1))
let rec int_of_nat = function O -> 0 | S n -> 1 + int_of_nat n
let n = nat_of_int and i = int_of_nat
let ev x = match ints x with
  | [0; c] -> Connect (n c) | [1; c] -> Disconnect (n c)
  | [2; c; t] -> Submit (n c, n t) | [3; c; t] -> Request (n c, n t)
  | [4; c; t] -> Status (n c, n t) | [5; c; t] -> Cancel (n c, n t)
  | [6; a; b] -> Result (n a, n b) | [7; a; b] -> Error (n a, n b) | [8; a; b] -> Log (n a, n b)
  | _ -> failwith "event"
let vstat = function UNKNOWN -> 0 | RUNNING -> 1 | DONE -> 2
let vout = function
  | OSched mb -> L [A "sched"; I (i mb)]
  | OBcast mb -> L [A "bcast"; I (i mb)]
  | OResult (c, v) -> L [A "result"; I (i c); I (i v)]
  | OStatus (c, s) -> L [A "status"; I (i c); I (vstat s)]
  | OCancelAck c -> L [A "cancel"; I (i c)]
  | OErrUnknown c -> L [A "errunknown"; I (i c)]
  | OError (c, m) -> L [A "error"; I (i c); I (i m)]
  | OLog (c, l) -> L [A "log"; I (i c); I (i l)]
  | OCrash -> L [A "crash"]
let srt l = List.sort compare l
let vtables s =
  L [ L (List.map (fun (c, ts) -> L [I c; vints ts]) (srt (List.map (fun (c, ts) -> (i c, srt (List.map i ts))) s.clients)));
      L (List.map (fun (t, (mb, c)) -> vints [t; mb; c]) (srt (List.map (fun (t, (mb, c)) -> (i t, (i mb, i c))) s.tasks)));
      L (List.map (fun (mb, t) -> vints [mb; t]) (srt (List.map (fun (mb, t) -> (i mb, i t)) s.m2t)));
      L (List.map (fun (mb, (r, w)) -> vints [mb; r; w])
           (srt (List.map (fun (mb, (r, w)) -> (i mb, ((match r with None -> -1 | Some v -> i v), (if w then 1 else 0)))) s.boxes)));
      I (i s.counter); vints (srt (List.map i s.closed)); I (if s.up then 1 else 0) ]
let handle line = match parse line with
  | [A "run"; I v; es] ->
      let fx = (match v with 0 -> Cur | 1 -> Fix false | _ -> Fix true) in
      let rec go s = function
        | [] -> []
        | e :: r -> let (s', o) = step fx s e in L [L (List.map vout o); vtables s'] :: go s' r in
      L (go init (List.map ev (list_of es)))
  | [A "spec"; I dc; es] ->
      let dc = dc <> 0 in
      let es = List.map ev (list_of es) in
      let (_, os) = srun dc spec0 es in
      L [I (if wf_run dc spec0 es then 1 else 0); L (List.map (fun o -> L (List.map vout o)) os)]
  | [A "sender"; I g; sts; q] ->
      (* sender <guard> [state of conn 0, 1, ...: 0 open 1 closed locally 2 peer gone] [[conn msg] ...] *)
      let sts = Array.of_list (ints sts) in
      let cf c = let k = i c in if k < Array.length sts then (match sts.(k) with 0 -> COpen | 1 -> CLocal | _ -> CPeerGone) else COpen in
      let q = List.map (fun p -> match ints p with [c; m] -> (n c, n m) | _ -> failwith "msg") (list_of q) in
      let r = send_all (g <> 0) { alive = true; conn = cf; sent = []; dropped = [] } q in
      L [I (if r.alive then 1 else 0); L (List.map (fun (c, m) -> vints [i c; i m]) r.sent); vints (List.map i r.dropped)]
  | _ -> A "BADCMD"
let () =
  try while true do
    let line = input_line stdin in
    print_endline (try show (handle line) with e -> "EXN " ^ Printexc.to_string e)
  done with End_of_file -> ()
