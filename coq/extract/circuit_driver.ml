open Common
open Circuit_model
let rec nat_of_int i = if i <= 0 then O else S (nat_of_int (i-1))
let rec int_of_nat = function O -> 0 | S n -> 1 + int_of_nat n
let rec pos_of_int i = if i <= 1 then XH else if i land 1 = 0 then XO (pos_of_int (i lsr 1)) else XI (pos_of_int (i lsr 1))
let rec int_of_pos = function XH -> 1 | XO p -> 2 * int_of_pos p | XI p -> 2 * int_of_pos p + 1
let z_of_int i = if i = 0 then Z0 else if i > 0 then Zpos (pos_of_int i) else Zneg (pos_of_int (-i))
let int_of_z = function Z0 -> 0 | Zpos p -> int_of_pos p | Zneg p -> - (int_of_pos p)
let nats x = List.map nat_of_int (ints x)
let zs x = List.map z_of_int (ints x)
let vnats l = L (List.map (fun n -> I (int_of_nat n)) l)
let vzs l = L (List.map (fun n -> I (int_of_z n)) l)

let rec op_of (x : v) : op = match x with
  | L [I b; I g; loc; ps; rad; sub] -> Op ((b <> 0), nat_of_int g, nats loc, zs ps, nats rad, cycles_of sub)
  | _ -> failwith "op"
and cycles_of (x : v) : op list list = List.map (fun cy -> List.map op_of (list_of cy)) (list_of x)

let rec vop (o : op) : v = match o with
  | Op (b, g, loc, ps, rad, sub) -> L [I (if b then 1 else 0); I (int_of_nat g); vnats loc; vzs ps; vnats rad; vcycles sub]
and vcycles cs = L (List.map (fun cy -> L (List.map vop (fwd_cycle cy))) cs)

let circ_of = function
  | L [I n; rads; cs] -> { nq = nat_of_int n; rads = nats rads; cycles = cycles_of cs }
  | _ -> failwith "circuit"
let vcirc c = L [I (int_of_nat c.nq); vnats c.rads; vcycles c.cycles]
let verr = function IndexError -> "IndexError" | ValueError -> "ValueError" | TypeError -> "TypeError" | InternalError -> "InternalError"
let vout = function
  | OkU -> "U" | OkN n -> "N " ^ string_of_int (int_of_z n) | OkO o -> "O " ^ show (vop o)
  | OkC c -> "C " ^ show (vcirc c) | Err e -> "E " ^ verr e
let pts x = List.map (fun p -> match ints p with [a; b] -> (z_of_int a, z_of_int b) | _ -> failwith "pt") (list_of x)
let boolv = function I 0 -> false | _ -> true

(* ---- derived views (coq/circuit/CViews.v) of the current grid, canonical ---- *)
let vpt (a, b) = L [I (int_of_nat a); I (int_of_nat b)]
let vopt = function None -> L [] | Some p -> vpt p
let rec range a b = if a >= b then [] else a :: range (a + 1) b
let vqmap l =
  let l' = List.sort compare (List.map (fun (q, x) -> (int_of_nat q, x)) l) in
  L (List.map (fun (q, x) -> L [I q; vopt x]) l')
let vviews c =
  let n = int_of_nat c.nq in
  let qs = List.map nat_of_int (range 0 n) in
  let ps = points c in
  L [ L (List.map (fun q -> vopt (first_on c q)) qs);
      L (List.map (fun q -> vopt (last_on c q)) qs);
      L (List.map vpt (front c));
      L (List.map vpt (rear c));
      L (List.map (fun p -> match dag_entry c p with
                            | None -> L [vpt p; A "none"]
                            | Some (pv, nx) -> L [vpt p; vqmap pv; vqmap nx]) ps);
      L (List.map (fun p -> L [vpt p; L (List.map vpt (nexts c p))]) ps);
      L (List.map (fun p -> L [vpt p; L (List.map vpt (prevs c p))]) ps);
      I (int_of_nat (num_operations c));
      L (List.map (fun (k, m) -> L [vop k; I (int_of_nat m)]) (gate_counts c));
      L (List.map (fun (p, m) -> L [vpt p; I (int_of_nat m)]) (graph_info c));
      L (List.map (fun q -> I (int_of_nat q)) (active_qudits c));
      I (int_of_nat (depth c));
      L (List.map (fun (i, o) -> match o with
                                 | None -> L [I (int_of_nat i); A "none"]
                                 | Some o -> L [I (int_of_nat i); vop o]) (dag_iter c)) ]

(* ---- fold (coq/circuit/CFold.v): a region is [[qudit [lower upper]] ...] ---- *)
let region_of (x : v) = List.map (fun e -> match e with
  | L [I q; L [I lo; I hi]] -> (nat_of_int q, (nat_of_int lo, nat_of_int hi))
  | _ -> failwith "region") (list_of x)
(* regions are printed sorted by qudit (a dict has no order worth comparing) *)
let vregion r =
  let l = List.map (fun (q, (lo, hi)) -> (int_of_nat q, int_of_nat lo, int_of_nat hi)) r in
  L (List.map (fun (q, lo, hi) -> L [I q; L [I lo; I hi]]) (List.sort compare l))
(* a negative bound or qudit is rejected by CycleInterval / CircuitLocation before anything happens *)
let rec has_neg (x : v) = match x with I i -> i < 0 | A _ -> false | L l -> List.exists has_neg l

let cur = ref { nq = O; rads = []; cycles = [] }
let fin (c, o) = cur := c; vout o ^ " | " ^ show (vcirc c)

let handle line = match parse line with
  | [A "new"; I n; rads] -> cur := { nq = nat_of_int n; rads = nats rads; cycles = [] }; "U | " ^ show (vcirc !cur)
  | [A "set"; c] -> cur := circ_of c; "U | " ^ show (vcirc !cur)
  | [A "append"; o] -> fin (append !cur (op_of o))
  | [A "extend"; os] -> fin (extend !cur (List.map op_of (list_of os)))
  | [A "append_circuit"; c; loc; b] -> fin (append_circuit !cur (circ_of c) (nats loc) (boolv b))
  | [A "insert"; I ci; o] -> fin (insert !cur (z_of_int ci) (op_of o))
  | [A "insert_circuit"; I ci; c; loc; b] -> fin (insert_circuit !cur (z_of_int ci) (circ_of c) (nats loc) (boolv b))
  | [A "pop"] -> fin (pop !cur None)
  | [A "pop"; I ci; I qi] -> fin (pop !cur (Some (z_of_int ci, z_of_int qi)))
  | [A "batch_pop"; ps] -> fin (batch_pop !cur (pts ps))
  | [A "replace"; I ci; I qi; o] -> fin (replace !cur (z_of_int ci, z_of_int qi) (op_of o))
  | [A "batch_replace"; ps; os] -> fin (batch_replace !cur (pts ps) (List.map op_of (list_of os)))
  | [A "replace_with_circuit"; I ci; I qi; c; b] -> fin (replace_with_circuit !cur (z_of_int ci, z_of_int qi) (circ_of c) (boolv b))
  | [A "unfold"; I ci; I qi] -> fin (unfold !cur (z_of_int ci, z_of_int qi))
  | [A "unfold_all"] -> (match unfold_all_fuel (nat_of_int 64) !cur with
                         | Some c -> fin (c, OkU) | None -> "E Fuel | " ^ show (vcirc !cur))
  | [A "compress"] -> fin (compress !cur, OkU)
  | [A "append_qudit"; I r] -> fin (append_qudit !cur (nat_of_int r))
  | [A "insert_qudit"; I qi; I r] -> fin (insert_qudit !cur (z_of_int qi) (nat_of_int r))
  | [A "pop_qudit"; I qi] -> fin (pop_qudit !cur (z_of_int qi))
  | [A "renumber"; p] -> fin (renumber_qudits !cur (nats p))
  | [A "clear"] -> fin (clear !cur, OkU)
  | [A "add"; c] -> fin (c_add !cur (circ_of c))
  | [A "iadd"; c] -> fin (c_iadd !cur (circ_of c))
  | [A "mul"; I n] -> fin (!cur, OkC (c_mul !cur (nat_of_int n)))
  | [A "imul"; I n] -> fin (c_imul !cur (nat_of_int n), OkU)
  | [A "fold"; r] -> if has_neg r then fin (!cur, Err ValueError) else fin (fold !cur (region_of r))
  | [A "foldx"; r] -> if has_neg r then fin (!cur, Err ValueError) else fin (fold_x true !cur (region_of r))
  | [A "straightenx"; r] ->
    if has_neg r then fin (!cur, Err ValueError) else
    (match straighten_x true !cur (region_of r) with
     | (c, SOk (r1, net, sh)) -> cur := c;
       "S " ^ show (vregion r1) ^ " " ^ string_of_int (int_of_nat net) ^ " " ^ show (vregion sh) ^ " | " ^ show (vcirc c)
     | (c, SErr e) -> fin (c, Err e))
  | [A "straighten"; r] ->
    if has_neg r then fin (!cur, Err ValueError) else
    (match straighten !cur (region_of r) with
     | (c, SOk (r1, net, sh)) -> cur := c;
       "S " ^ show (vregion r1) ^ " " ^ string_of_int (int_of_nat net) ^ " " ^ show (vregion sh) ^ " | " ^ show (vcirc c)
     | (c, SErr e) -> fin (c, Err e))
  | [A "check_region"; r] -> if has_neg r then "0" else if check_region !cur (region_of r) then "1" else "0"
  | [A "views"] -> show (vviews !cur)
  | [A "iter"] -> show (L (List.map vop (iter_ops !cur.cycles)))
  | [A "reduce"] -> show (L (List.map (fun cy -> L (List.map vop cy)) (reduce !cur)))
  | [A "riter"] -> show (L (List.map vop (riter_ops !cur.cycles)))
  | _ -> "BADCMD"

let () =
  try while true do
    let line = input_line stdin in
    print_endline (try handle line with e -> "EXN " ^ Printexc.to_string e)
  done with End_of_file -> ()
