From Coq Require Import ZArith List.
From BQ Require Import rt.SchedPre gen.SchedArith rt.Routing rt.TreeNet.
From Coq Require Extraction ExtrOcamlBasic.
Extraction "treenet_model.ml" net0 tstep tsteps worker_at node_at node_step measure height.
