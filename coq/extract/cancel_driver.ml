(* Line protocol for the extracted cancellation model (coq/rt/CancelM.v).
     reset NW [[instr ...] ...] FX F8  -> "ok STATE"   (FX = 1: completion loop iterates over a copy; F8 = 1: skipped task forgotten)
     e cl C connect | submit ID PROG ASG | request ID ORDER | cancel ID | disconnect ORDER
     e up W ASG | e down W | e step W  -> "ok FLAGS LABELS STATE"  or "none" (event not enabled / handler raises)
   FLAGS = [overtaken(before) quiescent clean no_orphans] as 0/1.
     route root|mgr below|above N      -> where a node with N employees sends a CANCEL (coq/rt/CancelTree.v route_cancel)
   instr: [s p] [m p1 ...] [a f] [n f] [c f];  ASG = [[w [i ...]] ...] *)
open Common
open Cancel_model
let rec nat_of_int i = if i <= 0 then O else S (nat_of_int (i-1))
let rec int_of_nat = function O -> 0 | S n -> 1 + int_of_nat n
let vi n = I (int_of_nat n)
let nats x = List.map nat_of_int (ints x)
let vnats l = L (List.map vi l)
let vb b = I (if b then 1 else 0)
let vaddr ((a, b), c) = L [vi a; vi b; vi c]
let vtask t = L [vaddr t.t_addr; L (List.map vaddr t.t_crumbs); vi t.t_comp; vi t.t_prog]
let vopt f = function None -> A "N" | Some x -> f x
let vpairs l = L (List.map (fun (a, b) -> L [vi a; vi b]) l)
let vmsg = function
  | MSubmit t -> L [A "S"; vtask t]
  | MBatch ts -> L [A "B"; L (List.map vtask ts)]
  | MResult (ra, v, by) -> L [A "R"; vaddr ra; vi v; vi by]
  | MCancel a -> L [A "C"; vaddr a]
  | MWaiting -> L [A "W"]
  | MUpdate -> L [A "U"]
  | MError (c, k) -> L [A "E"; vi c; vi k]
let vcmsg = function CResult v -> L [A "R"; vi v] | CError k -> L [A "E"; vi k] | CCancelAck -> L [A "A"]
let vbox (id, b) = L [vi id; vb b.mb_single; vi b.mb_expected; L (List.map (vopt vi) b.mb_slots); vi b.mb_num;
                      vopt vaddr b.mb_dest; vopt vpairs b.mb_fresh]
let vrt (a, rt) = L [vtask rt.rt_task; vi rt.rt_pc; vnats rt.rt_futs; vnats rt.rt_owned; vopt vi rt.rt_desired; vb rt.rt_won]
let sort_addrs l = List.sort compare (List.map (fun ((a, b), c) -> (int_of_nat a, int_of_nat b, int_of_nat c)) l)
let vaddr_i (a, b, c) = L [I a; I b; I c]
let vworker w = L [vi w.w_id; L (List.map vrt w.w_tasks); L (List.map vtask w.w_delayed); L (List.map vaddr w.w_ready);
                   L (List.map vaddr_i (sort_addrs w.w_cancelled)); L (List.map vbox w.w_boxes); vi w.w_counter; vb w.w_blocked]
let sorted_ints l = List.sort compare (List.map int_of_nat l)
let vserver s = L [
  L (List.map (fun (c, ids) -> L [vi c; L (List.map (fun i -> I i) (sorted_ints ids))]) s.s_clients);
  L (List.map (fun (id, (mb, c)) -> L [vi id; vi mb; vi c]) s.s_tasks);
  vpairs s.s_m2t;
  L (List.map (fun (mb, b) -> L [vi mb; vopt vi b.sb_result; vb b.sb_waiting]) s.s_boxes);
  vi s.s_counter; L (List.map (fun i -> I i) (sorted_ints s.s_closed))]
let vsys s = L [L (List.map vworker s.sy_workers); vserver s.sy_server;
                L (List.map (fun q -> L (List.map vmsg q)) s.sy_up); L (List.map (fun q -> L (List.map vmsg q)) s.sy_down);
                L (List.map (fun (c, m) -> L [vi c; vcmsg m]) s.sy_cli);
                L (List.map vaddr_i (sort_addrs s.sy_issued))]
let vlabel = function
  | LRun (w, t) -> L [A "run"; vi w; vtask t]
  | LObs (w, a, mb, nx, vals) -> L [A "obs"; vi w; vaddr a; vi mb; vb nx; vpairs vals]
  | LCancel (w, a, mb, n) -> L [A "cancel"; vi w; vaddr a; vi mb; vi n]
  | LDiscard (w, ra, v) -> L [A "discard"; vi w; vaddr ra; vi v]
  | LSkip (w, a, h) -> L [A "skip"; vi w; vaddr a; vopt vtask h]
  | LLeft (w, a, mbs) -> L [A "left"; vi w; vaddr a; vnats mbs]
  | LDone (w, t) -> L [A "done"; vi w; vtask t]
  | LErr (w, a, k, sent) -> L [A "err"; vi w; vaddr a; vi k; vb sent]
  | LDrop (w, t) -> L [A "drop"; vi w; vtask t]
  | LToClient (c, m) -> L [A "cli"; vi c; vcmsg m]
  | LSrvDiscard (mb, v) -> L [A "sdiscard"; vi mb; vi v]

let instr_of x = match list_of x with
  | [A "s"; I p] -> ISubmit (nat_of_int p)
  | A "m" :: ps -> IMap (List.map (fun p -> nat_of_int (int_of p)) ps)
  | [A "a"; I f] -> IAwait (nat_of_int f)
  | [A "n"; I f] -> INext (nat_of_int f)
  | [A "c"; I f] -> ICancel (nat_of_int f)
  | _ -> failwith "instr"
let asg_of x = List.map (fun p -> match list_of p with [I w; idx] -> (nat_of_int w, nats idx) | _ -> failwith "asg") (list_of x)

let progs = ref []
let fx = ref false
let f8 = ref false
let st = ref (init_sys O)

let event_of = function
  | [A "cl"; I c; A "connect"] -> EClient (nat_of_int c, CConnect, [])
  | [A "cl"; I c; A "submit"; I id; I p; asg] -> EClient (nat_of_int c, CSubmit (nat_of_int id, nat_of_int p), asg_of asg)
  | [A "cl"; I c; A "request"; I id; order] -> EClient (nat_of_int c, CRequest (nat_of_int id, nats order), [])
  | [A "cl"; I c; A "cancel"; I id] -> EClient (nat_of_int c, CCancel (nat_of_int id), [])
  | [A "cl"; I c; A "disconnect"; order] -> EClient (nat_of_int c, CDisconnect (nats order), [])
  | [A "up"; I w; asg] -> EUp (nat_of_int w, asg_of asg)
  | [A "down"; I w] -> EDown (nat_of_int w)
  | [A "step"; I w] -> EStep (nat_of_int w)
  | _ -> failwith "event"

let flags before s =
  L [vb before; vb (quiescent s); vb (clean s); vb (List.for_all no_orphans s.sy_workers)]

let handle line = match parse line with
  | [A "reset"; I nw; ps; I f; I g] ->
      fx := (f <> 0); f8 := (g <> 0);
      progs := List.map (fun p -> List.map instr_of (list_of p)) (list_of ps);
      st := init_sys (nat_of_int nw);
      "ok " ^ show (vsys !st)
  | A "e" :: ev ->
      let e = event_of ev in
      let ov = overtaken !st e in
      (match step !fx !f8 !progs !st e with
       | None -> "none"
       | Some (s, labs) -> st := s;
           "ok " ^ show (flags ov s) ^ " " ^ show (L (List.map vlabel labs)) ^ " " ^ show (vsys s))
  | [A "route"; A kind; A dir; I n] ->
      let ls = route_cancel (kind = "root") (dir = "above") (nat_of_int n) in
      show (L (List.map (function LUp -> A "up" | LDown k -> vi k) ls))
  | _ -> "BADCMD"

let () =
  try while true do
    let line = input_line stdin in
    print_endline (try handle line with e -> "EXN " ^ Printexc.to_string e)
  done with End_of_file -> ()
