(* line protocol for the gate-table model of Circuit.__reduce__ (coq/circuit/CPickleTbl.v; harness/c16_families.py)
   marshal [[ident hashclass eqclass] ...table...] [[ident hashclass eqclass] ...op gates...]
   answer: [[index per op] [ident that arrives per op] size-of-gate_set_of-the-op-gates] | KeyError *)
open Common
open Ptable_model

let rec nat_of_int i = if i <= 0 then O else S (nat_of_int (i - 1))
let rec int_of_nat = function O -> 0 | S n -> 1 + int_of_nat n
let gate_of = function L [I a; I h; I e] -> (nat_of_int a, (nat_of_int h, nat_of_int e)) | _ -> failwith "gate"

let handle line = match parse line with
  | [A "marshal"; L tbl; L ops] ->
      (match n_marshal (List.map gate_of tbl) (List.map gate_of ops) with
       | None -> A "KeyError"
       | Some ((idx, back), n) ->
           L [vints (List.map int_of_nat idx); vints (List.map int_of_nat back); I (int_of_nat n)])
  | _ -> A "BADCMD"

let () =
  try while true do
    let line = input_line stdin in
    print_endline (try show (handle line) with e -> "EXN " ^ Printexc.to_string e)
  done with End_of_file -> ()
