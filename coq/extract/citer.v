From Coq Require Import List ZArith.
From BQ Require Import circuit.Iter.
From Coq Require Extraction ExtrOcamlBasic.
Extraction "citer_model.ml" x_iterate.
