(* line protocol for the extracted gate model (gate/GateModel.v):
     names                 -> the class names of GateLib.fixed_gates, in order
     model <spec>          -> OK \t radixes \t num_params \t U \t G_0 \t ... | NONE
   <spec> in the value syntax of common.ml, see harness/props/c18.py (spec_str). *)
open Common
open Gates_model

let rec nat_of_int i = if i <= 0 then O else S (nat_of_int (i-1))
let rec int_of_nat = function O -> 0 | S n -> 1 + int_of_nat n
let rec pos_of_int n = if n <= 1 then XH else if n land 1 = 0 then XO (pos_of_int (n lsr 1)) else XI (pos_of_int (n lsr 1))
let z_of_int n = if n = 0 then Z0 else if n > 0 then Zpos (pos_of_int n) else Zneg (pos_of_int (-n))
let nats x = List.map nat_of_int (ints x)

let char_of_ascii (Ascii (b0,b1,b2,b3,b4,b5,b6,b7)) =
  let b x k = if x then 1 lsl k else 0 in
  Char.chr (b b0 0 + b b1 1 + b b2 2 + b b3 3 + b b4 4 + b b5 5 + b b6 6 + b b7 7)
let ostring s =
  let buf = Buffer.create 1024 in
  let rec go = function EmptyString -> () | String (c, r) -> Buffer.add_char buf (char_of_ascii c); go r in
  go s; Buffer.contents buf

let cradix = function
  | L [A "int"; I r] -> CRInt (nat_of_int r)
  | L [A "list"; l] -> CRList (nats l)
  | _ -> failwith "ctrl radixes"
let clevel = function
  | L [A "int"; I l] -> LInt (nat_of_int l)
  | L [A "list"; l] -> LList (nats l)
  | _ -> failwith "ctrl level"
let clevels = function
  | A "none" -> CLNone
  | L [A "int"; I l] -> CLInt (nat_of_int l)
  | L [A "list"; L ls] -> CLList (List.map clevel ls)
  | _ -> failwith "ctrl levels"
let eradix = function
  | L [A "int"; I r] -> ERInt (nat_of_int r)
  | L [A "list"; l] -> ERList (nats l)
  | _ -> failwith "emb radixes"
let emaps = function
  | A "none" -> EMNone
  | L [A "one"; l] -> EMOne (nats l)
  | L [A "list"; L ls] -> EMList (List.map nats ls)
  | _ -> failwith "emb maps"

let rec spec_of = function
  | L [A "fixed"; I i] -> SFixed (nat_of_int i)
  | L [A "H"; I r] -> SH (nat_of_int r)
  | L [A "Shift"; I r] -> SShift (nat_of_int r)
  | L [A "Clock"; I r] -> SClock (nat_of_int r)
  | L [A "PD"; I i; I r] -> SPD (nat_of_int i, nat_of_int r)
  | L [A "Swap"; I r] -> SSwap (nat_of_int r)
  | L [A "CSUM"; I r] -> SCSUM (nat_of_int r)
  | L [A "SubSwap"; I r; I i; I j] -> SSubSwap (nat_of_int r, nat_of_int i, nat_of_int j)
  | L [A "Identity"; rx] -> SIdentity (nats rx)
  | L [A "ACP"; rx] -> SACP (nats rx)
  | L [A "Diag"; I n] -> SDiag (nat_of_int n)
  | L [A "MPRY"; I n; I t] -> SMPRY (nat_of_int n, nat_of_int t)
  | L [A "MPRZ"; I n; I t] -> SMPRZ (nat_of_int n, nat_of_int t)
  | L [A "PauliZ"; I n] -> SPauliZ (nat_of_int n)
  | L [A "RSU3"; I i] -> SRSU3 (nat_of_int i)
  | L [A "CKM"] -> SCKM false
  | L [A "CKMdg"] -> SCKMdg false
  | L [A "CKMfixed"] -> SCKM true
  | L [A "CKMdgfixed"] -> SCKMdg true
  | L [A "ctrl"; s; I nc; cr; cl] -> SControlled (spec_of s, nat_of_int nc, cradix cr, clevels cl)
  | L [A "dagger"; s] -> SDagger (spec_of s)
  | L [A "power"; s; I k] -> SPower (spec_of s, z_of_int k)
  | L [A "frozen"; s; L fz] ->
      SFrozen (spec_of s, List.map (function
        | L [I i; I n; I d] -> (nat_of_int i, { qnum = z_of_int n; qden = pos_of_int d })
        | _ -> failwith "frozen entry") fz)
  | L [A "embedded"; s; er; em] -> SEmbedded (spec_of s, eradix er, emaps em)
  | L [A "tagged"; s] -> STagged (spec_of s)
  | _ -> failwith "spec"

(* CachedClass model: cc [[cls [args] [[name value] ...]] ...]  -> i<id> | T per call *)
let rec pyval_of = function
  | I n -> VInt (z_of_int n)
  | A "none" -> VNone
  | L [A "s"; I c] -> VStr (nat_of_int c)
  | L (A "t" :: vs) -> VTuple (List.map pyval_of vs)
  | L (A "l" :: vs) -> VList (List.map pyval_of vs)
  | _ -> failwith "pyval"
let key_of = function
  | L [I c; L args; L kws] ->
      { k_cls = nat_of_int c; k_args = List.map pyval_of args;
        k_kwargs = List.map (function L [I n; v] -> (nat_of_int n, pyval_of v) | _ -> failwith "kwarg") kws }
  | _ -> failwith "call"

let handle line = match parse line with
  | [A "cc"; L calls] ->
      Stdlib.String.concat " " (List.map (function Inst i -> "i" ^ string_of_int (int_of_nat i) | RaisesTypeError -> "T")
        (cc_run cinit (List.map key_of calls)))
  | [A "names"] -> Stdlib.String.concat " " (List.map ostring fixed_names)
  | [A "model"; s] ->
      (match model_of (spec_of s) with
       | None -> "NONE"
       | Some m ->
         let (u, gs) = print_model m in
         Stdlib.String.concat "\t" (["OK"; Stdlib.String.concat " " (List.map (fun n -> string_of_int (int_of_nat n)) (cm_rx m));
                              string_of_int (int_of_nat (cm_np m)); ostring u] @ List.map ostring gs))
  | _ -> "BADCMD"

let () =
  try while true do
    let line = input_line stdin in
    print_endline (try handle line with e -> "EXN " ^ Printexc.to_string e)
  done with End_of_file -> ()
