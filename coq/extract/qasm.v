From Coq Require Import List Arith.
From BQ Require Import qasm.QExp.
From BQ Require Import qasm.QRegs.
From BQ Require Import qasm.QGate.
From BQ Require Import qasm.QSym.
From BQ Require Import qasm.QEnc.
From BQ Require Import qasm.QProg.
From BQ Require Import qasm.QProgSym.
From Coq Require Extraction ExtrOcamlBasic.
Extraction "qasm_model.ml" m_flat m_ok m_eval m_denote m_naive m_simple m_has m_bind m_subst_flat
  m_denote_env m_bind_eval
  convert_qubit_ids_to_indices first_index indices cxgate ugate reset_locs measure_keys
  body_formals
  p_toks p_toks_v p_def_toks p_rt p_rt_v p_ok p_expect p_shape.
