(* line protocol for the extracted CircuitGridIterator model (coq/circuit/Iter.v; see harness/props/c06.py)
   it nq [row ...] [scy sq] (N | [ecy eq]) ([n] | [q [qudits]] | [r [[q lo hi] ...]]) ex rv
   row = [cell ...], cell = N | [id [loc]]
   answer: [OK [[cycle qudit id] ...]] | [ERR Value|Index|Fuel] *)
open Common
open Citer_model

let rec pos_of_int i = if i <= 1 then XH else if i land 1 = 1 then XI (pos_of_int (i lsr 1)) else XO (pos_of_int (i lsr 1))
let rec int_of_pos = function XH -> 1 | XO p -> 2 * int_of_pos p | XI p -> 2 * int_of_pos p + 1
let z_of_int i = if i = 0 then Z0 else if i > 0 then Zpos (pos_of_int i) else Zneg (pos_of_int (-i))
let int_of_z = function Z0 -> 0 | Zpos p -> int_of_pos p | Zneg p -> - (int_of_pos p)
let zs x = List.map z_of_int (ints x)

let cell_of = function
  | A "N" -> None
  | L [I id; loc] -> Some (z_of_int id, zs loc)
  | _ -> failwith "cell"
let point_of = function L [I a; I b] -> (z_of_int a, z_of_int b) | _ -> failwith "point"
let mode_of = function
  | L [A "n"] -> QNone
  | L [A "q"; l] -> QQudits (zs l)
  | L [A "r"; L items] -> QRegion (List.map (function L [I q; I lo; I hi] -> (z_of_int q, (z_of_int lo, z_of_int hi)) | _ -> failwith "interval") items)
  | _ -> failwith "mode"

let handle line = match parse line with
  | [A "it"; I nq; L rows; st; en; mode; I ex; I rv] ->
      let g = List.map (fun r -> List.map cell_of (list_of r)) rows in
      let en = (match en with A "N" -> None | p -> Some (point_of p)) in
      (match x_iterate g (z_of_int nq) (point_of st) en (mode_of mode) (ex <> 0) (rv <> 0) with
       | Ok l -> L [A "OK"; L (List.map (fun ((cy, q), (id, _)) -> L [I (int_of_z cy); I (int_of_z q); I (int_of_z id)]) l)]
       | Err E_Value -> L [A "ERR"; A "Value"]
       | Err E_Index -> L [A "ERR"; A "Index"]
       | Err E_Fuel -> L [A "ERR"; A "Fuel"])
  | _ -> A "BADCMD"

let () =
  try while true do
    let line = input_line stdin in
    print_endline (try show (handle line) with e -> "EXN " ^ Printexc.to_string e)
  done with End_of_file -> ()
