From Coq Require Import List ZArith.
From BQ Require Import circuit.CModel.
From BQ Require Import circuit.CFold.
From Coq Require Extraction ExtrOcamlBasic.
Extraction "cfold_model.ml" fold straighten check_region fwd_cycle.
