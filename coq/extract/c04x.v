From Coq Require Import List ZArith.
From BQ Require Import circuit.CModel.
From BQ Require Import circuit.CFold.
From BQ Require Import circuit.CExt.
From Coq Require Extraction ExtrOcamlBasic.
Extraction "c04x_model.ml" unfold_all unfold_all_fuel full_expand circ_depth wf_circ fold_tail tail_ok fold fold_x fwd_cycle iter_ops.
