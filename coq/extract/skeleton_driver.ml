(* Line protocol for the extracted C03 skeleton (pass/Skeleton.v).
   Circuits are OCaml ints (the model is polymorphic in the circuit type); layers, counters and
   fuel are Peano nats; costs / keys are Coq Z (binary datatypes).

   search <q|l> <thr> <maxlayer|-1> <minprefix> <regmode s|x> <K> [nsucc ...] [cost by id ...] [key by add index ...] [reg: 1|0|n ...]
      -> the decision trace and the outcome
   list <n> [job ids] [finish order: positions] -> collected result indices or ERR
   pas <input_perm 0|1> <output_perm 0|1> <#perms> [score of candidate i ...] -> [winner index, pi index, pf index]
   linreg [xs] [ys] L d -> T | F | NAN *)
open Common
open Skeleton_model

let rec nat_of_int i = if i <= 0 then O else S (nat_of_int (i-1))
let rec int_of_nat = function O -> 0 | S n -> 1 + int_of_nat n
let rec pos_of_int i = if i <= 1 then XH else if i land 1 = 0 then XO (pos_of_int (i lsr 1)) else XI (pos_of_int (i lsr 1))
let z_of_int i = if i = 0 then Z0 else if i > 0 then Zpos (pos_of_int i) else Zneg (pos_of_int (-i))
let rec int_of_pos = function XH -> 1 | XO p -> 2 * int_of_pos p | XI p -> 2 * int_of_pos p + 1
let int_of_z = function Z0 -> 0 | Zpos p -> int_of_pos p | Zneg p -> - (int_of_pos p)

let nth_or l i d = match List.nth_opt l i with Some x -> x | None -> d

let show_event k = function
  | EInit (c, d) -> Printf.sprintf "init:%d:%d" c (int_of_z d)
  | EAdd (id, c, l, key) -> Printf.sprintf "add:%d:%d:%d:%d" (int_of_nat id) c (int_of_nat l) (int_of_z key)
  | EPop (i, c, l) -> Printf.sprintf "pop:%d:%d:%d" (int_of_nat i) c (int_of_nat l)
  | ENoSucc i -> Printf.sprintf "nosucc:%d" (int_of_nat i)
  | EEval (c, d) -> Printf.sprintf "eval:%d:%d" c (int_of_z d)
  | ENewBest (c, l) -> Printf.sprintf "best:%d:%d" c (int_of_nat l)
  | EPrefix (c, l) -> Printf.sprintf "prefix:%d:%d" c (int_of_nat l)
  | ESuccess (c, l) -> Printf.sprintf "success:%d:%d" c (int_of_nat l)
  | EEmptied c -> Printf.sprintf "emptied:%d" c

let handle line = match parse line with
  | [A "search"; A variant; I thr; I maxl; I minp; A regmode; I k; nsucc; costs; keys; regs] ->
    let nsucc = ints nsucc and costs = ints costs and keys = ints keys in
    let regs = List.map (function I 1 -> Some true | I 0 -> Some false | _ -> None) (list_of regs) in
    (* ids of the successors produced at the i-th pop *)
    let offset i = let rec go j acc = if j >= i then acc else go (j+1) (acc + nth_or nsucc j 0) in go 0 1 in
    let orc = { o_init = 0;
                o_succ = (fun i _ -> let i = int_of_nat i in let n = nth_or nsucc i 0 in
                                      List.init n (fun j -> offset i + j));
                o_inst = (fun _ _ c -> c + k);
                o_cost = (fun c -> z_of_int (nth_or costs (c mod k) 0));
                o_key = (fun id _ -> z_of_int (nth_or keys (int_of_nat id) 0)) } in
    let cfg = { threshold = z_of_int thr; max_layer = (if maxl < 0 then None else Some (nat_of_int maxl)) } in
    let fuel = nat_of_int (2 * (List.fold_left (+) 0 nsucc) + List.length nsucc + 10) in
    let regress = if regmode = "x" then linreg_delta_neg
      else (fun bls _ _ _ -> nth_or regs (List.length bls - 1) None) in
    let (out, st) = (match variant with
      | "q" -> qsearch orc cfg fuel
      | _ -> leap orc cfg regress (nat_of_int minp) fuel) in
    let tr = List.rev_map (show_event k) st.s_tr in
    let o = (match out with
      | Success c -> Printf.sprintf "ret:success:%d" c
      | Emptied c -> Printf.sprintf "ret:emptied:%d" c
      | OutOfFuel -> "ret:outoffuel") in
    A (String.concat " " (tr @ [o]))
  | [A "list"; I n; ids; order] ->
    let ids = ints ids and order = ints order in
    let fresh k = nat_of_int (nth_or ids (int_of_nat k) 0) in
    let finish jobs = List.map (fun p -> List.nth jobs p) order in
    (match compile_list fresh (fun x -> x) finish (List.init n (fun i -> i)) with
     | Some rs -> vints rs
     | None -> A "ERR")
  | [A "pas"; I ip; I op; I np; scores] ->
    (* permutations are their index in it.permutations; targets are not needed to pick the winner *)
    let scores = ints scores in
    (match pas (List.init np (fun i -> i)) 0 (fun _ t -> t) (fun t _ -> t) (fun i _ -> int_of_nat i)
             (fun c -> z_of_int (nth_or scores c 0)) (ip <> 0) (op <> 0) () with
     | Some ((c, pi), pf) -> L [I c; I pi; I pf]
     | None -> A "ERR")
  | [A "linreg"; xs; ys; I l; I d] ->
    (match linreg_delta_neg (List.map nat_of_int (ints xs)) (List.map z_of_int (ints ys)) (nat_of_int l) (z_of_int d) with
     | None -> A "NAN" | Some true -> A "T" | Some false -> A "F")
  | _ -> A "BADCMD"

let () =
  try while true do
    let line = input_line stdin in
    print_endline (try show (handle line) with e -> "EXN " ^ Printexc.to_string e)
  done with End_of_file -> ()
