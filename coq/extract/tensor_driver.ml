(* line protocol for the extracted Tensor/Sim model over Z[i] (see harness/props/c06.py) *)
open Common
open Tensor_model

let rec nat_of_int i = if i <= 0 then O else S (nat_of_int (i-1))
let rec int_of_nat = function O -> 0 | S n -> 1 + int_of_nat n
let rec pos_of_int i = if i <= 1 then XH else if i land 1 = 1 then XI (pos_of_int (i lsr 1)) else XO (pos_of_int (i lsr 1))
let rec int_of_pos = function XH -> 1 | XO p -> 2 * int_of_pos p | XI p -> 2 * int_of_pos p + 1
let n_of_int i = if i <= 0 then N0 else Npos (pos_of_int i)
let int_of_n = function N0 -> 0 | Npos p -> int_of_pos p
let z_of_int i = if i = 0 then Z0 else if i > 0 then Zpos (pos_of_int i) else Zneg (pos_of_int (-i))
let int_of_z = function Z0 -> 0 | Zpos p -> int_of_pos p | Zneg p -> - (int_of_pos p)

let nats x = List.map nat_of_int (ints x)
let ns x = List.map n_of_int (ints x)
let zs x = List.map z_of_int (ints x)
let rec gis = function
  | [] -> []
  | a :: b :: r -> (z_of_int a, z_of_int b) :: gis r
  | _ -> failwith "odd number of ints for a Gaussian-integer list"
let vgis l = L (List.concat_map (fun (a, b) -> [I (int_of_z a); I (int_of_z b)]) l)
let vnd t = vgis (nd_to_list t)
let rec chunk k l = if l = [] then [] else
  let rec take n l acc = if n = 0 then (List.rev acc, l) else match l with x :: r -> take (n-1) r (x :: acc) | [] -> (List.rev acc, []) in
  let (a, r) = take k l [] in a :: chunk k r
let rows_of ld x = chunk ld (gis (ints x))
let mat ld x = rows_nd (n_of_int ld) (rows_of ld x)
let prod l = List.fold_left ( * ) 1 l
let vbool b = A (if b then "T" else "F")
let vopt f = function None -> A "ERR" | Some x -> f x

(* circuit spec: [radixes] [op ...];  op = [g cycle [loc] np [stored] ld [A0] [A1] ...]  |  [b cycle [loc] [stored] circuit] *)
let rec circuit_of = function
  | L [rad; L ops] -> g_mk_circuit (ns rad) (List.map op_of ops)
  | _ -> failwith "circuit"
and op_of = function
  | L (A "g" :: I cy :: loc :: I np :: stored :: I ld :: mats) ->
      (nat_of_int cy, affine_op (nats loc) (nat_of_int np) (zs stored) (n_of_int ld) (List.map (rows_of ld) mats))
  | L [A "b"; I cy; loc; stored; inner] ->
      (nat_of_int cy, block_op (nats loc) (zs stored) (circuit_of inner))
  | _ -> failwith "op"

let vloc = function None -> A "ERR" | Some ((c, q), k) -> L [I (int_of_nat c); I (int_of_nat q); I (int_of_nat k)]
let vz z = I (int_of_z z)
let range n = List.init n (fun i -> i)

let observe c =
  let np = int_of_nat (g_num_params c) in
  L [ L (List.map vz (g_params c));
      L (List.map (fun i -> vloc (g_get_param_location c (nat_of_int i))) (range (np + 1)));
      L (List.map (fun i -> vopt vz (g_get_param c (nat_of_int i))) (range (np + 1)));
      vopt vnd (g_get_unitary c []) ]

let handle line = match parse line with
  | [A "ar"; rad; loc; I inv; t; I ld; u] ->
      let r = ns rad in
      vnd (g_apply_right r (flat_nd (r @ r) (gis (ints t))) (mat ld u) (nats loc) (inv <> 0))
  | [A "al"; rad; loc; I inv; t; I ld; u] ->
      let r = ns rad in
      vnd (g_apply_left r (flat_nd (r @ r) (gis (ints t))) (mat ld u) (nats loc) (inv <> 0))
  | [A "ear"; rad; loc; t; I ld; u] ->
      let r = ns rad in
      vnd (g_eval_apply_right r (flat_nd (r @ r) (gis (ints t))) (mat ld u) (nats loc))
  | [A "sv"; rad; loc; I inv; v; I ld; u] ->
      let r = ns rad in
      vnd (g_sv_apply r (flat_nd [n_of_int (prod (ints rad))] (gis (ints v))) (mat ld u) (nats loc) (inv <> 0))
  | [A "emb"; rad; loc; I ld; u] -> vnd (g_embed (ns rad) (nats loc) (mat ld u))
  | [A "chk"; rad; urad; loc] -> vbool (check_apply (ns rad) (ns urad) (nats loc))
  | [A "argsort"; p] -> L (List.map (fun n -> I (int_of_nat n)) (argsort (nats p)))
  | [A "circ"; c; ps; st] ->
      let c = circuit_of c in
      let ps = zs ps in
      let u = g_get_unitary c ps in
      let sv = (match ints st with
        | [] -> A "none"
        | v -> vopt vnd (g_get_statevector c (flat_nd [n_of_int (List.length v / 2)] (gis v)) ps)) in
      let ug = g_get_unitary_and_grad c ps in
      L [ vopt vnd u; sv;
          vopt (fun (u, _) -> vnd u) ug;
          vopt (fun (_, g) -> L (List.map vnd g)) ug;
          L (List.map vz (g_params c));
          L (List.map (fun i -> vloc (g_get_param_location c (nat_of_int i))) (range (int_of_nat (g_num_params c) + 1))) ]
  | [A "pedit"; c; L edits] ->
      (* a history of parameter edits; after each edit: status and the observation of the circuit *)
      let c = ref (circuit_of c) in
      L (List.map (fun e ->
        let r = (match e with
          | L [A "set"; I i; I x] -> g_set_param !c (nat_of_int i) (z_of_int x)
          | L [A "setall"; v] -> g_set_params !c (zs v)
          | L [A "freeze"; I i] -> g_freeze_param !c (nat_of_int i)
          | _ -> failwith "edit") in
        (match r with None -> A "ERR" | Some c' -> c := c'; observe c')) edits)
  | _ -> A "BADCMD"

let () =
  try while true do
    let line = input_line stdin in
    print_endline (try show (handle line) with e -> "EXN " ^ Printexc.to_string e)
  done with End_of_file -> ()
