From Coq Require Import List Arith.
From BQ Require Import rt.CancelM rt.CancelTree.
From Coq Require Extraction ExtrOcamlBasic.
Extraction "cancel_model.ml" init_sys step overtaken quiescent clean holds_dead no_orphans dead route_cancel.
