From Coq Require Import List Arith Bool.
From BQ Require Import rt.ClientM.
From Coq Require Extraction ExtrOcamlBasic.
Extraction "client_model.ml" drain tail recv1 answer call run.
