From Coq Require Import List Arith ZArith.
From BQ Require Import map.Graph.
From BQ Require Import map.GraphFloyd.
From BQ Require Import map.GraphExt.
From BQ Require Import map.GraphQpu.
From BQ Require Import map.Kron.
From Coq Require Extraction ExtrOcamlBasic.
Extraction "graph_model.ml" mk_adj is_fully_connected is_fully_connected_without degrees is_linear
  floyd unit_mat shortest_path_tree subgraphs_of_size get_subgraph perm_loop push_wire sort
  mk_mat floyd_ref fw_ijk
  mk_graph edges_of all_to_all linear ring star grid is_embedded_in induced_subgraph relabel_subgraph
  maximal_matching
  mm_graph mm_get_locations qpu_to_qudit qudit_to_qpu_coded qudit_to_qpu_fixed qpu_connectivity
  kron otimes mmul ident ipower apply_right apply_left swap_mat from_qudit_location perm_matrix complete_perm.
