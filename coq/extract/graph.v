From Coq Require Import List Arith.
From BQ Require Import map.Graph.
From Coq Require Extraction ExtrOcamlBasic.
Extraction "graph_model.ml" mk_adj is_fully_connected is_fully_connected_without degrees is_linear
  floyd unit_mat shortest_path_tree subgraphs_of_size get_subgraph perm_loop push_wire sort.
