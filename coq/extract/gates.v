(* extraction of the executable gate model (gate/GateModel.v) - ExtrOcamlBasic only *)
From Coq Require Import List Arith ZArith QArith String.
From BQ Require Import lib.Expr.
From BQ Require Import gate.Matrix.
From BQ Require Import gate.GateLib.
From BQ Require Import gate.Composed.
From BQ Require Import gate.GateModel.
From BQ Require Import gate.EqHash.
From Coq Require Extraction ExtrOcamlBasic.
Extraction "gates_model.ml" model_of print_model fixed_names cm_rx cm_np cc_run cinit.
