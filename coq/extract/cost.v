From Coq Require Import List Arith ZArith.
From BQ Require Import cost.MultiStart.
From Coq Require Extraction ExtrOcamlBasic.
Extraction "cost_model.ml" set_params params_of num_params sorted_by choose gen_starting_points
  multi_start rank_cost select instantiate Z.ltb fltb.
