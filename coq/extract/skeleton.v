From Coq Require Import ZArith List.
From BQ Require Import pass.Skeleton pass.SkeletonWf.
From Coq Require Extraction ExtrOcamlBasic.
Extraction "skeleton_model.ml" qsearch leap linreg_delta_neg check_new_best check_leap_condition
  compile_list pas set_target synthesis_run set_target_pass run_seq check pop_min.
