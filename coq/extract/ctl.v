From Coq Require Import List Arith QArith.
From BQ Require Import gen.PassDataFields gen.CircuitFields ctl.ForEach ctl.Control.
From Coq Require Extraction ExtrOcamlBasic.
Extraction "ctl_model.ml"
  ForEach.run ForEach.replace_filter ForEach.mkModel ForEach.inputs ForEach.collect ForEach.batch_replace
  Control.run_std Control.xrun Control.erase
  pd_update_error_mul pd_const cf_const
  cf_set_num_qudits cf_set_radixes cf_set_circuit
  pd_set_error pd_set_model pd_set_placement pd_set_initial_mapping pd_set_final_mapping pd_set_data pd_set_seed
  cf_circuit pd_error pd_model pd_placement pd_initial_mapping pd_final_mapping pd_data pd_seed
  pd_become_missing pd_become_is_total Qred.
