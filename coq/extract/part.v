(* C08: extraction of the verified partition oracle and of the QuickPartitioner model *)
From Coq Require Import List Arith NArith ZArith.
From BQ Require Import part.PartSpec part.PartCheck part.Quick.
From Coq Require Extraction ExtrOcamlBasic.
Extraction "part_model.ml" check_partition quick.
