(* C08: extraction of the verified partition oracle and of the QuickPartitioner / ScanPartitioner models *)
From Coq Require Import List Arith NArith ZArith.
From BQ Require Import part.PartSpec part.PartCheck part.Quick part.Scan.
From Coq Require Extraction ExtrOcamlBasic.
Extraction "part_model.ml" check_partition quick scan_default.
