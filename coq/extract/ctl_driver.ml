(* Line protocol for the extracted C11 models (ctl/ForEach.v, ctl/Control.v).
   Commands (whitespace-separated values, [ ] lists; see harness/props/c11.py):
     fein <ops> <cfflags> <edges> <radixes> <ceb>                       -> the body calls
     fe   <ncyc> <ops> <cfflags> <rf> <gs> <medges> <edges> <radixes> <ceb> <e0> <bodies>
     br   <ncyc> <ops> <points> <newops>                                -> Circuit.batch_replace
     ctl  <fuel> <pass> <leaves> <streams> <state>
     xctl <fuel> <pass> <streams>                                       -> dictated trace
     meta                                                               -> generated become verdict
   ops     = [[cycle gate loc] ...]   gate = [P g] | [C [[g loc] ...]]
   rf      = always | lt | multi | many | r-lt | r-multi | r-many | rf-lt | rf-multi | rf-many
             | parity (a callable filter: accept results with an even number of operations)
             | [tbl f0 f1 ...] (one answer per block, matched on the block operation)
   bodies  = [[R] | [sub width [num den]] ...]   one entry per selected block *)
open Common
open Ctl_model

let rec nat_of_int i = if i <= 0 then O else S (nat_of_int (i - 1))
let rec int_of_nat = function O -> 0 | S n -> 1 + int_of_nat n
let rec pos_of_int i = if i <= 1 then XH else if i land 1 = 0 then XO (pos_of_int (i lsr 1)) else XI (pos_of_int (i lsr 1))
let rec int_of_pos = function XH -> 1 | XO p -> 2 * int_of_pos p | XI p -> 2 * int_of_pos p + 1
let z_of_int i = if i = 0 then Z0 else if i > 0 then Zpos (pos_of_int i) else Zneg (pos_of_int (-i))
let int_of_z = function Z0 -> 0 | Zpos p -> int_of_pos p | Zneg p -> - (int_of_pos p)
let q_of x = match ints x with [n; d] -> { qnum = z_of_int n; qden = pos_of_int d } | _ -> failwith "q"
let rec pos_bits = function XH -> 1 | XO p -> 1 + pos_bits p | XI p -> 1 + pos_bits p
let rec float_of_pos = function XH -> 1.0 | XO p -> 2.0 *. float_of_pos p | XI p -> 2.0 *. float_of_pos p +. 1.0
let float_of_z = function Z0 -> 0.0 | Zpos p -> float_of_pos p | Zneg p -> -. (float_of_pos p)
let z_bits = function Z0 -> 1 | Zpos p -> pos_bits p | Zneg p -> pos_bits p
(* exact [n d] while both fit an OCaml int, otherwise [F x] with x the nearest float quotient
   (numerator and denominator scaled down together to stay in float range) *)
let vq q =
  let q = qred q in
  if z_bits q.qnum <= 60 && pos_bits q.qden <= 60 then L [I (int_of_z q.qnum); I (int_of_pos q.qden)]
  else
    let rec drop k p = if k <= 0 then p else (match p with XH -> XH | XO r -> drop (k - 1) r | XI r -> drop (k - 1) r) in
    let excess = max 0 (pos_bits q.qden - 900) in
    let num = (match q.qnum with Z0 -> 0.0 | Zpos p -> if pos_bits p <= excess then 0.0 else float_of_pos (drop excess p)
                | Zneg p -> if pos_bits p <= excess then 0.0 else -. (float_of_pos (drop excess p))) in
    L [A "F"; A (Printf.sprintf "%.17g" (num /. float_of_pos (drop excess q.qden)))]
let nats x = List.map nat_of_int (ints x)
let vnat n = I (int_of_nat n)
let vnats l = L (List.map vnat l)
let pairs x = List.map (fun p -> match ints p with [a; b] -> (nat_of_int a, nat_of_int b) | _ -> failwith "pair") (list_of x)
let vpairs l = L (List.map (fun (a, b) -> L [vnat a; vnat b]) l)
let flag = function I 0 -> false | I _ -> true | _ -> failwith "flag"
let vbool b = I (if b then 1 else 0)

let sop_of x = match x with L [I g; loc] -> { sg = nat_of_int g; sloc = nats loc } | _ -> failwith "sop"
let subc_of x = List.map sop_of (list_of x)
let vsop o = L [vnat o.sg; vnats o.sloc]
let vsubc s = L (List.map vsop s)
let gate_of = function
  | L [A "P"; I g] -> Prim (nat_of_int g)
  | L [A "C"; s] -> CGate (subc_of s)
  | _ -> failwith "gate"
let vgate = function Prim g -> L [A "P"; vnat g] | CGate s -> L [A "C"; vsubc s]
let ops_of x = List.map (function
  | L [I cy; g; loc] -> (nat_of_int cy, { ogate = gate_of g; oloc = nats loc })
  | _ -> failwith "op") (list_of x)
let vops l = L (List.map (fun (cy, o) -> L [vnat cy; vgate o.ogate; vnats o.oloc]) l)

let cf_of ops flags =
  let tbl = List.combine (List.map snd ops) (List.map flag (list_of flags)) in
  fun o -> (try List.assoc o tbl with Not_found -> false)

let base_of = function
  | "always" -> RAlways | "lt" -> RLess | "multi" -> RMulti | "many" -> RMany | _ -> failwith "rfbase"
let strip_prefix p s =
  let n = String.length p in
  if String.length s >= n && String.sub s 0 n = p then Some (String.sub s n (String.length s - n)) else None

let vinput b = L [vnat b.bi_index; vsubc b.bi_sub; L [vnat (fst b.bi_point); vnat (snd b.bi_point)];
                  vpairs b.bi_numbering; vpairs b.bi_edges; vnats b.bi_radixes; vbool b.bi_ceb]

let verr = function
  | IndexError -> A "IndexError" | ValueError -> A "ValueError" | BodyRaised -> A "BodyRaised"
  | Unmodelled -> A "Unmodelled" | Ok _ -> A "Ok"

(* ---- control ---- *)
let rec pass_of = function
  | L [A "L"; I id] -> Leaf (nat_of_int id)
  | L [A "S"; ps] -> Seq (List.map pass_of (list_of ps))
  | L [A "I"; I q; t] -> IfThenElse (nat_of_int q, pass_of t, None)
  | L [A "I"; I q; t; e] -> IfThenElse (nat_of_int q, pass_of t, Some (pass_of e))
  | L [A "W"; I q; b] -> While (nat_of_int q, pass_of b)
  | L [A "D"; I q; b] -> DoWhile (nat_of_int q, pass_of b)
  | L [A "T"; I c; b] -> DoThenDecide (nat_of_int c, pass_of b)
  | L [A "P"; bs; I l] -> ParallelDo (List.map pass_of (list_of bs), nat_of_int l, None)
  | L [A "PF"; bs; I l; fs] -> ParallelDo (List.map pass_of (list_of bs), nat_of_int l, Some (nats fs))
  | _ -> failwith "pass"

let action_of = function
  | L [A "app"; I g; loc] -> AAppend (nat_of_int g, nats loc)
  | L [A "rm"; I q] -> ARemoveLastOn (nat_of_int q)
  | L [A "clr"] -> AClear
  | L [A "pl"; l] -> ASetPlacement (nats l)
  | L [A "im"; l] -> ASetInitial (nats l)
  | L [A "fm"; l] -> ASetFinal (nats l)
  | L [A "err"; I n; I d] -> ASetError (q_of (L [I n; I d]))
  | L [A "mul"; I n; I d] -> AMulError (q_of (L [I n; I d]))
  | L [A "key"; I k; I v] -> ASetKey (nat_of_int k, nat_of_int v)
  | L [A "seed"; I n] -> ASetSeed (nat_of_int n)
  | L [A "model"; I m] -> ASetModel (nat_of_int m)
  | L [A "raise"] -> ARaise
  | _ -> failwith "action"

let leaves_of x =
  let tbl = List.map (function L [I id; acts] -> (id, List.map action_of (list_of acts)) | _ -> failwith "leaf") (list_of x) in
  fun id -> (try List.assoc (int_of_nat id) tbl with Not_found -> [ARaise])

let streams_of x = List.map (fun s -> List.map flag (list_of s)) (list_of x)
let vstreams ss = L (List.map (fun s -> L (List.map vbool s)) ss)

let rec vval = function
  | VU -> A "U" | VN n -> vnat n | VQ q -> vq q | VL l -> L (List.map vval l)

let vn_list l = VL (List.map (fun n -> VN n) l)
let state_of = function
  | L [I nq; radixes; ops; pl; im; fm; err; seed; I model; data] ->
    let c = cf_set_circuit (VL (List.map (function L [I g; loc] -> VL [VN (nat_of_int g); vn_list (nats loc)] | _ -> failwith "sop") (list_of ops)))
              (cf_set_radixes (vn_list (nats radixes)) (cf_set_num_qudits (VN (nat_of_int nq)) (cf_const VU))) in
    let d = pd_const VU in
    let d = pd_set_error (VQ (q_of err)) d in
    let d = pd_set_model (VN (nat_of_int model)) d in
    let d = pd_set_placement (vn_list (nats pl)) d in
    let d = pd_set_initial_mapping (vn_list (nats im)) d in
    let d = pd_set_final_mapping (vn_list (nats fm)) d in
    let d = pd_set_seed (match seed with I n -> VN (nat_of_int n) | _ -> VU) d in
    let d = pd_set_data (VL (List.map (function L [I k; I v] -> VL [VN (nat_of_int k); VN (nat_of_int v)] | _ -> failwith "kv") (list_of data))) d in
    (c, d)
  | _ -> failwith "state"

let vevent = function
  | ELeaf (id, o) -> L [A "leaf"; vnat id; vnat o]
  | EPred (p, v) -> L [A "pred"; vnat p; vbool v]
  | ECond (c, v) -> L [A "cond"; vnat c; vbool v]
let vtrace tr = L (List.map vevent tr)

let vstate (c, d) =
  [vval (cf_circuit c); vval (pd_placement d); vval (pd_initial_mapping d); vval (pd_final_mapping d);
   vval (pd_error d); vval (pd_seed d); vval (pd_model d); vval (pd_data d)]

let rec string_of_coq = function
  | EmptyString -> ""
  | String (Ascii (b0, b1, b2, b3, b4, b5, b6, b7), s) ->
    let bit b k = if b then 1 lsl k else 0 in
    String.make 1 (Char.chr (bit b0 0 + bit b1 1 + bit b2 2 + bit b3 3 + bit b4 4 + bit b5 5 + bit b6 6 + bit b7 7))
    ^ string_of_coq s

let handle line = match parse line with
  | [A "fein"; ops; flags; edges; radixes; ceb] ->
    let ops = ops_of ops in
    L (List.map vinput (inputs (pairs edges) (nats radixes) (flag ceb) O (collect (cf_of ops flags) ops)))
  | [A "fe"; I n; ops; flags; rf; gs; medges; edges; radixes; ceb; e0; bodies] ->
    let ops = ops_of ops in
    let cf = cf_of ops flags in
    let bodies = Array.of_list (list_of bodies) in
    let body (b : binput) =
      let i = int_of_nat b.bi_index in
      if i >= Array.length bodies then None else
      match bodies.(i) with
      | L [A "R"] -> None
      | L [sub; I w; e] -> Some { br_sub = subc_of sub; br_width = nat_of_int w; br_err = q_of e }
      | _ -> failwith "body" in
    let gsl = nats gs in
    let m = { in_gs = (fun g -> List.mem g gsl); medges = pairs medges } in
    let blocks = collect cf ops in
    let rf = match rf with
      | A "parity" -> (fun nw _ -> List.length nw mod 2 = 0)   (* c11_passes.rf_parity: a callable filter *)
      | A s ->
        let k = (match strip_prefix "rf-" s with
          | Some b -> RRespecting (true, base_of b)
          | None -> (match strip_prefix "r-" s with
              | Some b -> RRespecting (false, base_of b)
              | None -> RBase (base_of s))) in
        replace_filter k m
      | L (A "tbl" :: fl) ->
        (* scripted callable: answer k for the k-th block (matched on the block itself) *)
        let tbl = List.mapi (fun i (_, o) -> (o, (try flag (List.nth fl i) with _ -> false))) blocks in
        (fun _ o -> (try List.assoc o tbl with Not_found -> false))
      | _ -> failwith "rf" in
    (match run cf rf body (pairs edges) (nats radixes) (flag ceb) pd_update_error_mul
             { ncyc = nat_of_int n; ops = ops } (q_of e0) with
     | Ok o -> L [A "OK"; vnat o.fo_circ.ncyc; vops o.fo_circ.ops; vq o.fo_error;
                  L (List.map vinput o.fo_calls); L (List.map vbool o.fo_flags); vpairs o.fo_points]
     | e -> L [A "ERR"; verr e])
  | [A "br"; I n; ops; points; newops] ->
    let newops = List.map (function L [g; loc] -> { ogate = gate_of g; oloc = nats loc } | _ -> failwith "newop") (list_of newops) in
    (match batch_replace { ncyc = nat_of_int n; ops = ops_of ops } (pairs points) newops with
     | Ok c -> L [A "OK"; vnat c.ncyc; vops c.ops]
     | e -> L [A "ERR"; verr e])
  | [A "ctl"; I fuel; p; leaves; ss; st] ->
    (match run_std (leaves_of leaves) (nat_of_int fuel) (pass_of p) (state_of st) (streams_of ss) with
     | Done (s, ss', tr) -> L ([A "DONE"] @ vstate s @ [vtrace tr; vstreams ss'])
     | Raised tr -> L [A "RAISED"; vtrace tr]
     | OutOfFuel -> L [A "FUEL"])
  | [A "xctl"; I fuel; p; ss] ->
    (match xrun (nat_of_int fuel) (pass_of p) (streams_of ss) with
     | XDone (ss', tr) -> L [A "XDONE"; vtrace tr; vstreams ss']
     | XFuel -> L [A "FUEL"])
  | [A "meta"] ->
    L [vbool pd_become_is_total; L (List.map (fun s -> A (string_of_coq s)) pd_become_missing)]
  | _ -> A "BADCMD"

let () =
  try while true do
    let line = input_line stdin in
    print_endline (try show (handle line) with e -> "EXN " ^ Printexc.to_string e)
  done with End_of_file -> ()
