open Common
open Wfcompat_model
let rec nat_of_int i = if i <= 0 then O else S (nat_of_int (i-1))
let rec int_of_nat = function O -> 0 | S n -> 1 + int_of_nat n
let nats x = List.map nat_of_int (ints x)
let pairs x = List.map (fun p -> match ints p with [a;b] -> (nat_of_int a, nat_of_int b) | _ -> failwith "pair") (list_of x)
let ops x = List.map (fun o -> match list_of o with [I g; l] -> { og = nat_of_int g; oloc = nats l } | _ -> failwith "op") (list_of x)
let vbool b = A (if b then "T" else "F")
let bool_of = function A "T" -> true | A "F" -> false | _ -> failwith "bool"
let model n g e r = { mn = nat_of_int n; mgates = nats g; medges = pairs e; mrad = nats r }
let circ w r o = { cw = nat_of_int w; crad = nats r; cops = ops o }

let handle line = match parse line with
  | [A "compat"; I n; g; e; r; I w; cr; o; pl] ->
      let opl = (match pl with A "none" -> None | l -> Some (nats l)) in
      (match is_compatible (model n g e r) (circ w cr o) opl with None -> A "ERR" | Some b -> vbool b)
  | [A "compatph"; ph; I n; g; e; r; I w; cr; o; pl] ->
      let opl = (match pl with A "none" -> None | l -> Some (nats l)) in
      let phs = ints ph in
      (match is_compatible_ph (fun g -> List.mem (int_of_nat g) phs) (model n g e r) (circ w cr o) opl with None -> A "ERR" | Some b -> vbool b)
  | [A "spec"; I n; g; e; r; I w; cr; o; pl] ->
      L [vbool (spec (model n g e r) (circ w cr o) (nats pl)); vbool (monotone_on (circ w cr o) (nats pl))]
  | [A "resp"; I n; g; e; r; I w; cr; o; loc; f] ->
      vbool (is_respecting (model n g e r) (circ w cr o) (nats loc) (bool_of f))
  | [A "ltr"; I n; g; e; r; f; I w; cr; o; old; loc; fn] ->
      let oldc = (match old with A "none" -> None | L [I w2; cr2; o2] -> Some (circ w2 cr2 o2) | _ -> failwith "old") in
      vbool (lt_respecting (model n g e r) (bool_of f) (circ w cr o) oldc (nats loc) (bool_of fn))
  | _ -> A "BADCMD"

let () =
  try while true do
    let line = input_line stdin in
    print_endline (try show (handle line) with e -> "EXN " ^ Printexc.to_string e)
  done with End_of_file -> ()
