open Common
open Graph_model
let rec nat_of_int i = if i <= 0 then O else S (nat_of_int (i-1))
let rec int_of_nat = function O -> 0 | S n -> 1 + int_of_nat n
let nats x = List.map nat_of_int (ints x)
let vnats l = L (List.map (fun n -> I (int_of_nat n)) l)
let adj_of x = List.map nats (list_of x)
let pairs x = List.map (fun p -> match ints p with [a;b] -> (nat_of_int a, nat_of_int b) | _ -> failwith "pair") (list_of x)
let vpairs l = L (List.map (fun (a,b) -> L [I (int_of_nat a); I (int_of_nat b)]) l)
let vbool b = A (if b then "T" else "F")
let vopt f = function None -> A "ERR" | Some x -> f x
let vw = function None -> A "inf" | Some n -> I (int_of_nat n)

(* Z <-> int (Z extracted as a datatype: Z0 | Zpos | Zneg over positive = XI | XO | XH) *)
let rec pos_of_int i = if i <= 1 then XH else if i land 1 = 1 then XI (pos_of_int (i lsr 1)) else XO (pos_of_int (i lsr 1))
let rec int_of_pos = function XH -> 1 | XO p -> 2 * int_of_pos p | XI p -> 2 * int_of_pos p + 1
let z_of_int i = if i = 0 then Z0 else if i > 0 then Zpos (pos_of_int i) else Zneg (pos_of_int (- i))
let int_of_z = function Z0 -> 0 | Zpos p -> int_of_pos p | Zneg p -> - (int_of_pos p)
let zmat_of x = List.map (fun r -> List.map z_of_int (ints r)) (list_of x)
let vzmat m = L (List.map (fun r -> L (List.map (fun z -> I (int_of_z z)) r)) m)
let vmat d = L (List.map (fun r -> L (List.map vw r)) d)
let vres f = function Ok x -> f x | TypeError -> A "TypeError" | ValueError -> A "ValueError" | KeyError -> A "KeyError"
let vadj g = L [I (List.length g); L (List.map (fun l -> vnats (sort l)) g)]
let optn = function A "NONE" -> None | I n -> Some (nat_of_int n) | _ -> failwith "optn"
let ovs x = List.map (fun p -> match ints p with [a;b;c] -> ((nat_of_int a, nat_of_int b), nat_of_int c) | _ -> failwith "ov") (list_of x)

let handle line = match parse line with
  | [A "fc"; g] -> vopt vbool (is_fully_connected (adj_of g))
  | [A "fcw"; g; I q] -> vopt vbool (is_fully_connected_without (adj_of g) (nat_of_int q))
  | [A "deg"; g] -> vnats (degrees (adj_of g))
  | [A "lin"; g] -> vbool (is_linear (adj_of g))
  | [A "mkadj"; I n; es] -> L (List.map (fun l -> vnats (sort l)) (mk_adj (nat_of_int n) (pairs es)))
  | [A "fw"; g] -> let a = adj_of g in
      L (List.map (fun r -> L (List.map vw r)) (floyd (nat_of_int (List.length a)) (unit_mat a)))
  | [A "spt"; g; I s] -> vopt (fun ps -> L (List.map vnats ps)) (shortest_path_tree (adj_of g) (nat_of_int s))
  | [A "sub"; g; I k] -> vopt (fun ls -> L (List.map vnats ls)) (subgraphs_of_size (adj_of g) (nat_of_int k))
  | [A "gsub"; g; loc] -> vopt vpairs (get_subgraph (adj_of g) (nats loc) None)
  | [A "gsubr"; g; loc; ren] -> vopt vpairs (get_subgraph (adj_of g) (nats loc) (Some (pairs ren)))
  | [A "perm"; I n; loc] -> let (cur, sw) = perm_loop (nat_of_int n) (nats loc) in
      L [vnats cur; vpairs sw; vnats (List.map (fun q -> push_wire sw q) (nats loc))]
  | [A "fww"; I n; es; remote; I dw; I rw; ov] ->
      vmat (floyd (nat_of_int n) (mk_mat (nat_of_int n) (pairs es) (pairs remote) (nat_of_int dw) (nat_of_int rw) (ovs ov)))
  | [A "fwref"; I n; es; remote; I dw; I rw; ov] ->
      vmat (floyd_ref (nat_of_int n) (mk_mat (nat_of_int n) (pairs es) (pairs remote) (nat_of_int dw) (nat_of_int rw) (ovs ov)))
  | [A "fwijk"; I n; es; remote; I dw; I rw; ov] ->
      vmat (fw_ijk (nat_of_int n) (mk_mat (nat_of_int n) (pairs es) (pairs remote) (nat_of_int dw) (nat_of_int rw) (ovs ov)))
  | [A "mkg"; es; on] -> vres vadj (mk_graph (pairs es) (optn on))
  | [A "topo"; A "all_to_all"; I n] -> vres vadj (all_to_all (nat_of_int n))
  | [A "topo"; A "linear"; I n] -> vres vadj (linear (nat_of_int n))
  | [A "topo"; A "ring"; I n] -> vres vadj (ring (nat_of_int n))
  | [A "topo"; A "star"; I n] -> vres vadj (star (nat_of_int n))
  | [A "topo"; A "grid"; I r; I c] -> vres vadj (grid (nat_of_int r) (nat_of_int c))
  | [A "emb"; g; h] -> vbool (is_embedded_in (adj_of g) (adj_of h))
  | [A "ind"; g; loc] -> vres vpairs (induced_subgraph (adj_of g) (nats loc))
  | [A "relab"; es; A "NONE"] -> vres vadj (relabel_subgraph (pairs es) None)
  | [A "relab"; es; ren] -> vres vadj (relabel_subgraph (pairs es) (Some (pairs ren)))
  | [A "match"; order; ign] -> vpairs (maximal_matching (pairs order) (pairs ign))
  | [A "kron"; a; b] -> vzmat (kron (zmat_of a) (zmat_of b))
  | [A "otimes"; a; bs] -> vzmat (otimes (zmat_of a) (List.map zmat_of (list_of bs)))
  | [A "ipow"; a; I p] -> vzmat (ipower (zmat_of a) (z_of_int p))
  | [A "applyr"; rx; t; u; loc] -> vzmat (apply_right (nats rx) (zmat_of t) (zmat_of u) (nats loc))
  | [A "applyl"; rx; t; u; loc] -> vzmat (apply_left (nats rx) (zmat_of t) (zmat_of u) (nats loc))
  | [A "swapm"; I r] -> vzmat (swap_mat (nat_of_int r))
  | [A "fql"; I n; I r; loc] ->
      let m = from_qudit_location (nat_of_int n) (nat_of_int r) (nats loc) in
      let e = perm_matrix (nat_of_int n) (nat_of_int r) (complete_perm (nat_of_int n) (nats loc)) in
      L [vzmat m; vbool (m = e)]
  | [A "mmloc"; I n; es; I k] ->
      let n' = nat_of_int n in
      (match mm_graph n' (pairs es) with
       | Ok g -> (match mm_get_locations n' (pairs es) (nat_of_int k) with
                  | Ok ls -> L [I (List.length g); L (List.map vnats ls)]
                  | r -> vres (fun _ -> A "?") r)
       | r -> vres (fun _ -> A "?") r)
  | [A "qpu"; I n; es; remote] ->
      (match mk_graph (pairs es) (Some (nat_of_int n)) with
       | Ok g ->
         (match qpu_to_qudit g (pairs remote) with
          | None -> A "FUEL"
          | Some qpus ->
            let coded = qudit_to_qpu_coded qpus and fixed = qudit_to_qpu_fixed (nat_of_int n) qpus in
            let nq = nat_of_int (List.length qpus) in
            let conn q2q = L (List.map (fun l -> vnats (sort l)) (qpu_connectivity nq q2q (pairs remote))) in
            L [L (List.map (fun q -> vnats (sort q)) qpus); vnats coded; conn coded; vnats fixed; conn fixed])
       | r -> vres (fun _ -> A "?") r)
  | _ -> A "BADCMD"

let () =
  try while true do
    let line = input_line stdin in
    print_endline (try show (handle line) with e -> "EXN " ^ Printexc.to_string e)
  done with End_of_file -> ()
