open Common
open Graph_model
let rec nat_of_int i = if i <= 0 then O else S (nat_of_int (i-1))
let rec int_of_nat = function O -> 0 | S n -> 1 + int_of_nat n
let nats x = List.map nat_of_int (ints x)
let vnats l = L (List.map (fun n -> I (int_of_nat n)) l)
let adj_of x = List.map nats (list_of x)
let pairs x = List.map (fun p -> match ints p with [a;b] -> (nat_of_int a, nat_of_int b) | _ -> failwith "pair") (list_of x)
let vpairs l = L (List.map (fun (a,b) -> L [I (int_of_nat a); I (int_of_nat b)]) l)
let vbool b = A (if b then "T" else "F")
let vopt f = function None -> A "ERR" | Some x -> f x
let vw = function None -> A "inf" | Some n -> I (int_of_nat n)

let handle line = match parse line with
  | [A "fc"; g] -> vopt vbool (is_fully_connected (adj_of g))
  | [A "fcw"; g; I q] -> vopt vbool (is_fully_connected_without (adj_of g) (nat_of_int q))
  | [A "deg"; g] -> vnats (degrees (adj_of g))
  | [A "lin"; g] -> vbool (is_linear (adj_of g))
  | [A "mkadj"; I n; es] -> L (List.map (fun l -> vnats (sort l)) (mk_adj (nat_of_int n) (pairs es)))
  | [A "fw"; g] -> let a = adj_of g in
      L (List.map (fun r -> L (List.map vw r)) (floyd (nat_of_int (List.length a)) (unit_mat a)))
  | [A "spt"; g; I s] -> vopt (fun ps -> L (List.map vnats ps)) (shortest_path_tree (adj_of g) (nat_of_int s))
  | [A "sub"; g; I k] -> vopt (fun ls -> L (List.map vnats ls)) (subgraphs_of_size (adj_of g) (nat_of_int k))
  | [A "gsub"; g; loc] -> vopt vpairs (get_subgraph (adj_of g) (nats loc) None)
  | [A "gsubr"; g; loc; ren] -> vopt vpairs (get_subgraph (adj_of g) (nats loc) (Some (pairs ren)))
  | [A "perm"; I n; loc] -> let (cur, sw) = perm_loop (nat_of_int n) (nats loc) in
      L [vnats cur; vpairs sw; vnats (List.map (fun q -> push_wire sw q) (nats loc))]
  | _ -> A "BADCMD"

let () =
  try while true do
    let line = input_line stdin in
    print_endline (try show (handle line) with e -> "EXN " ^ Printexc.to_string e)
  done with End_of_file -> ()
