(* Shared helpers for the extracted-model drivers: a tiny value syntax
   (integers, atoms, [ ... ] lists, whitespace separated) and nat conversion.
   Works with ExtrOcamlBasic's mapping only (nat stays Peano: O / S). *)
type v = I of int | A of string | L of v list

let tokenize (s : string) : string list =
  let b = Buffer.create 16 and out = ref [] in
  let flush () = if Buffer.length b > 0 then (out := Buffer.contents b :: !out; Buffer.clear b) in
  String.iter (fun c -> match c with
    | '[' | ']' -> flush (); out := String.make 1 c :: !out
    | ' ' | '\t' | ',' | '\r' -> flush ()
    | c -> Buffer.add_char b c) s;
  flush (); List.rev !out

let parse (s : string) : v list =
  let rec items toks acc = match toks with
    | [] -> (List.rev acc, [])
    | "]" :: rest -> (List.rev acc, rest)
    | "[" :: rest -> let (l, rest') = items rest [] in items rest' (L l :: acc)
    | t :: rest ->
      let x = (match int_of_string_opt t with Some i -> I i | None -> A t) in
      items rest (x :: acc) in
  fst (items (tokenize s) [])

let rec show (x : v) : string = match x with
  | I i -> string_of_int i
  | A a -> a
  | L l -> "[" ^ String.concat " " (List.map show l) ^ "]"

let int_of = function I i -> i | _ -> failwith "int expected"
let list_of = function L l -> l | _ -> failwith "list expected"
let ints x = List.map int_of (list_of x)
let vints l = L (List.map (fun i -> I i) l)
