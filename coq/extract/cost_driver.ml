(* Line protocol for the extracted model of cost/MultiStart.v (property C19).
   Parameters and cost values are integers (Z); `<` on costs is Z.ltb.
     sort   <cands> <rank-table>                         -> sorted candidates
     choosenan <cands> <rank-table with nan>            -> ok candidate | err E   (float `<` with NaN)
     setp   <circuit> <params>                           -> ok circuit | err E
     inst   <seed_ok> <target_ok> <order> <method> <starts> <circuit> <ms>
            order  = [I ...],  I = [name cap <run-table> <rank-table>]
            method = none | [name s] | [inst I] | bad
            run-table  = [[x0 p] ...]   rank-table = [[p k] ...]   (x0, p integer lists)
            circuit = [[gate gnp [loc] [params]] ...] ;  ms = integer | nonint
     ms     <target_ok> <run-table> <own-rank-table> <own_is_residuals> <hs-rank-table> <starts> <circuit> <ms>
*)
open Common
open Cost_model
let rec nat_of_int i = if i <= 0 then O else S (nat_of_int (i-1))
let rec int_of_nat = function O -> 0 | S n -> 1 + int_of_nat n
let rec pos_of_int i = if i <= 1 then XH else if i land 1 = 1 then XI (pos_of_int (i lsr 1)) else XO (pos_of_int (i lsr 1))
let rec int_of_pos = function XH -> 1 | XO p -> 2 * int_of_pos p | XI p -> 2 * int_of_pos p + 1
let z_of_int i = if i = 0 then Z0 else if i > 0 then Zpos (pos_of_int i) else Zneg (pos_of_int (-i))
let int_of_z = function Z0 -> 0 | Zpos p -> int_of_pos p | Zneg p -> - (int_of_pos p)
let zs x = List.map z_of_int (ints x)
let vzs l = L (List.map (fun z -> I (int_of_z z)) l)
let nats x = List.map nat_of_int (ints x)
let vnats l = L (List.map (fun n -> I (int_of_nat n)) l)

let op_of x = match list_of x with
  | [I g; I n; l; p] -> { gate = nat_of_int g; gnp = nat_of_int n; loc = nats l; params = zs p }
  | _ -> failwith "op"
let circ_of x = List.map op_of (list_of x)
let vop o = L [I (int_of_nat o.gate); I (int_of_nat o.gnp); vnats o.loc; vzs o.params]
let vcirc c = L (List.map vop c)
let verr = function TypeError -> "TypeError" | ValueError -> "ValueError" | IndexError -> "IndexError"
let vres f = function Ok a -> L [A "ok"; f a] | Err e -> L [A "err"; A (verr e)]

(* association tables *)
let run_of x : z list -> z list =
  let t = List.map (fun pr -> match list_of pr with [a; b] -> (ints a, zs b) | _ -> failwith "run") (list_of x) in
  fun p -> let k = List.map int_of_z p in (try List.assoc k t with Not_found -> failwith "run table: unknown start")
let rank_of x : z list -> z =
  let t = List.map (fun pr -> match list_of pr with [a; I k] -> (ints a, z_of_int k) | _ -> failwith "rank") (list_of x) in
  fun p -> let k = List.map int_of_z p in (try List.assoc k t with Not_found -> failwith "rank table: unknown candidate")
let inst_of x = match list_of x with
  | [I nm; I cap; run; rank] -> { iname = nat_of_int nm; icap = (cap <> 0); irun = run_of run; irank = rank_of rank }
  | _ -> failwith "instantiater"
let method_of = function
  | A "none" -> MNone
  | A "bad" -> MBad
  | L [A "name"; I s] -> MName (nat_of_int s)
  | L [A "inst"; i] -> MInst (inst_of i)
  | _ -> failwith "method"
let ms_of = function I n -> Some (z_of_int n) | A "nonint" -> None | _ -> failwith "ms"
let starts_of x = List.map zs (list_of x)

(* rank table whose costs may be `nan` *)
let nanrank_of x : z list -> z option =
  let t = List.map (fun pr -> match list_of pr with
     | [a; I k] -> (ints a, Some (z_of_int k)) | [a; A "nan"] -> (ints a, None) | _ -> failwith "nanrank") (list_of x) in
  fun p -> let k = List.map int_of_z p in (try List.assoc k t with Not_found -> failwith "rank table: unknown candidate")

let handle line = match parse line with
  | [A "choosenan"; cands; rank] -> vres vzs (choose fltb (nanrank_of rank) (starts_of cands))
  | [A "sort"; cands; rank] ->
      L (List.map vzs (sorted_by Z.ltb (rank_of rank) (starts_of cands)))
  | [A "setp"; c; p] -> vres vcirc (set_params (circ_of c) (zs p))
  | [A "inst"; I so; I tok; order; m; starts; c; ms] ->
      let st = starts_of starts in
      vres vcirc (instantiate Z.ltb (so <> 0) (tok <> 0) (List.map inst_of (list_of order)) (method_of m)
                    (fun _ -> st) (circ_of c) (ms_of ms))
  | [A "ms"; I tok; run; own; I isres; hs; starts; c; ms] ->
      let st = starts_of starts in
      vres vcirc (multi_start Z.ltb (tok <> 0) (fun _ -> st) (run_of run)
                    (rank_cost (isres <> 0) (rank_of own) (rank_of hs)) (circ_of c) (ms_of ms))
  | _ -> A "BADCMD"

let () =
  try while true do
    let line = input_line stdin in
    print_endline (try show (handle line) with e -> "EXN " ^ Printexc.to_string e)
  done with End_of_file -> ()
