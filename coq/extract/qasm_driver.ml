(* Line protocol for the extracted C17 model (see harness/props/c17.py). *)
open Common
open Qasm_model
let rec nat_of_int i = if i <= 0 then O else S (nat_of_int (i-1))
let rec int_of_nat = function O -> 0 | S n -> 1 + int_of_nat n
let nats x = List.map nat_of_int (ints x)
let vnats l = L (List.map (fun n -> I (int_of_nat n)) l)
let vbool b = A (if b then "T" else "F")
let bool_of = function I 0 -> false | I _ -> true | A "T" -> true | A "F" -> false | _ -> failwith "bool"

let fn_of = function
  | "sin" -> FSin | "cos" -> FCos | "tan" -> FTan | "exp" -> FExp | "ln" -> FLn | "sqrt" -> FSqrt
  | s -> failwith ("fn " ^ s)
let fn_name = function FSin -> "sin" | FCos -> "cos" | FTan -> "tan" | FExp -> "exp" | FLn -> "ln" | FSqrt -> "sqrt"
let fns x = List.map (function A s -> fn_of s | _ -> failwith "fn atom") (list_of x)

(* ---- trees ---- *)
let rec exp_of (v : v) : sym exp = match v with
  | L (A "E" :: m0 :: rest) ->
      let rec go acc = function
        | [] -> acc
        | A "+" :: m :: t -> go (ESnoc (acc, OAdd, mul_of m)) t
        | A "-" :: m :: t -> go (ESnoc (acc, OSub, mul_of m)) t
        | _ -> failwith "exp tail" in
      go (EOne (mul_of m0)) rest
  | _ -> failwith "exp"
and mul_of (v : v) : sym mulexp = match v with
  | L (A "M" :: p0 :: rest) ->
      let rec go acc = function
        | [] -> acc
        | A "*" :: p :: t -> go (MSnoc (acc, OMul, prim_of p)) t
        | A "/" :: p :: t -> go (MSnoc (acc, ODiv, prim_of p)) t
        | _ -> failwith "mulexp tail" in
      go (MOne (prim_of p0)) rest
  | _ -> failwith "mulexp"
and prim_of (v : v) : sym prim = match v with
  | L [A "num"; I k] -> PNum (YNum (nat_of_int k))
  | L [A "pi"] -> PPi
  | L [A "id"; I x] -> PId (nat_of_int x)
  | L [A "idx"; I i] -> PIdx (nat_of_int i)
  | L [A "val"; s; I k] -> PVal (bool_of s, YNum (nat_of_int k))
  | L [A "pow"; b; x] -> PPow (prim_of b, prim_of x)
  | L [A "usub"; e] -> PUsub (exp_of e)
  | L [A "fn"; A f; e] -> PFn (fn_of f, exp_of e)
  | L [A "paren"; e] -> PParen (exp_of e)
  | _ -> failwith "prim"

let rec show_sym = function
  | YNum k -> L [A "num"; I (int_of_nat k)]
  | YPi -> L [A "pi"]
  | YAdd (a, b) -> L [A "add"; show_sym a; show_sym b]
  | YSub (a, b) -> L [A "sub"; show_sym a; show_sym b]
  | YMul (a, b) -> L [A "mul"; show_sym a; show_sym b]
  | YDiv (a, b) -> L [A "div"; show_sym a; show_sym b]
  | YPow (a, b) -> L [A "pow"; show_sym a; show_sym b]
  | YNeg a -> L [A "neg"; show_sym a]
  | YFn (f, a) -> L [A "fn"; A (fn_name f); show_sym a]
let vsym = function None -> A "NONE" | Some s -> show_sym s

let rec show_exp (e : sym exp) : v =
  let rec flat e acc = match e with
    | EOne m -> show_mul m :: acc
    | ESnoc (e', o, m) -> flat e' (A (match o with OAdd -> "+" | OSub -> "-") :: show_mul m :: acc) in
  L (A "E" :: flat e [])
and show_mul (m : sym mulexp) : v =
  let rec flat m acc = match m with
    | MOne p -> show_prim p :: acc
    | MSnoc (m', o, p) -> flat m' (A (match o with OMul -> "*" | ODiv -> "/") :: show_prim p :: acc) in
  L (A "M" :: flat m [])
and show_prim = function
  | PNum (YNum k) -> L [A "num"; I (int_of_nat k)]
  | PNum _ -> failwith "non-literal number"
  | PPi -> L [A "pi"]
  | PId x -> L [A "id"; I (int_of_nat x)]
  | PIdx i -> L [A "idx"; I (int_of_nat i)]
  | PVal (s, YNum k) -> L [A "val"; I (if s then 1 else 0); I (int_of_nat k)]
  | PVal _ -> failwith "non-literal value"
  | PPow (b, x) -> L [A "pow"; show_prim b; show_prim x]
  | PUsub e -> L [A "usub"; show_exp e]
  | PFn (f, e) -> L [A "fn"; A (fn_name f); show_exp e]
  | PParen e -> L [A "paren"; show_exp e]

let show_tok = function
  | TNum (YNum k) -> "n" ^ string_of_int (int_of_nat k)
  | TNum _ -> "n?"
  | TName NPi -> "pi"
  | TName (NFn f) -> "f:" ^ fn_name f
  | TName (NId x) -> "id" ^ string_of_int (int_of_nat x)
  | TName (NIdx i) -> "idx" ^ string_of_int (int_of_nat i)
  | TAdd -> "+" | TSub -> "-" | TMul -> "*" | TDiv -> "/" | TPow -> "**" | TLp -> "(" | TRp -> ")"
let vtoks l = A (String.concat " " (List.map show_tok l))

let acts x = List.map (fun p -> match list_of p with
  | [s; I k] -> (bool_of s, YNum (nat_of_int k)) | _ -> failwith "actual") (list_of x)

(* ---- registers ---- *)
let regs_of x = List.map (fun p -> match ints p with [a; b] -> (nat_of_int a, nat_of_int b) | _ -> failwith "reg") (list_of x)
let rec idl_of = function
  | [I x] -> IdOne (nat_of_int x)
  | l -> (match List.rev l with I x :: r -> IdSnoc (idl_of (List.rev r), nat_of_int x) | _ -> failwith "idlist")
let rec mixed_of = function
  | L [A "mxfirst"; I x; I i] -> MxFirst (nat_of_int x, nat_of_int i)
  | L [A "mxid"; l; I x] -> MxSnocId (mixed_of l, nat_of_int x)
  | L [A "mxidx"; l; I x; I i] -> MxSnocIdx (mixed_of l, nat_of_int x, nat_of_int i)
  | L [A "mxidl"; L (A "idl" :: ids); I x; I i] -> MxIdl (idl_of ids, nat_of_int x, nat_of_int i)
  | _ -> failwith "mixedlist"
let qlist_of = function
  | L [A "any"; L (A "idl" :: ids)] -> QIdl (idl_of ids)
  | L [A "any"; m] -> QMixed (mixed_of m)
  | L [A "arg"; I x] -> QArg (nat_of_int x, None)
  | L [A "arg"; I x; I i] -> QArg (nat_of_int x, Some (nat_of_int i))
  | _ -> failwith "qlist"
let vres f = function Ok a -> f a | ErrLang -> A "ERRLANG" | ErrCrash -> A "ERRCRASH"
let opt_idx = function [] -> None | [I i] -> Some (nat_of_int i) | _ -> failwith "index"

(* ---- programs (QProg) ---- *)
let psym_of = function
  | I k -> YNum (nat_of_int k)
  | L [A "neg"; I k] -> YNeg (YNum (nat_of_int k))
  | _ -> failwith "param"
let rec uop_of = function
  | L [A "lib"; I g; l; ps] -> ULib (nat_of_int g, nats l, List.map psym_of (list_of ps))
  | L [A "circ"; I nv; b; l] -> UCirc (nat_of_int nv, List.map uop_of (list_of b), nats l)
  | _ -> failwith "uop"
let pair2 x = match ints x with [a; b] -> (nat_of_int a, nat_of_int b) | _ -> failwith "pair"
let cop_of = function
  | L [A "u"; o] -> CU (uop_of o)
  | L [A "barrier"; l] -> CBarrier (nats l)
  | L [A "meas"; cr; ms; l] ->
      CMeasure (List.map pair2 (list_of cr),
                List.map (fun m -> match ints m with
                  | [k; cn; ci] -> (nat_of_int k, (nat_of_int cn, nat_of_int ci)) | _ -> failwith "measurement") (list_of ms),
                nats l)
  | L [A "reset"; l] -> CReset (nats l)
  | _ -> failwith "cop"
let cops x = List.map cop_of (list_of x)
(* naming of CircuitGates: association list keyed by the shape (structural equality) *)
let nm_of names =
  let tbl = List.map (function
    | L [I id; I nv; b] -> ((nat_of_int nv, List.map (fun o -> p_shape (uop_of o)) (list_of b)), nat_of_int id)
    | _ -> failwith "name") (list_of names) in
  fun nv sb -> (try List.assoc (nv, sb) tbl with Not_found -> O)
let n2s n = string_of_int (int_of_nat n)
let show_ptok = function
  | TkKw KwQreg -> "qreg" | TkKw KwCreg -> "creg" | TkKw KwGate -> "gate" | TkKw KwBarrier -> "barrier"
  | TkKw KwMeasure -> "measure" | TkKw KwReset -> "reset"
  | TkSy SyL -> "(" | TkSy SyR -> ")" | TkSy SyLB -> "<" | TkSy SyRB -> ">" | TkSy SyLC -> "{" | TkSy SyRC -> "}"
  | TkSy SyComma -> "," | TkSy SySemi -> ";" | TkSy SyArrow -> "->"
  | TkSpell g -> "s" ^ n2s g | TkCirc n -> "c" ^ n2s n | TkCreg n -> "r" ^ n2s n
  | TkQ -> "q" | TkQn j -> "q" ^ n2s j | TkPn i -> "p" ^ n2s i | TkInt n -> "#" ^ n2s n
  | TkLit (s, YNum k) -> (if s then "-n" else "n") ^ n2s k
  | TkLit _ -> "n?"
let vptoks l = A (String.concat "_" (List.map show_ptok l))
let rec show_iop = function
  | IPrim (g, l, ps) -> L [A "prim"; I (int_of_nat g); vnats l; L (List.map show_sym ps)]
  | ICirc (nv, b, l) -> L [A "circ"; I (int_of_nat nv); L (List.map show_iop b); vnats l]
let show_dop = function
  | DU o -> L [A "u"; show_iop o]
  | DBarrier l -> L [A "barrier"; vnats l]
  | DMeasure (k, cn, ci, l) -> L [A "meas"; I (int_of_nat k); I (int_of_nat cn); I (int_of_nat ci); vnats l]
  | DReset l -> L [A "reset"; vnats l]
let show_prog (cr, ds) =
  L [L (List.map (fun (a, b) -> L [I (int_of_nat a); I (int_of_nat b)]) cr); L (List.map show_dop ds)]

let handle line = match parse line with
  | [A "ptoks"; names; I n; gs; c] -> vptoks (p_toks (nm_of names) (nat_of_int n) (cops gs) (cops c))
  | [A "ptoksv"; cfx; names; I n; gs; c] -> vptoks (p_toks_v (bool_of cfx) (nm_of names) (nat_of_int n) (cops gs) (cops c))
  | [A "prtv"; cfx; names; fx; b; I n; gs; c] ->
      vres show_prog (p_rt_v (bool_of cfx) (nm_of names) (bool_of fx) (fns b) (nat_of_int n) (cops gs) (cops c))
  | [A "pdef"; names; I nv; b] -> vptoks (p_def_toks (nm_of names) (nat_of_int nv) (List.map uop_of (list_of b)))
  | [A "prt"; names; fx; b; I n; gs; c] ->
      vres show_prog (p_rt (nm_of names) (bool_of fx) (fns b) (nat_of_int n) (cops gs) (cops c))
  | [A "pok"; names; I n; gs; c] -> vbool (p_ok (nm_of names) (nat_of_int n) (cops gs) (cops c))
  | [A "pexpect"; c] -> L (List.map show_dop (p_expect (cops c)))
  | [A "flat"; fx; t] -> vtoks (m_flat (bool_of fx) (exp_of t))
  | [A "ok"; t] -> vbool (m_ok (exp_of t))
  | [A "simple"; t] -> vbool (m_simple (exp_of t))
  | [A "eval"; fx; b; t] -> vsym (m_eval (bool_of fx) (fns b) (exp_of t))
  | [A "denote"; t] -> vsym (m_denote (exp_of t))
  | [A "naive"; t] -> vsym (m_naive (exp_of t))
  | [A "has"; fs; t] -> vbool (m_has (nats fs) (exp_of t))
  | [A "bind"; fs; t] -> show_exp (m_bind (nats fs) (exp_of t))
  | [A "sflat"; fx; a; t] -> vtoks (m_subst_flat (bool_of fx) (acts a) (exp_of t))
  | [A "denv"; fs; a; t] -> vsym (m_denote_env (nats fs) (acts a) (exp_of t))
  | [A "beval"; fx; b; fs; a; t] -> vsym (m_bind_eval (bool_of fx) (fns b) (nats fs) (acts a) (exp_of t))
  | [A "conv"; r; q] -> vres vnats (convert_qubit_ids_to_indices (regs_of r) (qlist_of q))
  | [A "first"; r; I x] -> vres (fun n -> I (int_of_nat n)) (first_index (regs_of r) (nat_of_int x))
  | [A "whole"; r; I x] -> vres vnats (indices (regs_of r) (nat_of_int x))
  | [A "cx"; r; I c; I ci; I t; I ti] ->
      vres vnats (cxgate (regs_of r) (nat_of_int c) (nat_of_int ci) (nat_of_int t) (nat_of_int ti))
  | [A "ug"; r; I x; I i] -> vres vnats (ugate (regs_of r) (nat_of_int x) (nat_of_int i))
  | A "reset" :: r :: I x :: i -> vres vnats (reset_locs (regs_of r) (nat_of_int x) (opt_idx i))
  | A "meas" :: r :: I x :: i ->
      vres (fun (a, b) -> L [vnats a; vnats b]) (measure_keys (regs_of r) (nat_of_int x) (opt_idx i))
  | [A "formals"; ops] ->
      L (List.map vnats (body_formals (List.map (fun p -> match list_of p with
        | [b; I n] -> (bool_of b, nat_of_int n) | _ -> failwith "body op") (list_of ops))))
  | _ -> A "BADCMD"

let () =
  try while true do
    let line = input_line stdin in
    print_endline (try show (handle line) with e -> "EXN " ^ Printexc.to_string e)
  done with End_of_file -> ()
