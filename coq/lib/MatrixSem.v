(* lib/MatrixSem.v - the matrix semantics of lib/Tensor.v packaged as a monoid with LEIBNIZ equality, so
   that the abstract "same timelines => same denotation" theorems (lib/Trace.v, circuit/CThm.v,
   part/PartCheck.v, map/SabreSem.v), which quantify over monoids (M, mul, one) with `=`, can be
   instantiated with matrices.  Theorems: lib/MatrixSemThm.v.

   Tensor.v compares arrays extensionally (nd_eq) because an array is a function of its multi-index.
   Here a dim x dim matrix (dim = prod radixes) is stored as the row-major LIST of its dim*dim entries
   together with a boolean proof that the list has that length; two such values with the same list are
   equal (proofs of a boolean equation are unique - no axiom).  `inj` tabulates an array, `to_nd` reads a
   stored matrix back; nd_eq arrays of the right shape have the same `inj` (MatrixSemThm.inj_proper).

   The product is taken in CIRCUIT ORDER: mmul x y = "first x, then y" = the matrix product  y * x,
   so Trace.prod [o_1; ...; o_m] = E_m * ... * E_1 = Sim.uprod (the unitary computed by get_unitary, C06). *)
From Coq Require Import List NArith Arith Bool.
Import ListNotations.
From BQ Require Import lib.Tensor lib.Perm.
Open Scope N_scope.

Section MatrixSem.
Variable R : Type.
Variables (r0 r1 : R) (radd rmul : R -> R -> R).
Variable radixes : list N.

Definition dimN : N := prodN radixes.
Definition ncell : nat := N.to_nat (dimN * dimN).

(* row-major table of the entries of a dim x dim array *)
Definition canon (A : nd R) : list R :=
  map (fun k => at_ A (unflatten [dimN; dimN] k)) (Nseq (dimN * dimN)).

Lemma canon_len A : Nat.eqb (length (canon A)) ncell = true.
Proof. unfold canon, Nseq, ncell. rewrite !map_length, seq_length. apply Nat.eqb_refl. Qed.

Definition mat : Type := { l : list R | Nat.eqb (length l) ncell = true }.

Definition inj (A : nd R) : mat := exist _ (canon A) (canon_len A).
Definition to_nd (x : mat) : nd R :=
  mk_nd [dimN; dimN] (fun i => nth (N.to_nat (flatten [dimN; dimN] i)) (proj1_sig x) r0).

Definition mone : mat := inj (nd_identity R r0 r1 dimN).
(* circuit order: x is applied first *)
Definition mmul (x y : mat) : mat := inj (nd_matmul R r0 radd rmul (to_nd y) (to_nd x)).

(* ordered matrix product of a list of arrays, first element applied first: ndprod [A1; ...; Am] = Am * ... * A1 *)
Fixpoint ndprod (l : list (nd R)) : nd R :=
  match l with [] => nd_identity R r0 r1 dimN | A :: t => nd_matmul R r0 radd rmul (ndprod t) A end.

(* ---- operations: any type of operations with a location and ANY assignment of an array to each ---- *)
Variable op : Type.
Variable loc : op -> list nat.
Variable U : op -> nd R.

(* an operation whose location is not a location of the circuit (out of range / repeated qudit - rejected
   by the argument checks of the implementation, Tensor.is_location) denotes the identity; every theorem
   that speaks about concrete products assumes well-formed locations, where mden o = embed (loc o) (U o) *)
Definition mden (o : op) : mat :=
  if is_location (length radixes) (loc o) then inj (embed R r0 radixes (loc o) (U o)) else mone.

(* the list of (matrix, location) pairs consumed by Sim.uprod *)
Definition mats_of (s : list op) : list (nd R * list nat) := map (fun o => (U o, loc o)) s.

(* ---- wire permutations (uniform or permutation-invariant radixes) ----
   perm_mat f [r; c] = 1 iff digit q of c = digit f(q) of r for every wire q *)
Definition pdig (f : nat -> nat) (i : list N) : list N :=
  map (fun q => nth (f q) i 0) (seq 0 (length radixes)).
(* f, g are mutually inverse bijections of the wires 0..n-1 and f preserves the radix of every wire *)
Definition wire_perm (f g : nat -> nat) : Prop :=
  forall q, (q < length radixes)%nat ->
    (f q < length radixes)%nat /\ (g q < length radixes)%nat /\ g (f q) = q /\ f (g q) = q /\
    nth (f q) radixes 0 = nth q radixes 0.
Definition perm_mat (f : nat -> nat) : nd R :=
  mk_nd [dimN; dimN] (fun rc =>
    if idx_eqb (unflatten radixes (nth 1 rc 0)) (pdig f (unflatten radixes (nth 0 rc 0))) then r1 else r0).

(* the matrix of SwapGate(d): |x, y> -> |y, x> on two qudits of radix d *)
Definition swap_mat (d : N) : nd R :=
  mk_nd [d * d; d * d] (fun rc =>
    let r := nth 0 rc 0 in let c := nth 1 rc 0 in
    if N.eqb (r / d) (c mod d) && N.eqb (r mod d) (c / d) then r1 else r0).

(* ---- the semantics used by the routing theorems (map/SabreSem.v): input gate number g with matrix Ug g placed
   on the physical location L, and SwapGate on (a, b) = the permutation matrix of the transposition (a b) ---- *)
Variable Ug : nat -> nd R.
Definition mdenL (g : nat) (L : list nat) : mat :=
  if is_location (length radixes) L then inj (embed R r0 radixes L (Ug g)) else mone.
Definition msw (a b : nat) : mat :=
  if Nat.ltb a (length radixes) && Nat.ltb b (length radixes) then inj (perm_mat (tr a b)) else mone.

End MatrixSem.
