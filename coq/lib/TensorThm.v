(* lib/TensorThm.v - theorems about lib/Tensor.v: index arithmetic, the transpose/reshape/matmul
   pipelines equal multiplication by the embedded matrix, embeddings on disjoint locations commute. *)
From Coq Require Import List NArith Arith Bool ZArith Lia Ring Permutation.
Import ListNotations.
From BQ Require Import lib.Tensor.
Open Scope N_scope.

(* ================================================================== Gaussian integers *)
Lemma gi_ring : ring_theory gi0 gi1 gi_add gi_mul gi_sub gi_opp (@eq GI).
Proof.
  constructor; intros; unfold gi_sub, gi_add, gi_mul, gi_opp, gi0, gi1;
    repeat match goal with x : GI |- _ => destruct x end; cbn [fst snd]; try reflexivity; f_equal; ring.
Qed.

(* ================================================================== shapes and flat positions *)
Definition allpos (sh : list N) : Prop := Forall (fun d => 0 < d) sh.

Lemma prodN_nil : prodN [] = 1.
Proof. reflexivity. Qed.

Lemma prodN_cons d sh : prodN (d :: sh) = d * prodN sh.
Proof. reflexivity. Qed.

Lemma prodN_app a b : prodN (a ++ b) = prodN a * prodN b.
Proof.
  induction a as [|x a IH].
  - rewrite prodN_nil. simpl app. lia.
  - rewrite <- app_comm_cons, !prodN_cons, IH. lia.
Qed.

Lemma prodN_pos sh : allpos sh -> 0 < prodN sh.
Proof. induction 1 as [|d sh Hd _ IH]; [cbv; reflexivity|]. rewrite prodN_cons. nia. Qed.

Lemma valid_length sh i : valid sh i -> length i = length sh.
Proof. unfold valid. induction 1; simpl; auto. Qed.

Lemma valid_nil : valid [] [].
Proof. constructor. Qed.

Lemma valid_cons d sh x i : valid (d :: sh) (x :: i) <-> x < d /\ valid sh i.
Proof. unfold valid. split; intros H; [inversion H; subst; auto | destruct H; constructor; auto]. Qed.

Lemma valid_nth sh i :
  valid sh i <-> (length i = length sh /\ forall q, (q < length sh)%nat -> nth q i 0 < nth q sh 0).
Proof.
  revert i. induction sh as [|d sh IH]; intros [|x i]; split; intros H.
  - split; auto. intros q Hq. simpl in Hq. lia.
  - constructor.
  - inversion H.
  - destruct H as [H _]. discriminate.
  - inversion H.
  - destruct H as [H _]. discriminate.
  - apply valid_cons in H as [Hx Hi]. apply IH in Hi as [Hl Hn]. split; [simpl; lia|].
    intros [|q] Hq; simpl; auto. apply Hn. simpl in Hq. lia.
  - destruct H as [Hl Hn]. apply valid_cons. split; [apply (Hn 0%nat); simpl; lia|].
    apply IH. split; [simpl in Hl; lia|]. intros q Hq. apply (Hn (S q)). simpl. lia.
Qed.

Lemma valid_app s1 s2 i1 i2 : valid s1 i1 -> valid s2 i2 -> valid (s1 ++ s2) (i1 ++ i2).
Proof. unfold valid. apply Forall2_app. Qed.

Lemma valid_app_inv s1 s2 i1 i2 :
  length i1 = length s1 -> valid (s1 ++ s2) (i1 ++ i2) -> valid s1 i1 /\ valid s2 i2.
Proof.
  revert i1. induction s1 as [|d s1 IH]; intros [|x i1] Hl H; try discriminate.
  - split; [constructor | exact H].
  - simpl in H. apply valid_cons in H as [Hx H]. destruct (IH i1) as [H1 H2]; auto.
    split; auto. apply valid_cons. auto.
Qed.

Lemma flatten_lt sh i : valid sh i -> flatten sh i < prodN sh.
Proof.
  revert i. induction sh as [|d sh IH]; intros [|x i] H; try (inversion H; fail).
  - cbv. reflexivity.
  - apply valid_cons in H as [Hx Hi]. specialize (IH i Hi). simpl flatten. rewrite prodN_cons. nia.
Qed.

Lemma unflatten_flatten sh i : valid sh i -> unflatten sh (flatten sh i) = i.
Proof.
  revert i. induction sh as [|d sh IH]; intros [|x i] H; try (inversion H; fail); [reflexivity|].
  apply valid_cons in H as [Hx Hi]. pose proof (flatten_lt sh i Hi) as Hlt.
  simpl. assert (Hp : prodN sh <> 0) by lia.
  rewrite N.div_add_l by exact Hp. rewrite (N.div_small (flatten sh i)) by exact Hlt.
  rewrite N.add_0_r. f_equal.
  rewrite N.add_comm, N.mod_add by exact Hp. rewrite N.mod_small by exact Hlt. apply IH; exact Hi.
Qed.

Lemma unflatten_length sh k : length (unflatten sh k) = length sh.
Proof. revert k. induction sh as [|d sh IH]; intros k; simpl; auto. Qed.

Lemma unflatten_valid sh k : allpos sh -> k < prodN sh -> valid sh (unflatten sh k).
Proof.
  revert k. induction sh as [|d sh IH]; intros k Hp Hk; [constructor|].
  inversion Hp as [|? ? Hd Hp']; subst. pose proof (prodN_pos sh Hp') as Hpos.
  simpl. apply valid_cons. rewrite prodN_cons in Hk. split.
  - apply N.div_lt_upper_bound; lia.
  - apply IH; auto. apply N.mod_lt. lia.
Qed.

Lemma flatten_unflatten sh k : allpos sh -> k < prodN sh -> flatten sh (unflatten sh k) = k.
Proof.
  revert k. induction sh as [|d sh IH]; intros k Hp Hk.
  - simpl in *. unfold prodN in Hk. simpl in Hk. lia.
  - inversion Hp as [|? ? Hd Hp']; subst. pose proof (prodN_pos sh Hp') as Hpos.
    simpl. rewrite IH; auto; [| apply N.mod_lt; lia].
    rewrite N.mul_comm. symmetry. apply N.div_mod. lia.
Qed.

Lemma flatten_app s1 s2 i1 i2 :
  length i1 = length s1 ->
  flatten (s1 ++ s2) (i1 ++ i2) = flatten s1 i1 * prodN s2 + flatten s2 i2.
Proof.
  revert i1. induction s1 as [|d s1 IH]; intros [|x i1] Hl; try discriminate; simpl; [lia|].
  rewrite IH by (simpl in Hl; lia). rewrite prodN_app. lia.
Qed.

Lemma flatten2 a b r c : flatten [a; b] [r; c] = r * b + c.
Proof. simpl. unfold prodN. simpl. lia. Qed.

Lemma valid2 a b r c : valid [a; b] [r; c] <-> r < a /\ c < b.
Proof. rewrite valid_cons, valid_cons. intuition. constructor. Qed.

Lemma allpos_app a b : allpos a -> allpos b -> allpos (a ++ b).
Proof. intros Ha Hb. apply Forall_app. split; auto. Qed.

(* ================================================================== Nseq / all_idx *)
Lemma Nseq_In n k : In k (Nseq n) <-> k < n.
Proof.
  unfold Nseq. rewrite in_map_iff. split.
  - intros [x [<- Hx]]. apply in_seq in Hx. lia.
  - intros H. exists (N.to_nat k). split; [apply N2Nat.id|]. apply in_seq. lia.
Qed.

Lemma Nseq_NoDup n : NoDup (Nseq n).
Proof.
  unfold Nseq. apply FinFun.Injective_map_NoDup; [|apply seq_NoDup].
  intros a b H. apply Nat2N.inj. exact H.
Qed.

Lemma all_idx_In sh i : allpos sh -> (In i (all_idx sh) <-> valid sh i).
Proof.
  intros Hp. unfold all_idx. rewrite in_map_iff. split.
  - intros [k [<- Hk]]. apply Nseq_In in Hk. apply unflatten_valid; auto.
  - intros H. exists (flatten sh i). split; [apply unflatten_flatten; auto|].
    apply Nseq_In. apply flatten_lt; auto.
Qed.

Lemma NoDup_map_inj_in {A B} (f : A -> B) l :
  (forall a b, In a l -> In b l -> f a = f b -> a = b) -> NoDup l -> NoDup (map f l).
Proof.
  induction l as [|x l IH]; intros Hinj Hnd; simpl; [constructor|].
  inversion Hnd as [|? ? Hx Hnd']; subst. constructor.
  - rewrite in_map_iff. intros [y [Hy Hin]]. apply Hx.
    rewrite (Hinj x y); auto; [left; auto | right; auto].
  - apply IH; auto. intros a b Ha Hb. apply Hinj; right; auto.
Qed.

Lemma all_idx_NoDup sh : allpos sh -> NoDup (all_idx sh).
Proof.
  intros Hp. unfold all_idx. apply NoDup_map_inj_in; [|apply Nseq_NoDup].
  intros a b Ha Hb H. apply Nseq_In in Ha, Hb.
  rewrite <- (flatten_unflatten sh a), <- (flatten_unflatten sh b); auto. rewrite H. reflexivity.
Qed.

(* ================================================================== positions, gather, scatter *)
Lemma memb_In x l : memb x l = true <-> In x l.
Proof.
  unfold memb. rewrite existsb_exists. split.
  - intros [y [Hy He]]. apply Nat.eqb_eq in He. subst. exact Hy.
  - intros H. exists x. split; auto. apply Nat.eqb_refl.
Qed.

Lemma memb_false x l : memb x l = false <-> ~ In x l.
Proof. rewrite <- memb_In. destruct (memb x l); split; congruence. Qed.

Lemma nodupb_NoDup l : nodupb l = true <-> NoDup l.
Proof.
  induction l as [|x l IH]; simpl; split; intros H; try constructor; auto.
  - apply andb_true_iff in H as [H1 H2]. apply negb_true_iff, memb_false in H1. exact H1.
  - apply andb_true_iff in H as [H1 H2]. apply IH. exact H2.
  - inversion H; subst. apply andb_true_iff. split; [apply negb_true_iff, memb_false; auto | apply IH; auto].
Qed.

Lemma pos_lt x l : In x l -> (pos x l < length l)%nat.
Proof.
  induction l as [|y l IH]; intros H; [destruct H|]. simpl.
  destruct (Nat.eqb x y) eqn:E; [lia|]. apply Nat.eqb_neq in E.
  destruct H as [H|H]; [congruence|]. specialize (IH H). lia.
Qed.

Lemma nth_pos x l d : In x l -> nth (pos x l) l d = x.
Proof.
  induction l as [|y l IH]; intros H; [destruct H|]. simpl.
  destruct (Nat.eqb x y) eqn:E; [apply Nat.eqb_eq in E; auto|]. apply Nat.eqb_neq in E.
  destruct H as [H|H]; [congruence|]. auto.
Qed.

Lemma pos_nth l i d : NoDup l -> (i < length l)%nat -> pos (nth i l d) l = i.
Proof.
  revert i. induction l as [|y l IH]; intros i Hnd Hi; [simpl in Hi; lia|].
  inversion Hnd as [|? ? Hy Hnd']; subst. destruct i as [|i]; simpl.
  - rewrite Nat.eqb_refl. reflexivity.
  - destruct (Nat.eqb (nth i l d) y) eqn:E.
    + apply Nat.eqb_eq in E. exfalso. apply Hy. rewrite <- E. apply nth_In. simpl in Hi. lia.
    + f_equal. apply IH; auto. simpl in Hi. lia.
Qed.

Lemma pos_app_l x a b : In x a -> pos x (a ++ b) = pos x a.
Proof.
  induction a as [|y a IH]; intros H; [destruct H|]. simpl.
  destruct (Nat.eqb x y) eqn:E; auto. apply Nat.eqb_neq in E.
  destruct H as [H|H]; [congruence|]. f_equal. auto.
Qed.

Lemma pos_app_r x a b : ~ In x a -> pos x (a ++ b) = (length a + pos x b)%nat.
Proof.
  induction a as [|y a IH]; intros H; simpl; auto.
  destruct (Nat.eqb x y) eqn:E.
  - apply Nat.eqb_eq in E. exfalso. apply H. left. auto.
  - f_equal. apply IH. intros Hin. apply H. right. auto.
Qed.

Lemma map_nth_d {A B} (f : A -> B) l k d d' : (k < length l)%nat -> nth k (map f l) d = f (nth k l d').
Proof.
  revert k. induction l as [|x l IH]; intros k H; [simpl in H; lia|].
  destruct k; simpl; auto. apply IH. simpl in H. lia.
Qed.

Lemma gather_length ps l : length (gather ps l) = length ps.
Proof. apply map_length. Qed.

Lemma gather_nth ps l k : (k < length ps)%nat -> nth k (gather ps l) 0 = nth (nth k ps 0%nat) l 0.
Proof. intros H. unfold gather. apply (map_nth_d (fun p => nth p l 0)). exact H. Qed.

Lemma gather_app a b l : gather (a ++ b) l = gather a l ++ gather b l.
Proof. apply map_app. Qed.

Lemma scatter_length axes i : length (scatter axes i) = length axes.
Proof. unfold scatter. rewrite map_length, seq_length. reflexivity. Qed.

Lemma scatter_nth axes i j : (j < length axes)%nat -> nth j (scatter axes i) 0 = nth (pos j axes) i 0.
Proof.
  intros H. unfold scatter. rewrite (map_nth_d _ _ _ _ 0%nat) by (rewrite seq_length; exact H).
  rewrite seq_nth by exact H. reflexivity.
Qed.

(* a permutation of range(m) *)
Definition is_perm (m : nat) (p : list nat) : Prop :=
  length p = m /\ NoDup p /\ Forall (fun x => (x < m)%nat) p.

Lemma is_perm_In m p j : is_perm m p -> (j < m)%nat -> In j p.
Proof.
  intros (Hl & Hnd & Hr) Hj.
  assert (Hincl : incl (seq 0 m) p).
  { apply NoDup_length_incl; [exact Hnd | rewrite seq_length; lia |].
    intros x Hx. apply in_seq. rewrite Forall_forall in Hr. specialize (Hr x Hx). lia. }
  apply Hincl. apply in_seq. lia.
Qed.

Lemma list_eq_nth (a b : list N) :
  length a = length b -> (forall k, (k < length a)%nat -> nth k a 0 = nth k b 0) -> a = b.
Proof. intros Hl H. apply (nth_ext a b 0 0); auto. Qed.

Lemma gather_scatter m p x : is_perm m p -> length x = m -> gather p (scatter p x) = x.
Proof.
  intros Hp Hx. pose proof Hp as (Hl & Hnd & Hr). apply list_eq_nth.
  - rewrite gather_length. lia.
  - intros k Hk. rewrite gather_length in Hk. rewrite gather_nth by exact Hk.
    rewrite scatter_nth.
    + rewrite pos_nth; auto.
    + rewrite Forall_forall in Hr. rewrite Hl. apply Hr. apply nth_In. exact Hk.
Qed.

Lemma scatter_gather m p x : is_perm m p -> length x = m -> scatter p (gather p x) = x.
Proof.
  intros Hp Hx. pose proof Hp as (Hl & Hnd & Hr). apply list_eq_nth.
  - rewrite scatter_length. lia.
  - intros k Hk. rewrite scatter_length in Hk. rewrite scatter_nth by exact Hk.
    assert (Hin : In k p) by (apply (is_perm_In m); auto; lia).
    rewrite gather_nth by (apply pos_lt; exact Hin). rewrite nth_pos by exact Hin. reflexivity.
Qed.

Lemma argsort_length p : length (argsort p) = length p.
Proof. unfold argsort. rewrite map_length, seq_length. reflexivity. Qed.

(* reading through transpose(argsort perm) is gathering along perm *)
Lemma gather_argsort p (y : list N) : gather (argsort p) y = scatter p y.
Proof. unfold gather, argsort, scatter. rewrite map_map. reflexivity. Qed.

Lemma pos_seq j m : (j < m)%nat -> pos j (seq 0 m) = j.
Proof.
  intros H. pose proof (pos_nth (seq 0 m) j 0%nat (seq_NoDup m 0)) as P.
  rewrite seq_length in P. specialize (P H). rewrite seq_nth in P by exact H. exact P.
Qed.

Lemma pos_map_inj (f : nat -> nat) l a :
  (forall x y, In x l -> In y l -> f x = f y -> x = y) -> In a l -> pos (f a) (map f l) = pos a l.
Proof.
  induction l as [|y l IH]; intros Hinj Ha; [destruct Ha|]. simpl.
  destruct (Nat.eqb a y) eqn:E.
  - apply Nat.eqb_eq in E. subst. rewrite Nat.eqb_refl. reflexivity.
  - apply Nat.eqb_neq in E.
    assert (Ha' : In a l) by (destruct Ha as [Ha|Ha]; [congruence | exact Ha]).
    destruct (Nat.eqb (f a) (f y)) eqn:E2.
    + apply Nat.eqb_eq in E2. exfalso. apply E. apply Hinj.
      * right. exact Ha'.
      * left. reflexivity.
      * exact E2.
    + f_equal. apply IH; [|exact Ha'].
      intros x z Hx Hz. apply Hinj; right; assumption.
Qed.

Lemma pos_argsort m p j : is_perm m p -> (j < m)%nat -> pos j (argsort p) = nth j p 0%nat.
Proof.
  intros Hp Hj. pose proof Hp as (Hl & Hnd & Hr).
  assert (Hv : (nth j p 0 < m)%nat).
  { rewrite Forall_forall in Hr. apply Hr. apply nth_In. lia. }
  unfold argsort. rewrite Hl.
  rewrite <- (pos_nth p j 0%nat Hnd) at 1 by lia.
  rewrite (pos_map_inj (fun v => pos v p) (seq 0 m) (nth j p 0%nat)).
  - apply pos_seq. exact Hv.
  - intros x y Hx Hy Hxy. apply in_seq in Hx, Hy.
    rewrite <- (nth_pos x p 0%nat), <- (nth_pos y p 0%nat); [rewrite Hxy; reflexivity | |];
      apply (is_perm_In m); auto; lia.
  - apply in_seq. lia.
Qed.

Lemma scatter_argsort m p (x : list N) : is_perm m p -> scatter (argsort p) x = gather p x.
Proof.
  intros Hp. pose proof Hp as (Hl & Hnd & Hr). apply list_eq_nth.
  - rewrite scatter_length, argsort_length, gather_length. reflexivity.
  - intros k Hk. rewrite scatter_length, argsort_length in Hk.
    rewrite scatter_nth by (rewrite argsort_length; exact Hk).
    rewrite (pos_argsort m) by (auto; lia). rewrite gather_nth by exact Hk. reflexivity.
Qed.

(* transpose by perm then by argsort perm restores the shape *)
Lemma gather_argsort_gather m p (sh : list N) : is_perm m p -> length sh = m -> gather (argsort p) (gather p sh) = sh.
Proof. intros Hp Hl. rewrite gather_argsort. apply (scatter_gather m); auto. Qed.

(* reading a concatenation through a split permutation *)
Lemma scatter_split pA pB (x y : list N) j :
  length x = length pA -> (j < length (pA ++ pB))%nat ->
  nth j (scatter (pA ++ pB) (x ++ y)) 0 =
  if memb j pA then nth (pos j pA) x 0 else nth (pos j pB) y 0.
Proof.
  intros Hx Hj. rewrite scatter_nth by exact Hj.
  destruct (memb j pA) eqn:E.
  - apply memb_In in E. rewrite pos_app_l by exact E. apply app_nth1. rewrite Hx. apply pos_lt. exact E.
  - apply memb_false in E. rewrite pos_app_r by exact E. rewrite app_nth2 by lia. f_equal. lia.
Qed.

Lemma upd_length i ps kd : length (upd i ps kd) = length i.
Proof. unfold upd. rewrite map_length, seq_length. reflexivity. Qed.

Lemma upd_nth i ps kd q : (q < length i)%nat ->
  nth q (upd i ps kd) 0 = if memb q ps then nth (pos q ps) kd 0 else nth q i 0.
Proof.
  intros H. unfold upd. rewrite (map_nth_d _ _ _ _ 0%nat) by (rewrite seq_length; exact H).
  rewrite seq_nth by exact H. reflexivity.
Qed.

(* transposing back a block-updated index *)
Lemma scatter_upd_left m pA pB idx kd :
  is_perm m (pA ++ pB) -> length idx = m -> length kd = length pA ->
  scatter (pA ++ pB) (kd ++ gather pB idx) = upd idx pA kd.
Proof.
  intros Hp Hi Hk. pose proof Hp as (Hl & Hnd & Hr). apply list_eq_nth.
  - rewrite scatter_length, upd_length. lia.
  - intros j Hj. rewrite scatter_length in Hj. rewrite scatter_split by auto.
    rewrite upd_nth by lia. destruct (memb j pA) eqn:E; auto.
    apply memb_false in E.
    assert (Hin : In j pB).
    { assert (H : In j (pA ++ pB)) by (apply (is_perm_In m); auto; lia).
      apply in_app_or in H as [H|H]; [contradiction | exact H]. }
    rewrite gather_nth by (apply pos_lt; exact Hin). rewrite nth_pos by exact Hin. reflexivity.
Qed.

Lemma NoDup_app_disj {A} (a b : list A) x : NoDup (a ++ b) -> In x a -> In x b -> False.
Proof.
  induction a as [|y a IH]; intros Hnd Ha Hb; [destruct Ha|].
  simpl in Hnd. inversion Hnd as [|? ? Hy Hnd']; subst.
  destruct Ha as [->|Ha]; [apply Hy; apply in_or_app; right; exact Hb | exact (IH Hnd' Ha Hb)].
Qed.

Lemma scatter_upd_right m pA pB idx kd :
  is_perm m (pA ++ pB) -> length idx = m -> length kd = length pB ->
  scatter (pA ++ pB) (gather pA idx ++ kd) = upd idx pB kd.
Proof.
  intros Hp Hi Hk. pose proof Hp as (Hl & Hnd & Hr). apply list_eq_nth.
  - rewrite scatter_length, upd_length. lia.
  - intros j Hj. rewrite scatter_length in Hj.
    rewrite scatter_split by (auto; apply gather_length).
    rewrite upd_nth by lia.
    assert (Hin : In j (pA ++ pB)) by (apply (is_perm_In m); auto; lia).
    destruct (memb j pA) eqn:E.
    + apply memb_In in E.
      assert (HnB : memb j pB = false).
      { apply memb_false. intros HB. exact (NoDup_app_disj pA pB j Hnd E HB). }
      rewrite HnB.
      rewrite gather_nth by (apply pos_lt; exact E). rewrite nth_pos by exact E. reflexivity.
    + apply memb_false in E. apply in_app_or in Hin as [Hin|Hin]; [contradiction|].
      apply memb_In in Hin. rewrite Hin. reflexivity.
Qed.

Lemma valid_gather sh idx ps :
  valid sh idx -> Forall (fun x => (x < length sh)%nat) ps -> valid (gather ps sh) (gather ps idx).
Proof.
  intros Hv Hr. apply valid_nth in Hv as [Hl Hn]. apply valid_nth. rewrite !gather_length. split; auto.
  intros q Hq. rewrite !gather_nth by exact Hq. apply Hn.
  rewrite Forall_forall in Hr. apply Hr. apply nth_In. exact Hq.
Qed.

Lemma allpos_gather sh ps : allpos sh -> Forall (fun x => (x < length sh)%nat) ps -> allpos (gather ps sh).
Proof.
  intros Hp Hr. unfold allpos, gather in *. rewrite Forall_map. rewrite Forall_forall in Hr. rewrite Forall_forall in Hp.
  apply Forall_forall. intros x Hx. apply Hp. apply nth_In. apply Hr. exact Hx.
Qed.

Lemma unflatten2 a b r c : c < b -> unflatten [a; b] (r * b + c) = [r; c].
Proof.
  intros H. change (unflatten [a; b] (r * b + c)) with (unflatten [r + 1; b] (r * b + c)).
  rewrite <- (flatten2 (r + 1) b r c). apply unflatten_flatten. apply valid2. lia.
Qed.

(* ================================================================== sums over a ring *)
Section RingThm.
Variable R : Type.
Variables (r0 r1 : R) (radd rmul rsub : R -> R -> R) (ropp : R -> R) (rconj : R -> R).
Hypothesis Rth : ring_theory r0 r1 radd rmul rsub ropp (@eq R).
Add Ring Rring : Rth.

Local Notation "a +! b" := (radd a b) (at level 50, left associativity).
Local Notation "a *! b" := (rmul a b) (at level 40, left associativity).
Local Notation rsum := (rsum R r0 radd).
Local Notation nd_matmul := (nd_matmul R r0 radd rmul).
Local Notation nd_transpose := (nd_transpose R).
Local Notation nd_reshape := (nd_reshape R).
Local Notation nd_reshape_left := (nd_reshape_left R).
Local Notation nd_reshape_right := (nd_reshape_right R).
Local Notation nd_eq := (nd_eq R).
Local Notation embed := (embed R r0).

Lemma rsum_app a b : rsum (a ++ b) = rsum a +! rsum b.
Proof. induction a as [|x a IH]; simpl; [ring | rewrite IH; ring]. Qed.

Lemma rsum_perm a b : Permutation a b -> rsum a = rsum b.
Proof. induction 1; simpl; try ring; [rewrite IHPermutation; ring | congruence]. Qed.

Lemma rsum_ext {A} (f g : A -> R) l : (forall x, In x l -> f x = g x) -> rsum (map f l) = rsum (map g l).
Proof. intros H. f_equal. apply map_ext_in. exact H. Qed.

Lemma rsum_zero {A} (f : A -> R) l : (forall x, In x l -> f x = r0) -> rsum (map f l) = r0.
Proof. induction l as [|x l IH]; intros H; simpl; [reflexivity|]. rewrite H by (left; auto). rewrite IH; [ring|]. intros y Hy. apply H. right. auto. Qed.

Lemma rsum_filter {A} (P : A -> bool) (g : A -> R) l :
  rsum (map (fun x => if P x then g x else r0) l) = rsum (map g (filter P l)).
Proof. induction l as [|x l IH]; simpl; [reflexivity|]. destruct (P x); simpl; rewrite IH; ring. Qed.

Lemma rsum_mul_l c (l : list R) : c *! rsum l = rsum (map (fun x => c *! x) l).
Proof. induction l as [|x l IH]; simpl; [ring | rewrite <- IH; ring]. Qed.

Lemma rsum_mul_r c (l : list R) : rsum l *! c = rsum (map (fun x => x *! c) l).
Proof. induction l as [|x l IH]; simpl; [ring | rewrite <- IH; ring]. Qed.

Lemma rsum_add {A} (f g : A -> R) l : rsum (map (fun x => f x +! g x) l) = rsum (map f l) +! rsum (map g l).
Proof. induction l as [|x l IH]; simpl; [ring | rewrite IH; ring]. Qed.

Lemma rsum_swap {A B} (f : A -> B -> R) la lb :
  rsum (map (fun a => rsum (map (fun b => f a b) lb)) la) = rsum (map (fun b => rsum (map (fun a => f a b) la)) lb).
Proof.
  induction la as [|a la IH]; simpl.
  - symmetry. apply rsum_zero. auto.
  - rewrite IH. rewrite <- rsum_add. reflexivity.
Qed.

(* a sum with a single selected term *)
Lemma rsum_single {A} (eqb : A -> A -> bool) (f : A -> R) l k0 :
  (forall a b, eqb a b = true <-> a = b) -> NoDup l -> In k0 l ->
  rsum (map (fun k => if eqb k k0 then f k else r0) l) = f k0.
Proof.
  intros He. induction l as [|x l IH]; intros Hnd Hin; [destruct Hin|].
  inversion Hnd as [|? ? Hx Hnd']; subst. simpl. destruct Hin as [->|Hin].
  - assert (E : eqb k0 k0 = true) by (apply He; reflexivity). rewrite E.
    rewrite rsum_zero; [ring|]. intros y Hy. destruct (eqb y k0) eqn:E2; auto.
    apply He in E2. subst. contradiction.
  - destruct (eqb x k0) eqn:E; [apply He in E; subst; contradiction|]. rewrite IH by auto. ring.
Qed.

(* ================================================================== the generic contraction *)
Lemma is_perm_split m pA pB (sh : list N) : is_perm m (pA ++ pB) -> length sh = m ->
  Forall (fun x => (x < length sh)%nat) pA /\ Forall (fun x => (x < length sh)%nat) pB.
Proof. intros (Hl & Hnd & Hr) Hs. rewrite Hs. apply Forall_app in Hr. exact Hr. Qed.

Lemma at_transpose ax (T : nd R) i : at_ (nd_transpose ax T) i = at_ T (scatter ax i).
Proof. reflexivity. Qed.
Lemma shape_transpose ax (T : nd R) : shape (nd_transpose ax T) = gather ax (shape T).
Proof. reflexivity. Qed.
Lemma at_reshape sh' (T : nd R) i : at_ (nd_reshape sh' T) i = at_ T (unflatten (shape T) (flatten sh' i)).
Proof. reflexivity. Qed.
Lemma shape_reshape sh' (T : nd R) : shape (nd_reshape sh' T) = sh'.
Proof. reflexivity. Qed.
Lemma at_reshape_left ld (T : nd R) i :
  at_ (nd_reshape_left ld T) i = at_ T (unflatten (shape T) (flatten [ld; prodN (shape T) / ld] i)).
Proof. reflexivity. Qed.
Lemma shape_reshape_left ld (T : nd R) : shape (nd_reshape_left ld T) = [ld; prodN (shape T) / ld].
Proof. reflexivity. Qed.
Lemma at_reshape_right rd (T : nd R) i :
  at_ (nd_reshape_right rd T) i = at_ T (unflatten (shape T) (flatten [prodN (shape T) / rd; rd] i)).
Proof. reflexivity. Qed.
Lemma shape_reshape_right rd (T : nd R) : shape (nd_reshape_right rd T) = [prodN (shape T) / rd; rd].
Proof. reflexivity. Qed.
Lemma at_matmul (A B : nd R) r c :
  at_ (nd_matmul A B) [r; c] = rsum (map (fun x => at_ A [r; x] *! at_ B [x; c]) (Nseq (nth 1 (shape A) 0))).
Proof. reflexivity. Qed.
Lemma shape_matmul (A B : nd R) : shape (nd_matmul A B) = [nth 0 (shape A) 0; nth 1 (shape B) 0].
Proof. reflexivity. Qed.

(* tensor.transpose(perm).reshape((ld,-1)); U @ .; .reshape(shape[perm]).transpose(argsort(perm)) *)
Lemma contract_left_at m pA pB (sh : list N) (T U : nd R) idx :
  is_perm m (pA ++ pB) -> length sh = m -> allpos sh -> shape T = sh ->
  nth 1 (shape U) 0 = prodN (gather pA sh) ->
  valid sh idx ->
  at_ (nd_transpose (argsort (pA ++ pB)) (nd_reshape (gather (pA ++ pB) sh)
        (nd_matmul U (nd_reshape_left (prodN (gather pA sh)) (nd_transpose (pA ++ pB) T))))) idx
  = rsum (map (fun k => at_ U [flatten (gather pA sh) (gather pA idx); k]
                        *! at_ T (upd idx pA (unflatten (gather pA sh) k)))
              (Nseq (prodN (gather pA sh)))).
Proof.
  intros Hp Hl Hpos HT HU Hv.
  destruct (is_perm_split m pA pB sh Hp Hl) as [HrA HrB].
  pose proof (valid_length _ _ Hv) as Hli.
  set (shA := gather pA sh) in *. set (shB := gather pB sh).
  assert (HposA : allpos shA) by (apply allpos_gather; auto).
  assert (HposB : allpos shB) by (apply allpos_gather; auto).
  pose proof (prodN_pos _ HposA) as HpA. pose proof (prodN_pos _ HposB) as HpB.
  assert (HvA : valid shA (gather pA idx)) by (apply valid_gather; auto).
  assert (HvB : valid shB (gather pB idx)) by (apply valid_gather; auto).
  assert (Hrest : prodN (gather (pA ++ pB) sh) / prodN shA = prodN shB).
  { rewrite gather_app, prodN_app. fold shA shB. rewrite N.mul_comm, N.div_mul; [reflexivity | lia]. }
  rewrite at_transpose, (scatter_argsort m) by exact Hp.
  rewrite at_reshape, shape_matmul, shape_reshape_left, shape_transpose, HT. cbn [nth].
  rewrite Hrest. rewrite !gather_app. fold shA shB.
  rewrite flatten_app by (rewrite gather_length; unfold shA; rewrite gather_length; reflexivity).
  rewrite unflatten2 by (apply flatten_lt; exact HvB).
  rewrite at_matmul, HU. apply rsum_ext. intros k Hk. apply Nseq_In in Hk. f_equal.
  rewrite at_reshape_left, shape_transpose, HT, at_transpose, Hrest, flatten2.
  rewrite <- (flatten_unflatten shA k HposA Hk) at 1.
  rewrite gather_app. fold shA shB.
  rewrite <- flatten_app by (rewrite unflatten_length; reflexivity).
  rewrite unflatten_flatten by (apply valid_app; [apply unflatten_valid; auto | exact HvB]).
  f_equal. apply (scatter_upd_left m); [exact Hp | lia | ].
  rewrite unflatten_length. unfold shA. apply gather_length.
Qed.

(* tensor.transpose(perm).reshape((-1,rd)); . @ U; .reshape(shape[perm]).transpose(argsort(perm)) *)
Lemma contract_right_at m pA pB (sh : list N) (T U : nd R) idx :
  is_perm m (pA ++ pB) -> length sh = m -> allpos sh -> shape T = sh ->
  nth 1 (shape U) 0 = prodN (gather pB sh) ->
  valid sh idx ->
  at_ (nd_transpose (argsort (pA ++ pB)) (nd_reshape (gather (pA ++ pB) sh)
        (nd_matmul (nd_reshape_right (prodN (gather pB sh)) (nd_transpose (pA ++ pB) T)) U))) idx
  = rsum (map (fun k => at_ T (upd idx pB (unflatten (gather pB sh) k))
                        *! at_ U [k; flatten (gather pB sh) (gather pB idx)])
              (Nseq (prodN (gather pB sh)))).
Proof.
  intros Hp Hl Hpos HT HU Hv.
  destruct (is_perm_split m pA pB sh Hp Hl) as [HrA HrB].
  pose proof (valid_length _ _ Hv) as Hli.
  set (shA := gather pA sh). set (shB := gather pB sh) in *.
  assert (HposA : allpos shA) by (apply allpos_gather; auto).
  assert (HposB : allpos shB) by (apply allpos_gather; auto).
  pose proof (prodN_pos _ HposA) as HpA. pose proof (prodN_pos _ HposB) as HpB.
  assert (HvA : valid shA (gather pA idx)) by (apply valid_gather; auto).
  assert (HvB : valid shB (gather pB idx)) by (apply valid_gather; auto).
  rewrite at_transpose, (scatter_argsort m) by exact Hp.
  rewrite at_reshape, shape_matmul, shape_reshape_right, shape_transpose, HT. cbn [nth].
  rewrite HU. rewrite !gather_app. fold shA shB.
  rewrite flatten_app by (rewrite gather_length; unfold shA; rewrite gather_length; reflexivity).
  rewrite unflatten2 by (apply flatten_lt; exact HvB).
  rewrite at_matmul, shape_reshape_right. cbn [nth].
  apply rsum_ext. intros k Hk. apply Nseq_In in Hk. f_equal.
  rewrite at_reshape_right, shape_transpose, HT, at_transpose, flatten2.
  rewrite <- (flatten_unflatten shB k HposB Hk) at 1.
  rewrite gather_app. fold shA shB.
  rewrite <- flatten_app by (rewrite gather_length; unfold shA; rewrite gather_length; reflexivity).
  rewrite unflatten_flatten by (apply valid_app; [exact HvA | apply unflatten_valid; auto]).
  f_equal. apply (scatter_upd_right m); [exact Hp | lia | ].
  rewrite unflatten_length. unfold shB. apply gather_length.
Qed.

(* ================================================================== block updates of a multi-index *)
Lemma idx_eqb_eq a b : idx_eqb a b = true <-> a = b.
Proof.
  revert b. induction a as [|x a IH]; intros [|y b]; simpl; split; intros H; try discriminate; auto.
  - apply andb_true_iff in H as [H1 H2]. apply N.eqb_eq in H1. apply IH in H2. congruence.
  - inversion H; subst. apply andb_true_iff. split; [apply N.eqb_refl | apply IH; reflexivity].
Qed.

Lemma complement_In n loc q : In q (complement n loc) <-> (q < n)%nat /\ ~ In q loc.
Proof.
  unfold complement. rewrite filter_In, in_seq, negb_true_iff, memb_false. intuition lia.
Qed.

Lemma complement_NoDup n loc : NoDup (complement n loc).
Proof. unfold complement. apply NoDup_filter. apply seq_NoDup. Qed.

Lemma upd_gather_same i ps kd :
  NoDup ps -> Forall (fun x => (x < length i)%nat) ps -> length kd = length ps -> gather ps (upd i ps kd) = kd.
Proof.
  intros Hnd Hr Hl. apply list_eq_nth.
  - rewrite gather_length. lia.
  - intros k Hk. rewrite gather_length in Hk. rewrite gather_nth by exact Hk.
    assert (Hin : In (nth k ps 0%nat) ps) by (apply nth_In; exact Hk).
    rewrite upd_nth by (rewrite Forall_forall in Hr; apply Hr; exact Hin).
    apply memb_In in Hin. rewrite Hin. rewrite pos_nth by auto. reflexivity.
Qed.

Lemma upd_gather_other i ps qs kd :
  (forall q, In q qs -> ~ In q ps) -> Forall (fun x => (x < length i)%nat) qs -> gather qs (upd i ps kd) = gather qs i.
Proof.
  intros Hd Hr. apply list_eq_nth.
  - rewrite !gather_length. reflexivity.
  - intros k Hk. rewrite gather_length in Hk. rewrite !gather_nth by exact Hk.
    assert (Hin : In (nth k qs 0%nat) qs) by (apply nth_In; exact Hk).
    rewrite upd_nth by (rewrite Forall_forall in Hr; apply Hr; exact Hin).
    specialize (Hd _ Hin). apply memb_false in Hd. rewrite Hd. reflexivity.
Qed.

Lemma upd_valid sh i ps kd :
  valid sh i -> NoDup ps -> Forall (fun x => (x < length sh)%nat) ps -> valid (gather ps sh) kd ->
  valid sh (upd i ps kd).
Proof.
  intros Hv Hnd Hr Hk. apply valid_nth in Hv as [Hl Hn]. apply valid_nth in Hk as [Hlk Hnk].
  rewrite gather_length in Hlk, Hnk.
  apply valid_nth. rewrite upd_length. split; auto.
  intros q Hq. rewrite upd_nth by lia. destruct (memb q ps) eqn:E; [|apply Hn; exact Hq].
  apply memb_In in E. specialize (Hnk (pos q ps) (pos_lt _ _ E)).
  rewrite gather_nth in Hnk by (apply pos_lt; exact E). rewrite nth_pos in Hnk by exact E. exact Hnk.
Qed.

Lemma upd_self i j ps :
  length j = length i -> (forall q, (q < length i)%nat -> ~ In q ps -> nth q j 0 = nth q i 0) ->
  upd i ps (gather ps j) = j.
Proof.
  intros Hl H. apply list_eq_nth.
  - rewrite upd_length. lia.
  - intros q Hq. rewrite upd_length in Hq. rewrite upd_nth by exact Hq.
    destruct (memb q ps) eqn:E.
    + apply memb_In in E. rewrite gather_nth by (apply pos_lt; exact E). rewrite nth_pos by exact E. reflexivity.
    + apply memb_false in E. symmetry. apply H; auto.
Qed.

Lemma gather_complement_eq n loc (i j : list N) :
  gather (complement n loc) i = gather (complement n loc) j ->
  forall q, (q < n)%nat -> ~ In q loc -> nth q i 0 = nth q j 0.
Proof.
  intros H q Hq Hn.
  assert (Hin : In q (complement n loc)) by (apply complement_In; auto).
  pose proof (pos_lt _ _ Hin) as Hp.
  pose proof (gather_nth (complement n loc) i _ Hp) as H1.
  pose proof (gather_nth (complement n loc) j _ Hp) as H2.
  rewrite nth_pos in H1, H2 by exact Hin. rewrite <- H1, <- H2, H. reflexivity.
Qed.

(* the sum over all row indices that agree with i off loc is the sum over the digits at loc *)
Lemma collapse radixes loc i (G : list N -> R) :
  allpos radixes -> NoDup loc -> Forall (fun x => (x < length radixes)%nat) loc -> valid radixes i ->
  rsum (map (fun x => if idx_eqb (gather (complement (length radixes) loc) i)
                                 (gather (complement (length radixes) loc) (unflatten radixes x))
                      then G (unflatten radixes x) else r0) (Nseq (prodN radixes)))
  = rsum (map (fun k => G (upd i loc (unflatten (gather loc radixes) k))) (Nseq (prodN (gather loc radixes)))).
Proof.
  intros Hpos Hnd Hr Hv. set (n := length radixes). set (rest := complement n loc). set (shl := gather loc radixes).
  pose proof (valid_length _ _ Hv) as Hli.
  assert (HposL : allpos shl) by (apply allpos_gather; auto).
  assert (Hrest : Forall (fun x => (x < length radixes)%nat) rest).
  { apply Forall_forall. intros q Hq. apply complement_In in Hq. tauto. }
  transitivity (rsum (map G (filter (fun j => idx_eqb (gather rest i) (gather rest j)) (all_idx radixes)))).
  { rewrite <- rsum_filter. unfold all_idx. rewrite map_map. reflexivity. }
  transitivity (rsum (map G (map (upd i loc) (all_idx shl)))).
  2:{ unfold all_idx. rewrite !map_map. reflexivity. }
  apply rsum_perm. apply Permutation_map. apply NoDup_Permutation.
  - apply NoDup_filter. apply all_idx_NoDup. exact Hpos.
  - apply NoDup_map_inj_in; [|apply all_idx_NoDup; exact HposL].
    intros a b Ha Hb E. apply all_idx_In in Ha, Hb; auto.
    apply valid_length in Ha, Hb. unfold shl in Ha, Hb. rewrite gather_length in Ha, Hb.
    rewrite <- (upd_gather_same i loc a), <- (upd_gather_same i loc b); auto; try (rewrite Hli; exact Hr).
    rewrite E. reflexivity.
  - intros j. rewrite filter_In, in_map_iff. split.
    + intros [Hj HP]. apply all_idx_In in Hj; auto. apply idx_eqb_eq in HP.
      exists (gather loc j). split.
      * apply upd_self; [rewrite (valid_length _ _ Hj); lia|].
        intros q Hq Hn. symmetry. apply (gather_complement_eq n loc); auto. unfold n. lia.
      * apply all_idx_In; auto. apply valid_gather; auto.
    + intros [kd [<- Hk]]. apply all_idx_In in Hk; auto. split.
      * apply all_idx_In; auto. apply upd_valid; auto.
      * apply idx_eqb_eq. symmetry. apply upd_gather_other; [|rewrite Hli; exact Hrest].
        intros q Hq. apply complement_In in Hq. tauto.
Qed.

(* ================================================================== embed: row and column sums *)
Definition wf_loc (n : nat) (loc : list nat) : Prop := NoDup loc /\ Forall (fun x => (x < n)%nat) loc.

Lemma if_mul_l (b : bool) u t : (if b then u else r0) *! t = if b then u *! t else r0.
Proof. destruct b; ring. Qed.
Lemma if_mul_r (b : bool) u t : t *! (if b then u else r0) = if b then t *! u else r0.
Proof. destruct b; ring. Qed.

Lemma idx_eqb_sym a b : idx_eqb a b = idx_eqb b a.
Proof.
  destruct (idx_eqb a b) eqn:E1, (idx_eqb b a) eqn:E2; auto.
  - apply idx_eqb_eq in E1. subst. assert (H : idx_eqb b b = true) by (apply idx_eqb_eq; reflexivity). congruence.
  - apply idx_eqb_eq in E2. subst. assert (H : idx_eqb a a = true) by (apply idx_eqb_eq; reflexivity). congruence.
Qed.

Lemma at_embed radixes loc (U : nd R) r c :
  at_ (embed radixes loc U) [r; c] =
  if idx_eqb (gather (complement (length radixes) loc) (unflatten radixes r))
             (gather (complement (length radixes) loc) (unflatten radixes c))
  then at_ U [flatten (gather loc radixes) (gather loc (unflatten radixes r));
              flatten (gather loc radixes) (gather loc (unflatten radixes c))]
  else r0.
Proof. reflexivity. Qed.

Lemma shape_embed radixes loc (U : nd R) : shape (embed radixes loc U) = [prodN radixes; prodN radixes].
Proof. reflexivity. Qed.

Lemma embed_row_sum radixes loc (U : nd R) r (F : N -> R) :
  allpos radixes -> wf_loc (length radixes) loc -> r < prodN radixes ->
  rsum (map (fun x => at_ (embed radixes loc U) [r; x] *! F x) (Nseq (prodN radixes))) =
  rsum (map (fun k => at_ U [flatten (gather loc radixes) (gather loc (unflatten radixes r)); k]
                      *! F (flatten radixes (upd (unflatten radixes r) loc (unflatten (gather loc radixes) k))))
            (Nseq (prodN (gather loc radixes)))).
Proof.
  intros Hpos [Hnd Hr] Hlt. set (i := unflatten radixes r). set (shl := gather loc radixes).
  assert (Hvi : valid radixes i) by (apply unflatten_valid; auto).
  pose proof (valid_length _ _ Hvi) as Hli.
  assert (HposL : allpos shl) by (apply allpos_gather; auto).
  pose (G := fun j' => at_ U [flatten shl (gather loc i); flatten shl (gather loc j')] *! F (flatten radixes j')).
  transitivity (rsum (map (fun x =>
      if idx_eqb (gather (complement (length radixes) loc) i) (gather (complement (length radixes) loc) (unflatten radixes x))
      then G (unflatten radixes x) else r0) (Nseq (prodN radixes)))).
  { apply rsum_ext. intros x Hx. apply Nseq_In in Hx. rewrite at_embed, if_mul_l. fold i shl. unfold G.
    rewrite flatten_unflatten by auto. reflexivity. }
  rewrite (collapse radixes loc i G) by auto. fold shl.
  apply rsum_ext. intros k Hk. apply Nseq_In in Hk. unfold G.
  rewrite upd_gather_same; [| exact Hnd | rewrite Hli; exact Hr | rewrite unflatten_length; unfold shl; apply gather_length].
  rewrite flatten_unflatten by auto. reflexivity.
Qed.

Lemma embed_col_sum radixes loc (U : nd R) c (F : N -> R) :
  allpos radixes -> wf_loc (length radixes) loc -> c < prodN radixes ->
  rsum (map (fun x => F x *! at_ (embed radixes loc U) [x; c]) (Nseq (prodN radixes))) =
  rsum (map (fun k => F (flatten radixes (upd (unflatten radixes c) loc (unflatten (gather loc radixes) k)))
                      *! at_ U [k; flatten (gather loc radixes) (gather loc (unflatten radixes c))])
            (Nseq (prodN (gather loc radixes)))).
Proof.
  intros Hpos [Hnd Hr] Hlt. set (j := unflatten radixes c). set (shl := gather loc radixes).
  assert (Hvj : valid radixes j) by (apply unflatten_valid; auto).
  pose proof (valid_length _ _ Hvj) as Hlj.
  assert (HposL : allpos shl) by (apply allpos_gather; auto).
  pose (G := fun j' => F (flatten radixes j') *! at_ U [flatten shl (gather loc j'); flatten shl (gather loc j)]).
  transitivity (rsum (map (fun x =>
      if idx_eqb (gather (complement (length radixes) loc) j) (gather (complement (length radixes) loc) (unflatten radixes x))
      then G (unflatten radixes x) else r0) (Nseq (prodN radixes)))).
  { apply rsum_ext. intros x Hx. apply Nseq_In in Hx. rewrite at_embed, if_mul_r. fold j shl. unfold G.
    rewrite flatten_unflatten by auto. rewrite idx_eqb_sym. reflexivity. }
  rewrite (collapse radixes loc j G) by auto. fold shl.
  apply rsum_ext. intros k Hk. apply Nseq_In in Hk. unfold G.
  rewrite upd_gather_same; [| exact Hnd | rewrite Hlj; exact Hr | rewrite unflatten_length; unfold shl; apply gather_length].
  rewrite flatten_unflatten by auto. reflexivity.
Qed.

(* ================================================================== the permutations built by the code *)
Lemma NoDup_app_intro {A} (a b : list A) :
  NoDup a -> NoDup b -> (forall x, In x a -> ~ In x b) -> NoDup (a ++ b).
Proof.
  induction a as [|x a IH]; intros Ha Hb Hd; simpl; auto.
  inversion Ha as [|? ? Hx Ha']; subst. constructor.
  - intros Hin. apply in_app_or in Hin as [Hin|Hin]; [contradiction|]. apply (Hd x); [left; auto | exact Hin].
  - apply IH; auto. intros y Hy. apply Hd. right. exact Hy.
Qed.

Lemma loc_complement_perm n loc : wf_loc n loc -> Permutation (loc ++ complement n loc) (seq 0 n).
Proof.
  intros [Hnd Hr]. rewrite Forall_forall in Hr. apply NoDup_Permutation.
  - apply NoDup_app_intro; auto; [apply complement_NoDup|]. intros x Hx Hc. apply complement_In in Hc. tauto.
  - apply seq_NoDup.
  - intros x. rewrite in_app_iff, complement_In, in_seq. split.
    + intros [H|H]; [specialize (Hr x H); lia | lia].
    + intros H. destruct (in_dec Nat.eq_dec x loc); [left; auto | right; split; [lia | auto]].
Qed.

Lemma loc_complement_length n loc : wf_loc n loc -> (length loc + length (complement n loc) = n)%nat.
Proof. intros H. apply loc_complement_perm, Permutation_length in H. rewrite app_length, seq_length in H. exact H. Qed.

Lemma is_perm_of_Permutation m p : Permutation p (seq 0 m) -> is_perm m p.
Proof.
  intros H. split; [|split].
  - apply Permutation_length in H. rewrite seq_length in H. exact H.
  - apply (Permutation_NoDup (Permutation_sym H)). apply seq_NoDup.
  - apply Forall_forall. intros x Hx. apply (Permutation_in _ H) in Hx. apply in_seq in Hx. lia.
Qed.

Lemma shift_seq_gen k s len : map (fun x => (x + k)%nat) (seq s len) = seq (s + k) len.
Proof. revert s. induction len as [|len IH]; intros s; simpl; [reflexivity|]. f_equal. apply (IH (S s)). Qed.

Lemma shift_seq n : map (fun x => (x + n)%nat) (seq 0 n) = seq n n.
Proof. apply (shift_seq_gen n 0 n). Qed.

(* perm of apply_right / eval_apply_right: location ++ others ++ all column axes *)
Lemma perm_right_is_perm n loc : wf_loc n loc ->
  is_perm (n + n) (loc ++ complement n loc ++ map (fun x => (x + n)%nat) (seq 0 n)).
Proof.
  intros Hw. apply is_perm_of_Permutation. rewrite app_assoc, shift_seq.
  rewrite seq_app. apply Permutation_app; [apply loc_complement_perm; exact Hw | apply Permutation_refl].
Qed.

(* perm of apply_left: all row axes ++ other column axes ++ location column axes *)
Lemma perm_left_is_perm n loc : wf_loc n loc ->
  is_perm (n + n) ((seq 0 n ++ map (fun x => (x + n)%nat) (complement n loc)) ++ map (fun x => (x + n)%nat) loc).
Proof.
  intros Hw. apply is_perm_of_Permutation. rewrite <- app_assoc, <- map_app, seq_app.
  apply Permutation_app; [apply Permutation_refl|]. rewrite <- shift_seq. apply Permutation_map.
  eapply Permutation_trans; [apply Permutation_app_comm | apply loc_complement_perm; exact Hw].
Qed.

Lemma gather_app_l ps (a b : list N) : Forall (fun x => (x < length a)%nat) ps -> gather ps (a ++ b) = gather ps a.
Proof.
  intros H. unfold gather. apply map_ext_in. intros x Hx. rewrite Forall_forall in H. apply app_nth1. apply H. exact Hx.
Qed.

Lemma gather_shift_r n ps (a b : list N) : length a = n -> gather (map (fun x => (x + n)%nat) ps) (a ++ b) = gather ps b.
Proof.
  intros H. unfold gather. rewrite map_map. apply map_ext. intros x. rewrite app_nth2 by lia. f_equal. lia.
Qed.

Lemma memb_shift n x ps : memb (x + n)%nat (map (fun y => (y + n)%nat) ps) = memb x ps.
Proof.
  destruct (memb x ps) eqn:E.
  - apply memb_In. apply memb_In in E. apply in_map_iff. exists x. auto.
  - apply memb_false. apply memb_false in E. intros H. apply in_map_iff in H as [y [Hy Hin]].
    assert (y = x) by lia. subst. contradiction.
Qed.

Lemma pos_shift n x ps : pos (x + n)%nat (map (fun y => (y + n)%nat) ps) = pos x ps.
Proof.
  induction ps as [|y ps IH]; simpl; auto.
  destruct (Nat.eqb x y) eqn:E.
  - apply Nat.eqb_eq in E. subst. rewrite Nat.eqb_refl. reflexivity.
  - apply Nat.eqb_neq in E. assert (E2 : Nat.eqb (x + n) (y + n) = false) by (apply Nat.eqb_neq; lia).
    rewrite E2, IH. reflexivity.
Qed.

Lemma upd_app_l (i j : list N) ps kd :
  Forall (fun x => (x < length i)%nat) ps -> upd (i ++ j) ps kd = upd i ps kd ++ j.
Proof.
  intros Hr. apply list_eq_nth.
  - rewrite upd_length, !app_length, upd_length. reflexivity.
  - intros q Hq. rewrite upd_length in Hq. rewrite upd_nth by exact Hq.
    destruct (Nat.ltb q (length i)) eqn:E.
    + apply Nat.ltb_lt in E. rewrite (app_nth1 (upd i ps kd)) by (rewrite upd_length; exact E).
      rewrite upd_nth by exact E. rewrite app_nth1 by exact E. reflexivity.
    + apply Nat.ltb_ge in E. assert (Hm : memb q ps = false).
      { apply memb_false. intros Hin. rewrite Forall_forall in Hr. specialize (Hr q Hin). lia. }
      rewrite Hm. rewrite (app_nth2 (upd i ps kd)) by (rewrite upd_length; exact E).
      rewrite upd_length. apply app_nth2. exact E.
Qed.

Lemma upd_app_r (i j : list N) ps kd :
  upd (i ++ j) (map (fun x => (x + length i)%nat) ps) kd = i ++ upd j ps kd.
Proof.
  apply list_eq_nth.
  - rewrite upd_length, !app_length, upd_length. reflexivity.
  - intros q Hq. rewrite upd_length in Hq. rewrite upd_nth by exact Hq.
    destruct (Nat.ltb q (length i)) eqn:E.
    + apply Nat.ltb_lt in E. assert (Hm : memb q (map (fun x => (x + length i)%nat) ps) = false).
      { apply memb_false. intros Hin. apply in_map_iff in Hin as [y [Hy _]]. lia. }
      rewrite Hm. rewrite !app_nth1 by exact E. reflexivity.
    + apply Nat.ltb_ge in E. rewrite app_length in Hq.
      assert (Hq' : q = ((q - length i) + length i)%nat) by lia.
      set (t := (q - length i)%nat) in *. clearbody t. subst q.
      rewrite memb_shift, pos_shift. rewrite !(app_nth2 i) by lia.
      replace (t + length i - length i)%nat with t by lia.
      rewrite upd_nth by lia. reflexivity.
Qed.

(* ================================================================== the four pipelines *)
Local Notation apply_right := (apply_right R r0 radd rmul rconj).
Local Notation apply_left := (apply_left R r0 radd rmul rconj).
Local Notation eval_apply_right := (eval_apply_right R r0 radd rmul).
Local Notation sv_apply := (sv_apply R r0 radd rmul rconj).
Local Notation ub_get_unitary := (ub_get_unitary R).
Local Notation nd_dagger := (nd_dagger R rconj).

Lemma apply_right_inverse radixes T U loc :
  apply_right radixes T U loc true = apply_right radixes T (nd_dagger U) loc false.
Proof. reflexivity. Qed.
Lemma apply_left_inverse radixes T U loc :
  apply_left radixes T U loc true = apply_left radixes T (nd_dagger U) loc false.
Proof. reflexivity. Qed.
Lemma sv_apply_inverse radixes v U loc :
  sv_apply radixes v U loc true = sv_apply radixes v (nd_dagger U) loc false.
Proof. reflexivity. Qed.

Lemma apply_right_shape radixes T U loc inv : wf_loc (length radixes) loc ->
  shape (apply_right radixes T U loc inv) = radixes ++ radixes.
Proof.
  intros Hw. unfold Tensor.apply_right. cbv zeta. rewrite shape_transpose, shape_reshape.
  apply (gather_argsort_gather (length radixes + length radixes)).
  - apply perm_right_is_perm. exact Hw.
  - apply app_length.
Qed.

Lemma apply_right_at radixes T U loc idx :
  allpos radixes -> wf_loc (length radixes) loc -> shape T = radixes ++ radixes ->
  nth 1 (shape U) 0 = prodN (gather loc radixes) -> valid (radixes ++ radixes) idx ->
  at_ (apply_right radixes T U loc false) idx =
  rsum (map (fun k => at_ U [flatten (gather loc radixes) (gather loc idx); k]
                      *! at_ T (upd idx loc (unflatten (gather loc radixes) k)))
            (Nseq (prodN (gather loc radixes)))).
Proof.
  intros Hpos Hw HT HU Hv. pose proof Hw as [Hnd Hr].
  assert (Hg : gather loc (radixes ++ radixes) = gather loc radixes) by (apply gather_app_l; exact Hr).
  unfold Tensor.apply_right. cbv zeta. rewrite <- Hg.
  apply (contract_left_at (length radixes + length radixes)); auto.
  - apply perm_right_is_perm. exact Hw.
  - apply app_length.
  - apply allpos_app; auto.
  - rewrite Hg. exact HU.
Qed.

Lemma valid2_inv a b i : valid [a; b] i -> exists r c, i = [r; c] /\ r < a /\ c < b.
Proof.
  intros H. pose proof (valid_length _ _ H) as Hl.
  destruct i as [|r [|c [|? ?]]]; try discriminate. exists r, c. split; auto. apply valid2. exact H.
Qed.

Lemma unflatten_sq radixes r c : allpos radixes -> r < prodN radixes -> c < prodN radixes ->
  unflatten (radixes ++ radixes) (flatten [prodN radixes; prodN radixes] [r; c]) =
  unflatten radixes r ++ unflatten radixes c.
Proof.
  intros Hp Hr Hc. rewrite flatten2.
  rewrite <- (flatten_unflatten radixes r Hp Hr) at 1. rewrite <- (flatten_unflatten radixes c Hp Hc) at 1.
  rewrite <- flatten_app by apply unflatten_length.
  apply unflatten_flatten. apply valid_app; apply unflatten_valid; auto.
Qed.

(* C06 main theorem, right application: the pipeline multiplies the builder's matrix by embed(U) on the left *)
Theorem apply_right_embed radixes T U loc :
  allpos radixes -> wf_loc (length radixes) loc -> shape T = radixes ++ radixes ->
  nth 1 (shape U) 0 = prodN (gather loc radixes) ->
  nd_eq (ub_get_unitary radixes (apply_right radixes T U loc false))
        (nd_matmul (embed radixes loc U) (ub_get_unitary radixes T)).
Proof.
  intros Hpos Hw HT HU. pose proof Hw as [Hnd Hr]. split; [reflexivity|].
  intros i Hi. unfold Tensor.ub_get_unitary in *. rewrite shape_reshape in Hi.
  apply valid2_inv in Hi as (r & c & -> & Hr' & Hc').
  set (ri := unflatten radixes r). set (ci := unflatten radixes c).
  assert (Hvr : valid radixes ri) by (apply unflatten_valid; auto).
  assert (Hvc : valid radixes ci) by (apply unflatten_valid; auto).
  pose proof (valid_length _ _ Hvr) as Hlr.
  rewrite at_reshape, apply_right_shape by exact Hw. rewrite unflatten_sq by auto. fold ri ci.
  rewrite apply_right_at by (auto; apply valid_app; auto).
  rewrite at_matmul, shape_embed. cbn [nth].
  rewrite (embed_row_sum radixes loc U r (fun x => at_ (nd_reshape [prodN radixes; prodN radixes] T) [x; c])) by auto.
  fold ri. apply rsum_ext. intros k Hk. apply Nseq_In in Hk.
  assert (Hvk : valid (gather loc radixes) (unflatten (gather loc radixes) k)).
  { apply unflatten_valid; auto. apply allpos_gather; auto. }
  rewrite gather_app_l by (rewrite Hlr; exact Hr). f_equal.
  rewrite at_reshape, HT.
  assert (Hvu : valid radixes (upd ri loc (unflatten (gather loc radixes) k))) by (apply upd_valid; auto).
  rewrite unflatten_sq; auto; [| apply flatten_lt; exact Hvu].
  rewrite unflatten_flatten by exact Hvu. fold ci.
  rewrite upd_app_l by (rewrite Hlr; exact Hr). reflexivity.
Qed.

Lemma eval_apply_right_eq radixes T M loc :
  eval_apply_right radixes T M loc = ub_get_unitary radixes (apply_right radixes T M loc false).
Proof. reflexivity. Qed.

Theorem eval_apply_right_embed radixes T M loc :
  allpos radixes -> wf_loc (length radixes) loc -> shape T = radixes ++ radixes ->
  nth 1 (shape M) 0 = prodN (gather loc radixes) ->
  nd_eq (eval_apply_right radixes T M loc) (nd_matmul (embed radixes loc M) (ub_get_unitary radixes T)).
Proof. intros. rewrite eval_apply_right_eq. apply apply_right_embed; auto. Qed.

(* ---------------------------------------------------------------- apply_left *)
Lemma apply_left_perm_eq n loc :
  seq 0 n ++ map (fun x => (x + n)%nat) (filter (fun x => negb (memb x loc)) (seq 0 n)) ++ map (fun x => (x + n)%nat) loc
  = (seq 0 n ++ map (fun x => (x + n)%nat) (complement n loc)) ++ map (fun x => (x + n)%nat) loc.
Proof. rewrite app_assoc. reflexivity. Qed.

Lemma apply_left_shape radixes T U loc inv : wf_loc (length radixes) loc ->
  shape (apply_left radixes T U loc inv) = radixes ++ radixes.
Proof.
  intros Hw. unfold Tensor.apply_left. cbv zeta. rewrite shape_transpose, shape_reshape.
  rewrite apply_left_perm_eq.
  apply (gather_argsort_gather (length radixes + length radixes)).
  - apply perm_left_is_perm. exact Hw.
  - apply app_length.
Qed.

Lemma right_dim_eq radixes loc :
  map (fun x => nth (x - length radixes) radixes 0) (map (fun x => (x + length radixes)%nat) loc) = gather loc radixes.
Proof. rewrite map_map. unfold gather. apply map_ext. intros x. f_equal. lia. Qed.

Lemma apply_left_at radixes T U loc idx :
  allpos radixes -> wf_loc (length radixes) loc -> shape T = radixes ++ radixes ->
  nth 1 (shape U) 0 = prodN (gather loc radixes) -> valid (radixes ++ radixes) idx ->
  at_ (apply_left radixes T U loc false) idx =
  rsum (map (fun k => at_ T (upd idx (map (fun x => (x + length radixes)%nat) loc) (unflatten (gather loc radixes) k))
                      *! at_ U [k; flatten (gather loc radixes) (gather (map (fun x => (x + length radixes)%nat) loc) idx)])
            (Nseq (prodN (gather loc radixes)))).
Proof.
  intros Hpos Hw HT HU Hv. pose proof Hw as [Hnd Hr].
  assert (Hg : gather (map (fun x => (x + length radixes)%nat) loc) (radixes ++ radixes) = gather loc radixes)
    by (apply gather_shift_r; reflexivity).
  unfold Tensor.apply_left. cbv zeta. rewrite right_dim_eq, apply_left_perm_eq. rewrite <- Hg.
  apply (contract_right_at (length radixes + length radixes)); auto.
  - apply perm_left_is_perm. exact Hw.
  - apply app_length.
  - apply allpos_app; auto.
  - rewrite Hg. exact HU.
Qed.

(* C06 main theorem, left application: the pipeline multiplies the builder's matrix by embed(U) on the right *)
Theorem apply_left_embed radixes T U loc :
  allpos radixes -> wf_loc (length radixes) loc -> shape T = radixes ++ radixes ->
  nth 1 (shape U) 0 = prodN (gather loc radixes) ->
  nd_eq (ub_get_unitary radixes (apply_left radixes T U loc false))
        (nd_matmul (ub_get_unitary radixes T) (embed radixes loc U)).
Proof.
  intros Hpos Hw HT HU. pose proof Hw as [Hnd Hr]. split; [reflexivity|].
  intros i Hi. unfold Tensor.ub_get_unitary in *. rewrite shape_reshape in Hi.
  apply valid2_inv in Hi as (r & c & -> & Hr' & Hc').
  set (ri := unflatten radixes r). set (ci := unflatten radixes c).
  assert (Hvr : valid radixes ri) by (apply unflatten_valid; auto).
  assert (Hvc : valid radixes ci) by (apply unflatten_valid; auto).
  pose proof (valid_length _ _ Hvr) as Hlr.
  rewrite at_reshape, apply_left_shape by exact Hw. rewrite unflatten_sq by auto. fold ri ci.
  rewrite apply_left_at by (auto; apply valid_app; auto).
  rewrite at_matmul, shape_reshape. cbn [nth].
  rewrite (embed_col_sum radixes loc U c (fun x => at_ (nd_reshape [prodN radixes; prodN radixes] T) [r; x])) by auto.
  fold ci. apply rsum_ext. intros k Hk. apply Nseq_In in Hk.
  assert (Hvk : valid (gather loc radixes) (unflatten (gather loc radixes) k)).
  { apply unflatten_valid; auto. apply allpos_gather; auto. }
  rewrite (gather_shift_r (length radixes)) by exact Hlr. f_equal.
  rewrite at_reshape, HT.
  assert (Hvu : valid radixes (upd ci loc (unflatten (gather loc radixes) k))) by (apply upd_valid; auto).
  rewrite unflatten_sq; auto; [| apply flatten_lt; exact Hvu].
  rewrite unflatten_flatten by exact Hvu. fold ri.
  rewrite <- Hlr. rewrite upd_app_r. reflexivity.
Qed.

(* ---------------------------------------------------------------- StateVector.apply *)
Local Notation matvec := (matvec R r0 radd rmul).

Lemma perm_sv_is_perm n loc : wf_loc n loc -> is_perm n (loc ++ complement n loc).
Proof. intros Hw. apply is_perm_of_Permutation. apply loc_complement_perm. exact Hw. Qed.

Lemma unflatten1 d k : unflatten [d] k = [k].
Proof. unfold unflatten. change (prodN []) with 1. rewrite N.div_1_r. reflexivity. Qed.

Lemma flatten1 d x : flatten [d] [x] = x.
Proof. unfold flatten. change (prodN []) with 1. lia. Qed.

Lemma valid1_inv d i : valid [d] i -> exists x, i = [x] /\ x < d.
Proof using.
  intros H. pose proof (valid_length _ _ H) as Hl. destruct i as [|x [|? ?]]; try discriminate.
  exists x. split; [reflexivity|]. apply valid_cons in H. destruct H as [H _]. exact H.
Qed.

Lemma sv_perm_gather radixes loc : wf_loc (length radixes) loc ->
  gather (loc ++ complement (length radixes) loc) (radixes ++ radixes) = gather (loc ++ complement (length radixes) loc) radixes.
Proof.
  intros Hw. apply gather_app_l. destruct (perm_sv_is_perm _ _ Hw) as (_ & _ & H). exact H.
Qed.

Theorem sv_apply_embed radixes v U loc :
  allpos radixes -> wf_loc (length radixes) loc -> shape v = [prodN radixes] ->
  nth 1 (shape U) 0 = prodN (gather loc radixes) ->
  nd_eq (sv_apply radixes v U loc false) (matvec (embed radixes loc U) v).
Proof.
  intros Hpos Hw Hv HU. pose proof Hw as [Hnd Hr].
  pose proof (perm_sv_is_perm _ _ Hw) as Hperm.
  assert (Hsh : gather (argsort (loc ++ complement (length radixes) loc))
                  (gather (loc ++ complement (length radixes) loc) (radixes ++ radixes)) = radixes).
  { rewrite sv_perm_gather by exact Hw. apply (gather_argsort_gather (length radixes)); auto. }
  unfold Tensor.sv_apply, Tensor.matvec. cbv zeta. split.
  - rewrite shape_reshape, shape_transpose, shape_reshape, Hsh. reflexivity.
  - intros i Hi. rewrite shape_reshape, shape_transpose, shape_reshape, Hsh in Hi.
    apply valid1_inv in Hi as (x & -> & Hx).
    rewrite at_reshape, shape_transpose, shape_reshape, Hsh, flatten1.
    set (xi := unflatten radixes x).
    assert (Hvx : valid radixes xi) by (apply unflatten_valid; auto).
    rewrite sv_perm_gather by exact Hw.
    rewrite (contract_left_at (length radixes) loc (complement (length radixes) loc) radixes); auto.
    cbn [at_ nth]. rewrite at_matmul, shape_embed. cbn [nth].
    rewrite (embed_row_sum radixes loc U x (fun y => at_ (as_col R v) [y; 0])) by auto.
    fold xi. apply rsum_ext. intros k Hk. f_equal.
    rewrite at_reshape, Hv, unflatten1. reflexivity.
Qed.

(* ================================================================== matrix algebra up to nd_eq *)
Local Notation nd_identity := (nd_identity R r0 r1).

Lemma nd_eq_refl A : nd_eq A A.
Proof. split; auto. Qed.
Lemma nd_eq_sym A B : nd_eq A B -> nd_eq B A.
Proof. intros [Hs H]. split; auto. intros i Hi. symmetry. apply H. rewrite Hs. exact Hi. Qed.
Lemma nd_eq_trans A B C : nd_eq A B -> nd_eq B C -> nd_eq A C.
Proof.
  intros [Hs1 H1] [Hs2 H2]. split; [congruence|]. intros i Hi. rewrite H1 by exact Hi. apply H2. rewrite <- Hs1. exact Hi.
Qed.

Lemma nd_eq_at2 A B a b r c : nd_eq A B -> shape A = [a; b] -> r < a -> c < b -> at_ A [r; c] = at_ B [r; c].
Proof. intros [_ H] Hs Hr Hc. apply H. rewrite Hs. apply valid2. auto. Qed.

Lemma matmul_proper A A' B B' a k b :
  shape A = [a; k] -> shape B = [k; b] -> nd_eq A A' -> nd_eq B B' -> nd_eq (nd_matmul A B) (nd_matmul A' B').
Proof.
  intros HA HB EA EB. pose proof EA as [SA _]. pose proof EB as [SB _]. split.
  - rewrite !shape_matmul, <- SA, <- SB. reflexivity.
  - intros i Hi. rewrite shape_matmul, HA, HB in Hi. cbn [nth] in Hi.
    apply valid2_inv in Hi as (r & c & -> & Hr & Hc).
    rewrite !at_matmul, <- SA, HA. cbn [nth]. apply rsum_ext. intros x Hx. apply Nseq_In in Hx.
    rewrite (nd_eq_at2 A A' a k) by auto. rewrite (nd_eq_at2 B B' k b) by auto. reflexivity.
Qed.

Lemma matmul_assoc A B C a b c d :
  shape A = [a; b] -> shape B = [b; c] -> shape C = [c; d] ->
  nd_eq (nd_matmul (nd_matmul A B) C) (nd_matmul A (nd_matmul B C)).
Proof.
  intros HA HB HC. split.
  - rewrite !shape_matmul. reflexivity.
  - intros i Hi. rewrite !shape_matmul, HA, HC in Hi. cbn [nth] in Hi.
    apply valid2_inv in Hi as (r & s & -> & Hr & Hs).
    rewrite !at_matmul, !shape_matmul, HA, HB. cbn [nth].
    transitivity (rsum (map (fun x => rsum (map (fun y => at_ A [r; y] *! at_ B [y; x] *! at_ C [x; s]) (Nseq b))) (Nseq c))).
    { apply rsum_ext. intros x _. rewrite at_matmul, HA. cbn [nth]. rewrite rsum_mul_r, map_map. reflexivity. }
    rewrite rsum_swap. apply rsum_ext. intros y _. rewrite at_matmul, HB. cbn [nth].
    rewrite rsum_mul_l, map_map. apply rsum_ext. intros x _. ring.
Qed.

Lemma at_identity d r c : at_ (nd_identity d) [r; c] = if N.eqb r c then r1 else r0.
Proof. reflexivity. Qed.

Lemma matmul_id_l A d e : shape A = [d; e] -> nd_eq (nd_matmul (nd_identity d) A) A.
Proof.
  intros HA. split; [rewrite shape_matmul, HA; reflexivity|].
  intros i Hi. rewrite shape_matmul, HA in Hi. cbn [shape nth] in Hi.
  apply valid2_inv in Hi as (r & c & -> & Hr & Hc). rewrite at_matmul. cbn [shape nth].
  transitivity (rsum (map (fun x => if N.eqb x r then at_ A [x; c] else r0) (Nseq d))).
  { apply rsum_ext. intros x _. rewrite at_identity, N.eqb_sym. destruct (N.eqb x r); ring. }
  apply (rsum_single N.eqb); [apply N.eqb_eq | apply Nseq_NoDup | apply Nseq_In; exact Hr].
Qed.

Lemma matmul_id_r A d e : shape A = [d; e] -> nd_eq (nd_matmul A (nd_identity e)) A.
Proof.
  intros HA. split; [rewrite shape_matmul, HA; reflexivity|].
  intros i Hi. rewrite shape_matmul, HA in Hi. cbn [shape nth] in Hi.
  apply valid2_inv in Hi as (r & c & -> & Hr & Hc). rewrite at_matmul, HA. cbn [shape nth].
  transitivity (rsum (map (fun x => if N.eqb x c then at_ A [r; x] else r0) (Nseq e))).
  { apply rsum_ext. intros x _. rewrite at_identity. destruct (N.eqb x c); ring. }
  apply (rsum_single N.eqb); [apply N.eqb_eq | apply Nseq_NoDup | apply Nseq_In; exact Hc].
Qed.

Lemma reshape_proper sh' A B : allpos (shape A) -> prodN sh' = prodN (shape A) ->
  nd_eq A B -> nd_eq (nd_reshape sh' A) (nd_reshape sh' B).
Proof.
  intros Hp Hs [HS H]. split; [reflexivity|]. intros i Hi. rewrite shape_reshape in Hi.
  rewrite !at_reshape, <- HS. apply H. apply unflatten_valid; auto. rewrite <- Hs. apply flatten_lt. exact Hi.
Qed.

(* ================================================================== embed is a ring morphism *)
Lemma embed_proper radixes loc U U' :
  allpos radixes -> wf_loc (length radixes) loc ->
  shape U = [prodN (gather loc radixes); prodN (gather loc radixes)] ->
  nd_eq U U' -> nd_eq (embed radixes loc U) (embed radixes loc U').
Proof.
  intros Hpos [Hnd Hr] HU E. split; [reflexivity|]. intros i Hi. rewrite shape_embed in Hi.
  apply valid2_inv in Hi as (r & c & -> & Hr' & Hc'). rewrite !at_embed.
  destruct (idx_eqb _ _); auto.
  apply (nd_eq_at2 U U' _ _ _ _ E HU); apply flatten_lt; apply valid_gather; auto; apply unflatten_valid; auto.
Qed.

Theorem embed_mul radixes loc A B :
  allpos radixes -> wf_loc (length radixes) loc ->
  nth 1 (shape A) 0 = prodN (gather loc radixes) ->
  nd_eq (nd_matmul (embed radixes loc A) (embed radixes loc B)) (embed radixes loc (nd_matmul A B)).
Proof.
  intros Hpos Hw HA. pose proof Hw as [Hnd Hr]. split; [reflexivity|].
  intros i Hi. rewrite shape_matmul, !shape_embed in Hi. cbn [nth] in Hi.
  apply valid2_inv in Hi as (r & c & -> & Hr' & Hc').
  rewrite at_matmul, shape_embed. cbn [nth].
  rewrite (embed_row_sum radixes loc A r (fun x => at_ (embed radixes loc B) [x; c])) by auto.
  set (ri := unflatten radixes r). set (ci := unflatten radixes c). set (shl := gather loc radixes).
  assert (Hvr : valid radixes ri) by (apply unflatten_valid; auto).
  pose proof (valid_length _ _ Hvr) as Hlr.
  assert (HposL : allpos shl) by (apply allpos_gather; auto).
  rewrite at_embed. fold ri ci shl.
  transitivity (rsum (map (fun k =>
     if idx_eqb (gather (complement (length radixes) loc) ri) (gather (complement (length radixes) loc) ci)
     then at_ A [flatten shl (gather loc ri); k] *! at_ B [k; flatten shl (gather loc ci)] else r0) (Nseq (prodN shl)))).
  - apply rsum_ext. intros k Hk. apply Nseq_In in Hk.
    assert (Hvk : valid shl (unflatten shl k)) by (apply unflatten_valid; auto).
    assert (Hvu : valid radixes (upd ri loc (unflatten shl k))) by (apply upd_valid; auto).
    rewrite at_embed, unflatten_flatten by exact Hvu. fold ci shl.
    rewrite upd_gather_same; [| exact Hnd | rewrite Hlr; exact Hr | rewrite unflatten_length; apply gather_length].
    rewrite flatten_unflatten by auto.
    rewrite upd_gather_other; [apply if_mul_r | | ].
    + intros q Hq. apply complement_In in Hq. tauto.
    + apply Forall_forall. intros q Hq. apply complement_In in Hq. lia.
  - destruct (idx_eqb _ _).
    + rewrite at_matmul, HA. reflexivity.
    + apply rsum_zero. auto.
Qed.

Theorem embed_identity radixes loc :
  allpos radixes -> wf_loc (length radixes) loc ->
  nd_eq (embed radixes loc (nd_identity (prodN (gather loc radixes)))) (nd_identity (prodN radixes)).
Proof.
  intros Hpos [Hnd Hr]. split; [reflexivity|]. intros i Hi. rewrite shape_embed in Hi.
  apply valid2_inv in Hi as (r & c & -> & Hr' & Hc'). rewrite at_embed, !at_identity.
  set (ri := unflatten radixes r). set (ci := unflatten radixes c). set (shl := gather loc radixes).
  assert (Hvr : valid radixes ri) by (apply unflatten_valid; auto).
  assert (Hvc : valid radixes ci) by (apply unflatten_valid; auto).
  pose proof (valid_length _ _ Hvr) as Hlr. pose proof (valid_length _ _ Hvc) as Hlc.
  destruct (N.eqb r c) eqn:E.
  - apply N.eqb_eq in E. subst c. fold ri in ci. subst ci.
    assert (H1 : idx_eqb (gather (complement (length radixes) loc) ri) (gather (complement (length radixes) loc) ri) = true)
      by (apply idx_eqb_eq; reflexivity).
    rewrite H1, N.eqb_refl. reflexivity.
  - destruct (idx_eqb _ _) eqn:E1; auto.
    destruct (N.eqb (flatten shl (gather loc ri)) (flatten shl (gather loc ci))) eqn:E2; auto. exfalso.
    apply idx_eqb_eq in E1. apply N.eqb_eq in E2. apply N.eqb_neq in E. apply E.
    assert (HvA : valid shl (gather loc ri)) by (apply valid_gather; auto).
    assert (HvB : valid shl (gather loc ci)) by (apply valid_gather; auto).
    assert (E3 : gather loc ri = gather loc ci).
    { rewrite <- (unflatten_flatten shl (gather loc ri) HvA), <- (unflatten_flatten shl (gather loc ci) HvB), E2. reflexivity. }
    assert (ri = ci).
    { rewrite <- (upd_self ci ri loc); [|lia|].
      - rewrite E3. apply upd_self; auto.
      - intros q Hq Hn. apply (gather_complement_eq (length radixes) loc); auto. lia. }
    unfold ri, ci in H. rewrite <- (flatten_unflatten radixes r), <- (flatten_unflatten radixes c); auto. rewrite H. reflexivity.
Qed.

(* ================================================================== disjoint locations commute *)
Lemma gather_complement_iff n loc (i j : list N) :
  gather (complement n loc) i = gather (complement n loc) j <->
  (forall q, (q < n)%nat -> ~ In q loc -> nth q i 0 = nth q j 0).
Proof.
  split; [apply gather_complement_eq|]. intros H. unfold gather. apply map_ext_in.
  intros q Hq. apply complement_In in Hq as [Hq Hn]. apply H; auto.
Qed.

Lemma complement_app_comm n l1 l2 : complement n (l1 ++ l2) = complement n (l2 ++ l1).
Proof.
  unfold complement. apply filter_ext. intros x. f_equal. unfold memb. rewrite !existsb_app. apply orb_comm.
Qed.

Lemma bool_eq_iff (a b : bool) : (a = true <-> b = true) -> a = b.
Proof. destruct a, b; intros [H1 H2]; auto. symmetry. apply H1. reflexivity. Qed.

Lemma embed_mul_disjoint radixes l1 l2 A B r c :
  allpos radixes -> wf_loc (length radixes) l1 -> wf_loc (length radixes) l2 ->
  (forall q, In q l1 -> ~ In q l2) -> r < prodN radixes -> c < prodN radixes ->
  at_ (nd_matmul (embed radixes l1 A) (embed radixes l2 B)) [r; c] =
  if idx_eqb (gather (complement (length radixes) (l1 ++ l2)) (unflatten radixes r))
             (gather (complement (length radixes) (l1 ++ l2)) (unflatten radixes c))
  then at_ A [flatten (gather l1 radixes) (gather l1 (unflatten radixes r));
              flatten (gather l1 radixes) (gather l1 (unflatten radixes c))]
       *! at_ B [flatten (gather l2 radixes) (gather l2 (unflatten radixes r));
                 flatten (gather l2 radixes) (gather l2 (unflatten radixes c))]
  else r0.
Proof.
  intros Hpos Hw1 Hw2 Hdis Hr' Hc'. pose proof Hw1 as [Hnd1 Hr1]. pose proof Hw2 as [Hnd2 Hr2].
  set (n := length radixes). set (ri := unflatten radixes r). set (ci := unflatten radixes c).
  set (sh1 := gather l1 radixes). set (sh2 := gather l2 radixes).
  assert (Hvr : valid radixes ri) by (apply unflatten_valid; auto).
  assert (Hvc : valid radixes ci) by (apply unflatten_valid; auto).
  pose proof (valid_length _ _ Hvr) as Hlr. pose proof (valid_length _ _ Hvc) as Hlc.
  assert (Hpos1 : allpos sh1) by (apply allpos_gather; auto).
  assert (Hv1c : valid sh1 (gather l1 ci)) by (apply valid_gather; auto).
  rewrite at_matmul, shape_embed. cbn [nth].
  rewrite (embed_row_sum radixes l1 A r (fun x => at_ (embed radixes l2 B) [x; c])) by auto.
  fold ri sh1.
  pose (f := fun k => if idx_eqb (gather (complement n (l1 ++ l2)) ri) (gather (complement n (l1 ++ l2)) ci)
                      then at_ A [flatten sh1 (gather l1 ri); k] *! at_ B [flatten sh2 (gather l2 ri); flatten sh2 (gather l2 ci)]
                      else r0).
  transitivity (rsum (map (fun k => if N.eqb k (flatten sh1 (gather l1 ci)) then f k else r0) (Nseq (prodN sh1)))).
  - apply rsum_ext. intros k Hk. apply Nseq_In in Hk.
    assert (Hvk : valid sh1 (unflatten sh1 k)) by (apply unflatten_valid; auto).
    pose proof (valid_length _ _ Hvk) as Hlk. unfold sh1 in Hlk at 2. rewrite gather_length in Hlk.
    assert (Hvu : valid radixes (upd ri l1 (unflatten sh1 k))) by (apply upd_valid; auto).
    rewrite at_embed, unflatten_flatten by exact Hvu. fold ci sh2 n.
    rewrite (upd_gather_other ri l1 l2); [| intros q Hq Hq1; exact (Hdis q Hq1 Hq) | rewrite Hlr; exact Hr2].
    assert (Hcond : idx_eqb (gather (complement n l2) (upd ri l1 (unflatten sh1 k))) (gather (complement n l2) ci)
                    = N.eqb k (flatten sh1 (gather l1 ci))
                      && idx_eqb (gather (complement n (l1 ++ l2)) ri) (gather (complement n (l1 ++ l2)) ci)).
    { apply bool_eq_iff. rewrite andb_true_iff, N.eqb_eq, !idx_eqb_eq, !gather_complement_iff. split.
      - intros H. split.
        + rewrite <- (flatten_unflatten sh1 k Hpos1 Hk). f_equal.
          rewrite <- (upd_gather_same ri l1 (unflatten sh1 k)) by (auto; rewrite Hlr; exact Hr1).
          unfold gather. apply map_ext_in. intros q Hq. apply H.
          * rewrite Forall_forall in Hr1. apply Hr1. exact Hq.
          * apply Hdis. exact Hq.
        + intros q Hq Hn. rewrite <- (H q Hq) by (intros Hin; apply Hn; apply in_or_app; right; exact Hin).
          rewrite upd_nth by (rewrite Hlr; exact Hq).
          assert (Hm : memb q l1 = false) by (apply memb_false; intros Hin; apply Hn; apply in_or_app; left; exact Hin).
          rewrite Hm. reflexivity.
      - intros [Hk0 H] q Hq Hn2. rewrite upd_nth by (rewrite Hlr; exact Hq).
        destruct (memb q l1) eqn:Em.
        + apply memb_In in Em. rewrite Hk0, unflatten_flatten by exact Hv1c.
          rewrite gather_nth by (apply pos_lt; exact Em). rewrite nth_pos by exact Em. reflexivity.
        + apply memb_false in Em. apply H; auto. intros Hin. apply in_app_or in Hin. tauto. }
    rewrite Hcond. unfold f. destruct (N.eqb k _); destruct (idx_eqb _ _); cbn [andb]; ring.
  - rewrite (rsum_single N.eqb); [| apply N.eqb_eq | apply Nseq_NoDup | apply Nseq_In; apply flatten_lt; exact Hv1c].
    unfold f. reflexivity.
Qed.

(* operations on disjoint locations commute (discharges den_comm of lib/Trace.v for the matrix semantics) *)
Theorem embed_comm_disjoint radixes l1 l2 A B :
  allpos radixes -> wf_loc (length radixes) l1 -> wf_loc (length radixes) l2 ->
  (forall q, In q l1 -> ~ In q l2) ->
  nd_eq (nd_matmul (embed radixes l1 A) (embed radixes l2 B)) (nd_matmul (embed radixes l2 B) (embed radixes l1 A)).
Proof.
  intros Hpos Hw1 Hw2 Hdis. split; [reflexivity|].
  intros i Hi. rewrite shape_matmul, !shape_embed in Hi. cbn [nth] in Hi.
  apply valid2_inv in Hi as (r & c & -> & Hr & Hc).
  rewrite embed_mul_disjoint by auto.
  rewrite (embed_mul_disjoint radixes l2 l1) by (auto; intros q H2 H1; exact (Hdis q H1 H2)).
  rewrite (complement_app_comm _ l2 l1). destruct (idx_eqb _ _); ring.
Qed.

(* ================================================================== storage, identity, dagger *)
Lemma Nseq_nth d x : x < d -> nth (N.to_nat x) (Nseq d) 0 = x.
Proof.
  intros H. unfold Nseq. rewrite (map_nth_d N.of_nat _ _ 0 0%nat) by (rewrite seq_length; lia).
  rewrite seq_nth by lia. simpl. apply N2Nat.id.
Qed.

Lemma Nseq_length d : length (Nseq d) = N.to_nat d.
Proof. unfold Nseq. rewrite map_length, seq_length. reflexivity. Qed.

Lemma tab_lookup sh (f : list N -> R) i : valid sh i -> tlookup R r0 i (tab R sh f) = f i.
Proof.
  revert f i. induction sh as [|d sh IH]; intros f [|x i] H; try (inversion H; fail); [reflexivity|].
  apply valid_cons in H as [Hx Hi]. simpl.
  rewrite (map_nth_d _ _ _ _ 0) by (rewrite Nseq_length; lia).
  rewrite Nseq_nth by exact Hx. apply (IH (fun i => f (x :: i))). exact Hi.
Qed.

Theorem materialize_ok T : nd_eq (materialize R r0 T) T.
Proof. split; [reflexivity|]. intros i Hi. unfold materialize in *. cbn [shape at_] in *. apply tab_lookup. exact Hi. Qed.

Lemma ub_init_shape radixes : shape (ub_init R r0 r1 radixes) = radixes ++ radixes.
Proof. reflexivity. Qed.

Lemma ub_init_identity radixes : allpos radixes ->
  nd_eq (ub_get_unitary radixes (ub_init R r0 r1 radixes)) (nd_identity (prodN radixes)).
Proof.
  intros Hpos. split; [reflexivity|]. intros i Hi. unfold Tensor.ub_get_unitary, ub_init in *.
  rewrite shape_reshape in Hi. apply valid2_inv in Hi as (r & c & -> & Hr & Hc).
  rewrite !at_reshape, shape_reshape. cbn [shape].
  rewrite unflatten_sq by auto.
  rewrite flatten_app by apply unflatten_length. rewrite !flatten_unflatten by auto.
  change (shape (nd_identity (prodN radixes))) with [prodN radixes; prodN radixes].
  rewrite unflatten2 by exact Hc. reflexivity.
Qed.

Lemma shape_dagger U : shape (nd_dagger U) = [nth 1 (shape U) 0; nth 0 (shape U) 0].
Proof. reflexivity. Qed.

Lemma at_dagger U r c : at_ (nd_dagger U) [r; c] = rconj (at_ U [c; r]).
Proof. reflexivity. Qed.

End RingThm.
