(* lib/Expr.v - symbolic matrix entries of parameterised gates (DESIGN 3.5).

   Definitions only (no proofs; soundness lives in lib/ExprThm.v):
   * [rexpr]/[cexpr]: a small AST for the real / complex valued entries of the
     gate library (rational constants, pi, sqrt n, parameters, + * -, cos, sin,
     i, e^{i x}, conjugate);
   * (a) semantics [reval]/[ceval] into Coquelicot's R and C, used by theorems;
   * symbolic derivative [rderiv]/[cderiv] and substitution [rsubst]/[csubst];
   * a normaliser into "exponential polynomials"
        sum_j (a_j + i b_j) * e^{i L_j(theta)} * (monomial in pi, sqrt n, theta_k)
     with exact rational coefficients; [ceqb a b = true] decides (soundly, see
     ExprThm.ceqb_sound) that two expressions are equal for ALL parameters;
   * (b) a printer to S-expressions, evaluated with floats by harness/exprval.py
     for the sampled correspondence with get_unitary / get_grad. *)
From Coq Require Import Reals QArith Qreals ZArith List Bool String Ascii.
From Coq Require Import DecimalString.
From Coquelicot Require Import Coquelicot.
Import ListNotations.
Local Open Scope nat_scope.

(* ------------------------------------------------------------------ *)
(* AST                                                                  *)
(* ------------------------------------------------------------------ *)
Inductive rexpr : Type :=
| RQ (q : Q)              (* exact rational constant *)
| RPi                     (* pi *)
| RSqrt (n : positive)    (* sqrt(n), n a positive integer *)
| RVar (k : nat)          (* k-th gate parameter *)
| RAdd (a b : rexpr)
| RMul (a b : rexpr)
| RNeg (a : rexpr)
| RCos (a : rexpr)
| RSin (a : rexpr).

Inductive cexpr : Type :=
| CR (r : rexpr)          (* embedding of the reals *)
| CI                      (* imaginary unit *)
| CAdd (a b : cexpr)
| CMul (a b : cexpr)
| CNeg (a : cexpr)
| CCis (r : rexpr)        (* e^{i r} *)
| CConj (a : cexpr).

(* ------------------------------------------------------------------ *)
(* (a) semantics                                                        *)
(* ------------------------------------------------------------------ *)
Definition env := nat -> R.
Definition upd (rho : env) (k : nat) (x : R) : env :=
  fun j => if Nat.eqb j k then x else rho j.

Definition cis (x : R) : C := (cos x, sin x).

Fixpoint reval (rho : env) (e : rexpr) : R :=
  match e with
  | RQ q => Q2R q
  | RPi => PI
  | RSqrt n => sqrt (IZR (Zpos n))
  | RVar k => rho k
  | RAdd a b => (reval rho a + reval rho b)%R
  | RMul a b => (reval rho a * reval rho b)%R
  | RNeg a => (- reval rho a)%R
  | RCos a => cos (reval rho a)
  | RSin a => sin (reval rho a)
  end.

Fixpoint ceval (rho : env) (e : cexpr) : C :=
  match e with
  | CR r => RtoC (reval rho r)
  | CI => Ci
  | CAdd a b => Cplus (ceval rho a) (ceval rho b)
  | CMul a b => Cmult (ceval rho a) (ceval rho b)
  | CNeg a => Copp (ceval rho a)
  | CCis r => cis (reval rho r)
  | CConj a => Cconj (ceval rho a)
  end.

(* ------------------------------------------------------------------ *)
(* symbolic derivative w.r.t. parameter k, substitution                 *)
(* ------------------------------------------------------------------ *)
Definition r0 : rexpr := RQ 0%Q.
Definition r1 : rexpr := RQ 1%Q.

Fixpoint rderiv (k : nat) (e : rexpr) : rexpr :=
  match e with
  | RQ _ | RPi | RSqrt _ => r0
  | RVar j => if Nat.eqb j k then r1 else r0
  | RAdd a b => RAdd (rderiv k a) (rderiv k b)
  | RMul a b => RAdd (RMul (rderiv k a) b) (RMul a (rderiv k b))
  | RNeg a => RNeg (rderiv k a)
  | RCos a => RMul (RNeg (RSin a)) (rderiv k a)
  | RSin a => RMul (RCos a) (rderiv k a)
  end.

Fixpoint cderiv (k : nat) (e : cexpr) : cexpr :=
  match e with
  | CR r => CR (rderiv k r)
  | CI => CR r0
  | CAdd a b => CAdd (cderiv k a) (cderiv k b)
  | CMul a b => CAdd (CMul (cderiv k a) b) (CMul a (cderiv k b))
  | CNeg a => CNeg (cderiv k a)
  | CCis r => CMul (CMul CI (CR (rderiv k r))) (CCis r)
  | CConj a => CConj (cderiv k a)
  end.

Fixpoint rsubst (s : nat -> rexpr) (e : rexpr) : rexpr :=
  match e with
  | RQ _ | RPi | RSqrt _ => e
  | RVar j => s j
  | RAdd a b => RAdd (rsubst s a) (rsubst s b)
  | RMul a b => RMul (rsubst s a) (rsubst s b)
  | RNeg a => RNeg (rsubst s a)
  | RCos a => RCos (rsubst s a)
  | RSin a => RSin (rsubst s a)
  end.

Fixpoint csubst (s : nat -> rexpr) (e : cexpr) : cexpr :=
  match e with
  | CR r => CR (rsubst s r)
  | CI => CI
  | CAdd a b => CAdd (csubst s a) (csubst s b)
  | CMul a b => CMul (csubst s a) (csubst s b)
  | CNeg a => CNeg (csubst s a)
  | CCis r => CCis (rsubst s r)
  | CConj a => CConj (csubst s a)
  end.

(* ------------------------------------------------------------------ *)
(* light syntactic simplification (keeps printed derivatives small)     *)
(* ------------------------------------------------------------------ *)
Definition is_rq0 (e : rexpr) : bool := match e with RQ q => Qeq_bool q 0%Q | _ => false end.
Definition is_rq1 (e : rexpr) : bool := match e with RQ q => Qeq_bool q 1%Q | _ => false end.

Definition radd (a b : rexpr) : rexpr :=
  if is_rq0 a then b else if is_rq0 b then a else RAdd a b.
Definition rmul (a b : rexpr) : rexpr :=
  if is_rq0 a then r0 else if is_rq0 b then r0
  else if is_rq1 a then b else if is_rq1 b then a else RMul a b.
Definition rneg (a : rexpr) : rexpr := if is_rq0 a then r0 else RNeg a.

Fixpoint rsimp (e : rexpr) : rexpr :=
  match e with
  | RAdd a b => radd (rsimp a) (rsimp b)
  | RMul a b => rmul (rsimp a) (rsimp b)
  | RNeg a => rneg (rsimp a)
  | RCos a => RCos (rsimp a)
  | RSin a => RSin (rsimp a)
  | _ => e
  end.

Definition is_c0 (e : cexpr) : bool := match e with CR r => is_rq0 r | _ => false end.
Definition is_c1 (e : cexpr) : bool := match e with CR r => is_rq1 r | _ => false end.
Definition cadd (a b : cexpr) : cexpr :=
  if is_c0 a then b else if is_c0 b then a else CAdd a b.
Definition cmul (a b : cexpr) : cexpr :=
  if is_c0 a then CR r0 else if is_c0 b then CR r0
  else if is_c1 a then b else if is_c1 b then a else CMul a b.
Definition cneg (a : cexpr) : cexpr := if is_c0 a then CR r0 else CNeg a.
Definition cconj (a : cexpr) : cexpr :=
  match a with CR r => CR r | _ => CConj a end.

Fixpoint csimp (e : cexpr) : cexpr :=
  match e with
  | CR r => CR (rsimp r)
  | CI => CI
  | CAdd a b => cadd (csimp a) (csimp b)
  | CMul a b => cmul (csimp a) (csimp b)
  | CNeg a => cneg (csimp a)
  | CCis r => CCis (rsimp r)
  | CConj a => cconj (csimp a)
  end.

(* ------------------------------------------------------------------ *)
(* exponential-polynomial normal form                                   *)
(* ------------------------------------------------------------------ *)
(* irrational units that may scale an angle or occur as a factor *)
Inductive irr : Type := U1 | UPi | USqrt (n : positive).

Definition irr_eqb (a b : irr) : bool :=
  match a, b with
  | U1, U1 => true
  | UPi, UPi => true
  | USqrt n, USqrt m => Pos.eqb n m
  | _, _ => false
  end.
Definition irr_code (a : irr) : N :=
  match a with U1 => 0%N | UPi => 1%N | USqrt n => (2 + Npos n)%N end.
Definition irr_eval (u : irr) : R :=
  match u with U1 => 1%R | UPi => PI | USqrt n => sqrt (IZR (Zpos n)) end.

(* u * v as (rational, unit) when representable *)
Definition irr_mul (u v : irr) : option (Q * irr) :=
  match u, v with
  | U1, _ => Some (1%Q, v)
  | _, U1 => Some (1%Q, u)
  | USqrt n, USqrt m => if Pos.eqb n m then Some (inject_Z (Zpos n), U1) else None
  | _, _ => None
  end.

(* angle generators:  (Some k, u) = theta_k * u ;  (None, u) = u *)
Definition gen : Type := (option nat * irr)%type.
Definition onat_eqb (a b : option nat) : bool :=
  match a, b with
  | None, None => true
  | Some x, Some y => Nat.eqb x y
  | _, _ => false
  end.
Definition onat_code (a : option nat) : nat := match a with None => 0 | Some k => S k end.
Definition gen_eqb (a b : gen) : bool := onat_eqb (fst a) (fst b) && irr_eqb (snd a) (snd b).
Definition gen_ltb (a b : gen) : bool :=
  Nat.ltb (onat_code (fst a)) (onat_code (fst b))
  || (Nat.eqb (onat_code (fst a)) (onat_code (fst b)) && N.ltb (irr_code (snd a)) (irr_code (snd b))).
Definition gen_eval (rho : env) (g : gen) : R :=
  ((match fst g with None => 1%R | Some k => rho k end) * irr_eval (snd g))%R.

(* linear forms  sum q_j * gen_j  (sorted by generator, no zero coefficient) *)
Definition lin : Type := list (gen * Q).
Fixpoint lin_eval (rho : env) (l : lin) : R :=
  match l with
  | [] => 0%R
  | (g, q) :: t => (Q2R q * gen_eval rho g + lin_eval rho t)%R
  end.
Fixpoint lin_ins (g : gen) (q : Q) (l : lin) : lin :=
  match l with
  | [] => [(g, q)]
  | (g', q') :: t =>
    if gen_eqb g g' then
      (let s := Qred (q + q')%Q in if Qeq_bool s 0%Q then t else (g', s) :: t)
    else if gen_ltb g g' then (g, q) :: l
    else (g', q') :: lin_ins g q t
  end.
Definition lin_add (a b : lin) : lin :=
  fold_right (fun gq acc => lin_ins (fst gq) (snd gq) acc) b a.
Definition lin_scale (c : Q) (l : lin) : lin :=
  if Qeq_bool c 0%Q then [] else map (fun gq => (fst gq, Qred (c * snd gq)%Q)) l.
Definition lin_neg (l : lin) : lin := lin_scale (-1)%Q l.
Fixpoint lin_eqb (a b : lin) : bool :=
  match a, b with
  | [], [] => true
  | (g, q) :: a', (g', q') :: b' => gen_eqb g g' && Qeq_bool q q' && lin_eqb a' b'
  | _, _ => false
  end.

(* multiply a linear form by the constant c*u *)
Fixpoint lin_mulc (c : Q) (u : irr) (l : lin) : option lin :=
  match l with
  | [] => Some []
  | ((ov, u'), q) :: t =>
    match irr_mul u u', lin_mulc c u t with
    | Some (k, w), Some t' => Some (lin_ins (ov, w) (Qred (c * k * q)%Q) t')
    | _, _ => None
    end
  end.

(* constants  q * u *)
Fixpoint cst_of (e : rexpr) : option (Q * irr) :=
  match e with
  | RQ q => Some (q, U1)
  | RPi => Some (1%Q, UPi)
  | RSqrt n => Some (1%Q, USqrt n)
  | RNeg a => match cst_of a with Some (q, u) => Some (Qopp q, u) | None => None end
  | RMul a b =>
    match cst_of a, cst_of b with
    | Some (q1, u1), Some (q2, u2) =>
      match irr_mul u1 u2 with
      | Some (k, w) => Some (Qred (q1 * q2 * k)%Q, w)
      | None => None
      end
    | _, _ => None
    end
  | RAdd a b =>
    match cst_of a, cst_of b with
    | Some (q1, u1), Some (q2, u2) =>
      if irr_eqb u1 u2 then Some (Qred (q1 + q2)%Q, u1) else None
    | _, _ => None
    end
  | _ => None
  end.

(* angles: linear in the parameters, coefficients q*u *)
Fixpoint lin_of (e : rexpr) : option lin :=
  match e with
  | RQ q => Some (if Qeq_bool q 0%Q then [] else [((None, U1), q)])
  | RPi => Some [((None, UPi), 1%Q)]
  | RSqrt n => Some [((None, USqrt n), 1%Q)]
  | RVar k => Some [((Some k, U1), 1%Q)]
  | RAdd a b =>
    match lin_of a, lin_of b with
    | Some x, Some y => Some (lin_add x y)
    | _, _ => None
    end
  | RNeg a => match lin_of a with Some x => Some (lin_neg x) | None => None end
  | RMul a b =>
    match cst_of a with
    | Some (q, u) => match lin_of b with Some y => lin_mulc q u y | None => None end
    | None =>
      match cst_of b with
      | Some (q, u) => match lin_of a with Some x => lin_mulc q u x | None => None end
      | None => None
      end
    end
  | _ => None
  end.

(* real monomials  prod atom^e  outside the exponentials *)
Inductive atom : Type := AIrr (u : irr) | AVar (k : nat).
Definition atom_eqb (a b : atom) : bool :=
  match a, b with
  | AIrr u, AIrr v => irr_eqb u v
  | AVar j, AVar k => Nat.eqb j k
  | _, _ => false
  end.
Definition atom_ltb (a b : atom) : bool :=
  match a, b with
  | AIrr u, AIrr v => N.ltb (irr_code u) (irr_code v)
  | AIrr _, AVar _ => true
  | AVar _, AIrr _ => false
  | AVar j, AVar k => Nat.ltb j k
  end.
Definition atom_eval (rho : env) (a : atom) : R :=
  match a with AIrr u => irr_eval u | AVar k => rho k end.

Definition amono : Type := list (atom * nat).
Fixpoint am_eval (rho : env) (m : amono) : R :=
  match m with
  | [] => 1%R
  | (a, e) :: t => (atom_eval rho a ^ e * am_eval rho t)%R
  end.
Fixpoint am_ins (a : atom) (e : nat) (m : amono) : amono :=
  match m with
  | [] => [(a, e)]
  | (a', e') :: t =>
    if atom_eqb a a' then (a', e + e') :: t
    else if atom_ltb a a' then (a, e) :: m
    else (a', e') :: am_ins a e t
  end.
Definition am_mul (x y : amono) : amono :=
  fold_right (fun ae acc => am_ins (fst ae) (snd ae) acc) y x.
Fixpoint qpow (q : Q) (n : nat) : Q :=
  match n with O => 1%Q | S k => (q * qpow q k)%Q end.
(* sqrt(n)^e = n^(e/2) * sqrt(n)^(e mod 2); drops exponent-0 entries *)
Fixpoint am_norm (m : amono) : Q * amono :=
  match m with
  | [] => (1%Q, [])
  | (a, e) :: t =>
    let (k, t') := am_norm t in
    match a with
    | AIrr (USqrt n) =>
      let k' := Qred (k * qpow (inject_Z (Zpos n)) (Nat.div2 e))%Q in
      if Nat.odd e then (k', (a, 1) :: t') else (k', t')
    | AIrr U1 => (k, t')
    | _ => match e with O => (k, t') | _ => (k, (a, e) :: t') end
    end
  end.
Fixpoint am_eqb (x y : amono) : bool :=
  match x, y with
  | [], [] => true
  | (a, e) :: x', (b, f) :: y' => atom_eqb a b && Nat.eqb e f && am_eqb x' y'
  | _, _ => false
  end.

(* terms and polynomials *)
Record term : Type := mkT { tre : Q; tim : Q; tph : lin; tam : amono }.
Definition poly : Type := list term.

Definition teval (rho : env) (t : term) : C :=
  Cmult (Cmult (Q2R (tre t), Q2R (tim t)) (cis (lin_eval rho (tph t))))
        (RtoC (am_eval rho (tam t))).
Fixpoint peval (rho : env) (p : poly) : C :=
  match p with
  | [] => RtoC 0
  | t :: p' => Cplus (teval rho t) (peval rho p')
  end.

Definition key_eqb (s t : term) : bool := lin_eqb (tph s) (tph t) && am_eqb (tam s) (tam t).
Fixpoint pins (t : term) (p : poly) : poly :=
  match p with
  | [] => [t]
  | s :: p' =>
    if key_eqb t s
    then (let a := Qred (tre t + tre s)%Q in
          let b := Qred (tim t + tim s)%Q in
          if Qeq_bool a 0%Q && Qeq_bool b 0%Q then p' else mkT a b (tph s) (tam s) :: p')
    else s :: pins t p'
  end.
Definition padd (p q : poly) : poly := fold_right pins q p.
Definition tmul (s t : term) : term :=
  let (k, m) := am_norm (am_mul (tam s) (tam t)) in
  mkT (Qred (k * (tre s * tre t - tim s * tim t))%Q)
      (Qred (k * (tre s * tim t + tim s * tre t))%Q)
      (lin_add (tph s) (tph t)) m.
Definition pmul (p q : poly) : poly :=
  fold_right (fun s acc => padd (map (tmul s) q) acc) [] p.
Definition tneg (t : term) : term := mkT (Qopp (tre t)) (Qopp (tim t)) (tph t) (tam t).
Definition pneg (p : poly) : poly := map tneg p.
Definition tconj (t : term) : term := mkT (tre t) (Qopp (tim t)) (lin_neg (tph t)) (tam t).
Definition pconj (p : poly) : poly := map tconj p.
Definition pconst (a b : Q) : poly := [mkT a b [] []].
Definition patom (a : atom) : poly := [mkT 1%Q 0%Q [] [(a, 1)]].
Definition pcis (l : lin) : poly := [mkT 1%Q 0%Q l []].

Definition tzero (t : term) : bool := Qeq_bool (tre t) 0%Q && Qeq_bool (tim t) 0%Q.
Definition pzero (p : poly) : bool := forallb tzero p.

Definition psqrt (n : positive) : poly :=
  (* sqrt of a perfect square is folded: keeps e.g. sqrt(4) = 2 canonical *)
  let s := Pos.sqrt n in
  if Pos.eqb (s * s)%positive n then pconst (inject_Z (Zpos s)) 0%Q else patom (AIrr (USqrt n)).

(* constant phases e^{i*pi*q} with 12*q an integer are evaluated exactly in
   Q(i, sqrt 2, sqrt 3) = Q(zeta_24) (so that e.g. 1 + w + w^2 = 0 for w = e^{2 pi i/3},
   e^{i pi} = -1, e^{i pi/2} = i are known to the normaliser) *)
Fixpoint ppow (p : poly) (n : nat) : poly :=
  match n with O => pconst 1%Q 0%Q | S k => pmul p (ppow p k) end.
Definition zeta24 : poly :=     (* e^{i pi/12} = (sqrt6 + sqrt2)/4 + i (sqrt6 - sqrt2)/4 *)
  padd (pmul (pconst (1 # 4)%Q (1 # 4)%Q) (pmul (psqrt 2) (psqrt 3)))
       (pmul (pconst (1 # 4)%Q (- (1 # 4))%Q) (psqrt 2)).
Definition cispi (q : Q) : option poly :=
  let x := Qred (q * 12)%Q in
  if Pos.eqb (Qden x) 1 then Some (ppow zeta24 (Z.to_nat (Qnum x mod 24))) else None.
Fixpoint split_pi (l : lin) : Q * lin :=
  match l with
  | [] => (0%Q, [])
  | (g, q) :: t =>
    let (p, r) := split_pi t in
    if gen_eqb g (None, UPi) then (Qred (q + p)%Q, r) else (p, (g, q) :: r)
  end.
Definition pcis_red (l : lin) : poly :=
  let (q, r) := split_pi l in
  match cispi q with
  | Some p => pmul p (pcis r)
  | None => pcis l
  end.

Fixpoint rpoly (e : rexpr) : option poly :=
  match e with
  | RQ q => Some (pconst q 0%Q)
  | RPi => Some (patom (AIrr UPi))
  | RSqrt n => Some (psqrt n)
  | RVar k => Some (patom (AVar k))
  | RAdd a b =>
    match rpoly a, rpoly b with Some x, Some y => Some (padd x y) | _, _ => None end
  | RMul a b =>
    match rpoly a, rpoly b with Some x, Some y => Some (pmul x y) | _, _ => None end
  | RNeg a => match rpoly a with Some x => Some (pneg x) | None => None end
  | RCos a =>
    match lin_of a with
    | Some l => Some (pmul (pconst (1 # 2)%Q 0%Q) (padd (pcis_red l) (pcis_red (lin_neg l))))
    | None => None
    end
  | RSin a =>
    match lin_of a with
    | Some l => Some (pmul (pconst 0%Q (- (1 # 2))%Q) (padd (pcis_red l) (pneg (pcis_red (lin_neg l)))))
    | None => None
    end
  end.

Fixpoint cpoly (e : cexpr) : option poly :=
  match e with
  | CR r => rpoly r
  | CI => Some (pconst 0%Q 1%Q)
  | CAdd a b =>
    match cpoly a, cpoly b with Some x, Some y => Some (padd x y) | _, _ => None end
  | CMul a b =>
    match cpoly a, cpoly b with Some x, Some y => Some (pmul x y) | _, _ => None end
  | CNeg a => match cpoly a with Some x => Some (pneg x) | None => None end
  | CCis r => match lin_of r with Some l => Some (pcis_red l) | None => None end
  | CConj a => match cpoly a with Some x => Some (pconj x) | None => None end
  end.

(* the decision procedure used by every per-gate theorem *)
Definition ceqb (a b : cexpr) : bool :=
  match cpoly (CAdd a (CNeg b)) with
  | Some p => pzero p
  | None => false
  end.

(* ------------------------------------------------------------------ *)
(* (b) printer                                                          *)
(* ------------------------------------------------------------------ *)
Local Open Scope string_scope.
Definition str_pos (p : positive) : string := NilEmpty.string_of_uint (Pos.to_uint p).
Definition str_nat (n : nat) : string := NilEmpty.string_of_uint (Nat.to_uint n).
Definition str_Z (z : Z) : string :=
  match z with
  | Z0 => "0"
  | Zpos p => str_pos p
  | Zneg p => "-" ++ str_pos p
  end.

Fixpoint rprint (e : rexpr) : string :=
  match e with
  | RQ q => "(q " ++ str_Z (Qnum q) ++ " " ++ str_pos (Qden q) ++ ")"
  | RPi => "pi"
  | RSqrt n => "(sqrt " ++ str_pos n ++ ")"
  | RVar k => "(v " ++ str_nat k ++ ")"
  | RAdd a b => "(+ " ++ rprint a ++ " " ++ rprint b ++ ")"
  | RMul a b => "(* " ++ rprint a ++ " " ++ rprint b ++ ")"
  | RNeg a => "(- " ++ rprint a ++ ")"
  | RCos a => "(cos " ++ rprint a ++ ")"
  | RSin a => "(sin " ++ rprint a ++ ")"
  end.

Fixpoint cprint (e : cexpr) : string :=
  match e with
  | CR r => "(r " ++ rprint r ++ ")"
  | CI => "i"
  | CAdd a b => "(c+ " ++ cprint a ++ " " ++ cprint b ++ ")"
  | CMul a b => "(c* " ++ cprint a ++ " " ++ cprint b ++ ")"
  | CNeg a => "(c- " ++ cprint a ++ ")"
  | CCis r => "(cis " ++ rprint r ++ ")"
  | CConj a => "(conj " ++ cprint a ++ ")"
  end.

Definition print_row (r : list cexpr) : string :=
  "(" ++ String.concat " " (map cprint r) ++ ")".
Definition print_mat (m : list (list cexpr)) : string :=
  "(" ++ String.concat " " (map print_row m) ++ ")".
