(* lib/PermThm.v - lemmas about lib/Perm.v (C09 bookkeeping). *)
From Coq Require Import List Arith Bool PeanoNat Lia Permutation Sorted.
Import ListNotations.
From BQ Require Import lib.Perm.

(* ---- membership / nodup / index ------------------------------------------ *)
Lemma memb_In x l : memb x l = true <-> In x l.
Proof. induction l as [|y t IH]; simpl; [split; [discriminate|tauto]|].
  rewrite orb_true_iff, Nat.eqb_eq, IH. split; intros [H|H]; auto. Qed.

Lemma memb_false x l : memb x l = false <-> ~ In x l.
Proof. rewrite <- memb_In. destruct (memb x l); split; congruence. Qed.

Lemma nodupb_NoDup l : nodupb l = true <-> NoDup l.
Proof. induction l as [|x t IH]; simpl.
  - split; [constructor|reflexivity].
  - rewrite andb_true_iff, negb_true_iff, memb_false, IH. split.
    + intros [H1 H2]. constructor; auto.
    + intros H. inversion H; auto. Qed.

Lemma index_of_Some x l i : index_of x l = Some i -> i < length l /\ nth i l 0 = x.
Proof. revert i. induction l as [|y t IH]; simpl; intros i H; [discriminate|].
  destruct (Nat.eqb x y) eqn:E.
  - inversion H; subst. apply Nat.eqb_eq in E. split; [lia|auto].
  - destruct (index_of x t) as [j|]; [|discriminate]. inversion H; subst.
    destruct (IH j eq_refl). split; [lia|auto]. Qed.

Lemma index_of_In x l : In x l -> exists i, index_of x l = Some i.
Proof. induction l as [|y t IH]; simpl; [tauto|]. intros H.
  destruct (Nat.eqb x y) eqn:E; [eauto|].
  apply Nat.eqb_neq in E. destruct H as [H|H]; [congruence|].
  destruct (IH H) as [i ->]. eauto. Qed.

Lemma index_of_None x l : index_of x l = None <-> ~ In x l.
Proof. split.
  - intros H Hin. destruct (index_of_In _ _ Hin) as [i Hi]. congruence.
  - intros H. destruct (index_of x l) as [i|] eqn:E; auto.
    apply index_of_Some in E as [E1 E2]. exfalso. apply H. rewrite <- E2. apply nth_In; auto. Qed.

Lemma index_of_nth l i : NoDup l -> i < length l -> index_of (nth i l 0) l = Some i.
Proof. revert i. induction l as [|y t IH]; simpl; intros i Hnd Hi; [lia|].
  inversion Hnd as [|? ? Hny Hnd']; subst. destruct i as [|i].
  - rewrite Nat.eqb_refl. reflexivity.
  - destruct (Nat.eqb (nth i t 0) y) eqn:E.
    + apply Nat.eqb_eq in E. exfalso. apply Hny. rewrite <- E. apply nth_In. lia.
    + rewrite IH; auto. lia. Qed.

Lemma index_of_inj l x y i : index_of x l = Some i -> index_of y l = Some i -> x = y.
Proof. intros H1 H2. apply index_of_Some in H1, H2. destruct H1, H2. congruence. Qed.

Lemma nth_map_lt {A B} (f : A -> B) l i d d' : i < length l -> nth i (map f l) d = f (nth i l d').
Proof. revert i. induction l as [|x t IH]; simpl; intros i H; [lia|]. destruct i; auto. apply IH. lia. Qed.

(* ---- set_nth -------------------------------------------------------------- *)
Lemma set_nth_length i v l : length (set_nth i v l) = length l.
Proof. revert i. induction l as [|x t IH]; intros [|i]; simpl; auto. Qed.

Lemma nth_set_nth i v l k d :
  nth k (set_nth i v l) d = if Nat.eqb k i && Nat.ltb i (length l) then v else nth k l d.
Proof. revert i k. induction l as [|x t IH]; intros i k; simpl.
  - rewrite andb_false_r. destruct i; reflexivity.
  - destruct i as [|i]; destruct k as [|k]; simpl; auto.
    rewrite IH. reflexivity. Qed.

(* ---- transpositions ------------------------------------------------------- *)
Lemma tr_invol a b x : tr a b (tr a b x) = x.
Proof. unfold tr.
  destruct (Nat.eqb_spec x a); subst.
  - destruct (Nat.eqb_spec b a); subst; auto. rewrite Nat.eqb_refl. reflexivity.
  - destruct (Nat.eqb_spec x b); subst.
    + rewrite Nat.eqb_refl. reflexivity.
    + destruct (Nat.eqb_spec x a); [congruence|]. destruct (Nat.eqb_spec x b); [congruence|]. reflexivity.
Qed.

Lemma tr_inj a b x y : tr a b x = tr a b y -> x = y.
Proof. intros H. rewrite <- (tr_invol a b x), <- (tr_invol a b y). congruence. Qed.

Lemma tr_lt a b n x : a < n -> b < n -> x < n -> tr a b x < n.
Proof. unfold tr. intros. destruct (Nat.eqb x a), (Nat.eqb x b); auto. Qed.

Lemma tr_sym a b x : tr a b x = tr b a x.
Proof. unfold tr. destruct (Nat.eqb_spec x a), (Nat.eqb_spec x b); subst; auto. Qed.

Lemma NoDup_map_inj {A B} (f : A -> B) l : (forall x y, f x = f y -> x = y) -> NoDup l -> NoDup (map f l).
Proof. intros Hf. induction 1 as [|x l Hx _ IH]; simpl; constructor; auto.
  rewrite in_map_iff. intros (y & E & Hy). apply Hf in E. subst. auto. Qed.

Lemma wfperm_map_tr n a b pi : a < n -> b < n -> wfperm n pi -> wfperm n (map (tr a b) pi).
Proof. intros Ha Hb (Hnd & Hl & Hr). repeat split.
  - apply NoDup_map_inj; auto. apply tr_inj.
  - rewrite map_length; auto.
  - intros x Hx. apply in_map_iff in Hx as (y & <- & Hy). apply tr_lt; auto. Qed.

(* on a duplicate-free list containing both values, the index-based update of
   _apply_swap is the value-level transposition *)
Theorem apply_swap_tr a b pi :
  NoDup pi -> In a pi -> In b pi -> apply_swap (a, b) pi = Some (map (tr a b) pi).
Proof. intros Hnd Ha Hb. unfold apply_swap; simpl.
  destruct (index_of_In _ _ Ha) as [l1 H1]. destruct (index_of_In _ _ Hb) as [l2 H2].
  rewrite H1, H2. f_equal.
  destruct (index_of_Some _ _ _ H1) as [L1 N1]. destruct (index_of_Some _ _ _ H2) as [L2 N2].
  apply nth_ext with (d := 0) (d' := 0).
  - unfold swap_at. rewrite !set_nth_length, map_length. reflexivity.
  - intros k Hk. unfold swap_at in *. rewrite !set_nth_length in Hk.
    rewrite !nth_set_nth, set_nth_length.
    assert (E : nth k (map (tr a b) pi) 0 = tr a b (nth k pi 0)).
    { apply nth_map_lt; auto. }
    rewrite E, N1, N2.
    assert (L1' : (l1 <? length pi) = true) by (apply Nat.ltb_lt; auto).
    assert (L2' : (l2 <? length pi) = true) by (apply Nat.ltb_lt; auto).
    rewrite L1', L2', !andb_true_r. unfold tr.
    destruct (Nat.eqb_spec k l2) as [->|K2].
    + rewrite N2. destruct (Nat.eqb_spec b a); [congruence|]. rewrite Nat.eqb_refl. reflexivity.
    + destruct (Nat.eqb_spec k l1) as [->|K1].
      * rewrite N1, Nat.eqb_refl. reflexivity.
      * destruct (Nat.eqb_spec (nth k pi 0) a) as [Ea|Ea].
        { exfalso. apply K1. rewrite <- Ea in H1. rewrite index_of_nth in H1; auto. congruence. }
        destruct (Nat.eqb_spec (nth k pi 0) b) as [Eb|Eb]; auto.
        exfalso. apply K2. rewrite <- Eb in H2. rewrite index_of_nth in H2; auto. congruence. Qed.

Lemma apply_swap_Some_In e pi pi' : apply_swap e pi = Some pi' -> In (fst e) pi /\ In (snd e) pi.
Proof. unfold apply_swap. destruct (index_of (fst e) pi) eqn:E1; [|discriminate].
  destruct (index_of (snd e) pi) eqn:E2; [|discriminate]. intros _.
  split; [destruct (index_of_In (fst e) pi)|]; try (apply index_of_Some in E1 as [? <-]; apply nth_In; auto);
  try (apply index_of_Some in E2 as [? <-]; apply nth_In; auto). Qed.

Lemma wfperm_In n pi x : wfperm n pi -> (In x pi <-> x < n).
Proof. intros (Hnd & Hl & Hr). split; [apply Hr|]. intros Hx.
  (* pigeonhole: a duplicate-free list of n numbers below n contains all of them *)
  assert (Hincl : incl (seq 0 n) pi).
  { apply NoDup_length_incl; [exact Hnd| rewrite seq_length; lia|].
    intros y Hy. apply in_seq. split; [lia|]. simpl. apply Hr; auto. }
  apply Hincl. apply in_seq. lia. Qed.

Theorem apply_swap_wfperm n a b pi :
  wfperm n pi -> a < n -> b < n ->
  apply_swap (a, b) pi = Some (map (tr a b) pi) /\ wfperm n (map (tr a b) pi).
Proof. intros Hw Ha Hb. split.
  - apply apply_swap_tr; [apply Hw| |]; apply (wfperm_In n); auto.
  - apply wfperm_map_tr; auto. Qed.

(* an enabled swap on a permutation names two values below n *)
Lemma apply_swap_inv n e pi pi' :
  wfperm n pi -> apply_swap e pi = Some pi' ->
  fst e < n /\ snd e < n /\ pi' = map (tr (fst e) (snd e)) pi /\ wfperm n pi'.
Proof. intros Hw H. destruct (apply_swap_Some_In _ _ _ H) as [Ha Hb].
  apply (wfperm_In n) in Ha, Hb; auto. destruct e as [a b]; simpl in *.
  destruct (apply_swap_wfperm n a b pi Hw Ha Hb) as [E W]. rewrite E in H. inversion H; subst. auto. Qed.

(* applying the same swap twice restores pi (backtracking cancels) *)
Lemma map_tr_invol a b l : map (tr a b) (map (tr a b) l) = l.
Proof. rewrite map_map. rewrite <- (map_id l) at 2. apply map_ext. apply tr_invol. Qed.

Lemma apply_swaps_app es fs pi :
  apply_swaps (es ++ fs) pi = match apply_swaps es pi with Some p => apply_swaps fs p | None => None end.
Proof. revert pi. induction es as [|e t IH]; simpl; intros pi; auto.
  destruct (apply_swap e pi); auto. Qed.

Lemma apply_swaps_wf n es pi pi' :
  wfperm n pi -> apply_swaps es pi = Some pi' ->
  wfperm n pi' /\ pi' = map (tr_all es) pi /\ forall e, In e es -> fst e < n /\ snd e < n.
Proof. revert pi. induction es as [|e t IH]; simpl; intros pi Hw H.
  - inversion H; subst. split; [auto|split].
    + unfold tr_all; simpl. symmetry; apply map_id.
    + intros e [].
  - destruct (apply_swap e pi) as [p|] eqn:E; [|discriminate].
    destruct (apply_swap_inv n e pi p Hw E) as (Ha & Hb & -> & Hw').
    destruct (IH _ Hw' H) as (W & Eq & R). split; [auto|split].
    + rewrite Eq, map_map. apply map_ext. intros x. reflexivity.
    + intros e' [<-|Hin]; auto. Qed.

Theorem apply_swaps_cancel n es pi pi' :
  wfperm n pi -> apply_swaps es pi = Some pi' -> apply_swaps (rev es) pi' = Some pi.
Proof. revert pi pi'. induction es as [|e t IH]; simpl; intros pi pi' Hw H.
  - inversion H; reflexivity.
  - destruct (apply_swap e pi) as [p|] eqn:E; [|discriminate].
    destruct (apply_swap_inv n e pi p Hw E) as (Ha & Hb & -> & Hw').
    rewrite apply_swaps_app, (IH _ _ Hw' H). simpl.
    destruct e as [a b]; simpl in *.
    destruct (apply_swap_wfperm n a b _ Hw' Ha Hb) as [E' _]. rewrite E', map_tr_invol. reflexivity. Qed.

(* the difference to a by-value update: they agree only through the inverse *)
Lemma tr_all_app es fs x : tr_all (es ++ fs) x = tr_all fs (tr_all es x).
Proof. unfold tr_all. apply fold_left_app. Qed.

(* ---- wfperm basics -------------------------------------------------------- *)
Lemma wfpermb_wfperm n l : wfpermb n l = true <-> wfperm n l.
Proof. unfold wfpermb, wfperm. rewrite !andb_true_iff, nodupb_NoDup, Nat.eqb_eq, forallb_forall.
  split.
  - intros [[H1 H2] H3]. split; [auto|split; auto]. intros x Hx. apply Nat.ltb_lt. auto.
  - intros (H1 & H2 & H3). split; [split; auto|]. intros x Hx. apply Nat.ltb_lt. auto. Qed.

Lemma wfperm_idperm n : wfperm n (idperm n).
Proof. unfold idperm. repeat split; [apply seq_NoDup|apply seq_length|].
  intros x Hx. apply in_seq in Hx. lia. Qed.

Lemma injintob_injinto m l : injintob m l = true <-> injinto m l.
Proof. unfold injintob, injinto. rewrite andb_true_iff, nodupb_NoDup, forallb_forall.
  split; intros [H1 H2]; split; auto; intros x Hx; apply Nat.ltb_lt; auto. Qed.

Lemma wfperm_injinto n l : wfperm n l -> injinto n l.
Proof. intros (H1 & _ & H3). split; auto. Qed.

(* ---- composition ---------------------------------------------------------- *)
Lemma compose_length p q : length (compose p q) = length q.
Proof. apply map_length. Qed.

Lemma compose_nth p q i : i < length q -> nth i (compose p q) 0 = nth (nth i q 0) p 0.
Proof. intros H. unfold compose.
  apply (nth_map_lt (fun x => nth x p 0)); auto. Qed.

Lemma nth_inj_NoDup l i j : NoDup l -> i < length l -> j < length l -> nth i l 0 = nth j l 0 -> i = j.
Proof. intros Hnd Hi Hj E. apply (NoDup_nth l 0); auto. Qed.

(* injectivity is preserved by composition: q injective with values that are
   indices of the injective p *)
Theorem compose_injinto m p q :
  injinto m p -> injinto (length p) q -> injinto m (compose p q).
Proof. intros [Hp Rp] [Hq Rq]. split.
  - unfold compose. induction q as [|x t IH]; simpl; [constructor|].
    inversion Hq as [|? ? Hx Ht]; subst. constructor.
    + rewrite in_map_iff. intros (y & E & Hy). apply Hx.
      assert (x = y); [|subst; auto].
      symmetry. apply (nth_inj_NoDup p); auto; apply Rq; simpl; auto.
    + apply IH; auto. intros z Hz. apply Rq. right; auto.
  - intros x Hx. unfold compose in Hx. apply in_map_iff in Hx as (y & <- & Hy).
    apply Rp. apply nth_In. apply Rq; auto. Qed.

Lemma compose_opt_Some p q r : compose_opt p q = Some r -> r = compose p q /\ forall x, In x q -> x < length p.
Proof. unfold compose_opt. destruct (forallb _ q) eqn:E; [|discriminate].
  intros H; inversion H; subst. split; auto. intros x Hx.
  rewrite forallb_forall in E. apply Nat.ltb_lt. auto. Qed.

Lemma compose_assoc p q r : (forall x, In x r -> x < length q) -> compose p (compose q r) = compose (compose p q) r.
Proof. intros H. unfold compose. rewrite map_map. apply map_ext_in. intros x Hx.
  symmetry. apply (compose_nth p q). auto. Qed.

Lemma compose_id_r p : compose p (idperm (length p)) = p.
Proof. apply nth_ext with (d := 0) (d' := 0).
  - rewrite compose_length. apply seq_length.
  - intros i Hi. rewrite compose_length in Hi. rewrite compose_nth; auto.
    unfold idperm in *. rewrite seq_length in Hi. rewrite seq_nth; auto. Qed.

Lemma compose_id_l n q : (forall x, In x q -> x < n) -> compose (idperm n) q = q.
Proof. intros H. unfold compose. rewrite <- (map_id q) at 2. apply map_ext_in.
  intros x Hx. unfold idperm. rewrite seq_nth; auto. Qed.

Lemma compose_map f p q : (forall x, In x q -> x < length p) -> compose (map f p) q = map f (compose p q).
Proof. intros H. unfold compose. rewrite map_map. apply map_ext_in. intros x Hx.
  symmetry. rewrite (nth_map_lt f p x 0 0); auto. Qed.

(* ---- preimage / inverse --------------------------------------------------- *)
Lemma compose_preimage pi L : (forall x, In x L -> In x pi) -> compose pi (preimage pi L) = L.
Proof. intros H. unfold compose, preimage. rewrite map_map. rewrite <- (map_id L) at 2.
  apply map_ext_in. intros x Hx. destruct (index_of_In _ _ (H x Hx)) as [i Hi]. rewrite Hi.
  apply index_of_Some in Hi. apply Hi. Qed.

Lemma preimage_compose pi l : NoDup pi -> (forall x, In x l -> x < length pi) -> preimage pi (compose pi l) = l.
Proof. intros Hnd H. unfold compose, preimage. rewrite map_map. rewrite <- (map_id l) at 2.
  apply map_ext_in. intros x Hx. rewrite index_of_nth; auto. Qed.

Lemma preimage_lt n pi L x : wfperm n pi -> (forall y, In y L -> y < n) -> In x (preimage pi L) -> x < n.
Proof. intros Hw HL Hx. unfold preimage in Hx. apply in_map_iff in Hx as (y & <- & Hy).
  assert (In y pi) by (apply (wfperm_In n); auto).
  destruct (index_of_In _ _ H) as [i Hi]. rewrite Hi. apply index_of_Some in Hi.
  destruct Hw as (_ & Hl & _). lia. Qed.

Lemma inverse_length p : length (inverse p) = length p.
Proof. unfold inverse. rewrite map_length, seq_length. reflexivity. Qed.

Theorem compose_inverse_r n p : wfperm n p -> compose p (inverse p) = idperm n.
Proof. intros Hw. pose proof Hw as (Hnd & Hl & Hr).
  assert (E : inverse p = preimage p (seq 0 n)) by (unfold inverse, preimage; rewrite Hl; reflexivity).
  rewrite E. unfold idperm. apply compose_preimage. intros x Hx.
  apply (wfperm_In n); auto. apply in_seq in Hx. lia. Qed.

Theorem compose_inverse_l n p : wfperm n p -> compose (inverse p) p = idperm n.
Proof. intros Hw. pose proof Hw as (Hnd & Hl & Hr).
  apply nth_ext with (d := 0) (d' := 0).
  - rewrite compose_length. unfold idperm. rewrite seq_length. auto.
  - intros i Hi. rewrite compose_length in Hi. rewrite compose_nth; auto.
    unfold inverse. assert (Hx : nth i p 0 < n) by (apply Hr, nth_In; auto).
    rewrite (nth_map_lt _ _ _ _ 0); [|rewrite seq_length; lia].
    rewrite seq_nth; [|lia]. simpl. rewrite index_of_nth; auto.
    unfold idperm. rewrite seq_nth; lia. Qed.

Lemma wfperm_inverse n p : wfperm n p -> wfperm n (inverse p).
Proof. intros Hw. pose proof Hw as (Hnd & Hl & Hr). repeat split.
  - unfold inverse. rewrite Hl.
    assert (forall l, NoDup l -> (forall x, In x l -> In x p) ->
       NoDup (map (fun i => match index_of i p with Some j => j | None => n end) l)) as H.
    { induction 1 as [|x l Hx _ IH]; simpl; intros Hin; constructor.
      - rewrite in_map_iff. intros (y & E & Hy). apply Hx.
        destruct (index_of_In x p) as [i Hi]; [apply Hin; simpl; auto|].
        destruct (index_of_In y p) as [j Hj]; [apply Hin; simpl; auto|].
        rewrite Hi, Hj in E. subst. rewrite (index_of_inj _ _ _ _ Hi Hj). auto.
      - apply IH. intros; apply Hin; simpl; auto. }
    apply H; [apply seq_NoDup|]. intros x Hx. apply (wfperm_In n); auto. apply in_seq in Hx. lia.
  - rewrite inverse_length; auto.
  - intros x Hx. unfold inverse in Hx. apply in_map_iff in Hx as (y & <- & Hy).
    apply in_seq in Hy. assert (In y p) by (apply (wfperm_In n); auto; lia).
    destruct (index_of_In _ _ H) as [i Hi]. rewrite Hi. apply index_of_Some in Hi. lia. Qed.

Lemma wfperm_compose n p q : wfperm n p -> wfperm n q -> wfperm n (compose p q).
Proof. intros Hp Hq. pose proof Hp as (Pnd & Pl & Pr). pose proof Hq as (Qnd & Ql & Qr).
  destruct (compose_injinto n p q) as [H1 H2].
  - split; auto.
  - rewrite Pl. split; auto.
  - repeat split; auto. rewrite compose_length; auto. Qed.

(* ---- sorted(perm) and _apply_perm ---------------------------------------- *)
Lemma insert_sorted_perm x l : Permutation (insert_sorted x l) (x :: l).
Proof. induction l as [|y t IH]; simpl; auto. destruct (Nat.leb x y); auto.
  eapply perm_trans; [apply perm_skip, IH|apply perm_swap]. Qed.

Lemma sort_perm l : Permutation (sort l) l.
Proof. induction l as [|x t IH]; simpl; auto.
  eapply perm_trans; [apply insert_sorted_perm|]. auto. Qed.

Lemma insert_sorted_sorted x l : Sorted le l -> Sorted le (insert_sorted x l).
Proof. induction l as [|y t IH]; simpl; intros H.
  - repeat constructor.
  - destruct (Nat.leb_spec x y).
    + constructor; auto.
    + inversion H as [|? ? Hs Hh]; subst. constructor; auto.
      destruct t as [|z t]; simpl in *; [repeat constructor; lia|].
      destruct (Nat.leb_spec x z); constructor; try lia. inversion Hh; auto. Qed.

Lemma sort_sorted l : Sorted le (sort l).
Proof. induction l; simpl; [constructor|apply insert_sorted_sorted; auto]. Qed.

(* a sorted duplicate-free list of n numbers below n is 0..n-1 *)
Lemma sorted_lt_seq : forall l k, StronglySorted lt l -> (forall x, In x l -> k <= x < k + length l) -> l = seq k (length l).
Proof. induction l as [|y t IH]; intros k Hs Hr; simpl; auto.
  inversion Hs as [|? ? Hs' Hall]; subst. rewrite Forall_forall in Hall.
  assert (y = k).
  { destruct (Nat.eq_dec y k); auto. exfalso.
    assert (Hy : k <= y < k + S (length t)) by (apply Hr; simpl; auto).
    (* all of y::t lie in [k+1, k+n): n distinct numbers in n-1 slots *)
    assert (Hincl : incl (y :: t) (seq (S k) (length t))).
    { intros z [<-|Hz]; apply in_seq.
      - simpl in Hy. lia.
      - specialize (Hall z Hz). specialize (Hr z (or_intror Hz)). simpl in Hr. lia. }
    assert (NoDup (y :: t)).
    { constructor.
      - intros Hin. specialize (Hall y Hin). lia.
      - clear -Hs'. induction Hs' as [|a l _ IHl Hf]; constructor; auto.
        rewrite Forall_forall in Hf. intros Hin. specialize (Hf a Hin). lia. }
    pose proof (NoDup_incl_length H Hincl) as Hlen. rewrite seq_length in Hlen. simpl in Hlen. lia. }
  subst y. f_equal. apply IH; auto. intros x Hx.
  specialize (Hall x Hx). specialize (Hr x (or_intror Hx)). simpl in Hr. lia. Qed.

Lemma sort_wfperm n l : wfperm n l -> sort l = seq 0 n.
Proof. intros (Hnd & Hl & Hr).
  assert (Hp := sort_perm l).
  assert (Hlen : length (sort l) = n) by (rewrite (Permutation_length Hp); auto).
  rewrite <- Hlen. apply sorted_lt_seq.
  - assert (Hs := sort_sorted l).
    assert (Hnd' : NoDup (sort l)) by (eapply Permutation_NoDup; [apply Permutation_sym, Hp|auto]).
    clear -Hs Hnd'. induction (sort l) as [|x t IH]; [constructor|].
    inversion Hs as [|? ? Hs' Hh]; subst. inversion Hnd' as [|? ? Hx Ht]; subst.
    specialize (IH Hs' Ht). constructor; auto.
    (* x <= every later element, and x differs from all of them *)
    assert (Hle : Forall (le x) t).
    { apply Sorted_StronglySorted in Hs; [|intros a b c; lia]. inversion Hs; auto. }
    rewrite Forall_forall in *. intros y Hy. specialize (Hle y Hy).
    destruct (Nat.eq_dec x y); [subst; tauto|lia].
  - intros x Hx. rewrite Hlen. split; [lia|]. simpl. apply Hr.
    eapply Permutation_in; [apply Hp|auto]. Qed.

Lemma assoc_last_combine_seq : forall (vs : list nat) k q acc,
  assoc_last q (combine (seq k (length vs)) vs) acc =
  if Nat.leb k q && Nat.ltb q (k + length vs) then Some (nth (q - k) vs 0) else acc.
Proof. induction vs as [|v t IH]; intros k q acc.
  - simpl. destruct (Nat.leb_spec k q), (Nat.ltb_spec q (k + 0)); simpl; auto; lia.
  - cbn [length seq combine assoc_last]. rewrite IH.
    destruct (Nat.eqb_spec q k) as [->|Hne].
    + assert (E1 : (S k <=? k) = false) by (apply Nat.leb_gt; lia).
      assert (E2 : (k <=? k) = true) by (apply Nat.leb_le; lia).
      assert (E3 : (k <? k + S (length t)) = true) by (apply Nat.ltb_lt; lia).
      rewrite E1, E2, E3. simpl. rewrite Nat.sub_diag. reflexivity.
    + destruct (le_lt_dec (S k) q) as [Hle|Hgt].
      * assert (E1 : (S k <=? q) = true) by (apply Nat.leb_le; lia).
        assert (E2 : (k <=? q) = true) by (apply Nat.leb_le; lia).
        rewrite E1, E2, !andb_true_l.
        destruct (le_lt_dec (S k + length t) q) as [Hb|Hb].
        { assert (E3 : (q <? S k + length t) = false) by (apply Nat.ltb_ge; lia).
          assert (E4 : (q <? k + S (length t)) = false) by (apply Nat.ltb_ge; lia).
          rewrite E3, E4. reflexivity. }
        { assert (E3 : (q <? S k + length t) = true) by (apply Nat.ltb_lt; lia).
          assert (E4 : (q <? k + S (length t)) = true) by (apply Nat.ltb_lt; lia).
          rewrite E3, E4. destruct (q - k) as [|d] eqn:E; [lia|].
          replace (q - S k) with d by lia. reflexivity. }
      * assert (E1 : (S k <=? q) = false) by (apply Nat.leb_gt; lia).
        assert (E2 : (k <=? q) = false) by (apply Nat.leb_gt; lia).
        rewrite E1, E2. reflexivity. Qed.

Lemma fold_left_ext_In {A B} (f g : A -> B -> A) l a :
  (forall a x, In x l -> f a x = g a x) -> fold_left f l a = fold_left g l a.
Proof. revert a. induction l as [|x t IH]; simpl; intros a H; [reflexivity|].
  rewrite H by (left; reflexivity). apply IH. intros a' y Hy. apply H. right. exact Hy. Qed.

(* fold of point updates over a duplicate-free key list *)
Lemma fold_set_nth_nth (f : nat -> nat) : forall (keys : list nat) (acc : list nat) i,
  (forall q, In q keys -> q < length acc) ->
  nth i (fold_left (fun a q => set_nth q (f q) a) keys acc) 0 =
  if memb i keys then f i else nth i acc 0.
Proof. induction keys as [|q t IH]; intros acc i Hr; simpl; auto.
  rewrite IH.
  - rewrite nth_set_nth. assert (Hq : (q <? length acc) = true) by (apply Nat.ltb_lt, Hr; simpl; auto).
    rewrite Hq, andb_true_r. destruct (memb i t) eqn:M; [rewrite orb_true_r; auto|].
    rewrite orb_false_r. destruct (Nat.eqb_spec i q); subst; auto.
  - intros z Hz. rewrite set_nth_length. apply Hr. simpl; auto. Qed.

(* _apply_perm with a full permutation (the layout pass: perm = pi, list = placement):
   new[i] = old[perm[i]] *)
Theorem apply_perm_full n perm pl :
  wfperm n perm -> length pl = n -> apply_perm perm pl = Some (compose pl perm).
Proof. intros Hw Hl. pose proof Hw as (Hnd & Hn & Hr). unfold apply_perm.
  assert (Hall : forallb (fun x => x <? length pl) perm = true).
  { apply forallb_forall. intros x Hx. apply Nat.ltb_lt. rewrite Hl. auto. }
  rewrite Hall. f_equal. rewrite (sort_wfperm n perm Hw).
  set (vs := map (fun p => nth p pl 0) perm).
  assert (Hvs : length vs = n) by (unfold vs; rewrite map_length; auto).
  rewrite <- Hvs.
  (* every q in perm is a key *)
  rewrite fold_left_ext_In with (g := fun acc q => set_nth q (nth q vs 0) acc).
  2:{ intros acc q Hq. rewrite assoc_last_combine_seq. simpl.
      assert ((q <? length vs) = true) by (apply Nat.ltb_lt; rewrite Hvs; auto).
      rewrite H. simpl. rewrite Nat.sub_0_r. reflexivity. }
  apply nth_ext with (d := 0) (d' := 0).
  - rewrite compose_length.
    assert (forall keys acc, length (fold_left (fun a q => set_nth q (nth q vs 0) a) keys acc) = length acc) as HL.
    { induction keys; simpl; intros; auto. rewrite IHkeys, set_nth_length. auto. }
    rewrite HL. lia.
  - intros i Hi.
    assert (forall keys acc, length (fold_left (fun a q => set_nth q (nth q vs 0) a) keys acc) = length acc) as HL.
    { induction keys; simpl; intros; auto. rewrite IHkeys, set_nth_length. auto. }
    rewrite HL in Hi. rewrite (fold_set_nth_nth (fun q => nth q vs 0)).
    2:{ intros q Hq. rewrite Hl. auto. }
    assert (M : memb i perm = true) by (apply memb_In, (wfperm_In n); auto; lia).
    rewrite M. unfold vs. fold (compose pl perm). reflexivity. Qed.

(* ---- _apply_perm with a permutation of a SUBSET of the indices (PAM) ----------------- *)
Lemma assoc_last_notin k : forall keys vals acc, ~ In k keys -> assoc_last k (combine keys vals) acc = acc.
Proof. induction keys as [|x t IH]; intros vals acc H; simpl; auto.
  destruct vals as [|v u]; simpl; auto.
  destruct (Nat.eqb_spec k x) as [->|Hne]; [exfalso; apply H; left; auto|].
  apply IH. intros Hc. apply H. right; auto. Qed.

Lemma assoc_last_combine_NoDup : forall keys vals acc j, NoDup keys -> length keys = length vals -> j < length keys ->
  assoc_last (nth j keys 0) (combine keys vals) acc = Some (nth j vals 0).
Proof. induction keys as [|x t IH]; intros vals acc j Hnd Hl Hj; simpl in *; [lia|].
  destruct vals as [|v u]; [discriminate|]. simpl in *. inversion Hnd as [|? ? Hx Ht]; subst.
  destruct j as [|j].
  - rewrite Nat.eqb_refl. apply assoc_last_notin. exact Hx.
  - destruct (Nat.eqb_spec (nth j t 0) x) as [E|E].
    + exfalso. apply Hx. rewrite <- E. apply nth_In. lia.
    + apply IH; auto; lia. Qed.

Lemma fold_set_nth_length (f : nat -> nat) : forall keys acc,
  length (fold_left (fun a q => set_nth q (f q) a) keys acc) = length acc.
Proof. induction keys as [|q t IH]; simpl; intros acc; auto. rewrite IH, set_nth_length. reflexivity. Qed.

Theorem apply_perm_sub n perm pi :
  wfperm n pi -> NoDup perm -> (forall x, In x perm -> x < n) ->
  exists pi', apply_perm perm pi = Some pi' /\ wfperm n pi'.
Proof. intros Hw Hnd Hr. pose proof Hw as (Pnd & Pl & Pr). unfold apply_perm.
  assert (Hall : forallb (fun x => x <? length pi) perm = true).
  { apply forallb_forall. intros x Hx. apply Nat.ltb_lt. rewrite Pl. auto. }
  rewrite Hall.
  set (keys := sort perm). set (vals := map (fun p => nth p pi 0) perm).
  assert (Hperm : Permutation keys perm) by apply sort_perm.
  assert (Hkn : NoDup keys) by (eapply Permutation_NoDup; [apply Permutation_sym, Hperm|auto]).
  assert (Hkl : length keys = length vals).
  { unfold vals. rewrite map_length. apply Permutation_length. exact Hperm. }
  assert (Hlen : length keys = length perm) by (apply Permutation_length; exact Hperm).
  (* the value written at position q in perm *)
  set (f := fun q => match assoc_last q (combine keys vals) None with Some v => v | None => 0 end).
  assert (Hf : forall q, In q perm -> exists j, j < length perm /\ nth j keys 0 = q /\
                 assoc_last q (combine keys vals) None = Some (nth (nth j perm 0) pi 0)).
  { intros q Hq. assert (Hqk : In q keys) by (eapply Permutation_in; [apply Permutation_sym, Hperm|auto]).
    destruct (In_nth keys q 0 Hqk) as (j & Hj & Ej). exists j. split; [lia|]. split; auto.
    rewrite <- Ej. rewrite assoc_last_combine_NoDup; auto. f_equal. unfold vals.
    apply (nth_map_lt (fun p => nth p pi 0)). lia. }
  rewrite fold_left_ext_In with (g := fun acc q => set_nth q (f q) acc).
  2:{ intros acc q Hq. destruct (Hf q Hq) as (j & _ & _ & E). unfold f. rewrite E. reflexivity. }
  eexists. split; [reflexivity|].
  set (pi' := fold_left (fun acc q => set_nth q (f q) acc) perm pi).
  assert (Hl' : length pi' = n) by (unfold pi'; rewrite fold_set_nth_length; auto).
  assert (Hnth : forall i, nth i pi' 0 = if memb i perm then f i else nth i pi 0).
  { intros i. unfold pi'. apply fold_set_nth_nth. intros q Hq. rewrite Pl. auto. }
  (* every entry of pi' is an entry of pi, at an index g i that is injective in i *)
  assert (Hsrc : forall i, i < n -> exists x, x < n /\ nth i pi' 0 = nth x pi 0 /\
                   (In i perm -> In x perm) /\ (~ In i perm -> x = i)).
  { intros i Hi. rewrite Hnth. destruct (memb i perm) eqn:M.
    - apply memb_In in M. destruct (Hf i M) as (j & Hj & _ & E). unfold f. rewrite E.
      exists (nth j perm 0). assert (In (nth j perm 0) perm) by (apply nth_In; auto).
      split; [auto|]. split; [reflexivity|]. split; [auto|]. intros Hc. contradiction.
    - apply memb_false in M. exists i. split; [auto|]. split; [reflexivity|]. split; [contradiction|auto]. }
  split; [|split; [exact Hl'|]].
  - apply (NoDup_nth pi' 0). intros a b Ha Hb E. rewrite Hl' in Ha, Hb.
    rewrite !Hnth in E.
    destruct (memb a perm) eqn:Ma; destruct (memb b perm) eqn:Mb.
    + apply memb_In in Ma, Mb. destruct (Hf a Ma) as (ja & Hja & Eja & Ea). destruct (Hf b Mb) as (jb & Hjb & Ejb & Eb).
      unfold f in E. rewrite Ea, Eb in E.
      assert (nth ja perm 0 = nth jb perm 0).
      { apply (nth_inj_NoDup pi); auto; rewrite Pl; apply Hr; apply nth_In; auto. }
      assert (ja = jb) by (apply (nth_inj_NoDup perm); auto). subst jb. congruence.
    + apply memb_In in Ma. apply memb_false in Mb. destruct (Hf a Ma) as (ja & Hja & _ & Ea).
      unfold f in E. rewrite Ea in E.
      assert (nth ja perm 0 = b).
      { apply (nth_inj_NoDup pi); auto; rewrite Pl; auto. apply Hr. apply nth_In; auto. }
      exfalso. apply Mb. rewrite <- H. apply nth_In; auto.
    + apply memb_false in Ma. apply memb_In in Mb. destruct (Hf b Mb) as (jb & Hjb & _ & Eb).
      unfold f in E. rewrite Eb in E.
      assert (a = nth jb perm 0).
      { apply (nth_inj_NoDup pi); auto; rewrite Pl; auto. apply Hr. apply nth_In; auto. }
      exfalso. apply Ma. rewrite H. apply nth_In; auto.
    + apply (nth_inj_NoDup pi); auto; rewrite Pl; auto.
  - intros x Hx. destruct (In_nth pi' x 0 Hx) as (i & Hi & <-). rewrite Hl' in Hi.
    destruct (Hsrc i Hi) as (y & Hy & -> & _). apply Pr. apply nth_In. rewrite Pl. exact Hy. Qed.
