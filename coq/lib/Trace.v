From Coq Require Import List Arith Bool Lia Permutation.
Import ListNotations.

Section Trace.
Variable op : Type.
Variable loc : op -> list nat.

Definition touches (q : nat) (a : op) : bool := existsb (Nat.eqb q) (loc a).
Definition indep (a b : op) : Prop := forall q, In q (loc a) -> ~ In q (loc b).
Definition proj (q : nat) (s : list op) : list op := filter (touches q) s.

Lemma touches_In q a : touches q a = true <-> In q (loc a).
Proof. unfold touches. rewrite existsb_exists. split.
  - intros [x [Hx He]]. apply Nat.eqb_eq in He. subst. exact Hx.
  - intros H. exists q. split; [exact H| apply Nat.eqb_refl]. Qed.

Inductive equiv : list op -> list op -> Prop :=
| eq_refl_ s : equiv s s
| eq_swap a b s t : indep a b -> equiv (s ++ a :: b :: t) (s ++ b :: a :: t)
| eq_trans s t u : equiv s t -> equiv t u -> equiv s u.

Lemma equiv_cons a s t : equiv s t -> equiv (a :: s) (a :: t).
Proof. induction 1 as [s|x y s t H|s t u _ IH1 _ IH2].
  - apply eq_refl_.
  - apply (eq_swap x y (a :: s) t H).
  - eapply eq_trans; eauto. Qed.

Lemma equiv_sym s t : equiv s t -> equiv t s.
Proof. induction 1 as [s|x y s t H|s t u _ IH1 _ IH2].
  - apply eq_refl_.
  - apply eq_swap. intros q Hq Hq'. exact (H q Hq' Hq).
  - eapply eq_trans; eauto. Qed.

(* moving a to the front across an independent prefix *)
Lemma equiv_move_front a t1 t2 :
  (forall b, In b t1 -> indep b a) -> equiv (t1 ++ a :: t2) (a :: t1 ++ t2).
Proof. induction t1 as [|b t1 IH]; intros H; simpl.
  - apply eq_refl_.
  - eapply eq_trans.
    + apply equiv_cons. apply IH. intros c Hc. apply H. right. exact Hc.
    + apply (eq_swap b a [] (t1 ++ t2)). apply H. left. reflexivity. Qed.

(* split t at the first op touching q *)
Lemma first_touch q t x r :
  proj q t = x :: r ->
  exists t1 t2, t = t1 ++ x :: t2 /\ (forall b, In b t1 -> touches q b = false) /\ touches q x = true /\ proj q t2 = r.
Proof. induction t as [|b t IH]; simpl; intros H; [discriminate|].
  destruct (touches q b) eqn:E.
  - inversion H; subst. exists [], t. simpl. repeat split; auto. intros ? [].
  - destruct (IH H) as (t1 & t2 & -> & H1 & H2 & H3).
    exists (b :: t1), t2. simpl. repeat split; auto.
    intros c [<-|Hc]; auto. Qed.

Lemma proj_app q s t : proj q (s ++ t) = proj q s ++ proj q t.
Proof. apply filter_app. Qed.

Lemma proj_none q t : (forall b, In b t -> touches q b = false) -> proj q t = [].
Proof. induction t as [|b t IH]; simpl; intros H; auto.
  rewrite (H b (or_introl eq_refl)). apply IH. intros c Hc. apply H. right; auto. Qed.

Theorem proj_eq_equiv : forall s t,
  (forall a, In a s -> loc a <> []) ->
  (forall q, proj q s = proj q t) -> length s = length t -> equiv s t.
Proof.
  induction s as [|a s IH]; intros t Hne Hp Hlen.
  - destruct t; [apply eq_refl_|discriminate].
  - assert (Ha : loc a <> []) by (apply Hne; left; reflexivity).
    destruct (loc a) as [|q0 l0] eqn:El; [congruence|].
    assert (Tq0 : touches q0 a = true) by (apply touches_In; rewrite El; left; reflexivity).
    pose proof (Hp q0) as H0. simpl in H0. rewrite Tq0 in H0. symmetry in H0.
    destruct (first_touch _ _ _ _ H0) as (t1 & t2 & -> & Hn1 & _ & Hr).
    (* every op in t1 is independent of a *)
    assert (Hind : forall b, In b t1 -> indep b a).
    { intros b Hb q Hqb Hqa.
      (* q in loc a and q in loc b; look at projection on q *)
      pose proof (Hp q) as Hq. simpl in Hq.
      assert (Tqa : touches q a = true) by (apply touches_In; exact Hqa).
      rewrite Tqa in Hq. rewrite proj_app in Hq. simpl in Hq. rewrite Tqa in Hq.
      (* proj q t1 is nonempty and its head is a value c = a in t1 touching q0: contradiction *)
      destruct (proj q t1) as [|c r1] eqn:E1.
      - assert (In b (proj q t1)) by (apply filter_In; split; [exact Hb| apply touches_In; exact Hqb]).
        rewrite E1 in H. destruct H.
      - simpl in Hq. inversion Hq; subst c.
        assert (In a (proj q t1)) by (rewrite E1; left; reflexivity).
        apply filter_In in H as [Hin _]. specialize (Hn1 a Hin). congruence. }
    eapply eq_trans; [| apply equiv_sym; apply equiv_move_front; exact Hind].
    apply equiv_cons. apply IH.
    + intros b Hb. apply Hne. right; exact Hb.
    + intros q. pose proof (Hp q) as Hq. simpl in Hq. rewrite !proj_app in *. simpl in Hq.
      destruct (touches q a) eqn:Tq.
      * assert (proj q t1 = []).
        { apply proj_none. intros b Hb. destruct (touches q b) eqn:Tb; auto.
          exfalso. apply touches_In in Tb, Tq. exact (Hind b Hb q Tb Tq). }
        rewrite H in *. simpl in *. inversion Hq; auto.
      * exact Hq.
    + rewrite app_length in *. simpl in *. lia.
Qed.

(* semantics: any monoid interpretation where independent ops commute *)
Variable M : Type.
Variable mul : M -> M -> M.
Variable one : M.
Variable den : op -> M.
Hypothesis mul_assoc : forall x y z, mul x (mul y z) = mul (mul x y) z.
Hypothesis mul_one_l : forall x, mul one x = x.
Hypothesis mul_one_r : forall x, mul x one = x.
Hypothesis den_comm : forall a b, indep a b -> mul (den a) (den b) = mul (den b) (den a).

Fixpoint prod (s : list op) : M := match s with [] => one | a :: s => mul (den a) (prod s) end.
Lemma prod_app s t : prod (s ++ t) = mul (prod s) (prod t).
Proof. induction s; simpl; [symmetry; apply mul_one_l| rewrite IHs; apply mul_assoc]. Qed.
Theorem equiv_prod s t : equiv s t -> prod s = prod t.
Proof. induction 1 as [s|x y s t H|s t u _ IH1 _ IH2]; auto.
  - rewrite !prod_app. simpl. f_equal. rewrite !mul_assoc. f_equal. apply den_comm; exact H.
  - congruence. Qed.
End Trace.
