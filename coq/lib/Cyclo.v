(* Exact arithmetic in the cyclotomic field Q(zeta_48), restricted to denominators
   that are powers of two:   K = Z[1/2][x] / (x^16 - x^8 + 1),   zeta = x = e^{i pi/24}.

   An element is (cs, e): sixteen integer coefficients and an exponent, standing for
        (cs_0 + cs_1 zeta + ... + cs_15 zeta^15) / 2^e.
   Every operation returns the NORMAL FORM (exactly 16 coefficients, e minimal), so
   two elements are equal as field elements iff they are equal as Coq terms; identities
   between constants are therefore decided by vm_compute / reflexivity.

   Contains i = zeta^12, sqrt2 = zeta^6 + zeta^-6, sqrt3 = zeta^4 + zeta^-4,
   e^{i pi/8} = zeta^3, e^{2 pi i/3} = zeta^16, cos/sin of every multiple of pi/24.
   NOT contained: 1/3, 1/sqrt3 (qutrit Hadamard), cos(pi/16).  A rotation gate
   R(theta) needs cos(theta/2), so rotation angles must be multiples of pi/12.

   This file holds definitions only (no proofs); the homomorphism into an arbitrary
   commutative ring with a root of x^16 - x^8 + 1 and 1/2 is in CycloThm.v. *)
From Coq Require Import ZArith List Bool.
Import ListNotations.
Local Open Scope Z_scope.

(* ---- integer polynomials, little endian ---------------------------------- *)
Fixpoint padd (a b : list Z) : list Z :=
  match a, b with
  | [], _ => b
  | _, [] => a
  | x :: a', y :: b' => (x + y) :: padd a' b'
  end.
Definition pscale (c : Z) (a : list Z) : list Z := map (Z.mul c) a.
Definition pneg (a : list Z) : list Z := map Z.opp a.
Fixpoint pmul (a b : list Z) : list Z :=
  match a with
  | [] => []
  | x :: a' => padd (pscale x b) (0 :: pmul a' b)
  end.

Definition zeros (n : nat) : list Z := repeat 0 n.
(* exactly n coefficients (truncate / pad with zeros) *)
Definition fit (n : nat) (a : list Z) : list Z := firstn n (a ++ zeros n).

(* one folding step of x^16 = x^8 - 1:   lo + x^16 hi  ->  lo + x^8 hi - hi *)
Definition fold16 (p : list Z) : list Z :=
  let lo := firstn 16 p in
  let hi := skipn 16 p in
  padd lo (padd (zeros 8 ++ hi) (pneg hi)).
(* polynomials of length <= 48 need at most 5 folds (each removes 8 from the excess) *)
Fixpoint reduce_fuel (fuel : nat) (p : list Z) : list Z :=
  match fuel with
  | O => p
  | S f => match skipn 16 p with
           | [] => p
           | _ => reduce_fuel f (fold16 p)
           end
  end.
Definition reduce (p : list Z) : list Z := fit 16 (reduce_fuel 8 p).

(* ---- the field elements --------------------------------------------------- *)
Definition K := (list Z * nat)%type.

Definition all_even (l : list Z) : bool := forallb Z.even l.
Fixpoint norm (cs : list Z) (e : nat) : K :=
  match e with
  | O => (cs, O)
  | S e' => if all_even cs then norm (map (fun c => c / 2) cs) e' else (cs, e)
  end.
Definition pow2 (n : nat) : Z := Z.pow 2 (Z.of_nat n).

Definition pzero (a : list Z) : bool := forallb (Z.eqb 0) a.
Definition Kmk (cs : list Z) (e : nat) : K := norm (reduce cs) e.
Definition Kz (z : Z) : K := Kmk [z] 0.
Definition K0 : K := Kz 0.
Definition K1 : K := Kz 1.
Definition Kadd (a b : K) : K :=
  let '(ca, ea) := a in let '(cb, eb) := b in
  if pzero ca then norm (fit 16 cb) eb else if pzero cb then norm (fit 16 ca) ea else
  let e := Nat.max ea eb in
  norm (fit 16 (padd (pscale (pow2 (e - ea)) ca) (pscale (pow2 (e - eb)) cb))) e.
Definition Kopp (a : K) : K := let '(ca, ea) := a in (pneg ca, ea).
Definition Ksub (a b : K) : K := Kadd a (Kopp b).
Definition Kmul (a b : K) : K :=
  let '(ca, ea) := a in let '(cb, eb) := b in
  if pzero ca || pzero cb then (zeros 16, O)       (* fast path; same normal form *)
  else norm (reduce (pmul ca cb)) (ea + eb).
Definition Khalf (a : K) : K := let '(ca, ea) := a in norm ca (S ea).
(* complex conjugation: zeta -> zeta^-1 = - zeta^23 ... ; zeta^-i = - zeta^(24-i) *)
Definition Kconj (a : K) : K :=
  let '(ca, ea) := a in
  match fit 16 ca with
  | c0 :: rest => norm (reduce (c0 :: zeros 8 ++ rev (pneg rest))) ea
  | [] => K0
  end.
Definition Keqb (a b : K) : bool :=
  let '(ca, ea) := a in let '(cb, eb) := b in
  Nat.eqb ea eb && (Nat.eqb (length ca) (length cb) && forallb (fun p => Z.eqb (fst p) (snd p)) (combine ca cb)).

(* zeta^k for any integer k *)
Definition zeta (k : Z) : K :=
  let k := k mod 48 in
  if k <? 24 then Kmk (zeros (Z.to_nat k) ++ [1]) 0
  else Kmk (zeros (Z.to_nat (k - 24)) ++ [-1]) 0.
Definition Ki : K := zeta 12.
Definition Ksqrt2 : K := Kadd (zeta 6) (zeta (-6)).
Definition Ksqrt3 : K := Kadd (zeta 4) (zeta (-4)).
Definition Kisqrt2 : K := Khalf Ksqrt2.                  (* 1/sqrt2 *)
Definition Komega : K := zeta 16.                         (* e^{2 pi i/3} *)
(* cos(k pi/24), sin(k pi/24) *)
Definition Kcos (k : Z) : K := Khalf (Kadd (zeta k) (zeta (- k))).
Definition Ksin (k : Z) : K := Kmul (Kopp Ki) (Khalf (Ksub (zeta k) (zeta (- k)))).

(* numeric read-out used by the harness: the integer coefficients and exponent *)
Definition Kcoeffs (a : K) : list Z * nat := a.

(* ---- matrices ------------------------------------------------------------- *)
Definition Mat := list (list K).

Definition Ksum (l : list K) : K := fold_left Kadd l K0.
Definition dot (r c : list K) : K := Ksum (map (fun p => Kmul (fst p) (snd p)) (combine r c)).
Fixpoint transpose_aux (n : nat) (m : Mat) : Mat :=
  match n with
  | O => []
  | S n' => map (fun r => hd K0 r) m :: transpose_aux n' (map (fun r => tl r) m)
  end.
Definition ncols (m : Mat) : nat := match m with [] => O | r :: _ => length r end.
Definition transpose (m : Mat) : Mat := transpose_aux (ncols m) m.
Definition mmul (a b : Mat) : Mat :=
  let bt := transpose b in map (fun r => map (fun c => dot r c) bt) a.
Definition mid (n : nat) : Mat :=
  map (fun i => map (fun j => if Nat.eqb i j then K1 else K0) (seq 0 n)) (seq 0 n).
Definition mscale (k : K) (m : Mat) : Mat := map (map (Kmul k)) m.
Definition mdagger (m : Mat) : Mat := map (map Kconj) (transpose m).
Definition mget (m : Mat) (i j : nat) : K := nth j (nth i m []) K0.
Definition Meqb (a b : Mat) : bool :=
  Nat.eqb (length a) (length b) &&
  forallb (fun p => Nat.eqb (length (fst p)) (length (snd p)) &&
                    forallb (fun q => Keqb (fst q) (snd q)) (combine (fst p) (snd p))) (combine a b).
Definition kron (a b : Mat) : Mat :=
  flat_map (fun ra => map (fun rb => flat_map (fun x => map (Kmul x) rb) ra) b) a.

(* ---- embedding a k-qubit matrix at a location of an n-qubit register -------
   qubit 0 is the most significant bit of a row/column index (BQSKit convention);
   the gate's own qubit j sits on register qubit (nth j loc). *)
Fixpoint all_bits (n : nat) : list (list bool) :=
  match n with
  | O => [[]]
  | S n' => map (cons false) (all_bits n') ++ map (cons true) (all_bits n')
  end.
Definition bits_to_nat (bs : list bool) : nat :=
  fold_left (fun acc (b : bool) => (2 * acc + (if b then 1 else 0))%nat) bs O.
Definition sub_bits (loc : list nat) (r : list bool) : list bool := map (fun q => nth q r false) loc.
Definition mem_nat (q : nat) (l : list nat) : bool := existsb (Nat.eqb q) l.
Definition agree_outside (loc : list nat) (r c : list bool) : bool :=
  forallb (fun q => mem_nat q loc || Bool.eqb (nth q r false) (nth q c false)) (seq 0 (length r)).
Definition embed (n : nat) (loc : list nat) (a : Mat) : Mat :=
  map (fun r => map (fun c =>
         if agree_outside loc r c
         then mget a (bits_to_nat (sub_bits loc r)) (bits_to_nat (sub_bits loc c))
         else K0) (all_bits n)) (all_bits n).

(* ---- constant gate library (radix 2) --------------------------------------- *)
Definition m2 (a b c d : K) : Mat := [[a; b]; [c; d]].
Definition M_I : Mat := mid 2.
Definition M_X : Mat := m2 K0 K1 K1 K0.
Definition M_Y : Mat := m2 K0 (Kopp Ki) Ki K0.
Definition M_Z : Mat := m2 K1 K0 K0 (Kopp K1).
Definition M_H : Mat := m2 Kisqrt2 Kisqrt2 Kisqrt2 (Kopp Kisqrt2).
Definition M_S : Mat := m2 K1 K0 K0 Ki.
Definition M_Sdg : Mat := m2 K1 K0 K0 (Kopp Ki).
Definition M_T : Mat := m2 K1 K0 K0 (zeta 6).
Definition M_Tdg : Mat := m2 K1 K0 K0 (zeta (-6)).
Definition M_SX : Mat :=
  let p := Khalf (Kadd K1 Ki) in let q := Khalf (Ksub K1 Ki) in m2 p q q p.
(* rotations by theta = m * pi/12  (theta/2 = m * pi/24) *)
Definition M_RX (m : Z) : Mat :=
  let c := Kcos m in let s := Kmul (Kopp Ki) (Ksin m) in m2 c s s c.
Definition M_RY (m : Z) : Mat := m2 (Kcos m) (Kopp (Ksin m)) (Ksin m) (Kcos m).
Definition M_RZ (m : Z) : Mat := m2 (zeta (- m)) K0 K0 (zeta m).
Definition M_U1 (m : Z) : Mat := m2 K1 K0 K0 (zeta (2 * m)).
(* U3(theta, phi, lambda), all three in units of pi/12 *)
Definition M_U3 (t p l : Z) : Mat :=
  m2 (Kcos t) (Kopp (Kmul (zeta (2 * l)) (Ksin t)))
     (Kmul (zeta (2 * p)) (Ksin t)) (Kmul (zeta (2 * (p + l))) (Kcos t)).
(* controlled-U on (control, target): |0><0| (x) I + |1><1| (x) U *)
Definition controlled (u : Mat) : Mat :=
  [[K1; K0; K0; K0]; [K0; K1; K0; K0];
   [K0; K0; mget u 0 0; mget u 0 1]; [K0; K0; mget u 1 0; mget u 1 1]].
Definition M_CX : Mat := controlled M_X.
Definition M_CY : Mat := controlled M_Y.
Definition M_CZ : Mat := controlled M_Z.
Definition M_CH : Mat := controlled M_H.
Definition M_CS : Mat := controlled M_S.
Definition M_CT : Mat := controlled M_T.
Definition M_SWAP : Mat :=
  [[K1; K0; K0; K0]; [K0; K0; K1; K0]; [K0; K1; K0; K0]; [K0; K0; K0; K1]].
Definition M_ISWAP : Mat :=
  [[K1; K0; K0; K0]; [K0; K0; Ki; K0]; [K0; Ki; K0; K0]; [K0; K0; K0; K1]].
Definition M_SQISW : Mat :=
  [[K1; K0; K0; K0]; [K0; Kisqrt2; Kmul Ki Kisqrt2; K0];
   [K0; Kmul Ki Kisqrt2; Kisqrt2; K0]; [K0; K0; K0; K1]].

Inductive gate :=
| G_I | G_X | G_Y | G_Z | G_H | G_S | G_Sdg | G_T | G_Tdg | G_SX
| G_RX (m : Z) | G_RY (m : Z) | G_RZ (m : Z) | G_U1 (m : Z) | G_U3 (t p l : Z)
| G_CX | G_CY | G_CZ | G_CH | G_CS | G_CT | G_SWAP | G_ISWAP | G_SQISW.

Definition gate_mat (g : gate) : Mat :=
  match g with
  | G_I => M_I | G_X => M_X | G_Y => M_Y | G_Z => M_Z | G_H => M_H | G_S => M_S
  | G_Sdg => M_Sdg | G_T => M_T | G_Tdg => M_Tdg | G_SX => M_SX
  | G_RX m => M_RX m | G_RY m => M_RY m | G_RZ m => M_RZ m | G_U1 m => M_U1 m
  | G_U3 t p l => M_U3 t p l
  | G_CX => M_CX | G_CY => M_CY | G_CZ => M_CZ | G_CH => M_CH | G_CS => M_CS
  | G_CT => M_CT | G_SWAP => M_SWAP | G_ISWAP => M_ISWAP | G_SQISW => M_SQISW
  end.
Definition gate_width (g : gate) : nat :=
  match g with
  | G_CX | G_CY | G_CZ | G_CH | G_CS | G_CT | G_SWAP | G_ISWAP | G_SQISW => 2
  | _ => 1
  end.
(* small integer naming the gate KIND (parameters ignored); used in postconditions *)
Definition gate_kind (g : gate) : nat :=
  match g with
  | G_I => 0 | G_X => 1 | G_Y => 2 | G_Z => 3 | G_H => 4 | G_S => 5 | G_Sdg => 6
  | G_T => 7 | G_Tdg => 8 | G_SX => 9 | G_RX _ => 10 | G_RY _ => 11 | G_RZ _ => 12
  | G_U1 _ => 13 | G_U3 _ _ _ => 14 | G_CX => 15 | G_CY => 16 | G_CZ => 17 | G_CH => 18
  | G_CS => 19 | G_CT => 20 | G_SWAP => 21 | G_ISWAP => 22 | G_SQISW => 23
  end.

(* ---- circuits over n qubits: program order, later gates multiply on the left --
   A gate is applied to the accumulated matrix row-wise:
     (G@loc . M)[r] = sum_x G[r|loc][x] * M[r with the bits at loc set to x]
   which is the product  embed n loc G * M  without building the 2^n x 2^n embedding. *)
Definition gop := (gate * list nat)%type.
Fixpoint index_of (q : nat) (l : list nat) : option nat :=
  match l with
  | [] => None
  | x :: l' => if Nat.eqb q x then Some O else option_map S (index_of q l')
  end.
Definition upd_bits (loc : list nat) (x r : list bool) : list bool :=
  map (fun q => match index_of q loc with Some j => nth j x false | None => nth q r false end)
      (seq 0 (length r)).
Definition row_add (a b : list K) : list K := map (fun p => Kadd (fst p) (snd p)) (combine a b).
Definition row_scale (k : K) (a : list K) : list K := map (Kmul k) a.
Definition apply_mat (n : nat) (loc : list nat) (a m : Mat) : Mat :=
  let w := ncols m in
  map (fun r =>
         fold_left (fun acc x =>
                      let g := mget a (bits_to_nat (sub_bits loc r)) (bits_to_nat x) in
                      if Keqb g K0 then acc
                      else row_add acc (row_scale g (nth (bits_to_nat (upd_bits loc x r)) m [])))
                   (all_bits (length loc)) (repeat K0 w))
      (all_bits n).
Definition apply_op (n : nat) (o : gop) (m : Mat) : Mat := apply_mat n (snd o) (gate_mat (fst o)) m.
Definition op_den (n : nat) (o : gop) : Mat := apply_op n o (mid (Nat.pow 2 n)).
Definition circ_den (n : nat) (ops : list gop) : Mat :=
  fold_left (fun acc o => apply_op n o acc) ops (mid (Nat.pow 2 n)).
