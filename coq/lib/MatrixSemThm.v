(* lib/MatrixSemThm.v - the stored dim x dim matrices of lib/MatrixSem.v form a monoid with Leibniz equality
   (mmul_assoc, mmul_one_l, mmul_one_r) in which operations on disjoint qudits commute (mden_comm, from
   TensorThm.embed_comm_disjoint); the abstract product of lib/Trace.v is the ordered product of embedded
   matrices Sim.uprod (to_nd_prod); wire permutations relabel embedded operations (embed_relabel), hence SWAP
   naturality (msw_nat); and the instances of the abstract "same unitary" theorems of C04 / C08 / C09. *)
From Coq Require Import List NArith Arith Bool ZArith Lia Ring Eqdep_dec.
Import ListNotations.
From BQ Require Import lib.Perm lib.PermThm lib.Tensor lib.TensorThm lib.Trace lib.MatrixSem circuit.Sim circuit.SimThm circuit.SimGradThm.
From BQ Require circuit.CModel circuit.CThm part.PartSpec part.PartCheck part.Quick part.QuickThm.
From BQ Require map.Graph map.Sabre map.SabreDag map.SabreThm map.SabreSem map.Placement map.PlacementThm.
From Coq Require Import Permutation.
Open Scope N_scope.

Section MatrixSemThm.
Variable R : Type.
Variables (r0 r1 : R) (radd rmul rsub : R -> R -> R) (ropp : R -> R).
Hypothesis Rth : ring_theory r0 r1 radd rmul rsub ropp (@eq R).
Add Ring Rring2 : Rth.
Variable radixes : list N.
Hypothesis Hpos : allpos radixes.

Local Notation nd_matmul := (nd_matmul R r0 radd rmul).
Local Notation nd_identity := (nd_identity R r0 r1).
Local Notation nd_eq := (nd_eq R).
Local Notation embed := (embed R r0).
Local Notation dim := (dimN radixes).
Local Notation mat := (mat R radixes).
Local Notation inj := (inj R radixes).
Local Notation to_nd := (to_nd R r0 radixes).
Local Notation mone := (mone R r0 r1 radixes).
Local Notation mmul := (mmul R r0 radd rmul radixes).
Local Notation sq := (sq R radixes).
Local Notation uprod := (uprod R r0 radd rmul radixes).
Local Notation "A ** B" := (nd_matmul A B) (at level 40, left associativity).
Local Notation "A ~~ B" := (nd_eq A B) (at level 70).

Lemma dim_pos : 0 < dim.
Proof. apply prodN_pos. exact Hpos. Qed.

Lemma allpos_dd : allpos [dim; dim].
Proof. repeat constructor; apply dim_pos. Qed.

Lemma prodN_dd : prodN [dim; dim] = dim * dim.
Proof. unfold prodN. simpl. rewrite N.mul_1_r. reflexivity. Qed.

(* ---- Leibniz equality of stored matrices ---- *)
Lemma mat_eq (x y : mat) : proj1_sig x = proj1_sig y -> x = y.
Proof.
  destruct x as [l p], y as [l' p']. simpl. intros ->. f_equal.
  apply UIP_dec. apply bool_dec.
Qed.

Lemma sq_to_nd x : sq (to_nd x).
Proof. reflexivity. Qed.

Lemma map_nth_seq {A} (l : list A) d : map (fun i => nth i l d) (seq 0 (length l)) = l.
Proof.
  apply (nth_ext _ _ d d); [rewrite map_length, seq_length; reflexivity|].
  intros n Hn. rewrite map_length, seq_length in Hn.
  rewrite (nth_indep _ d (nth 0%nat l d)) by (rewrite map_length, seq_length; exact Hn).
  rewrite (map_nth (fun i => nth i l d)). rewrite seq_nth by exact Hn. reflexivity.
Qed.

Lemma at_to_nd_inj A i : valid [dim; dim] i -> at_ (to_nd (inj A)) i = at_ A i.
Proof.
  intros Hi. cbn [to_nd MatrixSem.to_nd at_ inj MatrixSem.inj proj1_sig]. unfold canon.
  pose proof (flatten_lt _ _ Hi) as Hlt. rewrite prodN_dd in Hlt.
  rewrite (nth_indep _ r0 (at_ A (unflatten [dim; dim] 0)))
    by (rewrite map_length, Nseq_length; lia).
  rewrite (map_nth (fun k => at_ A (unflatten [dim; dim] k))).
  rewrite Nseq_nth by exact Hlt. rewrite unflatten_flatten by exact Hi. reflexivity.
Qed.

Lemma to_nd_inj A : sq A -> to_nd (inj A) ~~ A.
Proof.
  intros HA. split; [symmetry; exact HA|]. intros i Hi. apply at_to_nd_inj. exact Hi.
Qed.

Lemma inj_proper A B : sq A -> A ~~ B -> inj A = inj B.
Proof.
  intros HA [_ HE]. apply mat_eq. cbn [inj MatrixSem.inj proj1_sig]. unfold canon.
  apply map_ext_in. intros k Hk. apply Nseq_In in Hk. apply HE. rewrite HA.
  apply unflatten_valid; [apply allpos_dd | rewrite prodN_dd; exact Hk].
Qed.

Lemma inj_to_nd (x : mat) : inj (to_nd x) = x.
Proof.
  apply mat_eq. destruct x as [l p]. cbn [inj MatrixSem.inj proj1_sig]. unfold canon.
  cbn [to_nd MatrixSem.to_nd at_ proj1_sig].
  apply Nat.eqb_eq in p. unfold ncell in p.
  transitivity (map (fun k => nth (N.to_nat k) l r0) (Nseq (dim * dim))).
  - apply map_ext_in. intros k Hk. apply Nseq_In in Hk.
    rewrite flatten_unflatten; [reflexivity | apply allpos_dd | rewrite prodN_dd; exact Hk].
  - unfold Nseq. rewrite map_map. rewrite <- p.
    erewrite map_ext; [apply map_nth_seq|]. intros a. cbn beta. rewrite Nat2N.id. reflexivity.
Qed.

(* ---- the monoid laws ---- *)
Local Notation mm_sq := (sq_mm R r0 radd rmul radixes).
Local Notation mmP := (mm_proper R r0 radd rmul radixes).
Local Notation mmA := (mm_assoc R r0 r1 radd rmul rsub ropp Rth radixes).
Local Notation mmL := (mm_id_l R r0 r1 radd rmul rsub ropp Rth radixes).
Local Notation mmR := (mm_id_r R r0 r1 radd rmul rsub ropp Rth radixes).

Theorem mmul_assoc x y z : mmul x (mmul y z) = mmul (mmul x y) z.
Proof.
  unfold mmul, MatrixSem.mmul.
  set (X := to_nd x). set (Y := to_nd y). set (Z := to_nd z).
  assert (HX : sq X) by reflexivity. assert (HY : sq Y) by reflexivity. assert (HZ : sq Z) by reflexivity.
  apply inj_proper; [apply mm_sq; auto; apply sq_to_nd|].
  eapply nd_eq_trans.
  { apply (mmP _ (Z ** Y) _ X);
      [reflexivity | reflexivity | apply to_nd_inj; apply mm_sq; auto | apply nd_eq_refl]. }
  eapply nd_eq_trans; [apply mmA; auto|].
  apply mmP;
    [reflexivity | apply mm_sq; auto | apply nd_eq_refl | apply nd_eq_sym; apply to_nd_inj; apply mm_sq; auto].
Qed.

Lemma to_nd_mone : to_nd mone ~~ nd_identity dim.
Proof. apply to_nd_inj. reflexivity. Qed.

Theorem mmul_one_l x : mmul mone x = x.
Proof.
  unfold mmul, MatrixSem.mmul. rewrite <- (inj_to_nd x) at 2.
  apply inj_proper; [apply mm_sq; reflexivity|].
  eapply nd_eq_trans.
  { apply (mmP _ (to_nd x) _ (nd_identity dim));
      [reflexivity | reflexivity | apply nd_eq_refl | apply to_nd_mone]. }
  apply mmR. reflexivity.
Qed.

Theorem mmul_one_r x : mmul x mone = x.
Proof.
  unfold mmul, MatrixSem.mmul. rewrite <- (inj_to_nd x) at 2.
  apply inj_proper; [apply mm_sq; reflexivity|].
  eapply nd_eq_trans.
  { apply (mmP _ (nd_identity dim) _ (to_nd x));
      [reflexivity | reflexivity | apply to_nd_mone | apply nd_eq_refl]. }
  apply mmL. reflexivity.
Qed.

Lemma to_nd_mmul x y : to_nd (mmul x y) ~~ to_nd y ** to_nd x.
Proof. apply to_nd_inj. apply mm_sq; reflexivity. Qed.

Lemma mmul_inj A B : sq A -> sq B -> mmul (inj A) (inj B) = inj (B ** A).
Proof.
  intros HA HB. unfold mmul, MatrixSem.mmul. apply inj_proper; [apply mm_sq; reflexivity|].
  apply mmP; [reflexivity | reflexivity | apply to_nd_inj; auto | apply to_nd_inj; auto].
Qed.

(* any right-nested product of stored matrices reads back as the ordered matrix product of its factors
   (SabreSem.prodO / prodV / prodS are such products) *)
Lemma sq_ndprod l : Forall sq l -> sq (ndprod R r0 r1 radd rmul radixes l).
Proof. induction 1; cbn [ndprod]; [reflexivity | apply mm_sq; auto]. Qed.

Theorem to_nd_fold (xs : list mat) :
  to_nd (fold_right mmul mone xs) ~~ ndprod R r0 r1 radd rmul radixes (map to_nd xs).
Proof.
  induction xs as [|x t IH]; cbn [fold_right map ndprod]; [apply to_nd_mone|].
  eapply nd_eq_trans; [apply to_nd_mmul|].
  apply mmP; [reflexivity | reflexivity | exact IH | apply nd_eq_refl].
Qed.

(* ---- operations ---- *)
Lemma is_location_wf n l : is_location n l = true <-> wf_loc n l.
Proof.
  unfold is_location, wf_loc. rewrite andb_true_iff, forallb_forall, nodupb_NoDup, Forall_forall.
  split; intros [H1 H2]; split; auto; intros q Hq.
  - apply Nat.ltb_lt. auto.
  - apply Nat.ltb_lt. auto.
Qed.

Section Ops.
Variable op : Type.
Variable loc : op -> list nat.
Variable U : op -> nd R.
Local Notation mden := (mden R r0 r1 radixes op loc U).
Local Notation mats_of := (MatrixSem.mats_of R op loc U).
Local Notation n := (length radixes).

Lemma mden_wf o : wf_loc n (loc o) -> mden o = inj (embed radixes (loc o) (U o)).
Proof. intros H. apply is_location_wf in H. unfold mden, MatrixSem.mden. rewrite H. reflexivity. Qed.

(* operations on disjoint qudits commute: the hypothesis den_comm of lib/Trace.v, for EVERY pair of operations *)
Theorem mden_comm a b : indep op loc a b -> mmul (mden a) (mden b) = mmul (mden b) (mden a).
Proof.
  intros Hind. unfold mden, MatrixSem.mden.
  destruct (is_location n (loc a)) eqn:Ea; destruct (is_location n (loc b)) eqn:Eb;
    rewrite ?mmul_one_l, ?mmul_one_r; auto.
  apply is_location_wf in Ea, Eb.
  rewrite !mmul_inj by reflexivity. apply inj_proper; [apply mm_sq; reflexivity|].
  apply (embed_comm_disjoint R r0 r1 radd rmul rsub ropp (fun x => x) Rth); auto.
  intros q Hb Ha. exact (Hind q Ha Hb).
Qed.

(* the abstract product of Trace.v IS the ordered product of the embedded matrices (Sim.uprod, C06) *)
Theorem to_nd_prod s : Forall (fun o => wf_loc n (loc o)) s ->
  to_nd (prod op mat mmul mone mden s) ~~ uprod (mats_of s) (nd_identity dim).
Proof.
  induction s as [|a s IH]; intros Hwf; cbn [prod mats_of MatrixSem.mats_of map Sim.uprod].
  - apply to_nd_mone.
  - inversion Hwf as [|? ? Ha Hs]; subst. specialize (IH Hs).
    eapply nd_eq_trans; [apply to_nd_mmul|]. rewrite (mden_wf a Ha).
    set (Ea := embed radixes (loc a) (U a)).
    apply nd_eq_sym. eapply nd_eq_trans.
    { apply (uprod_acc R r0 r1 radd rmul rsub ropp Rth radixes). apply mm_sq; reflexivity. }
    apply mmP.
    + apply (sq_uprod R r0 radd rmul radixes). reflexivity.
    + apply mm_sq; reflexivity.
    + apply nd_eq_sym. exact IH.
    + eapply nd_eq_trans; [apply mmR; reflexivity|].
      apply nd_eq_sym. apply to_nd_inj. reflexivity.
Qed.

(* two programs with the same abstract product have nd_eq concrete products *)
Corollary prod_eq_uprod s t :
  Forall (fun o => wf_loc n (loc o)) s -> Forall (fun o => wf_loc n (loc o)) t ->
  prod op mat mmul mone mden s = prod op mat mmul mone mden t ->
  uprod (mats_of s) (nd_identity dim) ~~ uprod (mats_of t) (nd_identity dim).
Proof.
  intros Hs Ht E. eapply nd_eq_trans; [apply nd_eq_sym; apply to_nd_prod; exact Hs|].
  rewrite E. apply to_nd_prod. exact Ht.
Qed.

(* programs with the same per-qudit timelines have the same ordered product of embedded matrices *)
Theorem timelines_same_matrix s t :
  (forall a, In a s -> loc a <> []) -> (forall q, proj op loc q s = proj op loc q t) -> length s = length t ->
  Forall (fun o => wf_loc n (loc o)) s -> Forall (fun o => wf_loc n (loc o)) t ->
  uprod (mats_of s) (nd_identity dim) ~~ uprod (mats_of t) (nd_identity dim).
Proof.
  intros Hne Hp Hl Ws Wt. apply prod_eq_uprod; auto.
  apply (equiv_prod op loc mat mmul mone mden mmul_assoc mmul_one_l mden_comm).
  apply proj_eq_equiv; auto.
Qed.
End Ops.

(* ================================================================== wire permutations *)
Section Relabel.
Local Notation n := (length radixes).
Local Notation perm_mat := (perm_mat R r0 r1 radixes).
Local Notation pdig := (pdig radixes).
Local Notation "a *! b" := (rmul a b) (at level 40, left associativity).
Local Notation rsum := (rsum R r0 radd).

Lemma pdig_length f i : length (pdig f i) = n.
Proof. unfold MatrixSem.pdig. rewrite map_length, seq_length. reflexivity. Qed.

Lemma pdig_nth f i q : (q < n)%nat -> nth q (pdig f i) 0 = nth (f q) i 0.
Proof.
  intros Hq. unfold MatrixSem.pdig.
  rewrite (map_nth_d (fun q => nth (f q) i 0) _ q 0 0%nat) by (rewrite seq_length; exact Hq).
  rewrite seq_nth by exact Hq. reflexivity.
Qed.

Lemma wire_perm_sym f g : wire_perm radixes f g -> wire_perm radixes g f.
Proof.
  intros H q Hq. destruct (H q Hq) as (H1 & H2 & H3 & H4 & H5).
  destruct (H (g q) H2) as (_ & _ & _ & _ & H6). rewrite H4 in H6. repeat split; auto.
Qed.

Lemma pdig_valid f g i : wire_perm radixes f g -> valid radixes i -> valid radixes (pdig f i).
Proof.
  intros H Hv. apply valid_nth in Hv as [Hl Hn]. apply valid_nth. split; [apply pdig_length|].
  intros q Hq. rewrite pdig_nth by exact Hq. destruct (H q Hq) as (H1 & _ & _ & _ & H5).
  rewrite <- H5. apply Hn. exact H1.
Qed.

Lemma pdig_inv f g i : wire_perm radixes f g -> length i = n -> pdig g (pdig f i) = i.
Proof.
  intros H Hl. apply list_eq_nth; [rewrite pdig_length; auto|].
  intros q Hq. rewrite pdig_length in Hq. destruct (H q Hq) as (H1 & H2 & H3 & H4 & H5).
  rewrite pdig_nth by exact Hq. rewrite pdig_nth by exact H2. rewrite H4. reflexivity.
Qed.

Lemma at_perm_mat f r c :
  at_ (perm_mat f) [r; c] = if idx_eqb (unflatten radixes c) (pdig f (unflatten radixes r)) then r1 else r0.
Proof. reflexivity. Qed.

Lemma perm_row_select f g r (F : N -> R) : wire_perm radixes f g -> r < dim ->
  rsum (map (fun k => at_ (perm_mat f) [r; k] *! F k) (Nseq dim)) = F (flatten radixes (pdig f (unflatten radixes r))).
Proof.
  intros H Hr. set (pd := pdig f (unflatten radixes r)).
  assert (Hv : valid radixes pd) by (apply (pdig_valid f g); auto; apply unflatten_valid; auto).
  transitivity (rsum (map (fun k => if N.eqb k (flatten radixes pd) then F k else r0) (Nseq dim))).
  - apply rsum_ext. intros k Hk. apply Nseq_In in Hk. rewrite at_perm_mat. fold pd.
    assert (E : idx_eqb (unflatten radixes k) pd = N.eqb k (flatten radixes pd)).
    { apply bool_eq_iff. rewrite idx_eqb_eq, N.eqb_eq. split; intros E.
      - rewrite <- E. symmetry. apply flatten_unflatten; auto.
      - rewrite E. apply unflatten_flatten. exact Hv. }
    rewrite E. destruct (N.eqb _ _); ring.
  - apply (rsum_single R r0 r1 radd rmul rsub ropp Rth N.eqb);
      [apply N.eqb_eq | apply Nseq_NoDup | apply Nseq_In; apply flatten_lt; exact Hv].
Qed.

Lemma perm_col_select f g c (F : N -> R) : wire_perm radixes f g -> c < dim ->
  rsum (map (fun k => F k *! at_ (perm_mat f) [k; c]) (Nseq dim)) = F (flatten radixes (pdig g (unflatten radixes c))).
Proof.
  intros H Hc. set (dc := unflatten radixes c). set (pd := pdig g dc).
  pose proof (wire_perm_sym _ _ H) as H'.
  assert (Hvc : valid radixes dc) by (apply unflatten_valid; auto).
  assert (Hv : valid radixes pd) by (apply (pdig_valid g f); auto).
  transitivity (rsum (map (fun k => if N.eqb k (flatten radixes pd) then F k else r0) (Nseq dim))).
  - apply rsum_ext. intros k Hk. apply Nseq_In in Hk. rewrite at_perm_mat. fold dc.
    assert (Hvk : valid radixes (unflatten radixes k)) by (apply unflatten_valid; auto).
    assert (E : idx_eqb dc (pdig f (unflatten radixes k)) = N.eqb k (flatten radixes pd)).
    { apply bool_eq_iff. rewrite idx_eqb_eq, N.eqb_eq. split; intros E.
      - unfold pd. rewrite E. rewrite (pdig_inv f g) by (auto; apply valid_length; exact Hvk).
        symmetry. apply flatten_unflatten; auto.
      - rewrite E. rewrite unflatten_flatten by exact Hv. unfold pd.
        rewrite (pdig_inv g f) by (auto; apply valid_length; exact Hvc). reflexivity. }
    rewrite E. destruct (N.eqb _ _); ring.
  - apply (rsum_single R r0 r1 radd rmul rsub ropp Rth N.eqb);
      [apply N.eqb_eq | apply Nseq_NoDup | apply Nseq_In; apply flatten_lt; exact Hv].
Qed.

Lemma gather_map_f (f : nat -> nat) L (i : list N) : gather (map f L) i = map (fun p => nth (f p) i 0) L.
Proof. unfold gather. rewrite map_map. reflexivity. Qed.

Lemma gather_pdig f L i : Forall (fun x => (x < n)%nat) L -> gather L (pdig f i) = gather (map f L) i.
Proof.
  intros HL. rewrite gather_map_f. unfold gather. apply map_ext_in. intros p Hp.
  rewrite Forall_forall in HL. apply pdig_nth. apply HL. exact Hp.
Qed.

(* conjugating an embedded operation by the permutation matrix of a wire permutation gives the operation
   embedded at the relabelled location:  P_f * embed L U = embed (f L) U * P_f *)
Theorem embed_relabel f g L (Um : nd R) : wire_perm radixes f g -> wf_loc n L ->
  perm_mat f ** embed radixes L Um ~~ embed radixes (map f L) Um ** perm_mat f.
Proof.
  intros H [Hnd HL]. pose proof (wire_perm_sym _ _ H) as H'. split; [reflexivity|].
  intros i Hi. rewrite shape_matmul in Hi. cbn [shape MatrixSem.perm_mat Tensor.embed nth] in Hi.
  apply valid2_inv in Hi as (r & c & -> & Hr & Hc).
  rewrite !at_matmul. cbn [shape MatrixSem.perm_mat Tensor.embed nth].
  change (prodN radixes) with dim.
  rewrite (perm_row_select f g r (fun k => at_ (embed radixes L Um) [k; c]) H Hr).
  rewrite (perm_col_select f g c (fun k => at_ (embed radixes (map f L) Um) [r; k]) H Hc).
  set (dr := unflatten radixes r). set (dc := unflatten radixes c).
  assert (Hvr : valid radixes dr) by (apply unflatten_valid; auto).
  assert (Hvc : valid radixes dc) by (apply unflatten_valid; auto).
  pose proof (valid_length _ _ Hvr) as Hlr. pose proof (valid_length _ _ Hvc) as Hlc.
  assert (Hv1 : valid radixes (pdig f dr)) by (apply (pdig_valid f g); auto).
  assert (Hv2 : valid radixes (pdig g dc)) by (apply (pdig_valid g f); auto).
  rewrite !at_embed. rewrite !unflatten_flatten by assumption. fold dr dc.
  assert (HfL : Forall (fun x => (x < n)%nat) (map f L)).
  { rewrite Forall_map. eapply Forall_impl; [|exact HL]. intros q Hq. cbn beta. apply (H q Hq). }
  assert (Esh : gather (map f L) radixes = gather L radixes).
  { rewrite gather_map_f. unfold gather. apply map_ext_in. intros p Hp. rewrite Forall_forall in HL.
    apply (H p (HL p Hp)). }
  rewrite Esh. rewrite (gather_pdig f L dr HL).
  assert (E2 : gather (map f L) (pdig g dc) = gather L dc).
  { rewrite gather_map_f. unfold gather. apply map_ext_in. intros p Hp. rewrite Forall_forall in HL.
    destruct (H p (HL p Hp)) as (H1 & H2 & H3 & H4 & H5). rewrite pdig_nth by exact H1. rewrite H3. reflexivity. }
  rewrite E2.
  assert (Ec : idx_eqb (gather (complement n L) (pdig f dr)) (gather (complement n L) dc)
             = idx_eqb (gather (complement n (map f L)) dr) (gather (complement n (map f L)) (pdig g dc))).
  { apply bool_eq_iff.
    split; intros E0; apply idx_eqb_eq in E0; apply idx_eqb_eq; apply (proj2 (gather_complement_iff R r0 (fun x => x) _ _ _ _)); intros q Hq Hn;
      pose proof (gather_complement_eq R r0 (fun x => x) _ _ _ _ E0) as E; clear E0.
    - destruct (H' q Hq) as (H1 & H2 & H3 & H4 & H5).
      assert (Hn' : ~ In (g q) L). { intros Hin. apply Hn. rewrite <- H3. apply in_map. exact Hin. }
      specialize (E (g q) H1 Hn'). rewrite pdig_nth in E by exact H1. rewrite H3 in E.
      rewrite pdig_nth by exact Hq. exact E.
    - destruct (H q Hq) as (H1 & H2 & H3 & H4 & H5).
      assert (Hn' : ~ In (f q) (map f L)).
      { intros Hin. apply in_map_iff in Hin as (p & Hp & Hin). apply Hn.
        rewrite Forall_forall in HL. destruct (H p (HL p Hin)) as (_ & _ & H3' & _).
        assert (Eq : q = p) by (rewrite <- H3, <- Hp; exact H3'). rewrite Eq. exact Hin. }
      specialize (E (f q) H1 Hn'). rewrite pdig_nth in E by exact H1. rewrite H3 in E.
      rewrite pdig_nth by exact Hq. exact E. }
  rewrite Ec. reflexivity.
Qed.
End Relabel.

(* ================================================================== SWAP naturality (uniform radix) *)
Section Swap.
Local Notation n := (length radixes).
Local Notation perm_mat := (perm_mat R r0 r1 radixes).
Hypothesis Huni : forall q q', (q < n)%nat -> (q' < n)%nat -> nth q radixes 0 = nth q' radixes 0.
Variable Ug : nat -> nd R.
Local Notation mdenL := (mdenL R r0 r1 radixes Ug).
Local Notation msw := (msw R r0 r1 radixes).

Lemma tr_wire_perm a b : (a < n)%nat -> (b < n)%nat -> wire_perm radixes (tr a b) (tr a b).
Proof.
  intros Ha Hb q Hq. assert (Ht : (tr a b q < n)%nat) by (apply tr_lt; auto).
  repeat split; auto; try apply tr_invol.
Qed.

Lemma wf_loc_map_tr a b L : (a < n)%nat -> (b < n)%nat -> wf_loc n L -> wf_loc n (map (tr a b) L).
Proof.
  intros Ha Hb [Hnd HL]. split.
  - apply FinFun.Injective_map_NoDup; [|exact Hnd]. intros x y E. eapply tr_inj; eauto.
  - rewrite Forall_map. eapply Forall_impl; [|exact HL]. intros q Hq. cbn beta. apply tr_lt; auto.
Qed.

Lemma map_tr_tr a b (L : list nat) : map (tr a b) (map (tr a b) L) = L.
Proof. rewrite map_map. erewrite map_ext; [apply map_id|]. intros x. apply tr_invol. Qed.

Lemma is_location_map_tr a b L : (a < n)%nat -> (b < n)%nat ->
  is_location n (map (tr a b) L) = is_location n L.
Proof.
  intros Ha Hb. apply bool_eq_iff. rewrite !is_location_wf. split; intros H.
  - rewrite <- (map_tr_tr a b L). apply wf_loc_map_tr; auto.
  - apply wf_loc_map_tr; auto.
Qed.

(* SWAP(a,b) then op@L  =  op@(a b)L then SWAP(a,b):  the hypothesis sw_nat of map/SabreSem.v *)
Theorem msw_nat a b g L : (a < n)%nat -> (b < n)%nat ->
  mmul (msw a b) (mdenL g L) = mmul (mdenL g (map (tr a b) L)) (msw a b).
Proof.
  intros Ha Hb. unfold MatrixSem.msw, MatrixSem.mdenL.
  rewrite (proj2 (Nat.ltb_lt a n) Ha), (proj2 (Nat.ltb_lt b n) Hb). cbn [andb].
  rewrite is_location_map_tr by auto.
  destruct (is_location n L) eqn:E; [|rewrite mmul_one_l, mmul_one_r; reflexivity].
  apply is_location_wf in E.
  rewrite !mmul_inj by reflexivity. apply inj_proper; [apply mm_sq; reflexivity|].
  apply nd_eq_sym.
  pose proof (embed_relabel (tr a b) (tr a b) (map (tr a b) L) (Ug g) (tr_wire_perm a b Ha Hb)
                (wf_loc_map_tr a b L Ha Hb E)) as HR.
  rewrite map_tr_tr in HR. exact HR.
Qed.

(* den_comm of map/SabreSem.v *)
Theorem mdenL_comm g1 L1 g2 L2 : (forall q, In q L1 -> ~ In q L2) ->
  mmul (mdenL g1 L1) (mdenL g2 L2) = mmul (mdenL g2 L2) (mdenL g1 L1).
Proof.
  intros Hd.
  exact (mden_comm (nat * list nat)%type snd (fun x => Ug (fst x)) (g1, L1) (g2, L2) Hd).
Qed.

(* reading the stored values back *)
Lemma to_nd_mdenL g L : wf_loc n L -> to_nd (mdenL g L) ~~ embed radixes L (Ug g).
Proof.
  intros H. apply is_location_wf in H. unfold MatrixSem.mdenL. rewrite H. apply to_nd_inj. reflexivity.
Qed.
Lemma to_nd_msw a b : (a < n)%nat -> (b < n)%nat -> to_nd (msw a b) ~~ perm_mat (tr a b).
Proof.
  intros Ha Hb. unfold MatrixSem.msw. rewrite (proj2 (Nat.ltb_lt a n) Ha), (proj2 (Nat.ltb_lt b n) Hb).
  apply to_nd_inj. reflexivity.
Qed.

Lemma divmod_flat d x y : y < d -> (x * d + y) / d = x /\ (x * d + y) mod d = y.
Proof.
  intros Hy. split; symmetry.
  - apply (N.div_unique _ d x y); [exact Hy | lia].
  - apply (N.mod_unique _ d x y); [exact Hy | lia].
Qed.

Lemma tr_other a b q : q <> a -> q <> b -> tr a b q = q.
Proof. intros H1 H2. unfold tr. apply Nat.eqb_neq in H1, H2. rewrite H1, H2. reflexivity. Qed.
Lemma tr_left a b : tr a b a = b.
Proof. unfold tr. rewrite Nat.eqb_refl. reflexivity. Qed.
Lemma tr_right a b : tr a b b = a.
Proof. unfold tr. destruct (Nat.eqb b a) eqn:E; [apply Nat.eqb_eq in E; auto|]. rewrite Nat.eqb_refl. reflexivity. Qed.

(* the SwapGate's matrix embedded at [a; b] IS the permutation matrix of the transposition (a b) *)
Theorem swap_is_embed a b : (a < n)%nat -> (b < n)%nat -> a <> b ->
  perm_mat (tr a b) ~~ embed radixes [a; b] (swap_mat R r0 r1 (nth a radixes 0)).
Proof.
  intros Ha Hb Hab. set (d := nth a radixes 0).
  assert (Hdb : nth b radixes 0 = d) by (apply Huni; auto).
  split; [reflexivity|]. intros i Hi. cbn [shape MatrixSem.perm_mat] in Hi.
  apply valid2_inv in Hi as (r & c & -> & Hr & Hc).
  rewrite at_perm_mat, at_embed.
  set (dr := unflatten radixes r). set (dc := unflatten radixes c).
  assert (Hvr : valid radixes dr) by (apply unflatten_valid; auto).
  assert (Hvc : valid radixes dc) by (apply unflatten_valid; auto).
  pose proof (valid_length _ _ Hvr) as Hlr. pose proof (valid_length _ _ Hvc) as Hlc.
  apply valid_nth in Hvr as [_ Hnr]. apply valid_nth in Hvc as [_ Hnc].
  pose proof (Hnr a Ha) as Hra. pose proof (Hnr b Hb) as Hrb. pose proof (Hnc a Ha) as Hca. pose proof (Hnc b Hb) as Hcb.
  rewrite Hdb in Hrb, Hcb. fold d in Hra, Hca.
  cbn [gather map]. fold d. rewrite Hdb, !flatten2.
  cbn [at_ MatrixSem.swap_mat nth].
  destruct (divmod_flat d (nth a dr 0) (nth b dr 0) Hrb) as [-> ->].
  destruct (divmod_flat d (nth a dc 0) (nth b dc 0) Hcb) as [-> ->].
  destruct (idx_eqb dc (pdig radixes (tr a b) dr)) eqn:E1.
  - apply idx_eqb_eq in E1.
    assert (E2 : idx_eqb (gather (complement n [a; b]) dr) (gather (complement n [a; b]) dc) = true).
    { apply idx_eqb_eq. apply (proj2 (gather_complement_iff R r0 (fun x => x) _ _ _ _)). intros q Hq Hn.
      rewrite E1, pdig_nth by exact Hq. rewrite tr_other; auto; intros ->; apply Hn; simpl; auto. }
    rewrite E2, E1, !pdig_nth by auto. rewrite tr_left, tr_right, !N.eqb_refl. reflexivity.
  - destruct (idx_eqb (gather _ dr) (gather _ dc)) eqn:E2; [|reflexivity].
    destruct (N.eqb (nth a dr 0) (nth b dc 0) && N.eqb (nth b dr 0) (nth a dc 0)) eqn:E3; [|reflexivity].
    exfalso. apply andb_true_iff in E3 as [E3 E4]. apply N.eqb_eq in E3, E4. apply idx_eqb_eq in E2.
    pose proof (gather_complement_eq R r0 (fun x => x) _ _ _ _ E2) as E.
    assert (E5 : dc = pdig radixes (tr a b) dr).
    { apply list_eq_nth; [rewrite pdig_length; exact Hlc|]. intros q Hq. rewrite Hlc in Hq.
      rewrite pdig_nth by exact Hq.
      destruct (Nat.eq_dec q a) as [->|Hqa]; [rewrite tr_left; auto|].
      destruct (Nat.eq_dec q b) as [->|Hqb]; [rewrite tr_right; auto|].
      rewrite tr_other by auto. symmetry. apply E; auto. simpl. intuition. }
    apply idx_eqb_eq in E5. congruence.
Qed.
End Swap.

(* ================================================================== instances of the abstract theorems *)
Section Instances.
Local Notation n := (length radixes).
Local Notation I := (nd_identity dim).

(* C04: circuit/CThm.v *)
Theorem same_timelines_same_matrix (U : CModel.op -> nd R) (c1 c2 : CModel.circuit) :
  CThm.Inv c1 -> CThm.Inv c2 ->
  (forall o, In o (CModel.iter_ops (CModel.cycles c1)) -> CModel.o_loc o <> []) ->
  length (CModel.iter_ops (CModel.cycles c1)) = length (CModel.iter_ops (CModel.cycles c2)) ->
  (forall q, CThm.tl c1 q = CThm.tl c2 q) ->
  Forall (fun o => wf_loc n (CModel.o_loc o)) (CModel.iter_ops (CModel.cycles c1)) ->
  Forall (fun o => wf_loc n (CModel.o_loc o)) (CModel.iter_ops (CModel.cycles c2)) ->
  uprod (MatrixSem.mats_of R CModel.op CModel.o_loc U (CModel.iter_ops (CModel.cycles c1))) I ~~
  uprod (MatrixSem.mats_of R CModel.op CModel.o_loc U (CModel.iter_ops (CModel.cycles c2))) I.
Proof.
  intros I1 I2 Hne Hlen Htl W1 W2. apply prod_eq_uprod; auto.
  exact (CThm.same_timelines_same_denotation mat mmul mone (mden R r0 r1 radixes CModel.op CModel.o_loc U)
           mmul_assoc mmul_one_l (mden_comm CModel.op CModel.o_loc U) c1 c2 I1 I2 Hne Hlen Htl).
Qed.

(* C08: part/PartCheck.v, part/QuickThm.v *)
Theorem good_partition_same_matrix (U : PartSpec.op -> nd R) k i o :
  (forall a, In a i -> PartSpec.oloc a <> []) ->
  Forall (fun a => wf_loc n (PartSpec.oloc a)) i ->
  PartSpec.good_partition k i o ->
  uprod (MatrixSem.mats_of R PartSpec.op PartSpec.oloc U (PartSpec.unfold o)) I ~~
  uprod (MatrixSem.mats_of R PartSpec.op PartSpec.oloc U i) I.
Proof.
  intros Hne W G. apply prod_eq_uprod; auto.
  - destruct G as (_ & _ & Hp & _). rewrite Forall_forall in *. intros a Ha. apply W.
    eapply Permutation_in; eauto.
  - exact (PartCheck.good_partition_same_unitary mat mmul mone (mden R r0 r1 radixes PartSpec.op PartSpec.oloc U)
             mmul_assoc mmul_one_l (mden_comm PartSpec.op PartSpec.oloc U) k i o Hne G).
Qed.

Theorem quick_same_matrix (U : PartSpec.op -> nd R) k fx ncyc c hints o :
  QuickThm.wf_input n ncyc c -> Quick.quick k fx n ncyc c hints = inl o ->
  uprod (MatrixSem.mats_of R PartSpec.op PartSpec.oloc U (PartSpec.unfold o)) I ~~
  uprod (MatrixSem.mats_of R PartSpec.op PartSpec.oloc U (map snd c)) I.
Proof.
  intros W H. destruct (QuickThm.quick_correct_partial _ _ _ _ _ _ _ W H) as [G _].
  destruct W as (_ & _ & Hnd & Hne & Hr).
  apply (good_partition_same_matrix U k); auto.
  - intros a Ha. apply in_map_iff in Ha as (x & <- & Hx). auto.
  - apply Forall_forall. intros a Ha. apply in_map_iff in Ha as (x & <- & Hx). split; auto.
    apply Forall_forall. intros q Hq. eapply Hr; eauto.
Qed.

(* C09: map/SabreSem.v, map/PlacementThm.v - uniform radix (SwapGate needs equal radixes) *)
Section Route.
Hypothesis Huni : forall q q', (q < n)%nat -> (q' < n)%nat -> nth q radixes 0 = nth q' radixes 0.
Variable Ug : nat -> nd R.
Local Notation mdenL := (mdenL R r0 r1 radixes Ug).
Local Notation msw := (msw R r0 r1 radixes).

Theorem route_same_matrix cg c pi0 tc s :
  SabreDag.wf_circ c n -> Perm.wfperm n pi0 ->
  Sabre.replay cg c true true (Sabre.init c n true pi0) tc = Some s -> Sabre.F s = [] ->
  SabreSem.prodO mat mmul mone mdenL msw (Sabre.out s) =
  mmul (SabreSem.prodV mat mmul mone mdenL pi0 (SabreThm.prog c))
       (SabreSem.prodS mat mmul mone msw (SabreThm.swaps_of (Sabre.out s))).
Proof.
  intros Hc Hp Hr HF.
  apply (SabreSem.route_sem cg c n pi0 Hc Hp tc s Hr HF mat mmul mone mdenL msw
           mmul_assoc mmul_one_l mmul_one_r).
  - intros n1 L1 n2 L2 _ _ Hd. apply mdenL_comm. exact Hd.
  - intros a b g L Ha Hb _. apply msw_nat; auto.
Qed.

Theorem mappings_same_matrix g c nq p ltr rtr o d :
  n = length g -> SabreDag.wf_circ c nq -> (1 <= nq)%nat ->
  Placement.pipeline g c nq p ltr rtr = Some (o, d) ->
  SabreSem.prodO mat mmul mone mdenL msw o =
    mmul (SabreSem.prodV mat mmul mone mdenL (Placement.imap d) (SabreThm.prog c))
         (SabreSem.prodS mat mmul mone msw (SabreThm.swaps_of o))
  /\ Placement.fmap d = map (Perm.tr_all (SabreThm.swaps_of o)) (Placement.imap d).
Proof.
  intros Hn Hc H1 Hpl.
  apply (PlacementThm.pipeline_sem g c nq Hc H1 mat mmul mone mdenL msw mmul_assoc mmul_one_l mmul_one_r) with (p := p) (ltr := ltr) (rtr := rtr); auto.
  - intros n1 L1 n2 L2 _ _ Hd. apply mdenL_comm. exact Hd.
  - intros a b g0 L Ha Hb _. apply msw_nat; auto; rewrite Hn; auto.
Qed.
End Route.
End Instances.

End MatrixSemThm.
