(* lib/ExprThm.v - soundness of lib/Expr.v, proved once and generically:
   * [rderiv_correct]/[cderiv_correct]: the symbolic derivative is the derivative
     (Coquelicot [is_derive]) of the semantics, for every expression, environment
     and parameter index;
   * [ceqb_sound]: if the exponential-polynomial normaliser says two expressions
     are equal, they are equal for ALL real parameter values;
   * [csimp_sound], [csubst_sound]. *)
From Coq Require Import Reals QArith Qreals ZArith List Bool Lra Lia.
From Coquelicot Require Import Coquelicot.
From BQ Require Import lib.Expr.
Import ListNotations.
Local Open Scope R_scope.
Local Arguments Qred : simpl never.
Local Arguments Qplus : simpl never.
Local Arguments Qmult : simpl never.
Local Arguments Qopp : simpl never.
Local Arguments Qminus : simpl never.
Local Arguments Qeq_bool : simpl never.
Local Arguments Q2R : simpl never.

(* ------------------------------------------------------------------ *)
(* small facts                                                          *)
(* ------------------------------------------------------------------ *)
Lemma Ceq (a b : C) : fst a = fst b -> snd a = snd b -> a = b.
Proof. destruct a, b; simpl; intros; subst; reflexivity. Qed.

Ltac csolve := apply Ceq; simpl; try ring; try lra.

Lemma Q2R_red q : Q2R (Qred q) = Q2R q.
Proof. apply Qeq_eqR, Qred_correct. Qed.
Lemma Q2R_m1 : Q2R (-1) = -1.
Proof. unfold Q2R; simpl; lra. Qed.
Lemma Q2R_half : Q2R (1 # 2) = / 2.
Proof. unfold Q2R; simpl; lra. Qed.
Lemma Q2R_mhalf : Q2R (- (1 # 2)) = - / 2.
Proof. unfold Q2R; simpl; lra. Qed.
Lemma Q2R_injZ z : Q2R (inject_Z z) = IZR z.
Proof. unfold Q2R, inject_Z; simpl; lra. Qed.
Lemma Qeqb0 q : Qeq_bool q 0 = true -> Q2R q = 0.
Proof. intros H; apply RMicromega.Qeq_true in H; rewrite H; apply RMicromega.Q2R_0. Qed.
Lemma Qeqb1 q : Qeq_bool q 1 = true -> Q2R q = 1.
Proof. intros H; apply RMicromega.Qeq_true in H; rewrite H; apply RMicromega.Q2R_1. Qed.

Lemma cis_plus x y : cis (x + y) = Cmult (cis x) (cis y).
Proof. unfold cis; apply Ceq; simpl; [apply cos_plus | rewrite sin_plus; ring]. Qed.
Lemma cis_0 : cis 0 = RtoC 1.
Proof. unfold cis; rewrite cos_0, sin_0; reflexivity. Qed.
Lemma cis_neg x : cis (- x) = Cconj (cis x).
Proof. unfold cis, Cconj; simpl; rewrite cos_neg, sin_neg; reflexivity. Qed.
Lemma cis_unit x : Cmult (cis x) (Cconj (cis x)) = RtoC 1.
Proof. unfold cis; apply Ceq; simpl; [|ring].
  pose proof (sin2_cos2 x) as H; unfold Rsqr in H; lra. Qed.
Lemma Cconj_mult a b : Cconj (Cmult a b) = Cmult (Cconj a) (Cconj b).
Proof. csolve. Qed.
Lemma Cconj_plus a b : Cconj (Cplus a b) = Cplus (Cconj a) (Cconj b).
Proof. csolve. Qed.
Lemma Cconj_opp a : Cconj (Copp a) = Copp (Cconj a).
Proof. csolve. Qed.
Lemma Cconj_R x : Cconj (RtoC x) = RtoC x.
Proof. csolve. Qed.
Lemma Cconj_conj a : Cconj (Cconj a) = a.
Proof. csolve. Qed.

(* ------------------------------------------------------------------ *)
(* environments, substitution, simplification                           *)
(* ------------------------------------------------------------------ *)
Lemma reval_ext e : forall rho rho', (forall k, rho k = rho' k) -> reval rho e = reval rho' e.
Proof. induction e; simpl; intros rho rho' H; auto;
  try (rewrite (IHe1 _ _ H), (IHe2 _ _ H); reflexivity);
  try (rewrite (IHe _ _ H); reflexivity). Qed.
Lemma ceval_ext e : forall rho rho', (forall k, rho k = rho' k) -> ceval rho e = ceval rho' e.
Proof. induction e; simpl; intros rho rho' H; auto;
  try (rewrite (IHe1 _ _ H), (IHe2 _ _ H); reflexivity);
  try (rewrite (IHe _ _ H); reflexivity);
  try (rewrite (reval_ext r _ _ H); reflexivity). Qed.
Lemma upd_same rho k j : upd rho k (rho k) j = rho j.
Proof. unfold upd. destruct (Nat.eqb j k) eqn:E; auto. apply Nat.eqb_eq in E; subst; auto. Qed.

Lemma rsubst_sound s e rho : reval rho (rsubst s e) = reval (fun k => reval rho (s k)) e.
Proof. induction e; simpl; auto; try rewrite IHe1, IHe2; try rewrite IHe; reflexivity. Qed.
Lemma csubst_sound s e rho : ceval rho (csubst s e) = ceval (fun k => reval rho (s k)) e.
Proof. induction e; simpl; auto; try rewrite IHe1, IHe2; try rewrite IHe;
  try rewrite rsubst_sound; reflexivity. Qed.

Lemma is_rq0_sound e rho : is_rq0 e = true -> reval rho e = 0.
Proof. destruct e; simpl; try discriminate. apply Qeqb0. Qed.
Lemma is_rq1_sound e rho : is_rq1 e = true -> reval rho e = 1.
Proof. destruct e; simpl; try discriminate. apply Qeqb1. Qed.
Lemma r0_eval rho : reval rho r0 = 0.
Proof. simpl; apply RMicromega.Q2R_0. Qed.
Lemma r1_eval rho : reval rho r1 = 1.
Proof. simpl; apply RMicromega.Q2R_1. Qed.

Lemma radd_sound a b rho : reval rho (radd a b) = reval rho a + reval rho b.
Proof. unfold radd. destruct (is_rq0 a) eqn:A; [rewrite (is_rq0_sound a rho A); ring|].
  destruct (is_rq0 b) eqn:B; [rewrite (is_rq0_sound b rho B); ring|]. reflexivity. Qed.
Lemma rmul_sound a b rho : reval rho (rmul a b) = reval rho a * reval rho b.
Proof. unfold rmul.
  destruct (is_rq0 a) eqn:A; [rewrite (is_rq0_sound a rho A), r0_eval; ring|].
  destruct (is_rq0 b) eqn:B; [rewrite (is_rq0_sound b rho B), r0_eval; ring|].
  destruct (is_rq1 a) eqn:A1; [rewrite (is_rq1_sound a rho A1); ring|].
  destruct (is_rq1 b) eqn:B1; [rewrite (is_rq1_sound b rho B1); ring|]. reflexivity. Qed.
Lemma rneg_sound a rho : reval rho (rneg a) = - reval rho a.
Proof. unfold rneg. destruct (is_rq0 a) eqn:A; [rewrite (is_rq0_sound a rho A), r0_eval; ring|].
  reflexivity. Qed.
Lemma rsimp_sound e rho : reval rho (rsimp e) = reval rho e.
Proof. induction e; simpl; auto;
  try rewrite radd_sound; try rewrite rmul_sound; try rewrite rneg_sound; congruence. Qed.

Lemma is_c0_sound e rho : is_c0 e = true -> ceval rho e = RtoC 0.
Proof. destruct e; simpl; try discriminate. intros H; rewrite (is_rq0_sound r rho H); reflexivity. Qed.
Lemma is_c1_sound e rho : is_c1 e = true -> ceval rho e = RtoC 1.
Proof. destruct e; simpl; try discriminate. intros H; rewrite (is_rq1_sound r rho H); reflexivity. Qed.
Lemma c0_eval rho : ceval rho (CR r0) = RtoC 0.
Proof. simpl; rewrite RMicromega.Q2R_0; reflexivity. Qed.
Lemma cadd_sound a b rho : ceval rho (cadd a b) = Cplus (ceval rho a) (ceval rho b).
Proof. unfold cadd. destruct (is_c0 a) eqn:A; [rewrite (is_c0_sound a rho A); csolve|].
  destruct (is_c0 b) eqn:B; [rewrite (is_c0_sound b rho B); csolve|]. reflexivity. Qed.
Lemma cmul_sound a b rho : ceval rho (cmul a b) = Cmult (ceval rho a) (ceval rho b).
Proof. unfold cmul.
  destruct (is_c0 a) eqn:A; [rewrite (is_c0_sound a rho A), c0_eval; csolve|].
  destruct (is_c0 b) eqn:B; [rewrite (is_c0_sound b rho B), c0_eval; csolve|].
  destruct (is_c1 a) eqn:A1; [rewrite (is_c1_sound a rho A1); csolve|].
  destruct (is_c1 b) eqn:B1; [rewrite (is_c1_sound b rho B1); csolve|]. reflexivity. Qed.
Lemma cneg_sound a rho : ceval rho (cneg a) = Copp (ceval rho a).
Proof. unfold cneg. destruct (is_c0 a) eqn:A; [rewrite (is_c0_sound a rho A), c0_eval; csolve|].
  reflexivity. Qed.
Lemma cconj_sound a rho : ceval rho (cconj a) = Cconj (ceval rho a).
Proof. destruct a; simpl; auto. csolve. Qed.
Lemma csimp_sound e rho : ceval rho (csimp e) = ceval rho e.
Proof. induction e; simpl; auto;
  try rewrite cadd_sound; try rewrite cmul_sound; try rewrite cneg_sound; try rewrite cconj_sound;
  try rewrite rsimp_sound; congruence. Qed.

(* ------------------------------------------------------------------ *)
(* the symbolic derivative is the derivative                            *)
(* ------------------------------------------------------------------ *)
Lemma dpl_eq f x l l' : l = l' -> derivable_pt_lim f x l -> derivable_pt_lim f x l'.
Proof. intros; subst; auto. Qed.

Lemma rderiv_dpl e rho k x :
  derivable_pt_lim (fun t => reval (upd rho k t) e) x (reval (upd rho k x) (rderiv k e)).
Proof.
  induction e; simpl.
  - rewrite RMicromega.Q2R_0. apply (derivable_pt_lim_const (Q2R q)).
  - rewrite RMicromega.Q2R_0. apply (derivable_pt_lim_const PI).
  - rewrite RMicromega.Q2R_0. apply (derivable_pt_lim_const (sqrt (IZR (Z.pos n)))).
  - unfold upd at 1. destruct (Nat.eqb k0 k) eqn:E; simpl.
    + rewrite RMicromega.Q2R_1. apply derivable_pt_lim_id.
    + rewrite RMicromega.Q2R_0. apply (derivable_pt_lim_const (rho k0)).
  - apply (derivable_pt_lim_plus _ _ _ _ _ IHe1 IHe2).
  - apply (derivable_pt_lim_mult _ _ _ _ _ IHe1 IHe2).
  - apply (derivable_pt_lim_opp _ _ _ IHe).
  - apply (derivable_pt_lim_comp _ cos _ _ _ IHe (derivable_pt_lim_cos _)).
  - apply (derivable_pt_lim_comp _ sin _ _ _ IHe (derivable_pt_lim_sin _)).
Qed.

Theorem rderiv_correct e rho k x :
  is_derive (fun t => reval (upd rho k t) e) x (reval (upd rho k x) (rderiv k e)).
Proof. apply is_derive_Reals, rderiv_dpl. Qed.

Theorem rderiv_correct_at e rho k :
  is_derive (fun t => reval (upd rho k t) e) (rho k) (reval rho (rderiv k e)).
Proof. rewrite <- (reval_ext (rderiv k e) _ _ (upd_same rho k)). apply rderiv_correct. Qed.

(* a function R -> C is differentiated component-wise *)
Definition is_Cderive (f : R -> C) (x : R) (l : C) : Prop :=
  is_derive (fun t => fst (f t)) x (fst l) /\ is_derive (fun t => snd (f t)) x (snd l).

Definition cdpl (f : R -> C) (x : R) (l : C) : Prop :=
  derivable_pt_lim (fun t => fst (f t)) x (fst l) /\ derivable_pt_lim (fun t => snd (f t)) x (snd l).

Lemma cderiv_dpl e rho k x :
  cdpl (fun t => ceval (upd rho k t) e) x (ceval (upd rho k x) (cderiv k e)).
Proof.
  induction e; simpl.
  - split; simpl; [apply rderiv_dpl | apply (derivable_pt_lim_const 0)].
  - rewrite RMicromega.Q2R_0. split; simpl; [apply (derivable_pt_lim_const 0) | apply (derivable_pt_lim_const 1)].
  - destruct IHe1 as [A1 A2], IHe2 as [B1 B2]. split; simpl.
    + apply (derivable_pt_lim_plus _ _ _ _ _ A1 B1).
    + apply (derivable_pt_lim_plus _ _ _ _ _ A2 B2).
  - destruct IHe1 as [A1 A2], IHe2 as [B1 B2]. split; simpl.
    + eapply dpl_eq; [| apply (derivable_pt_lim_minus _ _ _ _ _
        (derivable_pt_lim_mult _ _ _ _ _ A1 B1) (derivable_pt_lim_mult _ _ _ _ _ A2 B2))].
      unfold mult_fct; ring.
    + eapply dpl_eq; [| apply (derivable_pt_lim_plus _ _ _ _ _
        (derivable_pt_lim_mult _ _ _ _ _ A1 B2) (derivable_pt_lim_mult _ _ _ _ _ A2 B1))].
      unfold mult_fct; ring.
  - destruct IHe as [A1 A2]. split; simpl.
    + apply (derivable_pt_lim_opp _ _ _ A1).
    + apply (derivable_pt_lim_opp _ _ _ A2).
  - pose proof (rderiv_dpl r rho k x) as D. split; simpl.
    + eapply dpl_eq; [| apply (derivable_pt_lim_comp _ cos _ _ _ D (derivable_pt_lim_cos _))]. ring.
    + eapply dpl_eq; [| apply (derivable_pt_lim_comp _ sin _ _ _ D (derivable_pt_lim_sin _))]. ring.
  - destruct IHe as [A1 A2]. split; simpl.
    + exact A1.
    + apply (derivable_pt_lim_opp _ _ _ A2).
Qed.

Theorem cderiv_correct e rho k x :
  is_Cderive (fun t => ceval (upd rho k t) e) x (ceval (upd rho k x) (cderiv k e)).
Proof. destruct (cderiv_dpl e rho k x) as [A B]. split; apply is_derive_Reals; assumption. Qed.

Theorem cderiv_correct_at e rho k :
  is_Cderive (fun t => ceval (upd rho k t) e) (rho k) (ceval rho (cderiv k e)).
Proof. rewrite <- (ceval_ext (cderiv k e) _ _ (upd_same rho k)). apply cderiv_correct. Qed.

(* ------------------------------------------------------------------ *)
(* normaliser soundness                                                 *)
(* ------------------------------------------------------------------ *)
Lemma irr_eqb_eq a b : irr_eqb a b = true -> a = b.
Proof. destruct a, b; simpl; try discriminate; auto. intros H; apply Pos.eqb_eq in H; subst; auto. Qed.
Lemma onat_eqb_eq a b : onat_eqb a b = true -> a = b.
Proof. destruct a, b; simpl; try discriminate; auto. intros H; apply Nat.eqb_eq in H; subst; auto. Qed.
Lemma gen_eqb_eq a b : gen_eqb a b = true -> a = b.
Proof. destruct a, b; unfold gen_eqb; simpl. intros H; apply andb_prop in H; destruct H as [H1 H2].
  apply onat_eqb_eq in H1; apply irr_eqb_eq in H2; subst; auto. Qed.
Lemma atom_eqb_eq a b : atom_eqb a b = true -> a = b.
Proof. destruct a, b; simpl; try discriminate; intros H.
  - apply irr_eqb_eq in H; subst; auto.
  - apply Nat.eqb_eq in H; subst; auto. Qed.

Lemma lin_ins_eval rho g q l :
  lin_eval rho (lin_ins g q l) = Q2R q * gen_eval rho g + lin_eval rho l.
Proof.
  induction l as [|[g' q'] t IH]; simpl.
  - ring.
  - destruct (gen_eqb g g') eqn:E.
    + apply gen_eqb_eq in E; subst g'.
      destruct (Qeq_bool (Qred (q + q')) 0) eqn:Z.
      * apply Qeqb0 in Z. rewrite Q2R_red, Q2R_plus in Z.
        replace (Q2R q) with (- Q2R q') by lra. ring.
      * simpl. rewrite Q2R_red, Q2R_plus. ring.
    + destruct (gen_ltb g g'); simpl; [ring | rewrite IH; ring].
Qed.

Lemma lin_add_eval rho a b : lin_eval rho (lin_add a b) = lin_eval rho a + lin_eval rho b.
Proof. unfold lin_add. induction a as [|[g q] t IH]; simpl; [ring|].
  rewrite lin_ins_eval, IH. ring. Qed.

Lemma lin_scale_eval rho c l : lin_eval rho (lin_scale c l) = Q2R c * lin_eval rho l.
Proof. unfold lin_scale. destruct (Qeq_bool c 0) eqn:Z.
  - apply Qeqb0 in Z. rewrite Z. simpl. ring.
  - induction l as [|[g q] t IH]; simpl; [ring|]. rewrite IH, Q2R_red, Q2R_mult. ring. Qed.

Lemma lin_neg_eval rho l : lin_eval rho (lin_neg l) = - lin_eval rho l.
Proof. unfold lin_neg. rewrite lin_scale_eval, Q2R_m1. ring. Qed.

Lemma lin_eqb_sound rho a : forall b, lin_eqb a b = true -> lin_eval rho a = lin_eval rho b.
Proof. induction a as [|[g q] a IH]; intros [|[g' q'] b]; simpl; try discriminate; auto.
  intros H. apply andb_prop in H; destruct H as [H H3]. apply andb_prop in H; destruct H as [H1 H2].
  apply gen_eqb_eq in H1; subst. apply RMicromega.Qeq_true in H2. rewrite H2, (IH _ H3). reflexivity. Qed.

Lemma irr_pos n : 0 <= IZR (Z.pos n).
Proof. apply IZR_le. lia. Qed.

Lemma irr_mul_eval u v k w :
  irr_mul u v = Some (k, w) -> irr_eval u * irr_eval v = Q2R k * irr_eval w.
Proof.
  destruct u, v; simpl; intros H; try discriminate; try (inversion H; subst; clear H; simpl;
    rewrite ?RMicromega.Q2R_1; ring).
  destruct (Pos.eqb n n0) eqn:E; [|discriminate]. apply Pos.eqb_eq in E; subst.
  inversion H; subst; clear H. simpl. rewrite Q2R_injZ, sqrt_sqrt by apply irr_pos. ring.
Qed.

Lemma lin_mulc_eval rho c u : forall l l',
  lin_mulc c u l = Some l' -> lin_eval rho l' = Q2R c * irr_eval u * lin_eval rho l.
Proof.
  induction l as [|[[ov u'] q] t IH]; simpl; intros l' H.
  - inversion H; subst; simpl; ring.
  - destruct (irr_mul u u') as [[k w]|] eqn:M; [|discriminate].
    destruct (lin_mulc c u t) as [t'|] eqn:T; [|discriminate].
    inversion H; subst; clear H. rewrite lin_ins_eval, (IH _ eq_refl).
    rewrite Q2R_red, !Q2R_mult. unfold gen_eval; simpl.
    apply irr_mul_eval in M.
    transitivity (Q2R c * Q2R q * (match ov with Some k0 => rho k0 | None => 1 end) * (Q2R k * irr_eval w)
                  + Q2R c * irr_eval u * lin_eval rho t); [ring|]. rewrite <- M. ring.
Qed.

Lemma cst_of_sound rho e : forall q u, cst_of e = Some (q, u) -> reval rho e = Q2R q * irr_eval u.
Proof.
  induction e; simpl; intros q0 u0 H; try discriminate.
  - inversion H; subst; simpl; ring.
  - inversion H; subst; simpl; rewrite RMicromega.Q2R_1; ring.
  - inversion H; subst; simpl; rewrite RMicromega.Q2R_1; ring.
  - destruct (cst_of e1) as [[q1 u1]|]; [|discriminate].
    destruct (cst_of e2) as [[q2 u2]|]; [|discriminate].
    destruct (irr_eqb u1 u2) eqn:E; [|discriminate]. apply irr_eqb_eq in E; subst.
    inversion H; subst; clear H. rewrite (IHe1 _ _ eq_refl), (IHe2 _ _ eq_refl), Q2R_red, Q2R_plus. ring.
  - destruct (cst_of e1) as [[q1 u1]|]; [|discriminate].
    destruct (cst_of e2) as [[q2 u2]|]; [|discriminate].
    destruct (irr_mul u1 u2) as [[k w]|] eqn:M; [|discriminate].
    inversion H; subst; clear H. rewrite (IHe1 _ _ eq_refl), (IHe2 _ _ eq_refl), Q2R_red, !Q2R_mult.
    apply irr_mul_eval in M.
    transitivity (Q2R q1 * Q2R q2 * (irr_eval u1 * irr_eval u2)); [ring|]. rewrite M. ring.
  - destruct (cst_of e) as [[q1 u1]|]; [|discriminate].
    inversion H; subst; clear H. rewrite (IHe _ _ eq_refl), Q2R_opp. ring.
Qed.

Lemma lin_of_sound rho e : forall l, lin_of e = Some l -> lin_eval rho l = reval rho e.
Proof.
  induction e; simpl; intros l H; try discriminate.
  - inversion H; subst; clear H. destruct (Qeq_bool q 0) eqn:Z; simpl.
    + apply Qeqb0 in Z. lra.
    + unfold gen_eval; simpl. ring.
  - inversion H; subst; simpl. unfold gen_eval; simpl. rewrite RMicromega.Q2R_1. ring.
  - inversion H; subst; simpl. unfold gen_eval; simpl. rewrite RMicromega.Q2R_1. ring.
  - inversion H; subst; simpl. unfold gen_eval; simpl. rewrite RMicromega.Q2R_1. ring.
  - destruct (lin_of e1) as [x|]; [|discriminate]. destruct (lin_of e2) as [y|]; [|discriminate].
    inversion H; subst; clear H. rewrite lin_add_eval, (IHe1 _ eq_refl), (IHe2 _ eq_refl). reflexivity.
  - destruct (cst_of e1) as [[q u]|] eqn:C1.
    + destruct (lin_of e2) as [y|]; [|discriminate].
      rewrite (lin_mulc_eval rho _ _ _ _ H), (IHe2 _ eq_refl), (cst_of_sound rho _ _ _ C1). ring.
    + destruct (cst_of e2) as [[q u]|] eqn:C2; [|discriminate].
      destruct (lin_of e1) as [x|]; [|discriminate].
      rewrite (lin_mulc_eval rho _ _ _ _ H), (IHe1 _ eq_refl), (cst_of_sound rho _ _ _ C2). ring.
  - destruct (lin_of e) as [x|]; [|discriminate].
    inversion H; subst; clear H. rewrite lin_neg_eval, (IHe _ eq_refl). reflexivity.
Qed.

(* monomials *)
Lemma am_ins_eval rho a e m : am_eval rho (am_ins a e m) = atom_eval rho a ^ e * am_eval rho m.
Proof.
  induction m as [|[a' e'] t IH]; simpl; [ring|].
  destruct (atom_eqb a a') eqn:E.
  - apply atom_eqb_eq in E; subst. simpl. rewrite pow_add. ring.
  - destruct (atom_ltb a a'); simpl; [ring | rewrite IH; ring].
Qed.
Lemma am_mul_eval rho x y : am_eval rho (am_mul x y) = am_eval rho x * am_eval rho y.
Proof. unfold am_mul. induction x as [|[a e] t IH]; simpl; [ring|]. rewrite am_ins_eval, IH. ring. Qed.

Lemma qpow_eval q n : Q2R (qpow q n) = Q2R q ^ n.
Proof. induction n; simpl; [apply RMicromega.Q2R_1 | rewrite Q2R_mult, IHn; reflexivity]. Qed.

Lemma pow_div2 x y : x * x = y ->
  forall e, x ^ e = y ^ Nat.div2 e * (if Nat.odd e then x else 1).
Proof.
  intros H.
  assert (P : forall e, (x ^ e = y ^ Nat.div2 e * (if Nat.odd e then x else 1))
                     /\ (x ^ S e = y ^ Nat.div2 (S e) * (if Nat.odd (S e) then x else 1))).
  { induction e as [|e [IH1 IH2]].
    - split; simpl; ring.
    - split; [exact IH2|].
      change (Nat.div2 (S (S e))) with (S (Nat.div2 e)).
      replace (Nat.odd (S (S e))) with (Nat.odd e) by (unfold Nat.odd; reflexivity).
      simpl pow. rewrite IH1. rewrite <- H. ring. }
  intros e; apply P.
Qed.

Lemma am_norm_eval rho m : forall k m', am_norm m = (k, m') -> am_eval rho m = Q2R k * am_eval rho m'.
Proof.
  induction m as [|[a e] t IH]; simpl; intros k m' H.
  - inversion H; subst; simpl. rewrite RMicromega.Q2R_1. ring.
  - destruct (am_norm t) as [k0 t0]. specialize (IH _ _ eq_refl).
    destruct a as [[| |n]|v].
    + inversion H; subst; clear H. simpl. rewrite pow1, IH. ring.
    + destruct e; inversion H; subst; clear H; simpl; rewrite IH; ring.
    + simpl atom_eval. simpl irr_eval.
      rewrite (pow_div2 _ (IZR (Z.pos n)) (sqrt_sqrt _ (irr_pos n)) e).
      destruct (Nat.odd e); inversion H; subst; clear H; simpl;
        rewrite Q2R_red, Q2R_mult, qpow_eval, Q2R_injZ, IH; ring.
    + destruct e; inversion H; subst; clear H; simpl; rewrite IH; ring.
Qed.

Lemma am_eqb_sound rho x : forall y, am_eqb x y = true -> am_eval rho x = am_eval rho y.
Proof. induction x as [|[a e] x IH]; intros [|[b f] y]; simpl; try discriminate; auto.
  intros H. apply andb_prop in H; destruct H as [H H3]. apply andb_prop in H; destruct H as [H1 H2].
  apply atom_eqb_eq in H1; apply Nat.eqb_eq in H2; subst. rewrite (IH _ H3). reflexivity. Qed.

(* terms and polynomials *)
Local Open Scope C_scope.

Lemma tmul_eval rho s t : teval rho (tmul s t) = teval rho s * teval rho t.
Proof.
  unfold tmul, teval. destruct (am_norm (am_mul (tam s) (tam t))) as [k m] eqn:N. simpl.
  pose proof (am_norm_eval rho _ _ _ N) as H. rewrite am_mul_eval in H.
  rewrite lin_add_eval, cis_plus.
  set (X := (Q2R (tre s), Q2R (tim s)) : C). set (Y := (Q2R (tre t), Q2R (tim t)) : C).
  assert (E1 : ((Q2R (Qred (k * (tre s * tre t - tim s * tim t))),
                 Q2R (Qred (k * (tre s * tim t + tim s * tre t)))) : C) = RtoC (Q2R k) * (X * Y)).
  { unfold X, Y. apply Ceq; simpl; rewrite Q2R_red, Q2R_mult;
      [rewrite Q2R_minus | rewrite Q2R_plus]; rewrite !Q2R_mult; ring. }
  rewrite E1.
  assert (E2 : RtoC (Q2R k) * RtoC (am_eval rho m) = RtoC (am_eval rho (tam s)) * RtoC (am_eval rho (tam t))).
  { rewrite <- !RtoC_mult. f_equal. symmetry; exact H. }
  transitivity ((X * Y) * (cis (lin_eval rho (tph s)) * cis (lin_eval rho (tph t)))
                * (RtoC (Q2R k) * RtoC (am_eval rho m))); [ring|]. rewrite E2. ring.
Qed.

Lemma pins_eval rho t p : peval rho (pins t p) = teval rho t + peval rho p.
Proof.
  induction p as [|s p IH]; simpl; [reflexivity|].
  destruct (key_eqb t s) eqn:K.
  - unfold key_eqb in K. apply andb_prop in K; destruct K as [K1 K2].
    pose proof (lin_eqb_sound rho _ _ K1) as L. pose proof (am_eqb_sound rho _ _ K2) as A.
    assert (E : teval rho (mkT (Qred (tre t + tre s)) (Qred (tim t + tim s)) (tph s) (tam s))
                = teval rho t + teval rho s).
    { unfold teval; simpl. rewrite L, A.
      replace ((Q2R (Qred (tre t + tre s)), Q2R (Qred (tim t + tim s))) : C)
        with (((Q2R (tre t), Q2R (tim t)) : C) + (Q2R (tre s), Q2R (tim s)))
        by (apply Ceq; simpl; rewrite Q2R_red, Q2R_plus; reflexivity).
      ring. }
    destruct (Qeq_bool (Qred (tre t + tre s)) 0 && Qeq_bool (Qred (tim t + tim s)) 0) eqn:Z.
    + apply andb_prop in Z; destruct Z as [Z1 Z2]. apply Qeqb0 in Z1; apply Qeqb0 in Z2.
      rewrite Cplus_assoc, <- E. unfold teval at 1; simpl. rewrite Z1, Z2.
      replace ((0%R, 0%R) : C) with (RtoC 0) by reflexivity. ring.
    + simpl. rewrite E. ring.
  - simpl. rewrite IH. ring.
Qed.

Lemma padd_eval rho p q : peval rho (padd p q) = peval rho p + peval rho q.
Proof. unfold padd. induction p as [|t p IH]; simpl; [ring|]. rewrite pins_eval, IH. ring. Qed.

Lemma pmap_tmul_eval rho s q : peval rho (map (tmul s) q) = teval rho s * peval rho q.
Proof. induction q as [|t q IH]; simpl; [ring|]. rewrite tmul_eval, IH. ring. Qed.

Lemma pmul_eval rho p q : peval rho (pmul p q) = peval rho p * peval rho q.
Proof. unfold pmul. induction p as [|s p IH]; simpl; [ring|].
  rewrite padd_eval, pmap_tmul_eval, IH. ring. Qed.

Lemma pneg_eval rho p : peval rho (pneg p) = - peval rho p.
Proof. unfold pneg. induction p as [|t p IH]; simpl; [ring|]. rewrite IH.
  unfold teval at 1; simpl. rewrite !Q2R_opp.
  replace ((- Q2R (tre t), - Q2R (tim t))%R : C) with (- ((Q2R (tre t), Q2R (tim t)) : C))
    by (apply Ceq; reflexivity).
  unfold teval. ring. Qed.

Lemma pconj_eval rho p : peval rho (pconj p) = Cconj (peval rho p).
Proof. unfold pconj. induction p as [|t p IH]; simpl; [apply Ceq; simpl; ring|]. rewrite IH.
  rewrite Cconj_plus. f_equal. unfold teval; simpl.
  rewrite !Cconj_mult, Cconj_R, lin_neg_eval, cis_neg, Q2R_opp. reflexivity. Qed.

Lemma pconst_eval rho a b : peval rho (pconst a b) = (Q2R a, Q2R b).
Proof. unfold pconst. cbn [peval]. unfold teval; cbn [tre tim tph tam lin_eval am_eval]. rewrite cis_0. apply Ceq; simpl; ring. Qed.
Lemma patom_eval rho a : peval rho (patom a) = RtoC (atom_eval rho a).
Proof. unfold patom. cbn [peval]. unfold teval; cbn [tre tim tph tam lin_eval am_eval]. rewrite cis_0, RMicromega.Q2R_1, RMicromega.Q2R_0. apply Ceq; simpl; ring. Qed.
Lemma pcis_eval rho l : peval rho (pcis l) = cis (lin_eval rho l).
Proof. unfold pcis. cbn [peval]. unfold teval; cbn [tre tim tph tam lin_eval am_eval]. rewrite RMicromega.Q2R_1, RMicromega.Q2R_0. apply Ceq; simpl; ring. Qed.

Lemma psqrt_eval rho n : peval rho (psqrt n) = RtoC (sqrt (IZR (Z.pos n))).
Proof.
  unfold psqrt. destruct (Pos.eqb (Pos.sqrt n * Pos.sqrt n) n) eqn:E.
  - apply Pos.eqb_eq in E. rewrite pconst_eval, Q2R_injZ, RMicromega.Q2R_0.
    rewrite <- E at 2. rewrite Pos2Z.inj_mul, mult_IZR, sqrt_square by apply irr_pos. reflexivity.
  - apply patom_eval.
Qed.

Local Arguments padd : simpl never.
Local Arguments pmul : simpl never.
Local Arguments pneg : simpl never.
Local Arguments pconj : simpl never.
Local Arguments psqrt : simpl never.
Local Arguments pconst : simpl never.
Local Arguments patom : simpl never.
Local Arguments pcis : simpl never.
Local Arguments pcis_red : simpl never.
Local Arguments zeta24 : simpl never.

(* --- exact evaluation of e^{i pi q}, 12 q integer ------------------- *)
Lemma cis_period_nat x k : cis (x + 2 * INR k * PI)%R = cis x.
Proof. unfold cis. rewrite cos_period, sin_period. reflexivity. Qed.

Lemma cis_period_Z x k : cis (x + 2 * IZR k * PI)%R = cis x.
Proof.
  destruct k as [|p|p].
  - f_equal. simpl. ring.
  - replace (IZR (Z.pos p)) with (INR (Pos.to_nat p)) by (rewrite INR_IZR_INZ, positive_nat_Z; reflexivity).
    apply cis_period_nat.
  - rewrite <- (cis_period_nat (x + 2 * IZR (Z.neg p) * PI)%R (Pos.to_nat p)).
    f_equal. rewrite INR_IZR_INZ, positive_nat_Z. change (Z.neg p) with (- Z.pos p)%Z.
    rewrite opp_IZR. ring.
Qed.

Lemma ppow_cis rho p x : peval rho p = cis x ->
  forall n, peval rho (ppow p n) = cis (INR n * x)%R.
Proof.
  intros H. induction n.
  - cbn [ppow]. rewrite pconst_eval. simpl INR. rewrite Rmult_0_l, cis_0, RMicromega.Q2R_1, RMicromega.Q2R_0.
    reflexivity.
  - cbn [ppow]. rewrite pmul_eval, H, IHn, <- cis_plus. f_equal. rewrite S_INR. ring.
Qed.

Lemma sqrt2_sq : (sqrt 2 * sqrt 2 = 2)%R.
Proof. apply sqrt_sqrt; lra. Qed.
Lemma sqrt3_sq : (sqrt 3 * sqrt 3 = 3)%R.
Proof. apply sqrt_sqrt; lra. Qed.
Lemma inv_sqrt2 : (1 / sqrt 2 = sqrt 2 / 2)%R.
Proof.
  pose proof sqrt2_sq as H2. assert (N : sqrt 2 <> 0%R) by (intro E; rewrite E in H2; lra).
  unfold Rdiv. rewrite Rmult_1_l. apply (Rmult_eq_reg_l (sqrt 2)); [|exact N].
  rewrite Rinv_r by exact N. rewrite <- Rmult_assoc, H2. lra.
Qed.
Lemma cos_PI12 : cos (PI / 12) = ((sqrt 2 * sqrt 3 + sqrt 2) / 4)%R.
Proof.
  replace (PI / 12)%R with (PI / 3 - PI / 4)%R by field.
  rewrite cos_minus, cos_PI3, sin_PI3, cos_PI4, sin_PI4, inv_sqrt2. field.
Qed.
Lemma sin_PI12 : sin (PI / 12) = ((sqrt 2 * sqrt 3 - sqrt 2) / 4)%R.
Proof.
  replace (PI / 12)%R with (PI / 3 - PI / 4)%R by field.
  rewrite sin_minus, cos_PI3, sin_PI3, cos_PI4, sin_PI4, inv_sqrt2. field.
Qed.

Lemma zeta24_eval rho : peval rho zeta24 = cis (PI / 12).
Proof.
  unfold zeta24. rewrite padd_eval, !pmul_eval, !pconst_eval, !psqrt_eval.
  unfold cis. rewrite cos_PI12, sin_PI12.
  apply Ceq; unfold Q2R; simpl; field.
Qed.

Lemma cispi_eval rho q p : cispi q = Some p -> peval rho p = cis (Q2R q * PI)%R.
Proof.
  unfold cispi. set (x := Qred (q * 12)).
  destruct (Pos.eqb (Qden x) 1) eqn:E; [|discriminate]. intros H; inversion H; subst p; clear H.
  apply Pos.eqb_eq in E.
  rewrite (ppow_cis rho zeta24 _ (zeta24_eval rho)).
  assert (HQ : (Q2R q * 12 = IZR (Qnum x))%R).
  { assert (Q2R x = Q2R q * 12)%R as <-.
    { unfold x. rewrite Q2R_red, Q2R_mult. f_equal. unfold Q2R; simpl; lra. }
    unfold Q2R. rewrite E. simpl. lra. }
  set (a := Qnum x) in *.
  pose proof (Z.div_mod a 24 ltac:(lia)) as D.
  pose proof (Z.mod_pos_bound a 24 ltac:(lia)) as B.
  rewrite INR_IZR_INZ, Z2Nat.id by lia.
  symmetry.
  replace (Q2R q * PI)%R with (IZR (a mod 24) * (PI / 12) + 2 * IZR (a / 24) * PI)%R.
  - apply cis_period_Z.
  - assert (IZR a = 24 * IZR (a / 24) + IZR (a mod 24))%R as A.
    { rewrite D at 1. rewrite plus_IZR, mult_IZR. reflexivity. }
    replace (Q2R q) with (IZR a / 12)%R by lra. rewrite A. field.
Qed.

Lemma split_pi_eval rho l : forall p r, split_pi l = (p, r) ->
  lin_eval rho l = (Q2R p * PI + lin_eval rho r)%R.
Proof.
  induction l as [|[g q] t IH]; intros p r H.
  - cbn [split_pi] in H. inversion H; subst. simpl. rewrite RMicromega.Q2R_0. ring.
  - cbn [split_pi] in H. destruct (split_pi t) as [p0 r0]. specialize (IH _ _ eq_refl).
    destruct (gen_eqb g (None, UPi)) eqn:E; inversion H; subst; clear H; cbn [lin_eval]; rewrite IH.
    + apply gen_eqb_eq in E; subst g. unfold gen_eval; simpl. rewrite Q2R_red, Q2R_plus. ring.
    + ring.
Qed.

Lemma pcis_red_eval rho l : peval rho (pcis_red l) = cis (lin_eval rho l).
Proof.
  unfold pcis_red. destruct (split_pi l) as [q r] eqn:S. destruct (cispi q) as [p|] eqn:K.
  - rewrite pmul_eval, (cispi_eval rho _ _ K), pcis_eval, <- cis_plus, (split_pi_eval rho _ _ _ S).
    reflexivity.
  - apply pcis_eval.
Qed.

Lemma rpoly_sound rho e : forall p, rpoly e = Some p -> peval rho p = RtoC (reval rho e).
Proof.
  induction e; simpl; intros p H.
  - inversion H; subst. rewrite pconst_eval, RMicromega.Q2R_0. reflexivity.
  - inversion H; subst. apply patom_eval.
  - inversion H; subst. apply psqrt_eval.
  - inversion H; subst. apply patom_eval.
  - destruct (rpoly e1) as [x|]; [|discriminate]. destruct (rpoly e2) as [y|]; [|discriminate].
    inversion H; subst. rewrite padd_eval, (IHe1 _ eq_refl), (IHe2 _ eq_refl), RtoC_plus. reflexivity.
  - destruct (rpoly e1) as [x|]; [|discriminate]. destruct (rpoly e2) as [y|]; [|discriminate].
    inversion H; subst. rewrite pmul_eval, (IHe1 _ eq_refl), (IHe2 _ eq_refl), RtoC_mult. reflexivity.
  - destruct (rpoly e) as [x|]; [|discriminate].
    inversion H; subst. rewrite pneg_eval, (IHe _ eq_refl), RtoC_opp. reflexivity.
  - destruct (lin_of e) as [l|] eqn:L; [|discriminate]. inversion H; subst; clear H.
    rewrite pmul_eval, pconst_eval, padd_eval, !pcis_red_eval, lin_neg_eval, (lin_of_sound rho _ _ L).
    rewrite Q2R_half, RMicromega.Q2R_0. unfold cis. rewrite cos_neg, sin_neg. apply Ceq; simpl; field.
  - destruct (lin_of e) as [l|] eqn:L; [|discriminate]. inversion H; subst; clear H.
    rewrite pmul_eval, pconst_eval, padd_eval, pneg_eval, !pcis_red_eval, lin_neg_eval, (lin_of_sound rho _ _ L).
    rewrite Q2R_mhalf, RMicromega.Q2R_0. unfold cis. rewrite cos_neg, sin_neg. apply Ceq; simpl; field.
Qed.

Lemma cpoly_sound rho e : forall p, cpoly e = Some p -> peval rho p = ceval rho e.
Proof.
  induction e; simpl; intros p H.
  - apply rpoly_sound; assumption.
  - inversion H; subst. rewrite pconst_eval, RMicromega.Q2R_0, RMicromega.Q2R_1. reflexivity.
  - destruct (cpoly e1) as [x|]; [|discriminate]. destruct (cpoly e2) as [y|]; [|discriminate].
    inversion H; subst. rewrite padd_eval, (IHe1 _ eq_refl), (IHe2 _ eq_refl). reflexivity.
  - destruct (cpoly e1) as [x|]; [|discriminate]. destruct (cpoly e2) as [y|]; [|discriminate].
    inversion H; subst. rewrite pmul_eval, (IHe1 _ eq_refl), (IHe2 _ eq_refl). reflexivity.
  - destruct (cpoly e) as [x|]; [|discriminate].
    inversion H; subst. rewrite pneg_eval, (IHe _ eq_refl). reflexivity.
  - destruct (lin_of r) as [l|] eqn:L; [|discriminate]. inversion H; subst.
    rewrite pcis_red_eval, (lin_of_sound rho _ _ L). reflexivity.
  - destruct (cpoly e) as [x|]; [|discriminate].
    inversion H; subst. rewrite pconj_eval, (IHe _ eq_refl). reflexivity.
Qed.

Lemma pzero_sound rho p : pzero p = true -> peval rho p = RtoC 0.
Proof.
  unfold pzero. induction p as [|t p IH]; simpl; intros H; [reflexivity|].
  apply andb_prop in H; destruct H as [H1 H2]. rewrite (IH H2).
  unfold tzero in H1. apply andb_prop in H1; destruct H1 as [Z1 Z2].
  apply Qeqb0 in Z1; apply Qeqb0 in Z2. unfold teval. rewrite Z1, Z2.
  replace ((0%R, 0%R) : C) with (RtoC 0) by reflexivity. ring.
Qed.

(* The decision procedure is sound: [ceqb a b = true] proves equality of the two
   expressions for every value of the parameters. *)
Theorem ceqb_sound a b : ceqb a b = true -> forall rho, ceval rho a = ceval rho b.
Proof.
  unfold ceqb. destruct (cpoly (CAdd a (CNeg b))) as [p|] eqn:P; [|discriminate].
  intros Z rho. pose proof (cpoly_sound rho _ _ P) as H. rewrite (pzero_sound rho _ Z) in H.
  simpl in H. transitivity ((ceval rho a + - ceval rho b) + ceval rho b); [ring|].
  rewrite <- H. ring.
Qed.
