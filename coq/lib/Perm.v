(* lib/Perm.v - permutations as `list nat` (definitions only; lemmas in PermThm.v).

   All of the bookkeeping of the mapping passes (`pi`, `placement`,
   `initial_mapping`, `final_mapping`) is a Python list of ints that is meant to
   be injective.  Models of
     sabre.py:_apply_swap      -> apply_swap   (the pi.index based update)
     sabre.py:_apply_perm      -> apply_perm
     [p[x] for x in q]         -> compose p q  (compose_opt with the IndexError)
   No proofs in this file: it must keep compiling and extracting. *)
From Coq Require Import List Arith Bool PeanoNat.
Import ListNotations.

Fixpoint memb (x : nat) (l : list nat) : bool :=
  match l with [] => false | y :: t => Nat.eqb x y || memb x t end.

Fixpoint nodupb (l : list nat) : bool :=
  match l with [] => true | x :: t => negb (memb x t) && nodupb t end.

(* list.index: None = ValueError *)
Fixpoint index_of (x : nat) (l : list nat) : option nat :=
  match l with
  | [] => None
  | y :: t => if Nat.eqb x y then Some 0
              else match index_of x t with Some i => Some (S i) | None => None end
  end.

Fixpoint set_nth (i v : nat) (l : list nat) : list nat :=
  match l, i with
  | [], _ => []
  | _ :: t, 0 => v :: t
  | x :: t, S k => x :: set_nth k v t
  end.

(* pi[i], pi[j] = pi[j], pi[i]  (right-hand side evaluated first) *)
Definition swap_at (l : list nat) (i j : nat) : list nat :=
  let a := nth i l 0 in
  let b := nth j l 0 in
  set_nth j a (set_nth i b l).

(* GeneralizedSabreAlgorithm._apply_swap, the part acting on pi:
     l1, l2 = pi.index(swap[0]), pi.index(swap[1]); pi[l1], pi[l2] = pi[l2], pi[l1]
   None = ValueError of list.index *)
Definition apply_swap (e : nat * nat) (pi : list nat) : option (list nat) :=
  match index_of (fst e) pi, index_of (snd e) pi with
  | Some l1, Some l2 => Some (swap_at pi l1 l2)
  | _, _ => None
  end.

(* the value-level transposition: what apply_swap does on a permutation *)
Definition tr (a b x : nat) : nat :=
  if Nat.eqb x a then b else if Nat.eqb x b then a else x.

(* "by value" variant (NOT what the code does; used to state the difference) *)
Definition swap_by_value (e : nat * nat) (pi : list nat) : list nat :=
  swap_at pi (fst e) (snd e).

Fixpoint apply_swaps (es : list (nat * nat)) (pi : list nat) : option (list nat) :=
  match es with
  | [] => Some pi
  | e :: t => match apply_swap e pi with Some pi' => apply_swaps t pi' | None => None end
  end.

Definition tr_all (es : list (nat * nat)) (x : nat) : nat :=
  fold_left (fun y e => tr (fst e) (snd e) y) es x.

(* ---- sorted(), dict with last-wins ---------------------------------------- *)
Fixpoint insert_sorted (x : nat) (l : list nat) : list nat :=
  match l with
  | [] => [x]
  | y :: t => if Nat.leb x y then x :: l else y :: insert_sorted x t
  end.
Definition sort (l : list nat) : list nat := fold_right insert_sorted [] l.

(* lookup in a dict built by inserting the pairs left to right (later wins) *)
Fixpoint assoc_last (k : nat) (m : list (nat * nat)) (acc : option nat) : option nat :=
  match m with
  | [] => acc
  | (a, b) :: t => assoc_last k t (if Nat.eqb k a then Some b else acc)
  end.

(* GeneralizedSabreAlgorithm._apply_perm:
     pi_c = {q: pi[perm[i]] for i, q in enumerate(sorted(perm))}
     for q in perm: pi[q] = pi_c[q]
   None = IndexError (an entry of perm is not an index of pi) *)
Definition apply_perm (perm pi : list nat) : option (list nat) :=
  if forallb (fun x => Nat.ltb x (length pi)) perm then
    let pi_c := combine (sort perm) (map (fun p => nth p pi 0) perm) in
    Some (fold_left (fun acc q =>
            match assoc_last q pi_c None with Some v => set_nth q v acc | None => acc end) perm pi)
  else None.

(* [p[x] for x in q] *)
Definition compose (p q : list nat) : list nat := map (fun x => nth x p 0) q.
Definition compose_opt (p q : list nat) : option (list nat) :=
  if forallb (fun x => Nat.ltb x (length p)) q then Some (compose p q) else None.

Definition idperm (n : nat) : list nat := seq 0 n.

(* inverse of a permutation of 0..n-1 (entries not found map to n) *)
Definition inverse (p : list nat) : list nat :=
  map (fun i => match index_of i p with Some j => j | None => length p end) (seq 0 (length p)).

(* preimage of a physical location under pi: logical qudit sitting on x *)
Definition preimage (pi : list nat) (L : list nat) : list nat :=
  map (fun x => match index_of x pi with Some j => j | None => length pi end) L.

(* pi is a permutation of 0..n-1 *)
Definition wfperm (n : nat) (l : list nat) : Prop :=
  NoDup l /\ length l = n /\ forall x, In x l -> x < n.
Definition wfpermb (n : nat) (l : list nat) : bool :=
  nodupb l && Nat.eqb (length l) n && forallb (fun x => Nat.ltb x n) l.

(* injective map into 0..m-1 (initial_mapping / final_mapping / placement) *)
Definition injinto (m : nat) (l : list nat) : Prop := NoDup l /\ forall x, In x l -> x < m.
Definition injintob (m : nat) (l : list nat) : bool := nodupb l && forallb (fun x => Nat.ltb x m) l.
