(* lib/Tensor.v - n-dimensional arrays over an abstract ring, the numpy operations used by
   bqskit/qis/unitary/unitarybuilder.py and bqskit/qis/state/state.py, and the tensor-contraction
   pipelines of UnitaryBuilder.apply_right / apply_left / eval_apply_right / StateVector.apply,
   modelled statement by statement.  DEFINITIONS ONLY; theorems are in lib/TensorThm.v.

   Trusted reading of numpy (this is the part that is *stated*, not proved):
     - an ndarray is a shape (list of extents) and a value for every multi-index (digit list);
     - reshape keeps the row-major (C order) flat position:  flat = Horner (flatten);
     - a.transpose(axes)[i'] = a[i]  with  i[axes[k]] = i'[k];  its shape is [shape[a] for a in axes];
     - 2-D matmul  (A @ B)[r,c] = sum_k A[r,k] * B[k,c];
     - np.argsort of a permutation of range(m) returns the position of each value.
   Indices, extents and flat positions are binary naturals (N); axis numbers / qudit numbers are nat. *)
From Coq Require Import List NArith Arith Bool ZArith.
Import ListNotations.
Open Scope N_scope.

(* ------------------------------------------------------------------ index arithmetic *)
Definition prodN (sh : list N) : N := fold_right N.mul 1 sh.

(* row-major flat position of multi-index i in an array of shape sh *)
Fixpoint flatten (sh : list N) (i : list N) : N :=
  match sh, i with
  | _ :: sh', x :: i' => x * prodN sh' + flatten sh' i'
  | _, _ => 0
  end.

(* the multi-index at flat position k (np.unravel_index, C order) *)
Fixpoint unflatten (sh : list N) (k : N) : list N :=
  match sh with
  | [] => []
  | _ :: sh' => (k / prodN sh') :: unflatten sh' (k mod prodN sh')
  end.

(* list.index for a value that occurs (length l when absent) *)
Fixpoint pos (x : nat) (l : list nat) : nat :=
  match l with
  | [] => 0%nat
  | y :: l' => if Nat.eqb x y then 0%nat else S (pos x l')
  end.

Definition memb (x : nat) (l : list nat) : bool := existsb (Nat.eqb x) l.

(* [l[p] for p in ps] *)
Definition gather (ps : list nat) (l : list N) : list N := map (fun p => nth p l 0) ps.

(* source multi-index read by a.transpose(axes) at result multi-index i' *)
Definition scatter (axes : list nat) (i' : list N) : list N :=
  map (fun j => nth (pos j axes) i' 0) (seq 0 (length axes)).

Definition argsort (perm : list nat) : list nat := map (fun v => pos v perm) (seq 0 (length perm)).

Definition Nseq (n : N) : list N := map N.of_nat (seq 0 (N.to_nat n)).

Definition all_idx (sh : list N) : list (list N) := map (unflatten sh) (Nseq (prodN sh)).

Fixpoint idx_eqb (a b : list N) : bool :=
  match a, b with
  | [], [] => true
  | x :: a', y :: b' => N.eqb x y && idx_eqb a' b'
  | _, _ => false
  end.

Fixpoint nodupb (l : list nat) : bool :=
  match l with [] => true | x :: l' => negb (memb x l') && nodupb l' end.

(* x for x in range(n) if x not in loc *)
Definition complement (n : nat) (loc : list nat) : list nat :=
  filter (fun x => negb (memb x loc)) (seq 0 n).

(* multi-index i with the digits at positions ps replaced by kd (position ps[t] receives kd[t]) *)
Definition upd (i : list N) (ps : list nat) (kd : list N) : list N :=
  map (fun q => if memb q ps then nth (pos q ps) kd 0 else nth q i 0) (seq 0 (length i)).

(* i is a multi-index of an array of shape sh *)
Definition valid (sh i : list N) : Prop := Forall2 (fun x d => x < d) i sh.

Section Ring.
Variable R : Type.
Variables (r0 r1 : R) (radd rmul : R -> R -> R) (rconj : R -> R).

Record nd := mk_nd { shape : list N; at_ : list N -> R }.

Definition rsum (l : list R) : R := fold_right radd r0 l.

(* ------------------------------------------------------------------ numpy operations *)
Definition nd_transpose (axes : list nat) (T : nd) : nd :=
  mk_nd (gather axes (shape T)) (fun i' => at_ T (scatter axes i')).

Definition nd_reshape (sh' : list N) (T : nd) : nd :=
  mk_nd sh' (fun i' => at_ T (unflatten (shape T) (flatten sh' i'))).

(* reshape((ld, -1)) and reshape((-1, rd)): numpy derives the free extent from the size *)
Definition nd_reshape_left (ld : N) (T : nd) : nd := nd_reshape [ld; prodN (shape T) / ld] T.
Definition nd_reshape_right (rd : N) (T : nd) : nd := nd_reshape [prodN (shape T) / rd; rd] T.

Definition nd_matmul (A B : nd) : nd :=
  let m := nth 0 (shape A) 0 in
  let k := nth 1 (shape A) 0 in
  let n := nth 1 (shape B) 0 in
  mk_nd [m; n] (fun i =>
    rsum (map (fun x => rmul (at_ A [nth 0 i 0; x]) (at_ B [x; nth 1 i 0])) (Nseq k))).

Definition nd_identity (dim : N) : nd :=
  mk_nd [dim; dim] (fun i => if N.eqb (nth 0 i 0) (nth 1 i 0) then r1 else r0).

Definition nd_conj (A : nd) : nd := mk_nd (shape A) (fun i => rconj (at_ A i)).
(* UnitaryMatrix.dagger = self.conj().T *)
Definition nd_dagger (A : nd) : nd := nd_transpose [1%nat; 0%nat] (nd_conj A).

(* extensional equality of arrays: same shape, same value at every multi-index of that shape *)
Definition nd_eq (A B : nd) : Prop :=
  shape A = shape B /\ forall i, valid (shape A) i -> at_ A i = at_ B i.

(* ------------------------------------------------------------------ concrete storage
   A materialised array is a digit trie; numpy arrays are always materialised, the function
   representation above is for the proofs.  materialize is the identity on valid indices. *)
Inductive tree := Leaf (x : R) | Node (ts : list tree).

Fixpoint tab (sh : list N) (f : list N -> R) : tree :=
  match sh with
  | [] => Leaf (f [])
  | d :: sh' => Node (map (fun x => tab sh' (fun i => f (x :: i))) (Nseq d))
  end.

Fixpoint tlookup (i : list N) (t : tree) : R :=
  match i, t with
  | x :: i', Node ts => tlookup i' (nth (N.to_nat x) ts (Leaf r0))
  | _, Leaf v => v
  | [], Node _ => r0
  end.

Definition materialize (T : nd) : nd :=
  let t := tab (shape T) (at_ T) in mk_nd (shape T) (fun i => tlookup i t).

(* ------------------------------------------------------------------ UnitaryBuilder *)
(* __init__: np.identity(dim).reshape(radixes * 2) *)
Definition ub_init (radixes : list N) : nd :=
  nd_reshape (radixes ++ radixes) (nd_identity (prodN radixes)).

(* get_unitary: tensor.reshape((dim, dim)) *)
Definition ub_get_unitary (radixes : list N) (T : nd) : nd :=
  nd_reshape [prodN radixes; prodN radixes] T.

(* apply_right (after the argument checks) *)
Definition apply_right (radixes : list N) (T U : nd) (loc : list nat) (inverse : bool) : nd :=
  let n := length radixes in
  let left_perm := loc in
  let mid_perm := complement n left_perm in
  let right_perm := map (fun x => (x + n)%nat) (seq 0 n) in
  let left_dim := prodN (gather left_perm radixes) in
  let U := if inverse then nd_dagger U else U in
  let perm := left_perm ++ mid_perm ++ right_perm in
  let T := nd_transpose perm T in
  let T := nd_reshape_left left_dim T in
  let T := nd_matmul U T in
  let shp := gather perm (radixes ++ radixes) in
  let T := nd_reshape shp T in
  let inv_perm := argsort perm in
  nd_transpose inv_perm T.

(* apply_left (after the argument checks) *)
Definition apply_left (radixes : list N) (T U : nd) (loc : list nat) (inverse : bool) : nd :=
  let n := length radixes in
  let left_perm := seq 0 n in
  let mid_perm := map (fun x => (x + n)%nat) (filter (fun x => negb (memb x loc)) left_perm) in
  let right_perm := map (fun x => (x + n)%nat) loc in
  let right_dim := prodN (map (fun x => nth (x - n) radixes 0) right_perm) in
  let U := if inverse then nd_dagger U else U in
  let perm := left_perm ++ mid_perm ++ right_perm in
  let T := nd_transpose perm T in
  let T := nd_reshape_right right_dim T in
  let T := nd_matmul T U in
  let shp := gather perm (radixes ++ radixes) in
  let T := nd_reshape shp T in
  let inv_perm := argsort perm in
  nd_transpose inv_perm T.

(* eval_apply_right: same contraction on a copy, result reshaped to (dim, dim) *)
Definition eval_apply_right (radixes : list N) (T M : nd) (loc : list nat) : nd :=
  let n := length radixes in
  let left_perm := loc in
  let mid_perm := complement n left_perm in
  let right_perm := map (fun x => (x + n)%nat) (seq 0 n) in
  let left_dim := prodN (gather left_perm radixes) in
  let perm := left_perm ++ mid_perm ++ right_perm in
  let C := nd_transpose perm T in
  let C := nd_reshape_left left_dim C in
  let C := nd_matmul M C in
  let shp := gather perm (radixes ++ radixes) in
  let C := nd_reshape shp C in
  let inv_perm := argsort perm in
  let C := nd_transpose inv_perm C in
  nd_reshape [prodN radixes; prodN radixes] C.

(* StateVector.apply (after the argument checks); v has shape [dim] *)
Definition sv_apply (radixes : list N) (v U : nd) (loc : list nat) (inverse : bool) : nd :=
  let n := length radixes in
  let identity_action_perm := complement n loc in
  let unitary_action_perm := loc in
  let left_dim := prodN (gather unitary_action_perm radixes) in
  let U := if inverse then nd_dagger U else U in
  let perm := unitary_action_perm ++ identity_action_perm in
  let v := nd_reshape radixes v in
  let v := nd_transpose perm v in
  let v := nd_reshape_left left_dim v in
  let v := nd_matmul U v in
  let shp := gather perm (radixes ++ radixes) in
  let v := nd_reshape shp v in
  let inv_perm := argsort perm in
  let v := nd_transpose inv_perm v in
  nd_reshape [prodN (shape v)] v.

(* the argument checks of apply_right / apply_left / StateVector.apply (check_arguments=True):
   CircuitLocation.is_location(location, num_qudits), len(location) == utry.num_qudits,
   utry.radixes[t] == radixes[location[t]] *)
Definition is_location (n : nat) (loc : list nat) : bool :=
  forallb (fun q => Nat.ltb q n) loc && nodupb loc.

Definition check_apply (radixes : list N) (u_radixes : list N) (loc : list nat) : bool :=
  is_location (length radixes) loc
  && Nat.eqb (length loc) (length u_radixes)
  && idx_eqb u_radixes (gather loc radixes).

(* ------------------------------------------------------------------ specification side *)
(* the dim x dim matrix acting as U on the qudits loc (in that order) and as the identity on
   the others, qudit 0 most significant: entry-wise, Kronecker delta on the untouched digits *)
Definition embed (radixes : list N) (loc : list nat) (U : nd) : nd :=
  let n := length radixes in
  let dim := prodN radixes in
  let rest := complement n loc in
  let shl := gather loc radixes in
  mk_nd [dim; dim] (fun rc =>
    let i := unflatten radixes (nth 0 rc 0) in
    let j := unflatten radixes (nth 1 rc 0) in
    if idx_eqb (gather rest i) (gather rest j)
    then at_ U [flatten shl (gather loc i); flatten shl (gather loc j)]
    else r0).

(* a column vector as a dim x 1 matrix and back *)
Definition as_col (v : nd) : nd := mk_nd [nth 0 (shape v) 0; 1] (fun i => at_ v [nth 0 i 0]).
Definition matvec (A v : nd) : nd :=
  let Av := nd_matmul A (as_col v) in mk_nd [nth 0 (shape A) 0] (fun i => at_ Av [nth 0 i 0; 0]).

End Ring.

Arguments mk_nd {R}.
Arguments shape {R}.
Arguments at_ {R}.
Arguments Leaf {R}.
Arguments Node {R}.

(* ------------------------------------------------------------------ Gaussian integers Z[i] *)
Definition GI : Type := (Z * Z)%type.
Definition gi0 : GI := (0, 0)%Z.
Definition gi1 : GI := (1, 0)%Z.
Definition gi_add (a b : GI) : GI := (fst a + fst b, snd a + snd b)%Z.
Definition gi_mul (a b : GI) : GI :=
  (fst a * fst b - snd a * snd b, fst a * snd b + snd a * fst b)%Z.
Definition gi_opp (a : GI) : GI := (- fst a, - snd a)%Z.
Definition gi_sub (a b : GI) : GI := gi_add a (gi_opp b).
Definition gi_conj (a : GI) : GI := (fst a, - snd a)%Z.
