(* C11 - theorems about ctl/ForEach.v.
   1. batch_replace with points collected BEFORE the write-back and replacement operations that
      keep the location is the positional substitution (no cycle is created or removed, the
      shrink compensation is always 0, the stable sort is the identity).
   2. ForEachBlockPass.run = the one-pass positional specification spec_ops; the body is called
      once per selected block, in order, on exactly that block. *)
From Coq Require Import List Arith Bool Lia QArith Permutation.
Import ListNotations.
Local Open Scope nat_scope.
From BQ Require Import ctl.ForEach.

(* ---- well-formed operation list --------------------------------------------
   iteration order: cycles never decrease; operations of one cycle have disjoint, non-empty
   locations (each grid cell holds at most one operation).  Only the skeleton
   (cycle, location) of each entry matters. *)
Definition skel (x : nat * op) : nat * list nat := (fst x, oloc (snd x)).

Inductive wf_skel : list (nat * list nat) -> Prop :=
| wfs_nil : wf_skel []
| wfs_cons h t :
    snd h <> [] ->
    Forall (fun y => fst h <= fst y /\
                     (fst y = fst h -> forall q, In q (snd y) -> ~ In q (snd h))) t ->
    wf_skel t -> wf_skel (h :: t).

Definition wf_ops (l : list (nat * op)) : Prop := wf_skel (map skel l).

Definition wf_circ (c : circ) : Prop :=
  wf_ops (ops c) /\ Forall (fun co => fst co < ncyc c) (ops c).

(* decisions aligned with the operation list: None = keep, Some s = write CircuitGate(s) back *)
Fixpoint pos_of (l : list (nat * op)) (dec : list (option subc)) : list ((nat * nat) * op) :=
  match l, dec with
  | h :: t, Some s :: dt =>
      ((fst h, hd 0 (oloc (snd h))), mkOp (CGate s) (oloc (snd h))) :: pos_of t dt
  | _ :: t, None :: dt => pos_of t dt
  | _, _ => []
  end.

Fixpoint apply_dec (l : list (nat * op)) (dec : list (option subc)) : list (nat * op) :=
  match l, dec with
  | h :: t, Some s :: dt => (fst h, mkOp (CGate s) (oloc (snd h))) :: apply_dec t dt
  | h :: t, None :: dt => h :: apply_dec t dt
  | l, _ => l
  end.

(* ---- basic facts ------------------------------------------------------------ *)
Lemma mem_In x l : mem x l = true <-> In x l.
Proof. unfold mem. rewrite existsb_exists. split.
  - intros [y [Hy He]]. apply Nat.eqb_eq in He. subst. exact Hy.
  - intros H. exists x. split; [exact H|apply Nat.eqb_refl]. Qed.

Lemma mem_hd l : l <> [] -> mem (hd 0 l) l = true.
Proof. destruct l as [|a l]; [congruence|]. intros _. simpl. rewrite Nat.eqb_refl. reflexivity. Qed.

Lemma same_set_refl l : same_set l l = true.
Proof. unfold same_set. assert (forallb (fun x => mem x l) l = true) as H.
  { apply forallb_forall. intros x Hx. apply mem_In. exact Hx. }
  rewrite H. reflexivity. Qed.

Lemma disjointb_refl_false l : l <> [] -> disjointb l l = false.
Proof. destruct l as [|a l]; [congruence|]. intros _. unfold disjointb. simpl.
  rewrite Nat.eqb_refl. reflexivity. Qed.

Lemma touches_true pt x :
  touches pt x = true <-> fst x = fst pt /\ In (snd pt) (oloc (snd x)).
Proof. unfold touches. rewrite andb_true_iff, Nat.eqb_eq, mem_In. tauto. Qed.

Lemma touches_skel pt x y : skel x = skel y -> touches pt x = touches pt y.
Proof. unfold skel, touches. intros H. inversion H as [[H1 H2]]. rewrite H1, H2. reflexivity. Qed.

Lemma replace_ncyc c pt o c' : replace c pt o = Ok c' -> ncyc c' = ncyc c.
Proof. unfold replace. destruct (negb (fst pt <? ncyc c)); [discriminate|].
  destruct (find_at (ops c) pt); [|discriminate].
  destruct (disjointb _ _); [discriminate|]. destruct (same_set _ _ && _); [|discriminate].
  intros H. inversion H. reflexivity. Qed.

(* Circuit.replace never changes the number of cycles on its in-place branch: batch_replace
   never has to shift a pending point *)
Lemma batch_loop_ncyc pos : forall c sh c', batch_loop c sh pos = Ok c' -> ncyc c' = ncyc c.
Proof. induction pos as [|[pt o] t IH]; intros c sh c' H; simpl in H.
  - inversion H. reflexivity.
  - destruct (replace c _ o) eqn:E; try discriminate.
    rewrite (IH _ _ _ H). eapply replace_ncyc. exact E. Qed.

Lemma wf_ops_cons_inv h t : wf_ops (h :: t) ->
  oloc (snd h) <> [] /\
  Forall (fun y => fst h <= fst y /\
                   (fst y = fst h -> forall q, In q (oloc (snd y)) -> ~ In q (oloc (snd h)))) t /\
  wf_ops t.
Proof. unfold wf_ops. simpl. intros H. inversion H as [|? ? Hne Hall Ht]; subst.
  split; [exact Hne|]. split; [|exact Ht].
  rewrite Forall_map in Hall. exact Hall. Qed.

Lemma wf_ops_loc_nonempty l : wf_ops l -> Forall (fun co => oloc (snd co) <> []) l.
Proof. induction l as [|h t IH]; intros H; [constructor|].
  destruct (wf_ops_cons_inv _ _ H) as (Hne & _ & Ht). constructor; auto. Qed.

(* a grid cell belongs to at most one entry *)
Lemma head_touch_excludes_tail h t pt :
  wf_ops (h :: t) -> touches pt h = true -> forall y, In y t -> touches pt y = false.
Proof. intros Hwf Hh y Hy. destruct (wf_ops_cons_inv _ _ Hwf) as (_ & Hall & _).
  rewrite Forall_forall in Hall. destruct (Hall _ Hy) as [_ Hd].
  destruct (touches pt y) eqn:E; [|reflexivity]. exfalso.
  apply touches_true in Hh. apply touches_true in E. destruct Hh as [H1 H2]. destruct E as [E1 E2].
  exact (Hd (eq_trans E1 (eq_sym H1)) _ E2 H2). Qed.

Lemma wf_touch_unique l : wf_ops l -> forall pt x y,
  In x l -> In y l -> touches pt x = true -> touches pt y = true -> x = y.
Proof. induction l as [|h t IH]; intros Hwf pt x y Hx Hy Tx Ty; [contradiction|].
  destruct (wf_ops_cons_inv _ _ Hwf) as (_ & _ & Ht).
  destruct Hx as [<-|Hx]; destruct Hy as [<-|Hy].
  - reflexivity.
  - rewrite (head_touch_excludes_tail _ _ _ Hwf Tx _ Hy) in Ty. discriminate.
  - rewrite (head_touch_excludes_tail _ _ _ Hwf Ty _ Hx) in Tx. discriminate.
  - eapply IH; eassumption. Qed.

Lemma find_at_in l : wf_ops l -> forall pt x, In x l -> touches pt x = true -> find_at l pt = Some (snd x).
Proof. induction l as [|h t IH]; intros Hwf pt x Hx Tx; [contradiction|]. simpl.
  destruct (touches pt h) eqn:Th.
  - rewrite (wf_touch_unique _ Hwf pt h x (or_introl eq_refl) Hx Th Tx). reflexivity.
  - destruct Hx as [<-|Hx]; [congruence|].
    destruct (wf_ops_cons_inv _ _ Hwf) as (_ & _ & Ht). apply IH; assumption. Qed.

Definition subst_fn (pt : nat * nat) (o : op) (x : nat * op) : nat * op :=
  if touches pt x then (fst x, o) else x.

Lemma subst_at_map l : wf_ops l -> forall pt o, subst_at l pt o = map (subst_fn pt o) l.
Proof. induction l as [|h t IH]; intros Hwf pt o; [reflexivity|]. simpl. unfold subst_fn at 1.
  destruct (touches pt h) eqn:Th.
  - f_equal. symmetry. rewrite <- (map_id t) at 2. apply map_ext_in. intros y Hy.
    unfold subst_fn. rewrite (head_touch_excludes_tail _ _ _ Hwf Th _ Hy). reflexivity.
  - f_equal. destruct (wf_ops_cons_inv _ _ Hwf) as (_ & _ & Ht). apply IH. exact Ht. Qed.

Lemma find_ext' {A} (f g : A -> bool) l : (forall x, f x = g x) -> find f l = find g l.
Proof. intros H. induction l as [|a t IH]; simpl; [reflexivity|]. rewrite H, IH. reflexivity. Qed.

(* ---- 1. write-back in any processing order -------------------------------------- *)
Definition toucher (pos : list ((nat * nat) * op)) (x : nat * op) : option ((nat * nat) * op) :=
  find (fun p => touches (fst p) x) pos.

(* every entry becomes the operation of the position that points at it, if any *)
Definition apply_pos (l : list (nat * op)) (pos : list ((nat * nat) * op)) : list (nat * op) :=
  map (fun x => match toucher pos x with Some p => (fst x, snd p) | None => x end) l.

Definition hit (l : list (nat * op)) (p : (nat * nat) * op) : Prop :=
  exists x, In x l /\ touches (fst p) x = true /\ oloc (snd p) = oloc (snd x).

Definition uniq (l : list (nat * op)) (pos : list ((nat * nat) * op)) : Prop :=
  forall x p q, In x l -> In p pos -> In q pos ->
    touches (fst p) x = true -> touches (fst q) x = true -> p = q.

Lemma subst_fn_skel l pt o x0 :
  wf_ops l -> In x0 l -> touches pt x0 = true -> oloc o = oloc (snd x0) ->
  forall x, In x l -> skel (subst_fn pt o x) = skel x.
Proof. intros Hwf H0 T0 Ho x Hx. unfold subst_fn. destruct (touches pt x) eqn:Tx; [|reflexivity].
  rewrite (wf_touch_unique _ Hwf pt x x0 Hx H0 Tx T0). unfold skel. simpl. rewrite Ho. reflexivity. Qed.

Theorem batch_any_order n : forall pos l,
  wf_ops l -> Forall (fun co => fst co < n) l -> Forall (hit l) pos -> uniq l pos ->
  batch_loop (mkCirc n l) [] pos = Ok (mkCirc n (apply_pos l pos)).
Proof. induction pos as [|[pt o] rest IH]; intros l Hwf Hlt Hhit Huniq.
  - simpl. unfold apply_pos. simpl. rewrite map_id. reflexivity.
  - inversion Hhit as [|? ? Hh Hhit']; subst.
    destruct Hh as (x0 & H0 & T0 & Ho). simpl in T0, Ho.
    pose proof (wf_ops_loc_nonempty _ Hwf) as Hne. rewrite Forall_forall in Hne.
    assert (fst pt < n) as Hr.
    { apply touches_true in T0. destruct T0 as [E _]. rewrite <- E.
      rewrite Forall_forall in Hlt. exact (Hlt _ H0). }
    cbn [batch_loop apply_shifts fold_right]. unfold replace. cbn [ncyc ops].
    assert (fst pt <? n = true) as -> by (apply Nat.ltb_lt; exact Hr). cbn [negb].
    rewrite (find_at_in _ Hwf pt x0 H0 T0).
    rewrite Ho, (disjointb_refl_false _ (Hne _ H0)), same_set_refl, Nat.eqb_refl. cbn [andb].
    cbn [ncyc]. rewrite Nat.sub_diag. cbn [Nat.ltb Nat.leb].
    rewrite (subst_at_map _ Hwf).
    pose proof (subst_fn_skel l pt o x0 Hwf H0 T0 Ho) as Hsk.
    assert (map skel (map (subst_fn pt o) l) = map skel l) as Hskl.
    { rewrite map_map. apply map_ext_in. exact Hsk. }
    rewrite IH.
    + (* the two descriptions of the final list agree *)
      f_equal. f_equal. unfold apply_pos. rewrite map_map. apply map_ext_in. intros x Hx.
      assert (toucher rest (subst_fn pt o x) = toucher rest x) as Ht.
      { unfold toucher. apply find_ext'. intros p. apply touches_skel. apply Hsk. exact Hx. }
      rewrite Ht. unfold toucher at 2. cbn [find fst]. unfold subst_fn.
      destruct (touches pt x) eqn:Tx.
      * cbn [fst snd]. destruct (toucher rest x) as [p|] eqn:Ep; [|reflexivity].
        unfold toucher in Ep. apply find_some in Ep. destruct Ep as [Hp Tp].
        assert (p = (pt, o)) as -> by
          (apply (Huniq x p (pt, o) Hx (or_intror Hp) (or_introl eq_refl) Tp Tx)).
        reflexivity.
      * reflexivity.
    + unfold wf_ops. rewrite Hskl. exact Hwf.
    + rewrite Forall_forall in *. intros y Hy. apply in_map_iff in Hy. destruct Hy as (x & <- & Hx).
      replace (fst (subst_fn pt o x)) with (fst x); [exact (Hlt _ Hx)|].
      unfold subst_fn. destruct (touches pt x); reflexivity.
    + rewrite Forall_forall in *. intros p Hp. destruct (Hhit' _ Hp) as (x & Hx & Tx & Hox).
      exists (subst_fn pt o x). split; [apply in_map; exact Hx|].
      rewrite (touches_skel _ _ _ (Hsk x Hx)). split; [exact Tx|].
      pose proof (Hsk x Hx) as E. unfold skel in E. inversion E as [[E1 E2]]. rewrite E2. exact Hox.
    + intros y p q Hy Hp Hq Tp Tq. apply in_map_iff in Hy. destruct Hy as (x & <- & Hx).
      rewrite (touches_skel (fst p) _ _ (Hsk x Hx)) in Tp. rewrite (touches_skel (fst q) _ _ (Hsk x Hx)) in Tq.
      exact (Huniq x p q Hx (or_intror Hp) (or_intror Hq) Tp Tq). Qed.

(* the result does not depend on the processing order *)
Lemma toucher_perm l pos pos' x :
  uniq l pos -> Permutation pos pos' -> In x l ->
  match toucher pos x with Some p => Some (snd p) | None => None end
  = match toucher pos' x with Some p => Some (snd p) | None => None end.
Proof. intros Hu Hp Hx. unfold toucher.
  destruct (find (fun p => touches (fst p) x) pos) as [p|] eqn:E;
  destruct (find (fun p => touches (fst p) x) pos') as [q|] eqn:E'.
  - apply find_some in E. apply find_some in E'. destruct E as [Hp1 Tp]. destruct E' as [Hq1 Tq].
    rewrite (Hu x p q Hx Hp1 (Permutation_in _ (Permutation_sym Hp) Hq1) Tp Tq). reflexivity.
  - apply find_some in E. destruct E as [Hp1 Tp].
    pose proof (find_none _ _ E' p (Permutation_in _ Hp Hp1)) as F. simpl in F. congruence.
  - apply find_some in E'. destruct E' as [Hq1 Tq].
    pose proof (find_none _ _ E q (Permutation_in _ (Permutation_sym Hp) Hq1)) as F. simpl in F. congruence.
  - reflexivity. Qed.

Lemma apply_pos_perm l pos pos' : uniq l pos -> Permutation pos pos' -> apply_pos l pos = apply_pos l pos'.
Proof. intros Hu Hp. unfold apply_pos. apply map_ext_in. intros x Hx.
  pose proof (toucher_perm l pos pos' x Hu Hp Hx) as T.
  destruct (toucher pos x); destruct (toucher pos' x); inversion T; congruence. Qed.

Lemma insert_desc_perm x l : Permutation (insert_desc x l) (x :: l).
Proof. induction l as [|y t IH]; simpl; [apply Permutation_refl|].
  destruct (pkey y <=? pkey x); [apply Permutation_refl|].
  eapply Permutation_trans; [apply perm_skip; exact IH|apply perm_swap]. Qed.

Lemma sort_desc_perm l : Permutation (sort_desc l) l.
Proof. induction l as [|x t IH]; simpl; [constructor|].
  eapply Permutation_trans; [apply insert_desc_perm|apply perm_skip; exact IH]. Qed.

(* ---- the points ForEachBlockPass hands over ------------------------------------- *)
Lemma pos_of_in l : forall dec p, In p (pos_of l dec) ->
  exists co, In co l /\ fst p = (fst co, hd 0 (oloc (snd co))) /\ oloc (snd p) = oloc (snd co).
Proof. induction l as [|h t IH]; intros dec p Hp; simpl in Hp.
  - contradiction.
  - destruct dec as [|[s|] dt]; simpl in Hp.
    + contradiction.
    + destruct Hp as [<-|Hp].
      * exists h. simpl. repeat split; auto.
      * destruct (IH _ _ Hp) as (co & Hc & H1 & H2). exists co. repeat split; auto. right; exact Hc.
    + destruct (IH _ _ Hp) as (co & Hc & H1 & H2). exists co. repeat split; auto. right; exact Hc. Qed.

Lemma own_point_touches l co : wf_ops l -> In co l -> touches (fst co, hd 0 (oloc (snd co))) co = true.
Proof. intros Hwf Hco. apply touches_true. simpl. split; [reflexivity|].
  apply mem_In. apply mem_hd. pose proof (wf_ops_loc_nonempty _ Hwf) as Hn.
  rewrite Forall_forall in Hn. exact (Hn _ Hco). Qed.

(* a point taken from the tail never touches the head, the head's point never the tail *)
Lemma tail_points_miss_head h t dec :
  wf_ops (h :: t) -> forall p, In p (pos_of t dec) -> touches (fst p) h = false.
Proof. intros Hwf p Hp. destruct (wf_ops_cons_inv _ _ Hwf) as (_ & _ & Hwt).
  destruct (pos_of_in _ _ _ Hp) as (co & Hco & Hpt & _).
  destruct (touches (fst p) h) eqn:E; [|reflexivity]. exfalso.
  pose proof (head_touch_excludes_tail _ _ _ Hwf E _ Hco) as F.
  rewrite Hpt, (own_point_touches _ _ Hwt Hco) in F. discriminate. Qed.

Lemma head_point_misses_tail h t :
  wf_ops (h :: t) -> forall y, In y t -> touches (fst h, hd 0 (oloc (snd h))) y = false.
Proof. intros Hwf y Hy. eapply head_touch_excludes_tail; [exact Hwf| |exact Hy].
  apply (own_point_touches (h :: t)); [exact Hwf|left; reflexivity]. Qed.

Lemma pos_of_hit l : forall dec, wf_ops l -> Forall (hit l) (pos_of l dec).
Proof. intros dec Hwf. apply Forall_forall. intros p Hp.
  destruct (pos_of_in _ _ _ Hp) as (co & Hco & Hpt & Hloc).
  exists co. split; [exact Hco|]. split; [|exact Hloc].
  rewrite Hpt. apply (own_point_touches l); assumption. Qed.

Lemma pos_of_uniq l : forall dec, wf_ops l -> uniq l (pos_of l dec).
Proof. induction l as [|h t IH]; intros dec Hwf x p q Hx Hp Hq Tp Tq.
  - contradiction.
  - destruct (wf_ops_cons_inv _ _ Hwf) as (_ & _ & Hwt).
    destruct dec as [|[s|] dt]; simpl in Hp, Hq; try contradiction.
    + destruct Hp as [<-|Hp]; destruct Hq as [<-|Hq].
      * reflexivity.
      * exfalso. cbn [fst] in Tp. destruct Hx as [<-|Hx].
        -- rewrite (tail_points_miss_head _ _ _ Hwf _ Hq) in Tq. discriminate.
        -- rewrite (head_point_misses_tail _ _ Hwf _ Hx) in Tp. discriminate.
      * exfalso. cbn [fst] in Tq. destruct Hx as [<-|Hx].
        -- rewrite (tail_points_miss_head _ _ _ Hwf _ Hp) in Tp. discriminate.
        -- rewrite (head_point_misses_tail _ _ Hwf _ Hx) in Tq. discriminate.
      * destruct Hx as [<-|Hx].
        -- rewrite (tail_points_miss_head _ _ _ Hwf _ Hp) in Tp. discriminate.
        -- exact (IH dt Hwt x p q Hx Hp Hq Tp Tq).
    + destruct Hx as [<-|Hx].
      * rewrite (tail_points_miss_head _ _ _ Hwf _ Hp) in Tp. discriminate.
      * exact (IH dt Hwt x p q Hx Hp Hq Tp Tq). Qed.

Lemma find_all_false {A} (f : A -> bool) l : (forall x, In x l -> f x = false) -> find f l = None.
Proof. induction l as [|a t IH]; intros H; simpl; [reflexivity|].
  rewrite (H a (or_introl eq_refl)). apply IH. intros x Hx. apply H. right. exact Hx. Qed.

Lemma apply_pos_of l : forall dec, wf_ops l -> apply_pos l (pos_of l dec) = apply_dec l dec.
Proof. induction l as [|h t IH]; intros dec Hwf.
  - destruct dec as [|[?|] ?]; reflexivity.
  - destruct (wf_ops_cons_inv _ _ Hwf) as (_ & _ & Hwt).
    destruct dec as [|[s|] dt].
    + unfold apply_pos. simpl. rewrite map_id. reflexivity.
    + simpl pos_of. simpl apply_dec. unfold apply_pos. cbn [map]. f_equal.
      * unfold toucher. cbn [find fst].
        rewrite (own_point_touches (h :: t) h Hwf (or_introl eq_refl)). reflexivity.
      * rewrite <- (IH dt Hwt). unfold apply_pos. apply map_ext_in. intros x Hx.
        unfold toucher. cbn [find fst]. rewrite (head_point_misses_tail _ _ Hwf _ Hx). reflexivity.
    + simpl pos_of. simpl apply_dec. unfold apply_pos. cbn [map]. f_equal.
      * unfold toucher. rewrite find_all_false; [reflexivity|].
        intros p Hp. exact (tail_points_miss_head _ _ _ Hwf _ Hp).
      * rewrite <- (IH dt Hwt). reflexivity. Qed.

Lemma combine_fst_snd {A B} (l : list (A * B)) : combine (map fst l) (map snd l) = l.
Proof. induction l as [|[a b] l IH]; simpl; congruence. Qed.

(* Circuit.batch_replace with points captured BEFORE the write-back and replacement operations
   that keep the location is the positional substitution, whatever order the points are
   handed over in (any permutation `pts` of the collected positions) *)
Theorem batch_replace_positional_perm c dec pts :
  wf_circ c -> Permutation pts (pos_of (ops c) dec) ->
  batch_replace c (map fst pts) (map snd pts) = Ok (mkCirc (ncyc c) (apply_dec (ops c) dec)).
Proof. intros [Hwf Hlt] Hperm. unfold batch_replace. rewrite !map_length, Nat.eqb_refl.
  assert (Forall (hit (ops c)) pts) as Hh.
  { eapply Permutation_Forall; [apply Permutation_sym; exact Hperm|apply pos_of_hit; exact Hwf]. }
  assert (uniq (ops c) pts) as Hu.
  { intros x p q Hx Hp Hq. apply (pos_of_uniq _ dec Hwf x p q Hx); eapply Permutation_in; eassumption. }
  assert (forallb (fun pt => fst pt <? ncyc c) (map fst pts) = true) as ->.
  { apply forallb_forall. intros pt Hpt. apply in_map_iff in Hpt. destruct Hpt as (p & <- & Hp).
    rewrite Forall_forall in Hh. destruct (Hh _ Hp) as (x & Hx & Tx & _).
    apply touches_true in Tx. destruct Tx as [E _]. rewrite <- E. apply Nat.ltb_lt.
    rewrite Forall_forall in Hlt. exact (Hlt _ Hx). }
  rewrite combine_fst_snd.
  destruct c as [n l]. cbn [ncyc ops] in *.
  pose proof (sort_desc_perm pts) as Hs.
  rewrite (batch_any_order n (sort_desc pts) l Hwf Hlt).
  - f_equal. f_equal.
    rewrite <- (apply_pos_perm l pts (sort_desc pts) Hu (Permutation_sym Hs)).
    rewrite (apply_pos_perm l pts (pos_of l dec) Hu Hperm). apply apply_pos_of. exact Hwf.
  - eapply Permutation_Forall; [apply Permutation_sym; exact Hs|exact Hh].
  - intros x p q Hx Hp Hq. apply (Hu x p q Hx); eapply Permutation_in; eassumption. Qed.

Theorem batch_replace_positional c dec :
  wf_circ c ->
  batch_replace c (map fst (pos_of (ops c) dec)) (map snd (pos_of (ops c) dec))
  = Ok (mkCirc (ncyc c) (apply_dec (ops c) dec)).
Proof. intros H. apply batch_replace_positional_perm; [exact H|apply Permutation_refl]. Qed.

(* what the positional substitution preserves *)
Lemma apply_dec_length l : forall dec, length (apply_dec l dec) = length l.
Proof. induction l as [|h t IH]; intros [|[s|] dt]; simpl; auto. Qed.

Lemma apply_dec_skeleton l : forall dec,
  map (fun co => (fst co, oloc (snd co))) (apply_dec l dec) = map (fun co => (fst co, oloc (snd co))) l.
Proof. induction l as [|h t IH]; intros [|[s|] dt]; simpl; try rewrite IH; auto. Qed.

Lemma apply_dec_nth l : forall dec k,
  nth_error (apply_dec l dec) k =
  match nth_error l k with
  | None => None
  | Some co => match nth_error dec k with
               | Some (Some s) => Some (fst co, mkOp (CGate s) (oloc (snd co)))
               | _ => Some co
               end
  end.
Proof. induction l as [|h t IH]; intros dec k.
  - destruct dec as [|[?|] ?]; destruct k; reflexivity.
  - destruct dec as [|[s|] dt]; destruct k as [|k]; simpl; try reflexivity.
    + destruct (nth_error t k); reflexivity.
    + apply IH.
    + apply IH. Qed.

(* ---- 2. ForEachBlockPass.run ---------------------------------------------------- *)
Section RunThm.
Variable cf : op -> bool.
Variable rf : subc -> op -> bool.
Variable body : binput -> option bresult.
Variable edges : list (nat * nat).
Variable radixes : list nat.
Variable ceb : bool.
Variable error_mul : Q -> Q -> Q.

Notation collect := (collect cf).
Notation mk_input := (mk_input edges radixes ceb).
Notation inputs := (inputs edges radixes ceb).
Notation run_bodies := (run_bodies body).
Notation post := (post rf).
Notation spec_ops := (spec_ops cf rf body edges radixes ceb).
Notation spec_errs := (spec_errs cf rf body edges radixes ceb).
Notation run := (run cf rf body edges radixes ceb error_mul).

Fixpoint decisions (i : nat) (l : list (nat * op)) : list (option subc) :=
  match l with
  | [] => []
  | co :: t =>
      if cf (snd co)
      then match body (mk_input i co) with
           | Some r => (if rf (br_sub r) (snd co) then Some (br_sub r) else None) :: decisions (S i) t
           | None => None :: decisions (S i) t
           end
      else None :: decisions i t
  end.

Lemma spec_is_apply l : forall i, spec_ops i l = apply_dec l (decisions i l).
Proof. induction l as [|co t IH]; intros i; simpl; [reflexivity|].
  destruct (cf (snd co)).
  - destruct (body (mk_input i co)) as [r|].
    + destruct (rf (br_sub r) (snd co)); simpl; rewrite IH; reflexivity.
    + simpl. rewrite IH. reflexivity.
  - simpl. rewrite IH. reflexivity. Qed.

Lemma post_is_pos l : forall i rs,
  run_bodies (inputs i (collect l)) = Some rs ->
  combine (p_points (post (collect l) rs)) (p_ops (post (collect l) rs)) = pos_of l (decisions i l)
  /\ length (p_points (post (collect l) rs)) = length (p_ops (post (collect l) rs))
  /\ p_errs (post (collect l) rs) = spec_errs i l
  /\ length (p_flags (post (collect l) rs)) = length (collect l).
Proof. induction l as [|[cy o] t IH]; intros i rs H; simpl in *.
  - inversion H; subst. simpl. auto.
  - destruct (cf o) eqn:Ecf; simpl in *.
    + destruct (body (mk_input i (cy, o))) as [r|] eqn:Eb; [|discriminate].
      destruct (run_bodies (inputs (S i) (collect t))) as [rs'|] eqn:Er; [|discriminate].
      inversion H; subst. simpl.
      destruct (IH _ _ Er) as (H1 & H2 & H3 & H4).
      destruct (rf (br_sub r) o); simpl; rewrite ?H1, ?H2, ?H3, ?H4; auto.
    + apply IH. exact H. Qed.

Lemma inputs_length i bs : length (inputs i bs) = length bs.
Proof. revert i. induction bs; intros i; simpl; auto. Qed.

(* the body is applied once per selected block, in order, to that block's own operations *)
Lemma inputs_subs i bs : map bi_sub (inputs i bs) = map (fun co => subcircuit (snd co)) bs.
Proof. revert i. induction bs as [|co t IH]; intros i; simpl; [reflexivity|]. rewrite IH. reflexivity. Qed.

Lemma inputs_index i bs : map bi_index (inputs i bs) = seq i (length bs).
Proof. revert i. induction bs as [|co t IH]; intros i; simpl; [reflexivity|]. rewrite IH. reflexivity. Qed.

Lemma inputs_points i bs :
  map bi_point (inputs i bs) = map (fun co => (fst co, hd 0 (oloc (snd co)))) bs.
Proof. revert i. induction bs as [|co t IH]; intros i; simpl; [reflexivity|]. rewrite IH. reflexivity. Qed.

Lemma run_bodies_length ins : forall rs, run_bodies ins = Some rs -> length rs = length ins.
Proof. induction ins as [|x t IH]; intros rs H; simpl in H.
  - inversion H. reflexivity.
  - destruct (body x); [|discriminate]. destruct (run_bodies t) eqn:E; [|discriminate].
    inversion H. simpl. rewrite (IH _ eq_refl). reflexivity. Qed.

Lemma collect_nil_spec l : forall i, collect l = [] -> spec_ops i l = l.
Proof. induction l as [|co t IH]; intros i H; simpl in *; [reflexivity|].
  destruct (cf (snd co)); [discriminate|]. rewrite IH; auto. Qed.

Theorem foreach_exact (c : circ) (e0 : Q) (rs : list bresult) :
  wf_circ c ->
  run_bodies (inputs 0 (collect (ops c))) = Some rs ->            (* no body raised *)
  p_widthbad (post (collect (ops c)) rs) = false ->               (* accepted results keep the width *)
  exists out,
    run c e0 = Ok out
    /\ ops (fo_circ out) = spec_ops 0 (ops c)
    /\ ncyc (fo_circ out) = ncyc c
    /\ (collect (ops c) <> [] -> fo_calls out = inputs 0 (collect (ops c)))
    /\ fo_error out = match collect (ops c) with
                      | [] => e0
                      | _ => error_mul e0 (error_sum (spec_errs 0 (ops c)))
                      end.
Proof. intros Hwf Hb Hw. unfold run.
  destruct (collect (ops c)) as [|b bs] eqn:Ec.
  - eexists. split; [reflexivity|]. simpl.
    split; [symmetry; apply collect_nil_spec; exact Ec|].
    split; [reflexivity|]. split; [intros H; congruence|reflexivity].
  - cbv beta iota zeta. rewrite <- Ec in *. rewrite Hb, Hw.
    destruct (post_is_pos _ _ _ Hb) as (H1 & H2 & H3 & _).
    pose proof (batch_replace_positional c (decisions 0 (ops c)) Hwf) as B.
    rewrite <- H1 in B.
    assert (forall (A B : Type) (x : list A) (y : list B), length x = length y ->
              map fst (combine x y) = x /\ map snd (combine x y) = y) as CS.
    { intros A B0 x. induction x as [|a x IHx]; intros [|b0 y] Hl; simpl in *; try discriminate; auto.
      destruct (IHx y) as [Ha Hb0]; [lia|]. rewrite Ha, Hb0. auto. }
    destruct (CS _ _ _ _ H2) as [C1 C2]. rewrite C1, C2 in B. rewrite B.
    eexists. split; [reflexivity|]. simpl.
    split; [symmetry; apply spec_is_apply|].
    split; [reflexivity|]. split; [reflexivity|].
    rewrite H3. reflexivity. Qed.

End RunThm.
