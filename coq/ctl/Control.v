(* C11 - big-step interpreter for the control passes of bqskit/passes/control:
     IfThenElsePass | WhileLoopPass | DoWhileLoopPass | DoThenDecide | ParallelDo | Workflow
   over scripted predicate streams, with state (circuit, pass data) held in the records
   GENERATED from Circuit/PassData.__init__ (gen/CircuitFields.v, gen/PassDataFields.v); the
   save/restore of DoThenDecide and the adoption step of ParallelDo go through the `copy` /
   `become` functions passed in (instantiated with the generated ones at the end).
   Model only - proofs are in ctl/ControlThm.v. *)
From Coq Require Import List Arith Bool QArith.
Import ListNotations.
Local Open Scope nat_scope.
From BQ Require Import gen.PassDataFields gen.CircuitFields.

Inductive pass :=
| Leaf (id : nat)                                        (* an instrumented body pass *)
| Seq (ps : list pass)                                   (* Workflow.run: passes in order *)
| IfThenElse (p : nat) (t : pass) (e : option pass)
| While (p : nat) (b : pass)
| DoWhile (p : nat) (b : pass)
| DoThenDecide (c : nat) (b : pass)
| ParallelDo (bs : list pass) (l : nat) (pick : option (list nat)).
(* ParallelDo: l = the less_than callable; pick = None for pick_first=False, Some fs for
   pick_first=True where fs lists the branches whose results runtime.next() delivered
   (a scheduler outcome - the theorems quantify over it). *)

Inductive event :=
| ELeaf (id : nat) (obs : nat)        (* body `id` started; obs = an observation of the state *)
| EPred (p : nat) (v : bool)          (* predicate p evaluated to v *)
| ECond (c : nat) (v : bool).         (* DoThenDecide condition c evaluated to v *)

(* scripted predicates: predicate p answers with the next entry of its own stream;
   an exhausted stream answers False *)
Definition streams := list (list bool).
Fixpoint read (p : nat) (ss : streams) : bool * streams :=
  match p, ss with
  | _, [] => (false, [])
  | 0, s :: t => match s with [] => (false, [] :: t) | b :: r => (b, r :: t) end
  | S p', s :: t => let (v, t') := read p' t in (v, s :: t')
  end.

Section Interp.
Variable V : Type.
Definition st : Type := (circuitf V * passdata V)%type.

Variable ccopy : circuitf V -> circuitf V.
Variable cbecome : circuitf V -> circuitf V -> circuitf V.     (* self, other *)
Variable dcopy : passdata V -> passdata V.
Variable dbecome : passdata V -> passdata V -> passdata V.

Variable leaf : nat -> st -> option st.                        (* None = the body raises *)
Variable obs : st -> nat.
Variable cond : nat -> circuitf V -> circuitf V -> bool.       (* condition(old_circuit, circuit) *)
Variable lt : nat -> circuitf V -> circuitf V -> bool.         (* less_than(circ, best_circ) *)

Inductive result :=
| Done (s : st) (ss : streams) (tr : list event)
| Raised (tr : list event)
| OutOfFuel.

Definition andthen (x : result) (k : st -> streams -> result) : result :=
  match x with
  | Done s ss tr =>
      match k s ss with
      | Done s' ss' tr' => Done s' ss' (tr ++ tr')
      | Raised tr' => Raised (tr ++ tr')
      | OutOfFuel => OutOfFuel
      end
  | r => r
  end.

Inductive bres :=
| BDone (rs : list st) (tr : list event)
| BRaised (tr : list event)
| BFuel.

(* every branch starts from the same (pickled) state and stream positions; what a branch
   consumes from the streams stays in its own process *)
Fixpoint run_branches (r : pass -> st -> streams -> result) (bs : list pass) (s : st) (ss : streams) : bres :=
  match bs with
  | [] => BDone [] []
  | b :: t =>
      match r b s ss with
      | Done s' _ tr =>
          match run_branches r t s ss with
          | BDone rs trs => BDone (s' :: rs) (tr ++ trs)
          | BRaised trs => BRaised (tr ++ trs)
          | BFuel => BFuel
          end
      | Raised tr => BRaised tr
      | OutOfFuel => BFuel
      end
  end.

(* best_circ, best_data = circuits[0]; for _circ, _data in circuits[1:]: if less_than(_circ, best_circ): ... *)
Fixpoint select (l : nat) (best : st) (rest : list st) : st :=
  match rest with
  | [] => best
  | x :: t => if lt l (fst x) (fst best) then select l x t else select l best t
  end.

Fixpoint pick_results (rs : list st) (fs : list nat) : option (list st) :=
  match fs with
  | [] => Some []
  | k :: t => match nth_error rs k, pick_results rs t with
              | Some x, Some xs => Some (x :: xs)
              | _, _ => None
              end
  end.

Fixpoint run_seq (r : pass -> st -> streams -> result) (ps : list pass) (s : st) (ss : streams) : result :=
  match ps with
  | [] => Done s ss []
  | p :: t => andthen (r p s ss) (run_seq r t)
  end.

(* one level of the interpreter; r = the interpreter itself with less fuel *)
Definition step (r : pass -> st -> streams -> result) (p : pass) (s : st) (ss : streams) : result :=
  match p with
  | Leaf id =>
      match leaf id s with
      | Some s' => Done s' ss [ELeaf id (obs s)]
      | None => Raised [ELeaf id (obs s)]
      end
  | Seq ps => run_seq r ps s ss
  | IfThenElse q t e =>
      let (v, ss1) := read q ss in
      andthen (Done s ss1 [EPred q v])
        (fun s ss => if v then r t s ss
                     else match e with Some e' => r e' s ss | None => Done s ss [] end)
  | While q b =>
      let (v, ss1) := read q ss in
      andthen (Done s ss1 [EPred q v])
        (fun s ss => if v then andthen (r b s ss) (r (While q b)) else Done s ss [])
  | DoWhile q b => andthen (r b s ss) (r (While q b))
  | DoThenDecide c b =>
      let oldc := ccopy (fst s) in
      let oldd := dcopy (snd s) in
      andthen (r b s ss)
        (fun s' ss' =>
           let v := cond c oldc (fst s') in
           Done (if v then s' else (cbecome (fst s') oldc, dbecome (snd s') oldd)) ss' [ECond c v])
  | ParallelDo bs l pick =>
      match run_branches r bs s ss with
      | BDone rs tr =>
          let cands := match pick with None => Some rs | Some fs => pick_results rs fs end in
          match cands with
          | Some (first :: rest) =>
              let best := select l first rest in
              Done (cbecome (fst s) (fst best), dbecome (snd s) (snd best)) ss tr
          | _ => Raised tr              (* circuits[0] on an empty list / bad index *)
          end
      | BRaised tr => Raised tr
      | BFuel => OutOfFuel
      end
  end.

Fixpoint run (fuel : nat) : pass -> st -> streams -> result :=
  match fuel with
  | 0 => fun _ _ _ => OutOfFuel
  | S f => step (run f)
  end.

(* ---- the trace a predicate stream dictates (no circuit, no data involved) ---- *)
Inductive xresult := XDone (ss : streams) (tr : list event) | XFuel.

Definition xthen (x : xresult) (k : streams -> xresult) : xresult :=
  match x with
  | XDone ss tr => match k ss with XDone ss' tr' => XDone ss' (tr ++ tr') | XFuel => XFuel end
  | XFuel => XFuel
  end.

Fixpoint xseq (r : pass -> streams -> xresult) (ps : list pass) (ss : streams) : xresult :=
  match ps with
  | [] => XDone ss []
  | p :: t => xthen (r p ss) (xseq r t)
  end.

Fixpoint xbranches (r : pass -> streams -> xresult) (bs : list pass) (ss : streams) : xresult :=
  match bs with
  | [] => XDone ss []
  | b :: t => match r b ss with
              | XDone _ tr => match xbranches r t ss with XDone _ trs => XDone ss (tr ++ trs) | XFuel => XFuel end
              | XFuel => XFuel
              end
  end.

Definition xstep (r : pass -> streams -> xresult) (p : pass) (ss : streams) : xresult :=
  match p with
  | Leaf id => XDone ss [ELeaf id 0]
  | Seq ps => xseq r ps ss
  | IfThenElse q t e =>
      let (v, ss1) := read q ss in
      xthen (XDone ss1 [EPred q v])
        (fun ss => if v then r t ss else match e with Some e' => r e' ss | None => XDone ss [] end)
  | While q b =>
      let (v, ss1) := read q ss in
      xthen (XDone ss1 [EPred q v]) (fun ss => if v then xthen (r b ss) (r (While q b)) else XDone ss [])
  | DoWhile q b => xthen (r b ss) (r (While q b))
  | DoThenDecide c b => xthen (r b ss) (fun ss => XDone ss [ECond c false])
  | ParallelDo bs l pick => xbranches r bs ss
  end.

Fixpoint xrun (fuel : nat) : pass -> streams -> xresult :=
  match fuel with
  | 0 => fun _ _ => XFuel
  | S f => xstep (xrun f)
  end.

(* observations and condition outcomes depend on the state; the dictated trace leaves them out *)
Definition erase (e : event) : event :=
  match e with
  | ELeaf id _ => ELeaf id 0
  | ECond c _ => ECond c false
  | EPred p v => EPred p v
  end.

End Interp.

Arguments Done {V}. Arguments Raised {V}. Arguments OutOfFuel {V}.

(* the interpreter with the copy/become GENERATED from the current source *)
Definition run_gen (V : Type) := run V (@cf_copy V) (@cf_become V) (@pd_copy V) (@pd_become V).

(* ---- concrete leaf passes (the instrumented bodies of harness/c11_passes.py) ---- *)
Inductive val := VU | VN (n : nat) | VQ (q : Q) | VL (l : list val).

Inductive action :=
| AAppend (g : nat) (loc : list nat)      (* circuit.append_gate *)
| ARemoveLastOn (q : nat)                 (* pop the last operation touching qudit q (if any) *)
| AClear                                  (* circuit.clear() *)
| ASetPlacement (l : list nat)
| ASetInitial (l : list nat)
| ASetFinal (l : list nat)
| ASetError (e : Q)                       (* data.error = e *)
| AMulError (e : Q)                       (* data.update_error_mul(e) *)
| ASetKey (k v : nat)                     (* data[key_k] = v *)
| ASetSeed (n : nat)
| ASetModel (m : nat)                     (* data.model = one of the harness's prebuilt models *)
| ARaise.

Definition vnats (l : list nat) : val := VL (map VN l).
Definition vop (g : nat) (loc : list nat) : val := VL [VN g; vnats loc].

Definition vmem (q : nat) (v : val) : bool :=
  match v with
  | VL [_; VL loc] => existsb (fun x => match x with VN n => n =? q | _ => false end) loc
  | _ => false
  end.

(* remove the last element of l that touches q *)
Fixpoint remove_last_on (q : nat) (l : list val) : list val * bool :=
  match l with
  | [] => ([], false)
  | x :: t => let (t', done) := remove_last_on q t in
              if done then (x :: t', true)
              else if vmem q x then (t', true) else (x :: t', false)
  end.

Fixpoint set_key (k : nat) (v : val) (d : list val) : list val :=
  match d with
  | [] => [VL [VN k; v]]
  | (VL [VN k'; v']) :: t => if k' =? k then VL [VN k; v] :: t else VL [VN k'; v'] :: set_key k v t
  | x :: t => x :: set_key k v t
  end.

Definition vlist (v : val) : list val := match v with VL l => l | _ => [] end.
Definition vq (v : val) : Q := match v with VQ q => q | _ => 0%Q end.

Definition cstate : Type := (circuitf val * passdata val)%type.

Definition act (a : action) (s : cstate) : option cstate :=
  let (c, d) := s in
  match a with
  | AAppend g loc => Some (cf_set_circuit (VL (vlist (cf_circuit c) ++ [vop g loc])) c, d)
  | ARemoveLastOn q => Some (cf_set_circuit (VL (fst (remove_last_on q (vlist (cf_circuit c))))) c, d)
  | AClear => Some (cf_set_circuit (VL []) c, d)
  | ASetPlacement l => Some (c, pd_set_placement (vnats l) d)
  | ASetInitial l => Some (c, pd_set_initial_mapping (vnats l) d)
  | ASetFinal l => Some (c, pd_set_final_mapping (vnats l) d)
  | ASetError e => Some (c, pd_set_error (VQ e) d)
  | AMulError e => Some (c, pd_set_error (VQ (pd_update_error_mul (vq (pd_error d)) e)) d)
  | ASetKey k v => Some (c, pd_set_data (VL (set_key k (VN v) (vlist (pd_data d)))) d)
  | ASetSeed n => Some (c, pd_set_seed (VN n) d)
  | ASetModel m => Some (c, pd_set_model (VN m) d)
  | ARaise => None
  end.

Fixpoint acts (l : list action) (s : cstate) : option cstate :=
  match l with
  | [] => Some s
  | a :: t => match act a s with Some s' => acts t s' | None => None end
  end.

Definition num_ops (s : cstate) : nat := length (vlist (cf_circuit (fst s))).

(* conditions / orderings used by the harness (module-level callables there) *)
Definition cond_std (k : nat) (old new : circuitf val) : bool :=
  let a := length (vlist (cf_circuit old)) in
  let b := length (vlist (cf_circuit new)) in
  match k mod 4 with           (* c = 4 * (unique id) + kind *)
  | 0 => false                 (* never accept *)
  | 1 => true                  (* always accept *)
  | 2 => b <? a                (* accept a smaller circuit *)
  | _ => b <=? a               (* accept a circuit that is not larger *)
  end.

Definition lt_std (k : nat) (x best : circuitf val) : bool :=
  let a := length (vlist (cf_circuit x)) in
  let b := length (vlist (cf_circuit best)) in
  match k with
  | 0 => false                 (* keep the first *)
  | 1 => true                  (* keep the last *)
  | 2 => a <? b                (* fewer operations *)
  | _ => b <? a                (* more operations *)
  end.

(* the model the extracted driver runs: leaf table given as a function *)
Definition run_std (leaves : nat -> list action) (fuel : nat) (p : pass) (s : cstate) (ss : streams) :=
  run_gen val (fun id => acts (leaves id)) num_ops cond_std lt_std fuel p s ss.
