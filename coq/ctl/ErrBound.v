(* C11 - arithmetic of the error bound reported by ForEachBlockPass
   (error_sum of the accepted blocks, PassData.update_error_mul).
   Part 1: exact rational arithmetic of the generated update_error_mul.
   Part 2: over R, for any bi-invariant pseudo-metric d on a monoid of unitaries:
           replacing factors one by one moves the product by at most the sum of the
           per-factor distances; the reported bound is that sum up to the second-order
           term e*s. *)
From Coq Require Import List QArith Reals Qreals Lqa Lra Lia.
Import ListNotations.
From BQ Require Import gen.PassDataFields.

(* ---- Part 1: Q ------------------------------------------------------------- *)
Lemma error_mul_expand (e s : Q) : pd_update_error_mul e s == e + s - e * s.
Proof. unfold pd_update_error_mul. ring. Qed.

Lemma error_mul_zero (e : Q) : pd_update_error_mul e 0 == e.
Proof. unfold pd_update_error_mul. ring. Qed.

Lemma error_mul_ge_l (e s : Q) : 0 <= s -> e <= 1 -> e <= pd_update_error_mul e s.
Proof. intros Hs He. rewrite error_mul_expand.
  setoid_replace (e + s - e * s) with (e + s * (1 - e)) by ring.
  assert (0 <= s * (1 - e)) by (apply Qmult_le_0_compat; [exact Hs | Lqa.lra]). Lqa.lra. Qed.

Lemma error_mul_ge_r (e s : Q) : 0 <= e -> s <= 1 -> s <= pd_update_error_mul e s.
Proof. intros He Hs. rewrite error_mul_expand.
  setoid_replace (e + s - e * s) with (s + e * (1 - s)) by ring.
  assert (0 <= e * (1 - s)) by (apply Qmult_le_0_compat; [exact He | Lqa.lra]). Lqa.lra. Qed.

Lemma error_mul_le_sum (e s : Q) : 0 <= e -> 0 <= s -> pd_update_error_mul e s <= e + s.
Proof. intros He Hs. rewrite error_mul_expand.
  assert (0 <= e * s) by (apply Qmult_le_0_compat; assumption). Lqa.lra. Qed.

Lemma error_mul_le_1 (e s : Q) : e <= 1 -> s <= 1 -> pd_update_error_mul e s <= 1.
Proof. intros He Hs. unfold pd_update_error_mul.
  assert (0 <= (1 - e) * (1 - s)) by (apply Qmult_le_0_compat; Lqa.lra).
  change (inject_Z 1) with 1. Lqa.lra. Qed.

Lemma fold_left_Qplus_acc (l : list Q) (a : Q) : fold_left Qplus l a == a + fold_left Qplus l 0.
Proof. revert a. induction l as [|x l IH]; intros a; simpl.
  - ring.
  - rewrite IH. rewrite (IH (0 + x)). ring. Qed.

Lemma fold_left_Qplus_nonneg (l : list Q) : Forall (fun x => 0 <= x) l -> 0 <= fold_left Qplus l 0.
Proof. induction 1 as [|x l Hx _ IH]; simpl.
  - Lqa.lra.
  - rewrite fold_left_Qplus_acc. Lqa.lra. Qed.

(* ---- Part 2: R, abstract metric ------------------------------------------- *)
Section Metric.
Local Open Scope R_scope.
Variable U : Type.
Variable mul : U -> U -> U.
Variable one : U.
Variable d : U -> U -> R.
Hypothesis d_nonneg : forall a b, 0 <= d a b.
Hypothesis d_refl : forall a, d a a = 0.
Hypothesis d_tri : forall a b c, d a c <= d a b + d b c.
(* invariance under multiplication by a common factor, on either side *)
Hypothesis d_mul_l : forall c a b, d (mul c a) (mul c b) = d a b.
Hypothesis d_mul_r : forall c a b, d (mul a c) (mul b c) = d a b.
(* embedding a block unitary at a location: A |-> P (A (x) I) P^-1 *)
Variable L : Type.
Variable emb : L -> U -> U.
Hypothesis d_emb : forall k a b, d (emb k a) (emb k b) = d a b.

Definition prod (l : list U) : U := fold_right mul one l.

Fixpoint rsum (l : list R) : R := match l with [] => 0 | x :: t => x + rsum t end.

(* l and l' factor by factor within es *)
Inductive within : list U -> list U -> list R -> Prop :=
| within_nil : within [] [] []
| within_cons a a' e l l' es : d a a' <= e -> within l l' es -> within (a :: l) (a' :: l') (e :: es).

Lemma d_prod_within l l' es : within l l' es -> d (prod l) (prod l') <= rsum es.
Proof. induction 1 as [|a a' e l l' es Ha _ IH]; simpl.
  - rewrite d_refl. lra.
  - eapply Rle_trans; [apply (d_tri _ (mul a' (prod l)))|].
    rewrite d_mul_r, d_mul_l. lra. Qed.

(* a circuit as a list of (location, block unitary); per position either kept or replaced *)
Definition den (x : L * U) : U := emb (fst x) (snd x).

Inductive rewritten : list (L * U) -> list (L * U) -> list R -> Prop :=
| rw_nil : rewritten [] [] []
| rw_keep x l l' es : rewritten l l' es -> rewritten (x :: l) (x :: l') es
| rw_repl k u u' e l l' es : d u u' <= e -> rewritten l l' es ->
    rewritten ((k, u) :: l) ((k, u') :: l') (e :: es).

Lemma rewritten_nonneg l l' es : rewritten l l' es -> Forall (fun e => 0 <= e) es.
Proof. induction 1; auto. constructor; auto. eapply Rle_trans; [apply d_nonneg|eassumption]. Qed.

Lemma d_rewritten l l' es : rewritten l l' es -> d (prod (map den l)) (prod (map den l')) <= rsum es.
Proof. induction 1 as [|x l l' es _ IH|k u u' e l l' es Hu _ IH]; simpl.
  - rewrite d_refl. lra.
  - rewrite d_mul_l. exact IH.
  - eapply Rle_trans; [apply (d_tri _ (mul (den (k, u')) (prod (map den l))))|].
    rewrite d_mul_r, d_mul_l. change (den (k, u)) with (emb k u). change (den (k, u')) with (emb k u'). rewrite d_emb. lra. Qed.

Definition upd (e s : R) : R := 1 - (1 - e) * (1 - s).

Lemma upd_expand e s : upd e s + e * s = e + s.
Proof. unfold upd. ring. Qed.

Lemma upd_ge_max e s : 0 <= e <= 1 -> 0 <= s <= 1 -> Rmax e s <= upd e s.
Proof. intros He Hs. unfold upd. apply Rmax_lub; nra. Qed.

Lemma upd_ge_when_large e s : 0 <= e <= 1 -> 1 <= s -> 1 <= upd e s + e * s /\ e <= upd e s.
Proof. intros He Hs. unfold upd. split; nra. Qed.

(* the bound: target --e0--> old circuit --(sum of accepted block errors)--> new circuit *)
Theorem reported_bound target l l' es e0 :
  rewritten l l' es ->
  d target (prod (map den l)) <= e0 ->
  d target (prod (map den l')) <= upd e0 (rsum es) + e0 * rsum es.
Proof. intros Hrw H0. rewrite upd_expand.
  eapply Rle_trans; [apply (d_tri _ (prod (map den l)))|].
  pose proof (d_rewritten _ _ _ Hrw). lra. Qed.

End Metric.

(* the generated update_error_mul is `upd` *)
Lemma Q2R_error_mul (e s : Q) : Q2R (pd_update_error_mul e s) = upd (Q2R e) (Q2R s).
Proof. unfold pd_update_error_mul, upd.
  rewrite Q2R_minus, Q2R_mult, !Q2R_minus.
  replace (Q2R (inject_Z 1)) with 1%R by (unfold Q2R; simpl; field). reflexivity. Qed.

(* ---- Part 3: the concrete distance the hypotheses of Part 2 stand for (definitions only) ---
   Complex matrices as functions on indices; BQSKit's UnitaryMatrix.get_distance_from is
   sqrt(1 - (|tr(A^dagger B)| / N)^2).  The four metric facts for it are NOT proved here (they
   are the missing part of C11_error_bound, validated numerically by the harness on every run);
   they are stated as C11_error_bound_full in props/C11.v. *)
Section Concrete.
Local Open Scope R_scope.
Definition Cx : Type := (R * R)%type.
Definition cadd (a b : Cx) : Cx := (fst a + fst b, snd a + snd b).
Definition cmul (a b : Cx) : Cx := (fst a * fst b - snd a * snd b, fst a * snd b + snd a * fst b).
Definition cconj (a : Cx) : Cx := (fst a, - snd a).
Definition cnorm2 (a : Cx) : R := fst a * fst a + snd a * snd a.
Definition mat : Type := nat -> nat -> Cx.
Fixpoint csum (f : nat -> Cx) (n : nat) : Cx :=
  match n with O => (0, 0) | S k => cadd (csum f k) (f k) end.
Definition mmul (n : nat) (A B : mat) : mat := fun i j => csum (fun k => cmul (A i k) (B k j)) n.
Definition madj (A : mat) : mat := fun i j => cconj (A j i).
Definition mtr (n : nat) (A : mat) : Cx := csum (fun k => A k k) n.
Definition mid : mat := fun i j => if Nat.eqb i j then (1, 0) else (0, 0).
Definition meq (n : nat) (A B : mat) : Prop := forall i j, (i < n)%nat -> (j < n)%nat -> A i j = B i j.
Definition unitary (n : nat) (A : mat) : Prop := meq n (mmul n (madj A) A) mid.
Definition hs_dist (n : nat) (A B : mat) : R :=
  sqrt (1 - cnorm2 (mtr n (mmul n (madj A) B)) / (INR n * INR n)).
(* A (x) I_m on n*m rows: the block acts on the leading qudits, identity on the rest *)
Definition kron_id (m : nat) (A : mat) : mat :=
  fun i j => if Nat.eqb (i mod m) (j mod m) then A (i / m)%nat (j / m)%nat else (0, 0).
End Concrete.
