(* C11 - theorems about ctl/Control.v:
   run_trace_dictated   the execution trace of any nesting of control passes is the one the
                        predicate streams dictate (it does not depend on circuit, data, body
                        behaviour, conditions or orderings), whenever the run finishes
   while/dowhile/...    unfolding equations and closed forms (predicate BEFORE the body for
                        While, body first for DoWhile, exact iteration counts)
   dtd_spec / restores  DoThenDecide runs its body exactly once; when rejected, circuit and
                        data are the saved copies in every field iff copy/become are total
   par_spec / adopts    ParallelDo runs every branch once from the same state; the result is
                        one branch's (circuit, data) pair, both from the same branch
   *_generated          the same for the copy/become GENERATED from the current source:
                        holds or is refuted according to the generated verdicts (D3) *)
From Coq Require Import List Arith Bool Lia.
Import ListNotations.
Local Open Scope nat_scope.
From BQ Require Import gen.PassDataFields gen.CircuitFields ctl.Control.

Section Thm.
Variable V : Type.
Variable ccopy : circuitf V -> circuitf V.
Variable cbecome : circuitf V -> circuitf V -> circuitf V.
Variable dcopy : passdata V -> passdata V.
Variable dbecome : passdata V -> passdata V -> passdata V.
Variable leaf : nat -> st V -> option (st V).
Variable obs : st V -> nat.
Variable cond : nat -> circuitf V -> circuitf V -> bool.
Variable lt : nat -> circuitf V -> circuitf V -> bool.

Notation run := (run V ccopy cbecome dcopy dbecome leaf obs cond lt).
Notation step := (step V ccopy cbecome dcopy dbecome leaf obs cond lt).
Notation run_seq := (run_seq V).
Notation run_branches := (run_branches V).
Notation andthen := (andthen V).
Notation result := (result V).
Notation select := (select V lt).

Lemma andthen_done (x : result) k s' ss' tr :
  andthen x k = Done s' ss' tr ->
  exists s1 ss1 tr1 tr2, x = Done s1 ss1 tr1 /\ k s1 ss1 = Done s' ss' tr2 /\ tr = tr1 ++ tr2.
Proof. destruct x as [s1 ss1 tr1| |]; simpl; try discriminate.
  destruct (k s1 ss1) as [s2 ss2 tr2| |] eqn:E; try discriminate.
  intros H; inversion H; subst. exists s1, ss1, tr1, tr2. auto. Qed.

(* ---- the trace is dictated by the streams ------------------------------------- *)
Definition sim (r : pass -> st V -> streams -> result) (xr : pass -> streams -> xresult) : Prop :=
  forall p s ss s' ss' tr, r p s ss = Done s' ss' tr -> xr p ss = XDone ss' (map erase tr).

Lemma seq_sim r xr : sim r xr -> forall ps s ss s' ss' tr,
  run_seq r ps s ss = Done s' ss' tr -> xseq xr ps ss = XDone ss' (map erase tr).
Proof. intros Hs. induction ps as [|p t IH]; intros s ss s' ss' tr H; simpl in *.
  - inversion H; subst. reflexivity.
  - destruct (andthen_done _ _ _ _ _ H) as (s1 & ss1 & tr1 & tr2 & H1 & H2 & ->).
    rewrite (Hs _ _ _ _ _ _ H1). simpl. rewrite (IH _ _ _ _ _ H2). rewrite map_app. reflexivity. Qed.

Lemma branches_sim r xr : sim r xr -> forall bs s ss rs tr,
  run_branches r bs s ss = BDone V rs tr -> xbranches xr bs ss = XDone ss (map erase tr).
Proof. intros Hs. induction bs as [|b t IH]; intros s ss rs tr H; simpl in *.
  - inversion H; subst. reflexivity.
  - destruct (r b s ss) as [s1 ss1 tr1| |] eqn:E; try discriminate.
    destruct (run_branches r t s ss) as [rs' trs| |] eqn:E2; try discriminate.
    inversion H; subst. rewrite (Hs _ _ _ _ _ _ E). rewrite (IH _ _ _ _ E2).
    rewrite map_app. reflexivity. Qed.

Lemma step_sim r xr : sim r xr -> sim (step r) (xstep xr).
Proof. intros Hs p s ss s' ss' tr H. destruct p as [id|ps|q t e|q b|q b|c b|bs l pick]; unfold step in H; unfold xstep.
  - destruct (leaf id s); inversion H; subst. reflexivity.
  - eapply seq_sim; eassumption.
  - destruct (read q ss) as [v ss1].
    destruct (andthen_done _ _ _ _ _ H) as (s1 & ss2 & tr1 & tr2 & H1 & H2 & ->).
    inversion H1; subst. simpl.
    destruct v.
    + rewrite (Hs _ _ _ _ _ _ H2). reflexivity.
    + destruct e as [e'|].
      * rewrite (Hs _ _ _ _ _ _ H2). reflexivity.
      * inversion H2; subst. reflexivity.
  - destruct (read q ss) as [v ss1].
    destruct (andthen_done _ _ _ _ _ H) as (s1 & ss2 & tr1 & tr2 & H1 & H2 & ->).
    inversion H1; subst. simpl.
    destruct v.
    + destruct (andthen_done _ _ _ _ _ H2) as (s3 & ss3 & tr3 & tr4 & H3 & H4 & ->).
      rewrite (Hs _ _ _ _ _ _ H3). simpl. rewrite (Hs _ _ _ _ _ _ H4). rewrite map_app. reflexivity.
    + inversion H2; subst. reflexivity.
  - destruct (andthen_done _ _ _ _ _ H) as (s1 & ss1 & tr1 & tr2 & H1 & H2 & ->).
    rewrite (Hs _ _ _ _ _ _ H1). simpl. rewrite (Hs _ _ _ _ _ _ H2). rewrite map_app. reflexivity.
  - destruct (andthen_done _ _ _ _ _ H) as (s1 & ss1 & tr1 & tr2 & H1 & H2 & ->).
    rewrite (Hs _ _ _ _ _ _ H1). simpl. inversion H2; subst. rewrite map_app. reflexivity.
  - destruct (run_branches r bs s ss) as [rs trs| |] eqn:E; try discriminate.
    destruct (match pick with None => Some rs | Some fs => pick_results V rs fs end) as [[|first rest]|];
      try discriminate.
    inversion H; subst. eapply branches_sim; eassumption. Qed.

Theorem run_trace_dictated : forall fuel p s ss s' ss' tr,
  run fuel p s ss = Done s' ss' tr -> xrun fuel p ss = XDone ss' (map erase tr).
Proof. induction fuel as [|f IH].
  - intros p s ss s' ss' tr H. discriminate H.
  - exact (step_sim _ _ IH). Qed.

(* ---- unfolding equations --------------------------------------------------------- *)
(* While: the predicate is read first; on False the body does not run at all *)
Lemma while_false f q b s ss ss1 :
  read q ss = (false, ss1) -> run (S f) (While q b) s ss = Done s ss1 [EPred q false].
Proof. intros H. simpl. rewrite H. reflexivity. Qed.

Lemma while_true f q b s ss ss1 :
  read q ss = (true, ss1) ->
  run (S f) (While q b) s ss =
  andthen (Done s ss1 [EPred q true]) (fun s ss => andthen (run f b s ss) (run f (While q b))).
Proof. intros H. simpl. rewrite H. reflexivity. Qed.

(* DoWhile: the body runs first, unconditionally, then it is a While *)
Lemma dowhile_unfold f q b s ss :
  run (S f) (DoWhile q b) s ss = andthen (run f b s ss) (run f (While q b)).
Proof. reflexivity. Qed.

Lemma ifthenelse_unfold f q t e s ss v ss1 :
  read q ss = (v, ss1) ->
  run (S f) (IfThenElse q t e) s ss =
  andthen (Done s ss1 [EPred q v])
    (fun s ss => if v then run f t s ss else match e with Some e' => run f e' s ss | None => Done s ss [] end).
Proof. intros H. simpl. rewrite H. reflexivity. Qed.

Lemma seq_unfold f ps s ss : run (S f) (Seq ps) s ss = run_seq (run f) ps s ss.
Proof. reflexivity. Qed.

(* ---- DoThenDecide ----------------------------------------------------------------- *)
Theorem dtd_spec f c b s ss s' ss' tr :
  run (S f) (DoThenDecide c b) s ss = Done s' ss' tr ->
  exists sb tb,
    run f b s ss = Done sb ss' tb                                     (* the body ran once, on s *)
    /\ tr = tb ++ [ECond c (cond c (ccopy (fst s)) (fst sb))]          (* then the condition, on (saved, new) *)
    /\ (cond c (ccopy (fst s)) (fst sb) = true -> s' = sb)
    /\ (cond c (ccopy (fst s)) (fst sb) = false ->
          s' = (cbecome (fst sb) (ccopy (fst s)), dbecome (snd sb) (dcopy (snd s)))).
Proof. intros H. simpl in H.
  destruct (andthen_done _ _ _ _ _ H) as (s1 & ss1 & tr1 & tr2 & H1 & H2 & ->).
  exists s1, tr1. inversion H2; subst. split; [exact H1|]. split; [reflexivity|].
  split; intros E; rewrite E; reflexivity. Qed.

(* ---- ParallelDo --------------------------------------------------------------------- *)
Lemma select_in l : forall rest best, In (select l best rest) (best :: rest).
Proof. induction rest as [|x t IH]; intros best; simpl.
  - left. reflexivity.
  - destruct (lt l (fst x) (fst best)).
    + destruct (IH x) as [E|E]; [right; left; exact E| right; right; exact E].
    + destruct (IH best) as [E|E]; [left; exact E| right; right; exact E]. Qed.

Lemma run_branches_each r : forall bs s ss rs tr,
  run_branches r bs s ss = BDone V rs tr ->
  Forall2 (fun b x => exists ssb trb, r b s ss = Done x ssb trb) bs rs.
Proof. induction bs as [|b t IH]; intros s ss rs tr H; simpl in H.
  - inversion H. constructor.
  - destruct (r b s ss) as [s1 ss1 tr1| |] eqn:E; try discriminate.
    destruct (run_branches r t s ss) as [rs' trs| |] eqn:E2; try discriminate.
    inversion H; subst. constructor; [eauto|eapply IH; eassumption]. Qed.

Lemma pick_results_in rs : forall fs xs, pick_results V rs fs = Some xs -> forall x, In x xs -> In x rs.
Proof. induction fs as [|k t IH]; intros xs H x Hx; simpl in H.
  - inversion H; subst. contradiction.
  - destruct (nth_error rs k) as [y|] eqn:E; [|discriminate].
    destruct (pick_results V rs t) as [ys|]; [|discriminate]. inversion H; subst.
    destruct Hx as [<-|Hx]; [eapply nth_error_In; eassumption|eapply IH; eauto]. Qed.

Theorem par_spec f bs l pick s ss s' ss' tr :
  run (S f) (ParallelDo bs l pick) s ss = Done s' ss' tr ->
  exists rs best,
    Forall2 (fun b x => exists ssb trb, run f b s ss = Done x ssb trb) bs rs  (* every branch once, from s *)
    /\ In best rs                                                        (* one branch's own pair *)
    /\ (pick = None -> best = select l (hd best rs) (tl rs))
    /\ ss' = ss
    /\ s' = (cbecome (fst s) (fst best), dbecome (snd s) (snd best)).
Proof. intros H. simpl in H.
  destruct (run_branches (run f) bs s ss) as [rs trs| |] eqn:E; try discriminate.
  destruct pick as [fs|].
  - destruct (pick_results V rs fs) as [[|first rest]|] eqn:P; try discriminate.
    inversion H; subst. exists rs, (select l first rest).
    split; [eapply run_branches_each; eassumption|].
    split; [|split; [discriminate|auto]].
    eapply pick_results_in; [exact P|]. apply select_in.
  - destruct rs as [|first rest]; try discriminate.
    inversion H; subst. exists (first :: rest), (select l first rest).
    split; [eapply run_branches_each; eassumption|].
    split; [apply select_in|]. split; [reflexivity|auto]. Qed.

End Thm.

(* ---- "rejected / unselected leaves everything as it was", as a property of copy/become ---- *)
Definition restores_stmt (V : Type) ccopy cbecome dcopy dbecome : Prop :=
  forall leaf obs cond lt fuel c b s ss s' ss' tb,
    run V ccopy cbecome dcopy dbecome leaf obs cond lt fuel (DoThenDecide c b) s ss
      = Done s' ss' (tb ++ [ECond c false]) ->
    s' = s.

Definition adopts_stmt (V : Type) ccopy cbecome dcopy dbecome : Prop :=
  forall leaf obs cond lt fuel bs l pick s ss s' ss' tr,
    run V ccopy cbecome dcopy dbecome leaf obs cond lt fuel (ParallelDo bs l pick) s ss = Done s' ss' tr ->
    exists b ssb trb, In b bs /\
      run V ccopy cbecome dcopy dbecome leaf obs cond lt (pred fuel) b s ss = Done s' ssb trb.

Lemma app_last_inj {A} (l l' : list A) (x y : A) : l ++ [x] = l' ++ [y] -> x = y.
Proof. intros H. apply (f_equal (@rev A)) in H. rewrite !rev_app_distr in H. simpl in H.
  inversion H. reflexivity. Qed.

Theorem rejected_restores (V : Type) ccopy cbecome dcopy dbecome :
  (forall c, ccopy c = c) -> (forall d, dcopy d = d) ->
  (forall s o, cbecome s o = o) -> (forall s o, dbecome s o = o) ->
  restores_stmt V ccopy cbecome dcopy dbecome.
Proof. intros Hcc Hdc Hcb Hdb leaf obs cond lt fuel c b s ss s' ss' tb H.
  destruct fuel as [|f]; [discriminate|].
  destruct (dtd_spec _ _ _ _ _ _ _ _ _ _ _ _ _ _ _ _ _ H) as (sb & tb' & _ & Htr & _ & Hrej).
  apply app_last_inj in Htr. inversion Htr as [Hc]. symmetry in Hc.
  rewrite (Hrej Hc), Hcb, Hdb, Hcc, Hdc. destruct s; reflexivity. Qed.

Theorem unselected_adopts (V : Type) ccopy cbecome dcopy dbecome :
  (forall s o, cbecome s o = o) -> (forall s o, dbecome s o = o) ->
  adopts_stmt V ccopy cbecome dcopy dbecome.
Proof. intros Hcb Hdb leaf obs cond lt fuel bs l pick s ss s' ss' tr H.
  destruct fuel as [|f]; [discriminate|].
  destruct (par_spec _ _ _ _ _ _ _ _ _ _ _ _ _ _ _ _ _ _ H) as (rs & best & Hall & Hin & _ & _ & ->).
  rewrite Hcb, Hdb. replace (fst best, snd best) with best by (destruct best; reflexivity).
  clear H. induction Hall as [|b x bs' rs' Hbx _ IH]; [contradiction|].
  destruct Hin as [<-|Hin].
  - destruct Hbx as (ssb & trb & Hb). exists b, ssb, trb. split; [left; reflexivity|exact Hb].
  - destruct (IH Hin) as (b' & ssb & trb & Hb' & Hr). exists b', ssb, trb. split; [right; exact Hb'|exact Hr]. Qed.

(* a data `become` that loses a field breaks both *)
Theorem restores_refuted_by_data (V : Type) ccopy cbecome dcopy dbecome :
  (forall d, dcopy d = d) ->
  (exists s o : passdata V, dbecome s o <> o) ->
  ~ restores_stmt V ccopy cbecome dcopy dbecome.
Proof. intros Hdc (ds & do & Hne) R.
  (* start with data `do`; the body overwrites the data with `ds`; the condition rejects *)
  pose (c0 := cf_const (pd_target do)).
  specialize (R (fun _ s => Some (fst s, ds)) (fun _ => 0) (fun _ _ _ => false) (fun _ _ _ => false)
                2 0 (Leaf 0) (c0, do) [] (cbecome c0 (ccopy c0), dbecome ds (dcopy do)) [] [ELeaf 0 0] eq_refl).
  apply Hne. rewrite Hdc in R. inversion R as [[Hc Hd]]. rewrite Hd. exact Hd. Qed.

Theorem adopts_refuted_by_data (V : Type) ccopy cbecome dcopy dbecome :
  (forall s o, cbecome s o = o) ->
  (exists s o : passdata V, dbecome s o <> o) ->
  ~ adopts_stmt V ccopy cbecome dcopy dbecome.
Proof. intros Hcb (ds & do & Hne) R.
  (* start with data `ds`; the only branch sets the data to `do`; adoption keeps part of `ds` *)
  pose (c0 := cf_const (pd_target do)).
  destruct (R (fun _ s => Some (fst s, do)) (fun _ => 0) (fun _ _ _ => false) (fun _ _ _ => false)
              2 [Leaf 0] 0 None (c0, ds) [] _ _ _ eq_refl) as (b & ssb & trb & Hin & Hrun).
  destruct Hin as [<-|[]]. simpl in Hrun. inversion Hrun as [[Hc Hd]]. apply Hne. symmetry. exact Hd. Qed.

(* ---- the generated copy/become ------------------------------------------------------ *)
Definition gen_restores (V : Type) : Prop :=
  restores_stmt V (@cf_copy V) (@cf_become V) (@pd_copy V) (@pd_become V).
Definition gen_adopts (V : Type) : Prop :=
  adopts_stmt V (@cf_copy V) (@cf_become V) (@pd_copy V) (@pd_become V).

Lemma cf_become_default_total : cf_become_total_stmt -> forall V (s o : circuitf V), cf_become s o = o.
Proof. intros H V s o. destruct (H V s o) as [H1 H2]. unfold cf_become. first [exact H1 | exact H2]. Qed.

Lemma pd_become_default_total : pd_become_total_stmt -> forall V (s o : passdata V), pd_become s o = o.
Proof. intros H V s o. destruct (H V s o) as [H1 H2]. unfold pd_become. first [exact H1 | exact H2]. Qed.

(* Verdict for the current source.  With PassData.become total: both statements hold for
   every value type.  Otherwise (D3 today): both are refuted over bool. *)
Theorem restores_generated_verdict :
  cf_become_total_stmt ->
  if pd_become_is_total
  then (forall V, gen_restores V) /\ (forall V, gen_adopts V)
  else ~ gen_restores bool /\ ~ gen_adopts bool.
Proof. intros Hc. generalize pd_become_verdict. destruct pd_become_is_total; intros Hd.
  - split; intros V.
    + apply rejected_restores; [apply cf_copy_total|apply pd_copy_total| |].
      * apply cf_become_default_total; exact Hc.
      * apply pd_become_default_total; exact Hd.
    + apply unselected_adopts.
      * apply cf_become_default_total; exact Hc.
      * apply pd_become_default_total; exact Hd.
  - split.
    + apply restores_refuted_by_data; [apply pd_copy_total|exact Hd].
    + apply adopts_refuted_by_data; [apply cf_become_default_total; exact Hc|exact Hd]. Qed.

(* ---- closed forms: exact iteration counts ---------------------------------------------- *)
Fixpoint set_nth {A} (n : nat) (x : A) (l : list A) : list A :=
  match n, l with
  | 0, _ :: t => x :: t
  | S n', y :: t => y :: set_nth n' x t
  | _, [] => []
  end.

Lemma read_nth q : forall ss b r, nth_error ss q = Some (b :: r) -> read q ss = (b, set_nth q r ss).
Proof. induction q as [|q IH]; intros [|s t] b r H; simpl in *; try discriminate.
  - inversion H; subst. reflexivity.
  - rewrite (IH _ _ _ H). reflexivity. Qed.

Lemma nth_set_nth {A} q : forall (ss : list A) x y, nth_error ss q = Some x -> nth_error (set_nth q y ss) q = Some y.
Proof. induction q as [|q IH]; intros [|s t] x y H; simpl in *; try discriminate; eauto. Qed.

Lemma set_nth_twice {A} q : forall (ss : list A) x y, set_nth q y (set_nth q x ss) = set_nth q y ss.
Proof. induction q as [|q IH]; intros [|s t] x y; simpl; try reflexivity. rewrite IH. reflexivity. Qed.

Definition iter_trace (q id k : nat) : list event :=
  concat (repeat [EPred q true; ELeaf id 0] k) ++ [EPred q false].

(* While over a single body: stream = k times True then False => the body runs exactly k
   times, each time after a True answer; the final False is read and nothing follows *)
Theorem while_leaf_count : forall k fuel q id ss rest,
  nth_error ss q = Some (repeat true k ++ false :: rest) -> k + 2 <= fuel ->
  xrun fuel (While q (Leaf id)) ss = XDone (set_nth q rest ss) (iter_trace q id k).
Proof. induction k as [|k IH]; intros fuel q id ss rest Hn Hf.
  - destruct fuel as [|f]; [lia|]. simpl in *. rewrite (read_nth _ _ _ _ Hn). reflexivity.
  - destruct fuel as [|[|f]]; try lia. simpl in Hn.
    change (xrun (S (S f)) (While q (Leaf id)) ss) with (xstep (xrun (S f)) (While q (Leaf id)) ss).
    unfold xstep. rewrite (read_nth _ _ _ _ Hn).
    unfold xthen at 1.
    change (xrun (S f) (Leaf id) (set_nth q (repeat true k ++ false :: rest) ss))
      with (XDone (set_nth q (repeat true k ++ false :: rest) ss) [ELeaf id 0]).
    unfold xthen at 1.
    rewrite (IH (S f) q id _ rest (nth_set_nth _ _ _ _ Hn)); [|lia].
    rewrite set_nth_twice. reflexivity. Qed.

(* DoWhile: one unconditional execution first, then as While: k+1 executions *)
Theorem dowhile_leaf_count : forall k fuel q id ss rest,
  nth_error ss q = Some (repeat true k ++ false :: rest) -> k + 3 <= fuel ->
  xrun fuel (DoWhile q (Leaf id)) ss = XDone (set_nth q rest ss) (ELeaf id 0 :: iter_trace q id k).
Proof. intros k fuel q id ss rest Hn Hf. destruct fuel as [|[|f]]; try lia.
  change (xrun (S (S f)) (DoWhile q (Leaf id)) ss)
    with (xthen (XDone ss [ELeaf id 0]) (xrun (S f) (While q (Leaf id)))).
  unfold xthen. rewrite (while_leaf_count k (S f) q id ss rest Hn); [reflexivity|lia]. Qed.
