(* C11 - executable model of bqskit/passes/control/foreach.py (ForEachBlockPass.run, the
   replace-filter family) and of Circuit.batch_replace / Circuit.replace at list level.
   Model only - proofs are in ctl/ForEachThm.v.

   A circuit is the list of (cycle, operation) pairs in iteration order
   (circuit.operations_with_cycles()) together with its number of cycles.  An operation is a
   primitive gate (an interned id standing for gate + parameters) or a CircuitGate carrying
   its sub-circuit, on a location.  The body workflow is an oracle argument. *)
From Coq Require Import List Arith Bool QArith.
Import ListNotations.
Local Open Scope nat_scope.

(* ---- operations ---------------------------------------------------------- *)
Record sop := mkSop { sg : nat; sloc : list nat }.       (* op of a sub-circuit, local qudits *)
Definition subc := list sop.

Inductive gate := Prim (g : nat) | CGate (s : subc).
Record op := mkOp { ogate : gate; oloc : list nat }.

Record circ := mkCirc { ncyc : nat; ops : list (nat * op) }.

Inductive res (A : Type) : Type :=
| Ok (a : A)
| IndexError            (* no operation at the point / out of range *)
| ValueError            (* point's qudit not in the new location, or size mismatch *)
| BodyRaised            (* the loop body raised on some block *)
| Unmodelled.           (* Circuit.replace takes its pop+insert branch (circuit/CModel, C04) *)
Arguments Ok {A}. Arguments IndexError {A}. Arguments ValueError {A}.
Arguments BodyRaised {A}. Arguments Unmodelled {A}.

(* ---- Circuit.replace / batch_replace -------------------------------------- *)
Definition mem (x : nat) (l : list nat) : bool := existsb (Nat.eqb x) l.
Definition disjointb (a b : list nat) : bool := forallb (fun x => negb (mem x b)) a.
Definition same_set (a b : list nat) : bool :=
  forallb (fun x => mem x b) a && forallb (fun x => mem x a) b.

(* the grid cell (cycle, qudit) holds this entry *)
Definition touches (pt : nat * nat) (co : nat * op) : bool :=
  (fst co =? fst pt) && mem (snd pt) (oloc (snd co)).

Fixpoint find_at (l : list (nat * op)) (pt : nat * nat) : option op :=
  match l with
  | [] => None
  | co :: t => if touches pt co then Some (snd co) else find_at t pt
  end.

Fixpoint subst_at (l : list (nat * op)) (pt : nat * nat) (new : op) : list (nat * op) :=
  match l with
  | [] => []
  | co :: t => if touches pt co then (fst co, new) :: t else co :: subst_at t pt new
  end.

(* Circuit.replace(point, op):
     self[point] raises IndexError when the point is out of range or empty;
     ValueError when the locations do not intersect;
     same set of qudits -> the grid cells are overwritten in place (no cycle is created or
     removed).  When location[0] differs the DAG node is re-keyed to (cycle, new location[0]),
     which moves the operation inside its cycle in iteration order - not modelled here;
     otherwise pop(point) + insert(cycle, op) - not modelled here either (circuit/CModel). *)
Definition replace (c : circ) (pt : nat * nat) (new : op) : res circ :=
  if negb (fst pt <? ncyc c) then IndexError else
  match find_at (ops c) pt with
  | None => IndexError
  | Some old =>
      if disjointb (oloc old) (oloc new) then ValueError
      else if same_set (oloc old) (oloc new) && (hd 0 (oloc old) =? hd 0 (oloc new))
           then Ok (mkCirc (ncyc c) (subst_at (ops c) pt new))
           else Unmodelled
  end.

(* Circuit.batch_replace (as of "fix: batch_replace keeps program order ..."):
     points = [self.normalize_point(point) for point in points]        IndexError when out of range
     order = sorted(range(len(points)), key=lambda i: points[i][0], reverse=True)      (stable)
     for k, i in enumerate(order):
         num_cycles = self.num_cycles
         self.replace(points[i], ops[i])
         num_added = self.num_cycles - num_cycles
         if num_added > 0:      # push back the points of the same cycle still to be replaced
             for j in order[k + 1:]:
                 if points[j][0] == points[i][0]: points[j] = (points[j][0] + num_added, points[j][1])
   The in-place update of the pending points is modelled by a list of (cycle, amount) shifts,
   newest first, applied oldest first to each point when its turn comes.  (point.qudit is
   assumed in range.) *)
Definition pkey (x : (nat * nat) * op) : nat := fst (fst x).
Fixpoint insert_desc (x : (nat * nat) * op) (l : list ((nat * nat) * op)) :=
  match l with
  | [] => [x]
  | y :: t => if pkey y <=? pkey x then x :: y :: t else y :: insert_desc x t
  end.
Definition sort_desc (l : list ((nat * nat) * op)) := fold_right insert_desc [] l.

Definition apply_shifts (shifts : list (nat * nat)) (pt : nat * nat) : nat * nat :=
  fold_right (fun sh p => if fst p =? fst sh then (fst p + snd sh, snd p) else p) pt shifts.

Fixpoint batch_loop (c : circ) (shifts : list (nat * nat)) (pos : list ((nat * nat) * op)) : res circ :=
  match pos with
  | [] => Ok c
  | (pt, o) :: t =>
      let pt' := apply_shifts shifts pt in
      match replace c pt' o with
      | Ok c' =>
          let added := ncyc c' - ncyc c in
          batch_loop c' (if 0 <? added then (fst pt', added) :: shifts else shifts) t
      | e => e
      end
  end.

Definition batch_replace (c : circ) (points : list (nat * nat)) (newops : list op) : res circ :=
  if length points =? length newops
  then if forallb (fun pt => fst pt <? ncyc c) points
       then batch_loop c [] (sort_desc (combine points newops))
       else IndexError
  else ValueError.

(* ---- ForEachBlockPass.run -------------------------------------------------- *)
(* what the body is given for block number bi_index *)
Record binput := mkBI {
  bi_index : nat;
  bi_sub : subc;                       (* the block's own operations *)
  bi_point : nat * nat;                (* block_data['point'] = (cycle, location[0]) *)
  bi_numbering : list (nat * nat);     (* block_data['subnumbering'] = {location[i]: i} *)
  bi_edges : list (nat * nat);         (* submodel coupling graph *)
  bi_radixes : list nat;               (* submodel radixes *)
  bi_ceb : bool;                       (* block_data['calculate_error_bound'] *)
}.
(* what comes back: the rewritten sub-circuit, its width, block_data.error *)
Record bresult := mkBR { br_sub : subc; br_width : nat; br_err : Q }.

Fixpoint index_of (x : nat) (l : list nat) : option nat :=
  match l with
  | [] => None
  | y :: t => if x =? y then Some 0 else option_map S (index_of x t)
  end.

(* coupling_graph.get_subgraph(location, subnumbering): edges inside the location, renumbered *)
Definition sub_edges (loc : list nat) (edges : list (nat * nat)) : list (nat * nat) :=
  flat_map (fun e => match index_of (fst e) loc, index_of (snd e) loc with
                     | Some a, Some b => [(a, b)]
                     | _, _ => []
                     end) edges.

Definition numbering (loc : list nat) : list (nat * nat) := combine loc (seq 0 (length loc)).

Definition subcircuit (o : op) : subc :=
  match ogate o with
  | CGate s => s                                          (* op.gate._circuit.copy() *)
  | Prim g => [mkSop g (seq 0 (length (oloc o)))]         (* Circuit.from_operation(op) *)
  end.

Section Run.
Variable cf : op -> bool.                       (* collection filter *)
Variable rf : subc -> op -> bool.               (* replace filter (callable form) *)
Variable body : binput -> option bresult.       (* _sub_do_work(workflow, subcircuit, block_data) *)
Variable edges : list (nat * nat).              (* data.connectivity *)
Variable radixes : list nat.                    (* circuit.radixes *)
Variable ceb : bool.                            (* calculate_error_bound *)
Variable error_mul : Q -> Q -> Q.               (* PassData.update_error_mul (generated) *)

Definition collect (l : list (nat * op)) : list (nat * op) := filter (fun co => cf (snd co)) l.

Definition mk_input (i : nat) (co : nat * op) : binput :=
  let o := snd co in
  mkBI i (subcircuit o) (fst co, hd 0 (oloc o)) (numbering (oloc o))
       (sub_edges (oloc o) edges) (map (fun q => nth q radixes 0) (oloc o)) ceb.

Fixpoint inputs (i : nat) (bs : list (nat * op)) : list binput :=
  match bs with
  | [] => []
  | co :: t => mk_input i co :: inputs (S i) t
  end.

Fixpoint run_bodies (ins : list binput) : option (list bresult) :=
  match ins with
  | [] => Some []
  | x :: t => match body x, run_bodies t with
              | Some r, Some rs => Some (r :: rs)
              | _, _ => None
              end
  end.

(* post-processing loop: (points, ops, accepted errors, replaced flags);
   widthbad = an accepted result whose width differs from the block's (Operation() raises) *)
Record postacc := mkPost {
  p_points : list (nat * nat); p_ops : list op; p_errs : list Q; p_flags : list bool; p_widthbad : bool }.

Fixpoint post (bs : list (nat * op)) (rs : list bresult) : postacc :=
  match bs, rs with
  | (cy, o) :: bt, r :: rt =>
      let a := post bt rt in
      if rf (br_sub r) o
      then mkPost ((cy, hd 0 (oloc o)) :: p_points a)
                  (mkOp (CGate (br_sub r)) (oloc o) :: p_ops a)
                  (br_err r :: p_errs a) (true :: p_flags a)
                  (negb (br_width r =? length (oloc o)) || p_widthbad a)
      else mkPost (p_points a) (p_ops a) (p_errs a) (false :: p_flags a) (p_widthbad a)
  | _, _ => mkPost [] [] [] [] false
  end.

(* error_sum = 0.0; error_sum += block_data.error  (left to right) *)
Definition error_sum (es : list Q) : Q := fold_left Qplus es 0%Q.

Record fe_out := mkOut {
  fo_circ : circ;
  fo_error : Q;                  (* data.error afterwards *)
  fo_calls : list binput;        (* one entry per body execution, in block order *)
  fo_flags : list bool;          (* block_data['replaced'] per block *)
  fo_points : list (nat * nat);  (* points handed to batch_replace *)
}.

Definition run (c : circ) (e0 : Q) : res fe_out :=
  let blocks := collect (ops c) in
  match blocks with
  | [] => Ok (mkOut c e0 [] [] [])          (* "No blocks, no work": error untouched *)
  | _ =>
    let ins := inputs 0 blocks in
    match run_bodies ins with
    | None => BodyRaised
    | Some rs =>
        let a := post blocks rs in
        if p_widthbad a then ValueError else
        match batch_replace c (p_points a) (p_ops a) with
        | Ok c' => Ok (mkOut c' (error_mul e0 (error_sum (p_errs a))) ins (p_flags a) (p_points a))
        | IndexError => IndexError
        | ValueError => ValueError
        | BodyRaised => BodyRaised
        | Unmodelled => Unmodelled
        end
    end
  end.

(* the specification the theorem compares `run` with: one pass over the circuit, position by
   position; i counts the selected blocks seen so far *)
Fixpoint spec_ops (i : nat) (l : list (nat * op)) : list (nat * op) :=
  match l with
  | [] => []
  | co :: t =>
      if cf (snd co)
      then match body (mk_input i co) with
           | Some r => (if rf (br_sub r) (snd co)
                        then (fst co, mkOp (CGate (br_sub r)) (oloc (snd co)))
                        else co) :: spec_ops (S i) t
           | None => co :: spec_ops (S i) t
           end
      else co :: spec_ops i t
  end.

Fixpoint spec_errs (i : nat) (l : list (nat * op)) : list Q :=
  match l with
  | [] => []
  | co :: t =>
      if cf (snd co)
      then match body (mk_input i co) with
           | Some r => if rf (br_sub r) (snd co) then br_err r :: spec_errs (S i) t else spec_errs (S i) t
           | None => spec_errs (S i) t
           end
      else spec_errs i t
  end.

End Run.

(* ---- replace-filter family -------------------------------------------------- *)
Definition arity (o : sop) : nat := length (sloc o).
Definition cnt (p : nat -> bool) (s : subc) : nat := length (filter (fun o => p (arity o)) s).

Definition lex2 (a b : nat * nat) : bool :=
  (fst a <? fst b) || ((fst a =? fst b) && (snd a <? snd b)).
Definition lex3 (a b : nat * (nat * nat)) : bool :=
  (fst a <? fst b) || ((fst a =? fst b) && lex2 (snd a) (snd b)).

Definition f_always (new : subc) (old : op) : bool := true.

Definition f_less_than (new : subc) (old : op) : bool :=
  match ogate old with
  | CGate s => length new <? length s
  | Prim _ => true
  end.

Definition f_less_than_multi (new : subc) (old : op) : bool :=
  match ogate old with
  | CGate s => lex2 (cnt (fun k => 1 <? k) new, cnt (fun k => k =? 1) new)
                    (cnt (fun k => 1 <? k) s, cnt (fun k => k =? 1) s)
  | Prim _ => true
  end.

Definition f_less_than_many (new : subc) (old : op) : bool :=
  match ogate old with
  | CGate s => lex3 (cnt (fun k => 2 <? k) new, (cnt (fun k => k =? 2) new, cnt (fun k => k =? 1) new))
                    (cnt (fun k => 2 <? k) s, (cnt (fun k => k =? 2) s, cnt (fun k => k =? 1) s))
  | Prim _ => true
  end.

(* MachineModel as seen by _is_respecting: gate-set membership of an interned gate, and the
   edge set of the coupling graph (pairs stored with the smaller qudit first) *)
Record mmodel := mkModel { in_gs : nat -> bool; medges : list (nat * nat) }.

Definition pair_in (e : nat * nat) (es : list (nat * nat)) : bool :=
  existsb (fun x => (fst x =? fst e) && (snd x =? snd e)) es.

(* CircuitLocation.pairs of every operation: the circuit's own coupling graph *)
Fixpoint loc_pairs (l : list nat) : list (nat * nat) :=
  match l with
  | [] => []
  | a :: t => map (fun b => (Nat.min a b, Nat.max a b)) t ++ loc_pairs t
  end.
Definition sub_pairs (s : subc) : list (nat * nat) := flat_map (fun o => loc_pairs (sloc o)) s.

(* _is_respecting(circuit, location, model, fully), as of "fix: foreach's model-respecting test
   accepts a coupling edge in either orientation": every edge e of the circuit's own coupling graph
   must be an edge of the model as (location[e0], location[e1]) or as (location[e1], location[e0]) *)
Definition is_respecting (s : subc) (loc : list nat) (m : mmodel) (fully : bool) : bool :=
  forallb (fun o => negb (1 <? arity o) || in_gs m (sg o)) s
  && (negb fully || forallb (fun o => negb (arity o =? 1) || in_gs m (sg o)) s)
  && forallb (fun e => pair_in (nth (fst e) loc 0, nth (snd e) loc 0) (medges m)
                       || pair_in (nth (snd e) loc 0, nth (fst e) loc 0) (medges m)) (sub_pairs s).

(* _less_than_fn_respecting / _less_than_fn_respecting_fully *)
Definition f_respecting (fully : bool) (m : mmodel) (fn : subc -> op -> bool) (new : subc) (old : op) : bool :=
  match ogate old with
  | CGate s =>
      if negb (is_respecting s (oloc old) m fully) then true
      else if negb (is_respecting new (oloc old) m fully) then false
      else fn new old
  | Prim _ => fn new old
  end.

Inductive rfbase := RAlways | RLess | RMulti | RMany.
Inductive rfkind := RBase (b : rfbase) | RRespecting (fully : bool) (b : rfbase).

Definition base_fn (b : rfbase) : subc -> op -> bool :=
  match b with
  | RAlways => f_always | RLess => f_less_than | RMulti => f_less_than_multi | RMany => f_less_than_many
  end.

(* gen_replace_filter(method, model) *)
Definition replace_filter (k : rfkind) (m : mmodel) : subc -> op -> bool :=
  match k with
  | RBase b => base_fn b
  | RRespecting fully b => f_respecting fully m (base_fn b)
  end.
