(* C03 - what `cost < success_threshold` means for the three target kinds.

   The native cost functions (bqskitrs HilbertSchmidtCost / HilbertSchmidtResiduals) were
   probed on the unchanged code (harness/props/c03.py re-checks the formulas on every run):
     unitary target T, circuit unitary U (N x N):   cost = 1 - |tr(T^dagger U)| / N
     state target s, circuit unitary U:             cost = 1 - |<s| U |0..0>|^2
     state system {v_i -> w_i}, i < k:              cost = 1 - |sum_i <w_i| U |v_i>| / k
   Matrices are handled as their entry vectors (Frobenius inner product = vector inner
   product), so one development over `list C` serves all three. *)
From Coq Require Import Reals List Lra Lia.
From Coquelicot Require Import Coquelicot.
Import ListNotations.
Open Scope R_scope.

(* <a|b> = sum conj(a_i) b_i *)
Fixpoint cdot (a b : list C) : C :=
  match a, b with
  | x :: r, y :: t => Cplus (Cmult (Cconj x) y) (cdot r t)
  | _, _ => RtoC 0
  end.

Definition nrm2 (a : list C) : R := Re (cdot a a).

(* u - p*t, entry by entry *)
Fixpoint vsub (u : list C) (p : C) (t : list C) : list C :=
  match u, t with
  | x :: r, y :: s => Cminus x (Cmult p y) :: vsub r p s
  | _, _ => []
  end.

Lemma nrm2_nonneg : forall a, 0 <= nrm2 a.
Proof.
  induction a as [|[x y] r IH]; unfold nrm2, Re in *; simpl; [lra|].
  assert (0 <= x * x) by apply Rle_0_sqr. assert (0 <= y * y) by apply Rle_0_sqr. nra.
Qed.

(* |u - p t|^2 = |u|^2 + |p|^2 |t|^2 - 2 Re(conj(p) <t|u>) *)
Lemma nrm2_vsub : forall u t p, length u = length t ->
  nrm2 (vsub u p t) = nrm2 u + (fst p * fst p + snd p * snd p) * nrm2 t - 2 * Re (Cmult (Cconj p) (cdot t u)).
Proof.
  induction u as [|[x y] r IH]; intros [|[a b] s] [p q] Hlen; simpl in Hlen; try discriminate Hlen.
  - unfold nrm2, Re. simpl. ring.
  - injection Hlen as Hlen. specialize (IH s (p, q) Hlen). unfold nrm2, Re in *. simpl in *.
    rewrite IH. ring.
Qed.

(* a unit complex number aligned with z *)
Definition phase_of (z : C) : C :=
  match Ceq_dec z (RtoC 0) with
  | left _ => RtoC 1
  | right _ => Cmult z (RtoC (/ Cmod z))
  end.

Lemma Cmod_sqr : forall z : C, Cmod z * Cmod z = fst z * fst z + snd z * snd z.
Proof.
  intros [a b]. unfold Cmod. simpl. rewrite sqrt_sqrt; [ring|].
  assert (0 <= a * a) by apply Rle_0_sqr. assert (0 <= b * b) by apply Rle_0_sqr. nra.
Qed.

Lemma phase_of_unit : forall z, fst (phase_of z) * fst (phase_of z) + snd (phase_of z) * snd (phase_of z) = 1.
Proof.
  intros z. unfold phase_of. destruct (Ceq_dec z (RtoC 0)) as [E | E]; simpl; [ring|].
  pose proof (proj1 (Cmod_gt_0 z) E) as Hpos. pose proof (Cmod_sqr z) as Hs. destruct z as [a b]. simpl in *.
  replace ((a * / Cmod (a, b) - b * 0) * (a * / Cmod (a, b) - b * 0) + (a * 0 + b * / Cmod (a, b)) * (a * 0 + b * / Cmod (a, b)))
    with ((a * a + b * b) * (/ Cmod (a, b) * / Cmod (a, b))) by ring.
  rewrite <- Hs. field. lra.
Qed.

Lemma phase_of_aligns : forall z, Re (Cmult (Cconj (phase_of z)) z) = Cmod z.
Proof.
  intros z. unfold phase_of. destruct (Ceq_dec z (RtoC 0)) as [E | E].
  - subst z. rewrite Cmod_0. simpl. ring.
  - pose proof (proj1 (Cmod_gt_0 z) E) as Hpos. pose proof (Cmod_sqr z) as Hs. destruct z as [a b]. simpl in *.
    replace ((a * / Cmod (a, b) - b * 0) * a - - (a * 0 + b * / Cmod (a, b)) * b)
      with ((a * a + b * b) * / Cmod (a, b)) by ring.
    rewrite <- Hs. field. lra.
Qed.

(* best phase: |u - p t|^2 = |u|^2 + |t|^2 - 2 |<t|u>| *)
Lemma best_phase_distance : forall u t, length u = length t ->
  nrm2 (vsub u (phase_of (cdot t u)) t) = nrm2 u + nrm2 t - 2 * Cmod (cdot t u).
Proof.
  intros u t Hlen. rewrite (nrm2_vsub u t _ Hlen). rewrite phase_of_unit, phase_of_aligns. ring.
Qed.

(* Cauchy-Schwarz for equal norms, a by-product: |<t|u>| <= (|u|^2 + |t|^2)/2 *)
Lemma cdot_bound : forall u t, length u = length t -> 2 * Cmod (cdot t u) <= nrm2 u + nrm2 t.
Proof.
  intros u t Hlen. pose proof (nrm2_nonneg (vsub u (phase_of (cdot t u)) t)) as Hn.
  rewrite (best_phase_distance u t Hlen) in Hn. lra.
Qed.

(* ---- unitary target --------------------------------------------------------------- *)
(* u, t: the N*N entries of the circuit unitary U and the target T; for unitaries the squared
   Frobenius norm is N; <t|u> = tr(T^dagger U).  cost = 1 - |tr(T^dagger U)|/N. *)
Definition hs_cost (N : R) (u t : list C) : R := 1 - Cmod (cdot t u) / N.

Theorem hs_cost_unitary_meaning : forall N u t eps,
  0 < N -> length u = length t -> nrm2 u = N -> nrm2 t = N ->
  hs_cost N u t < eps ->
  (* some global phase p brings T within sqrt(2 N eps) of U in Frobenius norm;
     the squared distance is exactly 2 N cost *)
  exists p : C, fst p * fst p + snd p * snd p = 1
    /\ nrm2 (vsub u p t) = 2 * N * hs_cost N u t
    /\ nrm2 (vsub u p t) < 2 * N * eps
    /\ 0 <= hs_cost N u t.
Proof.
  intros N u t eps HN Hlen Hu Ht Hc. exists (phase_of (cdot t u)).
  pose proof (best_phase_distance u t Hlen) as Hd. pose proof (cdot_bound u t Hlen) as Hb.
  rewrite Hu, Ht in Hd, Hb. unfold hs_cost in *.
  assert (Hx : Cmod (cdot t u) / N * N = Cmod (cdot t u)) by (field; lra).
  split; [apply phase_of_unit|]. split; [rewrite Hd; nra|]. split; [rewrite Hd; nra|].
  assert (Cmod (cdot t u) / N <= 1); [|lra].
  apply (Rmult_le_reg_r N); [assumption|]. rewrite Hx. lra.
Qed.

(* UnitaryMatrix.get_distance_from = sqrt(1 - x^2) with x = |tr(T^dagger U)|/N in [0,1] *)
Theorem hs_cost_distance_bound : forall x eps, 0 <= x <= 1 -> 1 - x < eps ->
  sqrt (1 - x * x) < sqrt (2 * eps) /\ 1 - x * x < 2 * eps.
Proof.
  intros x eps Hx Hc. assert (H1 : 1 - x * x < 2 * eps) by nra. split; [|assumption].
  apply sqrt_lt_1_alt. split; [nra | assumption].
Qed.

(* ---- state target ------------------------------------------------------------------ *)
(* psi = U|0..0>, s = target state, both unit vectors; cost = 1 - |<s|psi>|^2 (infidelity) *)
Definition state_cost (psi s : list C) : R := 1 - Cmod (cdot s psi) * Cmod (cdot s psi).

Theorem state_cost_meaning : forall psi s eps,
  length psi = length s -> nrm2 psi = 1 -> nrm2 s = 1 ->
  state_cost psi s < eps ->
  1 - eps < Cmod (cdot s psi) * Cmod (cdot s psi)                   (* fidelity *)
  /\ exists p : C, fst p * fst p + snd p * snd p = 1 /\ nrm2 (vsub psi p s) < 2 * eps.
Proof.
  intros psi s eps Hlen Hp Hs Hc. unfold state_cost in Hc. split; [lra|].
  exists (phase_of (cdot s psi)). split; [apply phase_of_unit|].
  rewrite (best_phase_distance psi s Hlen), Hp, Hs.
  pose proof (cdot_bound psi s Hlen) as Hb. rewrite Hp, Hs in Hb.
  pose proof (Cmod_ge_0 (cdot s psi)) as H0. nra.
Qed.

(* ---- state system ------------------------------------------------------------------- *)
(* z_i = <w_i| U |v_i> for the k listed pairs (unit vectors, so |z_i| <= 1);
   cost = 1 - |sum z_i| / k *)
Fixpoint csum (zs : list C) : C := match zs with [] => RtoC 0 | z :: r => Cplus z (csum r) end.
Fixpoint rsum (xs : list R) : R := match xs with [] => 0 | x :: r => x + rsum r end.

Definition system_cost (zs : list C) : R := 1 - Cmod (csum zs) / INR (length zs).

Lemma Cmod_csum : forall zs, Cmod (csum zs) <= rsum (map Cmod zs).
Proof.
  induction zs as [|z r IH]; simpl; [rewrite Cmod_0; lra|].
  eapply Rle_trans; [apply Cmod_triangle|]. lra.
Qed.

Lemma rsum_bound : forall zs z, (forall y, In y zs -> Cmod y <= 1) -> In z zs ->
  rsum (map Cmod zs) <= Cmod z + (INR (length zs) - 1).
Proof.
  induction zs as [|y r IH]; intros z Hb Hin; [contradiction|].
  change (length (y :: r)) with (S (length r)). rewrite S_INR. simpl map. simpl rsum.
  assert (Hr : rsum (map Cmod r) <= INR (length r)).
  { clear IH Hin. induction r as [|a r IHr]; [simpl; lra|].
    change (length (a :: r)) with (S (length r)). rewrite S_INR. simpl.
    assert (Cmod a <= 1) by (apply Hb; right; left; reflexivity).
    assert (rsum (map Cmod r) <= INR (length r)); [|lra].
    apply IHr. intros w [Hw | Hw]; apply Hb; [left | right; right]; assumption. }
  destruct Hin as [-> | Hin].
  - lra.
  - assert (Cmod y <= 1) by (apply Hb; left; reflexivity).
    specialize (IH z (fun w Hw => Hb w (or_intror Hw)) Hin). lra.
Qed.

Theorem system_cost_meaning : forall zs eps,
  zs <> [] -> (forall z, In z zs -> Cmod z <= 1) ->
  system_cost zs < eps ->
  forall z, In z zs -> 1 - INR (length zs) * eps < Cmod z.
Proof.
  intros zs eps Hne Hb Hc z Hin. unfold system_cost in Hc.
  assert (Hk : 0 < INR (length zs)).
  { destruct zs; [contradiction|]. apply lt_0_INR. simpl. lia. }
  pose proof (Cmod_csum zs) as H1. pose proof (rsum_bound zs z Hb Hin) as H2.
  assert (Hx : Cmod (csum zs) / INR (length zs) * INR (length zs) = Cmod (csum zs)) by (field; lra).
  assert (H3 : (1 - eps) * INR (length zs) < Cmod (csum zs)).
  { rewrite <- Hx. apply Rmult_lt_compat_r; [assumption | lra]. }
  lra.
Qed.

(* each listed pair is then mapped with fidelity > 1 - 2 k eps (for k eps <= 1) *)
Corollary system_pair_fidelity : forall zs eps,
  zs <> [] -> (forall z, In z zs -> Cmod z <= 1) -> system_cost zs < eps -> INR (length zs) * eps <= 1 ->
  forall z, In z zs -> 1 - 2 * INR (length zs) * eps < Cmod z * Cmod z.
Proof.
  intros zs eps Hne Hb Hc Hk z Hin. pose proof (system_cost_meaning zs eps Hne Hb Hc z Hin) as H.
  pose proof (Cmod_ge_0 z). nra.
Qed.
