(* C10 (iii): theorems about the decision skeletons of pass/ScanSkel.v, for EVERY
   behaviour of the instantiate/cost oracles. *)
From Coq Require Import ZArith List Bool Arith Lia ZifyBool.
Import ListNotations.
From BQ Require Import pass.ScanSkel.

(* ---- pop removes exactly one operation and moves nothing else ------------------------- *)
Lemma remove_touching_split q c x r :
  remove_touching q c = Some (x, r) ->
  exists a b, c = a ++ x :: b /\ r = a ++ b /\ touchesq q x = true /\ (forall y, In y a -> touchesq q y = false).
Proof.
  revert x r. induction c as [|o c IH]; intros x r H; simpl in H; [discriminate|].
  destruct (touchesq q o) eqn:E.
  - inversion H; subst. exists [], r. simpl. repeat split; auto. intros y [].
  - destruct (remove_touching q c) as [[x' r']|] eqn:R; [|discriminate].
    inversion H; subst. destruct (IH x r' eq_refl) as (a & b & -> & -> & Ht & Ha).
    exists (o :: a), b. simpl. repeat split; auto. intros y [<-|Hy]; auto.
Qed.

Lemma pop_nth_split g i q x r :
  pop_nth g i q = Some (x, r) ->
  exists a b, all_ops g = a ++ x :: b /\ all_ops r = a ++ b /\ touchesq q x = true.
Proof.
  revert i x r. induction g as [|c g IH]; intros i x r H; simpl in H; [discriminate|].
  destruct i as [|i].
  - destruct (remove_touching q c) as [[x' r']|] eqn:R; [|discriminate].
    destruct (remove_touching_split _ _ _ _ R) as (a & b & -> & -> & Ht & _).
    assert (Hx : x' = x /\ all_ops r = (a ++ b) ++ all_ops g).
    { destruct (a ++ b) eqn:E; inversion H; subst; split; auto. }
    destruct Hx as [-> Hr]. exists a, (b ++ all_ops g). unfold all_ops in *. simpl.
    rewrite Hr. rewrite <- !app_assoc. simpl. auto.
  - destruct (pop_nth g i q) as [[x' r']|] eqn:R; [|discriminate]. inversion H; subst.
    destruct (IH _ _ _ R) as (a & b & Ha & Hb & Ht).
    exists (c ++ a), b. unfold all_ops in *. simpl. rewrite Ha, Hb. rewrite <- !app_assoc. auto.
Qed.

Lemma pop_split g c q x r :
  pop g c q = Some (x, r) ->
  exists a b, all_ops g = a ++ x :: b /\ all_ops r = a ++ b /\ touchesq q x = true.
Proof. unfold pop. destruct (norm_cycle g c); [apply pop_nth_split | discriminate]. Qed.

Lemma pop_num_ops g c q x r : pop g c q = Some (x, r) -> S (num_ops r) = num_ops g.
Proof.
  intros H. destruct (pop_split _ _ _ _ _ H) as (a & b & Ha & Hb & _).
  unfold num_ops. rewrite Ha, Hb, !app_length. simpl. lia.
Qed.

(* `sub a b`: a is obtained from b by deleting elements (order kept) *)
Inductive sub {A} : list A -> list A -> Prop :=
| sub_nil : sub [] []
| sub_skip x a b : sub a b -> sub a (x :: b)
| sub_keep x a b : sub a b -> sub (x :: a) (x :: b).

Lemma sub_refl {A} (l : list A) : sub l l.
Proof. induction l; [apply sub_nil | apply sub_keep; auto]. Qed.
Lemma sub_trans {A} (a b c : list A) : sub a b -> sub b c -> sub a c.
Proof. intros H1 H2. revert a H1. induction H2; intros a' H1.
  - exact H1.
  - apply sub_skip. auto.
  - inversion H1; subst; [apply sub_skip | apply sub_keep]; auto. Qed.
Lemma sub_app_del {A} (a b : list A) x : sub (a ++ b) (a ++ x :: b).
Proof. induction a; simpl; [apply sub_skip; apply sub_refl | apply sub_keep; auto]. Qed.
Lemma sub_length {A} (a b : list A) : sub a b -> length a <= length b.
Proof. induction 1; simpl; lia. Qed.
Lemma sub_In {A} (a b : list A) x : sub a b -> In x a -> In x b.
Proof. induction 1; simpl; intuition. Qed.

Lemma pop_sub g c q x r : pop g c q = Some (x, r) -> sub (all_ops r) (all_ops g).
Proof. intros H. destruct (pop_split _ _ _ _ _ H) as (a & b & -> & -> & _). apply sub_app_del. Qed.

Section Oracles.
Variable cost : nat -> grid -> Z.
Variable thr : Z.

(* the accepted-or-original invariant *)
Definition accepted (orig : grid) (s : st) : Prop :=
  (s_grid s = orig /\ s_ver s = 0) \/ (1 <= s_ver s <= s_calls s /\ (cost (s_ver s) (s_grid s) < thr)%Z).
Definition shrunk (orig : grid) (s : st) : Prop := sub (all_ops (s_grid s)) (all_ops orig).

(* ---- scan ------------------------------------------------------------------------------ *)
Lemma scan_step_inv left filt orig s co s' :
  scan_step cost thr left filt orig s co = Ok s' ->
  accepted orig s -> shrunk orig s -> s_ver s <= s_calls s ->
  accepted orig s' /\ shrunk orig s' /\ s_ver s' <= s_calls s' /\ s_calls s <= s_calls s'
  /\ num_ops (s_grid s') <= num_ops (s_grid s).
Proof.
  unfold scan_step. destruct co as [c o]. destruct (negb (filt o)).
  - intros H; inversion H; subst. intuition.
  - destruct (pop (s_grid s) _ (first_qudit o)) as [[x cand]|] eqn:P; [|discriminate].
    destruct (cost (S (s_calls s)) cand <? thr)%Z eqn:E; intros H; inversion H; subst; simpl; intros A B V.
    + repeat split; auto; try lia.
      * right. simpl. split; [lia|]. apply Z.ltb_lt. exact E.
      * unfold shrunk in *. simpl. eapply sub_trans; [eapply pop_sub; eauto | exact B].
      * pose proof (pop_num_ops _ _ _ _ _ P). lia.
    + repeat split; auto; try lia.
      destruct A as [[A1 A2]|[A1 A2]]; [left; auto | right; simpl; split; [lia|exact A2]].
Qed.

Lemma scan_loop_inv left filt orig its : forall s s',
  scan_loop cost thr left filt orig its s = Ok s' ->
  accepted orig s -> shrunk orig s -> s_ver s <= s_calls s ->
  accepted orig s' /\ shrunk orig s' /\ num_ops (s_grid s') <= num_ops (s_grid s).
Proof.
  induction its as [|co its IH]; intros s s' H A B V; simpl in H.
  - inversion H; subst. auto.
  - destruct (scan_step cost thr left filt orig s co) as [s1|] eqn:E; [|discriminate].
    destruct (scan_step_inv _ _ _ _ _ _ E A B V) as (A1 & B1 & V1 & _ & N1).
    destruct (IH _ _ H A1 B1 V1) as (A2 & B2 & N2). repeat split; auto. lia.
Qed.

(* C10_scan_invariant: whatever instantiate and the cost function do, the circuit the
   pass commits is the input itself (original parameters) or a candidate whose cost
   against the ORIGINAL target was evaluated below the success threshold *)
Theorem scan_invariant left filt orig its s :
  scan cost thr left filt orig its = Ok s ->
  (s_grid s = orig /\ s_ver s = 0) \/ (1 <= s_ver s /\ (cost (s_ver s) (s_grid s) < thr)%Z).
Proof.
  intros H. unfold scan in H.
  destruct (scan_loop_inv _ _ _ _ _ _ H) as (A & _ & _).
  - left. auto.
  - apply sub_refl.
  - simpl. lia.
  - destruct A as [A|[[A1 _] A2]]; auto.
Qed.

(* C10_removal_monotone (scan): only removals -- the result's operations are a
   subsequence of the input's; in particular the gate count never increases *)
Theorem scan_monotone left filt orig its s :
  scan cost thr left filt orig its = Ok s ->
  sub (all_ops (s_grid s)) (all_ops orig) /\ num_ops (s_grid s) <= num_ops orig.
Proof.
  intros H. unfold scan in H.
  destruct (scan_loop_inv _ _ _ _ _ _ H) as (_ & B & N); simpl; auto; try lia.
  - left. auto.
  - apply sub_refl.
Qed.

(* an operation rejected by collection_filter is never removed *)
Lemma scan_step_filter left filt orig s co s' :
  scan_step cost thr left filt orig s co = Ok s' -> filt (snd co) = false -> s' = s.
Proof. unfold scan_step. destruct co as [c o]. simpl. intros H F. rewrite F in H. simpl in H. inversion H. reflexivity. Qed.

(* ---- tree scan ---------------------------------------------------------------------------- *)
Definition subof (base g : grid) : Prop := sub (all_ops g) (all_ops base).

Lemma tree_expand_sub comp nc base co : forall all r,
  tree_expand comp nc all co = Ok r -> Forall (subof base) all -> Forall (subof base) r.
Proof.
  induction all as [|circ rest IH]; intros r H F; simpl in H.
  - inversion H. constructor.
  - destruct co as [c o].
    destruct (pop circ _ (first_qudit o)) as [[x work]|] eqn:P; [|discriminate].
    destruct (tree_expand comp nc rest (c, o)) as [r'|] eqn:E; [|discriminate].
    inversion H; subst. inversion F; subst.
    constructor; [|constructor; auto].
    unfold subof in *. eapply sub_trans; [eapply pop_sub; eauto | assumption].
Qed.

Lemma tree_circs_aux_sub comp nc base chunk : forall all r,
  tree_circs_aux comp nc all chunk = Ok r -> Forall (subof base) all -> Forall (subof base) r.
Proof.
  induction chunk as [|co chunk IH]; intros all r H F; simpl in H.
  - inversion H; subst. exact F.
  - destruct (tree_expand comp nc all co) as [a|] eqn:E; [|discriminate].
    eapply IH; eauto. eapply tree_expand_sub; eauto.
Qed.

Lemma insert_by_In x y l : In x (insert_by y l) -> x = y \/ In x l.
Proof.
  induction l as [|z l IH]; simpl.
  - intros [H|[]]. auto.
  - destruct (Nat.leb (num_ops y) (num_ops z)); simpl.
    + intros [H|[H|H]]; auto.
    + intros [H|H]; auto. destruct (IH H); auto.
Qed.
Lemma sort_by_ops_In x l : In x (sort_by_ops l) -> In x l.
Proof.
  induction l as [|y l IH]; simpl; auto. intros H.
  destruct (insert_by_In _ _ _ H); auto.
Qed.
Lemma removelast_In {A} (x : A) l : In x (removelast l) -> In x l.
Proof.
  induction l as [|y l IH]; simpl; auto. destruct l; [intros []|].
  intros [H|H]; auto.
Qed.

Lemma tree_circs_sub comp nc base chunk cands :
  tree_circs comp nc base chunk = Ok cands -> forall g, In g cands -> subof base g.
Proof.
  unfold tree_circs. destruct (tree_circs_aux comp nc [base] chunk) as [a|] eqn:E; [|discriminate].
  intros H g Hg. inversion H; subst.
  apply removelast_In, sort_by_ops_In in Hg.
  assert (F : Forall (subof base) a).
  { eapply tree_circs_aux_sub; eauto. constructor; [apply sub_refl|constructor]. }
  rewrite Forall_forall in F. auto.
Qed.

Lemma first_success_spec cands : forall k c v,
  first_success cost thr k cands = Some (c, v) ->
  In c cands /\ (cost v c < thr)%Z /\ k < v <= k + length cands.
Proof.
  induction cands as [|x cs IH]; intros k c v H; simpl in H; [discriminate|].
  destruct (cost (S k) x <? thr)%Z eqn:E.
  - inversion H; subst. simpl. split; [auto|]. split; [apply Z.ltb_lt; exact E | lia].
  - destruct (IH _ _ _ H) as (I & C & L). simpl. split; [auto|]. split; [exact C | lia].
Qed.

Lemma tree_loop_inv comp nc orig chs : forall s s',
  tree_loop cost thr comp nc chs s = Ok s' ->
  accepted orig s -> shrunk orig s -> s_ver s <= s_calls s ->
  accepted orig s' /\ shrunk orig s'.
Proof.
  induction chs as [|ch chs IH]; intros s s' H A B V; simpl in H.
  - inversion H; subst. auto.
  - destruct (tree_circs comp nc (s_grid s) ch) as [cands|] eqn:T; [|discriminate].
    destruct (first_success cost thr (s_calls s) cands) as [[c v]|] eqn:F.
    + destruct (first_success_spec _ _ _ _ F) as (I & C & L).
      apply (IH _ _ H); simpl; try lia.
      * right. simpl. split; [lia|exact C].
      * unfold shrunk in *. simpl. eapply sub_trans; [|exact B]. eapply tree_circs_sub; eauto.
    + apply (IH _ _ H); simpl; auto; try lia.
      destruct A as [[A1 A2]|[A1 A2]]; [left; auto | right; simpl; split; [lia|exact A2]].
Qed.

Theorem treescan_invariant comp d orig its s :
  treescan cost thr comp d orig its = Ok s ->
  ((s_grid s = orig /\ s_ver s = 0) \/ (1 <= s_ver s /\ (cost (s_ver s) (s_grid s) < thr)%Z))
  /\ sub (all_ops (s_grid s)) (all_ops orig) /\ num_ops (s_grid s) <= num_ops orig.
Proof.
  intros H. unfold treescan in H.
  destruct (tree_loop_inv _ _ orig _ _ _ H) as (A & B).
  - left. auto.
  - apply sub_refl.
  - simpl. lia.
  - split; [|split; [exact B | apply sub_length; exact B]].
    destruct A as [A|[[A1 _] A2]]; auto.
Qed.

(* ---- exhaustive ------------------------------------------------------------------------------ *)
Variable dedup : nat -> list grid -> list grid.
Variable score : grid -> Z.
Hypothesis dedup_incl : forall n l x, In x (dedup n l) -> In x l.

Lemma removals_spec g r : In r (removals g) -> subof g r /\ S (num_ops r) = num_ops g.
Proof.
  unfold removals. intros H. apply in_flat_map in H as (co & _ & H).
  destruct (pop g (fst co) (first_qudit (snd co))) as [[x r']|] eqn:P; [|destruct H].
  destruct H as [<-|[]]. split; [eapply pop_sub; eauto | eapply pop_num_ops; eauto].
Qed.

Definition best_ok (orig : grid) (b : option (grid * nat * Z)) : Prop :=
  match b with
  | None => True
  | Some (g, v, _) => 1 <= v /\ (cost v g < thr)%Z /\ subof orig g /\ num_ops g < num_ops orig
  end.

Lemma exh_eval_spec orig n cands : forall k best fr b,
  exh_eval cost thr score k cands best = (fr, b) ->
  (forall g, In g cands -> subof orig g /\ num_ops g = n) -> n < num_ops orig ->
  best_ok orig best ->
  best_ok orig b /\ (forall g v, In (g, v) fr -> subof orig g /\ num_ops g = n).
Proof.
  induction cands as [|c cs IH]; intros k best fr b H Hc Hn Hb; simpl in H.
  - inversion H; subst. split; [auto | intros g v []].
  - destruct (cost (S k) c <? thr)%Z eqn:E.
    + destruct (exh_eval cost thr score (S k) cs _) as [fr' b'] eqn:R. inversion H; subst.
      destruct (Hc c (or_introl eq_refl)) as (Sc & Nc).
      assert (Hlt : (cost (S k) c < thr)%Z) by (apply Z.ltb_lt; exact E).
      eapply IH in R; [| intros g Hg; apply Hc; right; exact Hg | exact Hn |].
      * destruct R as (Rb & Rf). split; auto. intros g v [Hg|Hg]; [inversion Hg; subst; auto | eauto].
      * destruct best as [[[bg bv] bs]|]; simpl.
        -- destruct (bs <? score c)%Z; simpl; auto. repeat split; auto; lia.
        -- repeat split; auto; lia.
    + eapply IH in H; eauto. intros g Hg. apply Hc. right. exact Hg.
Qed.

Lemma exh_loop_spec orig : forall fuel round k frontier best r,
  exh_loop cost thr dedup score fuel round k frontier best = Some r ->
  (forall g v, In (g, v) frontier -> subof orig g /\ num_ops g + round = num_ops orig) ->
  best_ok orig best -> best_ok orig r.
Proof.
  induction fuel as [|f IH]; intros round k frontier best r H Hf Hb; simpl in H.
  - destruct frontier; [inversion H; subst; exact Hb | discriminate].
  - destruct frontier as [|fv frontier]; [inversion H; subst; exact Hb|].
    remember (fv :: frontier) as fr0.
    destruct (exh_eval cost thr score k (dedup round (flat_map (fun cv => removals (fst cv)) fr0)) best) as [fr b] eqn:E.
    destruct (num_ops orig - round) as [|m] eqn:M.
    + (* no operations left: no candidates *)
      assert (Hnil : dedup round (flat_map (fun cv => removals (fst cv)) fr0) = []).
      { destruct (dedup round _) as [|x l] eqn:D; auto. exfalso.
        assert (Hx : In x (dedup round (flat_map (fun cv => removals (fst cv)) fr0))) by (rewrite D; left; reflexivity).
        apply dedup_incl in Hx. apply in_flat_map in Hx as ([g v] & Hgv & Hr).
        destruct (Hf g v Hgv) as (_ & Hn). apply removals_spec in Hr as (_ & Hr). simpl in Hr. lia. }
      rewrite Hnil in E. simpl in E. inversion E; subst. rewrite Hnil in H. simpl in H.
      destruct f; simpl in H; inversion H; subst; exact Hb.
    + eapply exh_eval_spec with (orig := orig) (n := m) in E; auto; try lia.
      * destruct E as (Eb & Ef). eapply IH in H; eauto.
        intros g v Hg. destruct (Ef g v Hg) as (S1 & N1). split; auto. lia.
      * intros g Hg. apply dedup_incl in Hg. apply in_flat_map in Hg as ([g0 v0] & Hgv & Hr).
        destruct (Hf g0 v0 Hgv) as (S0 & N0). apply removals_spec in Hr as (Sr & Nr). simpl in *.
        split; [unfold subof in *; eapply sub_trans; eauto | lia].
Qed.

(* the frontier loop terminates within num_ops(orig)+1 rounds: fuel is never exhausted *)
Lemma exh_loop_fuel orig : forall fuel round k frontier best,
  (forall g v, In (g, v) frontier -> num_ops g + round = num_ops orig) ->
  num_ops orig < fuel + round ->
  exh_loop cost thr dedup score fuel round k frontier best <> None.
Proof.
  induction fuel as [|f IH]; intros round k frontier best Hf Hlt; simpl.
  - destruct frontier as [|[g v] fr]; [discriminate|]. specialize (Hf g v (or_introl eq_refl)). lia.
  - destruct frontier as [|fv frontier]; [discriminate|].
    remember (fv :: frontier) as fr0.
    destruct (exh_eval cost thr score k (dedup round (flat_map (fun cv => removals (fst cv)) fr0)) best) as [fr b] eqn:E.
    apply IH; [|lia].
    intros g v Hg.
    assert (Hin : forall cands k best fr b, exh_eval cost thr score k cands best = (fr, b) -> forall g v, In (g, v) fr -> In g cands).
    { clear. induction cands as [|c cs IHc]; intros k best fr b H g v Hg; simpl in H.
      - inversion H; subst. destruct Hg.
      - destruct (cost (S k) c <? thr)%Z.
        + destruct (exh_eval cost thr score (S k) cs _) as [fr' b'] eqn:R. inversion H; subst.
          destruct Hg as [Hg|Hg]; [inversion Hg; left; reflexivity | right; eapply IHc; eauto].
        + right. eapply IHc; eauto. }
    apply (Hin _ _ _ _ _ E) in Hg. apply dedup_incl in Hg. apply in_flat_map in Hg as ([g0 v0] & Hgv & Hr).
    specialize (Hf g0 v0 Hgv). apply removals_spec in Hr as (_ & Nr). simpl in *. lia.
Qed.

Theorem exhaustive_total orig : exhaustive cost thr dedup score orig <> None.
Proof.
  unfold exhaustive.
  destruct (exh_loop cost thr dedup score (S (num_ops orig)) 0 0 [(orig, 0)] None) as [[[[g v] sc]|]|] eqn:E; try discriminate.
  exfalso.
  assert (H1 : forall g v, In (g, v) [(orig, 0)] -> num_ops g + 0 = num_ops orig).
  { intros g v [H|[]]. inversion H; subst. lia. }
  assert (H2 : num_ops orig < S (num_ops orig) + 0) by lia.
  exact (exh_loop_fuel orig _ _ 0 _ None H1 H2 E).
Qed.

(* the committed circuit is the input, or an accepted candidate with strictly fewer gates *)
Theorem exhaustive_invariant orig g v :
  exhaustive cost thr dedup score orig = Some (g, v) ->
  (g = orig /\ v = 0) \/
  (1 <= v /\ (cost v g < thr)%Z /\ sub (all_ops g) (all_ops orig) /\ num_ops g < num_ops orig).
Proof.
  unfold exhaustive.
  destruct (exh_loop cost thr dedup score (S (num_ops orig)) 0 0 [(orig, 0)] None) as [[[[g' v'] sc]|]|] eqn:E; try discriminate.
  - intros H. inversion H; subst. right.
    eapply exh_loop_spec with (orig := orig) in E; simpl; auto.
    intros g0 v0 [H0|[]]. inversion H0; subst. split; [apply sub_refl | lia].
  - intros H. inversion H; subst. left. auto.
Qed.
End Oracles.

(* ---- rebase ------------------------------------------------------------------------------------- *)
Section RebaseThm.
Variable C T : Type.
Variable cost : nat -> C -> Z.
Variable thr : Z.
Variable count : nat -> C -> nat.
Variable group : C -> C.
Variable replace : nat -> C -> T -> C.
Variable unfold : C -> C.
Variable templates : list (T * nat).
Variable overdrive : T * nat.
Variable max_depth : nat.
Variable max_retries : Z.
(* what the structural oracles may do to the source-gate counts: fold/unfold keep them,
   a template contains no source gate *)
Hypothesis count_group : forall j c, count j (group c) = count j c.
Hypothesis count_unfold : forall j c, count j (unfold c) = count j c.
Hypothesis count_replace : forall j k c t, count j (replace k c t) <= count j c.
(* gate kinds present in a circuit / template *)
Variable kinds : C -> nat -> Prop.
Variable tkinds : T -> nat -> Prop.
Hypothesis kinds_fu : forall c n, kinds (unfold (group c)) n -> kinds c n.
Hypothesis kinds_replace : forall k c t n, kinds (replace k (group c) t) n -> kinds c n \/ tkinds t n.

Notation pick := (pick C T cost thr replace).
Notation rebase_iter := (rebase_iter C T cost thr count group replace unfold templates overdrive max_depth max_retries).
Notation rebase_gate := (rebase_gate C T cost thr count group replace unfold templates overdrive max_depth max_retries).
Notation rebase_all := (rebase_all C T cost thr count group replace unfold templates overdrive max_depth max_retries).

(* fold/unfold round trips *)
Inductive FU (x : C) : C -> Prop :=
| fu_refl : FU x x
| fu_step y : FU x y -> FU x (unfold (group y)).

Lemma pick_sound c ts : forall k best bc cand v,
  pick k c ts best bc = Some (cand, v) ->
  (best = Some (cand, v)) \/
  (exists t n, In (t, n) ts /\ cand = replace v c t /\ (cost v cand < thr)%Z /\ k < v <= k + length ts /\ n < bc).
Proof.
  induction ts as [|[t n] ts IH]; intros k best bc cand v H; simpl in H.
  - left. exact H.
  - destruct ((cost (S k) (replace (S k) c t) <? thr)%Z && Nat.ltb n bc) eqn:E.
    + apply andb_true_iff in E as [E1 E2]. apply Z.ltb_lt in E1. apply Nat.ltb_lt in E2.
      destruct (IH _ _ _ _ _ H) as [Hb|(t' & n' & I & Hc & Hl & Hk & Hn)].
      * inversion Hb; subst. right. exists t, n. simpl. repeat split; auto; lia.
      * right. exists t', n'. simpl. repeat split; auto; lia.
    + destruct (IH _ _ _ _ _ H) as [Hb|(t' & n' & I & Hc & Hl & Hk & Hn)]; [left; exact Hb|].
      right. exists t', n'. simpl. repeat split; auto; lia.
Qed.

Lemma pick_some_stays c ts : forall k b bc, pick k c ts (Some b) bc <> None.
Proof.
  induction ts as [|[t n] ts IH]; intros k b bc; simpl; [discriminate|].
  destruct ((cost (S k) (replace (S k) c t) <? thr)%Z && Nat.ltb n bc); apply IH.
Qed.

(* `None` is returned only if every candidate (with count below the bound) failed *)
Lemma pick_none c ts : forall k bc,
  pick k c ts None bc = None ->
  forall i t n, nth_error ts i = Some (t, n) -> n < bc ->
  (thr <= cost (S (k + i)) (replace (S (k + i)) c t))%Z.
Proof.
  induction ts as [|[t0 n0] ts IH]; intros k bc H i t n Hi Hn; [destruct i; discriminate|].
  simpl in H.
  destruct ((cost (S k) (replace (S k) c t0) <? thr)%Z && Nat.ltb n0 bc) eqn:E.
  - exfalso. exact (pick_some_stays _ _ _ _ _ H).
  - destruct i as [|i]; simpl in Hi.
    + inversion Hi; subst. apply andb_false_iff in E as [E|E].
      * apply Z.ltb_ge in E. rewrite Nat.add_0_r. exact E.
      * apply Nat.ltb_ge in E. lia.
    + specialize (IH _ _ H i t n Hi Hn). replace (S (k + S i)) with (S (S k + i)) by lia. exact IH.
Qed.

Definition rinv (orig : C) (s : rst C) : Prop :=
  (r_changed C s = false /\ FU orig (r_c C s)) \/
  (exists k c, 1 <= k /\ (cost k c < thr)%Z /\ FU c (r_c C s)).

Lemma rebase_iter_inv orig j s : rinv orig s -> rinv orig (rebase_iter j s).
Proof.
  intros I. unfold ScanSkel.rebase_iter.
  destruct (Nat.eqb (r_prev C s) (count j (r_c C s))); simpl;
  match goal with |- context [pick ?k ?g ?ts None ?bc] => destruct (pick k g ts None bc) as [[c' v]|] eqn:P end; simpl.
  all: try (destruct (pick_sound _ _ _ _ _ _ _ P) as [Hb|(t & n & _ & Hc & Hl & Hk & _)]; [discriminate|];
            right; exists v, c'; repeat split; [lia | exact Hl | apply fu_refl]).
  all: destruct I as [[I1 I2]|(k & c & K & L & F)]; [left; split; [exact I1 | apply fu_step; exact I2] |
        right; exists k, c; repeat split; auto; apply fu_step; exact F].
Qed.

Lemma rebase_iter_count j j' s : count j' (r_c C (rebase_iter j s)) <= count j' (r_c C s).
Proof.
  unfold ScanSkel.rebase_iter.
  destruct (Nat.eqb (r_prev C s) (count j (r_c C s))); simpl;
  match goal with |- context [pick ?k ?g ?ts None ?bc] => destruct (pick k g ts None bc) as [[c' v]|] eqn:P end; simpl.
  all: try (destruct (pick_sound _ _ _ _ _ _ _ P) as [Hb|(t & n & _ & Hc & _)]; [discriminate|];
            subst c'; etransitivity; [apply count_replace | rewrite count_group; lia]).
  all: rewrite count_unfold, count_group; lia.
Qed.

Lemma rebase_iter_kinds orig j s :
  (forall n, kinds (r_c C s) n -> kinds orig n \/ exists t m, In (t, m) (templates ++ [overdrive]) /\ tkinds t n) ->
  (forall n, kinds (r_c C (rebase_iter j s)) n -> kinds orig n \/ exists t m, In (t, m) (templates ++ [overdrive]) /\ tkinds t n).
Proof.
  intros H n. unfold ScanSkel.rebase_iter.
  destruct (Nat.eqb (r_prev C s) (count j (r_c C s))); simpl;
  match goal with |- context [pick ?k ?g ?ts None ?bc] => destruct (pick k g ts None bc) as [[c' v]|] eqn:P end; simpl.
  all: try (destruct (pick_sound _ _ _ _ _ _ _ P) as [Hb|(t & m & I & Hc & _)]; [discriminate|];
            subst c'; intros K; apply kinds_replace in K as [K|K]; [apply H; exact K|];
            right; exists t, m; split; [|exact K];
            match type of I with In _ (if ?b then _ else _) => destruct b end; [exact I | apply in_or_app; left; exact I]).
  all: intros K; apply kinds_fu in K; apply H; exact K.
Qed.

Lemma rebase_gate_spec (P : rst C -> Prop) j :
  (forall s, P s -> P (rebase_iter j s)) ->
  forall fuel s s', rebase_gate fuel j s = Some s' -> P s -> P s' /\ count j (r_c C s') = 0.
Proof.
  intros HP. induction fuel as [|f IH]; intros s s' H Ps; simpl in H.
  - destruct (Nat.eqb (count j (r_c C s)) 0) eqn:E; [|discriminate]. inversion H; subst. split; auto. apply Nat.eqb_eq; exact E.
  - destruct (Nat.eqb (count j (r_c C s)) 0) eqn:E.
    + inversion H; subst. split; auto. apply Nat.eqb_eq; exact E.
    + eapply IH; eauto.
Qed.

(* C10_rebase_post: when the pass returns, no source gate is left, every gate kind present
   was in the input or comes from a template (new gates + the single-qudit gate), and the
   committed circuit is the input up to fold/unfold or an accepted candidate (cost below
   the threshold against the original target) up to fold/unfold *)
Theorem rebase_post fuel js orig s' :
  rebase_all fuel js (mkR C orig 0 0 0 false) = Some s' ->
  (forall j, In j js -> count j (r_c C s') = 0)
  /\ rinv orig s'
  /\ (forall n, kinds (r_c C s') n -> kinds orig n \/ exists t m, In (t, m) (templates ++ [overdrive]) /\ tkinds t n).
Proof.
  set (P := fun s : rst C => rinv orig s /\
      (forall n, kinds (r_c C s) n -> kinds orig n \/ exists t m, In (t, m) (templates ++ [overdrive]) /\ tkinds t n)).
  assert (gen : forall l s s1, rebase_all fuel l s = Some s1 -> P s ->
            P s1 /\ (forall j, In j l -> count j (r_c C s1) = 0) /\ (forall j, count j (r_c C s1) <= count j (r_c C s))).
  { clear s'. induction l as [|j l IH]; intros s s1 H Ps; simpl in H.
    - inversion H; subst. split; [exact Ps | split; [intros j [] | intros j; lia]].
    - destruct (rebase_gate fuel j _) as [s2|] eqn:G; [|discriminate].
      set (Q := fun x : rst C => P x /\ forall j', count j' (r_c C x) <= count j' (r_c C s)).
      destruct (rebase_gate_spec Q j) with (fuel := fuel) (s := mkR C (r_c C s) (r_k C s) (count j (r_c C s)) 0 (r_changed C s)) (s' := s2) as ((P2 & M2) & Z2); auto.
      + intros x ((I & K) & M). split; [split; [apply rebase_iter_inv; exact I | apply rebase_iter_kinds; exact K]|].
        intros j'. etransitivity; [apply rebase_iter_count | apply M].
      + split; [|simpl; auto]. destruct Ps as (I & K). split; [|exact K].
        destruct I as [[I1 I2]|I]; [left; simpl; auto | right; exact I].
      + destruct (IH _ _ H P2) as (P3 & Z3 & M3). repeat split; auto.
        * apply P3. * apply P3.
        * intros j' [<-|Hj]; [|apply Z3; exact Hj]. specialize (M3 j). lia.
        * intros j'. etransitivity; [apply M3 | apply M2]. }
  intros H. destruct (gen _ _ _ H) as ((I & K) & Zr & _).
  - split; [left; simpl; split; [reflexivity | apply fu_refl] | auto].
  - auto.
Qed.
End RebaseThm.

(* ---- substitute --------------------------------------------------------------------------------- *)
Section SubstThm.
Variable C : Type.
Variable cost : nat -> C -> Z.
Variable thr : Z.
Variable subst : nat -> C -> nat -> nat -> C.

Lemma try_locs_spec c p locs : forall k c' k',
  try_locs C cost thr subst k c p locs = (Some c', k') -> 1 <= k' /\ (cost k' c' < thr)%Z.
Proof.
  induction locs as [|l ls IH]; intros k c' k' H; simpl in H; [discriminate|].
  destruct (cost (S k) (subst (S k) c p l) <? thr)%Z eqn:E.
  - inversion H; subst. split; [lia | apply Z.ltb_lt; exact E].
  - eapply IH; eauto.
Qed.

Theorem subst_invariant orig points : forall k c c' k',
  subst_loop C cost thr subst k c points = (c', k') ->
  (c = orig \/ exists v, 1 <= v /\ (cost v c < thr)%Z) ->
  (c' = orig \/ exists v, 1 <= v /\ (cost v c' < thr)%Z).
Proof.
  induction points as [|[p locs] ps IH]; intros k c c' k' H I; simpl in H.
  - inversion H; subst. exact I.
  - destruct (try_locs C cost thr subst k c p locs) as [[c1|] k1] eqn:T.
    + apply try_locs_spec in T. eapply IH; eauto.
    + eapply IH; eauto.
Qed.
End SubstThm.

(* ---- iterative scan: rounds compose, all against the same original target ---------------------- *)
Section IterThm.
Variable cost : nat -> grid -> Z.
Variable thr : Z.

Lemma scan_round_inv orig left filt g ver offs g' ver' offs' :
  scan_round cost thr left filt g ver offs = Ok (g', ver', offs') ->
  ((g = orig /\ ver = 0) \/ (1 <= ver /\ (cost ver g < thr)%Z)) -> sub (all_ops g) (all_ops orig) ->
  ((g' = orig /\ ver' = 0) \/ (1 <= ver' /\ (cost ver' g' < thr)%Z)) /\ sub (all_ops g') (all_ops orig)
  /\ num_ops g' <= num_ops g /\ (num_ops g' = num_ops g -> g' = g /\ ver' = ver).
Proof.
  unfold scan_round.
  destruct (scan (fun k => cost (offs + k)) thr left filt g _) as [s|] eqn:E; [|discriminate].
  intros H A B. inversion H; subst. clear H.
  pose proof (scan_invariant _ _ _ _ _ _ _ E) as I.
  destruct (scan_monotone _ _ _ _ _ _ _ E) as (M1 & M2).
  split; [|split; [eapply sub_trans; eauto | split; [exact M2|]]].
  - destruct I as [[I1 I2]|[I1 I2]].
    + rewrite I1, I2. simpl. exact A.
    + right. destruct (Nat.eqb (s_ver s) 0) eqn:Z0; [apply Nat.eqb_eq in Z0; lia|]. split; [lia | exact I2].
  - intros Hn. destruct I as [[I1 I2]|[I1 I2]].
    + rewrite I1, I2. simpl. auto.
    + exfalso.
      (* an accepted removal strictly shrinks the circuit: ver >= 1 means a pop was committed *)
      clear A B. unfold scan in E.
      assert (G : forall its s0 s1, scan_loop (fun k => cost (offs + k)) thr left filt g its s0 = Ok s1 ->
                  s_ver s0 <= s_calls s0 ->
                  (s_ver s1 = s_ver s0 /\ s_grid s1 = s_grid s0) \/ (s_calls s0 < s_ver s1 /\ num_ops (s_grid s1) < num_ops (s_grid s0))).
      { clear. induction its as [|co its IH]; intros s0 s1 H V; simpl in H.
        - inversion H; subst. left. auto.
        - destruct (scan_step _ thr left filt g s0 co) as [s2|] eqn:St; [|discriminate].
          assert (S2 : (s2 = s0) \/ (s_calls s2 = S (s_calls s0) /\
                        ((s_ver s2 = s_ver s0 /\ s_grid s2 = s_grid s0) \/ (s_ver s2 = S (s_calls s0) /\ S (num_ops (s_grid s2)) = num_ops (s_grid s0))))).
          { unfold scan_step in St. destruct co as [c o]. destruct (negb (filt o)); [inversion St; auto|].
            destruct (pop (s_grid s0) _ (first_qudit o)) as [[x cand]|] eqn:P; [|discriminate].
            destruct (_ <? thr)%Z; inversion St; subst; simpl; right; split; auto.
            right. split; auto. eapply pop_num_ops; eauto. }
          destruct S2 as [->|(K2 & [(V2 & G2)|(V2 & N2)])].
          + apply IH; auto.
          + destruct (IH _ _ H) as [(a & b)|(a & b)]; [lia | left; split; congruence | right; rewrite <- G2; split; [lia|exact b]].
          + destruct (IH _ _ H) as [(a & b)|(a & b)]; [lia | right; rewrite a, b; split; lia | right; split; lia]. }
      destruct (G _ _ _ E) as [(a & b)|(a & b)]; simpl in *; try lia.
Qed.

(* C10 iterative: whatever the oracles do, the loop ends with the input or an accepted
   circuit, having only removed operations *)
Theorem iter_scan_invariant orig left filt : forall fuel g ver offs g' ver',
  iter_scan cost thr fuel left filt g ver offs = Some (Ok (g', ver')) ->
  ((g = orig /\ ver = 0) \/ (1 <= ver /\ (cost ver g < thr)%Z)) -> sub (all_ops g) (all_ops orig) ->
  ((g' = orig /\ ver' = 0) \/ (1 <= ver' /\ (cost ver' g' < thr)%Z)) /\ sub (all_ops g') (all_ops orig).
Proof.
  induction fuel as [|f IH]; intros g ver offs g' ver' H A B; simpl in H; [discriminate|].
  destruct (scan_round cost thr left filt g ver offs) as [[[g1 v1] o1]|] eqn:R; [|discriminate].
  destruct (scan_round_inv orig _ _ _ _ _ _ _ _ R A B) as (A1 & B1 & _ & _).
  destruct (Nat.eqb (num_ops g1) (num_ops g)).
  - inversion H; subst. auto.
  - eapply IH; eauto.
Qed.

Lemma scan_round_monotone left filt g ver offs g' ver' offs' :
  scan_round cost thr left filt g ver offs = Ok (g', ver', offs') -> num_ops g' <= num_ops g.
Proof.
  unfold scan_round.
  destruct (scan (fun k => cost (offs + k)) thr left filt g _) as [s|] eqn:E; [|discriminate].
  intros H. inversion H; subst. apply (scan_monotone _ _ _ _ _ _ _ E).
Qed.

(* num_ops(g)+1 rounds always suffice *)
Theorem iter_scan_total left filt : forall fuel g ver offs,
  num_ops g < fuel -> iter_scan cost thr fuel left filt g ver offs <> None.
Proof.
  induction fuel as [|f IH]; intros g ver offs Hf; [lia|]. simpl.
  destruct (scan_round cost thr left filt g ver offs) as [[[g1 v1] o1]|] eqn:R; [|discriminate].
  destruct (Nat.eqb (num_ops g1) (num_ops g)) eqn:E; [discriminate|].
  apply IH. apply Nat.eqb_neq in E. pose proof (scan_round_monotone _ _ _ _ _ _ _ _ R). lia.
Qed.
End IterThm.
