(* C10 (ii): small list-level models of structural / utility passes (bqskit/passes/util,
   partitioning/single.py).  Definitions only; proofs in UtilThm.v.

   A circuit in program order is a list of operations; an operation is a leaf gate
   (id, absolute location) or a block (CircuitGate) with a location and a body whose
   locations are relative to the block (inner qudit j = j-th qudit of the block).

   PARAMETERS.  A leaf id stands for (gate, parameter values).  For a leaf inside a block the
   parameter values are the slice of the parameters carried by the block OPERATION in the
   outer circuit (Operation.params), NOT the ones stored in the CircuitGate's template
   circuit: Circuit.unfold instantiates `gate._circuit.copy()` with `op.params`, and
   set_params / instantiate / freeze_param only ever update Operation.params.  The body of a
   `Blk` is therefore a field of the operation; two operations that share one CircuitGate
   object are two different `Blk` values.  The correspondence run builds the model tree from
   the real circuit accordingly (template instantiated with the operation's parameters),
   on inputs whose blocks were re-parameterised after being built and on shared CircuitGates. *)
From Coq Require Import List Arith Bool.
Import ListNotations.

Inductive bop :=
| Leaf (id : nat) (loc : list nat)
| Blk (loc : list nat) (body : list bop).

Definition leaf := (nat * list nat)%type.
Definition reloc (outer loc : list nat) : list nat := map (fun j => nth j outer O) loc.

(* ---- UnfoldPass: circuit.unfold_all() ------------------------------------------------------- *)
Fixpoint flat (outer : list nat) (o : bop) : list leaf :=
  match o with
  | Leaf id loc => [(id, reloc outer loc)]
  | Blk loc body =>
    (fix go (l : list bop) : list leaf :=
       match l with [] => [] | x :: l' => flat (reloc outer loc) x ++ go l' end) body
  end.
Definition flat_list (outer : list nat) (l : list bop) : list leaf := flat_map (flat outer) l.
(* top level: locations are absolute *)
Definition flat_top (o : bop) : list leaf :=
  match o with
  | Leaf id loc => [(id, loc)]
  | Blk loc body => flat_list loc body
  end.
Definition unfold_all (c : list bop) : list leaf := flat_map flat_top c.
Definition as_bops (l : list leaf) : list bop := map (fun x => Leaf (fst x) (snd x)) l.

(* ---- GroupSingleQuditGatePass on one qudit's timeline -------------------------------------------
   the timeline of qudit q is a list of (id, is_single); maximal runs of single-qudit gates
   are folded into one block each; multi-qudit gates (and barriers etc.) stay *)
Inductive item := Group (ids : list nat) | Multi (id : nat).
Fixpoint group_runs (run : list nat) (tl : list (nat * bool)) : list item :=
  match tl with
  | [] => match run with [] => [] | _ => [Group (rev run)] end
  | (id, true) :: tl' => group_runs (id :: run) tl'
  | (id, false) :: tl' => match run with
                          | [] => Multi id :: group_runs [] tl'
                          | _ => Group (rev run) :: Multi id :: group_runs [] tl'
                          end
  end.
Definition group_single (tl : list (nat * bool)) : list item := group_runs [] tl.
Definition ungroup (l : list item) : list nat :=
  flat_map (fun i => match i with Group ids => ids | Multi id => [id] end) l.

(* ---- conversion passes (ToU3Pass, ToVariablePass, BlockConversionPass): every selected
   operation is replaced, at the same place, by another gate on the same location ---------------- *)
Section Convert.
Variable op : Type.
Variable selected : op -> bool.
Variable conv : op -> op.
Definition convert (c : list op) : list op := map (fun o => if selected o then conv o else o) c.
End Convert.

(* ---- CompressPass: circuit.compress() re-appends every operation; an appended operation
   lands in the first cycle after the last one occupied on any of its qudits ---------------------- *)
Definition front := list (nat * nat).      (* qudit -> number of cycles used so far on it *)
Definition used (f : front) (q : nat) : nat :=
  match find (fun p => Nat.eqb (fst p) q) f with Some p => snd p | None => O end.
Definition place (f : front) (loc : list nat) : nat := fold_right (fun q m => Nat.max (used f q) m) O loc.
Definition bump (f : front) (loc : list nat) (c : nat) : front := map (fun q => (q, S c)) loc ++ f.
Fixpoint compress_aux (f : front) (c : list leaf) : list (nat * leaf) :=
  match c with
  | [] => []
  | (id, loc) :: c' => let k := place f loc in (k, (id, loc)) :: compress_aux (bump f loc k) c'
  end.
Definition compress (c : list leaf) : list (nat * leaf) := compress_aux [] c.
