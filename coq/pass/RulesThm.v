(* C10 (i): theorems about the rule-rewriting model of pass/Rules.v.
   Part 1: boolean equality of exact numbers/matrices is Leibniz equality.
   Part 2: the generic monoid argument -- replacing every source operation by a
           sub-sequence with the same denotation preserves the circuit's product.
   Part 3: postconditions (source gate gone, only advertised gates introduced,
           other operations untouched, locality). *)
From Coq Require Import ZArith List Bool Arith Lia.
Import ListNotations.
From BQ Require Import lib.Trace lib.Cyclo pass.Rules.

(* ---- Part 1 ----------------------------------------------------------------- *)
Lemma list_eqb_eq {A} (eqb : A -> A -> bool) (Heq : forall x y, eqb x y = true -> x = y) :
  forall a b : list A, Nat.eqb (length a) (length b) = true ->
    forallb (fun p => eqb (fst p) (snd p)) (combine a b) = true -> a = b.
Proof.
  induction a as [|x a IH]; intros [|y b] Hl Hf; simpl in *; try discriminate; auto.
  apply andb_true_iff in Hf as [H1 H2]. f_equal; [apply Heq; exact H1 | apply IH; assumption].
Qed.

Lemma Keqb_eq (a b : K) : Keqb a b = true -> a = b.
Proof.
  destruct a as [ca ea], b as [cb eb]. unfold Keqb.
  intros H. apply andb_true_iff in H as [He H]. apply andb_true_iff in H as [Hl Hf].
  apply Nat.eqb_eq in He. subst eb. f_equal.
  apply (list_eqb_eq Z.eqb); auto. intros x y. apply Z.eqb_eq.
Qed.

Lemma Meqb_eq (a b : Mat) : Meqb a b = true -> a = b.
Proof.
  unfold Meqb. intros H. apply andb_true_iff in H as [Hl Hf].
  apply (list_eqb_eq (fun r s : list K => Nat.eqb (length r) (length s) &&
           forallb (fun q => Keqb (fst q) (snd q)) (combine r s))); auto.
  intros r s Hrs. apply andb_true_iff in Hrs as [H1 H2].
  apply (list_eqb_eq Keqb); auto. exact Keqb_eq.
Qed.

(* ---- Part 2: the monoid argument -------------------------------------------- *)
Section Monoid.
Variable M : Type.
Variable mul : M -> M -> M.           (* sequential composition: mul x y = "x, then y" *)
Variable one : M.
Variable den : gop -> M.              (* any semantics of a placed gate *)
Hypothesis mul_assoc : forall x y z, mul x (mul y z) = mul (mul x y) z.
Hypothesis mul_one_l : forall x, mul one x = x.
Hypothesis mul_one_r : forall x, mul x one = x.

Fixpoint prod (s : list gop) : M := match s with [] => one | a :: s' => mul (den a) (prod s') end.

Lemma prod_app s t : prod (s ++ t) = mul (prod s) (prod t).
Proof. induction s; simpl; [symmetry; apply mul_one_l | rewrite IHs; apply mul_assoc]. Qed.

(* replacing a contiguous sub-sequence by one of equal denotation *)
Lemma prod_replace_sub s u u' t : prod u = prod u' -> prod (s ++ u ++ t) = prod (s ++ u' ++ t).
Proof. intros H. rewrite !prod_app. rewrite H. reflexivity. Qed.

Variable r : rule.
(* local soundness of the rule at the location of every source operation of c *)
Definition rule_sound_on (c : list gop) : Prop :=
  forall o, In o c -> is_src r o = true -> prod (map (relocate (snd o)) (r_repl r)) = den o.

Theorem rewrite_preserves_prod c : rule_sound_on c -> prod (rewrite r c) = prod c.
Proof.
  unfold rule_sound_on, rewrite. induction c as [|o c IH]; intros H; simpl; auto.
  rewrite prod_app. rewrite IH by (intros o' Ho'; apply H; right; exact Ho').
  f_equal. unfold expand. destruct (is_src r o) eqn:E.
  - apply H; [left; reflexivity | exact E].
  - simpl. apply mul_one_r.
Qed.
End Monoid.

(* ---- Part 3: postconditions -------------------------------------------------- *)
Lemma is_src_relocate r L g : is_src r (relocate L g) = is_src r g.
Proof. reflexivity. Qed.

Lemma count_kind_app k a b : count_kind k (a ++ b) = count_kind k a + count_kind k b.
Proof. unfold count_kind. rewrite filter_app, app_length. reflexivity. Qed.

Lemma count_kind_zero_iff k c :
  count_kind k c = 0 <-> forall o, In o c -> Nat.eqb (gate_kind (fst o)) k = false.
Proof.
  unfold count_kind. induction c as [|o c IH]; simpl.
  - split; auto. intros _ o [].
  - destruct (Nat.eqb (gate_kind (fst o)) k) eqn:E; simpl.
    + split; [discriminate|]. intros H. specialize (H o (or_introl eq_refl)). congruence.
    + rewrite IH. split; intros H o' Ho'.
      * destruct Ho' as [<-|Ho']; auto.
      * apply H. right. exact Ho'.
Qed.

(* the source gate is gone *)
Theorem rewrite_no_src r c :
  rule_src_free r = true -> count_kind (gate_kind (r_src r)) (rewrite r c) = 0.
Proof.
  intros Hf. apply count_kind_zero_iff. intros o Ho.
  unfold rewrite in Ho. apply in_flat_map in Ho as (o' & Ho' & Hin).
  unfold expand in Hin. destruct (is_src r o') eqn:E.
  - apply in_map_iff in Hin as (g & <- & Hg).
    unfold rule_src_free in Hf. rewrite forallb_forall in Hf. specialize (Hf g Hg).
    apply negb_true_iff in Hf. exact Hf.
  - destruct Hin as [<-|[]]. exact E.
Qed.

(* every operation of the result is an untouched non-source operation of the input
   or a relocated copy of an operation of the advertised replacement *)
Theorem rewrite_introduces_only r c o :
  In o (rewrite r c) ->
  (In o c /\ is_src r o = false) \/
  (exists o' g, In o' c /\ is_src r o' = true /\ In g (r_repl r) /\ o = relocate (snd o') g).
Proof.
  intros Ho. unfold rewrite in Ho. apply in_flat_map in Ho as (o' & Ho' & Hin).
  unfold expand in Hin. destruct (is_src r o') eqn:E.
  - apply in_map_iff in Hin as (g & <- & Hg). right. exists o', g. auto.
  - destruct Hin as [<-|[]]. left. auto.
Qed.

Corollary rewrite_kinds r c o :
  In o (rewrite r c) ->
  In (gate_kind (fst o)) (map (fun g => gate_kind (fst g)) c) /\ is_src r o = false
  \/ In (gate_kind (fst o)) (map (fun g => gate_kind (fst g)) (r_repl r)).
Proof.
  intros Ho. destruct (rewrite_introduces_only r c o Ho) as [[H1 H2]|(o' & g & _ & _ & Hg & ->)].
  - left. split; auto. apply in_map_iff. exists o. auto.
  - right. apply in_map_iff. exists g. auto.
Qed.

Theorem rewrite_fixpoint r c :
  (forall o, In o c -> is_src r o = false) -> rewrite r c = c.
Proof.
  unfold rewrite. induction c as [|o c IH]; intros H; simpl; auto.
  unfold expand at 1. rewrite (H o (or_introl eq_refl)). simpl. f_equal.
  apply IH. intros o' Ho'. apply H. right. exact Ho'.
Qed.

Theorem rewrite_idempotent r c :
  rule_src_free r = true -> rewrite r (rewrite r c) = rewrite r c.
Proof.
  intros Hf. apply rewrite_fixpoint. intros o Ho.
  pose proof (rewrite_no_src r c Hf) as Hz. rewrite count_kind_zero_iff in Hz. apply Hz. exact Ho.
Qed.

(* locality: the replacement only touches qudits of the replaced operation, so every
   other qudit's timeline is unchanged and the replaced one sees the new gates in place *)
Theorem relocate_local r L g q :
  rule_wf r = true -> In g (r_repl r) -> length L = r_width r ->
  In q (snd (relocate L g)) -> In q L.
Proof.
  intros Hwf Hg HL Hq. unfold rule_wf in Hwf. apply andb_true_iff in Hwf as [_ Hwf].
  rewrite forallb_forall in Hwf. specialize (Hwf g Hg).
  apply andb_true_iff in Hwf as [_ Hr]. rewrite forallb_forall in Hr.
  simpl in Hq. apply in_map_iff in Hq as (j & <- & Hj). specialize (Hr j Hj).
  apply Nat.ltb_lt in Hr. apply nth_In. lia.
Qed.

(* the gate count changes by (|replacement| - 1) per source occurrence *)
Theorem rewrite_length r c :
  length (rewrite r c) + count_kind (gate_kind (r_src r)) c
  = length c + count_kind (gate_kind (r_src r)) c * length (r_repl r).
Proof.
  unfold rewrite, count_kind. induction c as [|o c IH]; simpl; auto.
  rewrite app_length. unfold expand at 1. unfold is_src at 1.
  destruct (Nat.eqb (gate_kind (fst o)) (gate_kind (r_src r))); simpl; rewrite ?map_length; lia.
Qed.

(* timelines: a qudit that no source operation touches sees exactly the same
   sequence of operations before and after the pass *)
Theorem rewrite_untouched_qudit r c q :
  rule_wf r = true ->
  (forall o, In o c -> is_src r o = true -> length (snd o) = r_width r /\ ~ In q (snd o)) ->
  proj gop snd q (rewrite r c) = proj gop snd q c.
Proof.
  intros Hwf. unfold rewrite. induction c as [|o c IH]; intros H; simpl; auto.
  rewrite proj_app. rewrite IH by (intros o' Ho'; apply H; right; exact Ho').
  unfold expand. destruct (is_src r o) eqn:E.
  - destruct (H o (or_introl eq_refl) E) as [HL Hq].
    assert (Hn : proj gop snd q (map (relocate (snd o)) (r_repl r)) = []).
    { apply proj_none. intros b Hb. apply in_map_iff in Hb as (g & <- & Hg).
      destruct (touches gop snd q (relocate (snd o) g)) eqn:T; auto.
      apply touches_In in T. exfalso. apply Hq.
      eapply relocate_local; eauto. }
    rewrite Hn. simpl.
    destruct (touches gop snd q o) eqn:T; auto.
    apply touches_In in T. contradiction.
  - simpl. destruct (touches gop snd q o); reflexivity.
Qed.
