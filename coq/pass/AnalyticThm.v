(* C10 (iv): identities behind the analytic decompositions (see Analytic.v). *)
From Coq Require Import Ring Setoid.
From BQ Require Import pass.Analytic.

Lemma tuple4_eq {A} (a b c d a' b' c' d' : A) :
  a = a' -> b = b' -> c = c' -> d = d' -> (a, b, c, d) = (a', b', c', d').
Proof. intros; subst; reflexivity. Qed.

(* ---- Part A: Z-X-Z-X-Z --------------------------------------------------------------------------- *)
Section ZXZXZ.
Variable R : Type.
Variables (r0 r1 : R) (radd rmul rsub : R -> R -> R) (ropp : R -> R).
Hypothesis Rth : ring_theory r0 r1 radd rmul rsub ropp (@eq R).
Add Ring Rr : Rth.
Notation "x + y" := (radd x y). Notation "x * y" := (rmul x y). Notation "x - y" := (rsub x y). Notation "- x" := (ropp x).
Notation mmul := (mmul2 R radd rmul).
Notation RZ := (RZm R r0).
Notation SX := (SXm R r1 radd rmul ropp).

(* i, 1/2, and the half-angle phases a = e^{i l/2}, b = e^{i t/2}, c = e^{i p/2} with inverses *)
Variables i h a a' b b' c c' : R.
Hypothesis Hi : i * i = - r1.
Hypothesis Hh : h + h = r1.
Hypothesis Ha : a * a' = r1.
Hypothesis Hb : b * b' = r1.
Hypothesis Hc : c * c' = r1.

Definition sin_t := - i * h * (b - b').       (* sin(t/2) *)
Definition cos_t := h * (b + b').             (* cos(t/2) *)

Lemma hh : h * h + h * h = h.
Proof. rewrite <- (Rmul_1_l Rth h) at 5. rewrite <- Hh. ring. Qed.

(* SX . RZ(t) . SX = [[sin t/2, cos t/2], [cos t/2, -sin t/2]] *)
Lemma sx_rz_sx : mmul (SX i h) (mmul (RZ b b') (SX i h)) = (sin_t, cos_t, cos_t, - sin_t).
Proof.
  unfold mmul2, SXm, RZm, diag2, sin_t, cos_t. pose proof hh as H2.
  apply tuple4_eq.
  - transitivity ((h * h + h * h) * (i * b' - i * b) + h * h * (r1 + i * i) * (b' + b)); [ring|]. rewrite Hi, H2. ring.
  - transitivity ((h * h + h * h) * (b + b') - h * h * (r1 + i * i) * (b + b')); [ring|]. rewrite Hi, H2. ring.
  - transitivity ((h * h + h * h) * (b + b') - h * h * (r1 + i * i) * (b + b')); [ring|]. rewrite Hi, H2. ring.
  - transitivity ((h * h + h * h) * (i * b - i * b') + h * h * (r1 + i * i) * (b' + b)); [ring|]. rewrite Hi, H2. ring.
Qed.

(* C10_zxzxz_form: the emitted sequence RZ(l); SX; RZ(t); SX; RZ(p) (matrix product
   RZ(p).SX.RZ(t).SX.RZ(l)) equals e^{-i(p+l)/2} . U3(t - pi, p - pi, l), for all angles:
   cos((t-pi)/2) = sin(t/2), sin((t-pi)/2) = -cos(t/2), e^{i(p-pi)} = -c^2, e^{il} = a^2 *)
Theorem zxzxz_form :
  mmul (RZ c c') (mmul (SX i h) (mmul (RZ b b') (mmul (SX i h) (RZ a a'))))
  = scale2 R rmul (c' * a') (U3m R rmul ropp sin_t (- cos_t) (- (c * c)) (a * a)).
Proof.
  assert (E : mmul (SX i h) (mmul (RZ b b') (mmul (SX i h) (RZ a a')))
              = mmul (mmul (SX i h) (mmul (RZ b b') (SX i h))) (RZ a a')).
  { unfold mmul2, SXm, RZm, diag2. apply tuple4_eq; ring. }
  rewrite E, sx_rz_sx. unfold mmul2, RZm, diag2, scale2, U3m.
  apply tuple4_eq.
  - ring.
  - transitivity (c' * cos_t * a * (a * a')); [rewrite Ha; ring | ring].
  - transitivity (c * cos_t * a' * (c * c')); [rewrite Hc; ring | ring].
  - transitivity (- (c * sin_t * a) * (c * c') * (a * a')); [rewrite Hc, Ha; ring | ring].
Qed.

(* with always_use_u1 the pass emits U1 instead of RZ: U1(x) = e^{ix/2} RZ(x), one more phase *)
Theorem u1_is_rz_up_to_phase z z' : z * z' = r1 -> U1m R r0 r1 rmul z = scale2 R rmul z (RZ z z').
Proof. intros H. unfold U1m, RZm, diag2, scale2. apply tuple4_eq; try ring.
  rewrite <- H. ring.
Qed.
End ZXZXZ.

(* ---- Part B: demultiplexing and recombination ------------------------------------------------------ *)
Section QSD.
Variable B : Type.
Variables (b0 b1 : B) (badd bmul : B -> B -> B).
Notation "x * y" := (bmul x y).
Hypothesis mul_assoc : forall x y z, x * (y * z) = (x * y) * z.
Hypothesis mul_1_l : forall x, b1 * x = x.
Hypothesis mul_1_r : forall x, x * b1 = x.
Hypothesis add_0_l : forall x, badd b0 x = x.
Hypothesis add_0_r : forall x, badd x b0 = x.
Hypothesis mul_0_l : forall x, b0 * x = b0.
Hypothesis mul_0_r : forall x, x * b0 = b0.
Notation bmm := (bmmul B badd bmul).
Notation bd := (bdiag B b0).

(* the factorisation routine's contract (scipy schur / eig + sqrt): V D^2 V^-1 = u1 u2^-1,
   D' = D^-1, V' = V^-1, u2' = u2^-1 *)
Section Demux.
Variables u1 u2 u2' V V' D D' D2 : B.
Hypothesis HV : V * (D2 * V') = u1 * u2'.
Hypothesis HD : D * D = D2.
Hypothesis HD' : D' * D = b1.
Hypothesis HVV : V * V' = b1.
Hypothesis Hu2 : u2' * u2 = b1.
Definition W := D * (V' * u2).          (* left_mat = D @ V^H @ u2 *)

Lemma demux_upper : V * (D * W) = u1.
Proof.
  unfold W. rewrite (mul_assoc D D), HD. rewrite (mul_assoc D2 V' u2). rewrite (mul_assoc V).
  rewrite HV. rewrite <- mul_assoc, Hu2. apply mul_1_r.
Qed.
Lemma demux_lower : V * (D' * W) = u2.
Proof.
  unfold W. rewrite (mul_assoc D' D), HD', mul_1_l. rewrite mul_assoc, HVV. apply mul_1_l.
Qed.

Lemma bd_mul x y p q : bmm (bd x y) (bd p q) = bd (x * p) (y * q).
Proof. unfold bmmul, bdiag. rewrite !mul_0_l, !mul_0_r, !add_0_l, !add_0_r. reflexivity. Qed.

(* C10_qsd_demultiplex: u1 (+) u2 = (I (x) V) . (D (+) D^-1) . (I (x) W): the emitted
   [left gate W; multiplexed RZ; right gate V] denotes the block-diagonal input *)
Theorem demultiplex : bmm (bd V V) (bmm (bd D D') (bd W W)) = bd u1 u2.
Proof. rewrite !bd_mul, demux_upper, demux_lower. reflexivity. Qed.
End Demux.

(* C10_qsd_recombine: if the cosine-sine routine returned U = (u1 (+) u2) . CS . (v1 (+) v2)
   and both block-diagonal factors were demultiplexed as above, the emitted circuit
   [Wv; MPRZ_v; Vv; MPRY(CS); Wu; MPRZ_u; Vu] denotes U.  CS is any block matrix. *)
Theorem qsd_recombine (U CS : BM B) u1 u2 u2' Vu Vu' Du Du' D2u v1 v2 v2' Vv Vv' Dv Dv' D2v :
  U = bmm (bd u1 u2) (bmm CS (bd v1 v2)) ->
  Vu * (D2u * Vu') = u1 * u2' -> Du * Du = D2u -> Du' * Du = b1 -> Vu * Vu' = b1 -> u2' * u2 = b1 ->
  Vv * (D2v * Vv') = v1 * v2' -> Dv * Dv = D2v -> Dv' * Dv = b1 -> Vv * Vv' = b1 -> v2' * v2 = b1 ->
  bmm (bmm (bd Vu Vu) (bmm (bd Du Du') (bd (W u2 Vu' Du) (W u2 Vu' Du))))
      (bmm CS (bmm (bd Vv Vv) (bmm (bd Dv Dv') (bd (W v2 Vv' Dv) (W v2 Vv' Dv))))) = U.
Proof.
  intros HU A1 A2 A3 A4 A5 B1 B2 B3 B4 B5.
  rewrite (demultiplex u1 u2 u2' Vu Vu' Du Du' D2u A1 A2 A3 A4 A5).
  rewrite (demultiplex v1 v2 v2' Vv Vv' Dv Dv' D2v B1 B2 B3 B4 B5).
  symmetry. exact HU.
Qed.
End QSD.

(* ---- a concrete model of the ZXZXZ hypotheses: the field with 5 elements --------------------------
   (i = 2, 1/2 = 3; every non-zero element is a unit) -- used for non-vacuity in props/C10.v *)
Inductive F5 := f0 | f1 | f2 | f3 | f4.
Definition f5_of (n : nat) : F5 :=
  match Nat.modulo n 5 with 0 => f0 | 1 => f1 | 2 => f2 | 3 => f3 | _ => f4 end.
Definition f5_to (x : F5) : nat := match x with f0 => 0 | f1 => 1 | f2 => 2 | f3 => 3 | f4 => 4 end.
Definition f5_add x y := f5_of (f5_to x + f5_to y).
Definition f5_mul x y := f5_of (f5_to x * f5_to y).
Definition f5_opp x := f5_of (5 - f5_to x).
Definition f5_sub x y := f5_add x (f5_opp y).
Lemma F5_ring : ring_theory f0 f1 f5_add f5_mul f5_sub f5_opp (@eq F5).
Proof.
  constructor.
  - intros []; reflexivity.
  - intros [] []; reflexivity.
  - intros [] [] []; reflexivity.
  - intros []; reflexivity.
  - intros [] []; reflexivity.
  - intros [] [] []; reflexivity.
  - intros [] [] []; reflexivity.
  - intros [] []; reflexivity.
  - intros []; reflexivity.
Qed.

(* ---- Part C: the location handed to the multiplexor decomposition, ANY target position ------------- *)
From Coq Require Import ZArith List Arith Lia Permutation.
Import ListNotations.

Theorem mgd_loc_spec t loc : t < length loc ->
  removelast (mgd_loc t loc) = selects t loc /\ last (mgd_loc t loc) O = nth t loc O
  /\ Permutation loc (mgd_loc t loc).
Proof.
  intros H. unfold mgd_loc, selects. rewrite app_assoc. split; [|split].
  - apply removelast_last.
  - apply last_last.
  - rewrite <- app_assoc.
    rewrite <- (firstn_skipn t loc) at 1.
    apply Permutation_app_head.
    assert (E : skipn t loc = nth t loc O :: skipn (S t) loc).
    { clear -H. revert t H. induction loc as [|x l IH]; intros t H; simpl in H; [lia|].
      destruct t; simpl; auto. apply IH. lia. }
    rewrite E. apply Permutation_cons_append.
Qed.

(* the cyclic rotation agrees with it exactly when the target is first or last ... *)
Theorem rot_loc_first loc : loc <> [] -> rot_loc 0 loc = mgd_loc 0 loc.
Proof. unfold rot_loc, mgd_loc. destruct loc; [congruence | reflexivity]. Qed.
Theorem rot_loc_last loc : loc <> [] -> rot_loc (length loc - 1) loc = mgd_loc (length loc - 1) loc.
Proof.
  intros H. unfold rot_loc, mgd_loc.
  assert (E : S (length loc - 1) = length loc) by (destruct loc; [congruence | simpl; lia]).
  rewrite E, skipn_all, firstn_all. simpl.
  rewrite <- (firstn_skipn (length loc - 1) loc) at 1. f_equal.
  assert (L : length (skipn (length loc - 1) loc) = 1) by (rewrite skipn_length; lia).
  destruct (skipn (length loc - 1) loc) as [|x [|y r]] eqn:S1; try discriminate.
  f_equal. rewrite <- (firstn_skipn (length loc - 1) loc) at 2.
  rewrite app_nth2 by (rewrite firstn_length; lia).
  rewrite firstn_length, Nat.min_l by lia. rewrite Nat.sub_diag, S1. reflexivity.
Qed.
(* ... and not in between: the select qudits come out permuted (the seeded change C10-A) *)
Theorem rot_loc_middle_refuted : removelast (rot_loc 1 [7; 8; 9]) <> selects 1 [7; 8; 9].
Proof. discriminate. Qed.

(* ---- Part D: one level of multiplexor decomposition, per value of the remaining selects ---------------
   R : angle -> operator on the target (RY or RZ), X = the NOT conjugating it to the opposite
   angle.  Emitted, in program order: R(l); CNOT; R(r); CNOT.  On the branch where the first
   select is 0 the CNOTs act as identity, on the branch 1 as X. *)
Section Multiplexor.
Variable M : Type.
Variables (mul : M -> M -> M) (one : M) (X : M) (R : Z -> M).
Hypothesis mul_assoc : forall x y z, mul x (mul y z) = mul (mul x y) z.
Hypothesis mul_1_l : forall x, mul one x = x.
Hypothesis R_add : forall a b, mul (R a) (R b) = R (a + b)%Z.
Hypothesis X_conj : forall a, mul X (mul (R a) X) = R (- a)%Z.

Theorem mpx_branch0 l r : mul (R r) (R l) = R (l + r)%Z.
Proof. rewrite R_add. f_equal. apply Z.add_comm. Qed.
Theorem mpx_branch1 l r : mul X (mul (R r) (mul X (R l))) = R (l - r)%Z.
Proof.
  rewrite (mul_assoc (R r)), (mul_assoc X). rewrite X_conj, R_add. f_equal. lia.
Qed.
End Multiplexor.
