(* C03 - how `data.target` flows through a direct-synthesis workflow (definitions only).

   gen/WfTarget.v (regenerated from the live Workflow objects of build_workflow on every
   run by harness/gen/gen_wf_target.py) contains terms of [wf]; [check] is the boolean
   checker run on them by vm_compute; pass/SkeletonWfThm.v proves it sound w.r.t. the
   relational semantics [runs].

   Abstract state of (circuit, data) as far as C03 cares:
     a_t     what data.target currently is: the PassData default (TUnset = unitary of the
             placeholder circuit handed to the compiler), the user's input (TUser), anything else
     a_impl  the circuit was produced FOR the current target (synthesized against it, or kept
             within threshold of it by a pass that re-instantiates against data.target)
     a_ok    no block-level sub-workflow lost its own target *)
From Coq Require Import List Bool Relation_Operators.
Import ListNotations.

Inductive tstate := TUnset | TUser | TOther.

Inductive kind :=
| KSetTarget (user : bool)  (* SetTargetPass(t); user = `t is the object given to compile()` *)
| KSynth                    (* QSearchSynthesisPass / LEAPSynthesisPass: SynthesisPass.run *)
| KPas                      (* PermutationAwareSynthesisPass around one of them *)
| KReadsTarget              (* re-instantiates the circuit against data.target (ScanningGateRemovalPass) *)
| KNeutral                  (* run() neither reads nor writes data.target *)
| KWritesTarget.            (* any other pass whose run() assigns data.target *)

Inductive wf :=
| Leaf (k : kind)
| Seq (l : list wf)
| Ite (t e : wf)            (* IfThenElsePass: the predicate is left free *)
| Loop (b : wf)             (* WhileLoopPass: zero or more runs of the body *)
| Block (b : wf).           (* ForEachBlockPass: body runs on PassData(block), target = the block's own unitary *)

Record astate := mkA { a_t : tstate; a_impl : bool; a_ok : bool }.

Definition tstate_eqb (a b : tstate) : bool :=
  match a, b with TUnset, TUnset | TUser, TUser | TOther, TOther => true | _, _ => false end.
Definition astate_eqb (a b : astate) : bool :=
  tstate_eqb (a_t a) (a_t b) && Bool.eqb (a_impl a) (a_impl b) && Bool.eqb (a_ok a) (a_ok b).

Definition step (k : kind) (s : astate) : astate :=
  match k with
  | KSetTarget true => mkA TUser false (a_ok s)
  | KSetTarget false => mkA TOther false (a_ok s)
  | KSynth | KPas => mkA (a_t s) true (a_ok s)
  | KReadsTarget => s           (* keeps the circuit within threshold of data.target if it was *)
  | KNeutral => s
  | KWritesTarget => mkA TOther false (a_ok s)
  end.

(* what compile() hands to the compiler: a placeholder circuit, default PassData *)
Definition top_init : astate := mkA TUnset false true.
(* PassData(subcircuit) inside ForEachBlockPass: the target is the block's own unitary and the
   block implements it *)
Definition block_init : astate := mkA TUser true true.

Definition good (s : astate) : bool := tstate_eqb (a_t s) TUser && a_impl s && a_ok s.
Definition spoil (s : astate) : astate := mkA (a_t s) (a_impl s) false.

(* ---- finite sets of abstract states as lists --------------------------------------- *)
Definition mem (s : astate) (l : list astate) : bool := existsb (astate_eqb s) l.
Fixpoint union (a b : list astate) : list astate :=
  match a with [] => b | x :: r => if mem x b then union r b else x :: union r b end.
Definition subset (a b : list astate) : bool := forallb (fun x => mem x b) a.

(* least set containing S and closed under f; None = no fixed point within the fuel *)
Fixpoint closure (f : list astate -> option (list astate)) (fuel : nat) (S : list astate) : option (list astate) :=
  match fuel with
  | O => None
  | S fuel' =>
    match f S with
    | None => None
    | Some S1 => if subset S1 S then Some S else closure f fuel' (union S1 S)
    end
  end.

Fixpoint execs (w : wf) (S : list astate) {struct w} : option (list astate) :=
  match w with
  | Leaf k => Some (union (map (step k) S) [])
  | Seq l =>
    (fix go (l : list wf) (S : list astate) {struct l} : option (list astate) :=
       match l with
       | [] => Some S
       | x :: r => match execs x S with Some S1 => go r S1 | None => None end
       end) l S
  | Ite t e =>
    match execs t S, execs e S with
    | Some a, Some b => Some (union a b)
    | _, _ => None
    end
  | Loop b => closure (execs b) 16 S
  | Block b =>
    match execs b [block_init] with
    | Some outs => if forallb good outs then Some S else Some (union (map spoil S) S)
    | None => None
    end
  end.

(* the checker: every way through the workflow ends with the user's target in data.target and
   a circuit produced for it *)
Definition check (w : wf) : bool :=
  match execs w [top_init] with
  | Some outs => forallb good outs
  | None => false
  end.

(* ---- relational semantics ------------------------------------------------------------ *)
(* [runs w s s']: one possible execution of w takes abstract state s to s' *)
Fixpoint runs (w : wf) (s s' : astate) {struct w} : Prop :=
  match w with
  | Leaf k => s' = step k s
  | Seq l =>
    (fix go (l : list wf) (s : astate) {struct l} : Prop :=
       match l with
       | [] => s' = s
       | x :: r => exists s1, runs x s s1 /\ go r s1
       end) l s
  | Ite t e => runs t s s' \/ runs e s s'
  | Loop b => clos_refl_trans_1n astate (runs b) s s'
  | Block b =>
    ((forall x, runs b block_init x -> good x = true) /\ s' = s)
    \/ ((exists x, runs b block_init x /\ good x = false) /\ s' = spoil s)
  end.

(* semantic statement proved from [check w = true] *)
Definition target_preserved (w : wf) : Prop :=
  forall s', runs w top_init s' -> a_t s' = TUser /\ a_impl s' = true /\ a_ok s' = true.
