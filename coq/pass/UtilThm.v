(* C10 (ii): theorems about pass/Util.v *)
From Coq Require Import List Arith Bool Lia.
Import ListNotations.
From BQ Require Import lib.Trace pass.Util.

(* ---- unfold ------------------------------------------------------------------------------------ *)
Lemma flat_blk outer loc body : flat outer (Blk loc body) = flat_list (reloc outer loc) body.
Proof. unfold flat_list. simpl. induction body as [|x l IH]; simpl; auto; try (f_equal; exact IH). Qed.

(* unfolding is idempotent: nothing is left to unfold *)
Theorem unfold_idempotent c : unfold_all (as_bops (unfold_all c)) = unfold_all c.
Proof.
  unfold unfold_all at 1. unfold as_bops. generalize (unfold_all c) as l.
  induction l as [|[id loc] l IH]; simpl; auto. rewrite IH. reflexivity.
Qed.

(* a circuit without blocks is untouched *)
Theorem unfold_leaves l : unfold_all (as_bops l) = l.
Proof. unfold unfold_all, as_bops. induction l as [|[id loc] l IH]; simpl; auto. rewrite IH. reflexivity. Qed.

(* unfolding distributes over program order: operations before/after a block keep their
   place, the block's body appears in its place, in its own order *)
Theorem unfold_app a b : unfold_all (a ++ b) = unfold_all a ++ unfold_all b.
Proof. unfold unfold_all. apply flat_map_app. Qed.

(* locality: a block's contents only touch qudits of the block *)
Fixpoint in_range (k : nat) (o : bop) : bool :=
  match o with
  | Leaf _ loc => forallb (fun j => Nat.ltb j k) loc
  | Blk loc body => forallb (fun j => Nat.ltb j k) loc &&
                    (fix go (l : list bop) := match l with [] => true | x :: l' => in_range (length loc) x && go l' end) body
  end.

Lemma reloc_In outer loc q : forallb (fun j => Nat.ltb j (length outer)) loc = true -> In q (reloc outer loc) -> In q outer.
Proof.
  intros H Hq. unfold reloc in Hq. apply in_map_iff in Hq as (j & <- & Hj).
  rewrite forallb_forall in H. specialize (H j Hj). apply Nat.ltb_lt in H. apply nth_In. exact H.
Qed.

Lemma reloc_length outer loc : length (reloc outer loc) = length loc.
Proof. apply map_length. Qed.

Theorem flat_local : forall o outer x q,
  in_range (length outer) o = true -> In x (flat outer o) -> In q (snd x) -> In q outer.
Proof.
  fix IH 1. intros [id loc|loc body] outer x q Hr Hx Hq.
  - simpl in Hx. destruct Hx as [<-|[]]. simpl in *. eapply reloc_In; eauto.
  - simpl in Hr. apply andb_true_iff in Hr as [Hl Hb].
    rewrite flat_blk in Hx. unfold flat_list in Hx.
    induction body as [|y body IHb]; simpl in Hx; [destruct Hx|].
    apply andb_true_iff in Hb as [Hy Hb].
    apply in_app_or in Hx as [Hx|Hx].
    + eapply reloc_In; [exact Hl|]. eapply IH; [|exact Hx|exact Hq]. rewrite reloc_length. exact Hy.
    + apply IHb; assumption.
Qed.

(* hence a qudit outside every block keeps its timeline under unfold_all *)
Theorem unfold_untouched_qudit c q :
  (forall loc body, In (Blk loc body) c -> in_range (length loc) (Blk (seq 0 (length loc)) body) = true /\ ~ In q loc) ->
  proj leaf snd q (unfold_all c) =
  proj leaf snd q (flat_map (fun o => match o with Leaf id loc => [(id, loc)] | Blk _ _ => [] end) c).
Proof.
  intros H. unfold unfold_all. induction c as [|o c IH]; simpl; auto.
  rewrite !proj_app. rewrite IH by (intros loc body Hb; apply H; right; exact Hb). f_equal.
  destruct o as [id loc|loc body]; simpl; auto.
  destruct (H loc body (or_introl eq_refl)) as [Hr Hq].
  apply proj_none. intros x Hx. destruct (touches leaf snd q x) eqn:T; auto. exfalso. apply Hq.
  apply touches_In in T. unfold flat_list in Hx. apply in_flat_map in Hx as (y & Hy & Hx).
  eapply flat_local; [|exact Hx|exact T].
  simpl in Hr. apply andb_true_iff in Hr as [_ Hr]. rewrite seq_length in Hr.
  clear - Hr Hy. induction body as [|z body IHb]; [destruct Hy|].
  apply andb_true_iff in Hr as [Hz Hr]. destruct Hy as [<-|Hy]; auto.
Qed.

(* ---- group single-qudit gates ------------------------------------------------------------------- *)
Lemma group_runs_ungroup tl : forall run,
  ungroup (group_runs run tl) = rev run ++ map fst tl.
Proof.
  induction tl as [|[id b] tl IH]; intros run; simpl.
  - destruct run; simpl; [reflexivity | rewrite !app_nil_r; reflexivity].
  - destruct b.
    + rewrite IH. simpl. rewrite <- app_assoc. reflexivity.
    + destruct run as [|r run]; simpl; rewrite IH; simpl; auto; try (rewrite <- app_assoc; reflexivity).
Qed.

(* grouping loses nothing and keeps the order: unfolding the groups gives the timeline back *)
Theorem group_single_ungroup tl : ungroup (group_single tl) = map fst tl.
Proof. unfold group_single. rewrite group_runs_ungroup. reflexivity. Qed.

(* groups are non-empty, contain single-qudit gates only, and are maximal (no two adjacent) *)
Fixpoint well_grouped (prev_group : bool) (l : list item) : bool :=
  match l with
  | [] => true
  | Group ids :: l' => negb prev_group && negb (match ids with [] => true | _ => false end) && well_grouped true l'
  | Multi _ :: l' => well_grouped false l'
  end.
Lemma group_runs_well tl : forall run, well_grouped false (group_runs run tl) = true.
Proof.
  induction tl as [|[id b] tl IH]; intros run; simpl.
  - destruct run as [|r run]; simpl; auto. destruct (rev run ++ [r]) eqn:E; auto. destruct (rev run); discriminate.
  - destruct b; [apply IH|].
    destruct run as [|r run]; simpl; [apply IH|].
    destruct (rev run ++ [r]) eqn:E; [destruct (rev run); discriminate|]. simpl. apply IH.
Qed.
Theorem group_single_well tl : well_grouped false (group_single tl) = true.
Proof. apply group_runs_well. Qed.

Lemma group_runs_single tl : forall run ids id,
  (forall x, In x run -> In (x, true) tl \/ True) ->
  In (Group ids) (group_runs run tl) -> In id ids -> In id run \/ In (id, true) tl.
Proof.
  induction tl as [|[i b] tl IH]; intros run ids id _ Hg Hi; simpl in Hg.
  - destruct run; [destruct Hg|]. destruct Hg as [Hg|[]]. inversion Hg; subst. left. apply in_rev. exact Hi.
  - destruct b.
    + destruct (IH (i :: run) ids id (fun _ _ => or_intror I) Hg Hi) as [[<-|H]|H]; [right; left; reflexivity | left; exact H | right; right; exact H].
    + destruct run as [|r run].
      * destruct Hg as [Hg|Hg]; [discriminate|].
        destruct (IH [] ids id (fun _ _ => or_intror I) Hg Hi) as [[]|H]. right. right. exact H.
      * destruct Hg as [Hg|[Hg|Hg]]; [inversion Hg; subst; left; apply in_rev; exact Hi | discriminate |].
        destruct (IH [] ids id (fun _ _ => or_intror I) Hg Hi) as [[]|H]. right. right. exact H.
Qed.
(* only single-qudit gates are grouped *)
Theorem group_single_only_singles tl ids id :
  In (Group ids) (group_single tl) -> In id ids -> In (id, true) tl.
Proof. intros Hg Hi. destruct (group_runs_single tl [] ids id (fun _ _ => or_intror I) Hg Hi) as [[]|H]. exact H. Qed.

(* ---- conversions: same places, equal denotations => equal product --------------------------------- *)
Section ConvertThm.
Variable op : Type.
Variable loc : op -> list nat.
Variable selected : op -> bool.
Variable conv : op -> op.
Hypothesis conv_loc : forall o, loc (conv o) = loc o.

Theorem convert_locations c : map loc (convert op selected conv c) = map loc c.
Proof. unfold convert. rewrite map_map. apply map_ext. intros o. destruct (selected o); auto. Qed.

Theorem convert_timeline_shape c q :
  map loc (proj op loc q (convert op selected conv c)) = map loc (proj op loc q c).
Proof.
  unfold convert, proj. induction c as [|o c IH]; simpl; auto.
  assert (E : touches op loc q (if selected o then conv o else o) = touches op loc q o).
  { unfold touches. destruct (selected o); [rewrite conv_loc|]; reflexivity. }
  rewrite E. destruct (touches op loc q o); simpl; [|exact IH].
  f_equal; [destruct (selected o); auto | exact IH].
Qed.

Variable M : Type.
Variable mul : M -> M -> M.
Variable one : M.
Variable den : op -> M.
(* the calc_params / get_params contract of the target gate (C18), an oracle here *)
Hypothesis conv_den : forall o, selected o = true -> den (conv o) = den o.

Theorem convert_preserves_product c :
  fold_right (fun o acc => mul (den o) acc) one (convert op selected conv c)
  = fold_right (fun o acc => mul (den o) acc) one c.
Proof.
  unfold convert. induction c as [|o c IH]; simpl; auto. rewrite IH.
  destruct (selected o) eqn:E; [rewrite conv_den by exact E|]; reflexivity.
Qed.
End ConvertThm.

(* ---- compress: the cycle of an operation is strictly after everything placed before it on
   any of its qudits (so each qudit sees its operations in program order), and it is tight -------- *)
Lemma used_bump_in f loc c q : In q loc -> used (bump f loc c) q = S c.
Proof.
  unfold used, bump. induction loc as [|x loc IH]; simpl; [intros []|].
  intros [->|H].
  - rewrite Nat.eqb_refl. reflexivity.
  - destruct (Nat.eqb x q) eqn:E; [reflexivity|]. apply IH. exact H.
Qed.
Lemma used_bump_out f loc c q : ~ In q loc -> used (bump f loc c) q = used f q.
Proof.
  unfold used, bump. induction loc as [|x loc IH]; simpl; auto.
  intros H. destruct (Nat.eqb x q) eqn:E.
  - apply Nat.eqb_eq in E. exfalso. apply H. left. exact E.
  - apply IH. intros Hq. apply H. right. exact Hq.
Qed.
Lemma place_ge f loc q : In q loc -> used f q <= place f loc.
Proof. unfold place. induction loc as [|x loc IH]; simpl; [intros []|]. intros [->|H]; [lia | specialize (IH H); lia]. Qed.

(* every later operation sharing a qudit with an earlier one lands in a strictly later cycle *)
Theorem compress_order : forall c f k x j y,
  In (k, x) (compress_aux f c) ->
  (forall q, In q (snd x) -> used f q <= k) /\
  (forall pre post, compress_aux f c = pre ++ (k, x) :: post -> In (j, y) post ->
     (exists q, In q (snd x) /\ In q (snd y)) -> k < j).
Proof.
  induction c as [|[id loc] c IH]; intros f k x j y Hin; simpl in Hin; [destruct Hin|].
  split.
  - destruct Hin as [Hin|Hin].
    + inversion Hin; subst. simpl. intros q Hq. apply place_ge. exact Hq.
    + destruct (IH _ _ _ j y Hin) as [H1 _]. intros q Hq. specialize (H1 q Hq).
      destruct (in_dec Nat.eq_dec q loc) as [Hl|Hl].
      * rewrite used_bump_in in H1 by exact Hl. pose proof (place_ge f loc q Hl). lia.
      * rewrite used_bump_out in H1 by exact Hl. exact H1.
  - intros pre post E Hj (q & Hqx & Hqy). simpl in E.
    destruct pre as [|p pre]; simpl in E.
    + inversion E; subst. simpl in *.
      destruct (IH _ _ _ j y Hj) as [H1 _]. specialize (H1 q Hqy).
      rewrite used_bump_in in H1 by exact Hqx. lia.
    + inversion E; subst.
      assert (Hin' : In (k, x) (compress_aux (bump f loc (place f loc)) c)) by (rewrite H1; apply in_or_app; right; left; reflexivity).
      destruct (IH _ _ _ j y Hin') as [_ H2]. eapply H2; eauto.
Qed.
